/-
  Round trip of `encoding/json` on generated Go types: lemmas per IR kind and the induction.
-/
import Cog.Sem.CodecLemmas
import Cog.Sem.AnyLemmas
import Cog.OMap.Lemmas
namespace Cog.Sem
open Cog.IR GoVal

/-- what the induction carries for a decoded value -/
structure Good (t : Ty) (j : Json) (v : GoVal) : Prop where
  enc_sub : Json.sub (goEncode v) j = true
  sub_enc : Json.sub j (goEncode v) = true
  empty : v.isEmpty = true →
    j.isNull = true ∨ ((t.isArray || t.isMap) && isEmptyColl j) = true ∨
      (t.getMeta.nullable = false ∧ isCollOrAny t = false)

theorem encList_eq (vs : List GoVal) : encList vs = vs.map goEncode := by
  induction vs with
  | nil => rfl
  | cons v vs ih => simp [encList, ih]

/-! ### scalars -/

theorem sub_refl_atom (j : Json) (h : ∀ xs, j ≠ .arr xs) (h2 : ∀ ms, j ≠ .obj ms) : Json.sub j j = true := by
  cases j <;> simp_all [Json.sub]

theorem denScalar_decode {kind : String} {j : Json} (hk : kind ≠ "any") (h : denScalar kind j = true) :
    j.isNull = false ∧ ∃ v, decodeScalar kind false j = .ok v ∧ goEncode v = j ∧
      (∀ x, v ≠ .ptr x) ∧ Json.sub j j = true := by
  unfold denScalar at h
  unfold decodeScalar
  by_cases h1 : kind = "string"
  · simp only [h1, if_true] at h ⊢
    cases j <;> simp_all [Json.isNull, goEncode, Json.sub]
  · simp only [h1, if_false] at h ⊢
    by_cases h2 : kind = "bool"
    · simp only [h2, if_true] at h ⊢
      cases j <;> simp_all [Json.isNull, goEncode, Json.sub]
    · simp only [h2, if_false, hk] at h ⊢
      by_cases h3 : kind = "float32" ∨ kind = "float64"
      · simp only [h3, if_true] at h ⊢
        cases j <;> simp_all [Json.isNull, goEncode, Json.sub]
      · simp only [h3, if_false] at h ⊢
        cases hr : intRange kind with
        | none => simp [hr] at h
        | some r =>
          obtain ⟨lo, hi⟩ := r
          simp only [hr] at h ⊢
          cases j <;> simp_all [Json.isNull, goEncode, Json.sub]
          rename_i q
          omega


theorem decodeScalar_any_null : decodeScalar "any" false .null = .ok .nil := by
  unfold decodeScalar; simp
theorem decodeScalar_any_nonnull (j : Json) (h : j.isNull = false) (he : anyExact j = true) :
    decodeScalar "any" false j = .ok (.iface j) := by
  unfold decodeScalar
  cases j <;> simp_all [Json.isNull]
theorem decodeScalar_dt (s : String) : decodeScalar "string" true (.str s) = .ok (.time s) := by
  unfold decodeScalar; simp

/-- the induction hypothesis at fuel `n` -/
def IH (n : Nat) (ss : Schemas) : Prop :=
  ∀ t j, den n ss t j = true → ∃ v, goDecode n ss t j = .ok v ∧ Good t j v

/-! ### arrays -/

theorem list_case {n : Nat} {ss : Schemas} (ih : IH n ss) (e : Ty) (xs : List Json)
    (h : xs.all (den n ss e) = true) :
    ∃ vs, mapRes (goDecode n ss e) xs = .ok vs ∧ vs.length = xs.length ∧
      Json.subList (encList vs) xs = true ∧ Json.subList xs (encList vs) = true := by
  induction xs with
  | nil => exact ⟨[], rfl, rfl, rfl, rfl⟩
  | cons x xs ihx =>
    simp only [List.all_cons, Bool.and_eq_true] at h
    obtain ⟨v, hv, g⟩ := ih e x h.1
    obtain ⟨vs, hvs, hl, s1, s2⟩ := ihx h.2
    refine ⟨v :: vs, ?_, by simp [hl], ?_, ?_⟩
    · simp [mapRes, hv, hvs, DRes.bind]
    · simp [encList, Json.subList, g.enc_sub, s1]
    · simp [encList, Json.subList, g.sub_enc, s2]


/-! ### maps -/

theorem keysNodup_iff (l : List (String × Json)) : keysNodup l = true ↔ (l.map (·.1)).Nodup := by
  induction l with
  | nil => simp [keysNodup]
  | cons e t ih =>
    obtain ⟨k, v⟩ := e
    simp only [keysNodup, Bool.and_eq_true, Bool.not_eq_true', List.any_eq_false, ih, List.map_cons,
      List.nodup_cons, List.mem_map, not_exists, not_and]
    constructor
    · rintro ⟨h1, h2⟩
      refine ⟨?_, h2⟩
      intro x hx c
      have := h1 x hx
      simp [c] at this
    · rintro ⟨h1, h2⟩
      refine ⟨?_, h2⟩
      intro x hx
      have := h1 x hx
      simp
      intro c; exact this c

open Cog.OMap in
theorem foldl_rset_fresh (l : List (String × GoVal)) (acc : List (String × GoVal))
    (nd : (l.map (·.1)).Nodup) (hd : ∀ k ∈ l.map (·.1), k ∉ acc.map (·.1)) :
    l.foldl (fun acc kv => rset kv.1 kv.2 acc) acc = acc ++ l := by
  induction l generalizing acc with
  | nil => simp
  | cons e t ih =>
    obtain ⟨k, v⟩ := e
    simp only [List.map_cons, List.nodup_cons] at nd
    simp only [List.foldl_cons]
    have hk : k ∉ Ref.keys acc := by
      have := hd k (by simp)
      simpa [Ref.keys] using this
    rw [rset_notin_keys k v acc hk, ih _ nd.2]
    · simp
    · intro k' hk'
      have h1 := hd k' (by simp [hk'])
      simp only [List.map_append, List.map_cons, List.map_nil, List.mem_append, List.mem_singleton, not_or]
      refine ⟨h1, ?_⟩
      intro c; subst c; exact nd.1 hk'

open Cog.OMap in
theorem lookup_encMap (k : String) (l : List (String × GoVal)) :
    Json.lookup k (encMap l) = (rget k l).map goEncode := by
  induction l with
  | nil => simp [encMap, Json.lookup, rget]
  | cons e t ih =>
    obtain ⟨a, b⟩ := e
    simp only [encMap, lookup_insertSorted, rget]
    by_cases c : a = k <;> simp [c, ih]

theorem mem_encMap {k : String} {x : Json} {l : List (String × GoVal)} (h : (k, x) ∈ encMap l) :
    ∃ gv, (k, gv) ∈ l ∧ x = goEncode gv := by
  induction l with
  | nil => simp [encMap] at h
  | cons e t ih =>
    obtain ⟨a, b⟩ := e
    simp only [encMap] at h
    cases mem_insertSorted h with
    | inl c => cases c; exact ⟨b, by simp, rfl⟩
    | inr c => obtain ⟨gv, h1, h2⟩ := ih c; exact ⟨gv, by simp [h1], h2⟩

open Cog.OMap in
theorem rget_of_mem_nodup {k : String} {v : GoVal} {l : List (String × GoVal)}
    (nd : (l.map (·.1)).Nodup) (h : (k, v) ∈ l) : rget k l = some v := by
  induction l with
  | nil => simp at h
  | cons e t ih =>
    obtain ⟨a, b⟩ := e
    simp only [List.map_cons, List.nodup_cons] at nd
    cases List.mem_cons.1 h with
    | inl c => cases c; simp [rget]
    | inr c =>
      have : ¬ a = k := by
        intro e; subst e
        exact nd.1 (List.mem_map.2 ⟨(a, v), c, rfl⟩)
      simp [rget, this, ih nd.2 c]

theorem map_case {n : Nat} {ss : Schemas} (ih : IH n ss) (vt : Ty) (kvs : List (String × Json))
    (nd : keysNodup kvs = true) (h : kvs.all (fun kv => den n ss vt kv.2) = true) :
    ∃ l, mapRes (fun (kv : String × Json) => (goDecode n ss vt kv.2).map fun x => (kv.1, x)) kvs = .ok l ∧
      l.length = kvs.length ∧
      Json.subMembers (encMap (l.foldl (fun acc kv => Cog.OMap.rset kv.1 kv.2 acc) [])) kvs = true ∧
      Json.subMembers kvs (encMap (l.foldl (fun acc kv => Cog.OMap.rset kv.1 kv.2 acc) [])) = true := by
  -- step 1: pointwise decoding
  have step1 : ∃ l, mapRes (fun (kv : String × Json) => (goDecode n ss vt kv.2).map fun x => (kv.1, x)) kvs = .ok l ∧
      All2 (fun (kv : String × Json) (gv : String × GoVal) =>
        gv.1 = kv.1 ∧ Json.sub (goEncode gv.2) kv.2 = true ∧ Json.sub kv.2 (goEncode gv.2) = true) kvs l := by
    clear nd
    induction kvs with
    | nil => exact ⟨[], rfl, .nil⟩
    | cons kv t iht =>
      simp only [List.all_cons, Bool.and_eq_true] at h
      obtain ⟨v, hv, g⟩ := ih vt kv.2 h.1
      obtain ⟨l, hl, ha⟩ := iht h.2
      refine ⟨(kv.1, v) :: l, ?_, ?_⟩
      · simp only [mapRes, hv, DRes.map, DRes.bind] at hl ⊢
        rw [hl]
      · exact .cons ⟨rfl, g.enc_sub, g.sub_enc⟩ ha
  obtain ⟨l, hl, ha⟩ := step1
  have hkeys : l.map (·.1) = kvs.map (·.1) :=
    ha.map_eq (·.1) (·.1) (fun _ _ h => h.1)
  have ndl : (l.map (·.1)).Nodup := by rw [hkeys]; exact (keysNodup_iff kvs).1 nd
  have hfold : l.foldl (fun acc kv => Cog.OMap.rset kv.1 kv.2 acc) [] = l := by
    have := foldl_rset_fresh l [] ndl (by simp)
    simpa using this
  refine ⟨l, hl, ha.length_eq.symm, ?_, ?_⟩
  · rw [hfold, subMembers_iff]
    rintro ⟨k, x⟩ hx
    obtain ⟨gv, hg, rfl⟩ := mem_encMap hx
    obtain ⟨kv, hkv, hk, hs1, _⟩ := ha.mem_right hg
    right
    simp only at hk
    refine ⟨kv.2, ?_, hs1⟩
    apply lookup_of_mem_nodup nd
    rw [hk]; exact hkv
  · rw [hfold, subMembers_iff]
    rintro ⟨k, jv⟩ hx
    obtain ⟨gv, hg, hk, _, hs2⟩ := ha.mem_left hx
    right
    simp only at hk hs2
    refine ⟨goEncode gv.2, ?_, hs2⟩
    rw [lookup_encMap, rget_of_mem_nodup ndl (v := gv.2)]
    · rfl
    · rw [← hk]; exact hg


/-! ### struct fields -/

theorem namesNodup_iff (l : List String) : namesNodup l = true ↔ l.Nodup := by
  induction l with
  | nil => simp [namesNodup]
  | cons a t ih => simp [namesNodup, ih]

theorem memberFor_eq_lookup (names : List String) (name : String) (members : List (String × Json))
    (nd : keysNodup members = true) (hsub : ∀ kv ∈ members, names.contains kv.1 = true) :
    memberFor names name members = Json.lookup name members := by
  unfold memberFor
  induction members with
  | nil => simp [Json.lookup]
  | cons e t ih =>
    obtain ⟨k, v⟩ := e
    have hk : targetField names k = some k := by
      have := hsub (k, v) (by simp)
      simp only at this
      simp only [targetField, this, if_true]
    simp only [keysNodup, Bool.and_eq_true, Bool.not_eq_true', List.any_eq_false] at nd
    have iht := ih nd.2 (fun kv hkv => hsub kv (by simp [hkv]))
    simp only [List.filter_cons, hk]
    by_cases c : k = name
    · subst c
      simp only [beq_self_eq_true, if_true, Json.lookup]
      have hempty : t.filter (fun kv => targetField names kv.1 == some k) = [] := by
        rw [List.filter_eq_nil_iff]
        intro kv hkv
        have h1 : targetField names kv.1 = some kv.1 := by
          have := hsub kv (by simp [hkv])
          simp only [targetField, this, if_true]
        have h2 := nd.1 kv hkv
        simp [h1]
        intro c; simp [c] at h2
      simp [hempty]
    · have : (some k == some name) = false := by simp [c]
      simp only [this, Json.lookup, c, if_false]
      exact iht

theorem mem_encFields {k : String} {x : Json} {fl : List (String × Bool × GoVal)}
    (h : (k, x) ∈ encFields fl) : ∃ om gv, (k, om, gv) ∈ fl ∧ x = goEncode gv := by
  induction fl with
  | nil => simp [encFields] at h
  | cons e t ih =>
    obtain ⟨a, om, gv⟩ := e
    simp only [encFields] at h
    split at h
    · obtain ⟨om', gv', h1, h2⟩ := ih h
      exact ⟨om', gv', by simp [h1], h2⟩
    · cases List.mem_cons.1 h with
      | inl c => cases c; exact ⟨om, gv, by simp, rfl⟩
      | inr c =>
        obtain ⟨om', gv', h1, h2⟩ := ih c
        exact ⟨om', gv', by simp [h1], h2⟩

theorem lookup_encFields {k : String} {om : Bool} {gv : GoVal} {fl : List (String × Bool × GoVal)}
    (nd : (fl.map (·.1)).Nodup) (h : (k, om, gv) ∈ fl) (hne : (om && isEmpty gv) = false) :
    Json.lookup k (encFields fl) = some (goEncode gv) := by
  induction fl with
  | nil => simp at h
  | cons e t ih =>
    obtain ⟨a, om', gv'⟩ := e
    simp only [List.map_cons, List.nodup_cons] at nd
    cases List.mem_cons.1 h with
    | inl c =>
      cases c
      simp [encFields, hne, Json.lookup]
    | inr c =>
      have hne' : ¬ a = k := by
        intro e; subst e
        exact nd.1 (List.mem_map.2 ⟨(a, om, gv), c, rfl⟩)
      simp only [encFields]
      split
      · exact ih nd.2 c
      · simp [Json.lookup, hne', ih nd.2 c]

theorem fields_case {n : Nat} {ss : Schemas} (ih : IH n ss) (fields : List Field)
    (members : List (String × Json))
    (ndm : keysNodup members = true) (ndf : namesNodup (fields.map (·.name)) = true)
    (hsub : members.all (fun kv => (fields.map (·.name)).contains kv.1) = true)
    (hden : denFieldsWith (den n ss) fields members = true) :
    ∃ fl, decodeFieldsWith (goDecode n ss) fields members = .ok fl ∧
      Json.subMembers (encFields fl) members = true ∧ Json.subMembers members (encFields fl) = true := by
  have hsub' : ∀ kv ∈ members, (fields.map (·.name)).contains kv.1 = true := by
    simpa [List.all_eq_true] using hsub
  have hfun : (fun (f : Field) =>
          (goDecode n ss f.ty ((memberFor (fields.map (·.name)) f.name members).getD .null)).map
            fun v => (f.name, !f.required, v)) =
      (fun (f : Field) =>
          (goDecode n ss f.ty ((Json.lookup f.name members).getD .null)).map
            fun v => (f.name, !f.required, v)) := by
    funext f
    rw [memberFor_eq_lookup _ _ _ ndm hsub']
  -- per-field decoding
  have step : ∀ fs : List Field, (∀ f ∈ fs, f ∈ fields) →
      ∃ fl, mapRes (fun (f : Field) =>
          (goDecode n ss f.ty ((Json.lookup f.name members).getD .null)).map
            fun v => (f.name, !f.required, v)) fs = .ok fl ∧
        All2 (fun (f : Field) (e : String × Bool × GoVal) =>
          e.1 = f.name ∧ e.2.1 = !f.required ∧
            Good f.ty ((Json.lookup f.name members).getD .null) e.2.2) fs fl := by
    intro fs
    induction fs with
    | nil => intro _; exact ⟨[], rfl, .nil⟩
    | cons f t iht =>
      intro hmem
      have hf : f ∈ fields := hmem f (by simp)
      have hdf := (List.all_eq_true.1 hden) f hf
      simp only [Bool.and_eq_true] at hdf
      have hdenj : den n ss f.ty ((Json.lookup f.name members).getD .null) = true := by
        cases hl : Json.lookup f.name members with
        | none => simp [hl] at hdf; simpa using hdf.2.2
        | some v => simp [hl] at hdf; simpa using hdf.2.1
      obtain ⟨v, hv, g⟩ := ih f.ty _ hdenj
      obtain ⟨fl, hfl, ha⟩ := iht (fun f' hf' => hmem f' (by simp [hf']))
      refine ⟨(f.name, !f.required, v) :: fl, ?_, .cons ⟨rfl, rfl, g⟩ ha⟩
      simp only [mapRes, hv, DRes.map, DRes.bind] at hfl ⊢
      rw [hfl]
  obtain ⟨fl, hfl, ha⟩ := step fields (fun _ h => h)
  have hkeys : fl.map (·.1) = fields.map (·.name) :=
    ha.map_eq (·.name) (·.1) (fun _ _ h => h.1)
  have ndfl : (fl.map (·.1)).Nodup := by rw [hkeys]; exact (namesNodup_iff _).1 ndf
  refine ⟨fl, ?_, ?_, ?_⟩
  · unfold decodeFieldsWith; rw [hfun]; exact hfl
  · rw [subMembers_iff]
    rintro ⟨k, x⟩ hx
    obtain ⟨om, gv, hmem, rfl⟩ := mem_encFields hx
    obtain ⟨f, hf, hk, _, g⟩ := ha.mem_right hmem
    simp only at hk g
    cases hl : Json.lookup f.name members with
    | none =>
      left
      rw [hl] at g
      have := sub_null_right g.enc_sub
      simp [this, Json.isNull]
    | some v =>
      right
      rw [hl] at g
      exact ⟨v, by rw [hk]; exact hl, g.enc_sub⟩
  · rw [subMembers_iff]
    rintro ⟨k, v⟩ hx
    by_cases hnull : v.isNull = true
    · exact Or.inl hnull
    · right
      have hkn : k ∈ fields.map (·.name) := by
        have := hsub' (k, v) hx
        simpa using this
      obtain ⟨f, hf, hfk⟩ := List.mem_map.1 hkn
      obtain ⟨e, he, hk, hom, g⟩ := ha.mem_left hf
      have hl : Json.lookup f.name members = some v := by
        rw [hfk]; exact lookup_of_mem_nodup ndm hx
      rw [hl] at g
      simp only [Option.getD_some] at g
      obtain ⟨ek, eom, egv⟩ := e
      simp only at hk hom g
      subst hk hom
      refine ⟨goEncode egv, ?_, g.sub_enc⟩
      rw [← hfk]
      apply lookup_encFields ndfl he
      -- the field is not dropped by omitempty
      have hdf := (List.all_eq_true.1 hden) f hf
      simp only [Bool.and_eq_true, hl] at hdf
      obtain ⟨hshape, _, hval⟩ := hdf
      by_cases hreq : f.required = true
      · simp [hreq]
      · simp only [Bool.not_eq_true] at hreq
        cases hemp : isEmpty egv with
        | false => simp
        | true =>
          exfalso
          rcases g.empty hemp with h1 | h2 | h3
          · exact hnull h1
          · simp only [fieldValueOK, hreq, Bool.false_or, Bool.not_eq_true'] at hval
            simp only [Bool.and_eq_true] at h2
            simp [h2.1, h2.2] at hval
          · simp only [fieldShapeOK, hreq, Bool.false_or, h3.1, h3.2, Bool.or_self] at hshape
            exact Bool.false_ne_true hshape


/-! ### `any` -/

mutual
theorem ifaceEnc_noObjs : ∀ j : Json, noObjs j = true → ifaceEnc j = j
  | .null, _ | .bool _, _ | .num _, _ | .str _, _ => by simp [ifaceEnc]
  | .obj _, h => by simp [noObjs] at h
  | .arr xs, h => by
    simp only [noObjs] at h
    simp [ifaceEnc, ifaceEncList_noObjs xs h]
theorem ifaceEncList_noObjs : ∀ xs : List Json, noObjsList xs = true → ifaceEncList xs = xs
  | [], _ => rfl
  | x :: xs, h => by
    simp only [noObjsList, Bool.and_eq_true] at h
    simp [ifaceEncList, ifaceEnc_noObjs x h.1, ifaceEncList_noObjs xs h.2]
end

mutual
theorem sub_refl_noObjs : ∀ j : Json, noObjs j = true → Json.sub j j = true
  | .null, _ | .bool _, _ | .num _, _ | .str _, _ => by simp [Json.sub]
  | .obj _, h => by simp [noObjs] at h
  | .arr xs, h => by
    simp only [noObjs] at h
    simp [Json.sub, subList_refl_noObjs xs h]
theorem subList_refl_noObjs : ∀ xs : List Json, noObjsList xs = true → Json.subList xs xs = true
  | [], _ => rfl
  | x :: xs, h => by
    simp only [noObjsList, Bool.and_eq_true] at h
    simp [Json.subList, sub_refl_noObjs x h.1, subList_refl_noObjs xs h.2]
end

/-! ### unions -/

theorem encUnion_select (fields : List Field) (bn : String) (v : GoVal)
    (h : ∃ f ∈ fields, (f.name == bn) = true) :
    encUnion (fields.map fun f => (f.name, if f.name == bn then GoVal.ptr v else GoVal.nil)) = goEncode v := by
  induction fields with
  | nil => obtain ⟨f, hf, _⟩ := h; simp at hf
  | cons a t ih =>
    simp only [List.map_cons, encUnion]
    by_cases c : (a.name == bn) = true
    · simp [c, isNil, goEncode]
    · have c' : (a.name == bn) = false := by simpa using c
      simp only [c', isNil]
      apply ih
      obtain ⟨f, hf, hn⟩ := h
      cases List.mem_cons.1 hf with
      | inl e => subst e; rw [c'] at hn; exact absurd hn (by simp)
      | inr e => exact ⟨f, e, hn⟩

theorem scalar_dichotomy (k : String) (j : Json) (hk : knownScalar k = true) (hj : j.isNull = false) :
    denScalar k j = true ∨ (denScalar k j = false ∧ decodeScalar k false j = .err) := by
  unfold denScalar decodeScalar
  by_cases h1 : k = "string"
  · subst h1; cases j <;> simp_all [Json.isNull]
  · by_cases h2 : k = "bool"
    · subst h2; cases j <;> simp_all [Json.isNull]
    · by_cases h0 : k = "any"
      · subst h0; simp [knownScalar, intRange] at hk
      · by_cases h3 : k = "float32" ∨ k = "float64"
        · simp only [h1, h2, h0, h3, if_false, if_true]
          cases j <;> simp_all [Json.isNull]
        · simp only [h1, h2, h0, h3, if_false]
          cases hr : intRange k with
          | none =>
            simp [knownScalar, h1, h2, hr] at hk
            simp_all
          | some r =>
            obtain ⟨lo, hi⟩ := r
            cases j <;> simp_all [Json.isNull]
            rename_i q
            intro _ _; omega

theorem noNulls_isNull {j : Json} (h : noNulls j = true) : j.isNull = false := by
  cases j <;> simp_all [noNulls, Json.isNull]

theorem knownScalar_ne {k : String} (hk : knownScalar k = true) : k ≠ "any" ∧ k ≠ "bytes" := by
  constructor <;> (intro c; subst c; simp [knownScalar, intRange] at hk)

/-- decoding one element / one scalar branch: accepted exactly when in the document language -/
theorem scalar_elem (n : Nat) (ss : Schemas) (k : String) (val : Val) (cs : List Constraint) (m : Meta)
    (hk : knownScalar k = true) (hd : hasHint m "string_format_datetime" = false)
    (x : Json) (hx : noNulls x = true) :
    (den (n + 1) ss (.scalar k val cs m) x = true ∧
       ∃ v, goDecode (n + 1) ss (.scalar k val cs m) x = .ok v ∧ goEncode v = x ∧ v.isNil = false) ∨
    (den (n + 1) ss (.scalar k val cs m) x = false ∧ goDecode (n + 1) ss (.scalar k val cs m) x = .err) := by
  have hnn := noNulls_isNull hx
  obtain ⟨ha, hb⟩ := knownScalar_ne hk
  simp only [den, goDecode, hb, ha, if_false, hd, hnn, Bool.and_false, Bool.false_or, Bool.false_eq_true]
  rcases scalar_dichotomy k x hk hnn with h | ⟨h1, h2⟩
  · left
    obtain ⟨_, v, hv, henc, hptr, _⟩ := denScalar_decode ha h
    refine ⟨h, ?_⟩
    cases hm : m.nullable with
    | true => exact ⟨.ptr v, by simp [wrapPtr, hnn, hv, DRes.map, DRes.bind], by simp [goEncode, henc], rfl⟩
    | false =>
      refine ⟨v, by simp [wrapPtr, hv], henc, ?_⟩
      cases v with
      | nil => simp only [goEncode] at henc; subst henc; simp [Json.isNull] at hnn
      | _ => rfl
  · right
    refine ⟨h1, ?_⟩
    cases hm : m.nullable <;> simp [wrapPtr, hnn, h2, DRes.map, DRes.bind]

theorem scalar_list (n : Nat) (ss : Schemas) (k : String) (val : Val) (cs : List Constraint) (m : Meta)
    (hk : knownScalar k = true) (hd : hasHint m "string_format_datetime" = false)
    (xs : List Json) (hx : noNullsList xs = true) :
    (xs.all (den (n + 1) ss (.scalar k val cs m)) = true ∧
       ∃ vs, mapRes (goDecode (n + 1) ss (.scalar k val cs m)) xs = .ok vs ∧ encList vs = xs) ∨
    (xs.all (den (n + 1) ss (.scalar k val cs m)) = false ∧
       mapRes (goDecode (n + 1) ss (.scalar k val cs m)) xs = .err) := by
  induction xs with
  | nil => left; exact ⟨rfl, [], rfl, rfl⟩
  | cons x xs ih =>
    simp only [noNullsList, Bool.and_eq_true] at hx
    rcases scalar_elem n ss k val cs m hk hd x hx.1 with ⟨h1, v, hv, henc, _⟩ | ⟨h1, h2⟩
    · rcases ih hx.2 with ⟨g1, vs, hvs, he⟩ | ⟨g1, g2⟩
      · left
        exact ⟨by simp [List.all_cons, h1, g1], v :: vs, by simp [mapRes, hv, hvs, DRes.bind],
          by simp [encList, henc, he]⟩
      · right
        exact ⟨by simp [List.all_cons, h1, g1], by simp [mapRes, hv, g2, DRes.bind]⟩
    · right
      exact ⟨by simp [List.all_cons, h1], by simp [mapRes, h2, DRes.bind]⟩

theorem goDecode_array_arr (n : Nat) (ss : Schemas) (e : Ty) (m : Meta) (xs : List Json)
    (hb : isByteElem e = false) :
    goDecode (n + 1) ss (.array e m) (.arr xs) = (mapRes (goDecode n ss e) xs).map .slice := by
  simp only [goDecode, hb, Bool.false_eq_true, if_false]

theorem den_array_arr (n : Nat) (ss : Schemas) (e : Ty) (m : Meta) (xs : List Json)
    (hb : isByteElem e = false) :
    den (n + 1) ss (.array e m) (.arr xs) = xs.all (den n ss e) := by
  simp only [den, hb, Bool.not_false, Bool.true_and]

theorem simple_branch (n : Nat) (ss : Schemas) (f : Field) (hs : simpleBranch f = true)
    (j : Json) (hj : noNulls j = true) :
    (den (n + 2) ss (f.ty.setMeta { f.ty.getMeta with nullable := false }) j = true ∧
      ∃ v, goDecode (n + 2) ss (f.ty.setMeta { f.ty.getMeta with nullable := false }) j = .ok v ∧
        goEncode v = j ∧ v.isNil = false ∧ ((f.ty.isArray || f.ty.isMap) = false → True)) ∨
    (den (n + 2) ss (f.ty.setMeta { f.ty.getMeta with nullable := false }) j = false ∧
      goDecode (n + 2) ss (f.ty.setMeta { f.ty.getMeta with nullable := false }) j = .err) := by
  unfold simpleBranch at hs
  split at hs
  · rename_i k val cs fm heq
    simp only [Bool.and_eq_true, Bool.not_eq_true'] at hs
    rw [heq]
    simp only [Ty.setMeta, Ty.getMeta]
    have hd : hasHint { fm with nullable := false } "string_format_datetime" = false := by
      simpa [hasHint] using hs.2
    rcases scalar_elem (n + 1) ss k val cs { fm with nullable := false } hs.1 hd j hj with
      ⟨h1, v, hv, he, hn⟩ | h
    · exact Or.inl ⟨h1, v, hv, he, hn, fun _ => trivial⟩
    · exact Or.inr h
  · rename_i k val cs em am heq
    simp only [Bool.and_eq_true, Bool.not_eq_true', bne_iff_ne, ne_eq] at hs
    obtain ⟨⟨hk, hdt⟩, hu8⟩ := hs
    have hbyte : isByteElem (Ty.scalar k val cs em) = false := by
      unfold isByteElem
      split
      · rename_i heq2; injection heq2 with e1; exact absurd e1 hu8
      · rfl
    rw [heq]
    simp only [Ty.setMeta, Ty.getMeta]
    have hnn := noNulls_isNull hj
    cases j with
    | arr xs =>
      simp only [noNulls] at hj
      rw [goDecode_array_arr _ _ _ _ _ hbyte, den_array_arr _ _ _ _ _ hbyte]
      rcases scalar_list n ss k val cs em hk hdt xs hj with ⟨h1, vs, hvs, he⟩ | ⟨h1, h2⟩
      · left
        exact ⟨h1, .slice vs, by rw [hvs]; rfl, by simp [goEncode, he], rfl, fun _ => trivial⟩
      · right
        exact ⟨h1, by rw [h2]; rfl⟩
    | null => simp [Json.isNull] at hnn
    | bool _ | num _ | str _ | obj _ => right; simp [den, goDecode, hbyte]
  · simp at hs

theorem encUnion_skip (before rest : List (String × GoVal)) (hb : ∀ e ∈ before, e.2.isNil = true) :
    encUnion (before ++ rest) = encUnion rest := by
  induction before with
  | nil => rfl
  | cons e t ih =>
    obtain ⟨k, v⟩ := e
    have hv : v.isNil = true := hb (k, v) (by simp)
    simp only [List.cons_append, encUnion, hv, if_true]
    exact ih (fun e he => hb e (by simp [he]))

theorem scalar_union_case (n : Nat) (ss : Schemas) (j : Json) (hj : noNulls j = true)
    (fields : List Field) (hs : fields.all simpleBranch = true)
    (hany : fields.any (fun f => den (n + 2) ss (f.ty.setMeta { f.ty.getMeta with nullable := false }) j) = true)
    (before : List (String × GoVal)) (hb : ∀ e ∈ before, e.2.isNil = true) :
    ∃ bs, decodeScalarUnionWith (goDecode (n + 2) ss) j fields before = .ok bs ∧ encUnion bs = j := by
  induction fields generalizing before with
  | nil => simp at hany
  | cons f rest ih =>
    simp only [List.all_cons, Bool.and_eq_true] at hs
    simp only [List.any_cons, Bool.or_eq_true] at hany
    unfold decodeScalarUnionWith
    rcases simple_branch n ss f hs.1 j hj with ⟨_, v, hv, henc, hnil, _⟩ | ⟨h1, h2⟩
    · simp only [hv]
      refine ⟨_, rfl, ?_⟩
      rw [List.append_assoc, encUnion_skip _ _ hb]
      simp only [List.singleton_append, encUnion]
      by_cases c : (f.ty.isArray || f.ty.isMap) = true
      · simp [c, hnil, henc]
      · simp only [Bool.not_eq_true] at c
        simp [c, isNil, goEncode, henc]
    · simp only [h2]
      apply ih hs.2
      · rcases hany with h | h
        · rw [h1] at h; exact absurd h (by simp)
        · exact h
      · intro e he
        cases List.mem_append.1 he with
        | inl c => exact hb e c
        | inr c => simp at c; subst c; rfl

/-! ### the induction -/

theorem wrapPtr_good {t : Ty} {j : Json} {v : GoVal} {r : DRes GoVal} (nullable : Bool)
    (hn : t.getMeta.nullable = nullable) (hc : isCollOrAny t = false) (hat : (t.isArray || t.isMap) = false)
    (hj : j.isNull = false) (hr : r = .ok v)
    (s1 : Json.sub (goEncode v) j = true) (s2 : Json.sub j (goEncode v) = true)
    (hv : nullable = false → v.isEmpty = true → True) :
    ∃ w, wrapPtr nullable j r = .ok w ∧ Good t j w := by
  subst hr
  cases nullable with
  | true =>
    refine ⟨.ptr v, by simp [wrapPtr, hj, DRes.map, DRes.bind], ⟨by simpa [goEncode] using s1, by simpa [goEncode] using s2, ?_⟩⟩
    intro h; simp [isEmpty] at h
  | false =>
    refine ⟨v, by simp [wrapPtr], ⟨s1, s2, ?_⟩⟩
    intro _; exact Or.inr (Or.inr ⟨hn, hc⟩)

theorem wrapPtr_null {t : Ty} {r : DRes GoVal} : ∃ w, wrapPtr true .null r = .ok w ∧ Good t .null w :=
  ⟨.nil, by simp [wrapPtr, Json.isNull], ⟨by simp [goEncode, Json.sub], by simp [goEncode, Json.sub],
    fun _ => Or.inl rfl⟩⟩

theorem roundtrip_core (ss : Schemas) : ∀ n, IH n ss := by
  intro n
  induction n with
  | zero => intro t j h; simp [den] at h
  | succ n ih =>
    intro t j h
    cases t with
    | scalar kind val cs m =>
      simp only [den] at h
      simp only [goDecode]
      by_cases hb : kind = "bytes"
      · simp [hb] at h
      · simp only [hb, if_false] at h ⊢
        by_cases ha : kind = "any"
        · subst ha
          simp only [if_true, Bool.and_eq_true] at h ⊢
          cases hj : j with
          | null =>
            exact ⟨.nil, decodeScalar_any_null, ⟨by simp [goEncode, Json.sub], by simp [goEncode, Json.sub],
              fun _ => Or.inl rfl⟩⟩
          | bool _ | num _ | str _ | arr _ | obj _ =>
            all_goals
              rw [hj] at h
              refine ⟨.iface _, decodeScalar_any_nonnull _ (by simp [Json.isNull]) h.1, ⟨?_, ?_, ?_⟩⟩
              · simp only [goEncode]; exact (iface_sub _ h.2).1
              · simp only [goEncode]; exact (iface_sub _ h.2).2
              · intro he; simp [isEmpty] at he
        · simp only [ha, if_false] at h ⊢
          have hcoll : isCollOrAny (Ty.scalar kind val cs m) = false := by
            unfold isCollOrAny
            split <;> simp_all
          by_cases hd : hasHint m "string_format_datetime" = true
          · simp only [hd, if_true, Bool.or_eq_true, Bool.and_eq_true] at h
            rcases h with h | h
            · have hj : j = .null := by cases j <;> simp_all [Json.isNull]
              subst hj
              rw [h.1]
              exact wrapPtr_null
            · cases j with
              | str s =>
                simp only [decide_eq_true_eq] at h
                subst h
                rw [hd]
                exact wrapPtr_good (v := .time s) m.nullable rfl hcoll rfl rfl (decodeScalar_dt s)
                  (by simp [goEncode, Json.sub]) (by simp [goEncode, Json.sub]) (fun _ _ => trivial)
              | _ => simp at h
          · simp only [hd, Bool.false_eq_true, if_false, Bool.or_eq_true, Bool.and_eq_true] at h
            rcases h with h | h
            · have hj : j = .null := by cases j <;> simp_all [Json.isNull]
              subst hj
              rw [h.1]
              exact wrapPtr_null
            · obtain ⟨hnn, v, hv, henc, _, hrefl⟩ := denScalar_decode ha h
              have hd' : hasHint m "string_format_datetime" = false := by simpa using hd
              rw [hd']
              exact wrapPtr_good m.nullable rfl hcoll rfl hnn hv (by rw [henc]; exact hrefl)
                (by rw [henc]; exact hrefl) (fun _ _ => trivial)
    | array e m =>
      simp only [den, Bool.and_eq_true, Bool.not_eq_true'] at h
      obtain ⟨hbyte, h⟩ := h
      simp only [goDecode, hbyte, Bool.false_eq_true, if_false]
      cases j with
      | null =>
        exact ⟨.nil, rfl, ⟨by simp [goEncode, Json.sub], by simp [goEncode, Json.sub], fun _ => Or.inl rfl⟩⟩
      | arr xs =>
        simp only at h
        obtain ⟨vs, hvs, hlen, s1, s2⟩ := list_case ih e xs h
        refine ⟨.slice vs, by simp [hvs, DRes.map, DRes.bind], ⟨by simpa [goEncode, Json.sub] using s1,
          by simpa [goEncode, Json.sub] using s2, ?_⟩⟩
        intro he
        right; left
        simp only [isEmpty, List.isEmpty_iff] at he
        subst he
        have : xs = [] := by simpa using hlen.symm
        subst this
        simp [Ty.isArray, isEmptyColl]
      | bool _ | num _ | str _ | obj _ => simp at h
    | map idx vt m =>
      simp only [den] at h
      simp only [goDecode]
      split at h
      · rename_i v1 c1 m1
        cases j with
        | null =>
          exact ⟨.nil, rfl, ⟨by simp [goEncode, Json.sub], by simp [goEncode, Json.sub], fun _ => Or.inl rfl⟩⟩
        | obj kvs =>
          simp only [Bool.and_eq_true] at h
          obtain ⟨l, hl, hlen, s1, s2⟩ := map_case ih vt kvs h.1 h.2
          refine ⟨.gomap (l.foldl (fun acc kv => Cog.OMap.rset kv.1 kv.2 acc) []),
            by dsimp only; rw [hl]; rfl, ⟨by simpa [goEncode, Json.sub] using s1,
              by simpa [goEncode, Json.sub] using s2, ?_⟩⟩
          intro he
          right; left
          have hnd : (l.map (·.1)).Nodup ∨ True := Or.inr trivial
          -- an empty result map means an empty document object
          have hl0 : l = [] := by
            cases l with
            | nil => rfl
            | cons a t =>
              exfalso
              simp only [isEmpty, List.isEmpty_iff] at he
              have hne : ∀ (t : List (String × GoVal)) (acc : List (String × GoVal)), acc ≠ [] →
                  t.foldl (fun acc kv => Cog.OMap.rset kv.1 kv.2 acc) acc ≠ [] := by
                intro t
                induction t with
                | nil => intro acc h; simpa using h
                | cons b t iht =>
                  intro acc h
                  simp only [List.foldl_cons]
                  apply iht
                  cases acc with
                  | nil => exact absurd rfl h
                  | cons c acc' =>
                    obtain ⟨ck, cv⟩ := c
                    simp only [Cog.OMap.rset]
                    split <;> simp
              exact hne t (Cog.OMap.rset a.1 a.2 []) (by simp [Cog.OMap.rset]) he
          subst hl0
          have : kvs = [] := by simpa using hlen.symm
          subst this
          simp [Ty.isMap, isEmptyColl]
        | bool _ | num _ | str _ | arr _ => simp at h
      · simp at h
    | ref pkg name m =>
      simp only [den] at h
      simp only [goDecode]
      cases ho : Schemas.locateObject ss pkg name with
      | none => simp [ho] at h
      | some o =>
        simp only [ho] at h ⊢
        have hcoll : isCollOrAny (Ty.ref pkg name m) = false := rfl
        have hat : ((Ty.ref pkg name m).isArray || (Ty.ref pkg name m).isMap) = false := rfl
        cases hty : o.ty with
        | struct fields gen gi sm =>
          cases gi with
          | none =>
            simp only [hty] at h ⊢
            cases j with
            | null =>
              simp only [Json.isNull, Bool.and_true, Bool.or_false] at h
              rw [h]; exact wrapPtr_null
            | obj members =>
              simp only [Json.isNull, Bool.and_false, Bool.false_or, Bool.and_eq_true] at h
              obtain ⟨⟨⟨h1, h2⟩, h3⟩, h4⟩ := h
              obtain ⟨fl, hfl, s1, s2⟩ := fields_case ih fields members h1 h2 h3 h4
              exact wrapPtr_good (v := .struct fl) m.nullable rfl hcoll hat rfl
                (by dsimp only; rw [hfl]; rfl) (by simpa [goEncode, Json.sub] using s1)
                (by simpa [goEncode, Json.sub] using s2) (fun _ _ => trivial)
            | bool _ | num _ | str _ | arr _ => simp [Json.isNull] at h
          | some hi =>
            obtain ⟨hint, info⟩ := hi
            simp only [hty] at h ⊢
            by_cases hs : hint = "disjunction_of_scalars"
            · subst hs
              simp only [if_true, Bool.or_eq_true, Bool.and_eq_true, decide_eq_true_eq] at h ⊢
              rcases h with h | h
              · have hj : j = .null := by cases j <;> simp_all [Json.isNull]
                subst hj; rw [h.1]; exact wrapPtr_null
              · obtain ⟨⟨⟨⟨hn2, hnn⟩, hno⟩, hany⟩, hsimple⟩ := h
                obtain ⟨n', rfl⟩ : ∃ n', n = n' + 2 := ⟨n - 2, by omega⟩
                obtain ⟨bs, hbs, henc⟩ := scalar_union_case n' ss j hnn fields hsimple hany [] (by simp)
                exact wrapPtr_good (v := .union bs) m.nullable rfl hcoll hat (noNulls_isNull hnn)
                  (by rw [hbs]; rfl)
                  (by simp only [goEncode]; rw [henc]; exact sub_refl_noObjs j hno)
                  (by simp only [goEncode]; rw [henc]; exact sub_refl_noObjs j hno) (fun _ _ => trivial)
            · simp only [hs, if_false] at h ⊢
              cases j with
              | null =>
                simp only [Json.isNull, Bool.and_true, Bool.or_false] at h
                rw [h]; exact wrapPtr_null
              | obj members =>
                simp only [Json.isNull, Bool.and_false, Bool.false_or] at h
                cases hd : Json.lookup info.discriminator members with
                | none => simp [hd] at h
                | some d =>
                  cases d with
                  | str tag =>
                    simp only [hd, Bool.and_eq_true, bne_iff_ne, ne_eq] at h
                    obtain ⟨hcatch, h⟩ := h
                    cases hm : info.mapping.find? (fun kv => kv.1 == tag) with
                    | none => simp [hm] at h
                    | some kv =>
                      simp only [hm, Bool.and_eq_true] at h
                      obtain ⟨⟨hbf, hnd⟩, hden⟩ := h
                      cases hf : fieldByRefName fields kv.2 with
                      | none => simp [hf] at hbf
                      | some bf =>
                        obtain ⟨v, hv, g⟩ := ih _ _ hden
                        have hbfmem : ∃ f ∈ fields, (f.name == bf.name) = true := by
                          unfold fieldByRefName at hf
                          exact ⟨bf, List.mem_of_find?_eq_some hf, by simp⟩
                        refine wrapPtr_good
                          (v := .union (fields.map fun f => (f.name, if f.name == bf.name then GoVal.ptr v else GoVal.nil)))
                          m.nullable rfl hcoll hat rfl ?_ ?_ ?_ (fun _ _ => trivial)
                        · simp only [hd, hm, hf, hv, DRes.map, DRes.bind]
                        · simp only [goEncode]; rw [encUnion_select fields bf.name v hbfmem]; exact g.enc_sub
                        · simp only [goEncode]; rw [encUnion_select fields bf.name v hbfmem]; exact g.sub_enc
                  | null | bool _ | num _ | arr _ | obj _ => simp [hd] at h
              | bool _ | num _ | str _ | arr _ => simp [Json.isNull] at h
        | enum vals em =>
          cases vals with
          | nil => simp [hty] at h
          | cons v0 rest =>
            simp only [hty, Bool.or_eq_true, Bool.and_eq_true] at h ⊢
            rcases h with h | h
            · have hj : j = .null := by cases j <;> simp_all [Json.isNull]
              subst hj; rw [h.1]; exact wrapPtr_null
            · have hk : v0.kind ≠ "any" := by
                intro c; rw [c] at h; simp [denScalar, intRange] at h
              obtain ⟨hnn, v, hv, henc, _, hrefl⟩ := denScalar_decode hk h
              exact wrapPtr_good m.nullable rfl hcoll hat hnn hv (by rw [henc]; exact hrefl)
                (by rw [henc]; exact hrefl) (fun _ _ => trivial)
        | scalar kind sv scs om =>
          simp only [hty, Bool.and_eq_true, Bool.or_eq_true, bne_iff_ne, ne_eq, Bool.not_eq_true'] at h ⊢
          obtain ⟨⟨⟨⟨_, hb⟩, ha⟩, hd⟩, h⟩ := h
          simp only [hb, if_false, hd]
          rcases h with h | h
          · have hj : j = .null := by cases j <;> simp_all [Json.isNull]
            subst hj; rw [h.1]; exact wrapPtr_null
          · obtain ⟨hnn, v, hv, henc, _, hrefl⟩ := denScalar_decode ha h
            exact wrapPtr_good m.nullable rfl hcoll hat hnn hv (by rw [henc]; exact hrefl)
              (by rw [henc]; exact hrefl) (fun _ _ => trivial)
        | array ae am =>
          simp only [hty, Bool.and_eq_true, Bool.not_eq_true'] at h ⊢
          obtain ⟨v, hv, g⟩ := ih _ _ h.2
          refine ⟨v, hv, ⟨g.enc_sub, g.sub_enc, ?_⟩⟩
          intro he
          rcases g.empty he with h1 | h2 | h3
          · exact Or.inl h1
          · simp only [Bool.and_eq_true] at h2; rw [h.1] at h2; exact absurd h2.2 (by simp)
          · simp [isCollOrAny] at h3
        | map mi mv mm =>
          simp only [hty, Bool.and_eq_true, Bool.not_eq_true'] at h ⊢
          obtain ⟨v, hv, g⟩ := ih _ _ h.2
          refine ⟨v, hv, ⟨g.enc_sub, g.sub_enc, ?_⟩⟩
          intro he
          rcases g.empty he with h1 | h2 | h3
          · exact Or.inl h1
          · simp only [Bool.and_eq_true] at h2; rw [h.1] at h2; exact absurd h2.2 (by simp)
          · simp [isCollOrAny] at h3
        | ref rp rn rm =>
          simp only [hty] at h ⊢
          obtain ⟨v, hv, g⟩ := ih _ _ h
          refine ⟨v, hv, ⟨g.enc_sub, g.sub_enc, ?_⟩⟩
          intro he
          rcases g.empty he with h1 | h2 | h3
          · exact Or.inl h1
          · simp [Ty.isArray, Ty.isMap] at h2
          · exact Or.inr (Or.inr ⟨by simpa [Ty.getMeta] using h3.1, rfl⟩)
        | cref _ _ _ _ => simp [hty] at h
        | disj _ _ _ => simp [hty] at h
        | inter _ _ => simp [hty] at h
        | slot _ _ => simp [hty] at h
        | bad _ _ => simp [hty] at h
    | cref pkg name val m => simp [den] at h
    | struct _ _ _ _ => simp [den] at h
    | enum _ _ => simp [den] at h
    | disj _ _ _ => simp [den] at h
    | inter _ _ => simp [den] at h
    | slot _ _ => simp [den] at h
    | bad _ _ => simp [den] at h

end Cog.Sem
