/-
  C02 helper lemmas, part 8: whatever the checker accepts contains no printer crash
  (so `emitDecls` answers `.ok` on every accepted environment).
-/
import Cog.Sem.GoDeclLemmas7
namespace Cog.Sem.GoDecl

mutual
theorem tyCrash_of_ok (env : Env) : ∀ t : GoTy, typeOk env t = true → tyCrash t = none
  | .prim _, _ => by simp [tyCrash]
  | .named _ _, _ => by simp [tyCrash]
  | .ptr t, h => by simp only [typeOk] at h; simpa [tyCrash] using tyCrash_of_ok env t h
  | .slice t, h => by simp only [typeOk] at h; simpa [tyCrash] using tyCrash_of_ok env t h
  | .map k v, h => by
    simp only [typeOk, Bool.and_eq_true] at h
    simp [tyCrash, tyCrash_of_ok env k h.1, tyCrash_of_ok env v h.2]
  | .struct fs, h => by
    simp only [typeOk, Bool.and_eq_true] at h
    simpa [tyCrash] using fieldsCrash_of_ok env fs h.2
  | .placeholder _, h => by simp [typeOk] at h
  | .crash _, h => by simp [typeOk] at h
theorem fieldsCrash_of_ok (env : Env) : ∀ fs : List GoField, fieldsOk env fs = true → fieldsCrash fs = none
  | [], _ => by simp [fieldsCrash]
  | f :: fs, h => by
    simp only [fieldsOk, Bool.and_eq_true] at h
    simp [fieldsCrash, tyCrash_of_ok env f.ty h.1, fieldsCrash_of_ok env fs h.2]
end

theorem assignable_notBad {env : Env} {fuel : Nat} {et : ETy} {t : GoTy} (h : assignable env fuel et t = true) :
    ∀ w, et ≠ .bad w := by
  intro w e; subst e; simp [assignable] at h

mutual
theorem exprCrash_of_ok (env : Env) (fuel : Nat) : ∀ e : GoExpr, (∀ w, exprTy env fuel e ≠ .bad w) → exprCrash e = none
  | .nil, _ => by simp [exprCrash]
  | .bool _, _ => by simp [exprCrash]
  | .int _ _, _ => by simp [exprCrash]
  | .float _, _ => by simp [exprCrash]
  | .str _, _ => by simp [exprCrash]
  | .ident _ _, _ => by simp [exprCrash]
  | .call _ _, _ => by simp [exprCrash]
  | .raw _, _ => by simp [exprCrash]
  | .placeholder _, _ => by simp [exprCrash]
  | .crash s, h => by exact absurd (by simp [exprTy]) (h "crash")
  | .sliceLit t xs, h => by
    by_cases hc : (typeOk env t && exprsFit env fuel t xs) = true
    · simp only [Bool.and_eq_true] at hc
      simp [exprCrash, tyCrash_of_ok env t hc.1, exprsCrash_of_fit env fuel t xs hc.2]
    · exact absurd (by simp [exprTy, hc]) (h "slice literal")
  | .mapLit k v kvs, h => by
    by_cases hc : (typeOk env k && typeOk env v && kvsFit env fuel v kvs) = true
    · simp only [Bool.and_eq_true] at hc
      simp [exprCrash, tyCrash_of_ok env k hc.1.1, tyCrash_of_ok env v hc.1.2, kvsCrash_of_fit env fuel v kvs hc.2]
    · exact absurd (by simp [exprTy, hc]) (h "map literal")
  | .deref e, h => by
    have : ∀ w, exprTy env fuel e ≠ .bad w := by
      intro w hw
      exact h "deref of a non-pointer" (by simp [exprTy, hw])
    simpa [exprCrash] using exprCrash_of_ok env fuel e this
  | .addr e, h => by
    have : ∀ w, exprTy env fuel e ≠ .bad w := by
      intro w hw
      exact h "address of an untyped value" (by simp [exprTy, hw])
    simpa [exprCrash] using exprCrash_of_ok env fuel e this
  | .toPtr t e, h => by
    by_cases hc : (typeOk env t && assignable env fuel (exprTy env fuel e) t) = true
    · simp only [Bool.and_eq_true] at hc
      simp [exprCrash, tyCrash_of_ok env t hc.1, exprCrash_of_ok env fuel e (assignable_notBad hc.2)]
    · exact absurd (by simp [exprTy, hc]) (h "pointer helper argument")
  | .composite t fs, h => by
    cases hu : under env fuel (norm env fuel t) with
    | none => exact absurd (by simp [exprTy, hu]) (h "composite literal of a non-struct type")
    | some u =>
      cases u with
      | struct sfs =>
        by_cases hc : (isNamed t && nodupB (fs.map (·.1)) && fieldsFit env fuel sfs fs) = true
        · simp only [Bool.and_eq_true] at hc
          have ht : tyCrash t = none := by cases t <;> simp [isNamed] at hc <;> simp [tyCrash]
          simp [exprCrash, ht, kvsCrash_of_fields env fuel sfs fs hc.2]
        · exact absurd (by simp [exprTy, hu, hc]) (h "struct literal")
      | _ => exact absurd (by simp [exprTy, hu]) (h "composite literal of a non-struct type")
theorem exprsCrash_of_fit (env : Env) (fuel : Nat) (t : GoTy) : ∀ xs : List GoExpr, exprsFit env fuel t xs = true → exprsCrash xs = none
  | [], _ => by simp [exprsCrash]
  | e :: es, h => by
    simp only [exprsFit, Bool.and_eq_true] at h
    simp [exprsCrash, exprCrash_of_ok env fuel e (assignable_notBad h.1), exprsCrash_of_fit env fuel t es h.2]
theorem kvsCrash_of_fit (env : Env) (fuel : Nat) (t : GoTy) : ∀ kvs : List (String × GoExpr), kvsFit env fuel t kvs = true → kvsCrash kvs = none
  | [], _ => by simp [kvsCrash]
  | (k, e) :: es, h => by
    simp only [kvsFit, Bool.and_eq_true] at h
    simp [kvsCrash, exprCrash_of_ok env fuel e (assignable_notBad h.1), kvsCrash_of_fit env fuel t es h.2]
theorem kvsCrash_of_fields (env : Env) (fuel : Nat) (sfs : List GoField) : ∀ kvs : List (String × GoExpr),
    fieldsFit env fuel sfs kvs = true → kvsCrash kvs = none
  | [], _ => by simp [kvsCrash]
  | (k, e) :: es, h => by
    simp only [fieldsFit, Bool.and_eq_true] at h
    have he : ∀ w, exprTy env fuel e ≠ .bad w := by
      cases hf : findGoField k sfs with
      | none => simp [hf] at h
      | some f => simp only [hf] at h; exact assignable_notBad h.1
    simp [kvsCrash, exprCrash_of_ok env fuel e he, kvsCrash_of_fields env fuel sfs es h.2]
end

theorem exprCrash_of_lit : ∀ v : GoExpr, (litETy v).isSome = true → exprCrash v = none := by
  intro v h
  cases v <;> simp [litETy] at h <;> simp [exprCrash]

theorem membersCrash_of_ok (env : Env) (fuel : Nat) (u : GoTy) : ∀ ms : List (String × GoExpr),
    membersOk env fuel u ms = true → kvsCrash ms = none
  | [], _ => by simp [kvsCrash]
  | (n, v) :: ms, h => by
    simp only [membersOk, Bool.and_eq_true] at h
    simp [kvsCrash, exprCrash_of_lit v h.1.1, membersCrash_of_ok env fuel u ms h.2]

theorem declCrash_of_ok (env : Env) (fuel : Nat) (pkg : String) : ∀ d : GoDecl, declOk env fuel pkg d = true → declCrash d = none
  | .typeDef _ t, h => by simpa [declCrash] using tyCrash_of_ok env t (by simpa [declOk] using h)
  | .alias _ t, h => by simpa [declCrash] using tyCrash_of_ok env t (by simpa [declOk] using h)
  | .const _ v, h => by simpa [declCrash] using exprCrash_of_lit v (by simpa [declOk] using h)
  | .enumDef _ u ms, h => by
    simp only [declOk, Bool.and_eq_true] at h
    simp [declCrash, tyCrash_of_ok env u h.1.1, membersCrash_of_ok env fuel u ms h.2]
  | .ctor _ _ b, h => by
    simp only [declOk] at h
    simpa [declCrash] using exprCrash_of_ok env fuel b (assignable_notBad h)
  | .placeholder _, h => by simp [declOk] at h
  | .crash _, h => by simp [declOk] at h

theorem declsCrash_of_ok (env : Env) (fuel : Nat) (pkg : String) : ∀ ds : List GoDecl, declsOk env fuel pkg ds = true → declsCrash ds = none
  | [], _ => by simp [declsCrash]
  | d :: ds, h => by
    simp only [declsOk, Bool.and_eq_true] at h
    simp [declsCrash, declCrash_of_ok env fuel pkg d h.1, declsCrash_of_ok env fuel pkg ds h.2]

theorem envCrash_of_pkgsOk (full : Env) (fuel : Nat) : ∀ env : Env, pkgsOk full fuel env = true → envCrash env = none
  | [], _ => by simp [envCrash]
  | (p, ds) :: rest, h => by
    simp only [pkgsOk, Bool.and_eq_true] at h
    simp [envCrash, declsCrash_of_ok full fuel p ds h.1.2, envCrash_of_pkgsOk full fuel rest h.2]

/-- an accepted environment contains no printer crash -/
theorem envCrash_of_wellTyped (env : Env) (h : wellTyped env = true) : envCrash env = none :=
  envCrash_of_pkgsOk env (checkFuel env) env h

theorem emitDecls_ok_of_wellTyped (cfg : Cfg) (ss : Cog.IR.Schemas) (h : wellTyped (emitEnv cfg ss) = true) :
    emitDecls cfg ss = .ok (emitEnv cfg ss) := by
  simp [emitDecls, envCrash_of_wellTyped _ h]

/-! ### whatever the checker accepts contains no placeholder -/

mutual
theorem tyPh_of_ok (env : Env) : ∀ t : GoTy, typeOk env t = true → tyPlaceholders t = []
  | .prim _, _ => by simp [tyPlaceholders]
  | .named _ _, _ => by simp [tyPlaceholders]
  | .ptr t, h => by simp only [typeOk] at h; simpa [tyPlaceholders] using tyPh_of_ok env t h
  | .slice t, h => by simp only [typeOk] at h; simpa [tyPlaceholders] using tyPh_of_ok env t h
  | .map k v, h => by
    simp only [typeOk, Bool.and_eq_true] at h
    simp [tyPlaceholders, tyPh_of_ok env k h.1, tyPh_of_ok env v h.2]
  | .struct fs, h => by
    simp only [typeOk, Bool.and_eq_true] at h
    simpa [tyPlaceholders] using fieldsPh_of_ok env fs h.2
  | .placeholder _, h => by simp [typeOk] at h
  | .crash _, h => by simp [typeOk] at h
theorem fieldsPh_of_ok (env : Env) : ∀ fs : List GoField, fieldsOk env fs = true → fieldsPlaceholders fs = []
  | [], _ => by simp [fieldsPlaceholders]
  | f :: fs, h => by
    simp only [fieldsOk, Bool.and_eq_true] at h
    simp [fieldsPlaceholders, tyPh_of_ok env f.ty h.1, fieldsPh_of_ok env fs h.2]
end

mutual
theorem exprPh_of_ok (env : Env) (fuel : Nat) : ∀ e : GoExpr, (∀ w, exprTy env fuel e ≠ .bad w) → exprPlaceholders e = []
  | .nil, _ => by simp [exprPlaceholders]
  | .bool _, _ => by simp [exprPlaceholders]
  | .int _ _, _ => by simp [exprPlaceholders]
  | .float _, _ => by simp [exprPlaceholders]
  | .str _, _ => by simp [exprPlaceholders]
  | .ident _ _, _ => by simp [exprPlaceholders]
  | .call _ _, _ => by simp [exprPlaceholders]
  | .raw _, _ => by simp [exprPlaceholders]
  | .crash _, _ => by simp [exprPlaceholders]
  | .placeholder s, h => by exact absurd (by simp [exprTy]) (h "placeholder")
  | .sliceLit t xs, h => by
    by_cases hc : (typeOk env t && exprsFit env fuel t xs) = true
    · simp only [Bool.and_eq_true] at hc
      simp [exprPlaceholders, tyPh_of_ok env t hc.1, exprsPh_of_fit env fuel t xs hc.2]
    · exact absurd (by simp [exprTy, hc]) (h "slice literal")
  | .mapLit k v kvs, h => by
    by_cases hc : (typeOk env k && typeOk env v && kvsFit env fuel v kvs) = true
    · simp only [Bool.and_eq_true] at hc
      simp [exprPlaceholders, tyPh_of_ok env k hc.1.1, tyPh_of_ok env v hc.1.2, kvsPh_of_fit env fuel v kvs hc.2]
    · exact absurd (by simp [exprTy, hc]) (h "map literal")
  | .deref e, h => by
    have : ∀ w, exprTy env fuel e ≠ .bad w := by
      intro w hw
      exact h "deref of a non-pointer" (by simp [exprTy, hw])
    simpa [exprPlaceholders] using exprPh_of_ok env fuel e this
  | .addr e, h => by
    have : ∀ w, exprTy env fuel e ≠ .bad w := by
      intro w hw
      exact h "address of an untyped value" (by simp [exprTy, hw])
    simpa [exprPlaceholders] using exprPh_of_ok env fuel e this
  | .toPtr t e, h => by
    by_cases hc : (typeOk env t && assignable env fuel (exprTy env fuel e) t) = true
    · simp only [Bool.and_eq_true] at hc
      simp [exprPlaceholders, tyPh_of_ok env t hc.1, exprPh_of_ok env fuel e (assignable_notBad hc.2)]
    · exact absurd (by simp [exprTy, hc]) (h "pointer helper argument")
  | .composite t fs, h => by
    cases hu : under env fuel (norm env fuel t) with
    | none => exact absurd (by simp [exprTy, hu]) (h "composite literal of a non-struct type")
    | some u =>
      cases u with
      | struct sfs =>
        by_cases hc : (isNamed t && nodupB (fs.map (·.1)) && fieldsFit env fuel sfs fs) = true
        · simp only [Bool.and_eq_true] at hc
          have ht : tyPlaceholders t = [] := by cases t <;> simp [isNamed] at hc <;> simp [tyPlaceholders]
          simp [exprPlaceholders, ht, kvsPh_of_fields env fuel sfs fs hc.2]
        · exact absurd (by simp [exprTy, hu, hc]) (h "struct literal")
      | _ => exact absurd (by simp [exprTy, hu]) (h "composite literal of a non-struct type")
theorem exprsPh_of_fit (env : Env) (fuel : Nat) (t : GoTy) : ∀ xs : List GoExpr, exprsFit env fuel t xs = true → exprsPlaceholders xs = []
  | [], _ => by simp [exprsPlaceholders]
  | e :: es, h => by
    simp only [exprsFit, Bool.and_eq_true] at h
    simp [exprsPlaceholders, exprPh_of_ok env fuel e (assignable_notBad h.1), exprsPh_of_fit env fuel t es h.2]
theorem kvsPh_of_fit (env : Env) (fuel : Nat) (t : GoTy) : ∀ kvs : List (String × GoExpr), kvsFit env fuel t kvs = true → kvsPlaceholders kvs = []
  | [], _ => by simp [kvsPlaceholders]
  | (k, e) :: es, h => by
    simp only [kvsFit, Bool.and_eq_true] at h
    simp [kvsPlaceholders, exprPh_of_ok env fuel e (assignable_notBad h.1), kvsPh_of_fit env fuel t es h.2]
theorem kvsPh_of_fields (env : Env) (fuel : Nat) (sfs : List GoField) : ∀ kvs : List (String × GoExpr),
    fieldsFit env fuel sfs kvs = true → kvsPlaceholders kvs = []
  | [], _ => by simp [kvsPlaceholders]
  | (k, e) :: es, h => by
    simp only [fieldsFit, Bool.and_eq_true] at h
    have he : ∀ w, exprTy env fuel e ≠ .bad w := by
      cases hf : findGoField k sfs with
      | none => simp [hf] at h
      | some f => simp only [hf] at h; exact assignable_notBad h.1
    simp [kvsPlaceholders, exprPh_of_ok env fuel e he, kvsPh_of_fields env fuel sfs es h.2]
end

theorem exprPh_of_lit : ∀ v : GoExpr, (litETy v).isSome = true → exprPlaceholders v = [] := by
  intro v h
  cases v <;> simp [litETy] at h <;> simp [exprPlaceholders]

theorem membersPh_of_ok (env : Env) (fuel : Nat) (u : GoTy) : ∀ ms : List (String × GoExpr),
    membersOk env fuel u ms = true → kvsPlaceholders ms = []
  | [], _ => by simp [kvsPlaceholders]
  | (n, v) :: ms, h => by
    simp only [membersOk, Bool.and_eq_true] at h
    simp [kvsPlaceholders, exprPh_of_lit v h.1.1, membersPh_of_ok env fuel u ms h.2]

theorem declPh_of_ok (env : Env) (fuel : Nat) (pkg : String) : ∀ d : GoDecl, declOk env fuel pkg d = true → declPlaceholders d = []
  | .typeDef _ t, h => by simpa [declPlaceholders] using tyPh_of_ok env t (by simpa [declOk] using h)
  | .alias _ t, h => by simpa [declPlaceholders] using tyPh_of_ok env t (by simpa [declOk] using h)
  | .const _ v, h => by simpa [declPlaceholders] using exprPh_of_lit v (by simpa [declOk] using h)
  | .enumDef _ u ms, h => by
    simp only [declOk, Bool.and_eq_true] at h
    simp [declPlaceholders, tyPh_of_ok env u h.1.1, membersPh_of_ok env fuel u ms h.2]
  | .ctor _ _ b, h => by
    simp only [declOk] at h
    simpa [declPlaceholders] using exprPh_of_ok env fuel b (assignable_notBad h)
  | .placeholder _, h => by simp [declOk] at h
  | .crash _, h => by simp [declOk] at h

theorem declsPh_of_ok (env : Env) (fuel : Nat) (pkg : String) : ∀ ds : List GoDecl, declsOk env fuel pkg ds = true → declsPlaceholders ds = []
  | [], _ => by simp [declsPlaceholders]
  | d :: ds, h => by
    simp only [declsOk, Bool.and_eq_true] at h
    simp [declsPlaceholders, declPh_of_ok env fuel pkg d h.1, declsPh_of_ok env fuel pkg ds h.2]

theorem envPh_of_pkgsOk (full : Env) (fuel : Nat) : ∀ env : Env, pkgsOk full fuel env = true → envPlaceholders env = []
  | [], _ => by simp [envPlaceholders]
  | (p, ds) :: rest, h => by
    simp only [pkgsOk, Bool.and_eq_true] at h
    simp [envPlaceholders, declsPh_of_ok full fuel p ds h.1.2, envPh_of_pkgsOk full fuel rest h.2]

/-- an accepted environment contains no placeholder -/
theorem noPlaceholder_of_wellTyped (env : Env) (h : wellTyped env = true) : envPlaceholders env = [] :=
  envPh_of_pkgsOk env (checkFuel env) env h

end Cog.Sem.GoDecl
