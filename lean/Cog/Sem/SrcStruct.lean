/-
  Third extension of the pass-widening fragment: anonymous structs in type position (made objects by
  AnonymousStructsToNamed, the FIRST pass of the Go chain).  Core Lean only (the driver evaluates
  `PlainS`).

  `sImg` / `sNew` are the pure reading of the pass's `processType`: the image of a type (every
  anonymous struct replaced by a reference named after the path, `<Pkg><Object><Field>…`) and the
  objects it creates; `asnS` is the pass itself (its model is a total function).  The theorem needs
  no restriction on the TYPES at this step, only (`structFresh`, decidable): well-formed object maps,
  every object declared in its own schema's package (the reference to a new object uses the
  object's `SelfRef` package, the object is added to the schema being processed), and generated names
  that are pairwise different and different from the existing object names — the full statement is
  false without the last condition (`C01_pass_widening_counterexample`).
-/
import Cog.Sem.SrcDen
import Cog.Passes.AnonymousStructsToNamed
namespace Cog.Sem.Src
open Cog.IR Cog.Passes

mutual
def sImg (pkg parent : String) : Ty → Ty
  | .array e m => .array (sImg pkg parent e) m
  | .map i v m => .map (sImg pkg parent i) (sImg pkg parent v) m
  | .disj bs info m => .disj (sImgList pkg parent bs) info m
  | .struct _ _ _ m => .ref pkg parent { nullable := m.nullable, dflt := m.dflt, hints := [] }
  | t => t
def sImgList (pkg parent : String) : List Ty → List Ty
  | [] => []
  | t :: ts => sImg pkg parent t :: sImgList pkg parent ts
end

def sImgFields (pkg parent : String) : List Field → List Field
  | [] => []
  | f :: fs => { f with ty := sImg pkg (parent ++ ucc f.name) f.ty } :: sImgFields pkg parent fs

mutual
def sNew (pkg parent : String) : Ty → List Obj
  | .array e _ => sNew pkg parent e
  | .map i v _ => sNew pkg parent i ++ sNew pkg parent v
  | .disj bs _ _ => sNewList pkg parent bs
  | .struct fs g gi m =>
    sNewFields pkg parent fs ++
      [newObject pkg parent (.struct (sImgFields pkg parent fs) g gi { m with nullable := false })]
  | _ => []
def sNewList (pkg parent : String) : List Ty → List Obj
  | [] => []
  | t :: ts => sNew pkg parent t ++ sNewList pkg parent ts
def sNewFields (pkg parent : String) : List Field → List Obj
  | [] => []
  | f :: fs => sNew pkg (parent ++ ucc f.name) f.ty ++ sNewFields pkg parent fs
end

/-- `processObject`: the object after the pass -/
def oImg (o : Obj) : Obj :=
  let pkg := o.selfPkg
  let parent := ucc pkg ++ ucc o.name
  match o.ty with
  | .array .. | .map .. | .disj .. => { o with ty := sImg pkg parent o.ty }
  | .struct fs g gi m => { o with ty := .struct (sImgFields pkg parent fs) g gi m }
  | _ => o

/-- `processObject`: the objects created below it -/
def oNew (o : Obj) : List Obj :=
  let pkg := o.selfPkg
  let parent := ucc pkg ++ ucc o.name
  match o.ty with
  | .array .. | .map .. | .disj .. => sNew pkg parent o.ty
  | .struct fs _ _ _ => sNewFields pkg parent fs
  | _ => []

def sNewAll (m : Objects) : List Obj := m.flatMap fun ko => oNew ko.2

/-- the pass (its model is total) -/
def asnS (S : Schemas) : Schemas := S.map AnonymousStructsToNamed.processSchema

def structFreshSchema (s : Schema) : Bool :=
  wfObjects s.objects && (s.objects.all fun ko => ko.2.selfPkg == s.pkg) &&
  namesFresh ((sNewAll s.objects).map (·.name)) (s.objects.map (·.1))

def structFresh (S : Schemas) : Bool := S.all structFreshSchema

end Cog.Sem.Src
