/-
  Round trip of the generated Python codec (`from_json` then `json.dumps(cls=JSONEncoder)`):
  lemmas per IR kind and the induction on fuel.  Mirrors Cog/Sem/RoundTrip.lean (Go).
-/
import Cog.Sem.PyLemmas
import Cog.Sem.PyDen
import Cog.Sem.RoundTrip
namespace Cog.Sem
open Cog.IR

/-- what the induction carries for a decoded value -/
structure PyGood (j : Json) (v : PyVal) : Prop where
  enc_sub : Json.sub (pyToJson v) j = true
  sub_enc : Json.sub j (pyToJson v) = true
  nonnull : j.isNull = false → v.isNone = false

/-- positions the generated code passes through untouched -/
theorem passthrough_good {j : Json} (h : wfJson j = true) : PyGood j (PyVal.ofJson j) :=
  ⟨by rw [pyToJson_ofJson]; exact sub_refl_wf j h, by rw [pyToJson_ofJson]; exact sub_refl_wf j h,
   fun hn => by rw [ofJson_isNone]; exact hn⟩

/-- the induction hypothesis at fuel `n` -/
def PyIH (n : Nat) (ss : Schemas) : Prop :=
  ∀ t j, pyDen n ss t j = true → ∃ v, pyFromJson n ss t j = .ok v ∧ PyGood j v

/-! ### arrays -/

theorem py_list_case {n : Nat} {ss : Schemas} (ih : PyIH n ss) (e : Ty) (xs : List Json)
    (h : xs.all (pyDen n ss e) = true) :
    ∃ vs, mapRes (pyFromJson n ss e) xs = .ok vs ∧
      Json.subList (pyEncList vs) xs = true ∧ Json.subList xs (pyEncList vs) = true := by
  induction xs with
  | nil => exact ⟨[], rfl, rfl, rfl⟩
  | cons x xs ihx =>
    simp only [List.all_cons, Bool.and_eq_true] at h
    obtain ⟨v, hv, g⟩ := ih e x h.1
    obtain ⟨vs, hvs, s1, s2⟩ := ihx h.2
    refine ⟨v :: vs, ?_, ?_, ?_⟩
    · simp [mapRes, hv, hvs, DRes.bind]
    · simp [pyEncList, Json.subList, g.enc_sub, s1]
    · simp [pyEncList, Json.subList, g.sub_enc, s2]

/-! ### maps (entry-wise at every nesting level) -/

theorem py_map_case {n : Nat} {ss : Schemas} (ih : PyIH n ss) (vt : Ty) (kvs : List (String × Json))
    (nd : keysNodup kvs = true)
    (h : kvs.all (fun kv => pyDen n ss vt kv.2) = true) :
    ∃ l, mapRes (fun (kv : String × Json) => (pyFromJson n ss vt kv.2).map fun x => (kv.1, x)) kvs = .ok l ∧
      Json.subMembers (pyEncDict l) kvs = true ∧ Json.subMembers kvs (pyEncDict l) = true := by
  have step : ∀ ks : List (String × Json), ks.all (fun kv => pyDen n ss vt kv.2) = true →
      ∃ l, mapRes (fun (kv : String × Json) => (pyFromJson n ss vt kv.2).map fun x => (kv.1, x)) ks = .ok l ∧
        All2 (fun (kv : String × Json) (pv : String × PyVal) =>
          pv.1 = kv.1 ∧ Json.sub (pyToJson pv.2) kv.2 = true ∧ Json.sub kv.2 (pyToJson pv.2) = true) ks l := by
    intro ks
    induction ks with
    | nil => intro _; exact ⟨[], rfl, .nil⟩
    | cons kv t iht =>
      intro hall
      simp only [List.all_cons, Bool.and_eq_true] at hall
      obtain ⟨v, hv, g⟩ := ih vt kv.2 hall.1
      obtain ⟨l, hl, ha⟩ := iht hall.2
      refine ⟨(kv.1, v) :: l, ?_, .cons ⟨rfl, g.enc_sub, g.sub_enc⟩ ha⟩
      simp only [mapRes, hv, DRes.map, DRes.bind] at hl ⊢
      rw [hl]
  obtain ⟨l, hl, ha⟩ := step kvs h
  have hkeys : l.map (·.1) = kvs.map (·.1) := ha.map_eq (·.1) (·.1) (fun _ _ h => h.1)
  have ndl : (l.map (·.1)).Nodup := by rw [hkeys]; exact (keysNodup_iff kvs).1 nd
  refine ⟨l, hl, ?_, ?_⟩
  · rw [subMembers_iff]
    rintro ⟨k, x⟩ hx
    obtain ⟨pv, hp, rfl⟩ := mem_pyEncDict hx
    obtain ⟨kv, hkv, hk, hs1, _⟩ := ha.mem_right hp
    right
    simp only at hk
    refine ⟨kv.2, ?_, hs1⟩
    apply lookup_of_mem_nodup nd
    rw [hk]; exact hkv
  · rw [subMembers_iff]
    rintro ⟨k, jv⟩ hx
    obtain ⟨pv, hp, hk, _, hs2⟩ := ha.mem_left hx
    right
    simp only at hk hs2
    refine ⟨pyToJson pv.2, ?_, hs2⟩
    apply lookup_pyEncDict ndl
    rw [← hk]; exact hp

/-! ### struct fields -/

/-- what one decoded attribute satisfies, relative to the document's members -/
structure FieldGood (members : List (String × Json)) (f : Field) (pv : PyVal) : Prop where
  present : ∀ v, Json.lookup f.name members = some v → PyGood v pv
  absent : Json.lookup f.name members = none → pv.isNone = true ∧ f.required = false

theorem py_field_step {n : Nat} {ss : Schemas} (ih : PyIH n ss) (dfl : Ty → DRes PyVal)
    (members : List (String × Json)) (f : Field)
    (h : pyFieldOK ss (pyDen n ss) members f = true) :
    ∃ pv, pyFieldWith ss (pyFromJson n ss) dfl members f = .ok (f.name, f.required, pv) ∧
      FieldGood members f pv := by
  unfold pyFieldOK at h
  have hsome := fixedValue_isSome ss f.ty
  unfold pyFieldWith initFieldWith
  cases hfix : fixedValue ss f.ty with
  | some r =>
    have hconst : isConstField f = true := by
      rw [hfix] at hsome; simpa [isConstField] using hsome.symm
    simp only [hfix] at h
    cases r with
    | ok pv =>
      cases hl : Json.lookup f.name members with
      | none => simp [hl] at h
      | some v =>
        simp only [hl, Bool.and_eq_true, Bool.not_eq_true'] at h
        refine ⟨pv, ?_, ⟨?_, ?_⟩⟩
        · simp [hconst, DRes.map, DRes.bind]
        · intro v' hv'
          rw [hl] at hv'; cases hv'
          exact ⟨h.1.2, h.2, fun _ => h.1.1⟩
        · intro hn; rw [hl] at hn; cases hn
    | err | unsup _ | fuel => simp at h
  | none =>
    have hconst : isConstField f = false := by
      rw [hfix] at hsome; simpa [isConstField] using hsome.symm
    simp only [hfix, Bool.and_eq_true, Bool.not_eq_true'] at h
    obtain ⟨hslot, h⟩ := h
    cases hl : Json.lookup f.name members with
    | none =>
      simp only [hl, Bool.and_eq_true, Bool.not_eq_true'] at h
      refine ⟨.none, ?_, ⟨?_, ?_⟩⟩
      · simp [hconst, hslot, h.2, DRes.map, DRes.bind]
      · intro v hv; rw [hl] at hv; cases hv
      · intro _; exact ⟨rfl, h.1⟩
    | some v =>
      simp only [hl, Bool.and_eq_true, Bool.or_eq_true, Bool.not_eq_true'] at h
      obtain ⟨hd, hcond⟩ := h
      obtain ⟨pv, hpv, g⟩ := ih f.ty v hd
      refine ⟨pv, ?_, ⟨?_, ?_⟩⟩
      · simp only [hconst, hpv, DRes.bind, hslot, Bool.false_eq_true, if_false]
        cases hr : isRefLike f.ty with
        | false => simp [DRes.map, DRes.bind]
        | true =>
          have hnd : (pv.isNone && needsDefault f.ty) = false := by
            rcases hcond with (hvn | hrl) | hnd
            · simp [g.nonnull hvn]
            · rw [hr] at hrl; cases hrl
            · simp [hnd]
          simp [hnd, DRes.map, DRes.bind]
      · intro v' hv'; rw [hl] at hv'; cases hv'; exact g
      · intro hn; rw [hl] at hn; cases hn

theorem py_fields_case {n : Nat} {ss : Schemas} (ih : PyIH n ss) (dfl : Ty → DRes PyVal)
    (fields : List Field) (members : List (String × Json))
    (ndm : keysNodup members = true) (ndf : namesNodup (fields.map (·.name)) = true)
    (hsub : members.all (fun kv => (fields.map (·.name)).contains kv.1) = true)
    (hden : fields.all (pyFieldOK ss (pyDen n ss) members) = true) :
    ∃ fl, mapRes (pyFieldWith ss (pyFromJson n ss) dfl members) fields = .ok fl ∧
      Json.subMembers (pyEncReq fl ++ pyEncOpt fl) members = true ∧
      Json.subMembers members (pyEncReq fl ++ pyEncOpt fl) = true := by
  have hsub' : ∀ kv ∈ members, (fields.map (·.name)).contains kv.1 = true := by
    simpa [List.all_eq_true] using hsub
  have step : ∀ fs : List Field, (∀ f ∈ fs, f ∈ fields) →
      ∃ fl, mapRes (pyFieldWith ss (pyFromJson n ss) dfl members) fs = .ok fl ∧
        All2 (fun (f : Field) (e : String × Bool × PyVal) =>
          e.1 = f.name ∧ e.2.1 = f.required ∧ FieldGood members f e.2.2) fs fl := by
    intro fs
    induction fs with
    | nil => intro _; exact ⟨[], rfl, .nil⟩
    | cons f t iht =>
      intro hmem
      have hf : f ∈ fields := hmem f (by simp)
      obtain ⟨pv, hpv, g⟩ := py_field_step ih dfl members f ((List.all_eq_true.1 hden) f hf)
      obtain ⟨fl, hfl, ha⟩ := iht (fun f' hf' => hmem f' (by simp [hf']))
      exact ⟨(f.name, f.required, pv) :: fl, by simp [mapRes, hpv, hfl, DRes.bind], .cons ⟨rfl, rfl, g⟩ ha⟩
  obtain ⟨fl, hfl, ha⟩ := step fields (fun _ h => h)
  have hkeys : fl.map (·.1) = fields.map (·.name) := ha.map_eq (·.name) (·.1) (fun _ _ h => h.1)
  have ndfl : (fl.map (·.1)).Nodup := by rw [hkeys]; exact (namesNodup_iff _).1 ndf
  refine ⟨fl, hfl, ?_, ?_⟩
  · rw [subMembers_iff]
    rintro ⟨k, x⟩ hx
    obtain ⟨req, pv, hmem, rfl⟩ := mem_pyEncObj hx
    obtain ⟨f, hf, hk, _, g⟩ := ha.mem_right hmem
    simp only at hk g
    cases hl : Json.lookup f.name members with
    | none =>
      left
      have hnone := (g.absent hl).1
      cases pv <;> simp_all [PyVal.isNone, pyToJson, Json.isNull]
    | some v =>
      right
      exact ⟨v, by rw [hk]; exact hl, (g.present v hl).enc_sub⟩
  · rw [subMembers_iff]
    rintro ⟨k, v⟩ hx
    cases hnull : v.isNull with
    | true => exact Or.inl rfl
    | false =>
      right
      have hkn : k ∈ fields.map (·.name) := by
        have := hsub' (k, v) hx
        simpa using this
      obtain ⟨f, hf, hfk⟩ := List.mem_map.1 hkn
      obtain ⟨e, he, hk, hreq, g⟩ := ha.mem_left hf
      have hl : Json.lookup f.name members = some v := by
        rw [hfk]; exact lookup_of_mem_nodup ndm hx
      obtain ⟨ek, ereq, epv⟩ := e
      simp only at hk hreq g
      subst hk
      have gg := g.present v hl
      refine ⟨pyToJson epv, ?_, gg.sub_enc⟩
      rw [← hfk]
      exact lookup_pyEncObj ndfl he (Or.inr (gg.nonnull hnull))

/-! ### the induction -/

theorem py_roundtrip_core (ss : Schemas) : ∀ n, PyIH n ss := by
  intro n
  induction n with
  | zero => intro t j h; simp [pyDen] at h
  | succ n ih =>
    intro t j h
    cases t with
    | scalar kind val cs m =>
      simp only [pyDen] at h
      exact ⟨_, by simp only [pyFromJson], passthrough_good h⟩
    | enum vals m =>
      simp only [pyDen] at h
      exact ⟨_, by simp only [pyFromJson], passthrough_good h⟩
    | array e m =>
      simp only [pyDen] at h
      simp only [pyFromJson]
      cases hs : e.isScalar with
      | true =>
        simp only [hs, if_true] at h ⊢
        exact ⟨_, rfl, passthrough_good h⟩
      | false =>
        simp only [hs, Bool.false_eq_true, if_false] at h ⊢
        cases j with
        | arr xs =>
          simp only at h
          obtain ⟨vs, hvs, s1, s2⟩ := py_list_case ih e xs h
          exact ⟨.list vs, by simp [hvs, DRes.map, DRes.bind],
            ⟨by simpa [pyToJson, Json.sub] using s1, by simpa [pyToJson, Json.sub] using s2, fun _ => rfl⟩⟩
        | null | bool _ | num _ | str _ | obj _ => simp at h
    | map idx vt m =>
      simp only [pyDen] at h
      simp only [pyFromJson]
      cases hs : vt.isScalar with
      | true =>
        simp only [hs, if_true] at h ⊢
        exact ⟨_, rfl, passthrough_good h⟩
      | false =>
        simp only [hs, Bool.false_eq_true, if_false] at h ⊢
        cases j with
        | obj kvs =>
          simp only [Bool.and_eq_true] at h
          obtain ⟨l, hl, s1, s2⟩ := py_map_case ih vt kvs h.1 h.2
          refine ⟨.dict l, ?_, ⟨by simpa [pyToJson, Json.sub] using s1, by simpa [pyToJson, Json.sub] using s2,
            fun _ => rfl⟩⟩
          dsimp only
          rw [hl]; rfl
        | null | bool _ | num _ | str _ | arr _ => simp at h
    | disj bs info m =>
      simp only [pyDen] at h
      simp only [pyFromJson]
      cases hcnd : (info.discriminator == "" || info.mapping.isEmpty) with
      | true =>
        simp only [hcnd, if_true] at h ⊢
        exact ⟨_, rfl, passthrough_good h⟩
      | false =>
        simp only [hcnd, Bool.false_eq_true, if_false] at h ⊢
        cases j with
        | obj members =>
          simp only at h ⊢
          cases hd : Json.lookup info.discriminator members with
          | none => simp [hd] at h
          | some d =>
            cases d with
            | str tag =>
              simp only [hd, Bool.and_eq_true, bne_iff_ne, ne_eq] at h
              obtain ⟨hcatch, h⟩ := h
              cases hm : info.mapping.find? (fun kv => kv.1 == tag) with
              | none => simp [hm] at h
              | some kv =>
                simp only [hm] at h
                cases hb : branchPkg bs kv.2 with
                | none => simp [hb] at h
                | some p =>
                  simp only [hb] at h
                  obtain ⟨v, hv, g⟩ := ih _ _ h
                  refine ⟨v, ?_, g⟩
                  have hne : (tag == catchAll) = false := by simpa using hcatch
                  simp only [hne, Bool.false_eq_true, if_false, hm, Option.map_some, hb]
                  exact hv
            | null | bool _ | num _ | arr _ | obj _ => simp [hd] at h
        | null | bool _ | num _ | str _ | arr _ => simp at h
    | ref pkg name m =>
      simp only [pyDen] at h
      simp only [pyFromJson]
      cases ho : Schemas.locateObject ss pkg name with
      | none => simp [ho] at h
      | some o =>
        simp only [ho] at h ⊢
        cases hty : o.ty with
        | struct fields gen gi sm =>
          simp only [hty] at h ⊢
          cases j with
          | obj members =>
            simp only [Bool.and_eq_true] at h
            obtain ⟨⟨⟨h1, h2⟩, h3⟩, h4⟩ := h
            obtain ⟨fl, hfl, s1, s2⟩ := py_fields_case ih _ fields members h1 h2 h3 h4
            refine ⟨.obj fl, ?_, ⟨by simpa [pyToJson, Json.sub] using s1, by simpa [pyToJson, Json.sub] using s2,
              fun _ => rfl⟩⟩
            simp only [classFromJsonWith]
            rw [hfl]; rfl
          | null | bool _ | num _ | str _ | arr _ => simp at h
        | scalar _ _ _ _ | ref _ _ _ | cref _ _ _ _ | array _ _ | map _ _ _ | enum _ _ | disj _ _ _
        | inter _ _ | slot _ _ | bad _ _ =>
          simp only [hty] at h ⊢
          exact ih _ _ h
    | cref _ _ _ _ => simp [pyDen] at h
    | struct _ _ _ _ => simp [pyDen] at h
    | inter _ _ => simp [pyDen] at h
    | slot _ _ => simp [pyDen] at h
    | bad _ _ => simp [pyDen] at h

end Cog.Sem
