/-
  C02, Python declaration fragment — lemmas, part 1: expressions.
  values (`fmtValue`), types (`fmtTy`, structural induction over `Ty`), crashes, aliases.
-/
import Cog.Sem.PyDeclHyp
namespace Cog.Sem.PyDecl
open Cog Cog.IR Cog.OMap

/-! ### values -/

mutual
theorem evalOk_fmtValue (ss : Schemas) : ∀ v : Val, valueOk v = true → evalOk ss (fmtValue v) = true
  | .nil => fun _ => by simp [fmtValue, evalOk, builtinNames]
  | .bool b => fun _ => by cases b <;> simp [fmtValue, evalOk, builtinNames]
  | .list xs => fun h => by
    simp only [valueOk] at h
    simp only [fmtValue, evalOk]; exact evalsOk_fmtValues ss xs h
  | .int t n => fun _ => by simp [fmtValue, sharpLit, evalOk, sharpOk]
  | .float t r => fun h => by simp only [valueOk] at h; simp [fmtValue, sharpLit, evalOk, sharpOk, h]
  | .jnum s => fun h => by simp only [valueOk] at h; simp [fmtValue, sharpLit, evalOk, sharpOk, h]
  | .str s => fun h => by simp only [valueOk] at h; simp [fmtValue, sharpLit, evalOk, sharpOk, h]
  | .map _ => fun h => by simp [valueOk] at h
  | .other .. => fun h => by simp [valueOk] at h
theorem evalsOk_fmtValues (ss : Schemas) : ∀ vs : List Val, valuesOk vs = true → evalsOk ss (fmtValues vs) = true
  | [] => fun _ => by simp [fmtValues, evalsOk]
  | v :: vs => fun h => by
    simp only [valuesOk, Bool.and_eq_true] at h
    simp only [fmtValues, evalsOk, Bool.and_eq_true]
    exact ⟨evalOk_fmtValue ss v h.1, evalsOk_fmtValues ss vs h.2⟩
end

/-! ### expressions that evaluate do not crash, and name importable aliases only -/

theorem aliasOk_typing (ss : Schemas) : aliasOk ss "typing" = true := by
  simp [aliasOk, importOk, importFor]; decide +kernel
theorem aliasOk_enum (ss : Schemas) : aliasOk ss "enum" = true := by
  simp [aliasOk, importOk, importFor]; decide +kernel

theorem declaredIn_locate {ss : Schemas} {q n : String} (h : declaredIn ss q n = true) :
    (Schemas.locate ss q).isSome = true := by
  unfold declaredIn at h
  cases hl : Schemas.locate ss q with
  | none => simp [hl] at h
  | some s => rfl

theorem aliasOk_of_attrOk {ss : Schemas} {q n : String} (h : attrOk ss q n = true) : aliasOk ss q = true := by
  unfold attrOk at h
  by_cases h1 : q = "typing"
  · subst h1; exact aliasOk_typing ss
  · by_cases h2 : q = "enum"
    · subst h2; exact aliasOk_enum ss
    · by_cases h3 : q = "cogvariants"
      · simp [h3] at h
      · simp only [beq_iff_eq, h1, h2, h3, if_false, Bool.and_eq_true] at h
        have hl := declaredIn_locate h.2
        simp [aliasOk, importOk, importFor, h1, h2, h3, h.1, hl]

mutual
theorem evalOk_aliases (ss : Schemas) : ∀ e : PyE, evalOk ss e = true → ∀ a ∈ exprAliases e, aliasOk ss a = true
  | .name _ => fun _ a ha => by simp [exprAliases] at ha
  | .attr q n => fun h a ha => by
    simp only [exprAliases, List.mem_singleton] at ha; subst ha
    simp only [evalOk] at h; exact aliasOk_of_attrOk h
  | .attr2 .. => fun h => by simp [evalOk] at h
  | .quoted _ => fun _ a ha => by simp [exprAliases] at ha
  | .sub hd as => fun h a ha => by
    simp only [evalOk, Bool.and_eq_true] at h
    simp only [exprAliases, List.mem_append] at ha
    rcases ha with ha | ha
    · exact evalsOk_aliases ss as h.2 a ha
    · exact evalOk_aliases ss hd h.1.1 a ha
  | .lit .. => fun _ a ha => by simp [exprAliases] at ha
  | .listLit _ => fun _ a ha => by simp [exprAliases] at ha
  | .call _ => fun h => by simp [evalOk] at h
  | .raw _ => fun _ a ha => by simp [exprAliases] at ha
  | .crefTy t n => fun _ a ha => by
    cases n <;> simp [exprAliases] at ha
    subst ha; exact aliasOk_typing ss
  | .crash _ => fun h => by simp [evalOk] at h
theorem evalsOk_aliases (ss : Schemas) : ∀ es : List PyE, evalsOk ss es = true → ∀ a ∈ exprsAliases es, aliasOk ss a = true
  | [] => fun _ a ha => by simp [exprsAliases] at ha
  | e :: es => fun h a ha => by
    simp only [evalsOk, Bool.and_eq_true] at h
    simp only [exprsAliases, List.mem_append] at ha
    rcases ha with ha | ha
    · exact evalOk_aliases ss e h.1 a ha
    · exact evalsOk_aliases ss es h.2 a ha
end

theorem pyIdent_crashText : pyIdent "<crash>" = false := by decide +kernel

mutual
theorem evalOk_noCrash (ss : Schemas) : ∀ e : PyE, evalOk ss e = true → exprCrash e = none
  | .name _ => fun _ => by simp [exprCrash]
  | .attr .. => fun _ => by simp [exprCrash]
  | .attr2 .. => fun _ => by simp [exprCrash]
  | .quoted _ => fun _ => by simp [exprCrash]
  | .sub hd as => fun h => by
    simp only [evalOk, Bool.and_eq_true] at h
    simp [exprCrash, evalOk_noCrash ss hd h.1.1, evalsOk_noCrash ss as h.2]
  | .lit .. => fun _ => by simp [exprCrash]
  | .listLit xs => fun h => by
    simp only [evalOk] at h
    simp [exprCrash, evalsOk_noCrash ss xs h]
  | .call _ => fun h => by simp [evalOk] at h
  | .raw _ => fun _ => by simp [exprCrash]
  | .crefTy t _ => fun h => by
    simp only [evalOk, Bool.or_eq_true, beq_iff_eq] at h
    rcases h with h | h <;> subst h <;> simp [exprCrash]
  | .crash _ => fun h => by simp [evalOk] at h
theorem evalsOk_noCrash (ss : Schemas) : ∀ es : List PyE, evalsOk ss es = true → exprsCrash es = none
  | [] => fun _ => by simp [exprsCrash]
  | e :: es => fun h => by
    simp only [evalsOk, Bool.and_eq_true] at h
    simp [exprsCrash, evalOk_noCrash ss e h.1, evalsOk_noCrash ss es h.2]
end

mutual
theorem synOk_noCrash : ∀ e : PyE, synOk e = true → exprCrash e = none
  | .name _ => fun _ => by simp [exprCrash]
  | .attr .. => fun _ => by simp [exprCrash]
  | .attr2 .. => fun _ => by simp [exprCrash]
  | .quoted _ => fun _ => by simp [exprCrash]
  | .sub hd as => fun h => by
    simp only [synOk, Bool.and_eq_true] at h
    simp [exprCrash, synOk_noCrash hd h.1.1, synsOk_noCrash as h.2]
  | .lit .. => fun _ => by simp [exprCrash]
  | .listLit xs => fun h => by
    simp only [synOk] at h
    simp [exprCrash, synsOk_noCrash xs h]
  | .call f => fun h => by
    simp only [synOk] at h
    simp [exprCrash, synOk_noCrash f h]
  | .raw _ => fun _ => by simp [exprCrash]
  | .crefTy t _ => fun h => by
    simp only [synOk] at h
    by_cases ht : t = "<crash>"
    · subst ht; rw [pyIdent_crashText] at h; cases h
    · simp [exprCrash, ht]
  | .crash _ => fun h => by simp [synOk] at h
theorem synsOk_noCrash : ∀ es : List PyE, synsOk es = true → exprsCrash es = none
  | [] => fun _ => by simp [exprsCrash]
  | e :: es => fun h => by
    simp only [synsOk, Bool.and_eq_true] at h
    simp [exprsCrash, synOk_noCrash e h.1, synsOk_noCrash es h.2]
end

/-! ### types: structural induction over `Ty` -/

theorem evalOk_optWrap (ss : Schemas) (cur : String) (hc : cur ≠ "typing") (m : Meta) (e : PyE)
    (h : evalOk ss e = true) : evalOk ss (optWrap cur m e) = true := by
  unfold optWrap
  split
  · have : pkgAlias cur "typing" = "typing" := by simp [pkgAlias, Ne.symm hc]
    simp [evalOk, evalsOk, this, attrOk, typingNames, h]
  · exact h

theorem builtin_scalarKind {k : String} (h : knownKinds.contains k = true) :
    builtinNames.contains (scalarKindName k) = true := by
  simp only [knownKinds, List.contains_eq_mem, List.mem_cons, List.not_mem_nil, or_false, decide_eq_true_eq] at h
  rcases h with h | h | h | h | h | h | h | h | h | h | h | h | h | h | h <;> subst h <;> decide +kernel

theorem evalOk_fmtScalar (ss : Schemas) (cur : String) (hc : cur ≠ "typing") (k : String) (v : Val)
    (h : (if Val.isNil v then knownKinds.contains k else valueOk v) = true) : evalOk ss (fmtScalar cur k v) = true := by
  unfold fmtScalar
  by_cases hv : Val.isNil v = true
  · simp only [hv, if_true] at h ⊢
    simp only [evalOk]; exact builtin_scalarKind h
  · simp only [hv] at h ⊢
    have : pkgAlias cur "typing" = "typing" := by simp [pkgAlias, Ne.symm hc]
    simp [evalOk, evalsOk, this, attrOk, typingNames, evalOk_fmtValue ss v h]

theorem evalsOk_enumLits (ss : Schemas) : ∀ vs : List EnumVal, enumValsOk vs = true → evalsOk ss (enumLits vs) = true
  | [] => fun _ => by simp [enumLits, evalsOk]
  | v :: vs => fun h => by
    simp only [enumValsOk, Bool.and_eq_true] at h
    simp [enumLits, evalsOk, evalOk_fmtValue ss v.value h.1, evalsOk_enumLits ss vs h.2]

theorem enumLits_isEmpty : ∀ vs : List EnumVal, (enumLits vs).isEmpty = vs.isEmpty
  | [] => rfl
  | _ :: _ => rfl

mutual
theorem evalOk_fmtTy (ss : Schemas) (cur : String) (hc : cur ≠ "typing") :
    ∀ t : Ty, tyOk ss cur t = true → evalOk ss (fmtTy ss cur t) = true
  | .scalar k v _ m => fun h => by
    simp only [tyOk] at h
    simp only [fmtTy]; exact evalOk_optWrap ss cur hc m _ (evalOk_fmtScalar ss cur hc k v h)
  | .ref p n m => fun h => by
    simp only [tyOk, refOk] at h
    simp only [fmtTy]; exact evalOk_optWrap ss cur hc m _ h
  | .cref p n _ m => fun h => by
    simp only [tyOk] at h
    simp only [fmtTy, evalOk]; exact h
  | .array e m => fun h => by
    simp only [tyOk] at h
    simp only [fmtTy]; apply evalOk_optWrap ss cur hc m
    simp [evalOk, evalsOk, builtinNames, evalOk_fmtTy ss cur hc e h]
  | .map i v m => fun h => by
    simp only [tyOk, Bool.and_eq_true] at h
    simp only [fmtTy]; apply evalOk_optWrap ss cur hc m
    simp [evalOk, evalsOk, builtinNames, evalOk_fmtTy ss cur hc i h.1, evalOk_fmtTy ss cur hc v h.2]
  | .struct .. => fun h => by simp [tyOk] at h
  | .enum vs m => fun h => by
    simp only [tyOk, Bool.and_eq_true] at h
    simp only [fmtTy]; apply evalOk_optWrap ss cur hc m
    have : pkgAlias cur "typing" = "typing" := by simp [pkgAlias, Ne.symm hc]
    simp only [evalOk, this, Bool.and_eq_true]
    exact ⟨⟨by simp [attrOk, typingNames], by rw [enumLits_isEmpty]; exact h.1⟩, evalsOk_enumLits ss vs h.2⟩
  | .disj bs _ m => fun h => by
    simp only [tyOk, Bool.and_eq_true] at h
    simp only [fmtTy]; apply evalOk_optWrap ss cur hc m
    have : pkgAlias cur "typing" = "typing" := by simp [pkgAlias, Ne.symm hc]
    simp only [evalOk, this, Bool.and_eq_true]
    refine ⟨⟨by simp [attrOk, typingNames], ?_⟩, evalsOk_fmtTys ss cur hc bs h.2⟩
    cases bs with
    | nil => simp at h
    | cons b bs => simp [fmtTys]
  | .inter .. => fun h => by simp [tyOk] at h
  | .slot .. => fun h => by simp [tyOk] at h
  | .bad .. => fun h => by simp [tyOk] at h
theorem evalsOk_fmtTys (ss : Schemas) (cur : String) (hc : cur ≠ "typing") :
    ∀ ts : List Ty, tysOk ss cur ts = true → evalsOk ss (fmtTys ss cur ts) = true
  | [] => fun _ => by simp [fmtTys, evalsOk]
  | t :: ts => fun h => by
    simp only [tysOk, Bool.and_eq_true] at h
    simp [fmtTys, evalsOk, evalOk_fmtTy ss cur hc t h.1, evalsOk_fmtTys ss cur hc ts h.2]
end

end Cog.Sem.PyDecl
