/-
  C01 (c) pass widening — back to `den`:
  * the output of NotRequiredFieldAsNullableType on a plain schema set is plain again;
  * on plain schemas and types the Go reading `xden false` implies `den` (the plain clauses of `xden`
    are those of `den`, plus the membership tests on enums and constants, which `den` does not make).
-/
import Cog.Sem.WidenOpt
namespace Cog.Sem.Src
open Cog.IR Cog.Passes
open NotRequiredFieldAsNullableType (vTy vFields fixField)

/-! ### NotRequiredFieldAsNullableType keeps the plain fragment -/

theorem any_key_mapObjects' (g : Obj → Obj) (k : String) (m : Objects) :
    ((mapObjects' g m).any fun ko => ko.1 == k) = (m.any fun ko => ko.1 == k) := by
  simp [mapObjects', List.any_map, Function.comp_def]

theorem wfObjects_mapObjects' (g : Obj → Obj) (hg : ∀ o, (g o).name = o.name) : ∀ m : Objects,
    wfObjects m = true → wfObjects (mapObjects' g m) = true
  | [], _ => rfl
  | (k, o) :: rest, h => by
    simp only [wfObjects, Bool.and_eq_true] at h
    have ih := wfObjects_mapObjects' g hg rest h.2
    have ha := any_key_mapObjects' g k rest
    simp only [mapObjects'] at ih ha
    simp only [mapObjects', List.map, wfObjects, Bool.and_eq_true, hg, ha]
    exact ⟨h.1, ih⟩

theorem fixField_ty_plain (f : Field) (h : plainTy f.ty = true) : plainTy (fixField f f.ty).ty = true := by
  simp only [fixField]
  split
  · simpa [plainTy_setNullable] using h
  · exact h

theorem NR_vTy_plainObj (t : Ty) (h : plainObjTy t = true) : plainObjTy (vTy t) = true := by
  cases t with
  | struct fs g gi m =>
    cases gi with
    | none =>
      simp only [plainObjTy] at h
      simp only [vTy, NR_vFields_plain fs h, plainObjTy, List.all_map, List.all_eq_true] at h ⊢
      intro f hf
      exact fixField_ty_plain f (h f hf)
    | some x => simp [plainObjTy] at h
  | enum vs m => simp [vTy, plainObjTy]
  | scalar k v c m => simpa [vTy] using h
  | ref p n m => simpa [vTy] using h
  | array e m =>
    have hp : plainTy (.array e m) = true := by simpa [plainObjTy] using h
    rw [NR_vTy_plain _ hp]; exact h
  | map i v m =>
    have hp : plainTy (.map i v m) = true := by simpa [plainObjTy] using h
    rw [NR_vTy_plain _ hp]; exact h
  | cref _ _ _ _ => simp [plainObjTy, plainTy] at h
  | disj _ _ _ => simp [plainObjTy, plainTy] at h
  | inter _ _ => simp [plainObjTy, plainTy] at h
  | slot _ _ => simp [plainObjTy, plainTy] at h
  | bad _ _ => simp [plainObjTy, plainTy] at h

theorem NR_vTy_plainEpt (t : Ty) (h : plainEpt t = true) : plainEpt (vTy t) = true := by
  cases t with
  | bad k m => simp [vTy, plainEpt]
  | scalar k v c m => simpa [vTy] using h
  | ref p n m => simpa [vTy] using h
  | array e m =>
    have hp : plainTy (.array e m) = true := by simpa [plainEpt] using h
    rw [NR_vTy_plain _ hp]; exact h
  | map i v m =>
    have hp : plainTy (.map i v m) = true := by simpa [plainEpt] using h
    rw [NR_vTy_plain _ hp]; exact h
  | cref _ _ _ _ => simp [plainEpt, plainTy] at h
  | struct _ _ _ _ => simp [plainEpt, plainTy] at h
  | enum _ _ => simp [plainEpt, plainTy] at h
  | disj _ _ _ => simp [plainEpt, plainTy] at h
  | inter _ _ => simp [plainEpt, plainTy] at h
  | slot _ _ => simp [plainEpt, plainTy] at h

theorem nrS_Plain (S : Schemas) (h : Plain S = true) : Plain (nrS S) = true := by
  simp only [Plain, nrS, mapSchemas, List.all_map, List.all_eq_true] at h ⊢
  intro s hs
  have hp := h s hs
  simp only [Function.comp, plainSchema, mapSchema, Bool.and_eq_true] at hp ⊢
  refine ⟨⟨wfObjects_mapObjects' (setTy vTy) (fun _ => rfl) _ hp.1.1, NR_vTy_plainEpt _ hp.1.2⟩, ?_⟩
  simp only [mapObjects', List.all_map, List.all_eq_true] at hp ⊢
  intro ko hk
  exact NR_vTy_plainObj _ (hp.2 ko hk)

/-! ### `xden false` ⊆ `den` on the plain fragment -/

theorem isCollLike_plain (t : Ty) (h : plainTy t = true) : isCollLike t = (t.isArray || t.isMap) := by
  cases t <;> simp [plainTy] at h <;> rfl

theorem xFields_den (d d' : Ty → Json → Bool) (himp : ∀ t j, plainTy t = true → d t j = true → d' t j = true)
    (fs : List Field) (hp : (fs.all fun f => plainTy f.ty) = true) (members : List (String × Json))
    (h : xFieldsWith false d fs members = true) : denFieldsWith d' fs members = true := by
  simp only [xFieldsWith, denFieldsWith, List.all_eq_true] at h hp ⊢
  intro f hf
  have h := h f hf
  have hpf := hp f hf
  simp only [Bool.false_or, Bool.and_eq_true, Bool.false_eq_true, if_false] at h ⊢
  refine ⟨h.1, ?_⟩
  cases hl : Json.lookup f.name members with
  | some v =>
    rw [hl] at h
    simp only [Bool.and_eq_true] at h ⊢
    refine ⟨himp _ _ hpf h.2.1, ?_⟩
    have := h.2.2
    simpa [xFieldValueOK, fieldValueOK, isCollLike_plain _ hpf] using this
  | none =>
    rw [hl] at h
    simp only [Bool.and_eq_true] at h ⊢
    exact ⟨h.2.1, himp _ _ hpf h.2.2⟩

theorem xdenF_den (S : Schemas) (hP : Plain S = true) : ∀ n t j, plainTy t = true →
    xden false n S t j = true → den n S t j = true := by
  intro n
  induction n with
  | zero => intro t j _ h; simp [xden] at h
  | succ n ih =>
    intro t j hp h
    cases t with
    | scalar kind v cs m =>
      simp only [xden] at h
      simp only [den]
      by_cases hb : kind = "bytes"
      · simp [hb] at h
      · by_cases ha : kind = "any"
        · simpa [hb, ha] using h
        · simp only [hb, ha, if_false] at h ⊢
          cases hd : hasHint m "string_format_datetime" with
          | true =>
            simp only [hd, if_true] at h ⊢
            cases j <;> simpa using h
          | false =>
            simp only [hd, Bool.false_eq_true, if_false, Bool.or_eq_true, Bool.and_eq_true] at h ⊢
            rcases h with h | h
            · exact Or.inl h
            · exact Or.inr h.1
    | array e m =>
      simp only [plainTy] at hp
      simp only [xden, den, Bool.and_eq_true] at h ⊢
      refine ⟨h.1, ?_⟩
      cases j with
      | arr xs => exact all_mono _ _ (fun x => ih e x hp) xs h.2
      | null => exact h.2
      | bool _ | num _ | str _ | obj _ => exact h.2
    | map i v m =>
      simp only [plainTy, Bool.and_eq_true] at hp
      simp only [xden] at h
      simp only [den]
      split at h
      · cases j with
        | obj kvs =>
          simp only [Bool.and_eq_true] at h ⊢
          exact ⟨h.1, all_mono _ _ (fun kv => ih v kv.2 hp.2) kvs h.2⟩
        | null => exact h
        | bool _ | num _ | str _ | arr _ => exact h
      · simp at h
    | ref p nm m =>
      simp only [xden] at h
      simp only [den]
      cases ho : Schemas.locateObject S p nm with
      | none => simp [ho] at h
      | some o =>
        have hpo := Plain_located hP ho
        simp only [ho] at h ⊢
        cases hty : o.ty with
        | struct fields gen gi sm =>
          cases gi with
          | none =>
            rw [hty] at hpo
            simp only [plainObjTy] at hpo
            simp only [hty, Bool.or_eq_true] at h ⊢
            rcases h with h | h
            · exact Or.inl h
            · right
              cases j with
              | obj members =>
                simp only [xStructBody, Bool.and_eq_true] at h ⊢
                exact ⟨h.1, xFields_den _ _ (fun t j => ih t j) fields hpo members h.2⟩
              | null | bool _ | num _ | str _ | arr _ => simp [xStructBody] at h
          | some x => simp [hty] at h
        | enum vals em =>
          cases vals with
          | nil => simp [hty] at h
          | cons v0 rest =>
            simp only [hty, Bool.or_eq_true, Bool.and_eq_true] at h ⊢
            rcases h with h | h
            · exact Or.inl h
            · exact Or.inr h.1
        | scalar kind sv scs om => cases sv <;> first | (simp [hty] at h; done) | (simpa [hty] using h)
        | array ae am =>
          rw [hty] at hpo
          have hpa : plainTy (.array ae am) = true := by simpa [plainObjTy] using hpo
          simp only [hty, Bool.and_eq_true] at h ⊢
          exact ⟨h.1, ih _ _ hpa h.2⟩
        | map mi mv mm =>
          rw [hty] at hpo
          have hpa : plainTy (.map mi mv mm) = true := by simpa [plainObjTy] using hpo
          simp only [hty, Bool.and_eq_true] at h ⊢
          exact ⟨h.1, ih _ _ hpa h.2⟩
        | ref rp rn rm =>
          simp only [hty] at h ⊢
          exact ih _ _ rfl h
        | cref _ _ _ _ => simp [hty] at h
        | disj _ _ _ => simp [hty] at h
        | inter _ _ => simp [hty] at h
        | slot _ _ => simp [hty] at h
        | bad _ _ => simp [hty] at h
    | cref _ _ _ _ => simp [plainTy] at hp
    | struct _ _ _ _ => simp [plainTy] at hp
    | enum _ _ => simp [plainTy] at hp
    | disj _ _ _ => simp [plainTy] at hp
    | inter _ _ => simp [plainTy] at hp
    | slot _ _ => simp [plainTy] at hp
    | bad _ _ => simp [plainTy] at hp

end Cog.Sem.Src
