/-
  C01 (c) pass widening — composition along a pass list.

  `plainChainOK ps` is a decidable check on a concrete chain: NotRequiredFieldAsNullableType occurs,
  every pass before it is one of the passes proved to be the identity on plain schemas
  (Cog/Sem/WidenId.lean), every pass after it is one of those or PrefixEnumValues
  (den-preserving, Cog/Sem/WidenEnum.lean).  `widen_chain` lifts the per-pass lemmas to every such
  chain; Props/C01.lean discharges the check by `decide` on the REGENERATED `Cog.Gen.Chains.goChain`,
  so editing `CompilerPasses()` in /repo re-opens the obligation.
-/
import Cog.Sem.WidenDen
import Cog.Sem.WidenEnum
namespace Cog.Sem.Src
open Cog.IR Cog.Passes

/-- passes proved to be the identity on `Plain` schema sets -/
def idOnPlain : PassId → Bool
  | .anonymousStructsToNamed => true
  | .disjunctionWithNullToOptional => true
  | .disjunctionOfConstantsToEnum => true
  | .anonymousEnumToExplicitType => true
  | .flattenDisjunctions => true
  | .disjunctionOfAnonymousStructsToExplicit => true
  | .disjunctionInferMapping => true
  | .undiscriminatedDisjunctionToAny => true
  | .disjunctionToType => true
  | _ => false

theorem idOnPlain_sound (p : PassId) (hp : idOnPlain p = true) (S : Schemas) (h : Plain S = true) :
    p.run S = .ok S := by
  cases p <;> simp [idOnPlain] at hp
  · exact AnonymousStructsToNamed_plain S h
  · exact DisjunctionWithNullToOptional_plain S h
  · exact DisjunctionOfConstantsToEnum_plain S h
  · exact AnonymousEnumToExplicitType_plain S h
  · exact FlattenDisjunctions_plain S h
  · exact DisjunctionOfAnonymousStructsToExplicit_plain S h
  · exact DisjunctionInferMapping_plain S h
  · exact UndiscriminatedDisjunctionToAny_plain S h
  · exact DisjunctionToType_plain S h

/-- a chain of identity passes returns its plain input -/
theorem runChain_id : ∀ (ps : List PassId), ps.all idOnPlain = true → ∀ S S', Plain S = true →
    runChain ps S = .ok S' → S' = S
  | [], _, S, S', _, h => by simp [runChain] at h; exact h.symm
  | p :: ps, hps, S, S', hP, h => by
    simp only [List.all_cons, Bool.and_eq_true] at hps
    simp only [runChain, idOnPlain_sound p hps.1 S hP] at h
    exact runChain_id ps hps.2 S S' hP h

def denKeeping (p : PassId) : Bool := idOnPlain p || p == .prefixEnumValues

/-- a chain of identity passes and PrefixEnumValues preserves `den` and the plain fragment -/
theorem runChain_den : ∀ (ps : List PassId), ps.all denKeeping = true → ∀ S S', Plain S = true →
    runChain ps S = .ok S' → Plain S' = true ∧ ∀ n t j, den n S t j = true → den n S' t j = true
  | [], _, S, S', hP, h => by
    simp [runChain] at h; subst h; exact ⟨hP, fun _ _ _ h => h⟩
  | p :: ps, hps, S, S', hP, h => by
    simp only [List.all_cons, Bool.and_eq_true] at hps
    simp only [runChain] at h
    cases hr : p.run S with
    | ok S1 =>
      simp only [hr] at h
      have h1 : Plain S1 = true ∧ ∀ n t j, den n S t j = true → den n S1 t j = true := by
        have hk := hps.1
        simp only [denKeeping, Bool.or_eq_true, beq_iff_eq] at hk
        rcases hk with hk | hk
        · rw [idOnPlain_sound p hk S hP] at hr
          cases hr
          exact ⟨hP, fun _ _ _ h => h⟩
        · subst hk
          have := PrefixEnumValues_den S S1 hr
          exact ⟨this.2 hP, this.1⟩
      obtain ⟨h2, h3⟩ := runChain_den ps hps.2 S1 S' h1.1 h
      exact ⟨h2, fun n t j hd => h3 n t j (h1.2 n t j hd)⟩
    | err e => simp [hr] at h
    | panic e => simp [hr] at h

def splitAtOpt : List PassId → Option (List PassId × List PassId)
  | [] => none
  | x :: xs =>
    if x = .notRequiredFieldAsNullableType then some ([], xs)
    else (splitAtOpt xs).map fun ab => (x :: ab.1, ab.2)

theorem splitAtOpt_eq : ∀ {ps pre post : List PassId}, splitAtOpt ps = some (pre, post) →
    ps = pre ++ PassId.notRequiredFieldAsNullableType :: post
  | [], _, _, h => by simp [splitAtOpt] at h
  | x :: xs, pre, post, h => by
    simp only [splitAtOpt] at h
    split at h
    · rename_i hx; simp at h; obtain ⟨rfl, rfl⟩ := h; simp [hx]
    · cases hs : splitAtOpt xs with
      | none => simp [hs] at h
      | some ab =>
        simp [hs] at h
        obtain ⟨rfl, rfl⟩ := h
        simp [splitAtOpt_eq (ps := xs) (pre := ab.1) (post := ab.2) (by rw [hs])]

/-- the decidable shape check on a concrete chain -/
def plainChainOK (ps : List PassId) : Bool :=
  match splitAtOpt ps with
  | some (pre, post) => pre.all idOnPlain && post.all denKeeping
  | none => false

theorem runChain_append' : ∀ (ps qs : List PassId) (S S' : Schemas),
    runChain (ps ++ qs) S = .ok S' → ∃ S1, runChain ps S = .ok S1 ∧ runChain qs S1 = .ok S'
  | [], qs, S, S', h => ⟨S, rfl, h⟩
  | p :: ps, qs, S, S', h => by
    simp only [List.cons_append, runChain] at h ⊢
    cases hr : p.run S with
    | ok S0 => simp only [hr] at h ⊢; exact runChain_append' ps qs S0 S' h
    | err e => simp [hr] at h
    | panic e => simp [hr] at h

/-- pass widening along every chain of the checked shape: a document of the source-side language of
    a plain pre-chain IR belongs to `den` of the post-chain IR, for the same type, at the same fuel;
    and the post-chain IR is plain -/
theorem widen_chain (ps : List PassId) (hok : plainChainOK ps = true) (S S' : Schemas)
    (hP : Plain S = true) (hrun : runChain ps S = .ok S') :
    Plain S' = true ∧ ∀ n t j, plainTy t = true → srcDen n S t j = true → den n S' t j = true := by
  simp only [plainChainOK] at hok
  cases hs : splitAtOpt ps with
  | none => simp [hs] at hok
  | some ab =>
    obtain ⟨pre, post⟩ := ab
    simp only [hs, Bool.and_eq_true] at hok
    rw [splitAtOpt_eq hs] at hrun
    obtain ⟨S1, h1, h2⟩ := runChain_append' pre _ S S' hrun
    have e1 : S1 = S := runChain_id pre hok.1 S S1 hP h1
    subst e1
    simp only [runChain, PassId.run, NotRequired_run_plain S1 hP] at h2
    have hP2 := nrS_Plain S1 hP
    obtain ⟨hP', hden⟩ := runChain_den post hok.2 (nrS S1) S' hP2 h2
    refine ⟨hP', fun n t j ht hs => ?_⟩
    exact hden n t j (xdenF_den (nrS S1) hP2 n t j ht (nr_widen S1 hP n t j ht hs))

end Cog.Sem.Src
