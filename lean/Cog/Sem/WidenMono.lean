/-
  C01 (c) pass widening — `xden` is monotone in the fuel (both readings, every construct).  Needed
  where a pass removes a node that consumed fuel (`T | null` → nullable `T`).
-/
import Cog.Sem.SrcDen
import Cog.Sem.DenMono
namespace Cog.Sem.Src
open Cog.IR Cog.Passes

theorem xFieldsWith_mono (src : Bool) (d e : Ty → Json → Bool) (h : ∀ t j, d t j = true → e t j = true)
    (fields : List Field) (members : List (String × Json))
    (hd : xFieldsWith src d fields members = true) : xFieldsWith src e fields members = true := by
  unfold xFieldsWith at hd ⊢
  apply all_mono _ _ _ fields hd
  intro f hf
  simp only [Bool.and_eq_true] at hf ⊢
  refine ⟨hf.1, ?_⟩
  cases hl : Json.lookup f.name members with
  | none =>
    rw [hl] at hf
    simp only [Bool.and_eq_true] at hf ⊢
    exact ⟨hf.2.1, h _ _ hf.2.2⟩
  | some v =>
    rw [hl] at hf
    simp only [Bool.and_eq_true] at hf ⊢
    exact ⟨h _ _ hf.2.1, hf.2.2⟩

theorem xStructBody_mono (src : Bool) (d e : Ty → Json → Bool) (h : ∀ t j, d t j = true → e t j = true)
    (fields : List Field) (j : Json) (hd : xStructBody src d fields j = true) :
    xStructBody src e fields j = true := by
  cases j with
  | obj members =>
    simp only [xStructBody, Bool.and_eq_true] at hd ⊢
    exact ⟨hd.1, xFieldsWith_mono src d e h fields members hd.2⟩
  | null | bool _ | num _ | str _ | arr _ => simp [xStructBody] at hd

theorem or_right_mono {a b c : Bool} (h : b = true → c = true) (hab : (a || b) = true) : (a || c) = true := by
  cases a <;> simp_all

theorem xden_mono (src : Bool) (S : Schemas) : ∀ n t j, xden src n S t j = true → xden src (n + 1) S t j = true := by
  intro n
  induction n with
  | zero => intro t j h; simp [xden] at h
  | succ n ih =>
    intro t j h
    generalize hk : n + 1 = k
    have ih' : ∀ t j, xden src n S t j = true → xden src k S t j = true := by subst hk; exact ih
    clear ih
    cases t with
    | scalar kind val cs m => simpa [xden] using h
    | array e m =>
      simp only [xden, Bool.and_eq_true] at h ⊢
      refine ⟨h.1, ?_⟩
      cases j with
      | arr xs => exact all_mono _ _ (fun x => ih' e x) xs h.2
      | null => exact h.2
      | bool _ | num _ | str _ | obj _ => exact h.2
    | map idx vt m =>
      simp only [xden] at h ⊢
      split at h
      · cases j with
        | obj kvs =>
          simp only [Bool.and_eq_true] at h ⊢
          exact ⟨h.1, all_mono _ _ (fun kv => ih' vt kv.2) kvs h.2⟩
        | null => exact h
        | bool _ | num _ | str _ | arr _ => exact h
      · simp at h
    | ref pkg name m =>
      simp only [xden] at h ⊢
      cases ho : Schemas.locateObject S pkg name with
      | none => simp [ho] at h
      | some o =>
        simp only [ho] at h ⊢
        cases hty : o.ty with
        | struct fields gen gi sm =>
          cases gi with
          | none =>
            simp only [hty] at h ⊢
            exact or_right_mono (xStructBody_mono src _ _ (fun t j => ih' t j) fields j) h
          | some x => simp [hty] at h
        | enum vals em =>
          cases vals with
          | nil => simp [hty] at h
          | cons v0 rest => simpa [hty] using h
        | scalar kind sv scs om => simpa [hty] using h
        | array ae am =>
          simp only [hty, Bool.and_eq_true] at h ⊢
          exact ⟨h.1, ih' _ _ h.2⟩
        | map mi mv mm =>
          simp only [hty, Bool.and_eq_true] at h ⊢
          exact ⟨h.1, ih' _ _ h.2⟩
        | ref rp rn rm =>
          simp only [hty] at h ⊢
          exact ih' _ _ h
        | cref _ _ _ _ => simp [hty] at h
        | disj _ _ _ => simp [hty] at h
        | inter _ _ => simp [hty] at h
        | slot _ _ => simp [hty] at h
        | bad _ _ => simp [hty] at h
    | struct fields gen gi sm =>
      cases gi with
      | none =>
        simp only [xden] at h ⊢
        exact or_right_mono (xStructBody_mono src _ _ (fun t j => ih' t j) fields j) h
      | some x => simp [xden] at h
    | enum vals em =>
      cases vals with
      | nil => simp [xden] at h
      | cons v0 rest => simpa [xden] using h
    | disj bs info m =>
      simp only [xden] at h ⊢
      split
      · rename_i hc
        simp only [hc, if_true] at h
        cases hnn : nonNullTypes bs with
        | nil => simp [hnn] at h
        | cons t rest => simp only [hnn] at h ⊢; exact ih' _ _ h
      · rename_i hc
        simp only [hc, if_false] at h
        exact h
    | cref _ _ _ _ => simp [xden] at h
    | inter _ _ => simp [xden] at h
    | slot _ _ => simp [xden] at h
    | bad _ _ => simp [xden] at h

theorem xden_mono_le (src : Bool) (S : Schemas) (n m : Nat) (h : n ≤ m) (t : Ty) (j : Json)
    (hd : xden src n S t j = true) : xden src m S t j = true := by
  induction h with
  | refl => exact hd
  | step _ ih => exact xden_mono src S _ t j ih

end Cog.Sem.Src
