/-
  C11 pass widening — proofs: the source-side language `srcDen` of a pre-chain IR in `PlainPy` is
  included in `pyDen` of the output of the Python chain.

  Unlike the Go side there is no intermediate "Go reading": `pyDen` never looks at `nullable` except
  through `needsDefault`, and it REJECTS an explicit `null` wherever `from_json` calls a decoder, so
  the induction goes directly from the source types to their images under the composite
  `pyS = RenameNumericEnumValues ∘ DisjunctionWithNullToOptional ∘ NotRequiredFieldAsNullableType`
  (exact results of the passes: Cog/Sem/Widen{Opt,Null,AnonEnum}.lean), keeping the source's own
  account of where `null` may occur.  One more unit of fuel for the removed `T | null` node.
-/
import Cog.Sem.SrcPy
import Cog.Sem.WidenChainN
import Cog.Sem.WidenStruct
import Cog.Sem.AnyLemmas
namespace Cog.Sem.Src
open Cog.IR Cog.Passes
open Cog.OMap (rget)
open NotRequiredFieldAsNullableType (vTy vFields fixField)

/-! ### `pyDen`: monotone in the fuel, blind to `nullable` -/

theorem pyFieldOK_mono (ss : Schemas) (d e : Ty → Json → Bool) (h : ∀ t j, d t j = true → e t j = true)
    (members : List (String × Json)) (f : Field) (hd : pyFieldOK ss d members f = true) :
    pyFieldOK ss e members f = true := by
  unfold pyFieldOK at hd ⊢
  cases hfx : fixedValue ss f.ty with
  | some r => simpa [hfx] using hd
  | none =>
    simp only [hfx, Bool.and_eq_true] at hd ⊢
    refine ⟨hd.1, ?_⟩
    cases hl : Json.lookup f.name members with
    | none => simpa [hl] using hd.2
    | some v =>
      rw [hl] at hd
      simp only [Bool.and_eq_true] at hd ⊢
      exact ⟨h _ _ hd.2.1, hd.2.2⟩

theorem pyDen_mono (ss : Schemas) : ∀ n t j, pyDen n ss t j = true → pyDen (n + 1) ss t j = true := by
  intro n
  induction n with
  | zero => intro t j h; simp [pyDen] at h
  | succ n ih =>
    intro t j h
    generalize hk : n + 1 = k
    have ih' : ∀ t j, pyDen n ss t j = true → pyDen k ss t j = true := by subst hk; exact ih
    clear ih
    cases t with
    | scalar kind val cs m => simpa [pyDen] using h
    | enum vs m => simpa [pyDen] using h
    | array e m =>
      simp only [pyDen] at h ⊢
      split
      · rename_i hs; simpa [hs] using h
      · rename_i hs
        rw [if_neg hs] at h
        cases j with
        | arr xs => exact all_mono _ _ (fun x => ih' e x) xs h
        | null | bool _ | num _ | str _ | obj _ => simp at h
    | map idx vt m =>
      simp only [pyDen] at h ⊢
      split
      · rename_i hs; simpa [hs] using h
      · rename_i hs
        rw [if_neg hs] at h
        cases j with
        | obj kvs =>
          simp only [Bool.and_eq_true] at h ⊢
          exact ⟨h.1, all_mono _ _ (fun kv => ih' vt kv.2) kvs h.2⟩
        | null | bool _ | num _ | str _ | arr _ => simp at h
    | ref pkg name m =>
      simp only [pyDen] at h ⊢
      cases ho : Schemas.locateObject ss pkg name with
      | none => simp [ho] at h
      | some o =>
        simp only [ho] at h ⊢
        cases hty : o.ty with
        | struct fields gen gi sm =>
          simp only [hty] at h ⊢
          cases j with
          | obj members =>
            simp only [Bool.and_eq_true] at h ⊢
            exact ⟨h.1, all_mono _ _ (fun f => pyFieldOK_mono ss _ _ (fun t j => ih' t j) members f) fields h.2⟩
          | null | bool _ | num _ | str _ | arr _ => simp at h
        | scalar _ _ _ _ => simp only [hty] at h ⊢; exact ih' _ _ h
        | ref _ _ _ => simp only [hty] at h ⊢; exact ih' _ _ h
        | cref _ _ _ _ => simp only [hty] at h ⊢; exact ih' _ _ h
        | array _ _ => simp only [hty] at h ⊢; exact ih' _ _ h
        | map _ _ _ => simp only [hty] at h ⊢; exact ih' _ _ h
        | enum _ _ => simp only [hty] at h ⊢; exact ih' _ _ h
        | disj _ _ _ => simp only [hty] at h ⊢; exact ih' _ _ h
        | inter _ _ => simp only [hty] at h ⊢; exact ih' _ _ h
        | slot _ _ => simp only [hty] at h ⊢; exact ih' _ _ h
        | bad _ _ => simp only [hty] at h ⊢; exact ih' _ _ h
    | disj bs info m =>
      simp only [pyDen] at h ⊢
      split
      · rename_i hs; simpa [hs] using h
      · rename_i hs
        rw [if_neg hs] at h
        cases j with
        | obj members =>
          simp only at h ⊢
          cases hd : Json.lookup info.discriminator members with
          | none => simp [hd] at h
          | some d =>
            cases d with
            | str tag =>
              simp only [hd, Bool.and_eq_true] at h ⊢
              refine ⟨h.1, ?_⟩
              cases hm : info.mapping.find? (fun kv => kv.1 == tag) with
              | none => simp [hm] at h
              | some kv =>
                simp only [hm] at h ⊢
                cases hb : branchPkg bs kv.2 with
                | none => simp [hb] at h
                | some p => simp only [hb] at h ⊢; exact ih' _ _ h.2
            | null | bool _ | num _ | arr _ | obj _ => simp [hd] at h
        | null | bool _ | num _ | str _ | arr _ => simp at h
    | cref _ _ _ _ => simp [pyDen] at h
    | struct _ _ _ _ => simp [pyDen] at h
    | inter _ _ => simp [pyDen] at h
    | slot _ _ => simp [pyDen] at h
    | bad _ _ => simp [pyDen] at h

theorem pyDen_setNullable (ss : Schemas) (b : Bool) (n : Nat) (t : Ty) (j : Json) :
    pyDen n ss (setNullable b t) j = pyDen n ss t j := by
  cases n with
  | zero => simp [pyDen]
  | succ n => cases t <;> simp [pyDen, setNullable, Ty.setMeta, Ty.getMeta]

theorem pyDen_ref_meta (ss : Schemas) (n : Nat) (p nm : String) (m m' : Meta) (j : Json) :
    pyDen n ss (.ref p nm m) j = pyDen n ss (.ref p nm m') j := by
  cases n with
  | zero => simp [pyDen]
  | succ n => simp [pyDen]

/-! ### pass-through positions: what `xden` admits there has no duplicate keys -/

mutual
theorem wfDeep_wfJson : ∀ j : Json, wfDeep j = true → wfJson j = true
  | .obj kvs, h => by
    simp only [wfDeep, wfJson, Bool.and_eq_true, keysNodup0_eq] at h ⊢
    exact ⟨h.1, wfDeepMembers_wfJson kvs h.2⟩
  | .arr xs, h => by
    simp only [wfDeep, wfJson] at h ⊢
    exact wfDeepList_wfJson xs h
  | .null, _ => rfl
  | .bool _, _ => rfl
  | .num _, _ => rfl
  | .str _, _ => rfl
theorem wfDeepList_wfJson : ∀ xs : List Json, wfDeepList xs = true → wfJsonList xs = true
  | [], _ => rfl
  | x :: xs, h => by
    simp only [wfDeepList, wfJsonList, Bool.and_eq_true] at h ⊢
    exact ⟨wfDeep_wfJson x h.1, wfDeepList_wfJson xs h.2⟩
theorem wfDeepMembers_wfJson : ∀ kvs : List (String × Json), wfDeepMembers kvs = true → wfJsonMembers kvs = true
  | [], _ => rfl
  | (_, v) :: t, h => by
    simp only [wfDeepMembers, wfJsonMembers, Bool.and_eq_true] at h ⊢
    exact ⟨wfDeep_wfJson v h.1, wfDeepMembers_wfJson t h.2⟩
end

theorem denScalar_wf (k : String) (j : Json) (h : denScalar k j = true) : wfJson j = true := by
  cases j with
  | null | bool _ | num _ | str _ => rfl
  | arr xs => exfalso; unfold denScalar at h; (repeat' split at h) <;> simp_all
  | obj kvs => exfalso; unfold denScalar at h; (repeat' split at h) <;> simp_all

theorem scalar_wf (src : Bool) (S : Schemas) (n : Nat) (k : String) (v : Val) (cs : List Constraint) (m : Meta)
    (j : Json) (h : xden src n S (.scalar k v cs m) j = true) : wfJson j = true := by
  cases n with
  | zero => simp [xden] at h
  | succ n =>
    simp only [xden] at h
    by_cases hb : k = "bytes"
    · simp [hb] at h
    · by_cases ha : k = "any"
      · subst ha
        simp at h
        exact wfDeep_wfJson j h.2
      · simp only [hb, ha, if_false] at h
        have hnull : ∀ x : Bool, (x && j.isNull) = true → wfJson j = true := by
          intro x hx; cases j <;> simp [Json.isNull] at hx <;> rfl
        cases hd : hasHint m "string_format_datetime" with
        | true =>
          simp only [hd, if_true, Bool.or_eq_true] at h
          rcases h with h | h
          · exact hnull _ h
          · cases j <;> first | rfl | simp at h
        | false =>
          simp only [hd, Bool.false_eq_true, if_false, Bool.or_eq_true, Bool.and_eq_true] at h
          rcases h with h | h
          · exact hnull _ (by simpa using h)
          · exact denScalar_wf k j h.1

theorem isScalar_setNullable (b : Bool) (t : Ty) : (setNullable b t).isScalar = t.isScalar := by
  cases t <;> rfl

/-- documents of a type whose image is a scalar (a scalar, `scalar | null`) -/
theorem leaf_wf (S : Schemas) : ∀ (n : Nat) (e : Ty) (x : Json), (nullOpt e).isScalar = true → nrTy e = true →
    xden true n S e x = true → wfJson x = true := by
  intro n e x hs hn h
  cases e with
  | scalar k v cs m => exact scalar_wf true S n k v cs m x h
  | disj bs info m =>
    simp only [nrTy] at hn
    obtain ⟨t, ht, hpt⟩ := nullPair_spec hn
    obtain ⟨hc, hnn⟩ := nullPairOf_spec ht
    simp only [nullOpt, ht, isScalar_setNullable] at hs
    cases n with
    | zero => simp [xden] at h
    | succ n =>
      simp only [xden, hc, if_true, hnn] at h
      cases t with
      | scalar k v cs tm => exact scalar_wf true S n k v cs _ x h
      | _ => simp [Ty.isScalar] at hs
  | array _ _ => simp [nullOpt, Ty.isScalar] at hs
  | map _ _ _ => simp [nullOpt, Ty.isScalar] at hs
  | ref _ _ _ => simp [nullOpt, Ty.isScalar] at hs
  | enum _ _ => simp [nullOpt, Ty.isScalar] at hs
  | cref _ _ _ _ => simp [nrTy] at hn
  | struct _ _ _ _ => simp [nrTy] at hn
  | inter _ _ => simp [nrTy] at hn
  | slot _ _ => simp [nrTy] at hn
  | bad _ _ => simp [nrTy] at hn

theorem wfJsonList_of_all (xs : List Json) (h : ∀ x ∈ xs, wfJson x = true) : wfJsonList xs = true := by
  induction xs with
  | nil => rfl
  | cons x xs ih =>
    simp only [wfJsonList, Bool.and_eq_true]
    exact ⟨h x (List.mem_cons_self ..), ih (fun y hy => h y (List.mem_cons_of_mem _ hy))⟩

theorem wfJsonMembers_of_all (kvs : List (String × Json)) (h : ∀ kv ∈ kvs, wfJson kv.2 = true) :
    wfJsonMembers kvs = true := by
  induction kvs with
  | nil => rfl
  | cons kv kvs ih =>
    obtain ⟨k, v⟩ := kv
    simp only [wfJsonMembers, Bool.and_eq_true]
    exact ⟨h (k, v) (List.mem_cons_self ..), ih (fun y hy => h y (List.mem_cons_of_mem _ hy))⟩

/-! ### the output of the Python chain and lookups in it -/

theorem mapObjects_eq (f : Obj → Obj) (m : Objects) : mapObjects f m = mapObjects' f m := by
  rfl

theorem rnS_eq (S : Schemas) : rnS S = mapSchemas (fun t => t) RenameNumericEnumValues.processObject S := by
  simp only [rnS, mapSchemas]
  apply List.map_congr_left
  intro s _
  simp [RenameNumericEnumValues.processSchema, mapSchema, mapObjects_eq]

/-- an object after the Python chain -/
def pyObj (o : Obj) : Obj := RenameNumericEnumValues.processObject (setTy nullOptO (setTy vTy o))

theorem locateObject_pyS (S : Schemas) (pkg name : String) :
    Schemas.locateObject (pyS S) pkg name = (Schemas.locateObject S pkg name).map pyObj := by
  simp only [pyS, rnS_eq, nullOptS, nrS, locateObject_mapSchemas, Option.map_map]
  rfl

theorem RenameNumericEnumValues_run (S : Schemas) : RenameNumericEnumValues.run S = .ok (rnS S) := rfl

/-! ### facts from the fragment -/

theorem PlainPy_located {S : Schemas} (h : PlainPy S = true) {pkg name : String} {o : Obj}
    (ho : Schemas.locateObject S pkg name = some o) : nrObjTy o.ty = true ∧ pyObjTy o.ty = true := by
  simp only [PlainPy, Bool.and_eq_true] at h
  refine ⟨PlainN_located h.1 ho, ?_⟩
  obtain ⟨s, hs, hm⟩ := locateObject_mem ho
  have := h.2
  simp only [pyOK, List.all_eq_true] at this
  exact this s hs _ hm

theorem setNullable_idem (t : Ty) : setNullable true (setNullable true t) = setNullable true t := by
  cases t <;> rfl

theorem nullOpt_setNullable (t : Ty) (h : nrTy t = true) :
    nullOpt (setNullable true t) = setNullable true (nullOpt t) := by
  cases t with
  | disj bs info m =>
    simp only [nrTy] at h
    obtain ⟨u, hu, _⟩ := nullPair_spec h
    have : setNullable true (.disj bs info m) = .disj bs info { m with nullable := true } := rfl
    simp only [this, nullOpt, hu, setNullable_idem]
  | scalar _ _ _ _ | ref _ _ _ | array _ _ | map _ _ _ | enum _ _ => rfl
  | cref _ _ _ _ | struct _ _ _ _ | inter _ _ | slot _ _ | bad _ _ => simp [nrTy] at h

/-- an explicit `null` is not a document of a non-nullable reference -/
theorem xden_ref_null (S : Schemas) (hP : PlainPy S = true) : ∀ (n : Nat) (p nm : String) (m : Meta),
    m.nullable = false → xden true n S (.ref p nm m) .null = false := by
  intro n
  induction n with
  | zero => intros; rfl
  | succ n ih =>
    intro p nm m hm
    simp only [xden]
    cases ho : Schemas.locateObject S p nm with
    | none => rfl
    | some o =>
      obtain ⟨_, hpy⟩ := PlainPy_located hP ho
      simp only []
      cases hty : o.ty with
      | struct fields gen gi sm =>
        cases gi with
        | none => simp [hm, xStructBody]
        | some x => rfl
      | enum vals em =>
        cases vals with
        | nil => rfl
        | cons v0 rest =>
          have : denScalar v0.kind .null = false := by
            cases hd : denScalar v0.kind .null with
            | false => rfl
            | true => exfalso; unfold denScalar at hd; (repeat' split at hd) <;> simp_all
          simp [hm, this]
      | scalar kind sv scs om =>
        have : denScalar kind .null = false := by
          cases hd : denScalar kind .null with
          | false => rfl
          | true => exfalso; unfold denScalar at hd; (repeat' split at hd) <;> simp_all
        simp [hm, this]
      | array ae am =>
        rw [hty] at hpy
        simp only [pyObjTy, Bool.and_eq_true, Bool.not_eq_true'] at hpy
        cases n with
        | zero => simp [xden]
        | succ n => simp [xden, hpy.2, isEmptyColl]
      | map mi mv mm =>
        rw [hty] at hpy
        simp only [pyObjTy, Bool.and_eq_true, Bool.not_eq_true'] at hpy
        cases n with
        | zero => simp [xden]
        | succ n =>
          simp only [xden, isEmptyColl, Bool.not_false, Bool.true_and]
          split <;> simp [hpy.2]
      | ref rp rn rm => exact ih rp rn _ hm
      | cref _ _ _ _ => rfl
      | disj _ _ _ => rfl
      | inter _ _ => rfl
      | slot _ _ => rfl
      | bad _ _ => rfl

/-- where the source admits an explicit `null`, the image is a scalar or nullable -/
theorem null_image (S : Schemas) (hP : PlainPy S = true) (n : Nat) (t : Ty) (hn : nrTy t = true) (hp : pyTy t = true)
    (h : xden true n S t .null = true) :
    (nullOpt t).isScalar = true ∨ (nullOpt t).getMeta.nullable = true := by
  cases n with
  | zero => simp [xden] at h
  | succ n =>
    cases t with
    | scalar _ _ _ _ => exact Or.inl rfl
    | ref p nm m =>
      simp only [pyTy, Bool.not_eq_true'] at hp
      rw [xden_ref_null S hP (n + 1) p nm m hp] at h
      cases h
    | array e m =>
      simp only [xden, Bool.and_eq_true] at h
      exact Or.inr h.2
    | map i v m =>
      simp only [xden] at h
      split at h
      · exact Or.inr h
      · simp at h
    | enum vals em =>
      cases vals with
      | nil => simp [xden] at h
      | cons v0 rest =>
        have : denScalar v0.kind .null = false := by
          cases hd : denScalar v0.kind .null with
          | false => rfl
          | true => exfalso; unfold denScalar at hd; (repeat' split at hd) <;> simp_all
        simp only [xden, this, Bool.false_and, Bool.or_false, Bool.and_eq_true] at h
        exact Or.inr h.1
    | disj bs info m =>
      simp only [nrTy] at hn
      obtain ⟨u, hu, _⟩ := nullPair_spec hn
      exact Or.inr (by simp only [nullOpt, hu, getMeta_setNullable])
    | cref _ _ _ _ => simp [nrTy] at hn
    | struct _ _ _ _ => simp [nrTy] at hn
    | inter _ _ => simp [nrTy] at hn
    | slot _ _ => simp [nrTy] at hn
    | bad _ _ => simp [nrTy] at hn

/-! ### constants -/

theorem const_py (c : Val) (v : Json) (hc : pyConst c = true) (hm : valMatches c v = true) :
    ∃ pv, valToPy c = some pv ∧ pv.isNone = false ∧ Json.sub (pyToJson pv) v = true ∧ Json.sub v (pyToJson pv) = true := by
  cases c with
  | str s =>
    cases v <;> simp [valMatches] at hm
    subst hm
    exact ⟨.str s, by simp [valToPy], rfl, by simp [pyToJson, Json.sub], by simp [pyToJson, Json.sub]⟩
  | bool b =>
    cases v <;> simp [valMatches] at hm
    subst hm
    exact ⟨.bool b, by simp [valToPy], rfl, by simp [pyToJson, Json.sub], by simp [pyToJson, Json.sub]⟩
  | int tag k =>
    cases v <;> simp [valMatches] at hm
    subst hm
    exact ⟨.num (k * 4), by simp [valToPy], rfl, by simp [pyToJson, Json.sub, Int.mul_comm],
      by simp [pyToJson, Json.sub, Int.mul_comm]⟩
  | nil | float _ _ | jnum _ | list _ | map _ | other _ _ => simp [pyConst] at hc

/-! ### the image of a field type: `nullOpt` of the type, possibly made nullable -/

def upToNullable (u u' : Ty) : Prop := u' = u ∨ u' = setNullable true u

theorem utn_pyDen {u u' : Ty} (h : upToNullable u u') (ss : Schemas) (n : Nat) (j : Json) :
    pyDen n ss u' j = pyDen n ss u j := by
  rcases h with h | h <;> rw [h]
  exact pyDen_setNullable ss true n u j

theorem utn_constOf {u u' : Ty} (h : upToNullable u u') : constOf u' = constOf u := by
  rcases h with h | h <;> rw [h]
  cases u <;> rfl
theorem utn_isCref {u u' : Ty} (h : upToNullable u u') : isCref u' = isCref u := by
  rcases h with h | h <;> rw [h]
  cases u <;> rfl
theorem utn_isSlot {u u' : Ty} (h : upToNullable u u') : isSlot u' = isSlot u := by
  rcases h with h | h <;> rw [h]
  cases u <;> rfl
theorem utn_isRefLike {u u' : Ty} (h : upToNullable u u') : isRefLike u' = isRefLike u := by
  rcases h with h | h <;> rw [h]
  cases u <;> rfl
theorem utn_isScalar {u u' : Ty} (h : upToNullable u u') : u'.isScalar = u.isScalar := by
  rcases h with h | h <;> rw [h]
  cases u <;> rfl
theorem utn_dflt {u u' : Ty} (h : upToNullable u u') : u'.getMeta.dflt = u.getMeta.dflt := by
  rcases h with h | h <;> rw [h]
  cases u <;> rfl
theorem utn_nullable {u u' : Ty} (h : upToNullable u u') (hn : u.getMeta.nullable = true) :
    u'.getMeta.nullable = true := by
  rcases h with h | h <;> rw [h]
  · exact hn
  · exact getMeta_setNullable true u

/-- the type of a field after the Python chain -/
def imgTy (f : Field) : Ty := nullOpt (fixField f f.ty).ty

theorem nullable_nullOpt (t : Ty) (hn : nrTy t = true) (h : t.getMeta.nullable = true) :
    (nullOpt t).getMeta.nullable = true := by
  cases t with
  | disj bs info m =>
    simp only [nrTy] at hn
    obtain ⟨u, hu, _⟩ := nullPair_spec hn
    simp only [nullOpt, hu, getMeta_setNullable]
  | scalar _ _ _ _ | ref _ _ _ | array _ _ | map _ _ _ | enum _ _ => exact h
  | cref _ _ _ _ | struct _ _ _ _ | inter _ _ | slot _ _ | bad _ _ => simp [nrTy] at hn

theorem imgTy_utn (f : Field) (hn : nrTy f.ty = true) : upToNullable (nullOpt f.ty) (imgTy f) := by
  simp only [imgTy, fixField]
  split
  · exact Or.inr (nullOpt_setNullable f.ty hn)
  · exact Or.inl rfl

theorem imgTy_optional (f : Field) (hn : nrTy f.ty = true) (hr : f.required = false) :
    (imgTy f).getMeta.nullable = true := by
  simp only [imgTy, fixField]
  split
  · rw [nullOpt_setNullable f.ty hn]; exact getMeta_setNullable true _
  · rename_i hc
    simp only [hr, Bool.not_false, Bool.true_and, Bool.not_eq_true'] at hc
    exact nullable_nullOpt _ hn (by simpa using hc)

theorem isCref_nullOpt (t : Ty) (hn : nrTy t = true) : isCref (nullOpt t) = false := by
  have hpe := nullOpt_nr_pe t hn
  cases hq : nullOpt t <;> first | rfl | (rw [hq] at hpe; simp [peTy] at hpe)

theorem isSlot_nullOpt (t : Ty) (hn : nrTy t = true) : isSlot (nullOpt t) = false := by
  have hpe := nullOpt_nr_pe t hn
  cases hq : nullOpt t <;> first | rfl | (rw [hq] at hpe; simp [peTy] at hpe)

theorem fixedValue_none (ss : Schemas) (t : Ty) (h1 : isCref t = false) (h2 : constOf t = none) :
    fixedValue ss t = none := by
  have := fixedValue_isSome ss t
  rw [h1, h2] at this
  cases hf : fixedValue ss t with
  | none => rfl
  | some x => rw [hf] at this; cases this

theorem fixField_name' (f : Field) : (fixField f f.ty).name = f.name := fixField_name f f.ty
theorem fixField_required' (f : Field) : (fixField f f.ty).required = f.required := fixField_required f f.ty

/-- one field, through the chain -/
theorem py_field (S : Schemas) (hP : PlainPy S = true) (ss' : Schemas) (n : Nat) (d' : Ty → Json → Bool)
    (himp : ∀ t j, nrTy t = true → pyTy t = true → xden true n S t j = true → d' (nullOpt t) j = true)
    (hd' : ∀ u u' j, upToNullable u u' → d' u' j = d' u j)
    (members : List (String × Json)) (f : Field) (hn : nrTy f.ty = true) (hp : pyFieldTy f = true)
    (h : ((match Json.lookup f.name members with
          | some v => xden true n S f.ty v && xFieldValueOK f v
          | none => !f.required && xden true n S (setNullable true f.ty) .null)) = true) :
    pyFieldOK ss' d' members { (fixField f f.ty) with ty := imgTy f } = true := by
  simp only [pyFieldTy, Bool.and_eq_true] at hp
  obtain ⟨⟨hpt, hdf⟩, hconst⟩ := hp
  have hutn := imgTy_utn f hn
  have hdflt : isNilVal (imgTy f).getMeta.dflt = true := by rw [utn_dflt hutn]; exact hdf
  -- is the field a constant?
  by_cases hc : (constOf f.ty).isSome = true
  · -- a required, non-nullable string / bool / integer constant
    cases hty : f.ty with
    | scalar k c cs m =>
      rw [hty] at hconst hc
      simp only [constOf] at hc
      have hcn : isNilVal c = false := by
        cases hv : isNilVal c with
        | false => rfl
        | true => simp [hv] at hc
      simp only [hcn, Bool.false_or, Bool.and_eq_true, Bool.not_eq_true', bne_iff_ne, ne_eq] at hconst
      obtain ⟨⟨⟨⟨⟨hreq, hnn⟩, hpc⟩, hkb⟩, hka⟩, hdt⟩ := hconst
      have himg : imgTy f = .scalar k c cs m := by
        simp only [imgTy, fixField, hreq, Bool.not_true, Bool.false_and, Bool.false_eq_true, if_false, hty, nullOpt]
      cases hl : Json.lookup f.name members with
      | none => rw [hl] at h; simp [hreq] at h
      | some v =>
        rw [hl, hty] at h
        simp only [Bool.and_eq_true] at h
        have hx := h.1
        cases n with
        | zero => simp [xden] at hx
        | succ n =>
          simp only [xden, hkb, hka, if_false, hdt, Bool.false_eq_true, hnn, Bool.false_and, Bool.false_or,
            Bool.and_eq_true] at hx
          have hvm : valMatches c v = true := by
            have := hx.2
            cases c <;> simp_all [constOK, isNilVal]
          obtain ⟨pv, hpv, hnone, hs1, hs2⟩ := const_py c v hpc hvm
          simp only [pyFieldOK, himg, fixedValue, constOf, hcn, Bool.false_eq_true, if_false, hpv, ofOpt,
            fixField_name, hl, hnone, hs1, hs2, Bool.not_false, Bool.and_self]
    | _ => rw [hty] at hc; simp [constOf] at hc
  · -- an ordinary field
    have hcn : constOf (nullOpt f.ty) = none := by
      cases hty : f.ty with
      | scalar k c cs m =>
        rw [hty] at hc
        simp only [constOf] at hc ⊢
        simp only [nullOpt]
        cases hv : isNilVal c <;> simp_all [constOf]
      | ref _ _ _ | array _ _ | map _ _ _ | enum _ _ | disj _ _ _ | cref _ _ _ _ | struct _ _ _ _
      | inter _ _ | slot _ _ | bad _ _ =>
        rw [hty] at hconst
        simpa using hconst
    have hfv : fixedValue ss' (imgTy f) = none :=
      fixedValue_none ss' _ (by rw [utn_isCref hutn]; exact isCref_nullOpt _ hn)
        (by rw [utn_constOf hutn]; exact hcn)
    have hslot : isSlot (imgTy f) = false := by rw [utn_isSlot hutn]; exact isSlot_nullOpt _ hn
    simp only [pyFieldOK, hfv, hslot, Bool.not_false, Bool.true_and, fixField_name', fixField_required']
    cases hl : Json.lookup f.name members with
    | some v =>
      rw [hl] at h
      simp only [Bool.and_eq_true] at h ⊢
      refine ⟨by rw [hd' _ _ _ hutn]; exact himp _ _ hn hpt h.1, ?_⟩
      cases hv : v.isNull with
      | false => simp
      | true =>
        have hvn : v = .null := by cases v <;> simp [Json.isNull] at hv; rfl
        rw [hvn] at h
        rcases null_image S hP n f.ty hn hpt h.1 with hs | hnl
        · have : isRefLike (imgTy f) = false := by
            rw [utn_isRefLike hutn]
            cases hq : nullOpt f.ty <;> rw [hq] at hs <;> simp [Ty.isScalar] at hs <;> rfl
          simp [this]
        · have hnn := utn_nullable hutn hnl
          simp [needsDefault, hnn, hdflt]
    | none =>
      rw [hl] at h
      simp only [Bool.and_eq_true, Bool.not_eq_true'] at h ⊢
      refine ⟨h.1, ?_⟩
      simp [needsDefault, imgTy_optional f hn h.1, hdflt]

/-! ### the main inclusion -/

theorem nullSafe_pyTy (t : Ty) (hp : plainTy t = true) (hs : nullSafe t = true) : pyTy (setNullable true t) = true := by
  cases t with
  | scalar _ _ _ _ => rfl
  | array e m =>
    simp only [nullSafe] at hs
    cases e <;> simp [Ty.isScalar] at hs
    simp [setNullable, Ty.setMeta, Ty.getMeta, pyTy, nullOpt, Ty.isScalar]
  | map i v m =>
    simp only [nullSafe] at hs
    cases v <;> simp [Ty.isScalar] at hs
    simp [setNullable, Ty.setMeta, Ty.getMeta, pyTy, nullOpt, Ty.isScalar]
  | ref _ _ _ | enum _ _ | cref _ _ _ _ | struct _ _ _ _ | disj _ _ _ | inter _ _ | slot _ _ | bad _ _ =>
    simp [nullSafe] at hs

theorem pyObj_struct (o : Obj) (fs : List Field) (g : List Ty) (gi : Option (String × DisjInfo)) (m : Meta)
    (hty : o.ty = .struct fs g gi m) (hn : (fs.all fun f => nrTy f.ty) = true) :
    (pyObj o).ty = .struct (fs.map fun f => { (fixField f f.ty) with ty := imgTy f }) g gi m := by
  simp only [pyObj, setTy, RenameNumericEnumValues.processObject, hty, vTy, NR_vFields_nr fs hn, nullOptO,
    List.map_map]
  rfl

theorem pyObj_other (o : Obj) (hn : nrTy o.ty = true) (he : o.ty.isEnum = false) :
    (pyObj o).ty = nullOpt o.ty := by
  have h1 : vTy o.ty = o.ty := NR_vTy_nr _ hn
  cases hty : o.ty with
  | enum _ _ => rw [hty] at he; simp [Ty.isEnum] at he
  | struct _ _ _ _ => rw [hty] at hn; simp [nrTy] at hn
  | disj bs info m =>
    rw [hty] at h1 hn
    simp only [nrTy] at hn
    obtain ⟨u, hu, hpu⟩ := nullPair_spec hn
    simp only [pyObj, setTy, hty, h1, nullOptO, nullOpt, hu, RenameNumericEnumValues.processObject]
    cases u <;> simp [plainTy] at hpu <;> rfl
  | scalar _ _ _ _ | ref _ _ _ | array _ _ | map _ _ _ | cref _ _ _ _ | inter _ _ | slot _ _ | bad _ _ =>
    rw [hty] at h1
    simp only [pyObj, setTy, hty, h1, nullOptO, nullOpt, RenameNumericEnumValues.processObject]

theorem py_widen (S : Schemas) (hP : PlainPy S = true) : ∀ n t j, nrTy t = true → pyTy t = true →
    xden true n S t j = true → pyDen (n + 1) (pyS S) (nullOpt t) j = true := by
  intro n
  induction n with
  | zero => intro t j _ _ h; simp [xden] at h
  | succ n ih =>
    intro t j hn hp h
    cases t with
    | scalar k v cs m =>
      simp only [nullOpt, pyDen]
      exact scalar_wf true S _ k v cs m j h
    | enum vals em =>
      cases vals with
      | nil => simp [xden] at h
      | cons v0 rest =>
        simp only [nullOpt, pyDen]
        simp only [xden, Bool.or_eq_true, Bool.and_eq_true] at h
        rcases h with h | h
        · cases j <;> simp [Json.isNull] at h <;> rfl
        · exact denScalar_wf _ _ h.1
    | array e m =>
      simp only [nrTy] at hn
      simp only [pyTy, Bool.and_eq_true, Bool.or_eq_true, Bool.not_eq_true'] at hp
      simp only [xden, Bool.and_eq_true] at h
      simp only [nullOpt, pyDen]
      split
      · rename_i hs
        cases j with
        | null => rfl
        | arr xs =>
          simp only [List.all_eq_true] at h
          simp only [wfJson]
          exact wfJsonList_of_all xs (fun x hx => leaf_wf S n e x hs hn (h.2 x hx))
        | bool _ | num _ | str _ | obj _ => simp at h
      · rename_i hs
        have hnn : m.nullable = false := by
          rcases hp.2 with h1 | h1
          · exact absurd h1 hs
          · exact h1
        cases j with
        | arr xs => exact all_mono _ _ (fun x => ih e x hn hp.1) xs h.2
        | null => simp [hnn] at h
        | bool _ | num _ | str _ | obj _ => simp at h
    | map i v m =>
      simp only [nrTy, Bool.and_eq_true] at hn
      simp only [pyTy, Bool.and_eq_true, Bool.or_eq_true, Bool.not_eq_true'] at hp
      simp only [xden] at h
      generalize hk : n + 1 = k at *
      simp only [nullOpt, pyDen]
      split at h
      · split
        · rename_i hs
          cases j with
          | null => rfl
          | obj kvs =>
            simp only [Bool.and_eq_true, List.all_eq_true] at h
            simp only [wfJson, Bool.and_eq_true]
            exact ⟨h.1, wfJsonMembers_of_all kvs (fun kv hkv => leaf_wf S n v kv.2 hs hn.2 (h.2 kv hkv))⟩
          | bool _ | num _ | str _ | arr _ => simp at h
        · rename_i hs
          have hnn : m.nullable = false := by
            rcases hp.2 with h1 | h1
            · exact absurd h1 hs
            · exact h1
          cases j with
          | obj kvs =>
            simp only [Bool.and_eq_true] at h ⊢
            exact ⟨h.1, all_mono _ _ (fun kv => ih v kv.2 hn.2 hp.1) kvs h.2⟩
          | null => simp [hnn] at h
          | bool _ | num _ | str _ | arr _ => simp at h
      · simp at h
    | disj bs info m =>
      simp only [nrTy] at hn
      obtain ⟨u, hu, hpu⟩ := nullPair_spec hn
      obtain ⟨hc, hnn⟩ := nullPairOf_spec hu
      simp only [pyTy, hu] at hp
      simp only [xden, hc, if_true, hnn] at h
      simp only [nullOpt, hu]
      have h1 := ih _ _ (by rw [nrTy_setNullable]; exact plain_nr u hpu) (nullSafe_pyTy u hpu hp) h
      rw [nullOpt_plain _ (by rw [plainTy_setNullable]; exact hpu)] at h1
      exact pyDen_mono _ _ _ _ h1
    | ref p nm m =>
      simp only [pyTy, Bool.not_eq_true'] at hp
      simp only [nullOpt]
      simp only [xden] at h
      generalize hk : n + 1 = k at *
      simp only [pyDen, locateObject_pyS]
      cases ho : Schemas.locateObject S p nm with
      | none => simp [ho] at h
      | some o =>
        obtain ⟨hnr, hpy⟩ := PlainPy_located hP ho
        simp only [ho, Option.map] at h ⊢
        subst hk
        cases hty : o.ty with
        | struct fields gen gi sm =>
          cases gi with
          | some x => simp [hty] at h
          | none =>
            rw [hty] at hnr hpy
            simp only [nrObjTy] at hnr
            simp only [pyObjTy] at hpy
            rw [pyObj_struct o fields gen none sm hty hnr]
            simp only [hty, hp, Bool.false_and, Bool.false_or] at h
            cases j with
            | obj members =>
              have hnames : (fields.map fun f => ({ (fixField f f.ty) with ty := imgTy f } : Field)).map (·.name) = fields.map (·.name) := by
                simp [List.map_map, Function.comp_def, fixField_name]
              simp only [xStructBody, Bool.and_eq_true] at h
              simp only [hnames, Bool.and_eq_true, List.all_map]
              refine ⟨h.1, ?_⟩
              simp only [List.all_eq_true]
              intro f hf
              have hx := h.2
              simp only [xFieldsWith, List.all_eq_true] at hx
              have hxf := hx f hf
              simp only [Bool.true_or, Bool.true_and, if_true] at hxf
              simp only [List.all_eq_true] at hnr hpy
              exact py_field S hP (pyS S) n (pyDen (n + 1) (pyS S))
                (fun t j a b c => ih t j a b c) (fun u u' j hu => utn_pyDen hu _ _ _) members f
                (hnr f hf) (hpy f hf) hxf
            | null | bool _ | num _ | str _ | arr _ => simp [xStructBody] at h
        | enum vals em =>
          have hq : (pyObj o).ty = .enum (RenameNumericEnumValues.renameMembers vals) em := by
            simp [pyObj, setTy, hty, vTy, nullOptO, nullOpt, RenameNumericEnumValues.processObject]
          rw [hq]
          cases vals with
          | nil => simp [hty] at h
          | cons v0 rest =>
            simp only [hty, hp, Bool.false_and, Bool.false_or, Bool.and_eq_true] at h
            simp only [pyDen]
            exact denScalar_wf _ _ h.1
        | scalar kind sv scs om =>
          rw [hty] at hnr
          rw [pyObj_other o (by rw [hty]; rfl) (by rw [hty]; rfl), hty]
          simp only [hty, hp, Bool.false_and, Bool.false_or, Bool.and_eq_true] at h
          simp only [nullOpt, pyDen]
          exact denScalar_wf _ _ h.2
        | array ae am =>
          rw [hty] at hnr hpy
          have hna : nrTy (.array ae am) = true := by simpa [nrObjTy] using hnr
          simp only [pyObjTy, Bool.and_eq_true] at hpy
          rw [pyObj_other o (by rw [hty]; exact hna) (by rw [hty]; rfl), hty]
          simp only [hty, Bool.and_eq_true] at h
          exact ih _ _ hna hpy.1 h.2
        | map mi mv mm =>
          rw [hty] at hnr hpy
          have hna : nrTy (.map mi mv mm) = true := by simpa [nrObjTy] using hnr
          simp only [pyObjTy, Bool.and_eq_true] at hpy
          rw [pyObj_other o (by rw [hty]; exact hna) (by rw [hty]; rfl), hty]
          simp only [hty, Bool.and_eq_true] at h
          exact ih _ _ hna hpy.1 h.2
        | ref rp rn rm =>
          rw [pyObj_other o (by rw [hty]; rfl) (by rw [hty]; rfl), hty]
          simp only [hty] at h
          have := ih (.ref rp rn { rm with nullable := m.nullable }) j rfl (by simp [pyTy, hp]) h
          simp only [nullOpt] at this ⊢
          rw [pyDen_ref_meta (pyS S) (n + 1) rp rn rm { rm with nullable := m.nullable }]
          exact this
        | cref _ _ _ _ => simp [hty] at h
        | disj _ _ _ => simp [hty] at h
        | inter _ _ => simp [hty] at h
        | slot _ _ => simp [hty] at h
        | bad _ _ => simp [hty] at h
    | cref _ _ _ _ => simp [nrTy] at hn
    | struct _ _ _ _ => simp [nrTy] at hn
    | inter _ _ => simp [nrTy] at hn
    | slot _ _ => simp [nrTy] at hn
    | bad _ _ => simp [nrTy] at hn

/-! ### composition along a pass list -/

/-- the decidable shape check on a concrete chain:
    pre ++ NotRequiredFieldAsNullableType :: mid ++ DisjunctionWithNullToOptional :: mid2 ++
    [RenameNumericEnumValues], with `pre`, `mid` the identity on `PlainN` and `mid2` the identity on
    `PlainE` (no pass that names anonymous enums or turns unions into types) -/
def pyChainOK (ps : List PassId) : Bool :=
  match splitAtPass .notRequiredFieldAsNullableType ps with
  | some (pre, rest) =>
    pre.all idOnPlainN &&
    (match splitAtPass .disjunctionWithNullToOptional rest with
     | some (mid, rest2) =>
       mid.all idOnPlainN &&
       (match splitAtPass .renameNumericEnumValues rest2 with
        | some (mid2, post) => mid2.all idOnPlainE && post.isEmpty
        | none => false)
     | none => false)
  | none => false

/-- pass widening along every chain of the checked shape: the output IS `pyS S`, and a document of the
    source-side language of a type `t` of the fragment belongs to `pyDen` of it for the image
    `nullOpt t` (`t` itself when it has no `T | null` pair, e.g. a reference), one more unit of fuel -/
theorem widen_py (ps : List PassId) (hok : pyChainOK ps = true) (S S' : Schemas)
    (hP : PlainPy S = true) (hrun : runChain ps S = .ok S') :
    S' = pyS S ∧
    ∀ n t j, nrTy t = true → pyTy t = true → srcDen n S t j = true → pyDen (n + 1) S' (nullOpt t) j = true := by
  have hPN : PlainN S = true := by simp only [PlainPy, Bool.and_eq_true] at hP; exact hP.1
  simp only [pyChainOK] at hok
  cases hs : splitAtPass .notRequiredFieldAsNullableType ps with
  | none => simp [hs] at hok
  | some ab =>
    obtain ⟨pre, rest⟩ := ab
    simp only [hs, Bool.and_eq_true] at hok
    cases hs2 : splitAtPass .disjunctionWithNullToOptional rest with
    | none => simp [hs2] at hok
    | some cd =>
      obtain ⟨mid, rest2⟩ := cd
      simp only [hs2, Bool.and_eq_true] at hok
      cases hs3 : splitAtPass .renameNumericEnumValues rest2 with
      | none => simp [hs3] at hok
      | some ef =>
        obtain ⟨mid2, post⟩ := ef
        simp only [hs3, Bool.and_eq_true, List.isEmpty_iff] at hok
        obtain ⟨hpre, hmid, hmid2, hpost⟩ := hok
        subst hpost
        rw [splitAtPass_eq hs, splitAtPass_eq hs2, splitAtPass_eq hs3] at hrun
        obtain ⟨S1, h1, h2⟩ := runChain_append' pre _ S S' hrun
        have e1 : S1 = S := runChain_idN pre hpre S S1 hPN h1
        subst e1
        simp only [runChain, PassId.run, NotRequired_run_plainN S1 hPN] at h2
        have hP2 := nrS_PlainN S1 hPN
        obtain ⟨S2, h3, h4⟩ := runChain_append' mid _ (nrS S1) S' h2
        have e2 : S2 = nrS S1 := runChain_idN mid hmid _ S2 hP2 h3
        subst e2
        simp only [runChain, PassId.run, DisjunctionWithNullToOptional_run _ hP2] at h4
        have hP3 := nullOptS_PlainE _ hP2
        obtain ⟨S3, h5, h6⟩ := runChain_append' mid2 _ _ S' h4
        have e3 : S3 = nullOptS (nrS S1) := runChain_idE mid2 hmid2 _ S3 hP3 h5
        subst e3
        simp only [runChain, PassId.run, RenameNumericEnumValues_run, Outcome.ok.injEq] at h6
        have hS' : S' = pyS S1 := by rw [← h6]; rfl
        refine ⟨hS', fun n t j ht hpt hsrc => ?_⟩
        rw [hS']
        exact py_widen S1 hP n t j ht hpt hsrc

def pyStructChainOK : List PassId → Bool
  | .anonymousStructsToNamed :: rest => pyChainOK rest
  | _ => false

/-- the same for the named objects of a pre-chain IR with anonymous structs (`PlainPyS`) -/
theorem widen_pyS (ps : List PassId) (hok : pyStructChainOK ps = true) (S S' : Schemas)
    (hS : PlainPyS S = true) (hrun : runChain ps S = .ok S') :
    S' = pyS (asnS S) ∧
    ∀ n pkg name j, srcDen n S (.ref pkg name {}) j = true → pyDen (n + 1) S' (.ref pkg name {}) j = true := by
  simp only [PlainPyS, Bool.and_eq_true] at hS
  cases ps with
  | nil => simp [pyStructChainOK] at hok
  | cons p rest =>
    cases p <;> simp [pyStructChainOK] at hok
    have hrun' : runChain rest (asnS S) = .ok S' := by
      simpa [runChain, PassId.run, AnonymousStructsToNamed.run, asnS] using hrun
    obtain ⟨hS', hw⟩ := widen_py rest hok (asnS S) S' hS.2 hrun'
    refine ⟨hS', fun n pkg name j h => ?_⟩
    have h1 := as_widen S hS.1 n (.ref pkg name {}) j "" "" (by simp [sNew]) h
    simp only [sImg] at h1
    exact hw n _ j rfl rfl h1

/-! ### helper for the witness of the false full statement (Props/C11.lean) -/

/-- the object `pkg.name` is a struct with the single member `k`, a reference to the object itself -/
def selfRefShape (S : Schemas) (pkg name k : String) : Bool :=
  match Schemas.locateObject S pkg name with
  | some o =>
    (match o.ty with
     | .struct [f] _ _ _ =>
       f.name == k && (match f.ty with | .ref p n _ => p == pkg && n == name | _ => false)
     | _ => false)
  | none => false

/-- `from_json` of a class raises on `null`: an explicit `null` under a member that refers to a class is
    in no fuel's `pyDen` -/
theorem selfRefShape_pyDen (S : Schemas) (pkg name k : String) (h : selfRefShape S pkg name k = true) (m : Meta) :
    ∀ n, pyDen n S (.ref pkg name m) (.obj [(k, .null)]) = false := by
  simp only [selfRefShape] at h
  cases ho : Schemas.locateObject S pkg name with
  | none => simp [ho] at h
  | some o =>
    simp only [ho] at h
    cases hty : o.ty with
    | struct fields g gi sm =>
      rw [hty] at h
      match fields, h with
      | [f], h =>
        simp only [Bool.and_eq_true, beq_iff_eq] at h
        obtain ⟨hname, hft⟩ := h
        cases hf : f.ty with
        | ref p q fm =>
          rw [hf] at hft
          simp only [Bool.and_eq_true, beq_iff_eq] at hft
          obtain ⟨rfl, rfl⟩ := hft
          have hnull : ∀ n' m', pyDen n' S (.ref p q m') .null = false := by
            intro n' m'
            cases n' with
            | zero => rfl
            | succ n' => simp [pyDen, ho, hty]
          intro n
          cases n with
          | zero => rfl
          | succ n =>
            simp [pyDen, ho, hty, pyFieldOK, hf, fixedValue, constOf, hname, Json.lookup, isSlot, hnull]
        | _ => rw [hf] at hft; simp at hft
      | [], h => simp at h
      | _ :: _ :: _, h => simp at h
    | _ => rw [hty] at h; simp at h

end Cog.Sem.Src
