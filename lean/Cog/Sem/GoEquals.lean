/-
  C13 — semantics of the `Equals` methods cog generates for Go
  (internal/jennies/golang/equality.go + templates/types/struct_equality_method.tmpl).

  `goEquals fuel ss t a b` is what `a.Equals(b)` computes when `a`, `b` are values of the Go type
  generated for the (post Go-chain) IR type `t`, obtained from two *independent* `json.Unmarshal`
  calls.  It is a literal transcription of the template's `type_equality_check`:

    any                → reflect.DeepEqual
    array              → len, then index-wise
    map                → len, then ONLY the receiver's keys, the other side read with `other[k]`
                         (zero value of the element type when the key is absent)
    nullable           → nil-ness test, then dereference
    ref to a struct    → that struct's Equals (same template, field by field); structs generated
                         from disjunctions are ordinary structs with one nullable field per branch
    scalar / enum / constant reference / alias of those → `!=`
                         (`time.Time !=` compares wall, ext and the *Location pointer*)

  The IR type at each position is needed (a GoVal alone does not say which template branch was
  emitted), so the definition recurses on fuel over (Schemas, Ty) exactly like `goDecode`.
  `classify` is the template's dispatch (`resolvesToArray`, `typeHasEqualityFunc`, …), arranged so
  that it is also the dispatch of `goDecode` (lemma `goDecode_wt` in GoEqualsDecode.lean).

  Outside the model (`Pos.unsup`): what `goDecode` does not model, plus references to an alias of
  `any` (`!=` on interfaces: run-time panic on maps/slices).  A nullable reference to a named
  array/map (`*Alias`) is `Pos.collPtr`: `goDecode` yields `.nil` for the nil pointer and the
  collection itself for a non-nil one.
-/
import Cog.Sem.GoCodec
namespace Cog.Sem.GoEq
open Cog.IR

/-- what `type_equality_check` sees at a position, after `resolveRefs` -/
inductive Pos where
  | any                                                  -- reflect.DeepEqual
  | leaf (kind : String) (dt : Bool) (nullable : Bool)   -- `!=` (after nil test + deref if nullable)
  | arr (elem : Ty)
  | map (val : Ty)
  | struct (fields : List Field) (nullable : Bool)       -- nested `.Equals`
  | union (fields : List Field) (nullable : Bool)        -- `.Equals` of a disjunction struct
  | alias (t : Ty)                                       -- `type A = B`, constant reference
  | collPtr (t : Ty)                                     -- `*Alias`, Alias a named array / map type
  | unsup (why : String)
  deriving Inhabited

def dtHint : String := "string_format_datetime"

/-- the position's classification when the type is a reference to an object of type `oty` -/
def classifyRef (oty : Ty) (nullable : Bool) : Pos :=
  match oty with
  | .struct fields _ none _ => .struct fields nullable
  | .struct fields _ (some _) _ => .union fields nullable
  | .enum (v0 :: _) _ => .leaf v0.kind false nullable
  | .scalar kind _ _ om =>
    if kind = "bytes" then .unsup "bytes"
    else if kind = "any" then .unsup "reference to an alias of any"
    else .leaf kind (hasHint om dtHint) nullable
  | .array .. | .map .. => if nullable then .collPtr oty else .alias oty
  | .ref p n om => .alias (.ref p n { om with nullable := nullable })
  | _ => .unsup "object kind"

def classify (ss : Schemas) (t : Ty) : Pos :=
  match t with
  | .scalar kind _ _ m =>
    if kind = "bytes" then .unsup "bytes"
    else if kind = "any" then .any
    else .leaf kind (hasHint m dtHint) m.nullable
  | .array e _ => .arr e
  | .map idx v _ =>
    match idx with
    | .scalar "string" _ _ _ => .map v
    | _ => .unsup "map with non-string index"
  | .ref pkg name m =>
    match Schemas.locateObject ss pkg name with
    | none => .unsup "dangling reference"
    | some o => classifyRef o.ty m.nullable
  | .cref pkg name _ _ => .alias (.ref pkg name {})
  | _ => .unsup ("type kind " ++ t.kind)

/-! ### leaves -/

/-- Is the `*time.Location` of a decoded RFC 3339 timestamp the same pointer on every decode?
    `Z` → nil (UTC); an offset equal to the process's local offset → `&localLoc` (the lab driver
    runs with TZ=UTC, so that is `±00:00`); a whole-hour offset in −12…+14 → the cached
    `time.FixedZone` location; anything else → a fresh `*Location` per decode. -/
def zoneShared (s : String) : Bool :=
  match s.toList.reverse with
  | 'Z' :: _ => true
  | m2 :: m1 :: ':' :: h2 :: h1 :: sign :: _ =>
    m1 == '0' && m2 == '0' &&
      (let h := (h1.toNat - 48) * 10 + (h2.toNat - 48)
       (sign == '+' && decide (h ≤ 14)) || (sign == '-' && decide (h ≤ 12)))
  | _ => false

/-- Go `==` on two leaf values coming from two independent decodes.  Timestamps are canonical
    RFC 3339 texts (what `time.Time.MarshalJSON` prints), so same text ⇔ same instant and offset. -/
def leafEq : GoVal → GoVal → Bool
  | .bool a, .bool b => a == b
  | .int a, .int b => a == b
  | .float a, .float b => a == b
  | .str a, .str b => a == b
  | .time a, .time b => a == b && zoneShared a
  | _, _ => false

/-- `if a == nil && b != nil || a != nil && b == nil { return false }; if a != nil { … *a … *b … }` -/
def ptrEq (nullable : Bool) (eq : GoVal → GoVal → Bool) (a b : GoVal) : Bool :=
  if nullable then
    match a, b with
    | .nil, .nil => true
    | .ptr x, .ptr y => eq x y
    | _, _ => false
  else eq a b

/-- `reflect.DeepEqual` on two `any` values produced by `json.Unmarshal` (nil interface, or
    bool / float64 / string / []any (never nil) / map[string]any (never nil)): equality of the
    decoded generic values, i.e. JSON equality up to member order. -/
def deepEqual : GoVal → GoVal → Bool
  | .nil, .nil => true
  | .iface j1, .iface j2 => Json.beq (GoVal.ifaceEnc j1) (GoVal.ifaceEnc j2)
  | _, _ => false

/-- elements of a slice value (`nil` slice: none) -/
def elems : GoVal → Option (List GoVal)
  | .nil => some []
  | .slice xs => some xs
  | _ => none

/-- entries of a map value (`nil` map: none) -/
def entries : GoVal → Option (List (String × GoVal))
  | .nil => some []
  | .gomap kvs => some kvs
  | _ => none

def lookupV (k : String) : List (String × GoVal) → Option GoVal
  | [] => none
  | (k', v) :: t => if k' = k then some v else lookupV k t

/-- `len(a) != len(b)` then `for i := range a { a[i] ~ b[i] }` -/
def eqList (f : GoVal → GoVal → Bool) : List GoVal → List GoVal → Bool
  | [], [] => true
  | x :: xs, y :: ys => f x y && eqList f xs ys
  | _, _ => false

/-- `for key := range a { a[key] ~ b[key] }` — `b[key]` is the zero value when absent -/
def eqEntries (f : GoVal → GoVal → Bool) (zero : GoVal) (other : List (String × GoVal)) :
    List (String × GoVal) → Bool
  | [] => true
  | (k, v) :: t => f v ((lookupV k other).getD zero) && eqEntries f zero other t

/-- the struct template: one `type_equality_check` per declared field, in order -/
def eqFields (f : Ty → GoVal → GoVal → Bool) :
    List Field → List (String × Bool × GoVal) → List (String × Bool × GoVal) → Bool
  | [], [], [] => true
  | fd :: fds, (_, _, x) :: xs, (_, _, y) :: ys => f fd.ty x y && eqFields f fds xs ys
  | _, _, _ => false

def eqBranches (f : Ty → GoVal → GoVal → Bool) :
    List Field → List (String × GoVal) → List (String × GoVal) → Bool
  | [], [], [] => true
  | fd :: fds, (_, x) :: xs, (_, y) :: ys => f fd.ty x y && eqBranches f fds xs ys
  | _, _, _ => false

/-! ### zero values (what `other[key]` yields for an absent key) -/

def zeroLeaf (kind : String) (dt : Bool) : GoVal :=
  if kind = "string" then (if dt then .time zeroTime else .str "")
  else if kind = "bool" then .bool false
  else if kind = "float32" ∨ kind = "float64" then .float 0
  else .int 0

def zeroFields (z : Ty → GoVal) : List Field → List (String × Bool × GoVal)
  | [] => []
  | f :: fs => (f.name, !f.required, z f.ty) :: zeroFields z fs

def nilBranches : List Field → List (String × GoVal)
  | [] => []
  | f :: fs => (f.name, .nil) :: nilBranches fs

def goZero : Nat → Schemas → Ty → GoVal
  | 0, _, _ => .nil
  | fuel + 1, ss, t =>
    match classify ss t with
    | .any => .nil
    | .leaf kind dt nullable => if nullable then .nil else zeroLeaf kind dt
    | .arr _ => .nil
    | .map _ => .nil
    | .struct fields nullable => if nullable then .nil else .struct (zeroFields (goZero fuel ss) fields)
    | .union fields nullable => if nullable then .nil else .union (nilBranches fields)
    | .alias t' => goZero fuel ss t'
    | .collPtr _ => .nil
    | .unsup _ => .nil

/-! ### Equals -/

def structEq (f : Ty → GoVal → GoVal → Bool) (fields : List Field) : GoVal → GoVal → Bool
  | .struct fa, .struct fb => eqFields f fields fa fb
  | _, _ => false

def unionEq (f : Ty → GoVal → GoVal → Bool) (fields : List Field) : GoVal → GoVal → Bool
  | .union ba, .union bb => eqBranches f fields ba bb
  | _, _ => false

def goEquals : Nat → Schemas → Ty → GoVal → GoVal → Bool
  | 0, _, _, _, _ => false
  | fuel + 1, ss, t, a, b =>
    match classify ss t with
    | .any => deepEqual a b
    | .leaf _ _ nullable => ptrEq nullable leafEq a b
    | .arr e =>
      match elems a, elems b with
      | some xs, some ys => eqList (goEquals fuel ss e) xs ys
      | _, _ => false
    | .map v =>
      match entries a, entries b with
      | some xs, some ys =>
        xs.length == ys.length && eqEntries (goEquals fuel ss v) (goZero fuel ss v) ys xs
      | _, _ => false
    | .struct fields nullable => ptrEq nullable (structEq (goEquals fuel ss) fields) a b
    | .union fields nullable => ptrEq nullable (unionEq (goEquals fuel ss) fields) a b
    | .alias t' => goEquals fuel ss t' a b
    -- nullable reference to a named array / map (`*Alias`): `needsDereference` arm — nil-ness
    -- test, then the collection loop on `*a`, `*b`.  In decoded values the nil pointer is `.nil`
    -- and a non-nil pointer always points to a non-nil collection (`.slice` / `.gomap`).
    | .collPtr t' => (a.isNil == b.isNil) && goEquals fuel ss t' a b
    | .unsup _ => false

/-- is the position supported by the model at all (driver: `unsup`) -/
def posSupported : Pos → Bool
  | .unsup _ => false
  | _ => true

/-! ### well-typed values: the shape of `goDecode`'s results (see `goDecode_wt`) -/

/-- the constructor `decodeScalar kind dt` produces -/
def leafOk (kind : String) (dt : Bool) (v : GoVal) : Bool :=
  if kind = "string" then
    (if dt then (match v with | .time _ => true | _ => false)
     else (match v with | .str _ => true | _ => false))
  else if kind = "bool" then (match v with | .bool _ => true | _ => false)
  else if kind = "any" then false
  else if kind = "float32" ∨ kind = "float64" then (match v with | .float _ => true | _ => false)
  else match intRange kind with
    | some _ => (match v with | .int _ => true | _ => false)
    | none => false

def ptrOk (nullable : Bool) (ok : GoVal → Bool) (v : GoVal) : Bool :=
  if nullable then
    match v with
    | .nil => true
    | .ptr x => ok x
    | _ => false
  else ok v

def keysOf {α} : List (String × α) → List String
  | [] => []
  | (k, _) :: t => k :: keysOf t

def nodupKeys : List String → Bool
  | [] => true
  | k :: t => !t.contains k && nodupKeys t

def allVals (p : GoVal → Bool) : List (String × GoVal) → Bool
  | [] => true
  | (_, v) :: t => p v && allVals p t

def allList (p : GoVal → Bool) : List GoVal → Bool
  | [] => true
  | v :: t => p v && allList p t

/-- field values follow the declaration: same key, `omitempty` = not required, value well typed -/
def wtFields (w : Ty → GoVal → Bool) : List Field → List (String × Bool × GoVal) → Bool
  | [], [] => true
  | fd :: fds, (k, om, x) :: xs => k == fd.name && om == !fd.required && w fd.ty x && wtFields w fds xs
  | _, _ => false

def wtBranches (w : Ty → GoVal → Bool) : List Field → List (String × GoVal) → Bool
  | [], [] => true
  | fd :: fds, (k, x) :: xs => k == fd.name && w fd.ty x && wtBranches w fds xs
  | _, _ => false

/-- number of non-nil branches of a union value -/
def liveBranches : List (String × GoVal) → Nat
  | [] => 0
  | (_, v) :: t => (if v.isNil then 0 else 1) + liveBranches t

def wt : Nat → Schemas → Ty → GoVal → Bool
  | 0, _, _, _ => false
  | fuel + 1, ss, t, v =>
    match classify ss t with
    | .any => (match v with | .nil => true | .iface j => !j.isNull | _ => false)
    | .leaf kind dt nullable => ptrOk nullable (leafOk kind dt) v
    | .arr e => (match v with | .nil => true | .slice xs => allList (wt fuel ss e) xs | _ => false)
    | .map e =>
      (match v with
       | .nil => true
       | .gomap kvs => nodupKeys (keysOf kvs) && allVals (wt fuel ss e) kvs
       | _ => false)
    | .struct fields nullable =>
      ptrOk nullable (fun x => match x with
        | .struct fs => nodupKeys (fields.map (·.name)) && wtFields (wt fuel ss) fields fs
        | _ => false) v
    | .union fields nullable =>
      ptrOk nullable (fun x => match x with
        | .union bs => wtBranches (wt fuel ss) fields bs && decide (liveBranches bs ≤ 1)
        | _ => false) v
    | .alias t' => wt fuel ss t' v
    | .collPtr t' => wt fuel ss t' v
    | .unsup _ => false

/-- driver aid: the reason of the first unsupported position a value reaches (`wt` is false there) -/
def whyFields (f : Ty → GoVal → Option String) :
    List Field → List (String × Bool × GoVal) → Option String
  | fd :: fds, (_, _, x) :: xs => (f fd.ty x).orElse fun _ => whyFields f fds xs
  | _, _ => none

def whyBranches (f : Ty → GoVal → Option String) :
    List Field → List (String × GoVal) → Option String
  | fd :: fds, (_, x) :: xs => (f fd.ty x).orElse fun _ => whyBranches f fds xs
  | _, _ => none

def unptr : GoVal → GoVal
  | .ptr v => v
  | v => v

def whyUnsup : Nat → Schemas → Ty → GoVal → Option String
  | 0, _, _, _ => none
  | fuel + 1, ss, t, v =>
    match classify ss t with
    | .unsup why => some why
    | .arr e => (match v with | .slice xs => xs.findSome? (whyUnsup fuel ss e) | _ => none)
    | .map e => (match v with | .gomap kvs => kvs.findSome? (fun kv => whyUnsup fuel ss e kv.2) | _ => none)
    | .struct fields _ =>
      (match unptr v with | .struct fs => whyFields (whyUnsup fuel ss) fields fs | _ => none)
    | .union fields _ =>
      (match unptr v with | .union bs => whyBranches (whyUnsup fuel ss) fields bs | _ => none)
    | .alias t' => whyUnsup fuel ss t' v
    | .collPtr t' => whyUnsup fuel ss t' v
    | _ => none

/-! ### decidable side conditions of the `_partial` theorems -/

mutual
/-- every timestamp in the value has a `*Location` that is shared between decodes -/
def timesShared : GoVal → Bool
  | .time s => zoneShared s
  | .ptr v => timesShared v
  | .slice vs => timesSharedList vs
  | .gomap kvs => timesSharedKvs kvs
  | .struct fs => timesSharedFields fs
  | .union bs => timesSharedKvs bs
  | _ => true
def timesSharedList : List GoVal → Bool
  | [] => true
  | v :: t => timesShared v && timesSharedList t
def timesSharedKvs : List (String × GoVal) → Bool
  | [] => true
  | (_, v) :: t => timesShared v && timesSharedKvs t
def timesSharedFields : List (String × Bool × GoVal) → Bool
  | [] => true
  | (_, _, v) :: t => timesShared v && timesSharedFields t
end

def nzFields (f : Ty → GoVal → Bool) : List Field → List (String × Bool × GoVal) → Bool
  | fd :: fds, (_, _, x) :: xs => f fd.ty x && nzFields f fds xs
  | _, _ => true

def nzBranches (f : Ty → GoVal → Bool) : List Field → List (String × GoVal) → Bool
  | fd :: fds, (_, x) :: xs => f fd.ty x && nzBranches f fds xs
  | _, _ => true

def ptrAll (nullable : Bool) (p : GoVal → Bool) (v : GoVal) : Bool :=
  if nullable then (match v with | .ptr x => p x | _ => true) else p v

/-- no map entry (at any depth) holds a value that `Equals` the zero value of its type — the
    situation in which `other[key]` cannot tell an absent key from a present one -/
def mapsNonZero : Nat → Schemas → Ty → GoVal → Bool
  | 0, _, _, _ => true
  | fuel + 1, ss, t, v =>
    match classify ss t with
    | .arr e => (match v with | .slice xs => allList (mapsNonZero fuel ss e) xs | _ => true)
    | .map e =>
      (match v with
       | .gomap kvs =>
         allVals (fun x => !goEquals fuel ss e x (goZero fuel ss e) && mapsNonZero fuel ss e x) kvs
       | _ => true)
    | .struct fields nullable =>
      ptrAll nullable (fun x => match x with
        | .struct fs => nzFields (mapsNonZero fuel ss) fields fs | _ => true) v
    | .union fields nullable =>
      ptrAll nullable (fun x => match x with
        | .union bs => nzBranches (mapsNonZero fuel ss) fields bs | _ => true) v
    | .alias t' => mapsNonZero fuel ss t' v
    | .collPtr t' => mapsNonZero fuel ss t' v
    | _ => true

/-! ### encodings up to nil/empty collections -/

mutual
/-- forget the difference between a nil and an empty slice / map -/
def canonNil : GoVal → GoVal
  | .slice [] => .nil
  | .slice (v :: vs) => .slice (canonNil v :: canonNilList vs)
  | .gomap [] => .nil
  | .gomap ((k, v) :: kvs) => .gomap ((k, canonNil v) :: canonNilKvs kvs)
  | .ptr v => .ptr (canonNil v)
  | .struct fs => .struct (canonNilFields fs)
  | .union bs => .union (canonNilKvs bs)
  | v => v
def canonNilList : List GoVal → List GoVal
  | [] => []
  | v :: t => canonNil v :: canonNilList t
def canonNilKvs : List (String × GoVal) → List (String × GoVal)
  | [] => []
  | (k, v) :: t => (k, canonNil v) :: canonNilKvs t
def canonNilFields : List (String × Bool × GoVal) → List (String × Bool × GoVal)
  | [] => []
  | (k, om, v) :: t => (k, om, canonNil v) :: canonNilFields t
end

/-- the two values encode to the same JSON once nil and empty collections are identified -/
def encSameModNil (a b : GoVal) : Bool :=
  Json.beq (GoVal.goEncode (canonNil a)) (GoVal.goEncode (canonNil b))

/-! ### same active union branches (side condition of `C13_enc_eq_implies_equals_partial`) -/

def ptrBoth (nullable : Bool) (p : GoVal → GoVal → Bool) (a b : GoVal) : Bool :=
  if nullable then (match a, b with | .ptr x, .ptr y => p x y | _, _ => true) else p a b

def alignedList (f : GoVal → GoVal → Bool) : List GoVal → List GoVal → Bool
  | x :: xs, y :: ys => f x y && alignedList f xs ys
  | _, _ => true

def alignedEntries (f : GoVal → GoVal → Bool) (other : List (String × GoVal)) :
    List (String × GoVal) → Bool
  | [] => true
  | (k, x) :: t =>
    (match lookupV k other with | some y => f x y | none => true) && alignedEntries f other t

def alignedFields (f : Ty → GoVal → GoVal → Bool) :
    List Field → List (String × Bool × GoVal) → List (String × Bool × GoVal) → Bool
  | fd :: fds, (_, _, x) :: xs, (_, _, y) :: ys => f fd.ty x y && alignedFields f fds xs ys
  | _, _, _ => true

def alignedBranches (f : Ty → GoVal → GoVal → Bool) :
    List Field → List (String × GoVal) → List (String × GoVal) → Bool
  | fd :: fds, (_, x) :: xs, (_, y) :: ys =>
    (x.isNil == y.isNil) && f fd.ty x y && alignedBranches f fds xs ys
  | _, _, _ => true

/-- at every position holding a struct generated from a disjunction, the two values have the
    same branches set (for decoded values this is what the branch choice of the custom
    unmarshallers gives when the branches' encodings are disjoint) -/
def unionsAligned : Nat → Schemas → Ty → GoVal → GoVal → Bool
  | 0, _, _, _, _ => true
  | fuel + 1, ss, t, a, b =>
    match classify ss t with
    | .arr e =>
      (match a, b with
       | .slice xs, .slice ys => alignedList (unionsAligned fuel ss e) xs ys
       | _, _ => true)
    | .map e =>
      (match a, b with
       | .gomap xs, .gomap ys => alignedEntries (unionsAligned fuel ss e) ys xs
       | _, _ => true)
    | .struct fields nullable =>
      ptrBoth nullable (fun x y => match x, y with
        | .struct fa, .struct fb => alignedFields (unionsAligned fuel ss) fields fa fb
        | _, _ => true) a b
    | .union fields nullable =>
      -- (a nil `*Union` and a non-nil one with no branch set both marshal to `null`)
      (a.isNil == b.isNil) && ptrBoth nullable (fun x y => match x, y with
        | .union ba, .union bb => alignedBranches (unionsAligned fuel ss) fields ba bb
        | _, _ => true) a b
    | .alias t' => unionsAligned fuel ss t' a b
    -- (the codec model treats a `*Alias` pointing to an empty collection as `omitempty`-empty,
    --  encoding/json does not: same nil-ness is part of the alignment)
    | .collPtr t' => (a.isNil == b.isNil) && unionsAligned fuel ss t' a b
    | _ => true

end Cog.Sem.GoEq
