/-
  Semantics of the generated Go strict decoders `UnmarshalJSONStrict` (C08).

  Literal transcription of
    internal/jennies/golang/strictjson.go
    templates/types/struct.strict.json_unmarshal.tmpl        (struct body, `strict_unmarshal_field_type`)
    templates/types/disjunction_of_refs.strict.json_unmarshal.tmpl
    templates/types/disjunction_of_scalars.strict.json_unmarshal.tmpl
    internal/languages/context.go                            (`IsArrayOfKinds`, `IsMapOfKinds`, `ResolveRefs`)
  as an interpreter over the post-chain IR.  Leaves that the templates hand to plain
  `json.Unmarshal` are `goDecode` (Cog/Sem/GoCodec.lean).

  The generated code accumulates `errs` and keeps going (or returns early on a malformed
  container); the result is an error iff some step fails, which is what `.err` records.  On
  success the decoded value is returned (Go zero values for absent / null members).

  Core Lean only.
-/
import Cog.Sem.GoValidate
namespace Cog.Sem
open Cog.IR

def Val.isNil : Val → Bool
  | .nil => true
  | _ => false

/-- `fields[name]` on the `map[string]json.RawMessage` built from the members: the last member
    with that key (exact, case-sensitive match) -/
def lookupLast (k : String) : List (String × Json) → Option Json
  | [] => none
  | (k', v) :: t =>
    match lookupLast k t with
    | some x => some x
    | none => if k' = k then some v else none

/-! ### Go zero values -/

/-- the zero value of the Go type generated for `t` (what a field holds when the strict decoder
    never assigns it) -/
def strictZero : Nat → Schemas → Ty → DRes GoVal
  | 0, _, _ => .fuel
  | fuel + 1, ss, t =>
    match t with
    | .scalar kind _ _ m =>
      if kind = "bytes" then .unsup "bytes"
      else if kind = "any" || m.nullable then .ok .nil
      else decodeScalar kind (hasHint m "string_format_datetime") .null
    | .array .. => .ok .nil
    | .map .. => .ok .nil
    | .ref pkg name m =>
      match Schemas.locateObject ss pkg name with
      | none => .unsup "dangling reference"
      | some o =>
        match o.ty with
        | .struct fields _ none _ =>
          if m.nullable then .ok .nil
          else (mapRes (fun (f : Field) => (strictZero fuel ss f.ty).map fun v => (f.name, !f.required, v)) fields).map .struct
        | .struct fields _ (some _) _ =>
          if m.nullable then .ok .nil else .ok (.union (fields.map fun f => (f.name, .nil)))
        | .enum (v0 :: _) _ => if m.nullable then .ok .nil else decodeScalar v0.kind false .null
        | .scalar kind _ _ om =>
          if kind = "bytes" then .unsup "bytes"
          else if kind = "any" || m.nullable then .ok .nil
          else decodeScalar kind (hasHint om "string_format_datetime") .null
        | .array .. | .map .. => .ok .nil
        | .ref p n om => strictZero fuel ss (.ref p n { om with nullable := m.nullable })
        | _ => .unsup "object kind"
    | .cref pkg name _ _ => strictZero fuel ss (.ref pkg name {})
    | _ => .unsup ("type kind " ++ t.kind)

/-! ### `IsArrayOfKinds` / `IsMapOfKinds` (kinds = scalar, enum) -/

def kindFuel : Nat := 16

def isScalarOrEnum : Ty → Bool
  | .scalar .. => true
  | .enum .. => true
  | _ => false

def isArrayOfKinds : Nat → Schemas → Ty → Bool
  | 0, _, _ => false
  | n + 1, ss, t =>
    match resolveRefs ss t with
    | some (.array e _) =>
      match resolveRefs ss e with
      | some (.array e' m') => isArrayOfKinds n ss (.array e' m')
      | some rt => isScalarOrEnum rt
      | none => false
    | _ => false

def isMapOfKinds : Nat → Schemas → Ty → Bool
  | 0, _, _ => false
  | n + 1, ss, t =>
    match resolveRefs ss t with
    | some (.map _ e _) =>
      match resolveRefs ss e with
      | some (.map i' e' m') => isMapOfKinds n ss (.map i' e' m')
      | some rt => isScalarOrEnum rt
      | none => false
    | _ => false

/-! ### the struct template -/

def isCrefTy : Ty → Bool
  | .cref .. => true
  | _ => false

def refPkg : Ty → String
  | .ref p _ _ => p
  | _ => ""

/-- the per-field blocks `// Field "x"` of the struct template, in declaration order.
    `sd` = `strict_unmarshal_field_type` at the field's type, `zero` = the field's Go zero value. -/
def strictFieldsWith (sd : Ty → Json → DRes GoVal) (zero : Ty → DRes GoVal)
    (ms : List (String × Json)) : List Field → DRes (List (String × Bool × GoVal))
  | [] => .ok []
  | f :: fs =>
    (match lookupLast f.name ms with
      | some mv => (
        -- `if fields["x"] != nil { if string(fields["x"]) != "null" {…} else {…} delete(fields, "x") }`
        if mv.isNull then
          (if f.required && !f.ty.getMeta.nullable then DRes.err   -- "required field is null"
           else zero f.ty)
        else sd f.ty mv : DRes GoVal)
      | none =>
        -- `} else { errs = append(…"required field is missing from input") }` unless a default exists
        if f.required && Val.isNil f.ty.getMeta.dflt then DRes.err else zero f.ty).bind fun v =>
    (strictFieldsWith sd zero ms fs).bind fun rest => .ok ((f.name, !f.required, v) :: rest)

/-- `for field := range fields { errs = append(…"unexpected field") }` after all declared names
    have been deleted -/
def hasUndeclared (fields : List Field) (ms : List (String × Json)) : Bool :=
  ms.any fun kv => !(fields.map (·.name)).contains kv.1

/-- body of `UnmarshalJSONStrict` of a plain struct on the raw document `j`.
    `json.Unmarshal(raw, &fields)` into `map[string]json.RawMessage`: an object fills the map,
    `null` leaves it empty (no error), anything else is an error. -/
def strictStruct (sd : Ty → Json → DRes GoVal) (zero : Ty → DRes GoVal) (fields : List Field)
    (j : Json) : DRes GoVal :=
  match j with
  | .obj ms =>
    (strictFieldsWith sd zero ms fields).bind fun fvs =>
      if hasUndeclared fields ms then .err else .ok (.struct fvs)
  | .null =>
    (strictFieldsWith sd zero [] fields).bind fun fvs => .ok (.struct fvs)
  | _ => .err

/-- the `switch discriminator { case "tag": … default: … }` of the refs-union template:
    which branch type name a discriminator value selects -/
def unionTarget (info : DisjInfo) (d : Json) : Option String :=
  let catchAll := (info.mapping.find? fun kv => kv.1 == "cog_discriminator_catch_all").map (·.2)
  match d with
  | .str tag =>
    match info.mapping.find? fun kv => kv.1 == tag with
    | some kv => some kv.2
    | none => catchAll
  | _ => catchAll

def sliceOrNil (vs : List GoVal) : GoVal := if vs.isEmpty then .nil else .slice vs

/-- `strict_unmarshal_field_type` at type `t` on the raw value `j`, with the callee
    `UnmarshalJSONStrict` of a referenced struct inlined.  `j` is `null` only at array-element /
    map-value positions and for the root document. -/
def sd : Nat → Schemas → Ty → Json → DRes GoVal
  | 0, _, _, _ => .fuel
  | fuel + 1, ss, t, j =>
    match resolveRefs ss t with
    | none => .fuel
    | some rt =>
      if isScalarOrEnum rt || isCrefTy t then
        -- `json.Unmarshal(raw, &field)`
        goDecode (fuel + 1) ss t j
      else
      match rt with
      | .array e _ =>
        if isArrayOfKinds kindFuel ss t then goDecode (fuel + 1) ss t j
        else
          -- `partialArray := []json.RawMessage{}; json.Unmarshal(raw, &partialArray)` (early return on error)
          match j with
          | .arr xs =>
            if t.isRef && t.getMeta.nullable && !xs.isEmpty then
              .unsup "panic: append(*x, …) dereferences the nil pointer of a nullable named array"
            else
              -- nested levels use their own `partialArray<Depth>` (since /repo commit ce83efb; before,
              -- the element block redeclared `partialArray` and indexed the new, empty slice: panic)
              (mapRes (sd fuel ss e) xs).map sliceOrNil
          | .null => .ok .nil
          | _ => .err
      | .map idx e _ =>
        if isMapOfKinds kindFuel ss t then goDecode (fuel + 1) ss t j
        else
          match idx with
          | .scalar "string" _ _ _ =>
            match j with
            | .obj kvs =>
              -- nested levels use their own `partialMap<Depth>` (since /repo commit ce83efb; before, the
              -- value block redeclared `partialMap` and decoded a nil raw message: always an error)
              (mapRes (fun (kv : String × Json) => (sd fuel ss e kv.2).map fun x => (kv.1, x)) kvs).map
                fun l => .gomap (l.foldl (fun acc kv => Cog.OMap.rset kv.1 kv.2 acc) [])
            | .null => .ok (.gomap [])
            | _ => .err
          | _ => .unsup "map with non-string index"
      | .struct fields _ gi _ =>
        if !t.isRef then .unsup "found an unimplemented unmarshal case (inline struct)"
        else
          (match gi with
            | none =>
              strictStruct (sd fuel ss) (strictZero (fuel + 1) ss) fields j
            | some (hint, info) =>
              if hint = "disjunction_of_scalars" then
                -- every branch is tried with plain `json.Unmarshal`, first success wins
                (decodeScalarUnionWith (goDecode fuel ss) j fields []).map .union
              else
                match j with
                | .obj ms =>
                  match lookupLast info.discriminator ms with
                  | none => .err                       -- "discriminator field … not found in payload"
                  | some d =>
                    match unionTarget info d with
                    | none => .err                     -- "could not unmarshal resource with `disc = …`"
                    | some tn =>
                      match fieldByRefName fields tn with
                      | none => .unsup "mapping target is not a branch"
                      | some bf =>
                        (sd fuel ss (.ref (refPkg t) tn {}) j).map fun v =>
                          .union (fields.map fun (f : Field) => (f.name, if f.name == bf.name then GoVal.ptr v else GoVal.nil))
                | .null => .err                        -- empty map: discriminator not found
                | _ => .err).map fun v => if t.getMeta.nullable then .ptr v else v
      | _ => .unsup "found an unimplemented unmarshal case"

/-- `(&T{}).UnmarshalJSONStrict(raw)` for the object `pkg.name` -/
def goDecodeStrict (fuel : Nat) (ss : Schemas) (pkg name : String) (j : Json) : DRes GoVal :=
  match Schemas.locateObject ss pkg name with
  | none => .unsup "no such object"
  | some o =>
    match o.ty with
    | .struct .. => sd fuel ss (.ref pkg name {}) j
    | _ => .unsup "object is not a struct (no UnmarshalJSONStrict method)"

end Cog.Sem
