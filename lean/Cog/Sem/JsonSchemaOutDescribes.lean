/-
  C12 — the two decidable hypotheses of `C12_values_validate_partial` (evaluated by the driver on
  every lab case and document):

  * `describes D n S t node`  (schema level) the emitted node `node` (in the context of the emitted
      definitions `D`) is what the emitter writes for the Go-chain type `t`, up to the differences
      between the Go chain and the JSON-Schema chain that do not change the described documents:
      an object the Go chain hoisted (anonymous struct / enum, union struct) may be described inline,
      annotations (`description`, `default`) are ignored, nullability is ignored.
  * `sat n S t j`  (document level) the document respects what the IR says beyond the Go type:
      constraints, enum membership, constants; an `any` value is an object (`any` is emitted as
      `{type: object}`); no `null` except for an optional member.

  Same fuel discipline as `den` / `goDecode`.  Core Lean only.
-/
import Cog.Sem.JsonSchemaOut
import Cog.Sem.Den
namespace Cog.Sem.JSOut
open Cog.IR Cog.Sem
open Cog.OMap (rget rset)

/-! ### structural equality of emitted nodes -/

mutual
def valBeq : Val → Val → Bool
  | .nil, .nil => true
  | .bool a, .bool b => a == b
  | .int t a, .int u b => t == u && a == b
  | .float t a, .float u b => t == u && a == b
  | .jnum a, .jnum b => a == b
  | .str a, .str b => a == b
  | .list a, .list b => valBeqList a b
  | .map a, .map b => valBeqKvs a b
  | .other t a, .other u b => t == u && a == b
  | _, _ => false
def valBeqList : List Val → List Val → Bool
  | [], [] => true
  | x :: xs, y :: ys => valBeq x y && valBeqList xs ys
  | _, _ => false
def valBeqKvs : List (String × Val) → List (String × Val) → Bool
  | [], [] => true
  | (k, x) :: xs, (k', y) :: ys => k == k' && valBeq x y && valBeqKvs xs ys
  | _, _ => false
end

mutual
def jsBeq : JS → JS → Bool
  | .obj a, .obj b => jsBeqKvs a b
  | .arr a, .arr b => jsBeqList a b
  | .str a, .str b => a == b
  | .bool a, .bool b => a == b
  | .ref a, .ref b => a == b
  | .raw a, .raw b => valBeq a b
  | _, _ => false
def jsBeqList : List JS → List JS → Bool
  | [], [] => true
  | x :: xs, y :: ys => jsBeq x y && jsBeqList xs ys
  | _, _ => false
def jsBeqKvs : List (String × JS) → List (String × JS) → Bool
  | [], [] => true
  | (k, x) :: xs, (k', y) :: ys => k == k' && jsBeq x y && jsBeqKvs xs ys
  | _, _ => false
end

/-! ### node shapes -/

def isAnn (k : String) : Bool := k == "description" || k == "default"

/-- a node without its annotations -/
def core (d : Def) : Def := d.filter (fun kv => !isAnn kv.1)

def isArrayNode : Def → Option Def
  | [(k1, .str t), (k2, .obj e)] => if k1 = "type" ∧ t = "array" ∧ k2 = "items" then some e else none
  | _ => none

def isMapNode : Def → Option Def
  | [(k1, .str t), (k2, .obj e)] =>
    if k1 = "type" ∧ t = "object" ∧ k2 = "additionalProperties" then some e else none
  | _ => none

/-- `{type: object, additionalProperties: false, [required], properties}` → (required, properties) -/
def isStructNode : Def → Option (List JS × Def)
  | [(k1, .str t), (k2, .bool b), (k3, .obj ps)] =>
    if k1 = "type" ∧ t = "object" ∧ k2 = "additionalProperties" ∧ b = false ∧ k3 = "properties"
    then some ([], ps) else none
  | [(k1, .str t), (k2, .bool b), (k3, .arr rs), (k4, .obj ps)] =>
    if k1 = "type" ∧ t = "object" ∧ k2 = "additionalProperties" ∧ b = false ∧ k3 = "required" ∧
       k4 = "properties"
    then some (rs, ps) else none
  | _ => none

def isAnyOfNode : Def → Option (List JS)
  | [(k1, .arr ns)] => if k1 = "anyOf" then some ns else none
  | _ => none

def isEnumNode : Def → Option (List JS)
  | [(k1, .arr xs)] => if k1 = "enum" then some xs else none
  | _ => none

/-- one `$ref` step: the node itself, or the definition it points to (without annotations) -/
def deref (D : Def) (d : Def) : Option Def :=
  match rget "$ref" d with
  | some (.ref x) =>
    (match rget x D with
     | some (.obj nd) => some (core nd)
     | _ => none)
  | some _ => none
  | none => some d

/-! ### `sat`: the document respects the IR beyond the Go types -/

def isStrKind (k : String) : Bool := k == "string" || k == "bytes"
def isNumKind (k : String) : Bool := k == "float32" || k == "float64" || isIntKind k

/-- IR-level meaning of the numeric constraint operators -/
def opNum (op : String) : Option (Int → Int × Nat → Bool) :=
  if op = "<" then some ratLt
  else if op = "<=" then some ratLe
  else if op = ">" then some ratGt
  else if op = ">=" then some ratGe
  else if op = "multipleOf" then some ratMul
  else none

def satNumC (c : Constraint) (j : Json) : Bool :=
  match opNum c.op with
  | some cmp => (match j, valRat (c.args.headD .nil) with
                 | .num q, some r => cmp q r
                 | _, _ => true)
  | none => true

def satStrC (c : Constraint) (j : Json) : Bool :=
  if c.op = "minLength" then
    (match j, valRat (c.args.headD .nil) with
     | .str x, some r => ratGe (4 * Int.ofNat x.length) r
     | _, _ => true)
  else if c.op = "maxLength" then
    (match j, valRat (c.args.headD .nil) with
     | .str x, some r => ratLe (4 * Int.ofNat x.length) r
     | _, _ => true)
  else true

def satScalar (kind : String) (value : Val) (cs : List Constraint) (j : Json) : Bool :=
  (isNilVal value || valMatches value j) &&
  (if isStrKind kind then cs.all (fun c => satStrC c j)
   else if isNumKind kind then cs.all (fun c => satNumC c j)
   else true)

def enumMember : List EnumVal → Json → Bool
  | [], _ => false
  | v :: vs, j => valMatches v.value j || enumMember vs j

def noNull (t : Ty) : Ty := t.setMeta { t.getMeta with nullable := false }

def satFieldsWith (s : Ty → Json → Bool) (fields : List Field) (members : List (String × Json)) : Bool :=
  fields.all fun f =>
    match Json.lookup f.name members with
    | some x => if x.isNull then !f.required else s f.ty x
    | none => !f.required

def sat : Nat → Schemas → Ty → Json → Bool
  | 0, _, _, _ => false
  | n + 1, ss, t, j =>
    !j.isNull &&
    match t with
    | .scalar kind v cs _ =>
      if kind = "any" then isNilVal v && (match j with | .obj _ => true | _ => false)
      else satScalar kind v cs j
    | .array e _ =>
      (match j with
       | .arr xs => xs.all (sat n ss e)
       | _ => false)
    | .map _ v _ =>
      (match j with
       | .obj kvs => kvs.all (fun kv => sat n ss v kv.2)
       | _ => false)
    | .ref pkg name _ =>
      (match Schemas.locateObject ss pkg name with
       | none => false
       | some o =>
         match o.ty with
         | .struct fields _ none _ =>
           (match j with
            | .obj members => satFieldsWith (sat n ss) fields members
            | _ => false)
         | .struct fields _ (some (hint, info)) _ =>
           if hint = "disjunction_of_scalars" then
             fields.all (fun f => !den n ss (noNull f.ty) j || sat n ss (noNull f.ty) j)
           else
             (match j with
              | .obj members =>
                (match Json.lookup info.discriminator members with
                 | some (.str tag) =>
                   (match info.mapping.find? (fun kv => kv.1 == tag) with
                    | some kv => sat n ss (.ref pkg kv.2 {}) j
                    | none => false)
                 | _ => false)
              | _ => false)
         | .enum vs _ => enumMember vs j
         | .scalar kind v cs _ => kind != "any" && satScalar kind v cs j
         | .array .. | .map .. => sat n ss o.ty j
         | .ref p n' om => sat n ss (.ref p n' om) j
         | _ => false)
    | _ => false

/-! ### `describes` -/

/-- fields against the properties of a struct node, pairwise in order -/
def describesFieldsWith (d : Ty → Def → Bool) : List Field → Def → Bool
  | [], [] => true
  | f :: fs, (k, .obj nd) :: ps => (f.name == k) && d f.ty nd && describesFieldsWith d fs ps
  | _, _ => false

/-- union branches against the alternatives of an `anyOf`, pairwise in order -/
def describesBranchesWith (d : Ty → Def → Bool) : List Field → List JS → Bool
  | [], [] => true
  | f :: fs, .obj nd :: ns => d (noNull f.ty) nd && describesBranchesWith d fs ns
  | _, _ => false

def anyDescribes (d : Def → Bool) : List JS → Bool
  | [] => false
  | .obj nd :: ns => d nd || anyDescribes d ns
  | _ :: ns => anyDescribes d ns

/-- `describes D n S t node`: to depth `n` (every statement about documents is bounded by the depth
    of the document, as `den n` is) -/
def describes (D : Def) : Nat → Schemas → Ty → Def → Bool
  | 0, _, _, _ => true
  | n + 1, ss, t, node =>
    match t with
    | .scalar kind v cs m => jsBeqKvs (core node) (emitScalar kind v cs (hasHint m dtHint))
    | .array e _ =>
      (match isArrayNode (core node) with
       | some en => describes D n ss e en
       | none => false)
    | .map _ v _ =>
      (match isMapNode (core node) with
       | some vn => describes D n ss v vn
       | none => false)
    | .ref pkg name _ =>
      (match Schemas.locateObject ss pkg name with
       | none => false
       | some o =>
         match deref D (core node) with
         | none => false
         | some nd =>
           match o.ty with
           | .struct fields _ none _ =>
             (match isStructNode nd with
              | some (rs, ps) =>
                jsBeqList rs ((requiredNames fields).map .str) &&
                namesNodup (fields.map (·.name)) &&
                describesFieldsWith (describes D n ss) fields ps
              | none => false)
           | .struct fields _ (some (hint, info)) _ =>
             (match isAnyOfNode nd with
              | some ns =>
                if hint = "disjunction_of_scalars" then describesBranchesWith (describes D n ss) fields ns
                else info.mapping.all (fun kv => anyDescribes (describes D n ss (.ref pkg kv.2 {})) ns)
              | none => false)
           | .enum vs _ =>
             (match isEnumNode nd with
              | some xs => jsBeqList xs (enumValues vs)
              | none => false)
           | .scalar kind v cs om => jsBeqKvs nd (emitScalar kind v cs (hasHint om dtHint))
           | .array .. | .map .. => describes D n ss o.ty nd
           | .ref p n' om => describes D n ss (.ref p n' om) nd
           | _ => false)
    | _ => false

end Cog.Sem.JSOut
