/-
  C12 — decidable well-formedness hypotheses of the emission theorems (evaluated by the driver,
  verb `jswf`, on every lab case).  Core Lean only.
-/
import Cog.Sem.JsonSchemaOut
namespace Cog.Sem.JSOut
open Cog.IR Cog.Sem
open Cog.OMap (rget rset)

def schemaObjs (s : Schema) : List Obj := s.objects.map (·.2)

def allObjs : Schemas → List Obj
  | [] => []
  | s :: ss => schemaObjs s ++ allObjs ss

/-- an object named `n` is among the objects of `s` (definitions are stored under `object.Name`) -/
def localHas (s : Schema) (n : String) : Bool := (schemaObjs s).any (fun o => o.name == n)

/-- every object of every loaded schema is stored under its own name -/
def keyed : Schemas → Bool
  | [] => true
  | s :: ss => s.objects.all (fun kv => kv.2.name == kv.1) && keyed ss

/-- the reference `r` written by the emitter for schema `s` resolves: in `s` when it names `s.pkg`,
    among the loaded schemas otherwise -/
def refOK (S : Schemas) (s : Schema) (r : String × String) : Bool :=
  if r.1 = s.pkg then localHas s r.2 else (Schemas.locateObject S r.1 r.2).isSome

def objRefsOK (S : Schemas) (s : Schema) (o : Obj) : Bool := (emittedRefs o.ty).all (refOK S s)

/-- two objects queued under the same `SelfRef.String()` have the same name -/
def selfKeyInj (S : Schemas) : Bool :=
  (allObjs S).all fun a => (allObjs S).all fun b => selfKey a != selfKey b || a.name == b.name

/-- `Closed`-like hypothesis of `C12_refs_resolve`, relative to the schema `s` being emitted -/
def emitClosed (S : Schemas) (s : Schema) : Bool :=
  keyed S && selfKeyInj S &&
  (schemaObjs s).all (objRefsOK S s) && (allObjs S).all (objRefsOK S s) &&
  (s.entryPoint == "" || localHas s s.entryPoint)

def namesNodupB : List String → Bool
  | [] => true
  | k :: t => !(t.contains k) && namesNodupB t

/-- no object of another package carries the name of an object of `s`, and the objects of `s` have
    pairwise different names (otherwise definitions overwrite each other) -/
def noClash (S : Schemas) (s : Schema) : Bool :=
  namesNodupB ((schemaObjs s).map (·.name)) &&
  S.all fun s' => s'.pkg == s.pkg || (schemaObjs s').all (fun o => !localHas s o.name)

end Cog.Sem.JSOut
