/-
  C10, Go side: what the generated default constructor `New<Object>()` returns.

  Literal transcription of internal/jennies/golang/rawtypes.go (`generateConstructor`,
  `defaultsForStruct`, `maybeValueAsPointer`) and tools.go (`formatScalar`,
  `anyToDisjunctionBranchName`) on the post-Go-chain IR, in two stages:

    1. `goStructLit`  : the composite literal cog PRINTS, as an abstract syntax tree (`GoExpr`);
                        the text printed with `%#v` depends on the DYNAMIC Go type of the default
                        (`Val`): a `json.Number` prints a quoted string, a `[]any` prints
                        `[]string{…}` whatever the element type, a `map[string]any` prints a
                        `map[string]interface {}{…}` literal, a float64 prints in `%g` form;
    2. `evalExpr`     : Go's typing of that literal against the declared type of the field
                        (assignability of untyped constants, identity of pointer / slice / named
                        types) and its value.  An ill-typed literal is `CRes.cerr`: the generated
                        package does not compile.

  The value is a `GoVal` (Cog/Sem/GoVal.lean); `GoVal.goEncode` is `json.Marshal`.
  Zero values of fields the constructor does not set are `goDecode … null` (decoding `null` into a
  Go type leaves its zero value).

  Outside the model (`unsup`): constant references, anonymous struct / enum / disjunction types left
  in field position, `%#v` of values other than the dynamic types listed in Cog/IR/Types.lean,
  numbers that are not multiples of 0.25, a map literal assigned to `any` / `map[string]any`.
  The parser layer (how each front-end fills `Type.Default`) is NOT modelled: the IR comes from the
  real front-ends and pass chains (lab), printed with the dynamic type of every default.
-/
import Cog.Sem.GoCodec
import Cog.Passes.Str
namespace Cog.Sem.Defaults
open Cog.Sem
open Cog.IR

/-- outcome of generating, compiling and running a constructor -/
inductive CRes (α : Type) where
  | ok (a : α)
  | cerr (why : String)      -- the printed literal is ill-typed: the package does not compile
  | unsup (why : String)     -- outside the modelled fragment
  | fuel                     -- out of fuel (reference cycle or fuel too small)
  deriving Inhabited

namespace CRes
def bind {α β} (x : CRes α) (f : α → CRes β) : CRes β :=
  match x with
  | ok a => f a
  | cerr w => cerr w
  | unsup w => unsup w
  | fuel => fuel
def map {α β} (f : α → β) (x : CRes α) : CRes β := bind x (fun a => ok (f a))
def ofD {α} : DRes α → CRes α
  | .ok a => .ok a
  | .err => .unsup "zero value: decoder error"
  | .unsup w => .unsup w
  | .fuel => .fuel
end CRes

def mapCRes {α β} (f : α → CRes β) : List α → CRes (List β)
  | [] => .ok []
  | x :: xs => (f x).bind fun y => (mapCRes f xs).bind fun ys => .ok (y :: ys)

/-! ### numbers: the text of a Go float (`strconv` 'g', which is what `%#v` prints) as quarters -/

def digitsNat? : List Char → Option Nat
  | [] => none
  | cs => if cs.all Char.isDigit then some (cs.foldl (fun acc c => acc * 10 + (c.toNat - 48)) 0) else none

def splitAtChar (p : Char → Bool) : List Char → List Char × Option (List Char)
  | [] => ([], none)
  | c :: cs => if p c then ([], some cs) else
      let r := splitAtChar p cs
      (c :: r.1, r.2)

def signedNat? : List Char → Option Int
  | '-' :: ds => (digitsNat? ds).map fun n => -(Int.ofNat n)
  | '+' :: ds => (digitsNat? ds).map Int.ofNat
  | ds => (digitsNat? ds).map Int.ofNat

/-- decimal / exponent text (`-1.00000081e+09`, `2.5`, `1E2`) → the number in quarters, when it is
    a multiple of 0.25 -/
def numQuarters (text : String) : Option Int :=
  let cs := text.toList
  let neg := cs.head? == some '-'
  let body := match cs with | '-' :: t => t | '+' :: t => t | _ => cs
  let (mant, expo) := splitAtChar (fun c => c == 'e' || c == 'E') body
  let (ip, fp) := splitAtChar (· == '.') mant
  let fracDigits := fp.getD []
  match digitsNat? (ip ++ fracDigits), (match expo with | none => some 0 | some e => signedNat? e) with
  | some m, some e =>
    if ip.isEmpty then none else
    let e10 : Int := e - Int.ofNat fracDigits.length
    let q4 : Option Nat :=
      if e10 ≥ 0 then some (4 * m * 10 ^ e10.toNat)
      else
        let d := 10 ^ (-e10).toNat
        if (4 * m) % d = 0 then some (4 * m / d) else none
    q4.map fun q => if neg then -(Int.ofNat q) else Int.ofNat q
  | _, _ => none

/-! ### Go types of fields (`typeFormatter.doFormatType`) -/

inductive GoTy where
  | bool | str | any | time | bytes
  | int (kind : String)
  | float (kind : String)
  | named (pkg name : String)
  | ptr (t : GoTy)
  | slice (t : GoTy)
  | gmap (k v : GoTy)
  | unknown                       -- the text `unknown` (undefined identifier) / an anonymous type
  deriving DecidableEq, Inhabited

def scalarBase (kind : String) (dt : Bool) : GoTy :=
  if dt then .time
  else if kind = "bool" then .bool
  else if kind = "string" then .str
  else if (intRange kind).isSome then .int kind
  else if kind = "float32" ∨ kind = "float64" then .float kind
  else .unknown

def goTyOf : Ty → GoTy
  | .scalar kind _ _ m =>
    if kind = "any" then .any
    else if kind = "bytes" then .bytes
    else
      let base := scalarBase kind (hasHint m "string_format_datetime")
      if m.nullable then .ptr base else base
  | .array e _ => .slice (goTyOf e)
  | .map i v _ => .gmap (goTyOf i) (goTyOf v)
  | .ref p n m => if m.nullable then .ptr (.named p n) else .named p n
  | .cref p n _ _ => .named p n
  | _ => .unknown

def _root_.Cog.IR.Ty.isConcrete : Ty → Bool
  | .scalar _ v _ _ => !(match v with | .nil => true | _ => false)
  | _ => false

def _root_.Cog.IR.Val.isNilV : Val → Bool | .nil => true | _ => false

def nonNullable (t : Ty) : Ty := t.setMeta { t.getMeta with nullable := false }

/-! ### the printed literal -/

inductive GoExpr where
  | nilLit
  | boolLit (b : Bool)
  | intLit (n : Int)
  | floatLit (repr : String)                       -- `%#v` of a float: strconv 'g' text
  | strLit (s : String)                            -- `%#v` of a string or of a json.Number
  | strSlice (items : List GoExpr)                 -- `[]string{…}` (formatScalar on a `[]any`)
  | mapLit (kvs : List (String × Val))             -- `map[string]interface {}{…}`
  | emptySlice (elem : GoTy)                       -- `[]T{}`
  | emptyMap (k v : GoTy)                          -- `map[K]V{}`
  | ident (pkg obj member : String)                -- an enum member constant
  | ptrTo (hint : GoTy) (e : GoExpr)               -- `(func (input T) *T { return &input })(e)`
  | structLit (pkg name : String) (fields : List (String × GoExpr))
  | addr (e : GoExpr)                              -- `&S{…}`
  | newCall (pkg name : String)                    -- `NewS()`
  | deref (e : GoExpr)                             -- `*NewS()`
  | opaque (why : String)                          -- `%#v` of a value outside the model
  deriving Inhabited

mutual
/-- `formatScalar` (tools.go) -/
def formatScalar : Val → GoExpr
  | .nil => .nilLit
  | .list xs => .strSlice (formatScalarList xs)
  | .bool b => .boolLit b
  | .int _ n => .intLit n
  | .float _ r => .floatLit r
  | .jnum s => .strLit s
  | .str s => .strLit s
  | .map kvs => .mapLit kvs
  | .other t r => .opaque (t ++ " " ++ r)
def formatScalarList : List Val → List GoExpr
  | [] => []
  | x :: xs => formatScalar x :: formatScalarList xs
end

def goIntKind (tag : String) : String :=
  if tag = "i64" then "int64" else if tag = "i32" then "int32" else if tag = "i16" then "int16"
  else if tag = "i8" then "int8" else if tag = "i" then "int" else if tag = "u64" then "uint64"
  else if tag = "u32" then "uint32" else if tag = "u16" then "uint16" else if tag = "u8" then "uint8"
  else if tag = "u" then "uint" else tag

/-- `reflect.Kind.String()` of the dynamic value -/
def reflectKind : Val → String
  | .nil => "invalid"
  | .bool _ => "bool"
  | .int t _ => goIntKind t
  | .float t _ => if t = "f32" then "float32" else "float64"
  | .jnum _ => "string"
  | .str _ => "string"
  | .list _ => "slice"
  | .map _ => "map"
  | .other .. => "struct"

mutual
/-- `anyToDisjunctionBranchName` -/
def branchNameOf : Val → String
  | .list xs => branchNameOfList xs
  | .nil => Cog.Passes.ucc "invalid"
  | .bool _ => Cog.Passes.ucc "bool"
  | .int t _ => Cog.Passes.ucc (goIntKind t)
  | .float t _ => Cog.Passes.ucc (if t = "f32" then "float32" else "float64")
  | .jnum _ => Cog.Passes.ucc "string"
  | .str _ => Cog.Passes.ucc "string"
  | .map _ => Cog.Passes.ucc "map"
  | .other .. => Cog.Passes.ucc "struct"
def branchNameOfList : List Val → String
  | [] => Cog.Passes.ucc "slice"
  | x :: _ => "ArrayOf" ++ branchNameOf x
end

/-- `maybeValueAsPointer` -/
def maybePtr (e : GoExpr) (nullable : Bool) (t : Ty) : GoExpr :=
  if !nullable then e
  else if t.isArray || t.isMap then e
  else .ptrTo (goTyOf (nonNullable t)) e

def lookupVal (k : String) : List (String × Val) → Option Val
  | [] => none
  | (k', v) :: t => if k' = k then some v else lookupVal k t

/-- `maybeExtraDefaults.(map[string]any)` -/
def extraOf : Val → List (String × Val)
  | .map kvs => kvs
  | _ => []

def isGenFromDisj : Ty → Bool
  | .struct _ _ (some _) _ => true
  | _ => false

def structFields : Ty → List Field
  | .struct fs _ _ _ => fs
  | _ => []

def fieldByName (name : String) : List Field → Option Field
  | [] => none
  | f :: fs => if f.name = name then some f else fieldByName name fs

/-- Go `==` on two `any` values: `none` is the run-time panic on uncomparable dynamic types -/
def _root_.Cog.IR.Val.goEq : Val → Val → Option Bool
  | .nil, .nil => some true
  | .bool a, .bool b => some (a == b)
  | .int t a, .int t' b => some (t == t' && a == b)
  | .float t a, .float t' b => some (t == t' && a == b)
  | .jnum a, .jnum b => some (a == b)
  | .str a, .str b => some (a == b)
  | .list _, .list _ => none
  | .map _, .map _ => none
  | .other .., _ => none
  | _, .other .. => none
  | _, _ => some false

/-- the enum member whose value `==` the default, else the first member (`none`: empty enum or
    uncomparable values, a panic of the generator) -/
def pickMember (d : Val) : List EnumVal → Option EnumVal → Option EnumVal
  | [], fallback => fallback
  | m :: ms, fallback =>
    match Val.goEq m.value d with
    | none => none
    | some true => some m
    | some false => pickMember d ms fallback

def enumValues : Ty → List EnumVal
  | .enum vs _ => vs
  | _ => []

def refPkg : Ty → String | .ref p _ _ => p | _ => ""
def refName : Ty → String | .ref _ n _ => n | _ => ""

def isCRef : Ty → Bool | .cref .. => true | _ => false
def scalarValue : Ty → Val | .scalar _ v _ _ => v | _ => .nil
def arrayElem : Ty → Ty | .array e _ => e | t => t
def mapIndex : Ty → Ty | .map i _ _ => i | t => t
def mapValue : Ty → Ty | .map _ v _ => v | t => t

/-- what the loop body of `defaultsForStruct` does for one field -/
inductive FieldLit where
  | skip                         -- `continue`: no explicit default
  | lit (e : GoExpr)
  | fail (r : CRes Unit)
  deriving Inhabited

def needsExplicit (f : Field) (resolved : Ty) (extra : List (String × Val)) : Bool :=
  !f.ty.getMeta.dflt.isNilV
  || (match lookupVal f.name extra with | some v => !v.isNilV | none => false)
  || (f.required && f.ty.isRef && resolved.isStruct)
  || (f.required && f.ty.isArray)
  || (f.required && f.ty.isMap)
  || f.ty.isConcrete
  || isCRef f.ty

/-- one field of `defaultsForStruct`; `nested` is the recursive call for a struct-typed reference
    with a default -/
def goFieldLit (nested : String → String → List Field → Val → CRes GoExpr)
    (extra : List (String × Val)) (f : Field) (resolved : Ty) : FieldLit :=
  if !needsExplicit f resolved extra then .skip else
  let m := f.ty.getMeta
  match lookupVal f.name extra with
  | some ev =>
    let dv := formatScalar ev
    if f.ty.isRef && isGenFromDisj resolved then
      let branch : Option Field :=
        match fieldByName (Cog.Passes.ucc (branchNameOf ev)) (structFields resolved) with
        | some b => some b
        | none => fieldByName "Any" (structFields resolved)
      match branch with
      | none => .fail (.cerr "unknown field Any in struct literal")
      | some b =>
        let lit := GoExpr.structLit (refPkg f.ty) (refName f.ty) [(b.name, maybePtr dv true b.ty)]
        .lit (if m.nullable then .addr lit else lit)
    else .lit (maybePtr dv m.nullable resolved)
  | none =>
    if f.ty.isConcrete then .lit (maybePtr (formatScalar (scalarValue f.ty)) m.nullable resolved)
    else if (resolved.isScalar || resolved.isMap || resolved.isArray) && !m.dflt.isNilV then
      .lit (maybePtr (formatScalar m.dflt) m.nullable resolved)
    else if f.ty.isRef && resolved.isStruct && !m.dflt.isNilV then
      match nested (refPkg f.ty) (refName f.ty) (structFields resolved) m.dflt with
      | .ok lit => .lit (if m.nullable then .addr lit else lit)
      | .cerr w => .fail (.cerr w)
      | .unsup w => .fail (.unsup w)
      | .fuel => .fail .fuel
    else if f.ty.isRef && resolved.isStruct then
      .lit (if m.nullable then .newCall (refPkg f.ty) (refName f.ty)
            else .deref (.newCall (refPkg f.ty) (refName f.ty)))
    else if f.ty.isRef && resolved.isEnum then
      match pickMember m.dflt (enumValues resolved) (enumValues resolved).head? with
      | none => .fail (.unsup "enum without members or uncomparable default")
      | some mem => .lit (maybePtr (.ident (refPkg f.ty) (refName f.ty) mem.name) m.nullable f.ty)
    else if isCRef f.ty then
      -- (when the constant does not refer to an enum the Go code `break`s out of the field loop)
      .fail (.unsup "constant reference")
    else if f.ty.isArray then .lit (.emptySlice (goTyOf (arrayElem f.ty)))
    else if f.ty.isMap then .lit (.emptyMap (goTyOf (mapIndex f.ty)) (goTyOf (mapValue f.ty)))
    else .lit (.strLit "unsupported default value case: this is likely a bug in cog")

/-- the loop of `defaultsForStruct` -/
def goFieldsLit (nested : String → String → List Field → Val → CRes GoExpr) (ss : Schemas) (fuel : Nat)
    (extra : List (String × Val)) : List Field → CRes (List (String × GoExpr))
  | [] => .ok []
  | f :: rest =>
    match Schemas.resolveToType ss fuel f.ty with
    | none => .fuel
    | some resolved =>
      match goFieldLit nested extra f resolved with
      | .skip => goFieldsLit nested ss fuel extra rest
      | .fail (.cerr w) => .cerr w
      | .fail (.unsup w) => .unsup w
      | .fail _ => .fuel
      | .lit e => (goFieldsLit nested ss fuel extra rest).map fun l => (f.name, e) :: l

/-- `defaultsForStruct(context, objectRef, objectType, maybeExtraDefaults)` -/
def goStructLit : Nat → Schemas → String → String → List Field → Val → CRes GoExpr
  | 0, _, _, _, _, _ => .fuel
  | fuel + 1, ss, pkg, name, fields, extra =>
    (goFieldsLit (goStructLit fuel ss) ss fuel (extraOf extra) fields).map (.structLit pkg name)

/-! ### typing and value of the literal -/

/-- what a named Go type is declared as (`formatTypeDeclaration`) -/
inductive Decl where
  | structD (fields : List Field) (union : Bool)
  | basic (t : GoTy)
  | none
  deriving Inhabited

def declOf : Nat → Schemas → String → String → Decl
  | 0, _, _, _ => .none
  | fuel + 1, ss, pkg, name =>
    match Schemas.locateObject ss pkg name with
    | none => .none
    | some o =>
      match o.ty with
      | .struct fs _ gi _ => .structD fs gi.isSome
      | .enum (v0 :: _) _ => .basic (scalarBase v0.kind false)
      | .scalar kind v _ m =>
        if !v.isNilV then .none          -- `const X = …`: not a type
        else .basic (goTyOf (.scalar kind .nil [] { m with nullable := false }))
      | .ref p n _ => declOf fuel ss p n   -- `type X = Y`
      | .array .. | .map .. => .basic (goTyOf o.ty)
      | _ => .none

/-- the type constants are checked against: the underlying basic type of a named type -/
def constTarget (fuel : Nat) (ss : Schemas) : GoTy → GoTy
  | .named p n => match declOf fuel ss p n with | .basic t => t | _ => .named p n
  | t => t

/-- the declared Go type of a struct field (`formatField`: a reference to a constant uses the
    constant's scalar type) -/
def fieldGoTy (fuel : Nat) (ss : Schemas) (f : Field) : GoTy :=
  if f.ty.isRef then
    match Schemas.resolveToType ss fuel f.ty with
    | some r => if r.isConcrete then goTyOf r else goTyOf f.ty
    | none => goTyOf f.ty
  else goTyOf f.ty

def lookupGV (k : String) : List (String × GoVal) → Option GoVal
  | [] => none
  | (k', v) :: t => if k' = k then some v else lookupGV k t

/-- value of an untyped integer constant in a context of type `t` -/
def intConst (n : Int) : GoTy → CRes GoVal
  | .int kind =>
    match intRange kind with
    | some (lo, hi) => if lo ≤ n ∧ n ≤ hi then .ok (.int n) else .cerr "integer constant overflows"
    | none => .cerr "unknown integer type"
  | .float _ => .ok (.float (n * 4))
  | .any => .ok (.iface (.num (n * 4)))
  | _ => .cerr "cannot use untyped int constant"

/-- value of an untyped float constant (in quarters) in a context of type `t` -/
def floatConst (q : Int) : GoTy → CRes GoVal
  | .int kind =>
    match intRange kind with
    | some (lo, hi) =>
      if q % 4 = 0 then
        (if lo ≤ q / 4 ∧ q / 4 ≤ hi then .ok (.int (q / 4)) else .cerr "untyped float constant overflows")
      else .cerr "untyped float constant truncated"
    | none => .cerr "unknown integer type"
  | .float _ => .ok (.float q)
  | .any => .ok (.iface (.num q))
  | _ => .cerr "cannot use untyped float constant"

def strConst (s : String) : GoTy → CRes GoVal
  | .str => .ok (.str s)
  | .any => .ok (.iface (.str s))
  | _ => .cerr "cannot use untyped string constant"

def boolConst (b : Bool) : GoTy → CRes GoVal
  | .bool => .ok (.bool b)
  | .any => .ok (.iface (.bool b))
  | _ => .cerr "cannot use untyped bool constant"

def nilConst : GoTy → CRes GoVal
  | .ptr _ | .slice _ | .gmap .. | .any => .ok .nil
  | _ => .cerr "cannot use nil"

/-- value of an enum member (a typed constant) -/
def memberVal (m : EnumVal) : CRes GoVal :=
  match m.value with
  | .str s => if m.kind = "string" then .ok (.str s) else .cerr "string constant in a numeric enum"
  | .int _ n => if m.kind = "string" then .cerr "numeric constant in a string enum" else .ok (.int n)
  | .float _ r =>
    if m.kind = "string" then .cerr "numeric constant in a string enum" else
    match numQuarters r with
    | some q => floatConst q (scalarBase m.kind false)
    | none => .unsup "enum value not a multiple of 0.25"
  | _ => .unsup "enum member value"

def findMember (name : String) : List EnumVal → Option EnumVal
  | [] => none
  | m :: ms => if m.name = name then some m else findMember name ms

/-- assemble the struct value: fields named in the literal take the literal's value, the others
    their zero value -/
def assemble (zero : Ty → CRes GoVal) (vals : List (String × GoVal)) :
    List Field → CRes (List (String × Bool × GoVal))
  | [] => .ok []
  | f :: fs =>
    (match lookupGV f.name vals with
     | some v => CRes.ok v
     | none => zero f.ty).bind fun v =>
      (assemble zero vals fs).bind fun rest => .ok ((f.name, !f.required, v) :: rest)

def stripFlags : List (String × Bool × GoVal) → List (String × GoVal)
  | [] => []
  | (k, _, v) :: t => (k, v) :: stripFlags t

mutual
/-- type-check `e` against the Go type `t` and evaluate it.  `ctor p n` is the value returned by
    `New<n>()`, `zero` the zero value of a field type. -/
def evalExpr (ctor : String → String → CRes GoVal) (zero : Ty → CRes GoVal) (fuel : Nat) (ss : Schemas) :
    GoTy → GoExpr → CRes GoVal
  | t, .nilLit => nilConst t
  | t, .boolLit b => boolConst b (constTarget fuel ss t)
  | t, .intLit n => intConst n (constTarget fuel ss t)
  | t, .floatLit r =>
    match numQuarters r with
    | some q => floatConst q (constTarget fuel ss t)
    | none => .unsup "float default that is not a multiple of 0.25"
  | t, .strLit s => strConst s (constTarget fuel ss t)
  | t, .strSlice items =>
    (evalItems ctor zero fuel ss items).bind fun vs =>
      if t = .slice .str then .ok (.slice vs)
      else if t = .any then .unsup "[]string literal assigned to any"
      else .cerr "cannot use []string{…} as the field's type"
  | t, .mapLit _ =>
    if t = .any ∨ t = .gmap .str .any then .unsup "map literal assigned to any / map[string]any"
    else .cerr "cannot use map[string]interface {}{…} as the field's type"
  | t, .emptySlice e =>
    if t = .slice e then
      -- `[]uint8{}` is `[]byte{}`: json.Marshal encodes it as the (empty) base64 string
      (if e = .int "uint8" then .ok (.str "") else .ok (.slice []))
    else .cerr "slice literal of another type"
  | t, .emptyMap k v => if t = .gmap k v then .ok (.gomap []) else .cerr "map literal of another type"
  | t, .ident p o mname =>
    if t = .named p o then
      match Schemas.locateObject ss p o with
      | some ob =>
        match findMember mname (enumValues ob.ty) with
        | some m =>
          if Cog.Passes.cleanupNames (Cog.Passes.ucc mname) = mname then memberVal m
          else .cerr "undefined: enum member constant"
        | none => .cerr "undefined: enum member constant"
      | none => .cerr "undefined: enum type"
    else .cerr "enum constant of another type"
  | t, .ptrTo hint e =>
    if hint = .unknown then .cerr "undefined: unknown"
    else if t = .ptr hint then (evalExpr ctor zero fuel ss hint e).map .ptr
    else .cerr "pointer to another type"
  | t, .structLit p n lits =>
    if t = .named p n then
      match declOf fuel ss p n with
      | .structD fs union =>
        (evalLits ctor zero fuel ss fs lits).bind fun vals =>
          (assemble zero vals fs).map fun l => if union then .union (stripFlags l) else .struct l
      | _ => .cerr "composite literal of a non-struct type"
    else .cerr "struct literal of another type"
  | t, .addr e =>
    match t with
    | .ptr u => (evalExpr ctor zero fuel ss u e).map .ptr
    | _ => .cerr "address of a literal where no pointer is expected"
  | t, .newCall p n => if t = .ptr (.named p n) then (ctor p n).map .ptr else .cerr "constructor of another type"
  | t, .deref e =>
    (evalExpr ctor zero fuel ss (.ptr t) e).bind fun v =>
      match v with
      | .ptr x => .ok x
      | _ => .cerr "dereference of a non-pointer"
  | _, .opaque w => .unsup ("%#v of " ++ w)
/-- the items of `[]string{…}`: each must be assignable to `string` -/
def evalItems (ctor : String → String → CRes GoVal) (zero : Ty → CRes GoVal) (fuel : Nat) (ss : Schemas) :
    List GoExpr → CRes (List GoVal)
  | [] => .ok []
  | e :: es =>
    (evalExpr ctor zero fuel ss .str e).bind fun v =>
      (evalItems ctor zero fuel ss es).bind fun vs => .ok (v :: vs)
/-- the keyed elements of a struct literal, each against its field's declared type -/
def evalLits (ctor : String → String → CRes GoVal) (zero : Ty → CRes GoVal) (fuel : Nat) (ss : Schemas)
    (fs : List Field) : List (String × GoExpr) → CRes (List (String × GoVal))
  | [] => .ok []
  | (k, e) :: rest =>
    match fieldByName k fs with
    | none => .cerr "unknown field in struct literal"
    | some f =>
      (evalExpr ctor zero fuel ss (fieldGoTy fuel ss f) e).bind fun v =>
        (evalLits ctor zero fuel ss fs rest).bind fun vs => .ok ((k, v) :: vs)
end

/-- the zero value of the Go type of an IR type (what `goDecode … null` leaves behind), computed
    without looking below a nil pointer: `goDecode` evaluates the pointee even when the document is
    `null` (compiled Lean is strict), which is exponential on self-referential optional members -/
def goZero : Nat → Schemas → Ty → CRes GoVal
  | 0, _, _ => .fuel
  | fuel + 1, ss, t =>
    match t with
    | .scalar kind _ _ m =>
      if kind = "bytes" then .unsup "bytes"
      else if kind = "any" then .ok .nil
      else if m.nullable then .ok .nil
      else CRes.ofD (decodeScalar kind (hasHint m "string_format_datetime") .null)
    | .array e _ => if isByteElem e then .unsup "[]uint8 is []byte (base64)" else .ok .nil
    | .map idx _ _ =>
      (match idx with
       | .scalar "string" _ _ _ => .ok .nil
       | _ => .unsup "map with non-string index")
    | .ref pkg name m =>
      if m.nullable then
        (match Schemas.locateObject ss pkg name with
         | none => .unsup "dangling reference"
         | some _ => .ok .nil)
      else
        match Schemas.locateObject ss pkg name with
        | none => .unsup "dangling reference"
        | some o =>
          match o.ty with
          | .struct fields _ none _ =>
            (mapCRes (fun (f : Field) => (goZero fuel ss f.ty).map fun v => (f.name, !f.required, v)) fields).map .struct
          | .struct fields _ (some _) _ => .ok (.union (fields.map fun f => (f.name, .nil)))
          | .enum (v0 :: _) _ => CRes.ofD (decodeScalar v0.kind false .null)
          | .scalar kind _ _ om =>
            if kind = "bytes" then .unsup "bytes"
            else CRes.ofD (decodeScalar kind (hasHint om "string_format_datetime") .null)
          | .array .. | .map .. => goZero fuel ss o.ty
          | .ref p n om => goZero fuel ss (.ref p n { om with nullable := false })
          | _ => .unsup "object kind"
    | .cref pkg name _ _ => goZero fuel ss (.ref pkg name {})
    | _ => .unsup ("type kind " ++ t.kind)

/-- the struct value `*New<name>()` -/
def goCtor : Nat → Schemas → String → String → CRes GoVal
  | 0, _, _, _ => .fuel
  | fuel + 1, ss, pkg, name =>
    match Schemas.locateObject ss pkg name with
    | none => .cerr "undefined constructor"
    | some o =>
      match o.ty with
      | .struct fs _ _ _ =>
        (goStructLit fuel ss o.selfPkg o.selfName fs .nil).bind fun lit =>
          evalExpr (goCtor fuel ss) (goZero fuel ss) fuel ss (.named o.selfPkg o.selfName) lit
      | .ref p n _ =>
        -- `return New<Referred>()` when the reference resolves to a struct object
        match Schemas.locateObject ss p n with
        | some ro => if ro.ty.isStruct then goCtor fuel ss ro.selfPkg ro.selfName else .unsup "no constructor"
        | none => .unsup "no constructor"
      | _ => .unsup "no constructor"

/-- `json.Marshal(New<name>())` -/
def goDefaults (fuel : Nat) (ss : Schemas) (pkg name : String) : CRes Json :=
  (goCtor fuel ss pkg name).map fun v => GoVal.goEncode (.ptr v)

/-- does the package compile as far as its constructors go?  the first ill-typed constructor -/
def goPkgCompiles (fuel : Nat) (ss : Schemas) (pkg : String) : Option (String × String) :=
  match Schemas.locate ss pkg with
  | none => none
  | some s =>
    s.objects.findSome? fun (kv : String × Obj) =>
      if kv.2.ty.isStruct then
        match goCtor fuel ss pkg kv.1 with
        | .cerr w => some (kv.1, w)
        | _ => none
      else none

end Cog.Sem.Defaults
