/-
  C13 helper lemmas, part 2: `goEquals` on well-typed values is reflexive (given timestamps whose
  location pointer is shared between decodes), symmetric and transitive (given that no map entry
  equals the zero value of its type).
-/
import Cog.Sem.GoEqualsLemmas
namespace Cog.Sem.GoEq
open Cog.IR

def isLeafVal : GoVal → Bool
  | .bool _ | .int _ | .float _ | .str _ | .time _ => true
  | _ => false

theorem leafOk_isLeaf {k : String} {dt : Bool} {v : GoVal} (h : leafOk k dt v = true) :
    isLeafVal v = true := by
  unfold leafOk at h
  cases v <;> simp [isLeafVal] <;> (repeat' split at h) <;> simp_all

theorem leafEq_refl {v : GoVal} (h : isLeafVal v = true) (ht : timesShared v = true) :
    leafEq v v = true := by
  cases v <;> simp_all [isLeafVal, leafEq, timesShared]

/-! ### reflexivity -/

theorem ptrEq_refl {nullable : Bool} {ok : GoVal → Bool} {eq : GoVal → GoVal → Bool} {a : GoVal}
    (h : ptrOk nullable ok a = true) (ht : timesShared a = true)
    (ih : ∀ x, ok x = true → timesShared x = true → eq x x = true) :
    ptrEq nullable eq a a = true := by
  cases nullable
  · simp only [ptrOk, ptrEq] at h ⊢; exact ih a (by simpa using h) ht
  · cases a <;> simp_all [ptrOk, ptrEq, timesShared]

theorem eqList_refl {f : GoVal → GoVal → Bool} {w : GoVal → Bool}
    (ih : ∀ x, w x = true → timesShared x = true → f x x = true) :
    ∀ xs, allList w xs = true → timesSharedList xs = true → eqList f xs xs = true
  | [], _, _ => rfl
  | x :: xs, h, ht => by
    simp only [allList, timesSharedList, Bool.and_eq_true] at h ht
    simp only [eqList, Bool.and_eq_true]
    exact ⟨ih x h.1 ht.1, eqList_refl ih xs h.2 ht.2⟩

theorem eqFields_refl {f : Ty → GoVal → GoVal → Bool} {w : Ty → GoVal → Bool}
    (ih : ∀ t x, w t x = true → timesShared x = true → f t x x = true) :
    ∀ fields fs, wtFields w fields fs = true → timesSharedFields fs = true →
      eqFields f fields fs fs = true
  | [], [], _, _ => rfl
  | [], _ :: _, h, _ => by simp [wtFields] at h
  | _ :: _, [], h, _ => by simp [wtFields] at h
  | fd :: fds, (k, om, x) :: xs, h, ht => by
    simp only [wtFields, timesSharedFields, Bool.and_eq_true] at h ht
    simp only [eqFields, Bool.and_eq_true]
    exact ⟨ih _ x h.1.2 ht.1, eqFields_refl ih fds xs h.2 ht.2⟩

theorem eqBranches_refl {f : Ty → GoVal → GoVal → Bool} {w : Ty → GoVal → Bool}
    (ih : ∀ t x, w t x = true → timesShared x = true → f t x x = true) :
    ∀ fields bs, wtBranches w fields bs = true → timesSharedKvs bs = true →
      eqBranches f fields bs bs = true
  | [], [], _, _ => rfl
  | [], _ :: _, h, _ => by simp [wtBranches] at h
  | _ :: _, [], h, _ => by simp [wtBranches] at h
  | fd :: fds, (k, x) :: xs, h, ht => by
    simp only [wtBranches, timesSharedKvs, Bool.and_eq_true] at h ht
    simp only [eqBranches, Bool.and_eq_true]
    exact ⟨ih _ x h.1.2 ht.1, eqBranches_refl ih fds xs h.2 ht.2⟩

theorem timesSharedKvs_mem {k : String} {v : GoVal} :
    ∀ {l : List (String × GoVal)}, timesSharedKvs l = true → (k, v) ∈ l → timesShared v = true
  | [], _, h => by simp at h
  | (k', v') :: t, ha, h => by
    simp only [timesSharedKvs, Bool.and_eq_true] at ha
    cases List.mem_cons.1 h with
    | inl e => obtain ⟨_, e2⟩ := Prod.mk.inj e; rw [e2]; exact ha.1
    | inr e => exact timesSharedKvs_mem ha.2 e

theorem goEquals_refl : ∀ (fuel : Nat) (ss : Schemas) (t : Ty) (a : GoVal),
    wt fuel ss t a = true → timesShared a = true → goEquals fuel ss t a a = true
  | 0, _, _, _, h, _ => by simp [wt] at h
  | fuel + 1, ss, t, a, h, ht => by
    have ih := goEquals_refl fuel ss
    unfold wt at h
    unfold goEquals
    cases hc : classify ss t <;> simp only [hc] at h ⊢
    case unsup => exact h
    case any =>
      cases a <;> simp_all [deepEqual, jbeq_refl]
    case leaf kind dt nullable =>
      exact ptrEq_refl h ht fun x hx hxt => leafEq_refl (leafOk_isLeaf hx) hxt
    case arr e =>
      cases a <;> simp_all [elems, eqList]
      case slice xs => exact eqList_refl (ih e) xs h (by simpa [timesShared] using ht)
    case map e =>
      cases a <;> simp_all [entries, eqEntries]
      case gomap kvs =>
        rw [eqEntries_iff]
        intro k v hm
        have nd := (nodupKeys_iff _).1 h.1
        rw [lookupV_of_mem nd hm]
        exact ih e v (allVals_mem h.2 hm) (timesSharedKvs_mem (by simpa [timesShared] using ht) hm)
    case struct fields nullable =>
      refine ptrEq_refl h ht fun x hx hxt => ?_
      cases x <;> simp_all [structEq]
      case struct fs => exact eqFields_refl ih fields fs hx.2 (by simpa [timesShared] using hxt)
    case union fields nullable =>
      refine ptrEq_refl h ht fun x hx hxt => ?_
      cases x <;> simp_all [unionEq]
      case union bs => exact eqBranches_refl ih fields bs hx.1 (by simpa [timesShared] using hxt)
    case alias t' => exact ih t' a h ht
    case collPtr t' => simp only [Bool.and_eq_true, beq_self_eq_true, true_and]; exact ih t' a h ht

/-! ### shape lemmas -/

theorem leafEq_eq {x y : GoVal} (h : leafEq x y = true) : x = y := by
  cases x <;> cases y <;> simp_all [leafEq]

theorem deepEqual_symm {a b : GoVal} (h : deepEqual a b = true) : deepEqual b a = true := by
  cases a <;> cases b <;> simp_all [deepEqual]
  case iface.iface j1 j2 => rw [jbeq_eq _ _ h]; exact jbeq_refl _

theorem deepEqual_trans {a b c : GoVal} (h1 : deepEqual a b = true) (h2 : deepEqual b c = true) :
    deepEqual a c = true := by
  cases a <;> cases b <;> simp [deepEqual] at h1 <;> cases c <;> simp_all [deepEqual]
  case iface.iface.iface j1 j2 j3 => rw [jbeq_eq _ _ h1, jbeq_eq _ _ h2]; exact jbeq_refl _

theorem ptrAll_true (nullable : Bool) (a : GoVal) : ptrAll nullable (fun _ => true) a = true := by
  cases nullable <;> cases a <;> simp [ptrAll]

theorem wt_arr_elems {w : GoVal → Bool} {a : GoVal}
    (h : (match a with | .nil => true | .slice xs => allList w xs | _ => false) = true) :
    ∃ xs, elems a = some xs ∧ allList w xs = true := by
  cases a <;> simp_all [elems, allList]

theorem nz_arr_elems {n : GoVal → Bool} {a : GoVal}
    (h : (match a with | .slice xs => allList n xs | _ => true) = true) {xs : List GoVal}
    (he : elems a = some xs) : allList n xs = true := by
  cases a <;> simp [elems] at he
  case nil => subst he; rfl
  case slice ys => subst he; simpa using h

theorem wt_map_entries {w : GoVal → Bool} {a : GoVal}
    (h : (match a with
          | .nil => true
          | .gomap kvs => nodupKeys (keysOf kvs) && allVals w kvs
          | _ => false) = true) :
    ∃ kvs, entries a = some kvs ∧ (keysOf kvs).Nodup ∧ allVals w kvs = true := by
  cases a <;> simp_all [entries, allVals, keysOf, nodupKeys_iff]

theorem nz_map_entries {n : GoVal → Bool} {a : GoVal}
    (h : (match a with | .gomap kvs => allVals n kvs | _ => true) = true)
    {kvs : List (String × GoVal)} (he : entries a = some kvs) : allVals n kvs = true := by
  cases a <;> simp [entries] at he
  case nil => subst he; rfl
  case gomap ys => subst he; simpa using h

/-! ### transitivity -/

theorem ptrEq_trans {nullable : Bool} {eq : GoVal → GoVal → Bool}
    {oka okb okc nza nzb : GoVal → Bool} {a b c : GoVal}
    (ha : ptrOk nullable oka a = true) (hb : ptrOk nullable okb b = true)
    (hc : ptrOk nullable okc c = true)
    (na : ptrAll nullable nza a = true) (nb : ptrAll nullable nzb b = true)
    (ih : ∀ x y z, oka x = true → okb y = true → okc z = true → nza x = true → nzb y = true →
      eq x y = true → eq y z = true → eq x z = true)
    (hab : ptrEq nullable eq a b = true) (hbc : ptrEq nullable eq b c = true) :
    ptrEq nullable eq a c = true := by
  cases nullable
  · simp only [ptrOk, ptrAll, ptrEq, Bool.false_eq_true, if_false] at *
    exact ih a b c ha hb hc na nb hab hbc
  · cases a <;> cases b <;> simp [ptrEq] at hab <;> cases c <;> simp [ptrEq] at hbc ⊢
    case ptr.ptr.ptr x y z =>
      simp only [ptrOk, ptrAll, if_true] at ha hb hc na nb
      exact ih x y z ha hb hc na nb hab hbc

theorem eqList_trans {f : GoVal → GoVal → Bool} {w n : GoVal → Bool}
    (ih : ∀ x y z, w x = true → w y = true → w z = true → n x = true → n y = true →
      f x y = true → f y z = true → f x z = true) :
    ∀ xs ys zs, allList w xs = true → allList w ys = true → allList w zs = true →
      allList n xs = true → allList n ys = true →
      eqList f xs ys = true → eqList f ys zs = true → eqList f xs zs = true
  | [], [], zs, _, _, _, _, _, _, h => h
  | [], _ :: _, _, _, _, _, _, _, h, _ => by simp [eqList] at h
  | _ :: _, [], _, _, _, _, _, _, h, _ => by simp [eqList] at h
  | _ :: _, _ :: _, [], _, _, _, _, _, _, h => by simp [eqList] at h
  | x :: xs, y :: ys, z :: zs, wx, wy, wz, nx, ny, h1, h2 => by
    simp only [allList, eqList, Bool.and_eq_true] at *
    exact ⟨ih x y z wx.1 wy.1 wz.1 nx.1 ny.1 h1.1 h2.1,
      eqList_trans ih xs ys zs wx.2 wy.2 wz.2 nx.2 ny.2 h1.2 h2.2⟩

theorem eqFields_trans {f : Ty → GoVal → GoVal → Bool} {w n : Ty → GoVal → Bool}
    (ih : ∀ t x y z, w t x = true → w t y = true → w t z = true → n t x = true → n t y = true →
      f t x y = true → f t y z = true → f t x z = true) :
    ∀ fields xs ys zs, wtFields w fields xs = true → wtFields w fields ys = true →
      wtFields w fields zs = true → nzFields n fields xs = true → nzFields n fields ys = true →
      eqFields f fields xs ys = true → eqFields f fields ys zs = true →
      eqFields f fields xs zs = true
  | [], [], [], zs, _, _, _, _, _, _, h => h
  | [], _ :: _, _, _, h, _, _, _, _, _, _ => by simp [wtFields] at h
  | [], [], _ :: _, _, _, h, _, _, _, _, _ => by simp [wtFields] at h
  | _ :: _, [], _, _, h, _, _, _, _, _, _ => by simp [wtFields] at h
  | _ :: _, _ :: _, [], _, _, h, _, _, _, _, _ => by simp [wtFields] at h
  | _ :: _, _ :: _, _ :: _, [], _, _, h, _, _, _, _ => by simp [wtFields] at h
  | fd :: fds, (_, _, x) :: xs, (_, _, y) :: ys, (_, _, z) :: zs, wx, wy, wz, nx, ny, h1, h2 => by
    simp only [wtFields, nzFields, eqFields, Bool.and_eq_true] at *
    exact ⟨ih _ x y z wx.1.2 wy.1.2 wz.1.2 nx.1 ny.1 h1.1 h2.1,
      eqFields_trans ih fds xs ys zs wx.2 wy.2 wz.2 nx.2 ny.2 h1.2 h2.2⟩

theorem eqBranches_trans {f : Ty → GoVal → GoVal → Bool} {w n : Ty → GoVal → Bool}
    (ih : ∀ t x y z, w t x = true → w t y = true → w t z = true → n t x = true → n t y = true →
      f t x y = true → f t y z = true → f t x z = true) :
    ∀ fields xs ys zs, wtBranches w fields xs = true → wtBranches w fields ys = true →
      wtBranches w fields zs = true → nzBranches n fields xs = true → nzBranches n fields ys = true →
      eqBranches f fields xs ys = true → eqBranches f fields ys zs = true →
      eqBranches f fields xs zs = true
  | [], [], [], zs, _, _, _, _, _, _, h => h
  | [], _ :: _, _, _, h, _, _, _, _, _, _ => by simp [wtBranches] at h
  | [], [], _ :: _, _, _, h, _, _, _, _, _ => by simp [wtBranches] at h
  | _ :: _, [], _, _, h, _, _, _, _, _, _ => by simp [wtBranches] at h
  | _ :: _, _ :: _, [], _, _, h, _, _, _, _, _ => by simp [wtBranches] at h
  | _ :: _, _ :: _, _ :: _, [], _, _, h, _, _, _, _ => by simp [wtBranches] at h
  | fd :: fds, (_, x) :: xs, (_, y) :: ys, (_, z) :: zs, wx, wy, wz, nx, ny, h1, h2 => by
    simp only [wtBranches, nzBranches, eqBranches, Bool.and_eq_true] at *
    exact ⟨ih _ x y z wx.1.2 wy.1.2 wz.1.2 nx.1 ny.1 h1.1 h2.1,
      eqBranches_trans ih fds xs ys zs wx.2 wy.2 wz.2 nx.2 ny.2 h1.2 h2.2⟩

/-- an entry whose value is not zero-equal forces the key to be present on the other side -/
theorem entry_present {f : GoVal → GoVal → Bool} {z v : GoVal} {k : String}
    {other : List (String × GoVal)} (hnz : f v z = false)
    (h : f v ((lookupV k other).getD z) = true) : ∃ v', lookupV k other = some v' ∧ f v v' = true := by
  cases hl : lookupV k other with
  | none => rw [hl] at h; simp only [Option.getD_none] at h; rw [hnz] at h; cases h
  | some v' => rw [hl] at h; exact ⟨v', rfl, h⟩

theorem goEquals_trans : ∀ (fuel : Nat) (ss : Schemas) (t : Ty) (a b c : GoVal),
    wt fuel ss t a = true → wt fuel ss t b = true → wt fuel ss t c = true →
    mapsNonZero fuel ss t a = true → mapsNonZero fuel ss t b = true →
    goEquals fuel ss t a b = true → goEquals fuel ss t b c = true → goEquals fuel ss t a c = true
  | 0, _, _, _, _, _, h, _, _, _, _, _, _ => by simp [wt] at h
  | fuel + 1, ss, t, a, b, c, ha, hb, hc, na, nb, hab, hbc => by
    have ih := goEquals_trans fuel ss
    unfold wt at ha hb hc
    unfold mapsNonZero at na nb
    unfold goEquals at hab hbc ⊢
    cases hcl : classify ss t <;> simp only [hcl] at ha hb hc na nb hab hbc ⊢
    case unsup => exact ha
    case any => exact deepEqual_trans hab hbc
    case leaf kind dt nullable =>
      refine ptrEq_trans (nza := fun _ => true) (nzb := fun _ => true) ha hb hc
        (ptrAll_true _ _) (ptrAll_true _ _) ?_ hab hbc
      intro x y z _ _ _ _ _ h1 h2
      rw [leafEq_eq h1]; exact h2
    case arr e =>
      obtain ⟨xs, ex, wx⟩ := wt_arr_elems ha
      obtain ⟨ys, ey, wy⟩ := wt_arr_elems hb
      obtain ⟨zs, ez, wz⟩ := wt_arr_elems hc
      have nx := nz_arr_elems na ex
      have ny := nz_arr_elems nb ey
      simp only [ex, ey, ez] at hab hbc ⊢
      exact eqList_trans (ih e) xs ys zs wx wy wz nx ny hab hbc
    case map e =>
      obtain ⟨xs, ex, dx, wx⟩ := wt_map_entries ha
      obtain ⟨ys, ey, dy, wy⟩ := wt_map_entries hb
      obtain ⟨zs, ez, dz, wz⟩ := wt_map_entries hc
      have nx := nz_map_entries na ex
      have ny := nz_map_entries nb ey
      simp only [ex, ey, ez, Bool.and_eq_true, beq_iff_eq] at hab hbc ⊢
      refine ⟨hab.1.trans hbc.1, ?_⟩
      rw [eqEntries_iff] at hab hbc ⊢
      intro k v hm
      have nv := allVals_mem nx hm
      simp only [Bool.and_eq_true, Bool.not_eq_true'] at nv
      obtain ⟨vy, ly, fy⟩ := entry_present nv.1 (hab.2 k v hm)
      have hmy := mem_of_lookupV ly
      have nvy := allVals_mem ny hmy
      simp only [Bool.and_eq_true, Bool.not_eq_true'] at nvy
      obtain ⟨vz, lz, fz⟩ := entry_present nvy.1 (hbc.2 k vy hmy)
      rw [lz]
      exact ih e v vy vz (allVals_mem wx hm) (allVals_mem wy hmy) (allVals_mem wz (mem_of_lookupV lz))
        nv.2 nvy.2 fy fz
    case struct fields nullable =>
      refine ptrEq_trans ha hb hc na nb ?_ hab hbc
      intro x y z wx wy wz nx ny h1 h2
      cases x <;> cases y <;> simp [structEq] at h1 <;> cases z <;> simp [structEq] at h2 ⊢
      simp only [Bool.and_eq_true] at wx wy wz
      exact eqFields_trans ih fields _ _ _ wx.2 wy.2 wz.2 nx ny h1 h2
    case union fields nullable =>
      refine ptrEq_trans ha hb hc na nb ?_ hab hbc
      intro x y z wx wy wz nx ny h1 h2
      cases x <;> cases y <;> simp [unionEq] at h1 <;> cases z <;> simp [unionEq] at h2 ⊢
      simp only [Bool.and_eq_true] at wx wy wz
      exact eqBranches_trans ih fields _ _ _ wx.1 wy.1 wz.1 nx ny h1 h2
    case alias t' => exact ih t' a b c ha hb hc na nb hab hbc
    case collPtr t' =>
      simp only [Bool.and_eq_true, beq_iff_eq] at hab hbc ⊢
      exact ⟨hab.1.trans hbc.1, ih t' a b c ha hb hc na nb hab.2 hbc.2⟩

/-! ### symmetry -/

theorem ptrEq_symm {nullable : Bool} {eq : GoVal → GoVal → Bool}
    {oka okb nza : GoVal → Bool} {a b : GoVal}
    (ha : ptrOk nullable oka a = true) (hb : ptrOk nullable okb b = true)
    (na : ptrAll nullable nza a = true)
    (ih : ∀ x y, oka x = true → okb y = true → nza x = true → eq x y = true → eq y x = true)
    (hab : ptrEq nullable eq a b = true) : ptrEq nullable eq b a = true := by
  cases nullable
  · simp only [ptrOk, ptrAll, ptrEq, Bool.false_eq_true, if_false] at *
    exact ih a b ha hb na hab
  · cases a <;> cases b <;> simp [ptrEq] at hab ⊢
    case ptr.ptr x y =>
      simp only [ptrOk, ptrAll, if_true] at ha hb na
      exact ih x y ha hb na hab

theorem eqList_symm {f : GoVal → GoVal → Bool} {w n : GoVal → Bool}
    (ih : ∀ x y, w x = true → w y = true → n x = true → f x y = true → f y x = true) :
    ∀ xs ys, allList w xs = true → allList w ys = true → allList n xs = true →
      eqList f xs ys = true → eqList f ys xs = true
  | [], [], _, _, _, h => h
  | [], _ :: _, _, _, _, h => by simp [eqList] at h
  | _ :: _, [], _, _, _, h => by simp [eqList] at h
  | x :: xs, y :: ys, wx, wy, nx, h => by
    simp only [allList, eqList, Bool.and_eq_true] at *
    exact ⟨ih x y wx.1 wy.1 nx.1 h.1, eqList_symm ih xs ys wx.2 wy.2 nx.2 h.2⟩

theorem eqFields_symm {f : Ty → GoVal → GoVal → Bool} {w n : Ty → GoVal → Bool}
    (ih : ∀ t x y, w t x = true → w t y = true → n t x = true → f t x y = true → f t y x = true) :
    ∀ fields xs ys, wtFields w fields xs = true → wtFields w fields ys = true →
      nzFields n fields xs = true → eqFields f fields xs ys = true → eqFields f fields ys xs = true
  | [], [], [], _, _, _, h => h
  | [], _ :: _, _, h, _, _, _ => by simp [wtFields] at h
  | [], [], _ :: _, _, h, _, _ => by simp [wtFields] at h
  | _ :: _, [], _, h, _, _, _ => by simp [wtFields] at h
  | _ :: _, _ :: _, [], _, h, _, _ => by simp [wtFields] at h
  | fd :: fds, (_, _, x) :: xs, (_, _, y) :: ys, wx, wy, nx, h => by
    simp only [wtFields, nzFields, eqFields, Bool.and_eq_true] at *
    exact ⟨ih _ x y wx.1.2 wy.1.2 nx.1 h.1, eqFields_symm ih fds xs ys wx.2 wy.2 nx.2 h.2⟩

theorem eqBranches_symm {f : Ty → GoVal → GoVal → Bool} {w n : Ty → GoVal → Bool}
    (ih : ∀ t x y, w t x = true → w t y = true → n t x = true → f t x y = true → f t y x = true) :
    ∀ fields xs ys, wtBranches w fields xs = true → wtBranches w fields ys = true →
      nzBranches n fields xs = true → eqBranches f fields xs ys = true →
      eqBranches f fields ys xs = true
  | [], [], [], _, _, _, h => h
  | [], _ :: _, _, h, _, _, _ => by simp [wtBranches] at h
  | [], [], _ :: _, _, h, _, _ => by simp [wtBranches] at h
  | _ :: _, [], _, h, _, _, _ => by simp [wtBranches] at h
  | _ :: _, _ :: _, [], _, h, _, _ => by simp [wtBranches] at h
  | fd :: fds, (_, x) :: xs, (_, y) :: ys, wx, wy, nx, h => by
    simp only [wtBranches, nzBranches, eqBranches, Bool.and_eq_true] at *
    exact ⟨ih _ x y wx.1.2 wy.1.2 nx.1 h.1, eqBranches_symm ih fds xs ys wx.2 wy.2 nx.2 h.2⟩

/-- the map loop, one direction: with no zero-equal value on the receiver's side, equal lengths
    and duplicate-free keys, the receiver's verdict determines the argument's -/
theorem eqEntries_symm {f : GoVal → GoVal → Bool} {z : GoVal} {xs ys : List (String × GoVal)}
    (dx : (keysOf xs).Nodup) (dy : (keysOf ys).Nodup) (hl : xs.length = ys.length)
    (nz : ∀ k v, (k, v) ∈ xs → f v z = false)
    (ih : ∀ k v v', (k, v) ∈ xs → (k, v') ∈ ys → f v v' = true → f v' v = true)
    (h : eqEntries f z ys xs = true) : eqEntries f z xs ys = true := by
  rw [eqEntries_iff] at h ⊢
  have sub : keysOf xs ⊆ keysOf ys := by
    intro k hk
    obtain ⟨v, lv⟩ := lookupV_some_of_key hk
    have hm := mem_of_lookupV lv
    obtain ⟨v', lv', _⟩ := entry_present (nz k v hm) (h k v hm)
    exact mem_keysOf (mem_of_lookupV lv')
  have sub' : keysOf ys ⊆ keysOf xs :=
    subset_of_nodup_subset_length_le dx sub (by rw [keysOf_length, keysOf_length, hl]; exact Nat.le_refl _)
  intro k vy hmy
  obtain ⟨v, lv⟩ := lookupV_some_of_key (sub' (mem_keysOf hmy))
  have hm := mem_of_lookupV lv
  obtain ⟨v', lv', fv⟩ := entry_present (nz k v hm) (h k v hm)
  rw [lookupV_of_mem dy hmy] at lv'
  cases lv'
  rw [lv]
  exact ih k v vy hm hmy fv

theorem goEquals_symm : ∀ (fuel : Nat) (ss : Schemas) (t : Ty) (a b : GoVal),
    wt fuel ss t a = true → wt fuel ss t b = true → mapsNonZero fuel ss t a = true →
    goEquals fuel ss t a b = true → goEquals fuel ss t b a = true
  | 0, _, _, _, _, h, _, _, _ => by simp [wt] at h
  | fuel + 1, ss, t, a, b, ha, hb, na, hab => by
    have ih := goEquals_symm fuel ss
    unfold wt at ha hb
    unfold mapsNonZero at na
    unfold goEquals at hab ⊢
    cases hcl : classify ss t <;> simp only [hcl] at ha hb na hab ⊢
    case unsup => exact ha
    case any => exact deepEqual_symm hab
    case leaf kind dt nullable =>
      refine ptrEq_symm (nza := fun _ => true) ha hb (ptrAll_true _ _) ?_ hab
      intro x y _ _ _ h
      have e := leafEq_eq h
      subst e; exact h
    case arr e =>
      obtain ⟨xs, ex, wx⟩ := wt_arr_elems ha
      obtain ⟨ys, ey, wy⟩ := wt_arr_elems hb
      have nx := nz_arr_elems na ex
      simp only [ex, ey] at hab ⊢
      exact eqList_symm (ih e) xs ys wx wy nx hab
    case map e =>
      obtain ⟨xs, ex, dx, wx⟩ := wt_map_entries ha
      obtain ⟨ys, ey, dy, wy⟩ := wt_map_entries hb
      have nx := nz_map_entries na ex
      simp only [ex, ey, Bool.and_eq_true, beq_iff_eq] at hab ⊢
      refine ⟨hab.1.symm, eqEntries_symm dx dy hab.1 ?_ ?_ hab.2⟩
      · intro k v hm
        have nv := allVals_mem nx hm
        simp only [Bool.and_eq_true, Bool.not_eq_true'] at nv
        exact nv.1
      · intro k v v' hm hm' fv
        have nv := allVals_mem nx hm
        simp only [Bool.and_eq_true, Bool.not_eq_true'] at nv
        exact ih e v v' (allVals_mem wx hm) (allVals_mem wy hm') nv.2 fv
    case struct fields nullable =>
      refine ptrEq_symm ha hb na ?_ hab
      intro x y wx wy nx h
      cases x <;> cases y <;> simp [structEq] at h ⊢
      simp only [Bool.and_eq_true] at wx wy
      exact eqFields_symm ih fields _ _ wx.2 wy.2 nx h
    case union fields nullable =>
      refine ptrEq_symm ha hb na ?_ hab
      intro x y wx wy nx h
      cases x <;> cases y <;> simp [unionEq] at h ⊢
      simp only [Bool.and_eq_true] at wx wy
      exact eqBranches_symm ih fields _ _ wx.1 wy.1 nx h
    case alias t' => exact ih t' a b ha hb na hab
    case collPtr t' =>
      simp only [Bool.and_eq_true, beq_iff_eq] at hab ⊢
      exact ⟨hab.1.symm, ih t' a b ha hb na hab.2⟩

end Cog.Sem.GoEq
