/-
  C13 helper lemmas, part 5: every value `goDecode` produces for a schema in the modelled
  fragment is well typed (`wt`), i.e. the hypotheses `wt … = true` of the C13 theorems hold for all
  decoded values.  `schemasOk` is the decidable description of the fragment:
    * struct field names are distinct;
    * field / element types are scalars (not `bytes`), arrays, string-keyed maps, references to
      structs, enums, scalar aliases (not of `any`/`bytes`), references to array/map aliases
      (nullable ones — `*Alias` — in struct field position), constant references;
    * a struct generated from a disjunction has nullable (or array/map) branches, none of them
      `any`; the branches of a discriminated one are nullable references to structs of the same
      package.
  Outside (modelled by `goEquals`, exercised by the correspondence stream, not covered by this
  lemma): objects that are aliases of references (`type A = B`).
-/
import Cog.Sem.GoEqualsLaws
namespace Cog.Sem.GoEq
open Cog.IR Cog.Sem.GoVal

def refTyOk (oty : Ty) (nullable : Bool) : Bool :=
  match oty with
  | .struct .. => true
  | .enum (v0 :: _) _ => v0.kind != "any"
  | .scalar kind _ _ _ => kind != "bytes" && kind != "any"
  | .array .. | .map .. => !nullable
  | _ => false

def refOk (ss : Schemas) (pkg name : String) (nullable : Bool) : Bool :=
  match Schemas.locateObject ss pkg name with
  | none => false
  | some o => refTyOk o.ty nullable

def isStringIdx : Ty → Bool
  | .scalar "string" _ _ _ => true
  | _ => false

def posOk (ss : Schemas) : Ty → Bool
  | .scalar kind _ _ _ => kind != "bytes"
  | .array e _ => posOk ss e
  | .map idx v _ => isStringIdx idx && posOk ss v
  | .ref pkg name m => refOk ss pkg name m.nullable
  | .cref pkg name _ _ => refOk ss pkg name false
  | _ => false

/-- nullable reference to a named array / map (`*Alias`) -/
def collPtrOk (ss : Schemas) (pkg name : String) (nullable : Bool) : Bool :=
  nullable && (match Schemas.locateObject ss pkg name with
               | some o => o.ty.isArray || o.ty.isMap
               | none => false)

/-- field positions: `posOk`, or a nullable reference to a named array / map -/
def fposOk (ss : Schemas) (t : Ty) : Bool :=
  posOk ss t || (match t with
                 | .ref pkg name m => collPtrOk ss pkg name m.nullable
                 | _ => false)

theorem fposOk_of_posOk {ss : Schemas} {t : Ty} (h : posOk ss t = true) : fposOk ss t = true := by
  simp [fposOk, h]

def branchOk : Ty → Bool
  | .array .. | .map .. => true
  | .scalar k _ _ m => k != "any" && m.nullable
  | .ref _ _ m => m.nullable
  | _ => false

def refsBranchOk (ss : Schemas) (pkg : String) : Ty → Bool
  | .ref p n _ =>
    p == pkg && (match Schemas.locateObject ss pkg n with
                 | some o => o.ty.isStruct
                 | none => false)
  | _ => true

def objOk (ss : Schemas) (pkg : String) (o : Obj) : Bool :=
  match o.ty with
  | .struct fields _ none _ =>
    nodupKeys (fields.map (·.name)) && fields.all (fun f => fposOk ss f.ty)
  | .struct fields _ (some (hint, _)) _ =>
    nodupKeys (fields.map (·.name)) && fields.all (fun f => posOk ss f.ty) &&
      fields.all (fun f => branchOk f.ty) &&
      (hint == "disjunction_of_scalars" || fields.all (fun f => refsBranchOk ss pkg f.ty))
  | t => posOk ss t

def schemasOk (ss : Schemas) : Bool :=
  ss.all fun s => s.objects.all fun kv => objOk ss s.pkg kv.2

/-! ### the schema check reaches every located object -/

theorem rget_mem {V} {k : String} {v : V} :
    ∀ {l : List (String × V)}, Cog.OMap.rget k l = some v → (k, v) ∈ l
  | [], h => by simp [Cog.OMap.rget] at h
  | (k', v') :: t, h => by
    by_cases e : k' = k
    · simp only [Cog.OMap.rget, e, if_true, Option.some.injEq] at h
      simp [e, h]
    · simp only [Cog.OMap.rget, e, if_false] at h
      exact List.mem_cons_of_mem _ (rget_mem h)

theorem locate_mem {pkg : String} {s : Schema} :
    ∀ {ss : Schemas}, Schemas.locate ss pkg = some s → s ∈ ss ∧ s.pkg = pkg
  | [], h => by simp [Schemas.locate] at h
  | s' :: rest, h => by
    by_cases e : s'.pkg = pkg
    · simp only [Schemas.locate, e, if_true, Option.some.injEq] at h
      subst h; exact ⟨by simp, e⟩
    · simp only [Schemas.locate, e, if_false] at h
      obtain ⟨h1, h2⟩ := locate_mem h
      exact ⟨List.mem_cons_of_mem _ h1, h2⟩

theorem objOk_of_locate {ss : Schemas} (hs : schemasOk ss = true) {pkg name : String} {o : Obj}
    (h : Schemas.locateObject ss pkg name = some o) : objOk ss pkg o = true := by
  unfold Schemas.locateObject at h
  cases hl : Schemas.locate ss pkg with
  | none => rw [hl] at h; cases h
  | some s =>
    rw [hl] at h
    obtain ⟨hm, hp⟩ := locate_mem hl
    have hmem := rget_mem (show Cog.OMap.rget name s.objects = some o from h)
    unfold schemasOk at hs
    have := (List.all_eq_true.1 ((List.all_eq_true.1 hs) s hm)) (name, o) hmem
    rw [← hp]; exact this

/-! ### results of the decoder's building blocks -/

theorem DRes.map_ok {α β} {f : α → β} {x : DRes α} {b : β} (h : x.map f = .ok b) :
    ∃ a, x = .ok a ∧ f a = b := by
  cases x <;> simp [DRes.map, DRes.bind] at h
  exact ⟨_, rfl, h⟩

theorem mapRes_ok_cons {α β} {f : α → DRes β} {x : α} {xs : List α} {r : List β}
    (h : mapRes f (x :: xs) = .ok r) : ∃ y ys, f x = .ok y ∧ mapRes f xs = .ok ys ∧ r = y :: ys := by
  simp only [mapRes] at h
  cases hx : f x <;> rw [hx] at h <;> simp [DRes.bind] at h
  cases hxs : mapRes f xs <;> rw [hxs] at h <;> simp [DRes.bind] at h
  exact ⟨_, _, rfl, rfl, h.symm⟩

theorem mapRes_allList {f : Json → DRes GoVal} {p : GoVal → Bool}
    (ih : ∀ x y, f x = .ok y → p y = true) :
    ∀ (xs : List Json) (ys : List GoVal), mapRes f xs = .ok ys → allList p ys = true
  | [], ys, h => by simp [mapRes] at h; subst h; rfl
  | x :: xs, r, h => by
    obtain ⟨y, ys, h1, h2, rfl⟩ := mapRes_ok_cons h
    simp only [allList, Bool.and_eq_true]
    exact ⟨ih x y h1, mapRes_allList ih xs ys h2⟩

theorem decodeScalar_leafOk {kind : String} {dt : Bool} {j : Json} {v : GoVal}
    (hk : kind ≠ "any") (h : decodeScalar kind dt j = .ok v) : leafOk kind dt v = true := by
  unfold decodeScalar at h
  unfold leafOk
  repeat' split at h
  all_goals (first | (cases h; done) | skip)
  all_goals (try (injection h with h; subst h))
  all_goals simp_all

theorem decodeScalar_any {dt : Bool} {j : Json} {v : GoVal} :
    decodeScalar "any" dt j = .ok v →
    (match v with | .nil => true | .iface j => !j.isNull | _ => false) = true := by
  intro h
  unfold decodeScalar at h
  simp only [show ¬ ("any" = "string") by decide, show ¬ ("any" = "bool") by decide, if_false,
    if_true] at h
  split at h
  · cases h; rfl
  · split at h
    · cases h; cases j <;> simp_all [Json.isNull]
    · cases h

theorem wrapPtr_ok {nullable : Bool} {j : Json} {r : DRes GoVal} {v : GoVal} {ok : GoVal → Bool}
    (hr : ∀ x, r = .ok x → ok x = true) (h : wrapPtr nullable j r = .ok v) :
    ptrOk nullable ok v = true := by
  unfold wrapPtr at h
  cases nullable
  · simp only [Bool.false_eq_true, if_false] at h
    simp only [ptrOk, Bool.false_eq_true, if_false]; exact hr v h
  · simp only [if_true] at h
    split at h
    · cases h; rfl
    · obtain ⟨x, hx, rfl⟩ := DRes.map_ok h
      simp only [ptrOk, if_true]; exact hr x hx

/-- struct fields: whatever member is selected for a field, the decoded value sits under the
    field's key with the field's `omitempty` flag -/
theorem decodeFields_wt {dec : Ty → Json → DRes GoVal} {w : Ty → GoVal → Bool} {P : Ty → Bool}
    (ih : ∀ t j v, P t = true → dec t j = .ok v → w t v = true) (sel : Field → Json) :
    ∀ (fields : List Field) (fs : List (String × Bool × GoVal)),
      fields.all (fun f => P f.ty) = true →
      mapRes (fun (f : Field) => (dec f.ty (sel f)).map fun v => (f.name, !f.required, v)) fields
        = .ok fs →
      wtFields w fields fs = true
  | [], fs, _, h => by simp [mapRes] at h; subst h; rfl
  | f :: rest, fs, hp, h => by
    obtain ⟨y, ys, h1, h2, rfl⟩ := mapRes_ok_cons h
    obtain ⟨v, hv, rfl⟩ := DRes.map_ok h1
    simp only [List.all_cons, Bool.and_eq_true] at hp
    simp only [wtFields, Bool.and_eq_true, beq_self_eq_true, true_and]
    exact ⟨ih _ _ _ hp.1 hv, decodeFields_wt ih sel rest ys hp.2 h2⟩

/-! ### maps: `rset` keeps keys distinct -/

theorem mem_keys_rset {k k' : String} {v : GoVal} :
    ∀ {l : List (String × GoVal)}, k' ∈ keysOf (Cog.OMap.rset k v l) ↔ k' = k ∨ k' ∈ keysOf l
  | [] => by simp [Cog.OMap.rset, keysOf]
  | (k1, v1) :: t => by
    by_cases e : k1 = k
    · subst e; simp [Cog.OMap.rset, keysOf]
    · simp only [Cog.OMap.rset, e, if_false, keysOf, List.mem_cons, mem_keys_rset (l := t)]
      constructor
      · rintro (h | h | h)
        · exact Or.inr (Or.inl h)
        · exact Or.inl h
        · exact Or.inr (Or.inr h)
      · rintro (h | h | h)
        · exact Or.inr (Or.inl h)
        · exact Or.inl h
        · exact Or.inr (Or.inr h)

theorem nodup_keys_rset {k : String} {v : GoVal} :
    ∀ {l : List (String × GoVal)}, (keysOf l).Nodup → (keysOf (Cog.OMap.rset k v l)).Nodup
  | [], _ => by simp [Cog.OMap.rset, keysOf]
  | (k1, v1) :: t, h => by
    simp only [keysOf, List.nodup_cons] at h
    by_cases e : k1 = k
    · subst e; simp only [Cog.OMap.rset, if_true, keysOf, List.nodup_cons]; exact h
    · simp only [Cog.OMap.rset, e, if_false, keysOf, List.nodup_cons]
      refine ⟨?_, nodup_keys_rset h.2⟩
      intro c
      rcases mem_keys_rset.1 c with c | c
      · exact e c
      · exact h.1 c

theorem allVals_rset {p : GoVal → Bool} {k : String} {v : GoVal} (hv : p v = true) :
    ∀ {l : List (String × GoVal)}, allVals p l = true → allVals p (Cog.OMap.rset k v l) = true
  | [], _ => by simp [Cog.OMap.rset, allVals, hv]
  | (k1, v1) :: t, h => by
    simp only [allVals, Bool.and_eq_true] at h
    by_cases e : k1 = k
    · simp only [Cog.OMap.rset, e, if_true, allVals, Bool.and_eq_true]; exact ⟨hv, h.2⟩
    · simp only [Cog.OMap.rset, e, if_false, allVals, Bool.and_eq_true]
      exact ⟨h.1, allVals_rset hv h.2⟩

theorem foldl_rset_good {p : GoVal → Bool} :
    ∀ (l acc : List (String × GoVal)), allVals p l = true → (keysOf acc).Nodup →
      allVals p acc = true →
      (keysOf (l.foldl (fun acc kv => Cog.OMap.rset kv.1 kv.2 acc) acc)).Nodup ∧
        allVals p (l.foldl (fun acc kv => Cog.OMap.rset kv.1 kv.2 acc) acc) = true
  | [], acc, _, nd, ha => ⟨nd, ha⟩
  | (k, v) :: t, acc, hl, nd, ha => by
    simp only [allVals, Bool.and_eq_true] at hl
    simp only [List.foldl_cons]
    exact foldl_rset_good t _ hl.2 (nodup_keys_rset nd) (allVals_rset hl.1 ha)

theorem mapRes_allVals {f : Json → DRes GoVal} {p : GoVal → Bool}
    (ih : ∀ x y, f x = .ok y → p y = true) :
    ∀ (kvs : List (String × Json)) (l : List (String × GoVal)),
      mapRes (fun (kv : String × Json) => (f kv.2).map fun x => (kv.1, x)) kvs = .ok l →
      allVals p l = true
  | [], l, h => by simp [mapRes] at h; subst h; rfl
  | kv :: kvs, r, h => by
    obtain ⟨y, ys, h1, h2, rfl⟩ := mapRes_ok_cons h
    obtain ⟨x, hx, rfl⟩ := DRes.map_ok h1
    simp only [allVals, Bool.and_eq_true]
    exact ⟨ih _ _ hx, mapRes_allVals ih kvs ys h2⟩

/-! ### structs generated from disjunctions -/

def nonNull (t : Ty) : Ty := t.setMeta { t.getMeta with nullable := false }

theorem wtBranches_map {w : Ty → GoVal → Bool} (val : Field → GoVal) :
    ∀ (l : List Field), (∀ f, f ∈ l → w f.ty (val f) = true) →
      wtBranches w l (l.map fun f => (f.name, val f)) = true
  | [], _ => rfl
  | f :: rest, h => by
    simp only [List.map_cons, wtBranches, Bool.and_eq_true, beq_self_eq_true, true_and]
    exact ⟨h f (by simp), wtBranches_map val rest fun g hg => h g (List.mem_cons_of_mem _ hg)⟩

theorem liveBranches_nils : ∀ (l : List Field), liveBranches (l.map fun f => (f.name, GoVal.nil)) = 0
  | [] => rfl
  | f :: rest => by simp [liveBranches, isNil, liveBranches_nils rest]

theorem ite01_le (c : Prop) [Decidable c] : (if c then 0 else 1 : Nat) ≤ 1 := by
  split <;> omega

theorem liveBranches_select (n : String) (v : GoVal) :
    ∀ (l : List Field), (l.map (·.name)).Nodup →
      liveBranches (l.map fun f => (f.name, if f.name == n then GoVal.ptr v else .nil)) ≤ 1
  | [], _ => by simp [liveBranches]
  | f :: rest, nd => by
    simp only [List.map_cons, List.nodup_cons] at nd
    simp only [List.map_cons, liveBranches]
    by_cases e : (f.name == n) = true
    · have hn : ∀ g, g ∈ rest → (g.name == n) = false := fun g hg => by
        cases c : g.name == n with
        | false => rfl
        | true =>
          exfalso
          have e1 : f.name = n := by simpa using e
          have e2 : g.name = n := by simpa using c
          exact nd.1 (by rw [e1, ← e2]; exact List.mem_map_of_mem hg)
      have : liveBranches (rest.map fun g => (g.name, if g.name == n then GoVal.ptr v else .nil)) = 0 := by
        clear nd
        induction rest with
        | nil => rfl
        | cons g gs ihg =>
          have hg := hn g (by simp)
          simp only [List.map_cons, liveBranches, hg, Bool.false_eq_true, if_false, isNil, if_true]
          rw [ihg fun x hx => hn x (List.mem_cons_of_mem _ hx)]
      rw [this, e]; simp [isNil]
    · have := liveBranches_select n v rest nd.2
      have e' : (f.name == n) = false := by cases c : f.name == n <;> simp_all
      rw [e']
      simp only [Bool.false_eq_true, if_false, isNil, if_true]
      omega

theorem append_assoc_cons {α} (l : List α) (x : α) (r : List α) : l ++ [x] ++ r = l ++ x :: r := by
  simp

theorem decodeScalarUnion_wt {dec : Ty → Json → DRes GoVal} {w : Ty → GoVal → Bool}
    {P : Ty → Bool} {j : Json}
    (ih : ∀ t v, P t = true → dec t j = .ok v → w t v = true)
    (pset : ∀ t, P t = true → branchOk t = true → P (nonNull t) = true)
    (lift : ∀ t v, P t = true → branchOk t = true → w (nonNull t) v = true →
      w t (if t.isArray || t.isMap then v else .ptr v) = true)
    (nilok : ∀ t, P t = true → branchOk t = true → w t .nil = true) :
    ∀ (rest : List Field) (before bs : List (String × GoVal)),
      rest.all (fun f => P f.ty) = true → rest.all (fun f => branchOk f.ty) = true →
      decodeScalarUnionWith dec j rest before = .ok bs →
      ∃ mid, bs = before ++ mid ∧ wtBranches w rest mid = true ∧ liveBranches mid ≤ 1
  | [], _, _, _, _, h => by simp [decodeScalarUnionWith] at h
  | f :: rest, before, bs, hp, hb, h => by
    simp only [List.all_cons, Bool.and_eq_true] at hp hb
    simp only [decodeScalarUnionWith] at h
    have hnil : ∀ g, g ∈ rest → w g.ty .nil = true := fun g hg =>
      nilok g.ty ((List.all_eq_true.1 hp.2) g hg) ((List.all_eq_true.1 hb.2) g hg)
    cases hd : dec (f.ty.setMeta { f.ty.getMeta with nullable := false }) j with
    | ok v =>
      rw [hd] at h
      simp only [DRes.ok.injEq] at h
      refine ⟨(f.name, if f.ty.isArray || f.ty.isMap then v else .ptr v) ::
        rest.map fun g => (g.name, .nil), ?_, ?_, ?_⟩
      · rw [← h, append_assoc_cons]
      · simp only [wtBranches, Bool.and_eq_true, beq_self_eq_true, true_and]
        exact ⟨lift f.ty v hp.1 hb.1 (ih _ v (pset _ hp.1 hb.1) hd), wtBranches_map _ rest hnil⟩
      · simp only [liveBranches, liveBranches_nils]
        exact ite01_le _
    | err =>
      rw [hd] at h
      obtain ⟨mid, e, wm, lm⟩ := decodeScalarUnion_wt ih pset lift nilok rest _ bs hp.2 hb.2 h
      refine ⟨(f.name, .nil) :: mid, ?_, ?_, ?_⟩
      · rw [e, append_assoc_cons]
      · simp only [wtBranches, Bool.and_eq_true, beq_self_eq_true, true_and]
        exact ⟨nilok _ hp.1 hb.1, wm⟩
      · simp only [liveBranches, isNil, if_true]; omega
    | unsup w' => rw [hd] at h; cases h
    | fuel => rw [hd] at h; cases h

/-! ### one-step facts about `wt` at nullable / collection positions -/

theorem isStringIdx_classify {ss : Schemas} {idx v : Ty} {m : Meta} (h : isStringIdx idx = true) :
    classify ss (.map idx v m) = .map v := by
  unfold isStringIdx at h
  split at h
  · simp [classify]
  · cases h

theorem hasHint_nonNull (m : Meta) (h : String) :
    hasHint { m with nullable := false } h = hasHint m h := rfl


theorem refOk_locate {ss : Schemas} {p nm : String} {nullable : Bool}
    (h : refOk ss p nm nullable = true) :
    ∃ o, Schemas.locateObject ss p nm = some o ∧ refTyOk o.ty nullable = true := by
  unfold refOk at h
  cases hl : Schemas.locateObject ss p nm with
  | none => rw [hl] at h; cases h
  | some o => rw [hl] at h; exact ⟨o, rfl, h⟩

/-- under a nullable reference the classification is a pointer position -/
theorem classifyRef_nullable {oty : Ty} (h : refTyOk oty true = true) :
    (∃ fields, classifyRef oty true = .struct fields true ∧ classifyRef oty false = .struct fields false) ∨
    (∃ fields, classifyRef oty true = .union fields true ∧ classifyRef oty false = .union fields false) ∨
    (∃ k dt, classifyRef oty true = .leaf k dt true ∧ classifyRef oty false = .leaf k dt false) := by
  cases oty <;> simp [refTyOk] at h
  case struct fields g gi m =>
    cases gi
    · exact Or.inl ⟨fields, rfl, rfl⟩
    · exact Or.inr (Or.inl ⟨fields, rfl, rfl⟩)
  case enum vs m =>
    cases vs with
    | nil => simp at h
    | cons v0 rest => exact Or.inr (Or.inr ⟨v0.kind, false, rfl, rfl⟩)
  case scalar k v c m =>
    refine Or.inr (Or.inr ⟨k, hasHint m dtHint, ?_, ?_⟩) <;> simp [classifyRef, h.1, h.2]

/-- nil is a value of every nullable / collection position of the fragment -/
theorem wt_nil (n : Nat) (ss : Schemas) (t : Ty) (hp : posOk ss t = true) (hb : branchOk t = true) :
    wt (n + 1) ss t .nil = true := by
  unfold wt
  cases t <;> simp [branchOk] at hb
  case scalar k v c m =>
    simp only [posOk, bne_iff_ne, ne_eq] at hp
    simp [classify, hp, hb.1, hb.2, ptrOk]
  case array e m => simp [classify]
  case map idx v m =>
    simp only [posOk, Bool.and_eq_true] at hp
    simp [isStringIdx_classify hp.1]
  case ref p nm m =>
    simp only [posOk, hb] at hp
    obtain ⟨o, hl, ho⟩ := refOk_locate hp
    simp only [classify, hl, hb]
    rcases classifyRef_nullable ho with ⟨f, e, _⟩ | ⟨f, e, _⟩ | ⟨k, dt, e, _⟩ <;> simp [e, ptrOk]

theorem refTyOk_false_of_true {oty : Ty} (h : refTyOk oty true = true) : refTyOk oty false = true := by
  cases oty <;> simp_all [refTyOk]
  case enum vs m => cases vs <;> simp_all

theorem posOk_nonNull (ss : Schemas) (t : Ty) (hp : posOk ss t = true) (hb : branchOk t = true) :
    posOk ss (nonNull t) = true := by
  cases t <;> simp [branchOk] at hb
  case scalar k v c m => simpa [nonNull, Ty.setMeta, posOk] using hp
  case array e m => simpa [nonNull, Ty.setMeta, posOk] using hp
  case map idx v m => simpa [nonNull, Ty.setMeta, posOk] using hp
  case ref p nm m =>
    simp only [posOk, hb] at hp
    obtain ⟨o, hl, ho⟩ := refOk_locate hp
    simp only [nonNull, Ty.setMeta, Ty.getMeta, posOk, refOk, hl]
    exact refTyOk_false_of_true ho

/-- the value stored in a union branch (`&v`, or `v` itself for slices and maps) is a value of
    the branch's (nullable) type -/
theorem wt_lift (n : Nat) (ss : Schemas) (t : Ty) (v : GoVal) (hp : posOk ss t = true)
    (hb : branchOk t = true) (h : wt (n + 1) ss (nonNull t) v = true) :
    wt (n + 1) ss t (if t.isArray || t.isMap then v else .ptr v) = true := by
  unfold wt at h ⊢
  cases t <;> simp [branchOk] at hb
  case scalar k val c m =>
    simp only [posOk, bne_iff_ne, ne_eq] at hp
    simp only [nonNull, Ty.setMeta, Ty.getMeta, classify, hp, hb.1, if_false, hasHint_nonNull] at h ⊢
    simpa [Ty.isArray, Ty.isMap, ptrOk, hb.2] using h
  case array e m => simpa [nonNull, Ty.setMeta, Ty.isArray, classify] using h
  case map idx val m =>
    simp only [posOk, Bool.and_eq_true] at hp
    simp only [nonNull, Ty.setMeta, isStringIdx_classify hp.1] at h ⊢
    simpa [Ty.isArray, Ty.isMap] using h
  case ref p nm m =>
    simp only [posOk, hb] at hp
    obtain ⟨o, hl, ho⟩ := refOk_locate hp
    simp only [nonNull, Ty.setMeta, Ty.getMeta, classify, hl, hb] at h ⊢
    rcases classifyRef_nullable ho with ⟨f, e1, e2⟩ | ⟨f, e1, e2⟩ | ⟨k, dt, e1, e2⟩ <;>
      simp only [e1, e2] at h ⊢ <;> simpa [Ty.isArray, Ty.isMap, ptrOk] using h

/-- `&v` for a struct value `v` is a value of a nullable reference to that struct -/
theorem wt_ref_ptr (n : Nat) (ss : Schemas) (p nm : String) (m : Meta) (v : GoVal) (o : Obj)
    (hl : Schemas.locateObject ss p nm = some o) (hs : o.ty.isStruct = true)
    (hm : m.nullable = true) (h : wt (n + 1) ss (.ref p nm {}) v = true) :
    wt (n + 1) ss (.ref p nm m) (.ptr v) = true := by
  unfold wt at h ⊢
  simp only [classify, hl, hm] at h ⊢
  have ho : refTyOk o.ty true = true := by cases hot : o.ty <;> simp_all [Ty.isStruct, refTyOk]
  rcases classifyRef_nullable ho with ⟨f, e1, e2⟩ | ⟨f, e1, e2⟩ | ⟨k, dt, e1, e2⟩ <;>
    simp only [e1, e2] at h ⊢ <;> simpa [ptrOk] using h

/-! ### the bridge -/

theorem find?_field_mem {p : Field → Bool} {bf : Field} :
    ∀ {l : List Field}, l.find? p = some bf → bf ∈ l ∧ p bf = true
  | [], h => by simp at h
  | f :: rest, h => by
    simp only [List.find?_cons] at h
    cases hp : p f with
    | true => rw [hp] at h; cases h; exact ⟨by simp, hp⟩
    | false =>
      rw [hp] at h
      obtain ⟨h1, h2⟩ := find?_field_mem h
      exact ⟨List.mem_cons_of_mem _ h1, h2⟩

theorem field_eq_of_name_eq {f g : Field} :
    ∀ {l : List Field}, (l.map (·.name)).Nodup → f ∈ l → g ∈ l → f.name = g.name → f = g
  | [], _, hf, _, _ => by simp at hf
  | x :: rest, nd, hf, hg, e => by
    simp only [List.map_cons, List.nodup_cons] at nd
    cases List.mem_cons.1 hf with
    | inl ef =>
      cases List.mem_cons.1 hg with
      | inl eg => rw [ef, eg]
      | inr hg' =>
        exfalso; apply nd.1
        rw [← ef, e]; exact List.mem_map_of_mem hg'
    | inr hf' =>
      cases List.mem_cons.1 hg with
      | inl eg =>
        exfalso; apply nd.1
        rw [← eg, ← e]; exact List.mem_map_of_mem hf'
      | inr hg' => exact field_eq_of_name_eq nd.2 hf' hg' e

theorem goDecode_wt (ss : Schemas) (hs : schemasOk ss = true) :
    ∀ (fuel : Nat) (t : Ty) (j : Json) (v : GoVal), fposOk ss t = true →
      goDecode fuel ss t j = .ok v → wt (fuel + 1) ss t v = true
  | 0, _, _, _, _, h => by simp [goDecode] at h
  | fuel + 1, t, j, v, hp, h => by
    have ihf := goDecode_wt ss hs fuel
    have ih : ∀ (t : Ty) (j : Json) (v : GoVal), posOk ss t = true →
        goDecode fuel ss t j = .ok v → wt (fuel + 1) ss t v = true :=
      fun t j v hp h => ihf t j v (fposOk_of_posOk hp) h
    unfold wt
    cases t <;> simp only [fposOk, Bool.or_false, Bool.or_eq_true] at hp
    case scalar kind value cs m =>
      simp only [posOk, bne_iff_ne, ne_eq] at hp
      simp only [goDecode, hp, if_false] at h
      simp only [classify, hp, if_false]
      by_cases hk : kind = "any"
      · subst hk
        simp only [if_true] at h ⊢
        exact decodeScalar_any h
      · simp only [hk, if_false] at h ⊢
        exact wrapPtr_ok (fun x hx => decodeScalar_leafOk hk hx) h
    case array e m =>
      simp only [posOk] at hp
      simp only [classify]
      cases hbe : isByteElem e
      · cases j <;> simp only [goDecode, hbe, Bool.false_eq_true, if_false] at h
        case null => cases h; rfl
        case arr xs =>
          obtain ⟨l, hl, rfl⟩ := DRes.map_ok h
          exact mapRes_allList (fun x y hxy => ih e x y hp hxy) xs l hl
        all_goals cases h
      · simp only [goDecode, hbe, if_true] at h
        cases h
    case map idx val m =>
      simp only [posOk, Bool.and_eq_true] at hp
      rw [isStringIdx_classify hp.1]
      have hidx := hp.1
      unfold isStringIdx at hidx
      split at hidx
      · cases j <;> simp only [goDecode] at h
        case null => cases h; rfl
        case obj kvs =>
          obtain ⟨l, hl, rfl⟩ := DRes.map_ok h
          have hv := mapRes_allVals (fun x y hxy => ih val x y hp.2 hxy) kvs l hl
          have := foldl_rset_good l [] hv (by simp [keysOf]) rfl
          simp only [Bool.and_eq_true]
          exact ⟨(nodupKeys_iff _).2 this.1, this.2⟩
        all_goals cases h
      · cases hidx
    case ref pkg name m =>
      rcases hp with hp | hc
      case inr =>
        -- `*Alias`: decoded like the alias itself
        simp only [collPtrOk, Bool.and_eq_true] at hc
        obtain ⟨hm, hc⟩ := hc
        cases hl : Schemas.locateObject ss pkg name with
        | none => rw [hl] at hc; cases hc
        | some o =>
          simp only [hl] at hc
          have hobj := objOk_of_locate hs hl
          unfold objOk at hobj
          simp only [goDecode, hl] at h
          simp only [classify, hl]
          cases hot : o.ty <;> rw [hot] at h hobj hc <;> simp [Ty.isArray, Ty.isMap] at hc
          case array e om =>
            simp only [classifyRef, hm, if_true]
            exact ih _ j v hobj h
          case map idx val om =>
            simp only [classifyRef, hm, if_true]
            exact ih _ j v hobj h
      simp only [posOk] at hp
      obtain ⟨o, hl, ho⟩ := refOk_locate hp
      have hobj := objOk_of_locate hs hl
      unfold objOk at hobj
      simp only [goDecode, hl] at h
      simp only [classify, hl]
      cases hot : o.ty <;> rw [hot] at h ho hobj <;> simp only [refTyOk] at ho <;>
        (try (cases ho; done))
      case struct fields gen gi om =>
        cases gi with
        | none =>
          simp only [Bool.and_eq_true] at hobj
          simp only [classifyRef]
          refine wrapPtr_ok (fun x hx => ?_) h
          have key : ∀ members (y : GoVal), (decodeFieldsWith (goDecode fuel ss) fields members).map GoVal.struct = .ok y →
              (match y with
               | .struct fs => nodupKeys (fields.map (·.name)) && wtFields (wt (fuel + 1) ss) fields fs
               | _ => false) = true := by
            intro members y hm
            obtain ⟨fs, hfs, rfl⟩ := DRes.map_ok hm
            simp only [Bool.and_eq_true]
            exact ⟨hobj.1, decodeFields_wt (P := fposOk ss) (fun t j v hP hd => ihf t j v hP hd) _ fields fs hobj.2 hfs⟩
          cases j <;> simp only [] at hx
          case null => exact key _ x hx
          case obj members => exact key _ x hx
          all_goals cases hx
        | some hi =>
          obtain ⟨hint, info⟩ := hi
          simp only [Bool.and_eq_true, Bool.or_eq_true, beq_iff_eq] at hobj
          obtain ⟨⟨⟨hnd, hpos⟩, hbr⟩, hkind⟩ := hobj
          simp only [classifyRef]
          have nilok : ∀ f, f ∈ fields → wt (fuel + 1) ss f.ty .nil = true := fun f hf =>
            wt_nil fuel ss f.ty ((List.all_eq_true.1 hpos) f hf) ((List.all_eq_true.1 hbr) f hf)
          have allnil : (match GoVal.union (fields.map fun f => (f.name, GoVal.nil)) with
              | .union bs => wtBranches (wt (fuel + 1) ss) fields bs && decide (liveBranches bs ≤ 1)
              | _ => false) = true := by
            simp only [Bool.and_eq_true, decide_eq_true_eq]
            exact ⟨wtBranches_map (fun _ => GoVal.nil) fields nilok, by rw [liveBranches_nils]; omega⟩
          refine wrapPtr_ok (fun x hx => ?_) h
          by_cases hh : hint = "disjunction_of_scalars"
          · simp only [hh, if_true] at hx
            obtain ⟨bs, hbs, rfl⟩ := DRes.map_ok hx
            obtain ⟨mid, e, wm, lm⟩ := decodeScalarUnion_wt (P := posOk ss) (w := wt (fuel + 1) ss)
              (fun t v hP hd => ih t j v hP hd) (posOk_nonNull ss) (wt_lift fuel ss)
              (wt_nil fuel ss) fields [] bs hpos hbr hbs
            simp only [List.nil_append] at e
            subst e
            simp only [Bool.and_eq_true, decide_eq_true_eq]
            exact ⟨wm, lm⟩
          · simp only [hh, if_false] at hx
            have hrefs := hkind.resolve_left hh
            cases j <;> simp only [] at hx
            case null => cases hx; exact allnil
            case obj members =>
              split at hx
              · cases hx; exact allnil
              · split at hx
                · cases hx; exact allnil
                · rename_i tn _
                  split at hx
                  · cases hx
                  · rename_i bf hbf
                    obtain ⟨v', hv', rfl⟩ := DRes.map_ok hx
                    obtain ⟨hmem, hty⟩ := find?_field_mem hbf
                    have hrb := (List.all_eq_true.1 hrefs) bf hmem
                    have hbb := (List.all_eq_true.1 hbr) bf hmem
                    cases hbt : bf.ty <;> rw [hbt] at hty hrb hbb <;> simp only [] at hty <;>
                      (try (cases hty; done))
                    case ref p' n' m' =>
                      have en : n' = tn := by simpa using hty
                      subst en
                      simp only [refsBranchOk, Bool.and_eq_true, beq_iff_eq] at hrb
                      simp only [branchOk] at hbb
                      obtain ⟨ep, htarget⟩ := hrb
                      subst ep
                      cases hlt : Schemas.locateObject ss p' n' with
                      | none => rw [hlt] at htarget; cases htarget
                      | some o' =>
                        rw [hlt] at htarget
                        simp only [] at htarget
                        have hpr : posOk ss (.ref p' n' {}) = true := by
                          simp only [posOk, refOk, hlt]
                          cases hot' : o'.ty <;> simp_all [Ty.isStruct, refTyOk]
                        have hv := ih _ _ v' hpr hv'
                        have hptr := wt_ref_ptr fuel ss p' n' m' v' o' hlt htarget hbb hv
                        simp only [Bool.and_eq_true, decide_eq_true_eq]
                        refine ⟨wtBranches_map _ fields fun f hf => ?_, liveBranches_select _ _ fields ((nodupKeys_iff _).1 hnd)⟩
                        by_cases hfn : (f.name == bf.name) = true
                        · have : f = bf :=
                            field_eq_of_name_eq ((nodupKeys_iff _).1 hnd) hf hmem (by simpa using hfn)
                          subst this
                          simp only [hfn, if_true]; rw [hbt]; exact hptr
                        · simp only [hfn]; exact nilok f hf
            all_goals cases hx
      case enum vs om =>
        cases vs with
        | nil => simp at ho
        | cons v0 rest =>
          simp only [bne_iff_ne, ne_eq] at ho
          simp only [classifyRef]
          exact wrapPtr_ok (fun x hx => decodeScalar_leafOk ho hx) h
      case scalar kind val cs om =>
        simp only [Bool.and_eq_true, bne_iff_ne, ne_eq] at ho
        simp only [ho.1, if_false] at h
        simp only [classifyRef, ho.1, ho.2, if_false]
        exact wrapPtr_ok (fun x hx => decodeScalar_leafOk ho.2 hx) h
      case array e om =>
        simp only [Bool.not_eq_true'] at ho
        simp only [classifyRef, ho, Bool.false_eq_true, if_false]
        exact ih _ j v hobj h
      case map idx val om =>
        simp only [Bool.not_eq_true'] at ho
        simp only [classifyRef, ho, Bool.false_eq_true, if_false]
        exact ih _ j v hobj h
    case cref pkg name val m =>
      simp only [posOk] at hp
      simp only [goDecode] at h
      simp only [classify]
      exact ih _ j v (by simpa [posOk] using hp) h
    all_goals simp [posOk] at hp

end Cog.Sem.GoEq
