/-
  C02 — a type checker for the `GoDecl` fragment (core Lean only).

  `wellTyped env` decides, for the declarations of every generated package:
    * every referenced type name is declared as a type (in the package the Go compiler resolves it in);
    * every literal is assignable to the type it initialises, given the dynamic Go type the value had
      in the IR (untyped constant representability, identical types, `nil`, interfaces);
    * package-level identifiers and struct field names are valid Go identifiers and unique;
    * none of cog's placeholders (`unknown`, `unhandled type def kind`, `unsupported default value case`),
      no printer crash.
  It is NOT the Go type checker: recursive value types, comparability of map keys, method sets and the
  import block are outside (the labs run the real compiler on the same declarations).
-/
import Cog.Sem.GoDecl
namespace Cog.Sem.GoDecl

/-! ## identifiers -/

def goKeywords : List String :=
  ["break", "case", "chan", "const", "continue", "default", "defer", "else", "fallthrough", "for", "func", "go",
   "goto", "if", "import", "interface", "map", "package", "range", "return", "select", "struct", "switch", "type", "var"]

def isIdentStart (c : Char) : Bool := c.isAlpha || c == '_'
def isIdentChar (c : Char) : Bool := c.isAlphanum || c == '_'

def validIdent (s : String) : Bool :=
  match s.toList with
  | [] => false
  | c :: cs => isIdentStart c && cs.all isIdentChar && !goKeywords.contains s

def nodupB (l : List String) : Bool := decide l.Nodup

def declIdents : GoDecl → List String
  | .typeDef n _ | .alias n _ | .const n _ | .ctor n _ _ => [n]
  | .enumDef n _ ms => n :: ms.map (·.1)
  | .placeholder _ | .crash _ => []

def declsIdents : List GoDecl → List String
  | [] => []
  | d :: ds => declIdents d ++ declsIdents ds

def namesOk (ds : List GoDecl) : Bool := (declsIdents ds).all validIdent && nodupB (declsIdents ds)

/-! ## environment lookups -/

def declTypeName : GoDecl → Option String
  | .typeDef n _ | .alias n _ | .enumDef n _ _ => some n
  | _ => none

/-- the first declaration satisfying `P` -/
def findDecl (P : GoDecl → Bool) : List GoDecl → Option GoDecl
  | [] => none
  | d :: ds => if P d then some d else findDecl P ds

def declaresType (n : String) (d : GoDecl) : Bool := declTypeName d == some n
def findType (n : String) (ds : List GoDecl) : Option GoDecl := findDecl (declaresType n) ds

def pkgDecls (p : String) : Env → List GoDecl
  | [] => []
  | (q, ds) :: rest => if q == p then ds else pkgDecls p rest

def lookupType (env : Env) (p n : String) : Option GoDecl := findType n (pkgDecls p env)

def isCtorNamed (n : String) : GoDecl → Bool
  | .ctor m _ _ => m == n
  | _ => false

def findCtor (n : String) (ds : List GoDecl) : Option String :=
  match findDecl (isCtorNamed n) ds with
  | some (.ctor _ r _) => some r
  | _ => none

/-- what a package-level value identifier denotes -/
inductive ValueDecl where
  | constant (v : GoExpr)
  | member (enumName : String)

def declaresValue (n : String) : GoDecl → Bool
  | .const m _ => m == n
  | .enumDef _ _ ms => ms.any (·.1 == n)
  | _ => false

def findValue (n : String) (ds : List GoDecl) : Option ValueDecl :=
  match findDecl (declaresValue n) ds with
  | some (.const _ v) => some (.constant v)
  | some (.enumDef e _ _) => some (.member e)
  | _ => none

/-- packages provided by the generated runtime (not part of the declaration fragment) -/
def externalPkgs : List String := ["variants", "cog"]

/-! ## types -/

def knownPrims : List String :=
  ["bool", "string", "int8", "int16", "int32", "int64", "uint8", "uint16", "uint32", "uint64",
   "float32", "float64", "any", "interface{}", "time.Time", "[]byte"]

def fieldIdent (f : GoField) : String :=
  if f.embedded then
    (match f.ty with
      | .named _ n => n
      | .ptr (.named _ n) => n
      | _ => "")
  else f.name

def fieldIdents : List GoField → List String
  | [] => []
  | f :: fs => fieldIdent f :: fieldIdents fs

def embedShapeOk (f : GoField) : Bool :=
  if f.embedded then
    (match f.ty with
      | .named .. => true
      | .ptr (.named ..) => true
      | _ => false)
  else true

def embedsOk : List GoField → Bool
  | [] => true
  | f :: fs => embedShapeOk f && embedsOk fs

mutual
def typeOk (env : Env) : GoTy → Bool
  | .prim n => knownPrims.contains n
  | .named p n => externalPkgs.contains p || (lookupType env p n).isSome
  | .ptr t => typeOk env t
  | .slice t => typeOk env t
  | .map k v => typeOk env k && typeOk env v
  | .struct fs => (fieldIdents fs).all validIdent && nodupB (fieldIdents fs) && embedsOk fs && fieldsOk env fs
  | .placeholder _ => false
  | .crash _ => false
def fieldsOk (env : Env) : List GoField → Bool
  | [] => true
  | f :: fs => typeOk env f.ty && fieldsOk env fs
end

/-- alias chain at the head of a named type -/
def headAlias (env : Env) : Nat → String → String → GoTy
  | 0, p, n => .named p n
  | fuel + 1, p, n =>
    match lookupType env p n with
    | some (.alias _ (.named p' n')) => headAlias env fuel p' n'
    | some (.alias _ t) => t
    | _ => .named p n

/-- aliases expanded at the head and below pointers, slices and maps (identity of types) -/
def norm (env : Env) (fuel : Nat) : GoTy → GoTy
  | .prim n => if n == "any" then .prim "interface{}" else .prim n     -- `any` is an alias of `interface{}`
  | .named p n => headAlias env fuel p n
  | .ptr t => .ptr (norm env fuel t)
  | .slice t => .slice (norm env fuel t)
  | .map k v => .map (norm env fuel k) (norm env fuel v)
  | t => t

/-- underlying type -/
def under (env : Env) : Nat → GoTy → Option GoTy
  | 0, _ => none
  | fuel + 1, .named p n =>
    if externalPkgs.contains p then some (.named p n) else
    match lookupType env p n with
    | some (.typeDef _ t) => under env fuel t
    | some (.alias _ t) => under env fuel t
    | some (.enumDef _ u _) => under env fuel u
    | _ => none
  | _, t => some t

mutual
def GoTy.beq : GoTy → GoTy → Bool
  | .prim a, .prim b => a == b
  | .named p n, .named p' n' => p == p' && n == n'
  | .ptr a, .ptr b => GoTy.beq a b
  | .slice a, .slice b => GoTy.beq a b
  | .map k v, .map k' v' => GoTy.beq k k' && GoTy.beq v v'
  | .struct fs, .struct fs' => GoTy.beqFields fs fs'
  | .placeholder a, .placeholder b => a == b
  | .crash a, .crash b => a == b
  | _, _ => false
def GoTy.beqFields : List GoField → List GoField → Bool
  | [], [] => true
  | f :: fs, g :: gs =>
    f.name == g.name && f.jsonName == g.jsonName && f.omitEmpty == g.omitEmpty && f.embedded == g.embedded
      && GoTy.beq f.ty g.ty && GoTy.beqFields fs gs
  | _, _ => false
end

def isNamed : GoTy → Bool | .named .. => true | _ => false
def isIface : GoTy → Bool
  | .prim n => n == "any" || n == "interface{}"
  | _ => false

/-! ## untyped constants -/

def intRange (kind : String) : Option (Int × Int) :=
  match kind with
  | "int8" => some (-128, 127) | "int16" => some (-32768, 32767)
  | "int32" => some (-2147483648, 2147483647) | "int64" => some (-9223372036854775808, 9223372036854775807)
  | "uint8" => some (0, 255) | "uint16" => some (0, 65535) | "uint32" => some (0, 4294967295)
  | "uint64" => some (0, 18446744073709551615)
  | _ => none

def isFloatKind (k : String) : Bool := k == "float32" || k == "float64"

def digitsNat : List Char → Option Nat
  | [] => none
  | cs => if cs.all Char.isDigit then some (cs.foldl (fun a c => a * 10 + (c.toNat - 48)) 0) else none

/-- a strconv 'g' text as `mantissa × 10^exp` (none: NaN, ±Inf, anything else) -/
def parseDec (s : String) : Option (Int × Int) :=
  let cs := s.toList
  let (neg, cs) := match cs with
    | '-' :: r => (true, r)
    | '+' :: r => (false, r)
    | _ => (false, cs)
  let (mant, ex) := (cs.takeWhile (fun c => c != 'e' && c != 'E'), (cs.dropWhile (fun c => c != 'e' && c != 'E')).drop 1)
  let (ip, fp) := (mant.takeWhile (· != '.'), (mant.dropWhile (· != '.')).drop 1)
  match digitsNat (ip ++ fp) with
  | none => none
  | some m =>
    let e : Option Int :=
      match ex with
      | [] => some 0
      | '-' :: r => (digitsNat r).map fun n => - (Int.ofNat n)
      | '+' :: r => (digitsNat r).map Int.ofNat
      | r => (digitsNat r).map Int.ofNat
    match e with
    | none => none
    | some e => some ((if neg then - (Int.ofNat m) else Int.ofNat m), e - Int.ofNat fp.length)

/-- the integer a float text denotes, if it denotes one -/
def decAsInt (s : String) : Option Int :=
  match parseDec s with
  | none => none
  | some (m, e) =>
    if e ≥ 0 then some (m * (10 : Int) ^ e.toNat)
    else
      let d : Int := (10 : Int) ^ (-e).toNat
      if m % d == 0 then some (m / d) else none

/-- the static type of an expression -/
inductive ETy where
  | unil | ubool | uint (n : Int) | ufloat (repr : String) | ustr
  | typed (t : GoTy)
  | bad (why : String)
  deriving Inhabited

def untypedFits (u : GoTy) : ETy → Bool
  | .unil =>
    (match u with
      | .ptr _ | .slice _ | .map .. => true
      | .prim n => n == "[]byte" || n == "any" || n == "interface{}"
      | _ => false)
  | .ubool => (match u with | .prim n => n == "bool" || n == "any" || n == "interface{}" | _ => false)
  | .ustr => (match u with | .prim n => n == "string" || n == "any" || n == "interface{}" | _ => false)
  | .uint n =>
    (match u with
      | .prim k =>
        k == "any" || k == "interface{}" || isFloatKind k ||
        (match intRange k with | some (lo, hi) => lo ≤ n && n ≤ hi | none => false)
      | _ => false)
  | .ufloat r =>
    (match u with
      | .prim k =>
        ((k == "any" || k == "interface{}" || isFloatKind k) && (parseDec r).isSome) ||
        (match intRange k, decAsInt r with | some (lo, hi), some n => lo ≤ n && n ≤ hi | _, _ => false)
      | _ => false)
  | _ => false

def optBeq : Option GoTy → Option GoTy → Bool
  | some a, some b => GoTy.beq a b
  | _, _ => false

/-- Go assignability of a value of static type `et` to a variable of type `target` -/
def assignable (env : Env) (fuel : Nat) (et : ETy) (target : GoTy) : Bool :=
  let tn := norm env fuel target
  match et with
  | .bad _ => false
  | .typed t =>
    let t' := norm env fuel t
    GoTy.beq t' tn ||
      (match under env fuel tn with
        | some u => isIface u || ((!isNamed t' || !isNamed tn) && optBeq (under env fuel t') (some u))
        | none => false)
  | e =>
    (match under env fuel tn with
      | some u => untypedFits u e
      | none => false)

def findGoField (n : String) : List GoField → Option GoField
  | [] => none
  | f :: fs => if !f.embedded && f.name == n then some f else findGoField n fs

def litETy : GoExpr → Option ETy
  | .bool _ => some .ubool
  | .int n _ => some (.uint n)
  | .float r => some (.ufloat r)
  | .str _ => some .ustr
  | _ => none

mutual
def exprTy (env : Env) (fuel : Nat) : GoExpr → ETy
  | .nil => .unil
  | .bool _ => .ubool
  | .int n _ => .uint n
  | .float r => .ufloat r
  | .str _ => .ustr
  | .sliceLit t xs =>
    if typeOk env t && exprsFit env fuel t xs then .typed (.slice t) else .bad "slice literal"
  | .mapLit k v kvs =>
    if typeOk env k && typeOk env v && kvsFit env fuel v kvs then .typed (.map k v) else .bad "map literal"
  | .ident p n =>
    (match findValue n (pkgDecls p env) with
      | some (.constant v) => (match litETy v with | some t => t | none => .bad "constant is not a literal")
      | some (.member e) => .typed (.named p e)
      | none => .bad ("undefined: " ++ n))
  | .call p f =>
    (match findCtor f (pkgDecls p env) with
      | some r => .typed (.ptr (.named p r))
      | none => .bad ("undefined: " ++ f))
  | .deref e =>
    (match exprTy env fuel e with
      | .typed (.ptr t) => .typed t
      | _ => .bad "deref of a non-pointer")
  | .addr e =>
    (match exprTy env fuel e with
      | .typed t => .typed (.ptr t)
      | _ => .bad "address of an untyped value")
  | .toPtr t e =>
    if typeOk env t && assignable env fuel (exprTy env fuel e) t then .typed (.ptr t) else .bad "pointer helper argument"
  | .composite t fs =>
    (match under env fuel (norm env fuel t) with
      | some (.struct sfs) =>
        if isNamed t && nodupB (fs.map (·.1)) && fieldsFit env fuel sfs fs then .typed t else .bad "struct literal"
      | _ => .bad "composite literal of a non-struct type")
  | .raw _ => .bad "raw text"
  | .placeholder _ => .bad "placeholder"
  | .crash _ => .bad "crash"
def exprsFit (env : Env) (fuel : Nat) (t : GoTy) : List GoExpr → Bool
  | [] => true
  | e :: es => assignable env fuel (exprTy env fuel e) t && exprsFit env fuel t es
def kvsFit (env : Env) (fuel : Nat) (t : GoTy) : List (String × GoExpr) → Bool
  | [] => true
  | (_, e) :: es => assignable env fuel (exprTy env fuel e) t && kvsFit env fuel t es
def fieldsFit (env : Env) (fuel : Nat) (sfs : List GoField) : List (String × GoExpr) → Bool
  | [] => true
  | (k, e) :: es =>
    (match findGoField k sfs with
      | some f => assignable env fuel (exprTy env fuel e) f.ty
      | none => false) && fieldsFit env fuel sfs es
end

/-! ## declarations -/

def membersOk (env : Env) (fuel : Nat) (u : GoTy) : List (String × GoExpr) → Bool
  | [] => true
  | (_, v) :: ms => (litETy v).isSome && assignable env fuel (exprTy env fuel v) u && membersOk env fuel u ms

def declOk (env : Env) (fuel : Nat) (pkg : String) : GoDecl → Bool
  | .typeDef _ t => typeOk env t
  | .alias _ t => typeOk env t
  | .const _ v => (litETy v).isSome
  | .enumDef _ u ms => typeOk env u && !ms.isEmpty && membersOk env fuel u ms
  | .ctor _ r body => assignable env fuel (exprTy env fuel body) (.ptr (.named pkg r))
  | .placeholder _ => false
  | .crash _ => false

def declsOk (env : Env) (fuel : Nat) (pkg : String) : List GoDecl → Bool
  | [] => true
  | d :: ds => declOk env fuel pkg d && declsOk env fuel pkg ds

def envDeclCount : Env → Nat
  | [] => 0
  | (_, ds) :: rest => ds.length + envDeclCount rest

def pkgsOk (full : Env) (fuel : Nat) : Env → Bool
  | [] => true
  | (p, ds) :: rest => namesOk ds && declsOk full fuel p ds && pkgsOk full fuel rest

/-- the checker -/
def checkFuel (env : Env) : Nat := envDeclCount env + 3

def wellTyped (env : Env) : Bool := pkgsOk env (checkFuel env) env

/-! ## diagnosis (driver side: names the first offending declaration) -/

def declName : GoDecl → String
  | .typeDef n _ | .alias n _ | .const n _ | .enumDef n _ _ | .ctor n _ _ => n
  | .placeholder t => "<" ++ t ++ ">"
  | .crash s => "<crash " ++ s ++ ">"

/-! ## recursive value types (driver side; NOT part of `wellTyped`, no theorem covers it)

`type D struct { A D }` is rejected by Go (`invalid recursive type`).  The check follows containment by
value — struct fields and embedded types, named types through their declarations, not pointers,
slices or maps — with a fuel of one more than the number of declarations: running out of fuel means
some by-value cycle is reachable. -/

mutual
def containsByValue (env : Env) : Nat → String → String → GoTy → Bool
  | 0, _, _, _ => true
  | fuel + 1, tp, tn, .named p n =>
    (p == tp && n == tn) ||
      (match lookupType env p n with
        | some (.typeDef _ t) => containsByValue env fuel tp tn t
        | some (.alias _ t) => containsByValue env fuel tp tn t
        | _ => false)
  | fuel + 1, tp, tn, .struct fs => fieldsContainByValue env fuel tp tn fs
  | _, _, _, _ => false
def fieldsContainByValue (env : Env) : Nat → String → String → List GoField → Bool
  | _, _, _, [] => false
  | fuel, tp, tn, f :: fs => containsByValue env fuel tp tn f.ty || fieldsContainByValue env fuel tp tn fs
end

def recursiveDecl (env : Env) (pkg : String) : List GoDecl → Option String
  | [] => none
  | d :: ds =>
    let hit := match d with
      | .typeDef n t => containsByValue env (2 * envDeclCount env + 2) pkg n t
      | .alias n t => containsByValue env (2 * envDeclCount env + 2) pkg n t
      | _ => false
    if hit then some (declName d) else recursiveDecl env pkg ds

def firstDup : List String → Option String
  | [] => none
  | x :: xs => if xs.contains x then some x else firstDup xs

def diagnoseDecls (env : Env) (fuel : Nat) (pkg : String) : List GoDecl → Option String
  | [] => none
  | d :: ds =>
    if declOk env fuel pkg d then diagnoseDecls env fuel pkg ds
    else
      let why := match d with
        | .placeholder t => "placeholder:" ++ t
        | .crash s => "crash:" ++ s
        | .ctor _ _ b =>
          (match declPlaceholders d with
            | t :: _ => "placeholder:" ++ t
            | [] => (match exprTy env fuel b with | .bad w => "literal:" ++ w | _ => "literal:not-assignable"))
        | .const .. => "constant"
        | .enumDef .. => "enum"
        | _ => (match declPlaceholders d with | t :: _ => "placeholder:" ++ t | [] => "type")
      some (declName d ++ ":" ++ why)

def diagnosePkg (env : Env) (pkg : String) : Option String :=
  let ds := pkgDecls pkg env
  let fuel := checkFuel env
  match (declsIdents ds).find? (fun s => !validIdent s) with
  | some bad => some ("<ident>:invalid-identifier:" ++ bad)
  | none =>
    match firstDup (declsIdents ds) with
    | some dup => some (dup ++ ":redeclared")
    | none => diagnoseDecls env fuel pkg ds

end Cog.Sem.GoDecl
