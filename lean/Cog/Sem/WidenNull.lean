/-
  C01 (c) pass widening — first extension of the fragment: two-branch `T | null` disjunctions
  (`PlainN`, `nrTy`; Cog/Sem/SrcDen.lean).

  * AnonymousStructsToNamed is the identity on `PlainN`;
  * NotRequiredFieldAsNullableType keeps `PlainN` (its widening step is `nr_widenN`, WidenOpt.lean);
  * DisjunctionWithNullToOptional: exact result `nullOptS` (the pair becomes the nullable `T`), the
    output is `PlainE` (no disjunction left), and `xden false` is preserved with ONE more unit of fuel (the removed
    disjunction node consumed one; `xden_mono`).
-/
import Cog.Sem.WidenDen
import Cog.Sem.WidenMono
namespace Cog.Sem.Src
open Cog.IR Cog.Passes
open NotRequiredFieldAsNullableType (vTy vFields fixField)

/-! ### branches of a pair are plain -/

theorem isNull_plain (t : Ty) (h : isNull t = true) : plainTy t = true := by
  cases t <;> simp [isNull] at h <;> rfl

theorem nullPair_branches {bs : List Ty} (h : nullPair bs = true) : ∀ b ∈ bs, plainTy b = true := by
  obtain ⟨t, ht, hpt⟩ := nullPair_spec h
  obtain ⟨a, b, hbs, hc⟩ := nullPairOf_cases ht
  subst hbs
  intro x hx
  simp only [List.mem_cons, List.not_mem_nil, or_false] at hx
  rcases hc with ⟨ha, _, hta⟩ | ⟨hb, _, hta⟩ <;> subst hta <;> rcases hx with rfl | rfl
  · exact isNull_plain _ ha
  · exact hpt
  · exact hpt
  · exact isNull_plain _ hb

/-! ### AnonymousStructsToNamed is the identity on `PlainN` -/

theorem ASN_processList_id (pkg parent : String) : ∀ (bs : List Ty) (acc : List Obj),
    (∀ b ∈ bs, plainTy b = true) → AnonymousStructsToNamed.processList pkg parent bs acc = (bs, acc)
  | [], _, _ => by simp [AnonymousStructsToNamed.processList]
  | b :: bs, acc, h => by
    simp [AnonymousStructsToNamed.processList,
      ASN_processType_plain pkg parent acc b (h b (List.mem_cons_self ..)),
      ASN_processList_id pkg parent bs acc (fun x hx => h x (List.mem_cons_of_mem _ hx))]

theorem ASN_processType_nr (pkg parent : String) (acc : List Obj) : ∀ t : Ty, nrTy t = true →
    AnonymousStructsToNamed.processType pkg parent t acc = (t, acc)
  | .scalar .., _ => by simp [AnonymousStructsToNamed.processType]
  | .ref .., _ => by simp [AnonymousStructsToNamed.processType]
  | .array e m, h => by
    simp only [nrTy] at h
    simp [AnonymousStructsToNamed.processType, ASN_processType_nr pkg parent acc e h]
  | .map i v m, h => by
    simp only [nrTy, Bool.and_eq_true] at h
    have hi : AnonymousStructsToNamed.processType pkg parent i acc = (i, acc) := by
      cases i <;> simp [Ty.isScalar] at h <;> simp [AnonymousStructsToNamed.processType]
    simp [AnonymousStructsToNamed.processType, hi, ASN_processType_nr pkg parent acc v h.2]
  | .disj bs info m, h => by
    simp only [nrTy] at h
    simp [AnonymousStructsToNamed.processType, ASN_processList_id pkg parent bs acc (nullPair_branches h)]
  | .cref .., h => by simp [nrTy] at h
  | .struct .., h => by simp [nrTy] at h
  | .enum .., _ => by simp [AnonymousStructsToNamed.processType]
  | .inter .., h => by simp [nrTy] at h
  | .slot .., h => by simp [nrTy] at h
  | .bad .., h => by simp [nrTy] at h

theorem ASN_processFields_nr (pkg parent : String) (acc : List Obj) : ∀ fs : List Field,
    (fs.all fun f => nrTy f.ty) = true → AnonymousStructsToNamed.processFields pkg parent fs acc = (fs, acc)
  | [], _ => by simp [AnonymousStructsToNamed.processFields]
  | f :: fs, h => by
    simp only [List.all_cons, Bool.and_eq_true] at h
    simp [AnonymousStructsToNamed.processFields, ASN_processType_nr pkg _ acc f.ty h.1,
      ASN_processFields_nr pkg parent acc fs h.2]

theorem ASN_processObject_nr (o : Obj) (acc : List Obj) (h : nrObjTy o.ty = true) :
    AnonymousStructsToNamed.processObject o acc = (o, acc) := by
  obtain ⟨name, comments, ty, selfPkg, selfName⟩ := o
  simp only at h
  cases ty with
  | struct fs g gi m =>
    cases gi with
    | none =>
      simp only [nrObjTy] at h
      simp [AnonymousStructsToNamed.processObject, ASN_processFields_nr _ _ acc fs h]
    | some x => simp [nrObjTy] at h
  | enum vs m => simp [AnonymousStructsToNamed.processObject]
  | scalar k v c m => simp [AnonymousStructsToNamed.processObject]
  | ref p nm m => simp [AnonymousStructsToNamed.processObject]
  | array e m =>
    have := ASN_processType_nr selfPkg (ucc selfPkg ++ ucc name) acc (.array e m) (by simpa [nrObjTy] using h)
    simp [AnonymousStructsToNamed.processObject, this]
  | map i v m =>
    have := ASN_processType_nr selfPkg (ucc selfPkg ++ ucc name) acc (.map i v m) (by simpa [nrObjTy] using h)
    simp [AnonymousStructsToNamed.processObject, this]
  | disj bs info m =>
    have := ASN_processType_nr selfPkg (ucc selfPkg ++ ucc name) acc (.disj bs info m) (by simpa [nrObjTy] using h)
    simp [AnonymousStructsToNamed.processObject, this]
  | cref _ _ _ _ => simp [nrObjTy, nrTy] at h
  | inter _ _ => simp [nrObjTy, nrTy] at h
  | slot _ _ => simp [nrObjTy, nrTy] at h
  | bad _ _ => simp [nrObjTy, nrTy] at h

theorem ASN_processObjects_nr : ∀ (m : Objects) (acc : List Obj), (∀ ko ∈ m, nrObjTy ko.2.ty = true) →
    AnonymousStructsToNamed.processObjects m acc = (m, acc)
  | [], _, _ => by simp [AnonymousStructsToNamed.processObjects]
  | (k, o) :: rest, acc, h => by
    simp [AnonymousStructsToNamed.processObjects, ASN_processObject_nr o acc (h (k, o) (List.mem_cons_self ..)),
      ASN_processObjects_nr rest acc (fun x hx => h x (List.mem_cons_of_mem _ hx))]

theorem nrSchema_obj {s : Schema} (h : nrSchema s = true) {ko : String × Obj} (hk : ko ∈ s.objects) :
    nrObjTy ko.2.ty = true := by
  simp only [nrSchema, Bool.and_eq_true, List.all_eq_true] at h; exact h.2 ko hk

theorem nrSchema_wf {s : Schema} (h : nrSchema s = true) : wfObjects s.objects = true := by
  simp only [nrSchema, Bool.and_eq_true] at h; exact h.1.1

theorem nrSchema_ept {s : Schema} (h : nrSchema s = true) : plainEpt s.entryPointType = true := by
  simp only [nrSchema, Bool.and_eq_true] at h; exact h.1.2

theorem AnonymousStructsToNamed_plainN (S : Schemas) (h : PlainN S = true) :
    AnonymousStructsToNamed.run S = .ok S := by
  simp only [AnonymousStructsToNamed.run]
  congr 1
  apply map_id_of_forall
  intro s hs
  have hp := PlainN_schema h hs
  simp [AnonymousStructsToNamed.processSchema,
    ASN_processObjects_nr s.objects [] (fun ko hk => nrSchema_obj hp hk), addObjects]

/-! ### NotRequiredFieldAsNullableType keeps `PlainN` -/

theorem fixField_ty_nr (f : Field) (h : nrTy f.ty = true) : nrTy (fixField f f.ty).ty = true := by
  simp only [fixField]
  split
  · simpa [nrTy_setNullable] using h
  · exact h

theorem NR_vTy_nrObj (t : Ty) (h : nrObjTy t = true) : nrObjTy (vTy t) = true := by
  cases t with
  | struct fs g gi m =>
    cases gi with
    | none =>
      simp only [nrObjTy] at h
      simp only [vTy, NR_vFields_nr fs h, nrObjTy, List.all_map, List.all_eq_true] at h ⊢
      intro f hf
      exact fixField_ty_nr f (h f hf)
    | some x => simp [nrObjTy] at h
  | enum vs m => simp [vTy, nrObjTy]
  | scalar k v c m => simpa [vTy] using h
  | ref p n m => simpa [vTy] using h
  | array e m =>
    have hp : nrTy (.array e m) = true := by simpa [nrObjTy] using h
    rw [NR_vTy_nr _ hp]; exact h
  | map i v m =>
    have hp : nrTy (.map i v m) = true := by simpa [nrObjTy] using h
    rw [NR_vTy_nr _ hp]; exact h
  | disj bs info m =>
    have hp : nrTy (.disj bs info m) = true := by simpa [nrObjTy] using h
    rw [NR_vTy_nr _ hp]; exact h
  | cref _ _ _ _ => simp [nrObjTy, nrTy] at h
  | inter _ _ => simp [nrObjTy, nrTy] at h
  | slot _ _ => simp [nrObjTy, nrTy] at h
  | bad _ _ => simp [nrObjTy, nrTy] at h

theorem nrS_PlainN (S : Schemas) (h : PlainN S = true) : PlainN (nrS S) = true := by
  simp only [PlainN, nrS, mapSchemas, List.all_map, List.all_eq_true] at h ⊢
  intro s hs
  have hp := h s hs
  simp only [Function.comp, nrSchema, mapSchema, Bool.and_eq_true] at hp ⊢
  refine ⟨⟨wfObjects_mapObjects' (setTy vTy) (fun _ => rfl) _ hp.1.1, NR_vTy_plainEpt _ hp.1.2⟩, ?_⟩
  simp only [mapObjects', List.all_map, List.all_eq_true] at hp ⊢
  intro ko hk
  exact NR_vTy_nrObj _ (hp.2 ko hk)

/-! ### DisjunctionWithNullToOptional: exact result -/

/-- the pass on a type in field / element position -/
def nullOpt : Ty → Ty
  | .array e m => .array (nullOpt e) m
  | .map i v m => .map i (nullOpt v) m
  | .disj bs info m =>
    match nullPairOf bs with
    | some t => setNullable true t
    | none => .disj bs info m
  | t => t

/-- the pass on an object's type -/
def nullOptO : Ty → Ty
  | .struct fs g gi m => .struct (fs.map fun f => { f with ty := nullOpt f.ty }) g gi m
  | t => nullOpt t

def nullOptS (S : Schemas) : Schemas := mapSchemas nullOptO (setTy nullOptO) S

theorem nullOpt_plain : ∀ t : Ty, plainTy t = true → nullOpt t = t
  | .scalar .., _ => rfl
  | .ref .., _ => rfl
  | .array e m, h => by simp only [plainTy] at h; simp [nullOpt, nullOpt_plain e h]
  | .map i v m, h => by simp only [plainTy, Bool.and_eq_true] at h; simp [nullOpt, nullOpt_plain v h.2]
  | .cref .., h => by simp [plainTy] at h
  | .struct .., h => by simp [plainTy] at h
  | .enum .., h => by simp [plainTy] at h
  | .disj .., h => by simp [plainTy] at h
  | .inter .., h => by simp [plainTy] at h
  | .slot .., h => by simp [plainTy] at h
  | .bad .., h => by simp [plainTy] at h

theorem DWN_dvTy_nr : ∀ t : Ty, nrTy t = true → dvTy DisjunctionWithNullToOptional.hook t = .ok (nullOpt t)
  | .scalar .., _ => by simp [dvTy, nullOpt]
  | .ref .., _ => by simp [dvTy, nullOpt]
  | .array e m, h => by simp only [nrTy] at h; simp [dvTy, nullOpt, DWN_dvTy_nr e h]
  | .map i v m, h => by simp only [nrTy, Bool.and_eq_true] at h; simp [dvTy, nullOpt, DWN_dvTy_nr v h.2]
  | .disj bs info m, h => by
    simp only [nrTy] at h
    obtain ⟨t, ht, _⟩ := nullPair_spec h
    obtain ⟨hc, hnn⟩ := nullPairOf_spec ht
    simp only [Bool.and_eq_true, beq_iff_eq] at hc
    simp [dvTy, DisjunctionWithNullToOptional.hook, nullOpt, ht, hnn, hc.1, hc.2]
  | .cref .., h => by simp [nrTy] at h
  | .struct .., h => by simp [nrTy] at h
  | .enum .., _ => by simp [dvTy, nullOpt]
  | .inter .., h => by simp [nrTy] at h
  | .slot .., h => by simp [nrTy] at h
  | .bad .., h => by simp [nrTy] at h

theorem DWN_dvFields_nr : ∀ fs : List Field, (fs.all fun f => nrTy f.ty) = true →
    dvFields DisjunctionWithNullToOptional.hook fs = .ok (fs.map fun f => { f with ty := nullOpt f.ty })
  | [], _ => by simp [dvFields]
  | f :: fs, h => by
    simp only [List.all_cons, Bool.and_eq_true] at h
    simp [dvFields, DWN_dvTy_nr f.ty h.1, DWN_dvFields_nr fs h.2]

theorem DWN_dvTy_nrObj (t : Ty) (h : nrObjTy t = true) :
    dvTy DisjunctionWithNullToOptional.hook t = .ok (nullOptO t) := by
  cases t with
  | struct fs g gi m =>
    cases gi with
    | none => simp only [nrObjTy] at h; simp [dvTy, nullOptO, DWN_dvFields_nr fs h]
    | some x => simp [nrObjTy] at h
  | enum vs m => simp [dvTy, nullOptO, nullOpt]
  | scalar k v c m => exact DWN_dvTy_nr _ (by simpa [nrObjTy] using h)
  | ref p n m => exact DWN_dvTy_nr _ (by simpa [nrObjTy] using h)
  | array e m => exact DWN_dvTy_nr _ (by simpa [nrObjTy] using h)
  | map i v m => exact DWN_dvTy_nr _ (by simpa [nrObjTy] using h)
  | disj bs info m => exact DWN_dvTy_nr _ (by simpa [nrObjTy] using h)
  | cref _ _ _ _ => simp [nrObjTy, nrTy] at h
  | inter _ _ => simp [nrObjTy, nrTy] at h
  | slot _ _ => simp [nrObjTy, nrTy] at h
  | bad _ _ => simp [nrObjTy, nrTy] at h

theorem DWN_dvTy_ept (t : Ty) (h : plainEpt t = true) :
    dvTy DisjunctionWithNullToOptional.hook t = .ok (nullOptO t) := by
  cases t with
  | bad k m => simp [dvTy, nullOptO, nullOpt]
  | scalar k v c m => simp [dvTy, nullOptO, nullOpt]
  | ref p n m => simp [dvTy, nullOptO, nullOpt]
  | array e m =>
    have hp : plainTy (.array e m) = true := by simpa [plainEpt] using h
    rw [dvTy_plain _ _ hp]; simp only [nullOptO]; rw [nullOpt_plain _ hp]
  | map i v m =>
    have hp : plainTy (.map i v m) = true := by simpa [plainEpt] using h
    rw [dvTy_plain _ _ hp]; simp only [nullOptO]; rw [nullOpt_plain _ hp]
  | cref _ _ _ _ => simp [plainEpt, plainTy] at h
  | struct _ _ _ _ => simp [plainEpt, plainTy] at h
  | enum _ _ => simp [plainEpt, plainTy] at h
  | disj _ _ _ => simp [plainEpt, plainTy] at h
  | inter _ _ => simp [plainEpt, plainTy] at h
  | slot _ _ => simp [plainEpt, plainTy] at h

theorem DisjunctionWithNullToOptional_run (S : Schemas) (h : PlainN S = true) :
    DisjunctionWithNullToOptional.run S = .ok (nullOptS S) := by
  have := visitSchemas_map (fun _ s => visitSchemaPure (dvTy DisjunctionWithNullToOptional.hook) s)
    (mapSchema nullOptO (setTy nullOptO)) S (by
    intro cur s hs
    have hp := PlainN_schema h hs
    exact visitSchemaPure_map _ nullOptO s (nrSchema_wf hp) (DWN_dvTy_ept _ (nrSchema_ept hp))
      (fun ko hk => DWN_dvTy_nrObj _ (nrSchema_obj hp hk)))
  simpa [DisjunctionWithNullToOptional.run, runDisjPass, nullOptS, mapSchemas] using this

/-! ### the output has no disjunction left (`PlainE`: plain types and anonymous enums) -/

theorem plain_pe : ∀ t : Ty, plainTy t = true → peTy t = true
  | .scalar .., _ => rfl
  | .ref .., _ => rfl
  | .array e m, h => by simp only [plainTy] at h; simpa [peTy] using plain_pe e h
  | .map i v m, h => by
    simp only [plainTy, Bool.and_eq_true] at h
    simp only [peTy, Bool.and_eq_true]; exact ⟨h.1, plain_pe v h.2⟩
  | .cref .., h => by simp [plainTy] at h
  | .struct .., h => by simp [plainTy] at h
  | .enum .., h => by simp [plainTy] at h
  | .disj .., h => by simp [plainTy] at h
  | .inter .., h => by simp [plainTy] at h
  | .slot .., h => by simp [plainTy] at h
  | .bad .., h => by simp [plainTy] at h

theorem nullOpt_nr_pe : ∀ t : Ty, nrTy t = true → peTy (nullOpt t) = true
  | .scalar .., _ => rfl
  | .ref .., _ => rfl
  | .array e m, h => by simp only [nrTy] at h; simpa [nullOpt, peTy] using nullOpt_nr_pe e h
  | .map i v m, h => by
    simp only [nrTy, Bool.and_eq_true] at h
    simp only [nullOpt, peTy, Bool.and_eq_true]
    exact ⟨h.1, nullOpt_nr_pe v h.2⟩
  | .disj bs info m, h => by
    simp only [nrTy] at h
    obtain ⟨t, ht, hpt⟩ := nullPair_spec h
    simp only [nullOpt, ht]
    exact plain_pe _ (by rw [plainTy_setNullable]; exact hpt)
  | .enum vs m, h => by cases vs with
    | nil => simp [nrTy] at h
    | cons v0 rest => rfl
  | .cref .., h => by simp [nrTy] at h
  | .struct .., h => by simp [nrTy] at h
  | .inter .., h => by simp [nrTy] at h
  | .slot .., h => by simp [nrTy] at h
  | .bad .., h => by simp [nrTy] at h

theorem pe_peObj (u : Ty) (hu : peTy u = true) : peObjTy u = true := by
  cases u with
  | enum vs m => rfl
  | scalar _ _ _ _ | ref _ _ _ | array _ _ | map _ _ _ => simpa [peObjTy] using hu
  | cref _ _ _ _ | struct _ _ _ _ | disj _ _ _ | inter _ _ | slot _ _ | bad _ _ => simp [peTy] at hu

theorem nullOptO_nr_pe (t : Ty) (h : nrObjTy t = true) : peObjTy (nullOptO t) = true := by
  cases t with
  | struct fs g gi m =>
    cases gi with
    | none =>
      simp only [nrObjTy, List.all_eq_true] at h
      simp only [nullOptO, peObjTy, List.all_map, List.all_eq_true]
      exact fun f hf => nullOpt_nr_pe _ (h f hf)
    | some x => simp [nrObjTy] at h
  | enum vs m => rfl
  | scalar k v c m => rfl
  | ref p n m => rfl
  | array e m => exact pe_peObj _ (nullOpt_nr_pe (.array e m) (by simpa [nrObjTy] using h))
  | map i v m => exact pe_peObj _ (nullOpt_nr_pe (.map i v m) (by simpa [nrObjTy] using h))
  | disj bs info m => exact pe_peObj _ (nullOpt_nr_pe (.disj bs info m) (by simpa [nrObjTy] using h))
  | cref _ _ _ _ => simp [nrObjTy, nrTy] at h
  | inter _ _ => simp [nrObjTy, nrTy] at h
  | slot _ _ => simp [nrObjTy, nrTy] at h
  | bad _ _ => simp [nrObjTy, nrTy] at h

theorem nullOptO_ept (t : Ty) (h : plainEpt t = true) : plainEpt (nullOptO t) = true := by
  cases t with
  | bad k m => rfl
  | scalar k v c m => rfl
  | ref p n m => rfl
  | array e m =>
    have hp : plainTy (.array e m) = true := by simpa [plainEpt] using h
    simp only [nullOptO]; rw [nullOpt_plain _ hp]; exact h
  | map i v m =>
    have hp : plainTy (.map i v m) = true := by simpa [plainEpt] using h
    simp only [nullOptO]; rw [nullOpt_plain _ hp]; exact h
  | cref _ _ _ _ => simp [plainEpt, plainTy] at h
  | struct _ _ _ _ => simp [plainEpt, plainTy] at h
  | enum _ _ => simp [plainEpt, plainTy] at h
  | disj _ _ _ => simp [plainEpt, plainTy] at h
  | inter _ _ => simp [plainEpt, plainTy] at h
  | slot _ _ => simp [plainEpt, plainTy] at h

theorem nullOptS_PlainE (S : Schemas) (h : PlainN S = true) : PlainE (nullOptS S) = true := by
  simp only [PlainN, PlainE, nullOptS, mapSchemas, List.all_map, List.all_eq_true] at h ⊢
  intro s hs
  have hp := h s hs
  simp only [Function.comp, nrSchema, peSchema, mapSchema, Bool.and_eq_true] at hp ⊢
  refine ⟨⟨wfObjects_mapObjects' (setTy nullOptO) (fun _ => rfl) _ hp.1.1, nullOptO_ept _ hp.1.2⟩, ?_⟩
  simp only [mapObjects', List.all_map, List.all_eq_true] at hp ⊢
  intro ko hk
  exact nullOptO_nr_pe _ (hp.2 ko hk)

/-! ### `xden false` through the pass (one more unit of fuel) -/

theorem isCollLike_nullOpt (t : Ty) (h : nrTy t = true) : isCollLike (nullOpt t) = isCollLike t := by
  cases t with
  | disj bs info m =>
    simp only [nrTy] at h
    obtain ⟨u, hu, hpu⟩ := nullPair_spec h
    obtain ⟨hc, hnn⟩ := nullPairOf_spec hu
    simp only [nullOpt, hu, isCollLike, hc, hnn, Bool.true_and]
    cases u <;> simp [plainTy] at hpu <;> rfl
  | scalar _ _ _ _ | ref _ _ _ | array _ _ | map _ _ _ | enum _ _ => rfl
  | cref _ _ _ _ | struct _ _ _ _ | inter _ _ | slot _ _ | bad _ _ => simp [nrTy] at h

theorem shape_nullOpt (t : Ty) (h : nrTy t = true) (hs : (t.getMeta.nullable || isCollOrAny t) = true) :
    ((nullOpt t).getMeta.nullable || isCollOrAny (nullOpt t)) = true := by
  cases t with
  | disj bs info m =>
    simp only [nrTy] at h
    obtain ⟨u, hu, _⟩ := nullPair_spec h
    simp [nullOpt, hu, getMeta_setNullable]
  | scalar _ _ _ _ | ref _ _ _ | array _ _ | map _ _ _ | enum _ _ => simpa [nullOpt, isCollOrAny, Ty.getMeta] using hs
  | cref _ _ _ _ | struct _ _ _ _ | inter _ _ | slot _ _ | bad _ _ => simp [nrTy] at h

theorem isByteElem_setNullable_true (u : Ty) : isByteElem (setNullable true u) = false := by
  cases u with
  | scalar k v c m =>
    simp only [setNullable, Ty.setMeta, Ty.getMeta]
    unfold isByteElem
    split
    · rename_i h; simp only [Ty.scalar.injEq] at h; rw [← h.2.2.2]; rfl
    · rfl
  | _ => rfl

theorem isByteElem_nullOpt (e : Ty) (hp : nrTy e = true) : isByteElem (nullOpt e) = isByteElem e := by
  cases e with
  | disj bs info dm =>
    simp only [nrTy] at hp
    obtain ⟨u, hu, _⟩ := nullPair_spec hp
    simp only [nullOpt, hu, isByteElem_setNullable_true]
    rfl
  | scalar _ _ _ _ | ref _ _ _ | array _ _ | map _ _ _ | enum _ _ => rfl
  | cref _ _ _ _ | struct _ _ _ _ | inter _ _ | slot _ _ | bad _ _ => simp [nrTy] at hp

theorem null_fields (d d' : Ty → Json → Bool)
    (himp : ∀ t j, nrTy t = true → d t j = true → d' (nullOpt t) j = true)
    (fs : List Field) (hp : (fs.all fun f => nrTy f.ty) = true) (members : List (String × Json))
    (h : xFieldsWith false d fs members = true) :
    xFieldsWith false d' (fs.map fun f => { f with ty := nullOpt f.ty }) members = true := by
  simp only [xFieldsWith, List.all_map, List.all_eq_true] at h ⊢
  simp only [List.all_eq_true] at hp
  intro f hf
  have hpf := hp f hf
  have h := h f hf
  simp only [Function.comp, Bool.false_or, Bool.and_eq_true, Bool.false_eq_true, if_false] at h ⊢
  refine ⟨?_, ?_⟩
  · have h1 := h.1
    simp only [fieldShapeOK, Bool.or_eq_true] at h1 ⊢
    rcases h1 with (h1 | h1) | h1
    · exact Or.inl (Or.inl h1)
    · have := shape_nullOpt f.ty hpf (by simp [h1])
      simp only [Bool.or_eq_true] at this
      rcases this with t | t
      · exact Or.inl (Or.inr t)
      · exact Or.inr t
    · have := shape_nullOpt f.ty hpf (by simp [h1])
      simp only [Bool.or_eq_true] at this
      rcases this with t | t
      · exact Or.inl (Or.inr t)
      · exact Or.inr t
  · cases hl : Json.lookup f.name members with
    | some v =>
      rw [hl] at h
      simp only [Bool.and_eq_true] at h ⊢
      refine ⟨himp _ _ hpf h.2.1, ?_⟩
      simpa [xFieldValueOK, isCollLike_nullOpt _ hpf] using h.2.2
    | none =>
      rw [hl] at h
      simp only [Bool.and_eq_true] at h ⊢
      exact ⟨h.2.1, himp _ _ hpf h.2.2⟩

theorem null_structBody (d d' : Ty → Json → Bool)
    (himp : ∀ t j, nrTy t = true → d t j = true → d' (nullOpt t) j = true)
    (fs : List Field) (hp : (fs.all fun f => nrTy f.ty) = true) (j : Json)
    (h : xStructBody false d fs j = true) :
    xStructBody false d' (fs.map fun f => { f with ty := nullOpt f.ty }) j = true := by
  cases j with
  | obj members =>
    have hnames : (fs.map fun f => ({ f with ty := nullOpt f.ty } : Field)).map (·.name) = fs.map (·.name) := by
      simp [List.map_map, Function.comp_def]
    simp only [xStructBody, hnames, Bool.and_eq_true] at h ⊢
    exact ⟨h.1, null_fields d d' himp fs hp members h.2⟩
  | null | bool _ | num _ | str _ | arr _ => simp [xStructBody] at h

theorem null_widen (S : Schemas) (hP : PlainN S = true) : ∀ n t j, nrTy t = true →
    xden false n S t j = true → xden false (n + 1) (nullOptS S) (nullOpt t) j = true := by
  intro n
  induction n with
  | zero => intro t j _ h; simp [xden] at h
  | succ n ih =>
    intro t j hp h
    cases t with
    | scalar kind v cs m => simpa [xden, nullOpt] using h
    | array e m =>
      simp only [nrTy] at hp
      simp only [nullOpt]
      simp only [xden, Bool.and_eq_true] at h
      have hb := isByteElem_nullOpt e hp
      generalize hk : n + 1 = k at *
      simp only [xden, Bool.and_eq_true, hb]
      refine ⟨h.1, ?_⟩
      cases j with
      | arr xs => subst hk; exact all_mono _ _ (fun x => ih e x hp) xs h.2
      | null => exact h.2
      | bool _ | num _ | str _ | obj _ => exact h.2
    | map i v m =>
      simp only [nrTy, Bool.and_eq_true] at hp
      simp only [nullOpt]
      simp only [xden] at h
      generalize hk : n + 1 = k at *
      simp only [xden]
      split at h
      · cases j with
        | obj kvs =>
          simp only [Bool.and_eq_true] at h ⊢
          subst hk
          exact ⟨h.1, all_mono _ _ (fun kv => ih v kv.2 hp.2) kvs h.2⟩
        | null => exact h
        | bool _ | num _ | str _ | arr _ => exact h
      · simp at h
    | disj bs info m =>
      simp only [nrTy] at hp
      obtain ⟨t, ht, hpt⟩ := nullPair_spec hp
      obtain ⟨hc, hnn⟩ := nullPairOf_spec ht
      simp only [xden, hc, if_true, hnn] at h
      simp only [nullOpt, ht]
      have h1 := ih _ _ (by rw [nrTy_setNullable]; exact plain_nr t hpt) h
      rw [nullOpt_plain _ (by rw [plainTy_setNullable]; exact hpt)] at h1
      exact xden_mono false _ _ _ _ h1
    | ref p nm m =>
      simp only [nullOpt]
      simp only [xden] at h
      generalize hk : n + 1 = k at *
      simp only [xden]
      rw [nullOptS, locateObject_mapSchemas]
      cases ho : Schemas.locateObject S p nm with
      | none => simp [ho] at h
      | some o =>
        have hpo := PlainN_located hP ho
        simp only [ho, Option.map, setTy_ty] at h ⊢
        subst hk
        cases hty : o.ty with
        | struct fields gen gi sm =>
          cases gi with
          | none =>
            rw [hty] at hpo
            simp only [nrObjTy] at hpo
            simp only [hty, nullOptO, Bool.or_eq_true] at h ⊢
            rcases h with h | h
            · exact Or.inl h
            · exact Or.inr (null_structBody _ _ (fun t j => ih t j) fields hpo j h)
          | some x => simp [hty] at h
        | enum vals em =>
          cases vals with
          | nil => simp [hty] at h
          | cons v0 rest => simpa [hty, nullOptO, nullOpt] using h
        | scalar kind sv scs om => simpa [hty, nullOptO, nullOpt] using h
        | array ae am =>
          rw [hty] at hpo
          have hpa : nrTy (.array ae am) = true := by simpa [nrObjTy] using hpo
          simp only [hty, Bool.and_eq_true] at h
          have := ih _ _ hpa h.2
          simp only [nullOpt] at this
          simp only [nullOptO, nullOpt, Bool.and_eq_true]
          exact ⟨h.1, this⟩
        | map mi mv mm =>
          rw [hty] at hpo
          have hpa : nrTy (.map mi mv mm) = true := by simpa [nrObjTy] using hpo
          simp only [hty, Bool.and_eq_true] at h
          have := ih _ _ hpa h.2
          simp only [nullOpt] at this
          simp only [nullOptO, nullOpt, Bool.and_eq_true]
          exact ⟨h.1, this⟩
        | ref rp rn rm =>
          simp only [hty, nullOptO, nullOpt] at h ⊢
          exact ih _ _ rfl h
        | cref _ _ _ _ => simp [hty] at h
        | disj _ _ _ => simp [hty] at h
        | inter _ _ => simp [hty] at h
        | slot _ _ => simp [hty] at h
        | bad _ _ => simp [hty] at h
    | cref _ _ _ _ => simp [nrTy] at hp
    | struct _ _ _ _ => simp [nrTy] at hp
    | enum vals em =>
      cases vals with
      | nil => simp [nrTy] at hp
      | cons v0 rest => simpa [xden, nullOpt] using h
    | inter _ _ => simp [nrTy] at hp
    | slot _ _ => simp [nrTy] at hp
    | bad _ _ => simp [nrTy] at hp

end Cog.Sem.Src
