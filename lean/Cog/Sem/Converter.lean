/-
  Semantics of the Go converters cog generates (C14).

  Two layers, both literal transcriptions:
    * `mkConverter`  – internal/languages/converter.go (`ConverterGenerator.FromBuilder`): from a
      builder (builder IR after veneers and nil checks) to the list of conversion mappings: which
      option is emitted under which guards, with which arguments read from which paths of the
      input value; threading of `generatedPaths`; the lists of options appending branches of a
      disjunction struct (walked in sorted path order, see the fix 39173d7).
    * `runConverter` – internal/jennies/golang/templates/converters/converter.tmpl: the Go function
      the template prints, executed on an input value: guards (`!= nil`, `== const`, `len(x) >= 1`,
      `!= ""`, `!= default`), `for … range` over appended / indexed collections, one call per
      option mapping, arguments printed by `value_formatter` / nested `XConverter(…)` calls.
  The result is the ABSTRACT call list (`GB.Arg` / `GB.Call`): constructor arguments and option
  calls whose arguments are Go values or nested call lists.  How a value is spelled as Go text
  (`fmt.Sprintf("%#v")`, `cog.Dump`) is not modelled: the lab parses the text back with go/parser
  and compares call lists, and compiles + runs the text (correspondence only).

  `replay` is C09's builder semantics (`GB.runBuilder`) on that call list.

  Core Lean only.
-/
import Cog.Sem.GoBuilder
namespace Cog.Sem.Conv
open Cog.IR Cog.Builder Cog.Sem.GB

/-! ### the converter IR (`languages.Converter`) -/

inductive Guard where
  | notNil (path : Builder.Path)                               -- `<path> != nil`
  | cmp (path : Builder.Path) (op : String) (value : Val)      -- `<deref path> <op> <value>` (`minLength` → `len(x) >=`)
  deriving Inhabited

inductive ArgMap where
  | direct (path : Builder.Path) (ty : Ty)
  | builder (path : Builder.Path) (ty : Ty) (name : String)
  | array (for_ : Builder.Path) (forTy : Ty) (elem : ArgMap) (valueAs : String)
  | map (for_ : Builder.Path) (forTy : Ty) (elem : ArgMap) (valueAs : String)
  | choice (path : Builder.Path) (ty : Ty) (alts : List (List Guard × String))   -- `BuilderDisjunction`: one guarded converter per candidate builder
  | unsup (why : String)
  deriving Inhabited

structure OptMap where
  opt : Opt
  guards : List Guard
  args : List ArgMap
  argGuards : List Guard := []
  deriving Inhabited

structure ConvMap where
  repeatFor : Option Builder.Path := none
  repeatAs : String := ""
  repeatIndex : String := ""
  options : List OptMap := []
  deriving Inhabited

structure Converter where
  builder : String
  ctorArgs : List (Builder.Path × Ty)
  mappings : List ConvMap
  deriving Inhabited

/-! ### `ConverterGenerator` -/

def rootItem (name : String) (t : Ty) : PathItem := { identifier := name, ty := t, root := true }

def inputRoot (b : Builder) : Builder.Path := [rootItem "input" (.ref b.for_.selfPkg b.for_.selfName {})]

/-- `NullableConfig.TypeIsNullable` with Go's configuration (kinds map, array; any is nullable) -/
def typeIsNullable (t : Ty) : Bool := t.getMeta.nullable || isAnyTy' t || t.isArray || t.isMap

def valText : Val → String
  | .nil => "<nil>"
  | .bool b => toString b
  | .int _ n => toString n
  | .float _ r => r
  | .jnum s => s
  | .str s => s
  | _ => "?"

def guardKey : Guard → String
  | .notNil p => pathString p ++ " != <nil>"
  | .cmp p op v => pathString p ++ " " ++ op ++ " " ++ valText v

/-- `orderedmap.Set` keyed by `guard.String()` -/
def addGuard (g : Guard) (gs : List Guard) : List Guard :=
  if gs.any (fun x => guardKey x == guardKey g) then gs else gs ++ [g]

def addGuards (new : List Guard) (gs : List Guard) : List Guard := new.foldl (fun acc g => addGuard g acc) gs

def pathNotNullGuards (root : Builder.Path) : Builder.Path → Builder.Path → List Guard
  | _, [] => []
  | pre, it :: rest =>
    (if typeIsNullable it.ty then [Guard.notNil (root ++ pre ++ [it])] else []) ++
      pathNotNullGuards root (pre ++ [it]) rest

def isStringScalar : Ty → Bool
  | .scalar k _ _ m => k == "string" && !hasHint m "string_format_datetime"
  | _ => false

def envelopeOf : AValue → Option (Ty × List EnvField)
  | .env t vs => some (t, vs)
  | _ => none

def constOf : AValue → Option Val
  | .const v => if isNil v then none else some v
  | _ => none

def guardsForAssignment (root : Builder.Path) (a : Assignment) (gs : List Guard) : List Guard :=
  let gs := addGuards (pathNotNullGuards root [] a.path) gs
  if a.method = "index" then gs else
  match constOf a.value with
  | some k => addGuard (.cmp (root ++ a.path) "==" k) gs
  | none =>
    let t := lastTy a.path
    let gs := if t.isArray then addGuard (.cmp (root ++ a.path) "minLength" (.int "i" 1)) gs else gs
    let gs := if isStringScalar t then addGuard (.cmp (root ++ a.path) "!=" (.str "")) gs else gs
    let gs := if t.isScalar && !isNil t.getMeta.dflt then addGuard (.cmp (root ++ a.path) "!=" t.getMeta.dflt) gs else gs
    match envelopeOf a.value with
    | some (_, vals) =>
      if a.method ≠ "append" then
        addGuards (vals.map fun ev => Guard.notNil (root ++ a.path ++ ev.path)) gs
      else gs
    | none => gs

def guardForAssignments (root : Builder.Path) (as : List Assignment) : List Guard :=
  as.foldl (fun gs a => guardsForAssignment root a gs) []

/-- `assignmentKey` -/
def assignmentKey (a : Assignment) : String :=
  pathString a.path ++
  (match constOf a.value with | some k => "=" ++ valText k | none => "") ++
  (match envelopeOf a.value with
   | some (_, vals) => String.join (vals.map fun ev => "," ++ pathString ev.path)
   | none => "")

def buildersForRef (bs : Builders) (p n : String) : List Builder :=
  bs.filter fun b => b.for_.selfPkg == p && b.for_.selfName == n

/-- `Context.BuildersForType` (Go IR: no disjunctions left) -/
def buildersForType (bs : Builders) : Nat → Ty → List Builder
  | 0, _ => []
  | fuel + 1, t =>
    match t with
    | .array e _ => buildersForType bs fuel e
    | .map _ v _ => buildersForType bs fuel v
    | .ref p n _ => buildersForRef bs p n
    | _ => []

/-- `Builders.HaveConstantConstructorAssignment`: every builder pins at least one constant in its constructor -/
def haveConstantConstructorAssignment (bs : List Builder) : Bool :=
  bs.all fun b => b.constructor.assignments.any fun a => (constOf a.value).isSome

def constantAssignments (b : Builder) : List Assignment :=
  b.constructor.assignments.filter fun a => (constOf a.value).isSome

/-- `argumentForType` -/
def argumentForType (c : Ctx) : Nat → String → Builder.Path → Ty → ArgMap
  | 0, _, _, _ => .unsup "fuel"
  | fuel + 1, argName, valuePath, t =>
    match t with
    | .slot .. => .unsup "composable slot"
    | .disj .. => .unsup "disjunction"
    | .array e _ =>
      .array valuePath t (argumentForType c fuel (argName ++ "Value") [rootItem argName e] e) argName
    | .map _ v _ =>
      .map valuePath t (argumentForType c fuel (argName ++ "Value") [rootItem argName v] v) argName
    | _ =>
      match buildersForType c.bs 8 t with
      | [] => .direct valuePath t
      | [b] => .builder valuePath t b.name
      | b :: more =>
        -- several builders for the type: a choice guarded by the constants their constructors pin,
        -- else the first builder
        if haveConstantConstructorAssignment (b :: more) then
          .choice valuePath t ((b :: more).map fun pb => (guardForAssignments valuePath (constantAssignments pb), pb.name))
        else .builder valuePath t b.name

/-- `isAssignmentFromDisjunctionStruct` -/
def fromDisjunctionStruct (c : Ctx) (a : Assignment) : Bool :=
  match envelopeOf a.value with
  | none => false
  | some (t, _) =>
    let t' := match t with
      | .ref p n _ => (match Schemas.locateObject c.ss p n with | some o => o.ty | none => t)
      | _ => t
    match t' with
    | .struct _ _ (some _) _ => true
    | _ => false

structure GenState where
  generated : List String := []                      -- `generatedPaths`
  disjLists : List (String × List Opt) := []         -- `listOfDisjunctionOptions`
  deriving Inhabited

def indexArgTy (p : Builder.Path) : Option Ty :=
  match p.getLast? with
  | some it => (it.index.bind (·.argument)).map (·.ty)
  | none => none

/-- the argument mappings of the not yet generated assignments (`mappingForOption`, the loop) -/
def argsForAssignments (c : Ctx) (b : Builder) (rep : Option (String × String)) :
    Nat → List Assignment → List ArgMap × List Guard
  | _, [] => ([], [])
  | i, a :: rest =>
    let (moreArgs, moreGuards) := argsForAssignments c b rep (i + 1) rest
    match constOf a.value with
    | some _ => (moreArgs, moreGuards)
    | none =>
      let argName := "arg" ++ toString i
      let t := lastTy a.path
      let direct : Builder.Path := inputRoot b ++ a.path
      -- inside a repeated mapping an array assignment reads the loop variable (one element)
      let inLoop : Option (String × String) := match rep with
        | some r => if t.isArray then some r else none
        | none => none
      let valueTy : Ty := if inLoop.isSome then GB.elemTy t else t
      let valuePath : Builder.Path := match inLoop with
        | some (repeatAs, _) => [rootItem repeatAs (GB.elemTy t)]
        | none => direct
      let here : List ArgMap × List Guard :=
        match rep, inLoop with
        | some (repeatAs, repeatIndex), none =>
          if a.method = "index" then
            match indexArgTy a.path with
            | some it =>
              ([argumentForType c 8 repeatIndex [rootItem repeatIndex t] it,
                argumentForType c 8 argName [rootItem repeatAs t] t], [])
            | none => ([.unsup "index without argument"], [])
          else ([.unsup "repeated mapping of a non-collection"], [])
        | _, _ =>
          if fromDisjunctionStruct c a then
            match envelopeOf a.value with
            | some (_, ev0 :: evs) =>
              ([argumentForType c 8 argName (valuePath ++ ev0.path) (lastTy ev0.path)],
               (ev0 :: evs).map fun ev => Guard.notNil (valuePath ++ ev.path))
            | _ => ([.unsup "empty envelope"], [])
          else
            match envelopeOf a.value with
            | some (_, vals) => (vals.map fun ev => argumentForType c 8 argName (valuePath ++ ev.path) (lastTy (valuePath ++ ev.path)), [])
            | none => ([argumentForType c 8 argName valuePath valueTy], [])
      (here.1 ++ moreArgs, here.2 ++ moreGuards)

/-- `mappingForOption` -/
def mappingForOption (c : Ctx) (b : Builder) (rep : Option (String × String)) (st : GenState) (o : Opt) :
    Option OptMap × GenState :=
  let fresh := o.assignments.filter fun a => !st.generated.contains (assignmentKey a)
  if fresh.isEmpty then (none, st) else
  let (args, argGuards) := argsForAssignments c b rep 1 fresh
  (some { opt := o, guards := guardForAssignments (inputRoot b) o.assignments, args := args, argGuards := argGuards },
   { st with generated := st.generated ++ fresh.map assignmentKey })

def addDisjOption (k : String) (o : Opt) : List (String × List Opt) → List (String × List Opt)
  | [] => [(k, [o])]
  | (k', os) :: rest => if k' = k then (k', os ++ [o]) :: rest else (k', os) :: addDisjOption k o rest

/-- `convertOption` -/
def convertOption (c : Ctx) (b : Builder) (st : GenState) (o : Opt) : ConvMap × GenState :=
  let fresh := o.assignments.filter fun a => !st.generated.contains (assignmentKey a)
  match fresh with
  | [] => ({}, st)
  | a0 :: more =>
    let single := more.isEmpty
    let m : ConvMap :=
      if single && a0.method = "append" then { repeatFor := some (inputRoot b ++ a0.path), repeatAs := "item" }
      else if single && a0.method = "index" then
        { repeatFor := some (inputRoot b ++ a0.path.dropLast), repeatAs := "value", repeatIndex := "key" }
      else {}
    if m.repeatFor.isSome && fromDisjunctionStruct c a0 then
      ({}, { st with disjLists := addDisjOption (pathString a0.path) o st.disjLists })
    else
      let rep := if m.repeatFor.isSome then some (m.repeatAs, m.repeatIndex) else none
      match mappingForOption c b rep st o with
      | (some om, st') => ({ m with options := [om] }, st')
      | (none, st') => ({}, st')

def convertOptions (c : Ctx) (b : Builder) : List Opt → GenState → List ConvMap × GenState
  | [], st => ([], st)
  | o :: rest, st =>
    let (m, st1) := convertOption c b st o
    let (ms, st2) := convertOptions c b rest st1
    (m :: ms, st2)

def mapOptions (c : Ctx) (b : Builder) (rep : Option (String × String)) : List Opt → GenState → List OptMap × GenState
  | [], st => ([], st)
  | o :: rest, st =>
    let (om, st1) := mappingForOption c b rep st o
    let (oms, st2) := mapOptions c b rep rest st1
    (match om with | some x => x :: oms | none => oms, st2)

/-- `convertListOfDisjunctionOptions` -/
def convertDisjList (c : Ctx) (b : Builder) (st : GenState) (os : List Opt) : ConvMap × GenState :=
  match os with
  | [] => ({}, st)
  | o0 :: _ =>
    match o0.assignments with
    | [] => ({}, st)
    | a0 :: _ =>
      let (oms, st') := mapOptions c b (some ("item", "")) os st
      ({ repeatFor := some (inputRoot b ++ a0.path), repeatAs := "item", options := oms }, st')

def convertDisjLists (c : Ctx) (b : Builder) : List (String × List Opt) → GenState → List ConvMap
  | [], _ => []
  | (_, os) :: rest, st =>
    let (m, st') := convertDisjList c b st os
    m :: convertDisjLists c b rest st'

def insertSortedBy (k : String) (v : List Opt) : List (String × List Opt) → List (String × List Opt)
  | [] => [(k, v)]
  | (k', v') :: t => if k < k' then (k, v) :: (k', v') :: t else (k', v') :: insertSortedBy k v t

def sortDisj (l : List (String × List Opt)) : List (String × List Opt) :=
  l.foldl (fun acc kv => insertSortedBy kv.1 kv.2 acc) []

def argOfValue : AValue → Option Argument
  | .arg cell => some cell.arg
  | _ => none

/-- `FromBuilder` -/
def mkConverter (c : Ctx) (b : Builder) : Converter :=
  let ctorArgs := b.constructor.assignments.filterMap fun a =>
    (argOfValue a.value).map fun _ => (inputRoot b ++ a.path, lastTy a.path)
  let (ms, st) := convertOptions c b b.options {}
  let dl := convertDisjLists c b (sortDisj st.disjLists) st
  { builder := b.name, ctorArgs := ctorArgs, mappings := (ms ++ dl).filter fun m => !m.options.isEmpty }

/-! ### the printed converter, executed -/

abbrev VEnv := List (String × GoVal)

def VEnv.find (env : VEnv) (n : String) : Option GoVal :=
  match env with
  | [] => none
  | (k, v) :: t => if k = n then some v else VEnv.find t n

def evalFields : Builder.Path → GoVal → BRes GoVal
  | [], v => .ok v
  | it :: rest, v =>
    if it.identifier = "" || it.index.isSome then .unsup "indexed item in a converter path"
    else (getStep (.fld it.identifier) v).bind (evalFields rest)

/-- the Go expression `formatPath` prints for a rooted path -/
def evalPath (env : VEnv) : Builder.Path → BRes GoVal
  | [] => .unsup "empty path"
  | it :: rest =>
    if !it.root then .unsup "unrooted path" else
    match env.find it.identifier with
    | some v => evalFields rest v
    | none => .unsup ("unbound variable " ++ it.identifier)

/-- `maybeDereference`: `*x` for a nullable non-collection -/
def deref (t : Ty) (v : GoVal) : BRes GoVal :=
  if asPointer t then
    match v with
    | .ptr x => .ok x
    | .nil => .panic "nil pointer dereference"
    | _ => .unsup "ill-typed value (pointer expected)"
  else .ok v

def goLen : GoVal → Option Int
  | .nil => some 0
  | .slice vs => some vs.length
  | .gomap kvs => some kvs.length
  | .str s => some s.utf8ByteSize
  | _ => none

/-- `x == k` for a constant printed by `formatScalar` -/
def eqConst (v : GoVal) (k : Val) : Option Bool :=
  match constVal k, v with
  | some (.bool a), .bool b => some (a == b)
  | some (.int a), .int b => some (a == b)
  | some (.int a), .float q => some (a * 4 == q)
  | some (.float a), .float q => some (a == q)
  | some (.float a), .int b => some (a == b * 4)
  | some (.str a), .str b => some (a == b)
  | _, _ => none

def evalGuard (env : VEnv) : Guard → BRes Bool
  | .notNil p => (evalPath env p).map fun v => !v.isNil
  | .cmp p op k =>
    (evalPath env p).bind fun v0 =>
    (deref (lastTy p) v0).bind fun v =>
      if op = "minLength" then
        match goLen v, k with
        | some n, .int _ m => .ok (decide (n ≥ m))
        | _, _ => .unsup "length guard"
      else if op = "maxLength" then
        match goLen v, k with
        | some n, .int _ m => .ok (decide (n ≤ m))
        | _, _ => .unsup "length guard"
      else match eqConst v k with
        | some b => if op = "==" then .ok b else if op = "!=" then .ok (!b) else .unsup ("guard operator " ++ op)
        | none => .unsup "guard comparison"

/-- `g1 && g2 && …` (short-circuit) -/
def evalGuards (env : VEnv) : List Guard → BRes Bool
  | [] => .ok true
  | g :: rest => (evalGuard env g).bind fun b => if b then evalGuards env rest else .ok false

def findBuilderByName (bs : Builders) (n : String) : Option Builder := bs.find? fun b => b.name == n

def isStructRef (c : Ctx) (t : Ty) : Bool :=
  match t with
  | .ref p n _ => (match Schemas.locateObject c.ss p n with | some o => o.ty.isStruct | none => false)
  | _ => false

mutual
/-- `prepare_arg` -/
def runArg (c : Ctx) : Nat → VEnv → ArgMap → BRes Arg
  | 0, _, _ => .fuel
  | fuel + 1, env, am =>
    match am with
    | .unsup w => .unsup w
    | .direct p t =>
      -- `value_formatter`: any → Dump(x); scalar → Sprintf("%#v", *x); else Dump(*x)
      (evalPath env p).bind fun v0 =>
        if isAnyTy' t then .ok (.val v0)
        else if isStructRef c t then .unsup "struct value printed by cog.Dump"
        else (deref t v0).map .val
    | .builder p t name =>
      (evalPath env p).bind fun v0 =>
      (if t.getMeta.nullable then deref t v0 else .ok v0).bind fun v =>
        match findBuilderByName c.bs name with
        | none => .unsup ("no builder " ++ name)
        | some b => (runConverter c fuel b v).map fun r => .builder name r.1 r.2
    | .choice p t alts =>
      (evalPath env p).bind fun v0 =>
      (if t.getMeta.nullable then deref t v0 else .ok v0).bind fun v =>
      (runChoices c fuel env v alts none).bind fun r =>
        match r with
        | some a => .ok a
        | none => .unsup "no builder choice matches the value (the converter prints an empty argument)"
    | .array p _ elem valueAs =>
      (evalPath env p).bind fun v =>
        match v with
        | .nil => .ok (.list [])
        | .slice vs => (runArgList c fuel env elem valueAs vs).map .list
        | _ => .unsup "ill-typed value (slice expected)"
    | .map p _ elem valueAs =>
      (evalPath env p).bind fun v =>
        match v with
        | .nil => .ok (.dict [])
        | .gomap kvs => (runArgDict c fuel env elem valueAs kvs).map .dict
        | _ => .unsup "ill-typed value (map expected)"
/-- `var arg string; if <guards1> { arg = B1Converter(v) }; if <guards2> { arg = B2Converter(v) } …`: the last
    candidate whose guards hold wins -/
def runChoices (c : Ctx) : Nat → VEnv → GoVal → List (List Guard × String) → Option Arg → BRes (Option Arg)
  | 0, _, _, _, _ => .fuel
  | _ + 1, _, _, [], acc => .ok acc
  | fuel + 1, env, v, (guards, name) :: rest, acc =>
    (evalGuards env guards).bind fun ok =>
      if !ok then runChoices c fuel env v rest acc else
      match findBuilderByName c.bs name with
      | none => .unsup ("no builder " ++ name)
      | some b => (runConverter c fuel b v).bind fun r => runChoices c fuel env v rest (some (.builder name r.1 r.2))
def runArgList (c : Ctx) : Nat → VEnv → ArgMap → String → List GoVal → BRes (List Arg)
  | 0, _, _, _, _ => .fuel
  | _ + 1, _, _, _, [] => .ok []
  | fuel + 1, env, elem, valueAs, v :: vs =>
    (runArg c fuel ((valueAs, v) :: env) elem).bind fun a =>
      (runArgList c fuel env elem valueAs vs).map (a :: ·)
def runArgDict (c : Ctx) : Nat → VEnv → ArgMap → String → List (String × GoVal) → BRes (List (String × Arg))
  | 0, _, _, _, _ => .fuel
  | _ + 1, _, _, _, [] => .ok []
  | fuel + 1, env, elem, valueAs, (k, v) :: kvs =>
    (runArg c fuel ((valueAs, v) :: env) elem).bind fun a =>
      (runArgDict c fuel env elem valueAs kvs).map ((k, a) :: ·)
def runArgs (c : Ctx) : Nat → VEnv → List ArgMap → BRes (List Arg)
  | 0, _, _ => .fuel
  | _ + 1, _, [] => .ok []
  | fuel + 1, env, am :: rest =>
    (runArg c fuel env am).bind fun a => (runArgs c fuel env rest).map (a :: ·)
/-- `option_mapping` -/
def runOptMap (c : Ctx) : Nat → VEnv → OptMap → BRes (List Call)
  | 0, _, _ => .fuel
  | fuel + 1, env, om =>
    (evalGuards env om.argGuards).bind fun ok =>
      if !ok then .ok []
      else (runArgs c fuel env om.args).map fun as => [Call.mk om.opt.name as]
def runOptMaps (c : Ctx) : Nat → VEnv → List OptMap → BRes (List Call)
  | 0, _, _ => .fuel
  | _ + 1, _, [] => .ok []
  | fuel + 1, env, om :: rest =>
    (runOptMap c fuel env om).bind fun cs => (runOptMaps c fuel env rest).map (cs ++ ·)
/-- the `for … range` of a conversion mapping -/
def runRepeat (c : Ctx) : Nat → VEnv → ConvMap → List (GoVal × GoVal) → BRes (List Call)
  | 0, _, _, _ => .fuel
  | _ + 1, _, _, [] => .ok []
  | fuel + 1, env, m, (k, v) :: rest =>
    (runOptMaps c fuel ((m.repeatAs, v) :: (m.repeatIndex, k) :: env) m.options).bind fun cs =>
      (runRepeat c fuel env m rest).map (cs ++ ·)
/-- `conversion_mapping`: the first option's guards wrap the whole mapping -/
def runConvMap (c : Ctx) : Nat → VEnv → ConvMap → BRes (List Call)
  | 0, _, _ => .fuel
  | fuel + 1, env, m =>
    let guards := match m.options with | om :: _ => om.guards | [] => []
    (evalGuards env guards).bind fun ok =>
      if !ok then .ok [] else
      match m.repeatFor with
      | none => runOptMaps c fuel env m.options
      | some p =>
        (evalPath env p).bind fun coll =>
          match coll with
          | .nil => .ok []
          | .slice vs => runRepeat c fuel env m (vs.map fun v => (GoVal.nil, v))
          | .gomap kvs => runRepeat c fuel env m (kvs.map fun kv => (GoVal.str kv.1, kv.2))
          | _ => .unsup "ill-typed value (collection expected)"
def runConvMaps (c : Ctx) : Nat → VEnv → List ConvMap → BRes (List Call)
  | 0, _, _ => .fuel
  | _ + 1, _, [] => .ok []
  | fuel + 1, env, m :: rest =>
    (runConvMap c fuel env m).bind fun cs => (runConvMaps c fuel env rest).map (cs ++ ·)
def runCtorArgs (c : Ctx) : Nat → VEnv → List (Builder.Path × Ty) → BRes (List Arg)
  | 0, _, _ => .fuel
  | _ + 1, _, [] => .ok []
  | fuel + 1, env, (p, t) :: rest =>
    (runArg c fuel env (.direct p t)).bind fun a => (runCtorArgs c fuel env rest).map (a :: ·)
/-- `func XConverter(input T) string`, abstractly: constructor arguments and option calls -/
def runConverter (c : Ctx) : Nat → Builder → GoVal → BRes (List Arg × List Call)
  | 0, _, _ => .fuel
  | fuel + 1, b, v =>
    let cv := mkConverter c b
    let env : VEnv := [("input", v)]
    (runCtorArgs c fuel env cv.ctorArgs).bind fun ctor =>
      (runConvMaps c fuel env cv.mappings).map fun calls => (ctor, calls)
end

/-- `convert`: the abstract call list the generated converter prints for `v` -/
def convert (c : Ctx) (b : Builder) (v : GoVal) : BRes (List Arg × List Call) := runConverter c 64 b v

/-- `replay`: compile and run the printed expression = C09's builder semantics on the call list -/
def replay (c : Ctx) (b : Builder) (r : List Arg × List Call) : BRes BState := runBuilder 16 c b r.1 r.2

end Cog.Sem.Conv
