/-
  Values of generated Go types and `encoding/json` marshalling of them (what `json.Marshal`
  does on the types cog's Go jenny emits).  A decoded value carries everything marshalling
  depends on (omitempty flags, union branches), so `goEncode` is structural.
-/
import Cog.Sem.Json
namespace Cog.Sem

inductive GoVal where
  | nil                                              -- nil pointer / slice / map / interface
  | bool (b : Bool)
  | int (n : Int)
  | float (q : Int)                                  -- value q/4
  | str (s : String)                                 -- string, enum-of-string, time.Time and []byte as text
  | ptr (v : GoVal)                                  -- non-nil pointer
  | slice (vs : List GoVal)                          -- non-nil slice
  | gomap (kvs : List (String × GoVal))              -- non-nil map, unique keys
  | struct (fields : List (String × Bool × GoVal))   -- (json key, omitempty, value) in declaration order
  | union (branches : List (String × GoVal))         -- struct generated from a disjunction (custom MarshalJSON)
  | iface (j : Json)                                 -- non-nil `any` holding generic decoded JSON
  | time (s : String)                                -- time.Time (a struct: never "empty")
  deriving Inhabited

namespace GoVal

/-- `omitempty`: false, 0, nil pointer, nil interface, and any array/slice/map/string of length 0 -/
def isEmpty : GoVal → Bool
  | nil => true
  | bool b => !b
  | int n => n == 0
  | float q => q == 0
  | str s => s == ""
  | slice vs => vs.isEmpty
  | gomap kvs => kvs.isEmpty
  | _ => false

def isNil : GoVal → Bool | nil => true | _ => false

/- generic re-encoding of an `any` (map[string]any keys are sorted by encoding/json) -/
mutual
def ifaceEnc : Json → Json
  | .obj kvs => .obj (ifaceEncMembers kvs)
  | .arr xs => .arr (ifaceEncList xs)
  | j => j
def ifaceEncList : List Json → List Json
  | [] => []
  | x :: xs => ifaceEnc x :: ifaceEncList xs
def ifaceEncMembers : List (String × Json) → List (String × Json)
  | [] => []
  | (k, v) :: t => Json.insertSorted k (ifaceEnc v) (ifaceEncMembers t)
end

mutual
def goEncode : GoVal → Json
  | nil => .null
  | bool b => .bool b
  | int n => .num (n * 4)
  | float q => .num q
  | str s => .str s
  | time s => .str s
  | ptr v => goEncode v
  | slice vs => .arr (encList vs)
  | gomap kvs => .obj (encMap kvs)
  | struct fs => .obj (encFields fs)
  | union bs => encUnion bs
  | iface j => ifaceEnc j
def encList : List GoVal → List Json
  | [] => []
  | v :: vs => goEncode v :: encList vs
def encMap : List (String × GoVal) → List (String × Json)
  | [] => []
  | (k, v) :: t => Json.insertSorted k (goEncode v) (encMap t)
def encFields : List (String × Bool × GoVal) → List (String × Json)
  | [] => []
  | (k, om, v) :: t => if om && isEmpty v then encFields t else (k, goEncode v) :: encFields t
def encUnion : List (String × GoVal) → Json
  | [] => .null
  | (_, v) :: t => if isNil v then encUnion t else goEncode v
end

end GoVal
end Cog.Sem
