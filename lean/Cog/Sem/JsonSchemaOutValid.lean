/-
  C12 — validation lemmas: `jsValid` on the node shapes the emitter writes.
-/
import Cog.Sem.JsonSchemaOutDescribes
import Cog.Sem.JsonSchemaOutCarry
import Cog.Sem.RoundTrip
namespace Cog.Sem.JSOut
open Cog.IR Cog.Sem GoVal
open Cog.OMap (rget rset rget_rset)

/-- the resolver `jsValid` hands to `vNode` -/
def Rec (D : Def) (F : Nat) : String → Json → Bool :=
  fun name x => match rget name D with
    | some nd => jsValid D F nd x
    | none => false

theorem jsValid_succ (D : Def) (F : Nat) (n : JS) (j : Json) :
    jsValid D (F + 1) n j = vNode (Rec D F) n j := rfl

/-- the check `vKws` makes for one entry of a node -/
def entryCheck (R : String → Json → Bool) (props : List String) (k : String) (s : JS) (j : Json) : Bool :=
  vKws R props [(k, s)] j

theorem vKws_cons (R : String → Json → Bool) (props : List String) (k : String) (s : JS)
    (rest : Def) (j : Json) :
    vKws R props ((k, s) :: rest) j = (entryCheck R props k s j && vKws R props rest j) := by
  -- (case split first: the unsplit unfolding lemma of `vKws` yields a term the kernel rejects)
  cases s <;> cases j <;> simp only [entryCheck, vKws, Bool.and_true]

theorem vKws_all (R : String → Json → Bool) (props : List String) (d : Def) (j : Json) :
    vKws R props d j = true ↔ ∀ e ∈ d, entryCheck R props e.1 e.2 j = true := by
  induction d with
  | nil => simp [vKws]
  | cons e t ih =>
    obtain ⟨k, s⟩ := e
    rw [vKws_cons]
    simp [ih]

theorem vNode_obj (R : String → Json → Bool) (d : Def) (j : Json) (h : rget "$ref" d = none) :
    vNode R (.obj d) j = vKws R (propNames d) d j := by
  simp only [vNode, h]

theorem vNode_ref (R : String → Json → Bool) (d : Def) (j : Json) (x : String) (h : rget "$ref" d = some (.ref x)) :
    vNode R (.obj d) j = R x j := by
  simp only [vNode, h]

/-! ### annotations do not matter -/

theorem entryCheck_ann (R : String → Json → Bool) (props : List String) (k : String) (s : JS) (j : Json)
    (h : isAnn k = true) : entryCheck R props k s j = true := by
  simp only [isAnn, Bool.or_eq_true, beq_iff_eq] at h
  rcases h with h | h <;> subst h <;> cases s <;> simp [entryCheck, vKws, kwLeaf, numKw]

theorem rget_core (k : String) (d : Def) (h : isAnn k = false) : rget k (core d) = rget k d := by
  induction d with
  | nil => rfl
  | cons e t ih =>
    obtain ⟨a, b⟩ := e
    simp only [core, List.filter_cons] at ih ⊢
    by_cases ha : isAnn a = true
    · have hne : ¬ a = k := by intro c; subst c; rw [h] at ha; exact Bool.noConfusion ha
      simp [ha, rget, hne, ih]
    · simp only [Bool.not_eq_true] at ha
      simp only [ha, Bool.not_false, if_true, rget]
      split
      · rfl
      · exact ih

theorem vKws_core (R : String → Json → Bool) (props : List String) (d : Def) (j : Json) :
    vKws R props (core d) j = vKws R props d j := by
  induction d with
  | nil => rfl
  | cons e t ih =>
    obtain ⟨a, b⟩ := e
    simp only [core, List.filter_cons] at ih ⊢
    by_cases ha : isAnn a = true
    · simp only [ha, Bool.not_true, Bool.false_eq_true, if_false, vKws_cons, entryCheck_ann R props a b j ha,
        Bool.true_and]
      exact ih
    · simp only [Bool.not_eq_true] at ha
      simp only [ha, Bool.not_false, if_true, vKws_cons, ih]

theorem propNames_core (d : Def) : propNames (core d) = propNames d := by
  simp only [propNames, rget_core "properties" d (by decide)]

theorem vNode_core (R : String → Json → Bool) (d : Def) (j : Json) :
    vNode R (.obj (core d)) j = vNode R (.obj d) j := by
  simp only [vNode, rget_core "$ref" d (by decide), propNames_core, vKws_core]

/-! ### one `$ref` step -/

theorem deref_valid {D : Def} {node nd : Def} (h : deref D (core node) = some nd) {k F : Nat} (hF : k + 1 ≤ F)
    (x : Json) (hv : ∀ F', k ≤ F' → vNode (Rec D F') (.obj nd) x = true) :
    vNode (Rec D F) (.obj node) x = true := by
  unfold deref at h
  split at h
  · rename_i r hr
    split at h
    · rename_i full hfull
      cases h
      rw [← vNode_core, vNode_ref _ _ _ _ hr]
      obtain ⟨F0, rfl⟩ : ∃ F0, F = F0 + 1 := ⟨F - 1, by omega⟩
      simp only [Rec, hfull, jsValid_succ]
      rw [← vNode_core]
      exact hv F0 (by omega)
    · simp at h
  · simp at h
  · cases h
    rw [← vNode_core]
    exact hv F (by omega)

/-! ### node shapes -/

theorem isArrayNode_some {d e : Def} (h : isArrayNode d = some e) :
    d = [("type", .str "array"), ("items", .obj e)] := by
  unfold isArrayNode at h
  split at h
  · split at h
    · rename_i hc; obtain ⟨h1, h2, h3⟩ := hc; cases h; subst h1 h2 h3; rfl
    · simp at h
  · simp at h

theorem isMapNode_some {d e : Def} (h : isMapNode d = some e) :
    d = [("type", .str "object"), ("additionalProperties", .obj e)] := by
  unfold isMapNode at h
  split at h
  · split at h
    · rename_i hc; obtain ⟨h1, h2, h3⟩ := hc; cases h; subst h1 h2 h3; rfl
    · simp at h
  · simp at h

theorem isStructNode_some {d : Def} {rs : List JS} {ps : Def} (h : isStructNode d = some (rs, ps)) :
    (rs = [] ∧ d = [("type", .str "object"), ("additionalProperties", .bool false), ("properties", .obj ps)]) ∨
    d = [("type", .str "object"), ("additionalProperties", .bool false), ("required", .arr rs), ("properties", .obj ps)] := by
  unfold isStructNode at h
  split at h
  · split at h
    · rename_i hc; obtain ⟨h1, h2, h3, h4, h5⟩ := hc; cases h; subst h1 h2 h3 h4 h5; exact Or.inl ⟨rfl, rfl⟩
    · simp at h
  · split at h
    · rename_i hc; obtain ⟨h1, h2, h3, h4, h5, h6⟩ := hc; cases h; subst h1 h2 h3 h4 h5 h6; exact Or.inr rfl
    · simp at h
  · simp at h

theorem isAnyOfNode_some {d : Def} {ns : List JS} (h : isAnyOfNode d = some ns) : d = [("anyOf", .arr ns)] := by
  unfold isAnyOfNode at h
  split at h
  · split at h
    · rename_i hc; cases h; subst hc; rfl
    · simp at h
  · simp at h

theorem isEnumNode_some {d : Def} {xs : List JS} (h : isEnumNode d = some xs) : d = [("enum", .arr xs)] := by
  unfold isEnumNode at h
  split at h
  · split at h
    · rename_i hc; cases h; subst hc; rfl
    · simp at h
  · simp at h

theorem valid_array (R : String → Json → Bool) (e : Def) (xs : List Json) :
    vNode R (.obj [("type", .str "array"), ("items", .obj e)]) (.arr xs) = xs.all (fun x => vNode R (.obj e) x) := by
  simp [vNode, rget, vKws, propNames, kwLeaf, typeOK]

theorem valid_map (R : String → Json → Bool) (e : Def) (ms : List (String × Json)) :
    vNode R (.obj [("type", .str "object"), ("additionalProperties", .obj e)]) (.obj ms) =
      ms.all (fun kv => vNode R (.obj e) kv.2) := by
  simp [vNode, rget, vKws, propNames, kwLeaf, typeOK]

theorem valid_anyOf (R : String → Json → Bool) (ns : List JS) (j : Json) :
    vNode R (.obj [("anyOf", .arr ns)]) j = vAny R ns j := by
  simp [vNode, rget, vKws, propNames]

theorem valid_enum (R : String → Json → Bool) (xs : List JS) (j : Json) :
    vNode R (.obj [("enum", .arr xs)]) j = enumOK xs j := by
  simp [vNode, rget, vKws, propNames, kwLeaf]

theorem valid_struct_noreq (R : String → Json → Bool) (ps : Def) (ms : List (String × Json)) :
    vNode R (.obj [("type", .str "object"), ("additionalProperties", .bool false), ("properties", .obj ps)]) (.obj ms) =
      (ms.all (fun kv => (ps.map (·.1)).contains kv.1) && vProps R ps ms) := by
  simp [vNode, rget, vKws, propNames, kwLeaf, typeOK]

theorem valid_struct_req (R : String → Json → Bool) (rs : List JS) (ps : Def) (ms : List (String × Json)) :
    vNode R (.obj [("type", .str "object"), ("additionalProperties", .bool false), ("required", .arr rs),
        ("properties", .obj ps)]) (.obj ms) =
      (ms.all (fun kv => (ps.map (·.1)).contains kv.1) &&
        ((strsOf rs).all (fun n => (Json.lookup n ms).isSome) && vProps R ps ms)) := by
  simp [vNode, rget, vKws, propNames, kwLeaf, typeOK]

theorem vAny_mem (R : String → Json → Bool) (ns : List JS) (n : JS) (j : Json) (hm : n ∈ ns)
    (hv : vNode R n j = true) : vAny R ns j = true := by
  induction ns with
  | nil => simp at hm
  | cons a t ih =>
    simp only [vAny, Bool.or_eq_true]
    rcases List.mem_cons.1 hm with h | h
    · subst h; exact Or.inl hv
    · exact Or.inr (ih h)

end Cog.Sem.JSOut
