/-
  C02, Python declaration fragment: the decidable hypotheses of `C02_py_declarations_wellformed_partial`.

  `PyPrintable cfg ss s`: schema `s` (inside the schema set `ss`) is in the normal form the Python printers
  handle: every type is built from known scalar kinds, constants whose `%#v` text is a Python literal,
  references that resolve (same module: quoted forward reference; sibling module: it exists and declares the
  name), arrays, maps, anonymous enums and non-empty disjunctions; no intersection, composable slot, nested
  anonymous struct or kind-less type; structs have at least one field; enum objects are non-empty and their
  values fit `StrEnum` / `IntEnum`; comments stay on their line; defaults print as literals.
  `wfNamesPy cfg ss s`: identifiers are valid and unique AFTER cog's own escaping (formatObjectName,
  formatIdentifier, UpperSnakeCase).
-/
import Cog.Sem.PyDeclCheck
namespace Cog.Sem.PyDecl
open Cog Cog.IR Cog.OMap

def knownKinds : List String :=
  ["null", "any", "bytes", "string", "float32", "float64", "uint8", "uint16", "uint32", "uint64",
   "int8", "int16", "int32", "int64", "bool"]

mutual
/-- `formatValue v` is a Python literal -/
def valueOk : Val → Bool
  | .nil => true
  | .bool _ => true
  | .list xs => valuesOk xs
  | .int .. => true
  | .float _ r => floatTextOk r
  | .jnum s => asciiStr s
  | .str s => asciiStr s
  | .map _ => false
  | .other .. => false
def valuesOk : List Val → Bool
  | [] => true
  | v :: vs => valueOk v && valuesOk vs
end

def enumValsOk : List EnumVal → Bool
  | [] => true
  | v :: vs => valueOk v.value && enumValsOk vs

/-- a reference resolves: to a constant object (printed as its `Literal`), to a class of the same module
    (quoted, the name is an identifier) or to a name declared by an existing sibling module -/
def refOk (ss : Schemas) (cur p n : String) : Bool := evalOk ss (fmtRef ss cur p n)

mutual
def tyOk (ss : Schemas) (cur : String) : Ty → Bool
  | .scalar k v _ _ => if Val.isNil v then knownKinds.contains k else valueOk v
  | .ref p n _ => refOk ss cur p n
  | .cref p n _ _ => crefTypeText ss p n == "str" || crefTypeText ss p n == "int"
  | .array e _ => tyOk ss cur e
  | .map i v _ => tyOk ss cur i && tyOk ss cur v
  | .struct .. => false
  | .enum vs _ => !vs.isEmpty && enumValsOk vs
  | .disj bs _ _ => !bs.isEmpty && tysOk ss cur bs
  | .inter .. => false
  | .slot .. => false
  | .bad .. => false
def tysOk (ss : Schemas) (cur : String) : List Ty → Bool
  | [] => true
  | t :: ts => tyOk ss cur t && tysOk ss cur ts
end

/-- what `__init__` prints for the field is well formed: the parameter default is a literal, the
    right-hand side of the assignment parses and the sibling modules it names exist -/
def fieldInitOk (cfg : Cfg) (ss : Schemas) (cur : String) (f : Field) : Bool :=
  (match (initField cfg ss cur f).1 with | some p => evalOk ss p.dflt | none => true)
    && (match (initField cfg ss cur f).2 with
        | .assign _ e => synOk e && (exprAliases e).all (aliasOk ss)
        | .assignOr _ e => synOk e && (exprAliases e).all (aliasOk ss)
        | .assignParam _ => true)

def fieldPrintable (cfg : Cfg) (ss : Schemas) (cur : String) (f : Field) : Bool :=
  f.comments.all lineOk && tyOk ss cur f.ty && (unmodelledField f).isNone && fieldInitOk cfg ss cur f

def fieldsPrintable (cfg : Cfg) (ss : Schemas) (cur : String) : List Field → Bool
  | [] => true
  | f :: fs => fieldPrintable cfg ss cur f && fieldsPrintable cfg ss cur fs

def enumFits (kind : String) (v : EnumVal) : Bool :=
  if kind == "string" then isStrLit (sharpLit v.value) else isIntLike (sharpLit v.value)

def objPrintable (cfg : Cfg) (ss : Schemas) (cur : String) (o : Obj) : Bool :=
  match o.ty with
  | .scalar k v c m => o.comments.all lineOk && tyOk ss cur (.scalar k v c m) && valueOk v
  | .enum vs _ =>
    (match vs with
      | [] => false
      | v :: _ => docOk o.comments && vs.all (enumFits v.kind))
  | .struct fs _ _ m => docOk o.comments && !hasHint m "implements_variant" && !fs.isEmpty && fieldsPrintable cfg ss cur fs
  | t => o.comments.all lineOk && tyOk ss cur t

def objsPrintable (cfg : Cfg) (ss : Schemas) (cur : String) : List (String × Obj) → Bool
  | [] => true
  | (_, o) :: os => objPrintable cfg ss cur o && objsPrintable cfg ss cur os

def reservedPkgs : List String := ["typing", "enum", "variants", "cogvariants"]

def PyPrintable (cfg : Cfg) (ss : Schemas) (s : Schema) : Bool :=
  !reservedPkgs.contains s.pkg && objsPrintable cfg ss s.pkg s.objects

/-! ### names -/

def paramNames (cfg : Cfg) : List Field → List String
  | [] => []
  | f :: fs => (if isConcrete f.ty then [] else [fmtIdent cfg f.name]) ++ paramNames cfg fs

def objNamesOk (cfg : Cfg) (o : Obj) : Bool :=
  pyIdent (fmtObjName o.name) && (match o.ty with
    | .struct fs _ _ _ =>
      fs.all (fun f => pyIdent (fmtIdent cfg f.name) && fmtIdent cfg f.name != "self") && nodupS (paramNames cfg fs)
    | .enum vs _ => vs.all (fun v => pyIdent (upperSnake cfg v.name)) && nodupS (vs.map fun v => upperSnake cfg v.name)
    | _ => true)

def objsNamesOk (cfg : Cfg) : List (String × Obj) → Bool
  | [] => true
  | (_, o) :: os => objNamesOk cfg o && objsNamesOk cfg os

def wfNamesPy (cfg : Cfg) (s : Schema) : Bool := objsNamesOk cfg s.objects

end Cog.Sem.PyDecl
