/-
  Semantics of the Go types cog generates, as `encoding/json` sees them: `goDecode` is
  `json.Unmarshal` into the generated type of an IR type (post Go-chain IR), defined by recursion
  on fuel (references are unfolded through the schemas).  Mirrors
  internal/jennies/golang/types.go (Go type of an IR type, json tags) and the two custom
  unmarshallers templates/types/disjunction_of_{scalars,refs}.json_unmarshal.tmpl.

  Outside the model (→ `unsup`): anonymous structs/enums/unions left in field position,
  intersections, composable slots, non-string map keys, `bytes`, numbers that are not multiples
  of 0.25, integers ≥ 2^53 inside `any` (float64 rounding; a recorded finding).
-/
import Cog.Sem.GoVal
import Cog.IR.Basic
namespace Cog.Sem
open Cog.IR

inductive DRes (α : Type) where
  | ok (a : α)
  | err                      -- the decoder returns an error
  | unsup (why : String)     -- construct outside the modelled fragment
  | fuel                     -- out of fuel (alias cycle or fuel too small)
  deriving Inhabited

namespace DRes
def bind {α β} (x : DRes α) (f : α → DRes β) : DRes β :=
  match x with
  | ok a => f a
  | err => err
  | unsup w => unsup w
  | fuel => fuel
def map {α β} (f : α → β) (x : DRes α) : DRes β := bind x (fun a => ok (f a))
end DRes

def mapRes {α β} (f : α → DRes β) : List α → DRes (List β)
  | [] => .ok []
  | x :: xs => (f x).bind fun y => (mapRes f xs).bind fun ys => .ok (y :: ys)

def intRange : String → Option (Int × Int)
  | "int8" => some (-128, 127)
  | "int16" => some (-32768, 32767)
  | "int32" => some (-2147483648, 2147483647)
  | "int64" => some (-9223372036854775808, 9223372036854775807)
  | "uint8" => some (0, 255)
  | "uint16" => some (0, 65535)
  | "uint32" => some (0, 4294967295)
  | "uint64" => some (0, 18446744073709551615)
  | _ => none

def zeroTime : String := "0001-01-01T00:00:00Z"

/- does a generic JSON value survive a trip through `any` (float64 numbers) exactly? -/
mutual
def anyExact : Json → Bool
  | .num q => decide (q.natAbs < 36028797018963968)   -- |q/4| < 2^53
  | .arr xs => anyExactList xs
  | .obj kvs => anyExactMembers kvs
  | _ => true
def anyExactList : List Json → Bool
  | [] => true
  | x :: xs => anyExact x && anyExactList xs
def anyExactMembers : List (String × Json) → Bool
  | [] => true
  | (_, v) :: t => anyExact v && anyExactMembers t
end

/-- zero value / decoding of a scalar kind (non-pointer); `dt` = string_format_datetime hint -/
def decodeScalar (kind : String) (dt : Bool) (j : Json) : DRes GoVal :=
  if kind = "string" then
    if dt then
      match j with
      | .str s => .ok (.time s)
      | .null => .ok (.time zeroTime)
      | _ => .err
    else
      match j with
      | .str s => .ok (.str s)
      | .null => .ok (.str "")
      | _ => .err
  else if kind = "bool" then
    match j with
    | .bool b => .ok (.bool b)
    | .null => .ok (.bool false)
    | _ => .err
  else if kind = "any" then
    match j with
    | .null => .ok .nil
    | j => if anyExact j then .ok (.iface j) else .unsup "any: integer beyond 2^53"
  else if kind = "float32" ∨ kind = "float64" then
    match j with
    | .num q => .ok (.float q)
    | .null => .ok (.float 0)
    | _ => .err
  else match intRange kind with
    | some (lo, hi) =>
      match j with
      | .num q => if q % 4 = 0 ∧ lo ≤ q / 4 ∧ q / 4 ≤ hi then .ok (.int (q / 4)) else .err
      | .null => .ok (.int 0)
      | _ => .err
    | none => .unsup ("scalar kind " ++ kind)

def hasHint (m : Meta) (h : String) : Bool := m.hints.any (fun kv => kv.1 == h)

/-- pointer wrapping for nullable scalars / refs / structs -/
def wrapPtr (nullable : Bool) (j : Json) (r : DRes GoVal) : DRes GoVal :=
  if nullable then (if j.isNull then .ok .nil else r.map .ptr) else r

def asciiLower (s : String) : String := s.map fun c => if 'A' ≤ c ∧ c ≤ 'Z' then Char.ofNat (c.toNat + 32) else c

/-- the struct field `encoding/json` stores a JSON member with key `key` into: the field with
    exactly that name, else the first field whose name matches case-insensitively (ASCII) -/
def targetField (names : List String) (key : String) : Option String :=
  if names.contains key then some key
  else names.find? (fun n => asciiLower n == asciiLower key)

/-- the JSON member that ends up in field `name` (the last one stored into it wins) -/
def memberFor (names : List String) (name : String) (members : List (String × Json)) : Option Json :=
  ((members.filter (fun kv => targetField names kv.1 == some name)).getLast?).map (·.2)

/-- decoding of the fields of a Go struct from a JSON object's members -/
def decodeFieldsWith (dec : Ty → Json → DRes GoVal) (fields : List Field)
    (members : List (String × Json)) : DRes (List (String × Bool × GoVal)) :=
  mapRes (fun (f : Field) =>
    (dec f.ty ((memberFor (fields.map (·.name)) f.name members).getD .null)).map
      fun v => (f.name, !f.required, v)) fields

/-- scalars-union (`disjunction_of_scalars`): branches tried in field order, first that decodes wins -/
def decodeScalarUnionWith (dec : Ty → Json → DRes GoVal) (j : Json) :
    List Field → List (String × GoVal) → DRes (List (String × GoVal))
  | [], _ => .err
  | f :: rest, before =>
    -- the branch variable has the field's type without the pointer
    match dec (f.ty.setMeta { f.ty.getMeta with nullable := false }) j with
    | .ok v =>
      let stored := if f.ty.isArray || f.ty.isMap then v else .ptr v
      .ok (before ++ [(f.name, stored)] ++ rest.map fun g => (g.name, .nil))
    | .err => decodeScalarUnionWith dec j rest (before ++ [(f.name, .nil)])
    | .unsup w => .unsup w
    | .fuel => .fuel

def fieldByRefName (fields : List Field) (refName : String) : Option Field :=
  fields.find? fun f => match f.ty with | .ref _ n _ => n == refName | _ => false

/-- `[]uint8` is `[]byte`: encoding/json marshals it as a base64 string (outside the model; a
    recorded finding for CUE `[...uint8]`) -/
def isByteElem : Ty → Bool
  | .scalar "uint8" _ _ m => !m.nullable
  | _ => false

def goDecode : Nat → Schemas → Ty → Json → DRes GoVal
  | 0, _, _, _ => .fuel
  | fuel + 1, ss, t, j =>
    match t with
    | .scalar kind _ _ m =>
      if kind = "bytes" then .unsup "bytes"
      else if kind = "any" then decodeScalar kind false j
      else wrapPtr m.nullable j (decodeScalar kind (hasHint m "string_format_datetime") j)
    | .array e _ =>
      if isByteElem e then .unsup "[]uint8 is []byte (base64)" else
      match j with
      | .null => .ok .nil
      | .arr xs => (mapRes (goDecode fuel ss e) xs).map .slice
      | _ => .err
    | .map idx v _ =>
      match idx with
      | .scalar "string" _ _ _ =>
        match j with
        | .null => .ok .nil
        | .obj kvs =>
          (mapRes (fun (kv : String × Json) => (goDecode fuel ss v kv.2).map fun x => (kv.1, x)) kvs).map
            fun l => .gomap (l.foldl (fun acc kv => Cog.OMap.rset kv.1 kv.2 acc) [])
        | _ => .err
      | _ => .unsup "map with non-string index"
    | .ref pkg name m =>
      match Schemas.locateObject ss pkg name with
      | none => .unsup "dangling reference"
      | some o =>
        match o.ty with
        | .struct fields _ none _ =>
          wrapPtr m.nullable j (match j with
            | .obj members => (decodeFieldsWith (goDecode fuel ss) fields members).map .struct
            | .null => (decodeFieldsWith (goDecode fuel ss) fields []).map .struct
            | _ => .err)
        | .struct fields _ (some (hint, info)) _ =>
          wrapPtr m.nullable j (
            if hint = "disjunction_of_scalars" then
              (decodeScalarUnionWith (goDecode fuel ss) j fields []).map .union
            else
              let none_ : List (String × GoVal) := fields.map fun f => (f.name, .nil)
              match j with
              -- `json.Unmarshal("null", &parsedAsMap)` succeeds, no discriminator: empty union
              | .null => .ok (.union none_)
              | .obj members =>
                match Json.lookup info.discriminator members with
                | none => .ok (.union none_)
                | some d =>
                  let target : Option String :=
                    match d with
                    | .str tag =>
                      match (info.mapping.find? fun kv => kv.1 == tag) with
                      | some kv => some kv.2
                      | none => (info.mapping.find? fun kv => kv.1 == "cog_discriminator_catch_all").map (·.2)
                    | _ => (info.mapping.find? fun kv => kv.1 == "cog_discriminator_catch_all").map (·.2)
                  match target with
                  | none => .ok (.union none_)
                  | some tn =>
                    match fieldByRefName fields tn with
                    | none => .unsup "mapping target is not a branch"
                    | some bf =>
                      (goDecode fuel ss (.ref pkg tn {}) j).map fun v =>
                        .union (fields.map fun f => (f.name, if f.name == bf.name then .ptr v else .nil))
              | _ => .err)
        | .enum (v0 :: _) _ =>
          wrapPtr m.nullable j (decodeScalar v0.kind false j)
        | .scalar kind _ _ om =>
          -- alias of a scalar (`type X string`) or a constant: the field uses the scalar type itself
          if kind = "bytes" then .unsup "bytes" else
          wrapPtr m.nullable j (decodeScalar kind (hasHint om "string_format_datetime") j)
        | .array .. | .map .. => goDecode fuel ss o.ty j
        | .ref p n om => goDecode fuel ss (.ref p n { om with nullable := m.nullable }) j
        | _ => .unsup "object kind"
    | .cref pkg name _ _ => goDecode fuel ss (.ref pkg name {}) j
    | _ => .unsup ("type kind " ++ t.kind)

/-- decode a document into the named object and re-encode it (what the lab driver's `dec` does) -/
def goRoundTrip (fuel : Nat) (ss : Schemas) (pkg name : String) (j : Json) : DRes Json :=
  (goDecode fuel ss (.ref pkg name {}) j).map GoVal.goEncode

end Cog.Sem
