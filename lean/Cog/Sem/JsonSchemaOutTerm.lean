/-
  C12 — the foreign-object loop of `GenerateSchema` terminates (after fix 56f489a): every round that
  writes a definition records a queue key that was not recorded before, and queue keys are
  `SelfRef.String()` of objects of the loaded schemas.  `emitFuel S` rounds always suffice.
-/
import Cog.Sem.JsonSchemaOutLemmas
namespace Cog.Sem.JSOut
open Cog.IR Cog.Sem
open Cog.OMap (rget rset)

/-- the queue keys that can ever occur -/
def allKeys (S : Schemas) : List String := (allObjs S).map selfKey

/-- keys not yet emitted -/
def remaining (K : List String) (em : List String) : Nat := (K.filter (fun k => !em.contains k)).length

theorem filter_len_mono {α : Type} (p q : α → Bool) (h : ∀ x, q x = true → p x = true) (l : List α) :
    (l.filter q).length ≤ (l.filter p).length := by
  induction l with
  | nil => simp
  | cons a t ih =>
    cases hp : p a <;> cases hq : q a
    · simpa [List.filter_cons, hp, hq] using ih
    · have := h a hq; rw [hp] at this; exact absurd this (by simp)
    · simp only [List.filter_cons, hp, hq, if_true, Bool.false_eq_true, if_false, List.length_cons]; omega
    · simpa [List.filter_cons, hp, hq] using ih

theorem filter_len_lt {α : Type} (p q : α → Bool) (h : ∀ x, q x = true → p x = true) (l : List α) (k : α)
    (hk : k ∈ l) (hp : p k = true) (hq : q k = false) : (l.filter q).length < (l.filter p).length := by
  induction l with
  | nil => simp at hk
  | cons a t ih =>
    have hle := filter_len_mono p q h t
    rcases List.mem_cons.1 hk with e | e
    · subst e
      simp only [List.filter_cons, hp, hq, if_true, Bool.false_eq_true, if_false, List.length_cons]; omega
    · have hlt := ih e
      cases hpa : p a <;> cases hqa : q a
      · simpa [List.filter_cons, hpa, hqa] using hlt
      · have := h a hqa; rw [hpa] at this; exact absurd this (by simp)
      · simp only [List.filter_cons, hpa, hqa, if_true, Bool.false_eq_true, if_false, List.length_cons]; omega
      · simpa [List.filter_cons, hpa, hqa] using hlt

theorem remaining_cons_lt (K : List String) (k : String) (em : List String) (hk : k ∈ K)
    (hn : em.contains k = false) : remaining K (k :: em) < remaining K em := by
  unfold remaining
  apply filter_len_lt (fun x => !em.contains x) (fun x => !(k :: em).contains x) _ K k hk
  · show (!em.contains k) = true
    rw [hn]; rfl
  · simp
  · intro x hx
    simp only [List.contains_cons, Bool.not_eq_true', Bool.or_eq_false_iff] at hx
    show (!em.contains x) = true
    rw [hx.2]; rfl

/-- every queued key is the key of an object of the loaded schemas -/
def PK (S : Schemas) (q : Pending) : Prop := ∀ e ∈ q, e.1 ∈ allKeys S

theorem pk_rset {S : Schemas} {q : Pending} (hq : PK S q) {o : Obj} (ho : o ∈ allObjs S) :
    PK S (rset (selfKey o) o q) := by
  induction q with
  | nil =>
    intro e he
    simp [rset] at he
    subst he
    exact List.mem_map.2 ⟨o, ho, rfl⟩
  | cons a t ih =>
    obtain ⟨k, v⟩ := a
    have ht : PK S t := fun e he => hq e (List.mem_cons_of_mem _ he)
    simp only [rset]
    split
    · intro e he
      rcases List.mem_cons.1 he with h | h
      · subst h; exact List.mem_map.2 ⟨o, ho, rfl⟩
      · exact hq e (List.mem_cons_of_mem _ h)
    · intro e he
      rcases List.mem_cons.1 he with h | h
      · subst h; exact hq _ (by simp)
      · exact ih ht e h

theorem pk_push {S : Schemas} (pkg : String) {q : Pending} (hq : PK S q) (r : String × String) :
    PK S (pushForeign S pkg q r) := by
  unfold pushForeign
  split
  · exact hq
  · split
    · rename_i o hl
      obtain ⟨s', hs', _, hmem⟩ := locateObject_some hl
      exact pk_rset hq (schemaObjs_sub hs' (by
        simp only [schemaObjs, List.mem_map]; exact ⟨(r.2, o), hmem, rfl⟩))
    · exact hq

theorem pk_fold {S : Schemas} (pkg : String) (rs : List (String × String)) {q : Pending} (hq : PK S q) :
    PK S (rs.foldl (pushForeign S pkg) q) := by
  induction rs generalizing q with
  | nil => exact hq
  | cons r rs ih => exact ih (pk_push pkg hq r)

theorem pk_runObjs {S : Schemas} (pkg : String) (objs : List Obj) {st : Def × Pending} (hq : PK S st.2) :
    PK S (runObjs S pkg objs st).2 := by
  induction objs generalizing st with
  | nil => exact hq
  | cons o rest ih =>
    simp only [runObjs, List.foldl_cons]
    exact ih (st := stepObj S pkg st o) (pk_fold pkg _ hq)

/-- one round: the queue stays well-keyed, the number of remaining keys does not grow, and either
    nothing was written (queue and emitted keys unchanged) or it strictly decreases -/
theorem runForeign_progress {S : Schemas} (pkg : String) (l : Pending) (hl : PK S l)
    (st : Def × Pending × List String) (hq : PK S st.2.1) :
    PK S (runForeign S pkg l st).2.1 ∧
    ((runForeign S pkg l st).2.1 = st.2.1 ∧ (runForeign S pkg l st).2.2 = st.2.2 ∨
      remaining (allKeys S) (runForeign S pkg l st).2.2 < remaining (allKeys S) st.2.2) := by
  induction l generalizing st with
  | nil => exact ⟨hq, Or.inl ⟨rfl, rfl⟩⟩
  | cons e rest ih =>
    have hrest : PK S rest := fun e' he' => hl e' (List.mem_cons_of_mem _ he')
    simp only [runForeign, List.foldl_cons]
    by_cases hc : st.2.2.contains e.1 = true
    · have hs : stepForeign S pkg st e = st := by unfold stepForeign; rw [if_pos hc]
      rw [hs]
      exact ih hrest st hq
    · have hc' : st.2.2.contains e.1 = false := by simpa using hc
      have hs : stepForeign S pkg st e =
          ((stepObj S pkg (st.1, st.2.1) e.2).1, (stepObj S pkg (st.1, st.2.1) e.2).2, e.1 :: st.2.2) := by
        unfold stepForeign; rw [if_neg hc]
      rw [hs]
      have hq' : PK S (stepObj S pkg (st.1, st.2.1) e.2).2 := pk_fold pkg _ hq
      obtain ⟨g1, g2⟩ := ih hrest ((stepObj S pkg (st.1, st.2.1) e.2).1, (stepObj S pkg (st.1, st.2.1) e.2).2, e.1 :: st.2.2) hq'
      simp only [runForeign] at g1 g2
      refine ⟨g1, Or.inr ?_⟩
      have hlt := remaining_cons_lt (allKeys S) e.1 st.2.2 (hl e (by simp)) hc'
      rcases g2 with ⟨_, h2⟩ | h2
      · rw [h2]; exact hlt
      · exact Nat.lt_trans h2 hlt

theorem closure_terminates (S : Schemas) (pkg : String) :
    ∀ (fuel : Nat) (d : Def) (q : Pending) (em : List String), PK S q →
      remaining (allKeys S) em + 2 ≤ fuel → (closure S pkg fuel d q em).isSome = true := by
  intro fuel
  induction fuel with
  | zero => intro d q em _ h; omega
  | succ n ih =>
    intro d q em hq hf
    simp only [closure]
    split
    · rfl
    · obtain ⟨g1, g2⟩ := runForeign_progress pkg q hq (d, [], em) (by intro e he; simp at he)
      rcases g2 with ⟨h1, h2⟩ | h2
      · -- nothing was written: the next round finds an empty queue
        simp only at h1 h2
        rw [h1]
        obtain ⟨m, rfl⟩ : ∃ m, n = m + 1 := ⟨n - 1, by omega⟩
        simp [closure]
      · exact ih _ _ _ g1 (by simp only at h2; omega)

theorem allObjs_length (S : Schemas) : (allObjs S).length = Schemas.objectCount S := by
  induction S with
  | nil => rfl
  | cons s t ih =>
    simp only [allObjs, List.length_append, ih, schemaObjs, List.length_map, Schemas.objectCount, List.map_cons,
      List.sum_cons]

theorem remaining_nil (K : List String) : remaining K [] = K.length := by
  simp [remaining]

/-- `GenerateSchema` terminates for every schema set: `emitFuel S` rounds suffice -/
theorem emitDefs_terminates (S : Schemas) (s : Schema) (fuel : Nat) (hf : emitFuel S ≤ fuel) :
    (emitDefs fuel S s).isSome = true := by
  apply closure_terminates S s.pkg fuel _ _ []
  · exact pk_runObjs s.pkg _ (st := ([], [])) (by intro e he; simp at he)
  · rw [remaining_nil]
    simp only [allKeys, List.length_map, allObjs_length]
    exact hf

end Cog.Sem.JSOut
