/-
  C02, Python declaration fragment: the text of a `PyModule`, byte for byte as cog writes
  `models/<pkg>.py` (before the generated-comment header is prepended).  Core Lean only.
-/
import Cog.Sem.PyDecl
namespace Cog.Sem.PyDecl
open Cog Cog.IR

def joinWith (sep : String) : List String → String
  | [] => ""
  | [x] => x
  | x :: xs => x ++ sep ++ joinWith sep xs

mutual
def renderE : PyE → String
  | .name n => n
  | .attr q n => q ++ "." ++ n
  | .attr2 q o n => (if q == "" then "" else q ++ ".") ++ o ++ "." ++ n
  | .quoted n => "'" ++ n ++ "'"
  | .sub h as => renderE h ++ "[" ++ renderEs as ++ "]"
  | .lit t _ => t
  | .listLit xs => "[" ++ renderEs xs ++ "]"
  | .call f => renderE f ++ "()"
  | .raw t => t
  | .crefTy t _ => t
  | .crash s => "<crash " ++ s ++ ">"
def renderEs : List PyE → String
  | [] => ""
  | [e] => renderE e
  | e :: es => renderE e ++ ", " ++ renderEs es
end

/-- `formatComments` -/
def renderComments (cs : List String) : String := String.join (cs.map fun c => "# " ++ c ++ "\n")

/-- `formatClassComments` -/
def renderClassComments (cs : List String) : String :=
  if cs.isEmpty then "" else "    \"\"\"\n" ++ String.join (cs.map fun c => "    " ++ c ++ "\n") ++ "    \"\"\"\n\n"

def renderField (f : PyField) : String :=
  String.join (f.comments.map fun c => "    # " ++ c ++ "\n") ++ "    " ++ f.name ++ ": " ++ renderE f.ann

def renderParam (p : PyParam) : String := p.name ++ ": " ++ renderE p.ann ++ " = " ++ renderE p.dflt

def renderStmt : PyStmt → String
  | .assign n e => "        self." ++ n ++ " = " ++ renderE e
  | .assignParam n => "        self." ++ n ++ " = " ++ n
  | .assignOr n e => "        self." ++ n ++ " = " ++ n ++ " if " ++ n ++ " is not None else " ++ renderE e

def renderDecl : PyDecl → String
  | .const cs n a v => renderComments cs ++ n ++ ": " ++ renderE a ++ " = " ++ renderE v
  | .alias cs n q t => renderComments cs ++ n ++ ": " ++ q ++ ".TypeAlias = " ++ renderE t
  | .enumCls n q b cs ms =>
    "class " ++ n ++ "(" ++ q ++ "." ++ b ++ "):\n" ++ renderClassComments cs
      ++ joinWith "\n" (ms.map fun (k, v) => "    " ++ k ++ " = " ++ renderE v)
  | .cls n cs fs ps b =>
    "class " ++ n ++ ":\n" ++ renderClassComments cs
      ++ (if fs.isEmpty then "    pass" else joinWith "\n" (fs.map renderField))
      ++ "\n\n" ++ "    def __init__(self, " ++ joinWith ", " (ps.map renderParam) ++ "):"
      ++ (if b.isEmpty then "" else "\n" ++ joinWith "\n" (b.map renderStmt))
  | .crash s => "<crash " ++ s ++ ">"

def renderImport : String × PyImport → String
  | (alias, i) =>
    if i.module == "" then (if i.pkg == alias then "import " ++ i.pkg else "import " ++ i.pkg ++ " as " ++ alias)
    else if i.module == alias then "from " ++ i.pkg ++ " import " ++ i.module
    else "from " ++ i.pkg ++ " import " ++ i.module ++ " as " ++ alias

def renderModule (m : PyModule) : String :=
  (if m.imports.isEmpty then "" else joinWith "\n" (m.imports.map renderImport) ++ "\n\n\n")
    -- quirk of generateSchema: the counter `i` is never incremented, so "two blank lines between objects,
    -- except at the end of the file" writes them after EVERY object unless the schema has exactly one
    ++ (if m.decls.length == 1 then joinWith "" (m.decls.map renderDecl)
        else String.join (m.decls.map fun d => renderDecl d ++ "\n\n\n")) ++ "\n"

end Cog.Sem.PyDecl
