/-
  Semantics of the Python builders cog generates (C09, Python half).

  Literal transcription, as an interpreter over the builder IR (Python's builder set: after
  veneers and `GenerateBuilderNilChecks` with Python's nullable kinds) and over values of the
  generated Python classes (`PyVal`), of
    internal/jennies/python/templates/builders/builder.tmpl      (`__init__`, `build`)
    internal/jennies/python/templates/builders/options.tmpl
    internal/jennies/python/templates/builders/assignment.tmpl   (constraints, nil checks, set-up, value, method)
    internal/jennies/python/templates/builders/constraints.tmpl  (`if not … : raise ValueError`)
    internal/jennies/python/templates/builders/nilcheck.tmpl
  Differences from Go that matter for the property: the constraints the builder IR attaches to an
  assignment ARE emitted (checked at the option call, `ValueError`); `build()` returns
  `self._internal` and validates nothing; a nested builder cannot fail at `build()` — its options
  raise while the argument expression is evaluated, so a failing nested builder never reaches
  the outer option.

  Core Lean only.
-/
import Cog.Sem.PyVal
import Cog.Sem.GoValidate
import Cog.Builder.Types
namespace Cog.Sem.PB
open Cog.IR Cog.Builder

inductive PRes (α : Type) where
  | ok (a : α)
  | raise (exc : String)       -- a Python exception class name
  | unsup (why : String)
  | fuel
  deriving Inhabited

namespace PRes
def bind {α β} (x : PRes α) (f : α → PRes β) : PRes β :=
  match x with
  | ok a => f a
  | raise e => raise e
  | unsup w => unsup w
  | fuel => fuel
def map {α β} (f : α → β) (x : PRes α) : PRes β := x.bind fun a => ok (f a)
end PRes

inductive Key where
  | s (k : String)
  | i (n : Int)
  deriving DecidableEq, Repr, Inhabited

inductive Step where
  | attr (n : String)
  | key (k : Key)
  deriving DecidableEq, Repr, Inhabited

abbrev Attrs := List (String × Bool × PyVal)

def getAttr (n : String) : Attrs → Option PyVal
  | [] => none
  | (k, _, v) :: t => if k = n then some v else getAttr n t

def updAttr (n : String) (g : PyVal → PRes PyVal) : Attrs → PRes Attrs
  | [] => .raise "AttributeError"
  | (k, rq, v) :: t =>
    if k = n then (g v).map fun v' => (k, rq, v') :: t
    else (updAttr n g t).map fun t' => (k, rq, v) :: t'

def listSet : List PyVal → Nat → PyVal → List PyVal
  | [], _, _ => []
  | _ :: t, 0, x => x :: t
  | h :: t, n + 1, x => h :: listSet t n x

def getStep : Step → PyVal → PRes PyVal
  | .attr n, .obj fs => match getAttr n fs with | some v => .ok v | none => .raise "AttributeError"
  | .attr _, .none => .raise "AttributeError"
  | .key (.s k), .dict kvs => match Cog.OMap.rget k kvs with | some v => .ok v | none => .raise "KeyError"
  | .key (.i n), .list vs =>
    if n < 0 then .unsup "negative index" else
    match vs[n.toNat]? with | some v => .ok v | none => .raise "IndexError"
  | .key _, .none => .raise "TypeError"
  | _, _ => .unsup "ill-typed selector"

def get : List Step → PyVal → PRes PyVal
  | [], v => .ok v
  | s :: rest, v => (getStep s v).bind (get rest)

/-- `target = g(target)` (for the last selector of an index path `g` ignores the old value) -/
def upd : List Step → (Option PyVal → PRes PyVal) → PyVal → PRes PyVal
  | [], g, v => g (some v)
  | .attr n :: rest, g, v =>
    match v with
    | .obj fs => (updAttr n (fun old => upd rest g old) fs).map .obj
    | .none => .raise "AttributeError"
    | _ => .unsup "ill-typed selector"
  | .key (.s k) :: rest, g, v =>
    match v with
    | .dict kvs =>
      match rest with
      | [] => (g (Cog.OMap.rget k kvs)).map fun x => .dict (Cog.OMap.rset k x kvs)
      | _ =>
        match Cog.OMap.rget k kvs with
        | some old => (upd rest g old).map fun x => .dict (Cog.OMap.rset k x kvs)
        | none => .raise "KeyError"
    | .none => .raise "TypeError"
    | _ => .unsup "ill-typed selector"
  | .key (.i n) :: rest, g, v =>
    match v with
    | .list vs =>
      if n < 0 then .unsup "negative index" else
      match vs[n.toNat]? with
      | some x => (upd rest g x).map fun x' => .list (listSet vs n.toNat x')
      | none => .raise "IndexError"
    | .none => .raise "TypeError"
    | _ => .unsup "ill-typed selector"

/-- a resolved argument: a value, or an argument expression that raised -/
inductive RArg where
  | val (v : PyVal)
  | raised (exc : String)
  deriving Inhabited

abbrev Env := List (String × PyVal)

def Env.find (env : Env) (n : String) : Option PyVal :=
  match env with
  | [] => none
  | (k, a) :: t => if k = n then some a else Env.find t n

structure Ctx where
  ss : Schemas
  bs : Builders
  /-- `<Class>()` of every struct object -/
  dflt : List ((String × String) × PyVal)
  deriving Inhabited

def Ctx.newObject (c : Ctx) (pkg name : String) : Option PyVal :=
  (c.dflt.find? fun e => e.1.1 == pkg && e.1.2 == name).map (·.2)

structure PState where
  internal : PyVal
  deriving Inhabited

def keyOfVal : Val → Option Key
  | .str s => some (.s s)
  | .int _ n => some (.i n)
  | _ => none

def keyOfPy : PyVal → Option Key
  | .str s => some (.s s)
  | .num q => if q % 4 = 0 then some (.i (q / 4)) else none
  | _ => none

/-- `formatFieldPath` -/
def stepsOf (env : Env) : Builder.Path → PRes (List Step)
  | [] => .ok []
  | it :: rest =>
    if it.root then .unsup "root path item" else
    let name : List Step := if it.identifier = "" then [] else [.attr it.identifier]
    match it.index with
    | none =>
      if it.identifier = "" then .unsup "empty path item" else (stepsOf env rest).map fun r => name ++ r
    | some ix =>
      let k : PRes Key :=
        if !isNil ix.constant then
          match keyOfVal ix.constant with | some k => .ok k | none => .unsup "index constant"
        else match ix.argument with
          | none => .unsup "index without argument"
          | some a => match (env.find a.name).bind keyOfPy with | some k => .ok k | none => .unsup "index argument"
      k.bind fun k => (stepsOf env rest).map fun r => name ++ [.key k] ++ r

def lvalue (env : Env) (p : Builder.Path) : PRes (List Step) :=
  (stepsOf env p).bind fun steps => if steps.isEmpty then .unsup "empty path" else .ok steps

/-- a constant as Python prints it -/
def constVal : Val → Option PyVal
  | .bool b => some (.bool b)
  | .int _ n => some (.num (n * 4))
  | .float _ r => (parseGFloat r).map .num
  | .jnum s => (parseGFloat s).map .num
  | .str s => some (.str s)
  | _ => none

/-- `defaultForType` of a nil check's empty value -/
def emptyValue (c : Ctx) (t : Ty) : PRes PyVal :=
  match t with
  | .array .. => .ok (.list [])
  | .map .. => .ok (.dict [])
  | .ref p n _ =>
    match resolveRefs c.ss (.ref p n {}) with
    | some (.struct ..) => (match c.newObject p n with | some v => .ok v | none => .unsup "no default object for nil check")
    | some (.array ..) => .ok (.list [])
    | some (.map ..) => .ok (.dict [])
    | _ => .unsup "nil check: default of the type"
  | _ => .unsup "nil check: default of the type"

def nilCheck (c : Ctx) (env : Env) (nc : NilCheck) (v : PyVal) : PRes PyVal :=
  (lvalue env nc.path).bind fun steps =>
  (get steps v).bind fun cur =>
    if cur.isNone then (emptyValue c nc.emptyValueType).bind fun e => upd steps (fun _ => .ok e) v
    else .ok v

def nilChecks (c : Ctx) (env : Env) : List NilCheck → PyVal → PRes PyVal
  | [], v => .ok v
  | nc :: rest, v => (nilCheck c env nc v).bind (nilChecks c env rest)

/-- the value a comparison sees, in quarters (`len(x)` for the two length operators) -/
def operand (op : String) (v : PyVal) : Option Int :=
  if op = "minLength" ∨ op = "maxLength" then
    match v with
    | .str s => some ((s.length : Int) * 4)
    | .list vs => some ((vs.length : Int) * 4)
    | _ => none
  else match v with
    | .num q => some q
    | _ => none

/-- `constraints.tmpl`: the first violated constraint raises `ValueError` -/
def checkConstraints (env : Env) : List AConstraint → PRes Unit
  | [] => .ok ()
  | k :: rest =>
    match env.find k.argument.name with
    | none => .unsup "constraint on an unbound argument"
    | some v =>
      match operand k.op v, valQuarters k.parameter with
      | some l, some r =>
        match cmpOp (goOperator k.op) l r with
        | some true => checkConstraints env rest
        | some false => .raise "ValueError"
        | none => .unsup "constraint operator"
      | _, _ => .unsup "constraint operands"

def leafValue (env : Env) : AValue → PRes PyVal
  | .arg cell => match env.find cell.arg.name with | some v => .ok v | none => .unsup "unbound argument"
  | .const k => match constVal k with | some v => .ok v | none => .unsup "constant"
  | _ => .unsup "assignment value"

/-- `Type(field=value, …)`: the class's own defaults for the members not given -/
def envelopeFields (env : Env) : List EnvField → PyVal → PRes PyVal
  | [], acc => .ok acc
  | ev :: rest, acc =>
    match ev.path with
    | [it] =>
      (leafValue env ev.value).bind fun v =>
        (upd [.attr it.identifier] (fun _ => .ok v) acc).bind (envelopeFields env rest)
    | _ => .unsup "envelope member path"

def evalValue (c : Ctx) (env : Env) : AValue → PRes PyVal
  | .env t vals =>
    match t with
    | .ref p n _ => (match c.newObject p n with
        | some d => envelopeFields env vals d
        | none => .unsup "no default object for the envelope")
    | _ => .unsup "envelope type"
  | v => leafValue env v

def assignOp (method : String) (x : PyVal) (old : Option PyVal) : PRes PyVal :=
  if method = "append" then
    match old with
    | some (.list vs) => .ok (.list (vs ++ [x]))
    | some .none => .raise "AttributeError"
    | _ => .unsup "append to a non-list"
  else .ok x

/-- the `assignment` template -/
def applyAssignment (c : Ctx) (env : Env) (st : PState) (a : Assignment) : PRes PState :=
  (checkConstraints env a.constraints).bind fun _ =>
  (nilChecks c env a.nilChecks st.internal).bind fun v1 =>
  (evalValue c env a.value).bind fun x =>
  (lvalue env a.path).bind fun steps =>
  (upd steps (assignOp a.method x) v1).map fun v2 => { internal := v2 }

def applyAssignments (c : Ctx) (env : Env) : List Assignment → PState → PRes PState
  | [], st => .ok st
  | a :: rest, st => (applyAssignment c env st a).bind (applyAssignments c env rest)

def bindArgs : List Argument → List RArg → PRes Env
  | [], [] => .ok []
  | p :: ps, .val v :: as => (bindArgs ps as).map fun e => (p.name, v) :: e
  | _ :: _, .raised exc :: _ => .raise exc       -- the argument expression raised: the option is never entered
  | _, _ => .unsup "arity"

def applyOption (c : Ctx) (o : Opt) (args : List RArg) (st : PState) : PRes PState :=
  (bindArgs o.args args).bind fun env => applyAssignments c env o.assignments st

def newBuilder (c : Ctx) (b : Builder) (args : List RArg) : PRes PState :=
  match c.newObject b.for_.selfPkg b.for_.selfName with
  | none => .unsup "no default object"
  | some d => (bindArgs b.constructor.args args).bind fun env =>
      applyAssignments c env b.constructor.assignments { internal := d }

/-- `build()`: `return self._internal` -/
def build (st : PState) : PyVal := st.internal

def applyCalls (c : Ctx) : List (Opt × List RArg) → PState → PRes PState
  | [], st => .ok st
  | (o, args) :: rest, st => (applyOption c o args st).bind (applyCalls c rest)

/-! ### call lists -/

mutual
inductive Arg where
  | json (j : Json)
  | builder (name : String) (ctor : List Arg) (calls : List Call)
  | fail
  | list (xs : List Arg)
  | dict (kvs : List (String × Arg))
inductive Call where
  | mk (opt : String) (args : List Arg)
end

instance : Inhabited Arg := ⟨.fail⟩

def Call.opt : Call → String | .mk o _ => o
def Call.args : Call → List Arg | .mk _ a => a

def findBuilder (bs : Builders) (name : String) : Option Builder := bs.find? fun b => b.name == name
def findOption (b : Builder) (name : String) : Option Opt := b.options.find? fun o => o.name == name

def resolveArg : Nat → Ctx → Arg → PRes RArg
  | 0, _, _ => .fuel
  | fuel + 1, c, a =>
    match a with
    | .json j => .ok (.val (PyVal.ofJson j))
    | .fail => .ok (.raised "RuntimeError")
    | .builder name ctor calls =>
      match findBuilder c.bs name with
      | none => .unsup ("no builder " ++ name)
      | some b =>
        let rec resolveAll (as : List Arg) : PRes (List RArg) :=
          match as with
          | [] => .ok []
          | x :: xs => (resolveArg fuel c x).bind fun r => (resolveAll xs).map (r :: ·)
        let rec run (calls : List Call) (st : PState) : PRes PState :=
          match calls with
          | [] => .ok st
          | cl :: rest =>
            match findOption b cl.opt with
            | none => .unsup ("no option " ++ cl.opt)
            | some o => (resolveAll cl.args).bind fun ras => (applyOption c o ras st).bind (run rest)
        match (resolveAll ctor).bind fun cas => (newBuilder c b cas).bind fun st0 => run calls st0 with
        | .ok st => .ok (.val (build st))
        | .raise exc => .ok (.raised exc)
        | .unsup w => .unsup w
        | .fuel => .fuel
    | .list xs =>
      let rec go (xs : List Arg) (acc : List PyVal) : PRes RArg :=
        match xs with
        | [] => .ok (.val (.list acc))
        | x :: rest => (resolveArg fuel c x).bind fun r => match r with
          | .val v => go rest (acc ++ [v])
          | .raised e => .ok (.raised e)
      go xs []
    | .dict kvs =>
      let rec goMap (kvs : List (String × Arg)) (acc : List (String × PyVal)) : PRes RArg :=
        match kvs with
        | [] => .ok (.val (.dict acc))
        | (k, x) :: rest => (resolveArg fuel c x).bind fun r => match r with
          | .val v => goMap rest (Cog.OMap.rset k v acc)
          | .raised e => .ok (.raised e)
      goMap kvs []

def resolveArgs (fuel : Nat) (c : Ctx) : List Arg → PRes (List RArg)
  | [] => .ok []
  | x :: xs => (resolveArg fuel c x).bind fun r => (resolveArgs fuel c xs).map (r :: ·)

def runCalls (fuel : Nat) (c : Ctx) (b : Builder) : List Call → PState → PRes PState
  | [], st => .ok st
  | cl :: rest, st =>
    match findOption b cl.opt with
    | none => .unsup ("no option " ++ cl.opt)
    | some o => (resolveArgs fuel c cl.args).bind fun ras => (applyOption c o ras st).bind (runCalls fuel c b rest)

def runBuilder (fuel : Nat) (c : Ctx) (b : Builder) (ctor : List Arg) (calls : List Call) : PRes PState :=
  (resolveArgs fuel c ctor).bind fun cas => (newBuilder c b cas).bind fun st0 => runCalls fuel c b calls st0

end Cog.Sem.PB
