/-
  C12 — soundness of `describes`: every document of the C01 fragment that respects the IR (`sat`) is
  decoded by the generated Go type into a value whose encoding validates against the described node.
-/
import Cog.Sem.JsonSchemaOutValid
import Cog.Sem.JsonSchemaOutBeq
namespace Cog.Sem.JSOut
open Cog.IR Cog.Sem GoVal
open Cog.OMap (rget rset rget_rset)

/-! ### scalars -/

theorem mem_rset {k : String} {v : JS} {d : Def} {e : String × JS} (h : e ∈ rset k v d) : e = (k, v) ∨ e ∈ d := by
  induction d with
  | nil => simp [rset] at h; exact Or.inl h
  | cons a t ih =>
    obtain ⟨k', v'⟩ := a
    simp only [rset] at h
    split at h
    · rcases List.mem_cons.1 h with h1 | h1
      · exact Or.inl h1
      · exact Or.inr (List.mem_cons_of_mem _ h1)
    · rcases List.mem_cons.1 h with h1 | h1
      · exact Or.inr (by rw [h1]; simp)
      · rcases ih h1 with h2 | h2
        · exact Or.inl h2
        · exact Or.inr (List.mem_cons_of_mem _ h2)

theorem mem_addConstraints {table : List (String × String)} {cs : List Constraint} {d : Def} {e : String × JS}
    (h : e ∈ addConstraints table cs d) :
    e ∈ d ∨ ∃ c ∈ cs, ∃ kw, rget c.op table = some kw ∧ e = (kw, .raw (c.args.headD .nil)) := by
  induction cs generalizing d with
  | nil => exact Or.inl h
  | cons c cs ih =>
    simp only [addConstraints] at h
    split at h
    · rename_i kw hkw
      rcases ih h with h1 | ⟨c', hc', kw', h2, h3⟩
      · rcases mem_rset h1 with h2 | h2
        · exact Or.inr ⟨c, by simp, kw, hkw, h2⟩
        · exact Or.inl h2
      · exact Or.inr ⟨c', by simp [hc'], kw', h2, h3⟩
    · rcases ih h with h1 | ⟨c', hc', kw', h2, h3⟩
      · exact Or.inl h1
      · exact Or.inr ⟨c', by simp [hc'], kw', h2, h3⟩

theorem check_type (R : String → Json → Bool) (props : List String) (T : String) (j : Json) :
    entryCheck R props "type" (.str T) j = typeOK T j := by
  cases j <;> simp [entryCheck, vKws, kwLeaf]

theorem check_format (R : String → Json → Bool) (props : List String) (x : String) (j : Json) :
    entryCheck R props "format" (.str x) j = true := by
  cases j <;> simp [entryCheck, vKws, kwLeaf]

theorem check_const (R : String → Json → Bool) (props : List String) (v : Val) (j : Json) :
    entryCheck R props "const" (.raw v) j = valMatches v j := by
  cases j <;> simp [entryCheck, vKws, kwLeaf]

theorem numberOps_cases {op kw : String} (h : rget op numberOps = some kw) :
    (op = "<" ∧ kw = "exclusiveMaximum") ∨ (op = "<=" ∧ kw = "maximum") ∨ (op = ">" ∧ kw = "exclusiveMinimum") ∨
    (op = ">=" ∧ kw = "minimum") ∨ (op = "multipleOf" ∧ kw = "multipleOf") := by
  simp only [numberOps, rget] at h
  split at h
  · rename_i h1; cases h; exact Or.inl ⟨h1.symm, rfl⟩
  · split at h
    · rename_i h1; cases h; exact Or.inr (Or.inl ⟨h1.symm, rfl⟩)
    · split at h
      · rename_i h1; cases h; exact Or.inr (Or.inr (Or.inl ⟨h1.symm, rfl⟩))
      · split at h
        · rename_i h1; cases h; exact Or.inr (Or.inr (Or.inr (Or.inl ⟨h1.symm, rfl⟩)))
        · split at h
          · rename_i h1; cases h; exact Or.inr (Or.inr (Or.inr (Or.inr ⟨h1.symm, rfl⟩)))
          · simp at h

theorem stringOps_cases {op kw : String} (h : rget op stringOps = some kw) :
    (op = "minLength" ∧ kw = "minLength") ∨ (op = "maxLength" ∧ kw = "maxLength") := by
  simp only [stringOps, rget] at h
  split at h
  · rename_i h1; cases h; exact Or.inl ⟨h1.symm, rfl⟩
  · split at h
    · rename_i h1; cases h; exact Or.inr ⟨h1.symm, rfl⟩
    · simp at h

/-- a numeric constraint the document satisfies is satisfied as the keyword the emitter writes -/
theorem check_num (R : String → Json → Bool) (props : List String) (c : Constraint) (kw : String) (j : Json)
    (hkw : rget c.op numberOps = some kw) (hs : satNumC c j = true) :
    entryCheck R props kw (.raw (c.args.headD .nil)) j = true := by
  rcases numberOps_cases hkw with ⟨ho, hk⟩ | ⟨ho, hk⟩ | ⟨ho, hk⟩ | ⟨ho, hk⟩ | ⟨ho, hk⟩ <;>
    subst hk <;> simp only [satNumC, opNum, ho] at hs <;>
    cases j <;> cases hv : valRat (c.args.headD Val.nil) <;> simp_all [entryCheck, vKws, kwLeaf, numKw]

theorem check_str (R : String → Json → Bool) (props : List String) (c : Constraint) (kw : String) (j : Json)
    (hkw : rget c.op stringOps = some kw) (hs : satStrC c j = true) :
    entryCheck R props kw (.raw (c.args.headD .nil)) j = true := by
  rcases stringOps_cases hkw with ⟨ho, hk⟩ | ⟨ho, hk⟩ <;>
    subst hk <;> simp only [satStrC, ho] at hs <;>
    cases j <;> cases hv : valRat (c.args.headD Val.nil) <;> simp_all [entryCheck, vKws, kwLeaf, numKw]

theorem isIntKind_range {k : String} (h : isIntKind k = true) : ∃ r, intRange k = some r := by
  simp only [isIntKind, Bool.or_eq_true, beq_iff_eq] at h
  rcases h with ((((((h | h) | h) | h) | h) | h) | h) | h <;> subst h <;> exact ⟨_, rfl⟩

/-- the entries of a scalar node accept a document of the scalar's Go type that respects its
    constant and constraints -/
theorem scalar_valid (R : String → Json → Bool) (props : List String) (kind : String) (v : Val)
    (cs : List Constraint) (dt : Bool) (j : Json) (hany : kind ≠ "any") (hb : kind ≠ "bytes")
    (hden : denScalar kind j = true) (hs : satScalar kind v cs j = true) :
    vKws R props (emitScalar kind v cs dt) j = true := by
  rw [vKws_all]
  intro e he
  simp only [satScalar, Bool.and_eq_true, Bool.or_eq_true] at hs
  obtain ⟨hconst, hcs⟩ := hs
  have base : ∀ e ∈ scalarBase kind cs dt, entryCheck R props e.1 e.2 j = true := by
    intro e he
    unfold scalarBase at he
    by_cases h1 : kind = "null"
    · subst h1; simp [denScalar, intRange] at hden
    · simp only [h1, hany, hb, if_false] at he
      by_cases h4 : kind = "string"
      · subst h4
        simp only [if_true] at he
        have hstr : ∃ x, j = .str x := by
          cases j <;> simp [denScalar] at hden ⊢
        obtain ⟨x, rfl⟩ := hstr
        have hcs' : ∀ c ∈ cs, satStrC c (.str x) = true := by
          simpa [isStrKind, List.all_eq_true] using hcs
        have inner : ∀ e ∈ addConstraints stringOps cs [("type", JS.str "string")],
            entryCheck R props e.1 e.2 (.str x) = true := by
          intro e he
          rcases mem_addConstraints he with h1 | ⟨c, hc, kw, hkw, rfl⟩
          · simp at h1; subst h1; simp [check_type, typeOK]
          · exact check_str R props c kw _ hkw (hcs' c hc)
        split at he
        · rcases mem_rset he with h1 | h1
          · subst h1; exact check_format _ _ _ _
          · exact inner e h1
        · exact inner e he
      · simp only [h4, if_false] at he
        by_cases h5 : kind = "bool"
        · subst h5
          simp at he; subst he
          cases j <;> simp [denScalar] at hden ⊢
          simp [check_type, typeOK]
        · simp only [h5, if_false] at he
          by_cases h6 : kind = "float32" ∨ kind = "float64"
          · simp only [h6, if_true] at he
            have hnum : ∃ q, j = .num q := by
              rcases h6 with hk | hk <;> subst hk <;> cases j <;> simp [denScalar] at hden ⊢
            obtain ⟨q, rfl⟩ := hnum
            have hcs' : ∀ c ∈ cs, satNumC c (.num q) = true := by
              rcases h6 with hk | hk <;> subst hk <;> simpa [isStrKind, isNumKind, List.all_eq_true] using hcs
            rcases mem_addConstraints he with h1 | ⟨c, hc, kw, hkw, rfl⟩
            · simp at h1; subst h1; simp [check_type, typeOK]
            · exact check_num R props c kw _ hkw (hcs' c hc)
          · simp only [h6, if_false] at he
            by_cases h7 : isIntKind kind = true
            · simp only [h7, if_true] at he
              obtain ⟨r, hr⟩ := isIntKind_range h7
              obtain ⟨lo, hi⟩ := r
              have hnum : ∃ q, j = .num q ∧ q % 4 = 0 := by
                unfold denScalar at hden
                simp only [h4, h5, h6, if_false, hr] at hden
                cases j <;> simp at hden ⊢
                exact hden.1
              obtain ⟨q, rfl, hq⟩ := hnum
              have hcs' : ∀ c ∈ cs, satNumC c (.num q) = true := by
                have h1 : isStrKind kind = false := by
                  simp only [isStrKind, Bool.or_eq_false_iff, beq_eq_false_iff_ne, ne_eq]
                  exact ⟨h4, hb⟩
                simpa [h1, isNumKind, h7, List.all_eq_true] using hcs
              rcases mem_addConstraints he with h1 | ⟨c, hc, kw, hkw, rfl⟩
              · simp at h1; subst h1; simp [check_type, typeOK, hq]
              · exact check_num R props c kw _ hkw (hcs' c hc)
            · simp [h7] at he
  unfold emitScalar at he
  split at he
  · exact base e he
  · rename_i hnil
    rcases mem_rset he with h1 | h1
    · subst h1
      rw [check_const]
      rcases hconst with h2 | h2
      · exact absurd h2 hnil
      · exact h2
    · exact base e h1

/-! ### `null` decodes to a nil value on the fragment -/

theorem denScalar_null (kind : String) : denScalar kind .null = false := by
  unfold denScalar
  split
  · rfl
  · split
    · rfl
    · split
      · rfl
      · split <;> rfl

theorem den_null_nil (ss : Schemas) : ∀ (n : Nat) (t : Ty), den n ss t .null = true → goDecode n ss t .null = .ok .nil := by
  intro n
  induction n with
  | zero => intro t h; simp [den] at h
  | succ n ih =>
    intro t h
    cases t with
    | scalar kind val cs m =>
      simp only [den] at h
      simp only [goDecode]
      by_cases hb : kind = "bytes"
      · simp [hb] at h
      · simp only [hb, if_false] at h ⊢
        by_cases ha : kind = "any"
        · subst ha; simp only [if_true]; exact decodeScalar_any_null
        · simp only [ha, if_false] at h ⊢
          have hn : m.nullable = true := by
            split at h
            · simpa [Json.isNull] using h
            · simpa [Json.isNull, denScalar_null] using h
          simp [wrapPtr, hn, Json.isNull]
    | array e m =>
      simp only [den, Bool.and_eq_true, Bool.not_eq_true'] at h
      simp [goDecode, h.1]
    | map idx vt m =>
      simp only [den] at h
      simp only [goDecode]
      split at h
      · rfl
      · simp at h
    | ref pkg name m =>
      simp only [den] at h
      simp only [goDecode]
      cases ho : Schemas.locateObject ss pkg name with
      | none => simp [ho] at h
      | some o =>
        simp only [ho] at h ⊢
        cases hty : o.ty with
        | struct fields gen gi sm =>
          cases gi with
          | none =>
            simp only [hty, Json.isNull, Bool.and_true, Bool.or_false] at h
            simp [wrapPtr, h, Json.isNull]
          | some hi =>
            obtain ⟨hint, info⟩ := hi
            simp only [hty] at h ⊢
            have hn : m.nullable = true := by
              split at h
              · simpa [Json.isNull, noNulls] using h
              · simpa [Json.isNull] using h
            simp [wrapPtr, hn, Json.isNull]
        | enum vals em =>
          cases vals with
          | nil => simp [hty] at h
          | cons v0 rest =>
            simp only [hty, Json.isNull, Bool.and_true, denScalar_null, Bool.or_false] at h
            simp [wrapPtr, h, Json.isNull]
        | scalar kind sv scs om =>
          simp only [hty, Json.isNull, Bool.and_true, denScalar_null, Bool.or_false, Bool.and_eq_true] at h ⊢
          have hb : kind ≠ "bytes" := by simpa using h.1.1.1.2
          simp [hb, wrapPtr, h.2, Json.isNull]
        | array ae am =>
          simp only [hty, Bool.and_eq_true] at h ⊢
          exact ih _ h.2
        | map mi mv mm =>
          simp only [hty, Bool.and_eq_true] at h ⊢
          exact ih _ h.2
        | ref rp rn rm =>
          simp only [hty] at h ⊢
          exact ih _ h
        | cref _ _ _ _ => simp [hty] at h
        | disj _ _ _ => simp [hty] at h
        | inter _ _ => simp [hty] at h
        | slot _ _ => simp [hty] at h
        | bad _ _ => simp [hty] at h
    | cref pkg name val m => simp [den] at h
    | struct _ _ _ _ => simp [den] at h
    | enum _ _ => simp [den] at h
    | disj _ _ _ => simp [den] at h
    | inter _ _ => simp [den] at h
    | slot _ _ => simp [den] at h
    | bad _ _ => simp [den] at h

/-! ### struct fields -/

/-- the induction hypothesis at depth `n`: with at least `n` units of `$ref` fuel -/
def PH (D : Def) (ss : Schemas) (n : Nat) : Prop :=
  ∀ F, n ≤ F → ∀ t node j, describes D n ss t node = true → den n ss t j = true → sat n ss t j = true →
    ∃ v, goDecode n ss t j = .ok v ∧ vNode (Rec D F) (.obj node) (goEncode v) = true

theorem vProps_cons (R : String → Json → Bool) (name : String) (s : JS) (rest : Def) (ms : List (String × Json)) :
    vProps R ((name, s) :: rest) ms =
      ((match Json.lookup name ms with
        | some x => vNode R s x
        | none => true) && vProps R rest ms) := by
  cases h : Json.lookup name ms <;> simp only [vProps, h]

theorem vProps_all (R : String → Json → Bool) (ps : Def) (ms : List (String × Json))
    (h : ∀ e ∈ ps, ∀ x, Json.lookup e.1 ms = some x → vNode R e.2 x = true) : vProps R ps ms = true := by
  induction ps with
  | nil => simp [vProps]
  | cons e t ih =>
    obtain ⟨k, s⟩ := e
    rw [vProps_cons, Bool.and_eq_true]
    refine ⟨?_, ih (fun e he => h e (List.mem_cons_of_mem _ he))⟩
    cases hl : Json.lookup k ms with
    | none => rfl
    | some x => exact h (k, s) (by simp) x hl

theorem desc_fields (d : Ty → Def → Bool) : ∀ (fs : List Field) (ps : Def), describesFieldsWith d fs ps = true →
    ps.map (·.1) = fs.map (·.name) ∧
    ((fs.map (·.name)).Nodup → ∀ f ∈ fs, ∃ nd, rget f.name ps = some (.obj nd) ∧ d f.ty nd = true)
  | [], [], _ => ⟨rfl, by simp⟩
  | [], _ :: _, h => by simp [describesFieldsWith] at h
  | f :: fs, [], h => by simp [describesFieldsWith] at h
  | f :: fs, (k, s) :: ps, h => by
    cases s with
    | obj nd =>
      simp only [describesFieldsWith, Bool.and_eq_true, beq_iff_eq] at h
      obtain ⟨⟨hk, hd⟩, hrest⟩ := h
      obtain ⟨g1, g2⟩ := desc_fields d fs ps hrest
      refine ⟨by simp [g1, hk], ?_⟩
      intro nd' f' hf'
      simp only [List.map_cons, List.nodup_cons] at nd'
      rcases List.mem_cons.1 hf' with h1 | h1
      · subst h1; exact ⟨nd, by simp [rget, hk], hd⟩
      · obtain ⟨nd2, h2, h3⟩ := g2 nd'.2 f' h1
        refine ⟨nd2, ?_, h3⟩
        have hne : ¬ k = f'.name := by
          intro c
          apply nd'.1
          rw [hk, c]
          exact List.mem_map.2 ⟨f', h1, rfl⟩
        simp [rget, hne, h2]
    | _ => simp [describesFieldsWith] at h

theorem lookup_encFields_full {k : String} {om : Bool} {gv : GoVal} {fl : List (String × Bool × GoVal)}
    (nd : (fl.map (·.1)).Nodup) (h : (k, om, gv) ∈ fl) :
    Json.lookup k (encFields fl) = if (om && isEmpty gv) = true then none else some (goEncode gv) := by
  induction fl with
  | nil => simp at h
  | cons e t ih =>
    obtain ⟨a, om', gv'⟩ := e
    simp only [List.map_cons, List.nodup_cons] at nd
    rcases List.mem_cons.1 h with c | c
    · cases c
      simp only [encFields]
      split
      · -- omitted: the key does not occur later
        rename_i hom
        have : Json.lookup k (encFields t) = none := by
          cases hl : Json.lookup k (encFields t) with
          | none => rfl
          | some x =>
            exfalso
            obtain ⟨om2, gv2, hm, _⟩ := mem_encFields (mem_of_lookup hl)
            exact nd.1 (List.mem_map.2 ⟨(k, om2, gv2), hm, rfl⟩)
        rw [this]
      · simp [Json.lookup]
    · have hne : ¬ a = k := by
        intro e; subst e
        exact nd.1 (List.mem_map.2 ⟨(a, om, gv), c, rfl⟩)
      simp only [encFields]
      split
      · exact ih nd.2 c
      · simp [Json.lookup, hne, ih nd.2 c]

theorem rget_js_of_mem {k : String} {v : JS} {l : Def} (nd : (l.map (·.1)).Nodup) (h : (k, v) ∈ l) :
    rget k l = some v := by
  induction l with
  | nil => simp at h
  | cons e t ih =>
    obtain ⟨a, b⟩ := e
    simp only [List.map_cons, List.nodup_cons] at nd
    rcases List.mem_cons.1 h with c | c
    · cases c; simp [rget]
    · have : ¬ a = k := by
        intro e; subst e
        exact nd.1 (List.mem_map.2 ⟨(a, v), c, rfl⟩)
      simp [rget, this, ih nd.2 c]

theorem fields_valid {D : Def} {ss : Schemas} {n F : Nat} (ih : PH D ss n) (hF : n ≤ F) (fields : List Field)
    (ps : Def) (members : List (String × Json))
    (ndm : keysNodup members = true) (ndf : namesNodup (fields.map (·.name)) = true)
    (hsub : members.all (fun kv => (fields.map (·.name)).contains kv.1) = true)
    (hden : denFieldsWith (den n ss) fields members = true)
    (hsat : satFieldsWith (sat n ss) fields members = true)
    (hdesc : describesFieldsWith (describes D n ss) fields ps = true) :
    ∃ fl, decodeFieldsWith (goDecode n ss) fields members = .ok fl ∧
      (∀ kv ∈ encFields fl, kv.1 ∈ fields.map (·.name)) ∧
      (∀ f ∈ fields, f.required = true → (Json.lookup f.name (encFields fl)).isSome = true) ∧
      vProps (Rec D F) ps (encFields fl) = true ∧ ps.map (·.1) = fields.map (·.name) := by
  have ndf' : (fields.map (·.name)).Nodup := (namesNodup_iff _).1 ndf
  obtain ⟨hkeys, hnodes⟩ := desc_fields _ fields ps hdesc
  have hsub' : ∀ kv ∈ members, (fields.map (·.name)).contains kv.1 = true := by
    simpa [List.all_eq_true] using hsub
  have hfun : (fun (f : Field) =>
          (goDecode n ss f.ty ((memberFor (fields.map (·.name)) f.name members).getD .null)).map
            fun v => (f.name, !f.required, v)) =
      (fun (f : Field) =>
          (goDecode n ss f.ty ((Json.lookup f.name members).getD .null)).map
            fun v => (f.name, !f.required, v)) := by
    funext f
    rw [memberFor_eq_lookup _ _ _ ndm hsub']
  -- per-field decoding
  have step : ∀ fs : List Field, (∀ f ∈ fs, f ∈ fields) →
      ∃ fl, mapRes (fun (f : Field) =>
          (goDecode n ss f.ty ((Json.lookup f.name members).getD .null)).map
            fun v => (f.name, !f.required, v)) fs = .ok fl ∧
        All2 (fun (f : Field) (e : String × Bool × GoVal) =>
          e.1 = f.name ∧ e.2.1 = !f.required ∧
            (((Json.lookup f.name members).getD .null).isNull = true → e.2.2 = .nil ∧ f.required = false) ∧
            (((Json.lookup f.name members).getD .null).isNull = false →
              ∃ nd, rget f.name ps = some (.obj nd) ∧ vNode (Rec D F) (.obj nd) (goEncode e.2.2) = true)) fs fl := by
    intro fs
    induction fs with
    | nil => intro _; exact ⟨[], rfl, .nil⟩
    | cons f t iht =>
      intro hmem
      have hf : f ∈ fields := hmem f (by simp)
      have hdf := (List.all_eq_true.1 hden) f hf
      have hsf := (List.all_eq_true.1 hsat) f hf
      simp only [Bool.and_eq_true] at hdf
      obtain ⟨fl, hfl, ha⟩ := iht (fun f' hf' => hmem f' (by simp [hf']))
      cases hl : Json.lookup f.name members with
      | none =>
        simp only [hl, Bool.and_eq_true, Bool.not_eq_true'] at hdf hsf
        have hreq : f.required = false := by simpa using hsf
        have hdec := den_null_nil ss n f.ty hdf.2.2
        refine ⟨(f.name, !f.required, .nil) :: fl, ?_, .cons ⟨rfl, rfl, ?_, ?_⟩ ha⟩
        · simp only [mapRes, hl, Option.getD_none, hdec, DRes.map, DRes.bind] at hfl ⊢
          rw [hfl]
        · intro _; exact ⟨rfl, hreq⟩
        · intro h; simp [hl, Json.isNull] at h
      | some x =>
        simp only [hl, Bool.and_eq_true] at hdf hsf
        by_cases hx : x.isNull = true
        · have hxn : x = .null := by cases x <;> simp_all [Json.isNull]
          subst hxn
          have hreq : f.required = false := by simpa [Json.isNull] using hsf
          have hdec := den_null_nil ss n f.ty hdf.2.1
          refine ⟨(f.name, !f.required, .nil) :: fl, ?_, .cons ⟨rfl, rfl, ?_, ?_⟩ ha⟩
          · simp only [mapRes, hl, Option.getD_some, hdec, DRes.map, DRes.bind] at hfl ⊢
            rw [hfl]
          · intro _; exact ⟨rfl, hreq⟩
          · intro h; simp [hl, Json.isNull] at h
        · simp only [Bool.not_eq_true] at hx
          simp only [hx, Bool.false_eq_true, if_false] at hsf
          obtain ⟨nd, hnd, hdn⟩ := hnodes ndf' f hf
          obtain ⟨v, hv, hvalid⟩ := ih F hF f.ty nd x hdn hdf.2.1 hsf
          refine ⟨(f.name, !f.required, v) :: fl, ?_, .cons ⟨rfl, rfl, ?_, ?_⟩ ha⟩
          · simp only [mapRes, hl, Option.getD_some, hv, DRes.map, DRes.bind] at hfl ⊢
            rw [hfl]
          · intro h; simp [hl, hx] at h
          · intro _; exact ⟨nd, hnd, hvalid⟩
  obtain ⟨fl, hfl, ha⟩ := step fields (fun _ h => h)
  have hflkeys : fl.map (·.1) = fields.map (·.name) :=
    ha.map_eq (·.name) (·.1) (fun _ _ h => h.1)
  have ndfl : (fl.map (·.1)).Nodup := by rw [hflkeys]; exact ndf'
  refine ⟨fl, ?_, ?_, ?_, ?_, hkeys⟩
  · unfold decodeFieldsWith; rw [hfun]; exact hfl
  · rintro ⟨k, x⟩ hx
    obtain ⟨om, gv, hmem, _⟩ := mem_encFields hx
    rw [← hflkeys]
    exact List.mem_map.2 ⟨(k, om, gv), hmem, rfl⟩
  · intro f hf hreq
    obtain ⟨e, he, hk, hom, _, _⟩ := ha.mem_left hf
    obtain ⟨ek, eom, egv⟩ := e
    simp only at hk hom
    subst hk
    rw [lookup_encFields_full ndfl he]
    simp [hom, hreq]
  · apply vProps_all
    rintro ⟨k, s⟩ hks x hlx
    have hkn : k ∈ fields.map (·.name) := by
      rw [← hkeys]; exact List.mem_map.2 ⟨(k, s), hks, rfl⟩
    obtain ⟨f, hf, hfk⟩ := List.mem_map.1 hkn
    obtain ⟨e, he, hk, hom, hnull, hval⟩ := ha.mem_left hf
    obtain ⟨ek, eom, egv⟩ := e
    simp only at hk hom hnull hval
    subst hk
    simp only at hlx
    rw [← hfk, lookup_encFields_full ndfl he] at hlx
    by_cases hxn : ((Json.lookup f.name members).getD .null).isNull = true
    · obtain ⟨hnil, hreq⟩ := hnull hxn
      subst hnil
      simp [hom, hreq, isEmpty] at hlx
    · simp only [Bool.not_eq_true] at hxn
      obtain ⟨nd, hnd, hvalid⟩ := hval hxn
      have hs : s = .obj nd := by
        have h1 := rget_js_of_mem (by rw [hkeys]; exact ndf') hks
        rw [← hfk, hnd] at h1
        cases h1; rfl
      subst hs
      split at hlx
      · simp at hlx
      · cases hlx; exact hvalid

/-! ### helper facts for the induction -/

theorem lastArg_none (table : List (String × String)) (kw : String) (cs : List Constraint)
    (h : ∀ op, rget op table ≠ some kw) : lastArg table kw cs = none := by
  induction cs with
  | nil => rfl
  | cons c cs ih => simp [lastArg, ih, h c.op]

theorem noref_number (op : String) : rget op numberOps ≠ some "$ref" := by
  intro h
  rcases numberOps_cases h with ⟨_, h⟩ | ⟨_, h⟩ | ⟨_, h⟩ | ⟨_, h⟩ | ⟨_, h⟩ <;> simp at h

theorem noref_string (op : String) : rget op stringOps ≠ some "$ref" := by
  intro h
  rcases stringOps_cases h with ⟨_, h⟩ | ⟨_, h⟩ <;> simp at h

theorem noref_scalarBase (kind : String) (cs : List Constraint) (dt : Bool) :
    rget "$ref" (scalarBase kind cs dt) = none := by
  unfold scalarBase
  split
  · simp [rget]
  · split
    · simp [rget]
    · split
      · rw [rget_addConstraints, lastArg_none _ _ _ noref_string]; simp [rget]
      · split
        · split
          · rw [rget_rset_ne (by decide), rget_addConstraints, lastArg_none _ _ _ noref_string]; simp [rget]
          · rw [rget_addConstraints, lastArg_none _ _ _ noref_string]; simp [rget]
        · split
          · simp [rget]
          · split
            · rw [rget_addConstraints, lastArg_none _ _ _ noref_number]; simp [rget]
            · split
              · rw [rget_addConstraints, lastArg_none _ _ _ noref_number]; simp [rget]
              · rfl

theorem noref_emitScalar (kind : String) (v : Val) (cs : List Constraint) (dt : Bool) :
    rget "$ref" (emitScalar kind v cs dt) = none := by
  unfold emitScalar
  split
  · exact noref_scalarBase _ _ _
  · rw [rget_rset_ne (by decide)]; exact noref_scalarBase _ _ _

theorem wrapPtr_enc {b : Bool} {j : Json} {r : DRes GoVal} {v : GoVal} (hj : j.isNull = false) (hr : r = .ok v) :
    ∃ w, wrapPtr b j r = .ok w ∧ goEncode w = goEncode v := by
  subst hr
  cases b with
  | true => exact ⟨.ptr v, by simp [wrapPtr, hj, DRes.map, DRes.bind], by simp [goEncode]⟩
  | false => exact ⟨v, by simp [wrapPtr], rfl⟩

theorem valid_anyDef (R : String → Json → Bool) (ms : List (String × Json)) :
    vNode R (.obj anyDef) (.obj ms) = true := by
  simp [anyDef, vNode, rget, vKws, kwLeaf, typeOK, propNames]

theorem enumOK_member (vs : List EnumVal) (j : Json) : enumOK (enumValues vs) j = enumMember vs j := by
  induction vs with
  | nil => rfl
  | cons a t ih => simp [enumValues, enumOK, enumMember, ih]

theorem strsOf_map (l : List String) : strsOf (l.map .str) = l := by
  induction l with
  | nil => rfl
  | cons a t ih => simp [strsOf, ih]

theorem mem_rset_gen {V : Type} {k : String} {v : V} {d : List (String × V)} {e : String × V}
    (h : e ∈ rset k v d) : e = (k, v) ∨ e ∈ d := by
  induction d with
  | nil => simp [rset] at h; exact Or.inl h
  | cons a t ih =>
    obtain ⟨k', v'⟩ := a
    simp only [rset] at h
    split at h
    · rcases List.mem_cons.1 h with h1 | h1
      · exact Or.inl h1
      · exact Or.inr (List.mem_cons_of_mem _ h1)
    · rcases List.mem_cons.1 h with h1 | h1
      · exact Or.inr (by rw [h1]; simp)
      · rcases ih h1 with h2 | h2
        · exact Or.inl h2
        · exact Or.inr (List.mem_cons_of_mem _ h2)

theorem mem_foldl_rset {V : Type} (l : List (String × V)) (acc : List (String × V)) {e : String × V}
    (h : e ∈ l.foldl (fun acc kv => rset kv.1 kv.2 acc) acc) : e ∈ acc ∨ e ∈ l := by
  induction l generalizing acc with
  | nil => exact Or.inl h
  | cons a t ih =>
    simp only [List.foldl_cons] at h
    rcases ih _ h with h1 | h1
    · rcases mem_rset_gen h1 with h2 | h2
      · exact Or.inr (by rw [h2]; simp)
      · exact Or.inl h2
    · exact Or.inr (List.mem_cons_of_mem _ h1)

theorem describes_ref_meta (D : Def) (n : Nat) (ss : Schemas) (p name : String) (m1 m2 : Meta) (node : Def) :
    describes D n ss (.ref p name m1) node = describes D n ss (.ref p name m2) node := by
  cases n <;> simp only [describes]

theorem sat_ref_meta (n : Nat) (ss : Schemas) (p name : String) (m1 m2 : Meta) (j : Json) :
    sat n ss (.ref p name m1) j = sat n ss (.ref p name m2) j := by
  cases n <;> simp only [sat]

theorem list_valid {D : Def} {ss : Schemas} {n F : Nat} (ih : PH D ss n) (hF : n ≤ F) (e : Ty) (en : Def)
    (hdesc : describes D n ss e en = true) (xs : List Json)
    (hden : xs.all (den n ss e) = true) (hsat : xs.all (sat n ss e) = true) :
    ∃ vs, mapRes (goDecode n ss e) xs = .ok vs ∧
      (encList vs).all (fun x => vNode (Rec D F) (.obj en) x) = true := by
  induction xs with
  | nil => exact ⟨[], rfl, rfl⟩
  | cons x xs ihx =>
    simp only [List.all_cons, Bool.and_eq_true] at hden hsat
    obtain ⟨v, hv, hval⟩ := ih F hF e en x hdesc hden.1 hsat.1
    obtain ⟨vs, hvs, hall⟩ := ihx hden.2 hsat.2
    exact ⟨v :: vs, by simp [mapRes, hv, hvs, DRes.bind], by simp [encList, hval, hall]⟩

theorem map_valid {D : Def} {ss : Schemas} {n F : Nat} (ih : PH D ss n) (hF : n ≤ F) (vt : Ty) (vn : Def)
    (hdesc : describes D n ss vt vn = true) (kvs : List (String × Json))
    (hden : kvs.all (fun kv => den n ss vt kv.2) = true) (hsat : kvs.all (fun kv => sat n ss vt kv.2) = true) :
    ∃ l, mapRes (fun (kv : String × Json) => (goDecode n ss vt kv.2).map fun x => (kv.1, x)) kvs = .ok l ∧
      ∀ e ∈ l, vNode (Rec D F) (.obj vn) (goEncode e.2) = true := by
  induction kvs with
  | nil => exact ⟨[], rfl, by simp⟩
  | cons kv t iht =>
    simp only [List.all_cons, Bool.and_eq_true] at hden hsat
    obtain ⟨v, hv, hval⟩ := ih F hF vt vn kv.2 hdesc hden.1 hsat.1
    obtain ⟨l, hl, hall⟩ := iht hden.2 hsat.2
    refine ⟨(kv.1, v) :: l, ?_, ?_⟩
    · simp only [mapRes, hv, DRes.map, DRes.bind] at hl ⊢
      rw [hl]
    · intro e he
      rcases List.mem_cons.1 he with h | h
      · subst h; exact hval
      · exact hall e h

theorem branches_any {D : Def} {ss : Schemas} {n F : Nat} (R : String → Json → Bool) (j : Json) :
    ∀ (fs : List Field) (ns : List JS),
      describesBranchesWith (describes D n ss) fs ns = true →
      (∃ f ∈ fs, ∀ nd, describes D n ss (noNull f.ty) nd = true → vNode R (.obj nd) j = true) →
      vAny R ns j = true
  | [], _, _, h => by obtain ⟨f, hf, _⟩ := h; simp at hf
  | f :: fs, [], hd, _ => by simp [describesBranchesWith] at hd
  | f :: fs, nd :: ns, hd, h => by
    cases nd with
    | obj ndd =>
      simp only [describesBranchesWith, Bool.and_eq_true] at hd
      obtain ⟨g, hg, hv⟩ := h
      simp only [vAny, Bool.or_eq_true]
      rcases List.mem_cons.1 hg with h1 | h1
      · subst h1; exact Or.inl (hv ndd hd.1)
      · exact Or.inr (branches_any (D := D) (ss := ss) (n := n) (F := F) R j fs ns hd.2 ⟨g, h1, hv⟩)
    | _ => simp [describesBranchesWith] at hd

theorem anyDescribes_mem (d : Def → Bool) : ∀ (ns : List JS), anyDescribes d ns = true →
    ∃ nd, JS.obj nd ∈ ns ∧ d nd = true
  | [], h => by simp [anyDescribes] at h
  | n :: ns, h => by
    cases n with
    | obj nd =>
      simp only [anyDescribes, Bool.or_eq_true] at h
      rcases h with h | h
      · exact ⟨nd, by simp, h⟩
      · obtain ⟨nd', h1, h2⟩ := anyDescribes_mem d ns h
        exact ⟨nd', List.mem_cons_of_mem _ h1, h2⟩
    | _ =>
      simp only [anyDescribes] at h
      obtain ⟨nd', h1, h2⟩ := anyDescribes_mem d ns h
      exact ⟨nd', List.mem_cons_of_mem _ h1, h2⟩

theorem close_ref {D : Def} {node nd : Def} {n F : Nat} (hdr : deref D (core node) = some nd) (hF : n + 1 ≤ F)
    {r : DRes GoVal}
    (key : ∀ F', n ≤ F' → ∃ v, r = .ok v ∧ vNode (Rec D F') (.obj nd) (goEncode v) = true) :
    ∃ v, r = .ok v ∧ vNode (Rec D F) (.obj node) (goEncode v) = true := by
  obtain ⟨v, hv, _⟩ := key F (by omega)
  refine ⟨v, hv, deref_valid hdr hF _ ?_⟩
  intro F' hF'
  obtain ⟨v', hv', hval⟩ := key F' hF'
  rw [hv] at hv'; cases hv'
  exact hval

theorem close_ref_ptr {D : Def} {node nd : Def} {n F : Nat} (hdr : deref D (core node) = some nd) (hF : n + 1 ≤ F)
    {r : DRes GoVal} {b : Bool} {j : Json} (hnn : j.isNull = false)
    (key : ∀ F', n ≤ F' → ∃ v, r = .ok v ∧ vNode (Rec D F') (.obj nd) (goEncode v) = true) :
    ∃ w, wrapPtr b j r = .ok w ∧ vNode (Rec D F) (.obj node) (goEncode w) = true := by
  obtain ⟨v, hv, hval⟩ := close_ref hdr hF key
  obtain ⟨w, hw, henc⟩ := wrapPtr_enc (b := b) hnn hv
  exact ⟨w, hw, by rw [henc]; exact hval⟩

theorem mem_requiredNames {fs : List Field} {x : String} (h : x ∈ requiredNames fs) :
    ∃ f ∈ fs, f.required = true ∧ f.name = x := by
  rw [requiredNames_eq] at h
  obtain ⟨f, hf, rfl⟩ := List.mem_map.1 h
  obtain ⟨h1, h2⟩ := List.mem_filter.1 hf
  exact ⟨f, h1, h2, rfl⟩

/-- the struct node accepts the encoded fields -/
theorem struct_node_valid (R : String → Json → Bool) (fields : List Field) (nd : Def) (rs : List JS) (ps : Def)
    (hn : isStructNode nd = some (rs, ps)) (hrs : rs = (requiredNames fields).map .str)
    (ms : List (String × Json))
    (h1 : ∀ kv ∈ ms, kv.1 ∈ fields.map (·.name))
    (h2 : ∀ f ∈ fields, f.required = true → (Json.lookup f.name ms).isSome = true)
    (h3 : vProps R ps ms = true) (h4 : ps.map (·.1) = fields.map (·.name)) :
    vNode R (.obj nd) (.obj ms) = true := by
  have hadd : ms.all (fun kv => (ps.map (·.1)).contains kv.1) = true := by
    rw [List.all_eq_true]
    intro kv hkv
    rw [h4]
    simpa using h1 kv hkv
  rcases isStructNode_some hn with ⟨_, hd⟩ | hd
  · rw [hd, valid_struct_noreq, hadd, h3]; rfl
  · rw [hd, valid_struct_req, hadd, h3]
    have : (strsOf rs).all (fun n => (Json.lookup n ms).isSome) = true := by
      rw [hrs, strsOf_map, List.all_eq_true]
      intro x hx
      obtain ⟨f, hf, hreq, rfl⟩ := mem_requiredNames hx
      exact h2 f hf hreq
    rw [this]; rfl

/-! ### the induction -/

theorem describes_sound (D : Def) (ss : Schemas) : ∀ n, PH D ss n := by
  intro n
  induction n with
  | zero => intro F _ t node j _ h _; simp [den] at h
  | succ n ih =>
    intro F hF t node j hdesc hden hsat
    have hFn : n ≤ F := by omega
    cases t with
    | scalar kind val cs m =>
      simp only [den] at hden
      simp only [sat, Bool.and_eq_true, Bool.not_eq_true'] at hsat
      simp only [describes] at hdesc
      obtain ⟨hnn, hsat⟩ := hsat
      have hcore := jsBeqKvs_eq _ _ hdesc
      simp only [goDecode]
      by_cases hb : kind = "bytes"
      · simp [hb] at hden
      · simp only [hb, if_false] at hden ⊢
        by_cases ha : kind = "any"
        · subst ha
          simp only [if_true, Bool.and_eq_true] at hden hsat ⊢
          cases j with
          | obj kvs =>
            refine ⟨.iface (.obj kvs), decodeScalar_any_nonnull _ rfl hden.1, ?_⟩
            rw [← vNode_core, hcore]
            have hv : isNilVal val = true := hsat.1
            simp only [emitScalar, hv, if_true, scalarBase, goEncode, ifaceEnc]
            exact valid_anyDef _ _
          | null | bool _ | num _ | str _ | arr _ => simp at hsat
        · simp only [ha, if_false] at hden hsat ⊢
          have finish : ∀ v, goEncode v = j → denScalar kind j = true →
              vNode (Rec D F) (.obj node) (goEncode v) = true := by
            intro v hv hds
            rw [hv, ← vNode_core, hcore, vNode_obj _ _ _ (noref_emitScalar _ _ _ _)]
            exact scalar_valid _ _ kind val cs _ j ha hb hds hsat
          by_cases hd : hasHint m "string_format_datetime" = true
          · simp only [hd, if_true, Bool.or_eq_true, Bool.and_eq_true] at hden
            rcases hden with hden | hden
            · rw [hden.2] at hnn; exact absurd hnn (by simp)
            · cases j with
              | str x =>
                simp only [decide_eq_true_eq] at hden
                subst hden
                obtain ⟨w, hw, henc⟩ := wrapPtr_enc (b := m.nullable) hnn (decodeScalar_dt x)
                rw [hd]
                refine ⟨w, hw, ?_⟩
                rw [henc]
                exact finish (.time x) rfl (by simp [denScalar])
              | null | bool _ | num _ | arr _ | obj _ => simp at hden
          · simp only [hd, Bool.false_eq_true, if_false, Bool.or_eq_true, Bool.and_eq_true] at hden
            have hd' : hasHint m "string_format_datetime" = false := by simpa using hd
            rcases hden with hden | hden
            · rw [hden.2] at hnn; exact absurd hnn (by simp)
            · obtain ⟨_, v, hv, henc, _, _⟩ := denScalar_decode ha hden
              rw [hd']
              obtain ⟨w, hw, henc'⟩ := wrapPtr_enc (b := m.nullable) hnn hv
              exact ⟨w, hw, by rw [henc']; exact finish v henc hden⟩
    | array e m =>
      simp only [den, Bool.and_eq_true, Bool.not_eq_true'] at hden
      simp only [sat, Bool.and_eq_true, Bool.not_eq_true'] at hsat
      simp only [describes] at hdesc
      obtain ⟨hbyte, hden⟩ := hden
      cases hnode : isArrayNode (core node) with
      | none => simp [hnode] at hdesc
      | some en =>
        simp only [hnode] at hdesc
        simp only [goDecode, hbyte, Bool.false_eq_true, if_false]
        cases j with
        | arr xs =>
          simp only at hden hsat
          obtain ⟨vs, hvs, hall⟩ := list_valid ih hFn e en hdesc xs hden hsat.2
          refine ⟨.slice vs, by simp [hvs, DRes.map, DRes.bind], ?_⟩
          rw [← vNode_core, isArrayNode_some hnode]
          simp only [goEncode]
          rw [valid_array]; exact hall
        | null | bool _ | num _ | str _ | obj _ => simp [Json.isNull] at hsat
    | map idx vt m =>
      simp only [den] at hden
      simp only [sat, Bool.and_eq_true, Bool.not_eq_true'] at hsat
      simp only [describes] at hdesc
      simp only [goDecode]
      split at hden
      · cases hnode : isMapNode (core node) with
        | none => simp [hnode] at hdesc
        | some vn =>
          simp only [hnode] at hdesc
          cases j with
          | obj kvs =>
            simp only [Bool.and_eq_true] at hden hsat
            obtain ⟨l, hl, hall⟩ := map_valid ih hFn vt vn hdesc kvs hden.2 hsat.2
            refine ⟨.gomap (l.foldl (fun acc kv => Cog.OMap.rset kv.1 kv.2 acc) []), by dsimp only; rw [hl]; rfl, ?_⟩
            rw [← vNode_core, isMapNode_some hnode]
            simp only [goEncode]
            rw [valid_map, List.all_eq_true]
            rintro ⟨k, x⟩ hx
            obtain ⟨gv, hg, rfl⟩ := mem_encMap hx
            rcases mem_foldl_rset l [] hg with h | h
            · simp at h
            · exact hall _ h
          | null | bool _ | num _ | str _ | arr _ => simp [Json.isNull] at hsat
      · simp at hden
    | ref pkg name m =>
      simp only [den] at hden
      simp only [sat, Bool.and_eq_true, Bool.not_eq_true'] at hsat
      simp only [describes] at hdesc
      simp only [goDecode]
      obtain ⟨hnn, hsat⟩ := hsat
      cases ho : Schemas.locateObject ss pkg name with
      | none => simp [ho] at hden
      | some o =>
        simp only [ho] at hden hsat hdesc ⊢
        cases hdr : deref D (core node) with
        | none => simp [hdr] at hdesc
        | some nd =>
          simp only [hdr] at hdesc
          cases hty : o.ty with
          | struct fields gen gi sm =>
            cases gi with
            | none =>
              simp only [hty] at hden hsat hdesc ⊢
              cases hsn : isStructNode nd with
              | none => simp [hsn] at hdesc
              | some rp =>
                obtain ⟨rs, ps⟩ := rp
                simp only [hsn, Bool.and_eq_true] at hdesc
                obtain ⟨⟨hrs, _⟩, hdf⟩ := hdesc
                cases j with
                | obj members =>
                  simp only [Json.isNull, Bool.and_false, Bool.false_or, Bool.and_eq_true] at hden
                  obtain ⟨⟨⟨h1, h2⟩, h3⟩, h4⟩ := hden
                  apply close_ref_ptr hdr hF hnn
                  intro F' hF'
                  obtain ⟨fl, hfl, g1, g2, g3, g4⟩ := fields_valid ih hF' fields ps members h1 h2 h3 h4 hsat hdf
                  refine ⟨.struct fl, by dsimp only; rw [hfl]; rfl, ?_⟩
                  simp only [goEncode]
                  exact struct_node_valid _ fields nd rs ps hsn (jsBeqList_eq _ _ hrs) _ g1 g2 g3 g4
                | null | bool _ | num _ | str _ | arr _ => simp at hsat
            | some hi =>
              obtain ⟨hint, info⟩ := hi
              simp only [hty] at hden hsat hdesc ⊢
              cases han : isAnyOfNode nd with
              | none => simp [han] at hdesc
              | some ns =>
                simp only [han] at hdesc
                have hndeq := isAnyOfNode_some han
                by_cases hs : hint = "disjunction_of_scalars"
                · subst hs
                  simp only [if_true, Bool.or_eq_true, Bool.and_eq_true, decide_eq_true_eq] at hden hsat hdesc ⊢
                  rcases hden with hden | hden
                  · rw [hden.2] at hnn; exact absurd hnn (by simp)
                  · obtain ⟨⟨⟨⟨hn2, hnonull⟩, _⟩, hany⟩, hsimple⟩ := hden
                    obtain ⟨n', rfl⟩ : ∃ n', n = n' + 2 := ⟨n - 2, by omega⟩
                    obtain ⟨bs, hbs, henc⟩ := scalar_union_case n' ss j hnonull fields hsimple hany [] (by simp)
                    apply close_ref_ptr hdr hF hnn
                    intro F' hF'
                    refine ⟨.union bs, by rw [hbs]; rfl, ?_⟩
                    simp only [goEncode]
                    rw [henc, hndeq, valid_anyOf]
                    obtain ⟨f, hf, hdenf⟩ := List.any_eq_true.1 hany
                    apply branches_any (D := D) (ss := ss) (n := n' + 2) (F := F') _ j fields ns hdesc
                    refine ⟨f, hf, ?_⟩
                    intro ndd hdd
                    have hsatf : sat (n' + 2) ss (noNull f.ty) j = true := by
                      have := (List.all_eq_true.1 hsat) f hf
                      simp only [Bool.or_eq_true, Bool.not_eq_true'] at this
                      rcases this with h | h
                      · simp only [noNull] at h; rw [hdenf] at h; exact absurd h (by simp)
                      · exact h
                    obtain ⟨v, hv, hval⟩ := ih F' hF' (noNull f.ty) ndd j hdd (by simpa [noNull] using hdenf) hsatf
                    have hsb := (List.all_eq_true.1 hsimple) f hf
                    rcases simple_branch n' ss f hsb j hnonull with ⟨_, v', hv', henc', _⟩ | ⟨h1, _⟩
                    · simp only [noNull] at hv
                      rw [hv'] at hv; cases hv
                      rw [henc'] at hval; exact hval
                    · rw [hdenf] at h1; exact absurd h1 (by simp)
                · simp only [hs, if_false] at hden hsat hdesc ⊢
                  cases j with
                  | obj members =>
                    simp only [Json.isNull, Bool.and_false, Bool.false_or] at hden
                    cases hd : Json.lookup info.discriminator members with
                    | none => simp [hd] at hden
                    | some d =>
                      cases d with
                      | str tag =>
                        simp only [hd, Bool.and_eq_true, bne_iff_ne, ne_eq] at hden hsat
                        obtain ⟨_, hden⟩ := hden
                        cases hm : info.mapping.find? (fun kv => kv.1 == tag) with
                        | none => simp [hm] at hden
                        | some kv =>
                          simp only [hm, Bool.and_eq_true] at hden hsat
                          obtain ⟨⟨hbf, _⟩, hdenk⟩ := hden
                          cases hf : fieldByRefName fields kv.2 with
                          | none => simp [hf] at hbf
                          | some bf =>
                            have hkvmem : kv ∈ info.mapping := List.mem_of_find?_eq_some hm
                            obtain ⟨ndk, hndk, hdk⟩ := anyDescribes_mem _ ns ((List.all_eq_true.1 hdesc) kv hkvmem)
                            have hbfmem : ∃ f ∈ fields, (f.name == bf.name) = true := by
                              unfold fieldByRefName at hf
                              exact ⟨bf, List.mem_of_find?_eq_some hf, by simp⟩
                            apply close_ref_ptr hdr hF hnn
                            intro F' hF'
                            obtain ⟨v, hv, hval⟩ := ih F' hF' (.ref pkg kv.2 {}) ndk (.obj members) hdk hdenk hsat
                            refine ⟨.union (fields.map fun f => (f.name, if f.name == bf.name then GoVal.ptr v else GoVal.nil)), ?_, ?_⟩
                            · simp only [hd, hm, hf, hv, DRes.map, DRes.bind]
                            · simp only [goEncode]
                              rw [encUnion_select fields bf.name v hbfmem, hndeq, valid_anyOf]
                              exact vAny_mem _ ns _ _ hndk hval
                      | null | bool _ | num _ | arr _ | obj _ => simp [hd] at hden
                  | null | bool _ | num _ | str _ | arr _ => simp at hsat
          | enum vals em =>
            cases vals with
            | nil => simp [hty] at hden
            | cons v0 rest =>
              simp only [hty, Bool.or_eq_true, Bool.and_eq_true] at hden hsat hdesc ⊢
              cases hen : isEnumNode nd with
              | none => simp [hen] at hdesc
              | some xs =>
                simp only [hen] at hdesc
                rcases hden with hden | hden
                · rw [hden.2] at hnn; exact absurd hnn (by simp)
                · have hk : v0.kind ≠ "any" := by
                    intro c; rw [c] at hden; simp [denScalar, intRange] at hden
                  obtain ⟨_, v, hv, henc, _, _⟩ := denScalar_decode hk hden
                  apply close_ref_ptr hdr hF hnn
                  intro F' _
                  refine ⟨v, hv, ?_⟩
                  rw [henc, isEnumNode_some hen, valid_enum, jsBeqList_eq _ _ hdesc, enumOK_member]
                  exact hsat
          | scalar kind sv scs om =>
            simp only [hty, Bool.and_eq_true, Bool.or_eq_true, bne_iff_ne, ne_eq, Bool.not_eq_true'] at hden hsat hdesc ⊢
            obtain ⟨⟨⟨⟨_, hb⟩, ha⟩, hdt⟩, hden⟩ := hden
            simp only [hb, if_false, hdt, ha] at hsat ⊢
            have hndeq := jsBeqKvs_eq _ _ hdesc
            rcases hden with hden | hden
            · rw [hden.2] at hnn; exact absurd hnn (by simp)
            · obtain ⟨_, v, hv, henc, _, _⟩ := denScalar_decode ha hden
              apply close_ref_ptr hdr hF hnn
              intro F' _
              refine ⟨v, hv, ?_⟩
              rw [henc, hndeq, vNode_obj _ _ _ (noref_emitScalar _ _ _ _)]
              exact scalar_valid _ _ kind sv scs _ j ha hb hden hsat.2
          | array ae am =>
            simp only [hty, Bool.and_eq_true, Bool.not_eq_true'] at hden hsat hdesc ⊢
            apply close_ref hdr hF
            intro F' hF'
            exact ih F' hF' _ nd j hdesc hden.2 hsat
          | map mi mv mm =>
            simp only [hty, Bool.and_eq_true, Bool.not_eq_true'] at hden hsat hdesc ⊢
            apply close_ref hdr hF
            intro F' hF'
            exact ih F' hF' _ nd j hdesc hden.2 hsat
          | ref rp rn rm =>
            simp only [hty] at hden hsat hdesc ⊢
            apply close_ref hdr hF
            intro F' hF'
            rw [describes_ref_meta D n ss rp rn rm { rm with nullable := m.nullable }] at hdesc
            rw [sat_ref_meta n ss rp rn rm { rm with nullable := m.nullable }] at hsat
            exact ih F' hF' _ nd j hdesc hden hsat
          | cref _ _ _ _ => simp [hty] at hden
          | disj _ _ _ => simp [hty] at hden
          | inter _ _ => simp [hty] at hden
          | slot _ _ => simp [hty] at hden
          | bad _ _ => simp [hty] at hden
    | cref pkg name val m => simp [den] at hden
    | struct _ _ _ _ => simp [den] at hden
    | enum _ _ => simp [den] at hden
    | disj _ _ _ => simp [den] at hden
    | inter _ _ => simp [den] at hden
    | slot _ _ => simp [den] at hden
    | bad _ _ => simp [den] at hden

end Cog.Sem.JSOut
