/-
  C12 — soundness of `describes`: every document of the C01 fragment that respects the IR (`sat`) is
  decoded by the generated Go type into a value whose encoding validates against the described node.
-/
import Cog.Sem.JsonSchemaOutValid
import Cog.Sem.JsonSchemaOutBeq
namespace Cog.Sem.JSOut
open Cog.IR Cog.Sem GoVal
open Cog.OMap (rget rset rget_rset)

/-! ### scalars -/

theorem mem_rset {k : String} {v : JS} {d : Def} {e : String × JS} (h : e ∈ rset k v d) : e = (k, v) ∨ e ∈ d := by
  induction d with
  | nil => simp [rset] at h; exact Or.inl h
  | cons a t ih =>
    obtain ⟨k', v'⟩ := a
    simp only [rset] at h
    split at h
    · rcases List.mem_cons.1 h with h1 | h1
      · exact Or.inl h1
      · exact Or.inr (List.mem_cons_of_mem _ h1)
    · rcases List.mem_cons.1 h with h1 | h1
      · exact Or.inr (by rw [h1]; simp)
      · rcases ih h1 with h2 | h2
        · exact Or.inl h2
        · exact Or.inr (List.mem_cons_of_mem _ h2)

theorem mem_addConstraints {table : List (String × String)} {cs : List Constraint} {d : Def} {e : String × JS}
    (h : e ∈ addConstraints table cs d) :
    e ∈ d ∨ ∃ c ∈ cs, ∃ kw, rget c.op table = some kw ∧ e = (kw, .raw (c.args.headD .nil)) := by
  induction cs generalizing d with
  | nil => exact Or.inl h
  | cons c cs ih =>
    simp only [addConstraints] at h
    split at h
    · rename_i kw hkw
      rcases ih h with h1 | ⟨c', hc', kw', h2, h3⟩
      · rcases mem_rset h1 with h2 | h2
        · exact Or.inr ⟨c, by simp, kw, hkw, h2⟩
        · exact Or.inl h2
      · exact Or.inr ⟨c', by simp [hc'], kw', h2, h3⟩
    · rcases ih h with h1 | ⟨c', hc', kw', h2, h3⟩
      · exact Or.inl h1
      · exact Or.inr ⟨c', by simp [hc'], kw', h2, h3⟩

theorem check_type (R : String → Json → Bool) (props : List String) (T : String) (j : Json) :
    entryCheck R props "type" (.str T) j = typeOK T j := by
  cases j <;> simp [entryCheck, vKws, kwLeaf]

theorem check_format (R : String → Json → Bool) (props : List String) (x : String) (j : Json) :
    entryCheck R props "format" (.str x) j = true := by
  cases j <;> simp [entryCheck, vKws, kwLeaf]

theorem check_const (R : String → Json → Bool) (props : List String) (v : Val) (j : Json) :
    entryCheck R props "const" (.raw v) j = valMatches v j := by
  cases j <;> simp [entryCheck, vKws, kwLeaf]

theorem numberOps_cases {op kw : String} (h : rget op numberOps = some kw) :
    (op = "<" ∧ kw = "exclusiveMaximum") ∨ (op = "<=" ∧ kw = "maximum") ∨ (op = ">" ∧ kw = "exclusiveMinimum") ∨
    (op = ">=" ∧ kw = "minimum") ∨ (op = "multipleOf" ∧ kw = "multipleOf") := by
  simp only [numberOps, rget] at h
  split at h
  · rename_i h1; cases h; exact Or.inl ⟨h1.symm, rfl⟩
  · split at h
    · rename_i h1; cases h; exact Or.inr (Or.inl ⟨h1.symm, rfl⟩)
    · split at h
      · rename_i h1; cases h; exact Or.inr (Or.inr (Or.inl ⟨h1.symm, rfl⟩))
      · split at h
        · rename_i h1; cases h; exact Or.inr (Or.inr (Or.inr (Or.inl ⟨h1.symm, rfl⟩)))
        · split at h
          · rename_i h1; cases h; exact Or.inr (Or.inr (Or.inr (Or.inr ⟨h1.symm, rfl⟩)))
          · simp at h

theorem stringOps_cases {op kw : String} (h : rget op stringOps = some kw) :
    (op = "minLength" ∧ kw = "minLength") ∨ (op = "maxLength" ∧ kw = "maxLength") := by
  simp only [stringOps, rget] at h
  split at h
  · rename_i h1; cases h; exact Or.inl ⟨h1.symm, rfl⟩
  · split at h
    · rename_i h1; cases h; exact Or.inr ⟨h1.symm, rfl⟩
    · simp at h

/-- a numeric constraint the document satisfies is satisfied as the keyword the emitter writes -/
theorem check_num (R : String → Json → Bool) (props : List String) (c : Constraint) (kw : String) (j : Json)
    (hkw : rget c.op numberOps = some kw) (hs : satNumC c j = true) :
    entryCheck R props kw (.raw (c.args.headD .nil)) j = true := by
  rcases numberOps_cases hkw with ⟨ho, hk⟩ | ⟨ho, hk⟩ | ⟨ho, hk⟩ | ⟨ho, hk⟩ | ⟨ho, hk⟩ <;>
    subst hk <;> simp only [satNumC, opNum, ho] at hs <;>
    cases j <;> cases hv : valRat (c.args.headD Val.nil) <;> simp_all [entryCheck, vKws, kwLeaf, numKw]

theorem check_str (R : String → Json → Bool) (props : List String) (c : Constraint) (kw : String) (j : Json)
    (hkw : rget c.op stringOps = some kw) (hs : satStrC c j = true) :
    entryCheck R props kw (.raw (c.args.headD .nil)) j = true := by
  rcases stringOps_cases hkw with ⟨ho, hk⟩ | ⟨ho, hk⟩ <;>
    subst hk <;> simp only [satStrC, ho] at hs <;>
    cases j <;> cases hv : valRat (c.args.headD Val.nil) <;> simp_all [entryCheck, vKws, kwLeaf, numKw]

theorem isIntKind_range {k : String} (h : isIntKind k = true) : ∃ r, intRange k = some r := by
  simp only [isIntKind, Bool.or_eq_true, beq_iff_eq] at h
  rcases h with ((((((h | h) | h) | h) | h) | h) | h) | h <;> subst h <;> exact ⟨_, rfl⟩

/-- the entries of a scalar node accept a document of the scalar's Go type that respects its
    constant and constraints -/
theorem scalar_valid (R : String → Json → Bool) (props : List String) (kind : String) (v : Val)
    (cs : List Constraint) (dt : Bool) (j : Json) (hany : kind ≠ "any") (hb : kind ≠ "bytes")
    (hden : denScalar kind j = true) (hs : satScalar kind v cs j = true) :
    vKws R props (emitScalar kind v cs dt) j = true := by
  rw [vKws_all]
  intro e he
  simp only [satScalar, Bool.and_eq_true, Bool.or_eq_true] at hs
  obtain ⟨hconst, hcs⟩ := hs
  have base : ∀ e ∈ scalarBase kind cs dt, entryCheck R props e.1 e.2 j = true := by
    intro e he
    unfold scalarBase at he
    by_cases h1 : kind = "null"
    · subst h1; simp [denScalar, intRange] at hden
    · simp only [h1, hany, hb, if_false] at he
      by_cases h4 : kind = "string"
      · subst h4
        simp only [if_true] at he
        have hstr : ∃ x, j = .str x := by
          cases j <;> simp [denScalar] at hden ⊢
        obtain ⟨x, rfl⟩ := hstr
        have hcs' : ∀ c ∈ cs, satStrC c (.str x) = true := by
          simpa [isStrKind, List.all_eq_true] using hcs
        have inner : ∀ e ∈ addConstraints stringOps cs [("type", JS.str "string")],
            entryCheck R props e.1 e.2 (.str x) = true := by
          intro e he
          rcases mem_addConstraints he with h1 | ⟨c, hc, kw, hkw, rfl⟩
          · simp at h1; subst h1; simp [check_type, typeOK]
          · exact check_str R props c kw _ hkw (hcs' c hc)
        split at he
        · rcases mem_rset he with h1 | h1
          · subst h1; exact check_format _ _ _ _
          · exact inner e h1
        · exact inner e he
      · simp only [h4, if_false] at he
        by_cases h5 : kind = "bool"
        · subst h5
          simp at he; subst he
          cases j <;> simp [denScalar] at hden ⊢
          simp [check_type, typeOK]
        · simp only [h5, if_false] at he
          by_cases h6 : kind = "float32" ∨ kind = "float64"
          · simp only [h6, if_true] at he
            have hnum : ∃ q, j = .num q := by
              rcases h6 with hk | hk <;> subst hk <;> cases j <;> simp [denScalar] at hden ⊢
            obtain ⟨q, rfl⟩ := hnum
            have hcs' : ∀ c ∈ cs, satNumC c (.num q) = true := by
              rcases h6 with hk | hk <;> subst hk <;> simpa [isStrKind, isNumKind, List.all_eq_true] using hcs
            rcases mem_addConstraints he with h1 | ⟨c, hc, kw, hkw, rfl⟩
            · simp at h1; subst h1; simp [check_type, typeOK]
            · exact check_num R props c kw _ hkw (hcs' c hc)
          · simp only [h6, if_false] at he
            by_cases h7 : isIntKind kind = true
            · simp only [h7, if_true] at he
              obtain ⟨r, hr⟩ := isIntKind_range h7
              obtain ⟨lo, hi⟩ := r
              have hnum : ∃ q, j = .num q ∧ q % 4 = 0 := by
                unfold denScalar at hden
                simp only [h4, h5, h6, if_false, hr] at hden
                cases j <;> simp at hden ⊢
                exact hden.1
              obtain ⟨q, rfl, hq⟩ := hnum
              have hcs' : ∀ c ∈ cs, satNumC c (.num q) = true := by
                have h1 : isStrKind kind = false := by
                  simp only [isStrKind, Bool.or_eq_false_iff, beq_eq_false_iff_ne, ne_eq]
                  exact ⟨h4, hb⟩
                simpa [h1, isNumKind, h7, List.all_eq_true] using hcs
              rcases mem_addConstraints he with h1 | ⟨c, hc, kw, hkw, rfl⟩
              · simp at h1; subst h1; simp [check_type, typeOK, hq]
              · exact check_num R props c kw _ hkw (hcs' c hc)
            · simp [h7] at he
  unfold emitScalar at he
  split at he
  · exact base e he
  · rename_i hnil
    rcases mem_rset he with h1 | h1
    · subst h1
      rw [check_const]
      rcases hconst with h2 | h2
      · exact absurd h2 hnil
      · exact h2
    · exact base e h1

end Cog.Sem.JSOut
