/-
  C01 (c) pass widening — the heart: NotRequiredFieldAsNullableType.

  * `NotRequired_run`: on schemas with well-formed object maps the pass IS the object-wise map of its
    type visitor `vTy` (exact result through the real `visitSchemas` frame);
  * `nr_widen`: every document of the source-side language (`xden true` = `srcDen`: a non-required
    field may be absent whatever its type) of a plain schema set belongs to the Go reading
    (`xden false`: a non-required field must be a pointer or a collection, absent = `null`) of the
    pass's output, at the same fuel.  Induction on the fuel; the field case uses that the pass made
    the field nullable (`fieldShapeOK`), that `xden` is monotone in `nullable`, and that the
    source-side hypothesis for an absent field is exactly `null ∈ ⟦nullable T⟧`.

  Everything is proved on `nrTy` / `PlainN` (plain types plus `T | null` pairs, Cog/Sem/SrcDen.lean);
  the plain statements are corollaries.
-/
import Cog.Sem.WidenId
import Cog.Sem.DenMono
namespace Cog.Sem.Src
open Cog.IR Cog.Passes
open NotRequiredFieldAsNullableType (vTy vFields fixField)

theorem setNullable_scalar (k v c m) : setNullable true (.scalar k v c m) = .scalar k v c { m with nullable := true } := rfl
theorem setNullable_ref (p n m) : setNullable true (.ref p n m) = .ref p n { m with nullable := true } := rfl
theorem setNullable_array (e m) : setNullable true (.array e m) = .array e { m with nullable := true } := rfl
theorem setNullable_map (i v m) : setNullable true (.map i v m) = .map i v { m with nullable := true } := rfl

theorem or_null_mono {x y z : Bool} (h : (x && y || z) = true) : (true && y || z) = true := by
  cases x <;> simp_all

theorem plain_nr : ∀ t : Ty, plainTy t = true → nrTy t = true
  | .scalar .., _ => rfl
  | .ref .., _ => rfl
  | .array e m, h => by simp only [plainTy] at h; simpa [nrTy] using plain_nr e h
  | .map i v m, h => by
    simp only [plainTy, Bool.and_eq_true] at h
    simp only [nrTy, Bool.and_eq_true]; exact ⟨h.1, plain_nr v h.2⟩
  | .cref .., h => by simp [plainTy] at h
  | .struct .., h => by simp [plainTy] at h
  | .enum .., h => by simp [plainTy] at h
  | .disj .., h => by simp [plainTy] at h
  | .inter .., h => by simp [plainTy] at h
  | .slot .., h => by simp [plainTy] at h
  | .bad .., h => by simp [plainTy] at h

theorem nullPairOf_cases {bs : List Ty} {t : Ty} (h : nullPairOf bs = some t) :
    ∃ a b, bs = [a, b] ∧ ((isNull a = true ∧ isNull b = false ∧ t = b) ∨ (isNull b = true ∧ isNull a = false ∧ t = a)) := by
  cases bs with
  | nil => simp [nullPairOf] at h
  | cons a r =>
    cases r with
    | nil => simp [nullPairOf] at h
    | cons b r2 =>
      cases r2 with
      | cons _ _ => simp [nullPairOf] at h
      | nil =>
        refine ⟨a, b, rfl, ?_⟩
        simp only [nullPairOf] at h
        cases ha : isNull a <;> cases hb : isNull b <;> simp [ha, hb] at h <;> simp [h]

/-- what `nullPairOf` says in the terms of the passes and of `xden` -/
theorem nullPairOf_spec {bs : List Ty} {t : Ty} (h : nullPairOf bs = some t) :
    (bs.length == 2 && hasNullType bs) = true ∧ nonNullTypes bs = [t] := by
  obtain ⟨a, b, hbs, hc⟩ := nullPairOf_cases h
  clear h
  subst hbs
  rcases hc with ⟨ha, hb, ht⟩ | ⟨hb, ha, ht⟩ <;> subst ht <;> simp [hasNullType, nonNullTypes, ha, hb]

theorem nullPair_spec {bs : List Ty} (h : nullPair bs = true) :
    ∃ t, nullPairOf bs = some t ∧ plainTy t = true := by
  simp only [nullPair] at h
  cases hn : nullPairOf bs with
  | none => simp [hn] at h
  | some t => exact ⟨t, rfl, by simpa [hn] using h⟩

theorem setNullable_disj (bs i m) : setNullable true (.disj bs i m) = .disj bs i { m with nullable := true } := rfl

theorem xden_setNullable (b : Bool) (S : Schemas) : ∀ n t j, nrTy t = true → xden b n S t j = true →
    xden b n S (setNullable true t) j = true := by
  intro n
  induction n with
  | zero => intro t j _ h; simp [xden] at h
  | succ n ih =>
    intro t j hp h
    cases t with
    | scalar kind v cs m =>
      rw [setNullable_scalar]
      simp only [xden] at h ⊢
      have hh : hasHint { m with nullable := true } "string_format_datetime" = hasHint m "string_format_datetime" := rfl
      rw [hh]
      by_cases hb : kind = "bytes"
      · simp [hb] at h
      · by_cases ha : kind = "any"
        · simpa [hb, ha] using h
        · simp only [hb, ha, if_false] at h ⊢
          cases hd : hasHint m "string_format_datetime" with
          | true => simp only [hd, if_true] at h ⊢; exact or_null_mono h
          | false => simp only [hd] at h ⊢; exact or_null_mono h
    | array e m =>
      rw [setNullable_array]
      simp only [xden, Bool.and_eq_true] at h ⊢
      refine ⟨h.1, ?_⟩
      cases j <;> simp_all
    | map i v m =>
      rw [setNullable_map]
      simp only [xden] at h ⊢
      split
      · cases j with
        | obj kvs => exact h
        | null => rfl
        | bool _ | num _ | str _ | arr _ => exact h
      · simp at h
    | ref p nm m =>
      rw [setNullable_ref]
      simp only [xden] at h ⊢
      cases ho : Schemas.locateObject S p nm with
      | none => simp [ho] at h
      | some o =>
        simp only [ho] at h ⊢
        cases hty : o.ty with
        | struct fields gen gi sm =>
          cases gi with
          | none => simp only [hty] at h ⊢; exact or_null_mono h
          | some x => simp [hty] at h
        | enum vals em =>
          cases vals with
          | nil => simp [hty] at h
          | cons v0 rest => simp only [hty] at h ⊢; exact or_null_mono h
        | scalar kind sv scs om =>
          simp only [hty, Bool.and_eq_true] at h ⊢
          exact ⟨h.1, or_null_mono h.2⟩
        | array ae am => simp only [hty] at h ⊢; exact h
        | map mi mv mm => simp only [hty] at h ⊢; exact h
        | ref rp rn rm =>
          simp only [hty] at h ⊢
          exact ih _ _ rfl h
        | cref _ _ _ _ => simp [hty] at h
        | disj _ _ _ => simp [hty] at h
        | inter _ _ => simp [hty] at h
        | slot _ _ => simp [hty] at h
        | bad _ _ => simp [hty] at h
    | disj bs info m =>
      simp only [nrTy] at hp
      obtain ⟨t, ht, _⟩ := nullPair_spec hp
      obtain ⟨hc, hnn⟩ := nullPairOf_spec ht
      rw [setNullable_disj]
      simp only [xden, hc, if_true, hnn] at h ⊢
      exact h
    | cref _ _ _ _ => simp [nrTy] at hp
    | struct _ _ _ _ => simp [nrTy] at hp
    | enum vals em =>
      cases vals with
      | nil => simp [nrTy] at hp
      | cons v0 rest =>
        have : setNullable true (.enum (v0 :: rest) em) = .enum (v0 :: rest) { em with nullable := true } := rfl
        rw [this]
        simp only [xden] at h ⊢
        exact or_null_mono h
    | inter _ _ => simp [nrTy] at hp
    | slot _ _ => simp [nrTy] at hp
    | bad _ _ => simp [nrTy] at hp

/-! ### the pass on types without anonymous structs -/

theorem plainTy_setNullable (b : Bool) (t : Ty) : plainTy (setNullable b t) = plainTy t := by
  cases t <;> rfl

theorem nrTy_setNullable (b : Bool) (t : Ty) : nrTy (setNullable b t) = nrTy t := by
  cases t with
  | enum vs m => cases vs <;> rfl
  | _ => rfl

theorem isCollLike_setNullable (b : Bool) (t : Ty) : isCollLike (setNullable b t) = isCollLike t := by
  cases t <;> rfl

theorem getMeta_setNullable (b : Bool) (t : Ty) : (setNullable b t).getMeta.nullable = b := by
  cases t <;> rfl

theorem setNullable_of_nullable (t : Ty) (h : t.getMeta.nullable = true) : setNullable true t = t := by
  cases t <;> (simp only [Ty.getMeta] at h; simp only [setNullable, Ty.setMeta, Ty.getMeta]; congr; rw [← h])

theorem NR_vTy_plain : ∀ t : Ty, plainTy t = true → vTy t = t
  | .scalar .., _ => by simp [vTy]
  | .ref .., _ => by simp [vTy]
  | .array e m, h => by simp only [plainTy] at h; simp [vTy, NR_vTy_plain e h]
  | .map i v m, h => by simp only [plainTy, Bool.and_eq_true] at h; simp [vTy, NR_vTy_plain v h.2]
  | .cref .., h => by simp [plainTy] at h
  | .struct .., h => by simp [plainTy] at h
  | .enum .., h => by simp [plainTy] at h
  | .disj .., h => by simp [plainTy] at h
  | .inter .., h => by simp [plainTy] at h
  | .slot .., h => by simp [plainTy] at h
  | .bad .., h => by simp [plainTy] at h

theorem NR_vTy_nr : ∀ t : Ty, nrTy t = true → vTy t = t
  | .scalar .., _ => by simp [vTy]
  | .ref .., _ => by simp [vTy]
  | .array e m, h => by simp only [nrTy] at h; simp [vTy, NR_vTy_nr e h]
  | .map i v m, h => by simp only [nrTy, Bool.and_eq_true] at h; simp [vTy, NR_vTy_nr v h.2]
  | .disj bs info m, h => by
    simp only [nrTy] at h
    obtain ⟨t, ht, hpt⟩ := nullPair_spec h
    have hnull : ∀ x : Ty, isNull x = true → vTy x = x := by
      intro x hx; cases x <;> simp [isNull] at hx <;> simp [vTy]
    obtain ⟨a, b, hbs, hc⟩ := nullPairOf_cases ht
    clear ht h
    subst hbs
    rcases hc with ⟨ha, _, hta⟩ | ⟨hb, _, hta⟩
    · subst hta; simp [vTy, NotRequiredFieldAsNullableType.vList, hnull a ha, NR_vTy_plain _ hpt]
    · subst hta; simp [vTy, NotRequiredFieldAsNullableType.vList, hnull b hb, NR_vTy_plain _ hpt]
  | .cref .., h => by simp [nrTy] at h
  | .struct .., h => by simp [nrTy] at h
  | .enum .., _ => by simp [vTy]
  | .inter .., h => by simp [nrTy] at h
  | .slot .., h => by simp [nrTy] at h
  | .bad .., h => by simp [nrTy] at h

theorem NR_vFields_nr : ∀ fs : List Field, (fs.all fun f => nrTy f.ty) = true →
    vFields fs = fs.map fun f => fixField f f.ty
  | [], _ => by simp [vFields]
  | f :: fs, h => by
    simp only [List.all_cons, Bool.and_eq_true] at h
    simp [vFields, NR_vTy_nr f.ty h.1, NR_vFields_nr fs h.2]

theorem all_plain_nr (fs : List Field) (h : (fs.all fun f => plainTy f.ty) = true) :
    (fs.all fun f => nrTy f.ty) = true := by
  simp only [List.all_eq_true] at h ⊢
  exact fun f hf => plain_nr _ (h f hf)

theorem NR_vFields_plain (fs : List Field) (h : (fs.all fun f => plainTy f.ty) = true) :
    vFields fs = fs.map fun f => fixField f f.ty := NR_vFields_nr fs (all_plain_nr fs h)

/-- the output of the pass -/
def nrS (S : Schemas) : Schemas := mapSchemas vTy (setTy vTy) S

/-- exact result of the pass through the real frame (only the object maps need to be well-formed) -/
theorem NotRequired_run (S : Schemas) (h : ∀ s ∈ S, wfObjects s.objects = true) :
    NotRequiredFieldAsNullableType.run S = .ok (nrS S) := by
  have := visitSchemas_map (fun _ s => visitSchemaPure (fun t => .ok (vTy t)) s) (mapSchema vTy (setTy vTy)) S (by
    intro cur s hs
    exact visitSchemaPure_map (fun t => .ok (vTy t)) vTy s (h s hs) rfl (fun _ _ => rfl))
  simpa [NotRequiredFieldAsNullableType.run, nrS, mapSchemas] using this

theorem NotRequired_run_plain (S : Schemas) (h : Plain S = true) :
    NotRequiredFieldAsNullableType.run S = .ok (nrS S) :=
  NotRequired_run S (fun _ hs => plainSchema_wf (Plain_schema h hs))

/-! ### fields -/

theorem fixField_name (f : Field) (t : Ty) : (fixField f t).name = f.name := by
  simp only [fixField]; split <;> rfl
theorem fixField_required (f : Field) (t : Ty) : (fixField f t).required = f.required := by
  simp only [fixField]; split <;> rfl

theorem fixField_self (f : Field) (h : f.required = true ∨ f.ty.getMeta.nullable = true) :
    fixField f f.ty = f := by
  obtain ⟨name, ty, required, comments⟩ := f
  simp only at h
  rcases h with h | h <;> simp [fixField, h]

theorem nr_fields (d d' : Ty → Json → Bool)
    (himp : ∀ t j, nrTy t = true → d t j = true → d' t j = true)
    (hmono : ∀ t j, nrTy t = true → d' t j = true → d' (setNullable true t) j = true)
    (fs : List Field) (hp : (fs.all fun f => nrTy f.ty) = true) (members : List (String × Json))
    (h : xFieldsWith true d fs members = true) :
    xFieldsWith false d' (fs.map fun f => fixField f f.ty) members = true := by
  simp only [xFieldsWith, List.all_map, List.all_eq_true] at h ⊢
  simp only [List.all_eq_true] at hp
  intro f hf
  have hpf := hp f hf
  have h := h f hf
  simp only [Function.comp, fixField_name, Bool.false_or, Bool.true_or, Bool.true_and, Bool.and_eq_true,
    if_true, Bool.false_eq_true, if_false] at h ⊢
  -- the type of the fixed field
  by_cases hr : f.required = true
  · -- required: the field is unchanged
    have hfix : fixField f f.ty = f := fixField_self f (Or.inl hr)
    rw [hfix]
    refine ⟨by simp [fieldShapeOK, hr], ?_⟩
    cases hl : Json.lookup f.name members with
    | some v => rw [hl] at h; simp only [Bool.and_eq_true] at h ⊢; exact ⟨himp _ _ hpf h.1, h.2⟩
    | none => rw [hl] at h; simp [hr] at h
  · have hr' : f.required = false := by simpa using hr
    by_cases hn : f.ty.getMeta.nullable = true
    · have hfix : fixField f f.ty = f := fixField_self f (Or.inr hn)
      rw [hfix]
      refine ⟨by simp [fieldShapeOK, hn], ?_⟩
      cases hl : Json.lookup f.name members with
      | some v => rw [hl] at h; simp only [Bool.and_eq_true] at h ⊢; exact ⟨himp _ _ hpf h.1, h.2⟩
      | none =>
        rw [hl] at h; simp only [Bool.and_eq_true] at h ⊢
        rw [setNullable_of_nullable _ hn] at h
        exact ⟨h.1, himp _ _ hpf h.2⟩
    · have hn' : f.ty.getMeta.nullable = false := by simpa using hn
      have hfix : fixField f f.ty = { f with ty := setNullable true f.ty } := by simp [fixField, hr', hn']
      rw [hfix]
      refine ⟨by simp [fieldShapeOK, getMeta_setNullable], ?_⟩
      cases hl : Json.lookup f.name members with
      | some v =>
        rw [hl] at h; simp only [Bool.and_eq_true] at h ⊢
        refine ⟨hmono _ _ hpf (himp _ _ hpf h.1), ?_⟩
        simpa [xFieldValueOK, isCollLike_setNullable] using h.2
      | none =>
        rw [hl] at h; simp only [Bool.and_eq_true] at h ⊢
        exact ⟨h.1, himp _ _ (by rw [nrTy_setNullable]; exact hpf) h.2⟩

theorem nr_structBody (d d' : Ty → Json → Bool)
    (himp : ∀ t j, nrTy t = true → d t j = true → d' t j = true)
    (hmono : ∀ t j, nrTy t = true → d' t j = true → d' (setNullable true t) j = true)
    (fs : List Field) (hp : (fs.all fun f => nrTy f.ty) = true) (j : Json)
    (h : xStructBody true d fs j = true) :
    xStructBody false d' (fs.map fun f => fixField f f.ty) j = true := by
  cases j with
  | obj members =>
    have hnames : (fs.map fun f => fixField f f.ty).map (·.name) = fs.map (·.name) := by
      simp [List.map_map, Function.comp_def, fixField_name]
    simp only [xStructBody, hnames, Bool.and_eq_true] at h ⊢
    exact ⟨h.1, nr_fields d d' himp hmono fs hp members h.2⟩
  | null | bool _ | num _ | str _ | arr _ => simp [xStructBody] at h

/-! ### the widening step -/

theorem PlainN_schema {S : Schemas} (h : PlainN S = true) {s : Schema} (hs : s ∈ S) : nrSchema s = true := by
  simp only [PlainN, List.all_eq_true] at h
  exact h s hs

theorem PlainN_located {S : Schemas} (h : PlainN S = true) {pkg name : String} {o : Obj}
    (ho : Schemas.locateObject S pkg name = some o) : nrObjTy o.ty = true := by
  obtain ⟨s, hs, hm⟩ := locateObject_mem ho
  have := PlainN_schema h hs
  simp only [nrSchema, Bool.and_eq_true, List.all_eq_true] at this
  exact this.2 _ hm

theorem plainObj_nrObj (t : Ty) (h : plainObjTy t = true) : nrObjTy t = true := by
  cases t with
  | struct fs g gi m =>
    cases gi with
    | none => simp only [plainObjTy] at h; simpa [nrObjTy] using all_plain_nr fs h
    | some x => simp [plainObjTy] at h
  | enum vs m => rfl
  | scalar k v c m => rfl
  | ref p n m => rfl
  | array e m => exact plain_nr _ (by simpa [plainObjTy] using h)
  | map i v m => exact plain_nr _ (by simpa [plainObjTy] using h)
  | cref _ _ _ _ => simp [plainObjTy, plainTy] at h
  | disj _ _ _ => simp [plainObjTy, plainTy] at h
  | inter _ _ => simp [plainObjTy, plainTy] at h
  | slot _ _ => simp [plainObjTy, plainTy] at h
  | bad _ _ => simp [plainObjTy, plainTy] at h

theorem Plain_PlainN (S : Schemas) (h : Plain S = true) : PlainN S = true := by
  simp only [Plain, PlainN, List.all_eq_true] at h ⊢
  intro s hs
  have := h s hs
  simp only [plainSchema, nrSchema, Bool.and_eq_true, List.all_eq_true] at this ⊢
  exact ⟨this.1, fun ko hk => plainObj_nrObj _ (this.2 ko hk)⟩

theorem NotRequired_run_plainN (S : Schemas) (h : PlainN S = true) :
    NotRequiredFieldAsNullableType.run S = .ok (nrS S) :=
  NotRequired_run S (fun _ hs => by
    have := PlainN_schema h hs
    simp only [nrSchema, Bool.and_eq_true] at this
    exact this.1.1)

theorem nr_widenN (S : Schemas) (hP : PlainN S = true) : ∀ n t j, nrTy t = true →
    xden true n S t j = true → xden false n (nrS S) t j = true := by
  intro n
  induction n with
  | zero => intro t j _ h; simp [xden] at h
  | succ n ih =>
    intro t j hp h
    cases t with
    | scalar kind v cs m => simpa [xden] using h
    | array e m =>
      simp only [nrTy] at hp
      simp only [xden, Bool.and_eq_true] at h ⊢
      refine ⟨h.1, ?_⟩
      cases j with
      | arr xs => exact all_mono _ _ (fun x => ih e x hp) xs h.2
      | null => exact h.2
      | bool _ | num _ | str _ | obj _ => exact h.2
    | map i v m =>
      simp only [nrTy, Bool.and_eq_true] at hp
      simp only [xden] at h ⊢
      split at h
      · cases j with
        | obj kvs =>
          simp only [Bool.and_eq_true] at h ⊢
          exact ⟨h.1, all_mono _ _ (fun kv => ih v kv.2 hp.2) kvs h.2⟩
        | null => exact h
        | bool _ | num _ | str _ | arr _ => exact h
      · simp at h
    | disj bs info m =>
      simp only [nrTy] at hp
      obtain ⟨t, ht, hpt⟩ := nullPair_spec hp
      obtain ⟨hc, hnn⟩ := nullPairOf_spec ht
      simp only [xden, hc, if_true, hnn] at h ⊢
      exact ih _ _ (by rw [nrTy_setNullable]; exact plain_nr t hpt) h
    | ref p nm m =>
      simp only [xden] at h ⊢
      rw [nrS, locateObject_mapSchemas]
      cases ho : Schemas.locateObject S p nm with
      | none => simp [ho] at h
      | some o =>
        have hpo := PlainN_located hP ho
        simp only [ho, Option.map, setTy_ty] at h ⊢
        cases hty : o.ty with
        | struct fields gen gi sm =>
          cases gi with
          | none =>
            rw [hty] at hpo
            simp only [nrObjTy] at hpo
            simp only [hty, vTy, NR_vFields_nr fields hpo, Bool.or_eq_true] at h ⊢
            rcases h with h | h
            · exact Or.inl h
            · exact Or.inr (nr_structBody _ _ (fun t j => ih t j)
                (fun t j => xden_setNullable false (nrS S) n t j) fields hpo j h)
          | some x => simp [hty] at h
        | enum vals em =>
          cases vals with
          | nil => simp [hty] at h
          | cons v0 rest => simpa [hty, vTy] using h
        | scalar kind sv scs om => simpa [hty, vTy] using h
        | array ae am =>
          rw [hty] at hpo
          have hpa : nrTy (.array ae am) = true := by simpa [nrObjTy] using hpo
          simp only [hty, NR_vTy_nr _ hpa, Bool.and_eq_true] at h ⊢
          exact ⟨h.1, ih _ _ hpa h.2⟩
        | map mi mv mm =>
          rw [hty] at hpo
          have hpa : nrTy (.map mi mv mm) = true := by simpa [nrObjTy] using hpo
          simp only [hty, NR_vTy_nr _ hpa, Bool.and_eq_true] at h ⊢
          exact ⟨h.1, ih _ _ hpa h.2⟩
        | ref rp rn rm =>
          simp only [hty, vTy] at h ⊢
          exact ih _ _ rfl h
        | cref _ _ _ _ => simp [hty] at h
        | disj _ _ _ => simp [hty] at h
        | inter _ _ => simp [hty] at h
        | slot _ _ => simp [hty] at h
        | bad _ _ => simp [hty] at h
    | cref _ _ _ _ => simp [nrTy] at hp
    | struct _ _ _ _ => simp [nrTy] at hp
    | enum vals em =>
      cases vals with
      | nil => simp [nrTy] at hp
      | cons v0 rest => simpa [xden] using h
    | inter _ _ => simp [nrTy] at hp
    | slot _ _ => simp [nrTy] at hp
    | bad _ _ => simp [nrTy] at hp

/-- the plain statement -/
theorem nr_widen (S : Schemas) (hP : Plain S = true) (n : Nat) (t : Ty) (j : Json) (ht : plainTy t = true)
    (h : xden true n S t j = true) : xden false n (nrS S) t j = true :=
  nr_widenN S (Plain_PlainN S hP) n t j (plain_nr t ht) h

end Cog.Sem.Src
