/-
  C12 — the emitted document describes the IR it was emitted from (`describes` holds by proof, not
  by evaluation) on the fragment `jsFrag`: references stay inside the package, object and field names
  are distinct, the types are those of the Go normal form without union structs.  This ties
  `C12_values_validate_partial` to `emitDefs` itself (see `C12_values_validate_same_ir_partial`).
-/
import Cog.Sem.JsonSchemaOutSound
import Cog.Sem.JsonSchemaOutFrag
namespace Cog.Sem.JSOut
open Cog.IR Cog.Sem GoVal
open Cog.OMap (rget rset rget_rset)

/-! ### reflexivity of the equality tests -/

mutual
theorem valBeq_refl : ∀ a : Val, valBeq a a = true
  | .nil => rfl
  | .bool _ => by simp [valBeq]
  | .int _ _ => by simp [valBeq]
  | .float _ _ => by simp [valBeq]
  | .jnum _ => by simp [valBeq]
  | .str _ => by simp [valBeq]
  | .other _ _ => by simp [valBeq]
  | .list xs => by simp only [valBeq]; exact valBeqList_refl xs
  | .map xs => by simp only [valBeq]; exact valBeqKvs_refl xs
theorem valBeqList_refl : ∀ a : List Val, valBeqList a a = true
  | [] => rfl
  | x :: xs => by simp [valBeqList, valBeq_refl x, valBeqList_refl xs]
theorem valBeqKvs_refl : ∀ a : List (String × Val), valBeqKvs a a = true
  | [] => rfl
  | (k, x) :: xs => by simp [valBeqKvs, valBeq_refl x, valBeqKvs_refl xs]
end

mutual
theorem jsBeq_refl : ∀ a : JS, jsBeq a a = true
  | .str _ => by simp [jsBeq]
  | .bool _ => by simp [jsBeq]
  | .ref _ => by simp [jsBeq]
  | .raw v => by simp only [jsBeq]; exact valBeq_refl v
  | .arr xs => by simp only [jsBeq]; exact jsBeqList_refl xs
  | .obj xs => by simp only [jsBeq]; exact jsBeqKvs_refl xs
theorem jsBeqList_refl : ∀ a : List JS, jsBeqList a a = true
  | [] => rfl
  | x :: xs => by simp [jsBeqList, jsBeq_refl x, jsBeqList_refl xs]
theorem jsBeqKvs_refl : ∀ a : List (String × JS), jsBeqKvs a a = true
  | [] => rfl
  | (k, x) :: xs => by simp [jsBeqKvs, jsBeq_refl x, jsBeqKvs_refl xs]
end

/-! ### `core` on emitted nodes -/

theorem core_idem (d : Def) : core (core d) = core d := by
  simp [core, List.filter_filter]

theorem core_rset_ann {k : String} (v : JS) (d : Def) (h : isAnn k = true) : core (rset k v d) = core d := by
  induction d with
  | nil => simp [rset, core, h]
  | cons e t ih =>
    obtain ⟨a, b⟩ := e
    simp only [rset]
    split
    · rename_i hk
      subst hk
      simp [core, List.filter_cons, h]
    · simp only [core, List.filter_cons] at ih ⊢
      split <;> simp [ih]

theorem core_withDesc (c : List String) (d : Def) : core (withDesc c d) = core d := by
  unfold withDesc
  split
  · rfl
  · exact core_rset_ann _ _ (by decide)

theorem core_withDefault (v : Val) (d : Def) : core (withDefault v d) = core d := by
  unfold withDefault
  split
  · rfl
  · exact core_rset_ann _ _ (by decide)

theorem core_id {d : Def} (h : ∀ e ∈ d, isAnn e.1 = false) : core d = d := by
  simp only [core]
  rw [List.filter_eq_self]
  intro e he
  simp [h e he]

theorem scalarBase_noann (kind : String) (cs : List Constraint) (dt : Bool) :
    ∀ e ∈ scalarBase kind cs dt, isAnn e.1 = false := by
  intro e he
  have strc : ∀ e ∈ addConstraints stringOps cs [("type", JS.str "string")], isAnn e.1 = false := by
    intro e he
    rcases mem_addConstraints he with h1 | ⟨c, _, kw, hkw, rfl⟩
    · simp at h1; subst h1; simp [isAnn]
    · rcases stringOps_cases hkw with ⟨_, hk⟩ | ⟨_, hk⟩ <;> subst hk <;> simp [isAnn]
  have numc : ∀ T, ∀ e ∈ addConstraints numberOps cs [("type", JS.str T)], isAnn e.1 = false := by
    intro T e he
    rcases mem_addConstraints he with h1 | ⟨c, _, kw, hkw, rfl⟩
    · simp at h1; subst h1; simp [isAnn]
    · rcases numberOps_cases hkw with ⟨_, hk⟩ | ⟨_, hk⟩ | ⟨_, hk⟩ | ⟨_, hk⟩ | ⟨_, hk⟩ <;> subst hk <;> simp [isAnn]
  unfold scalarBase at he
  split at he
  · simp at he; subst he; simp [isAnn]
  · split at he
    · simp at he; rcases he with he | he <;> subst he <;> simp [isAnn]
    · split at he
      · exact strc e he
      · split at he
        · split at he
          · rcases mem_rset he with h1 | h1
            · subst h1; simp [isAnn]
            · exact strc e h1
          · exact strc e he
        · split at he
          · simp at he; subst he; simp [isAnn]
          · split at he
            · exact numc _ e he
            · split at he
              · exact numc _ e he
              · simp at he

theorem core_emitScalar (kind : String) (v : Val) (cs : List Constraint) (dt : Bool) :
    core (emitScalar kind v cs dt) = emitScalar kind v cs dt := by
  apply core_id
  intro e he
  unfold emitScalar at he
  split at he
  · exact scalarBase_noann _ _ _ e he
  · rcases mem_rset he with h1 | h1
    · subst h1; simp [isAnn]
    · exact scalarBase_noann _ _ _ e h1

/-- `describes` only looks at the node without its annotations -/
theorem describes_core (D : Def) (n : Nat) (ss : Schemas) (t : Ty) (node : Def) :
    describes D n ss t (core node) = describes D n ss t node := by
  cases n with
  | zero => simp only [describes]
  | succ n => cases t <;> simp only [describes, core_idem]

/-! ### emitted fields -/

theorem emitFields_map : ∀ (fs : List Field) (acc : Def), (fnames fs).Nodup →
    (∀ f ∈ fs, f.name ∉ keys acc) →
    emitFields fs acc = acc ++ fs.map (fun f => (f.name, JS.obj (fieldDef f)))
  | [], acc, _, _ => by simp [emitFields]
  | f :: fs, acc, nd, hd => by
    simp only [fnames, List.map_cons, List.nodup_cons] at nd
    simp only [emitFields]
    have hk : f.name ∉ Cog.OMap.Ref.keys acc := by
      have := hd f (by simp)
      simpa [keys, Cog.OMap.Ref.keys] using this
    rw [Cog.OMap.rset_notin_keys f.name _ acc hk]
    rw [emitFields_map fs _ (by simpa [fnames] using nd.2)]
    · simp [fieldDef]
    · intro f' hf'
      simp only [keys, List.map_append, List.map_cons, List.map_nil, List.mem_append, List.mem_singleton, not_or]
      refine ⟨?_, ?_⟩
      · have := hd f' (by simp [hf'])
        simpa [keys] using this
      · intro c
        apply nd.1
        rw [← c]
        exact List.mem_map.2 ⟨f', hf', rfl⟩

/-! ### the emitted document describes its own IR -/

/-- what the emitted definitions hold for the objects of the schema -/
def Own (S : Schemas) (s : Schema) (D : Def) : Prop :=
  ∀ p n, p = s.pkg → localHas s n = true →
    ∃ o, Schemas.locateObject S p n = some o ∧ okObjTy s o.ty = true ∧ rget n D = some (.obj (emitObj o))

theorem fields_describe {D : Def} {n : Nat} {S : Schemas} (s : Schema)
    (ih : ∀ t, okTy s t = true → describes D n S t (emitTy t) = true) :
    ∀ fs : List Field, okFields s fs = true →
      describesFieldsWith (describes D n S) fs (fs.map (fun f => (f.name, JS.obj (fieldDef f)))) = true
  | [], _ => rfl
  | f :: fs, h => by
    simp only [okFields, Bool.and_eq_true] at h
    simp only [List.map_cons, describesFieldsWith, beq_self_eq_true, Bool.true_and, Bool.and_eq_true]
    refine ⟨?_, fields_describe s ih fs h.2⟩
    rw [← describes_core, show core (fieldDef f) = core (emitTy f.ty) by
      simp only [fieldDef, core_withDefault, core_withDesc], describes_core]
    exact ih f.ty h.1

theorem emit_describes {D : Def} {S : Schemas} {s : Schema} (hown : Own S s D) :
    ∀ (n : Nat) (t : Ty), okTy s t = true → describes D n S t (emitTy t) = true := by
  intro n
  induction n with
  | zero => intro t _; simp only [describes]
  | succ n ih =>
    intro t ht
    cases t with
    | scalar kind v cs m =>
      simp only [describes, emitTy, core_emitScalar]
      exact jsBeqKvs_refl _
    | array e m =>
      simp only [okTy] at ht
      have : isArrayNode (core (emitTy (.array e m))) = some (emitTy e) := by
        simp [emitTy, core, isAnn, isArrayNode]
      simp only [describes, this]
      exact ih e ht
    | map idx v m =>
      simp only [okTy] at ht
      have : isMapNode (core (emitTy (.map idx v m))) = some (emitTy v) := by
        simp [emitTy, core, isAnn, isMapNode]
      simp only [describes, this]
      exact ih v ht
    | ref p name m =>
      simp only [okTy, Bool.and_eq_true, beq_iff_eq] at ht
      obtain ⟨o, hloc, hok, hD⟩ := hown p name ht.1 ht.2
      have hcoreref : core (emitTy (.ref p name m)) = [("$ref", JS.ref name)] := by
        simp [emitTy, core, isAnn]
      have hderef : deref D (core (emitTy (.ref p name m))) = some (core (emitTy o.ty)) := by
        rw [hcoreref]
        simp only [deref, rget, if_true, hD, emitObj, core_withDesc]
      simp only [describes, hloc, hderef]
      cases hty : o.ty with
      | struct fs g gi sm =>
        cases gi with
        | some _ => simp [hty, okObjTy, okTy] at hok
        | none =>
          simp only [hty, okObjTy, Bool.and_eq_true] at hok
          have hnd : (fnames fs).Nodup := (namesNodup_iff _).1 hok.1
          have hfields : emitFields fs [] = fs.map (fun f => (f.name, JS.obj (fieldDef f))) := by
            have := emitFields_map fs [] hnd (by simp [keys])
            simpa using this
          have hnode : isStructNode (core (emitTy (.struct fs g none sm))) =
              some ((requiredNames fs).map .str, emitFields fs []) := by
            simp only [emitTy]
            split
            · rename_i he
              have : requiredNames fs = [] := by simpa using he
              simp [core, isAnn, isStructNode, this]
            · simp [core, isAnn, isStructNode]
          simp only [hnode, jsBeqList_refl, hok.1, Bool.true_and, hfields]
          exact fields_describe s ih fs hok.2
      | enum vs em =>
        have : isEnumNode (core (emitTy (.enum vs em))) = some (enumValues vs) := by
          simp [emitTy, core, isAnn, isEnumNode]
        simp only [this]
        exact jsBeqList_refl _
      | scalar kind v cs om =>
        simp only [emitTy, core_emitScalar]
        exact jsBeqKvs_refl _
      | array ae am =>
        simp only [hty, okObjTy] at hok
        rw [describes_core]
        exact ih _ hok
      | map mi mv mm =>
        simp only [hty, okObjTy] at hok
        rw [describes_core]
        exact ih _ hok
      | ref rp rn rm =>
        simp only [hty, okObjTy] at hok
        rw [describes_core]
        exact ih _ hok
      | cref _ _ _ _ => simp [hty, okObjTy, okTy] at hok
      | disj _ _ _ => simp [hty, okObjTy, okTy] at hok
      | inter _ _ => simp [hty, okObjTy, okTy] at hok
      | slot _ _ => simp [hty, okObjTy, okTy] at hok
      | bad _ _ => simp [hty, okObjTy, okTy] at hok
    | cref _ _ _ _ => simp [okTy] at ht
    | struct _ _ _ _ => simp [okTy] at ht
    | enum _ _ => simp [okTy] at ht
    | disj _ _ _ => simp [okTy] at ht
    | inter _ _ => simp [okTy] at ht
    | slot _ _ => simp [okTy] at ht
    | bad _ _ => simp [okTy] at ht

theorem rget_obj_of_mem {k : String} {o : Obj} {l : List (String × Obj)} (nd : (l.map (·.1)).Nodup)
    (h : (k, o) ∈ l) : rget k l = some o := by
  induction l with
  | nil => simp at h
  | cons e t ih =>
    obtain ⟨a, b⟩ := e
    simp only [List.map_cons, List.nodup_cons] at nd
    rcases List.mem_cons.1 h with c | c
    · cases c; simp [rget]
    · have : ¬ a = k := by
        intro e; subst e
        exact nd.1 (List.mem_map.2 ⟨(a, o), c, rfl⟩)
      simp [rget, this, ih nd.2 c]

/-- on the fragment the emitted definitions hold every object of the schema under the name the
    loaded schemas locate it by -/
theorem own_of_emit {S : Schemas} {s : Schema} (hself : Schemas.locate S s.pkg = some s)
    (hf : jsFrag S s = true) {fuel : Nat} {D : Def} (he : emitDefs fuel S s = some D) : Own S s D := by
  simp only [jsFrag, Bool.and_eq_true, List.all_eq_true, beq_iff_eq] at hf
  obtain ⟨⟨hnc, hkeyed⟩, hok⟩ := hf
  have hown := emitDefs_own hnc he
  have hnd := (noClash_of hnc).1
  intro p n hp hl
  subst hp
  obtain ⟨o, ho, hn⟩ := List.mem_map.1 (localHas_iff.1 hl)
  obtain ⟨e, he', rfl⟩ := List.mem_map.1 ho
  have hk : e.2.name = e.1 := hkeyed e he'
  have hkeys : (s.objects.map (·.1)).Nodup := by
    have : s.objects.map (·.1) = onames (schemaObjs s) := by
      simp only [onames, schemaObjs, List.map_map]
      apply List.map_congr_left
      intro x hx
      exact (hkeyed x hx).symm
    rw [this]; exact hnd
  refine ⟨e.2, ?_, hok e.2 ho, ?_⟩
  · simp only [Schemas.locateObject, hself, Schema.locateObject]
    rw [← hn, hk]
    exact rget_obj_of_mem hkeys (by cases e; exact he')
  · rw [← hn]; exact hown e.2 ho

end Cog.Sem.JSOut
