/-
  Helper lemmas about the model of generated Python builders (`Cog.Sem.PB`).
-/
import Cog.Sem.PyBuilder
namespace Cog.Sem.PB
open Cog.IR Cog.Builder

theorem PRes.bind_eq_ok {α β} {x : PRes α} {f : α → PRes β} {b : β} :
    x.bind f = .ok b ↔ ∃ a, x = .ok a ∧ f a = .ok b := by
  cases x <;> simp [PRes.bind]

theorem PRes.map_eq_ok {α β} {x : PRes α} {f : α → β} {b : β} :
    x.map f = .ok b ↔ ∃ a, x = .ok a ∧ f a = b := by
  cases x <;> simp [PRes.map, PRes.bind]

/-- a constraint the template can print and evaluate on the bound argument -/
def Evaluable (env : Env) (k : AConstraint) : Prop :=
  ∃ v l r b, env.find k.argument.name = some v ∧ operand k.op v = some l ∧ valQuarters k.parameter = some r ∧
    cmpOp (goOperator k.op) l r = some b

/-- the bound argument violates the constraint -/
def Violated (env : Env) (k : AConstraint) : Prop :=
  ∃ v l r, env.find k.argument.name = some v ∧ operand k.op v = some l ∧ valQuarters k.parameter = some r ∧
    cmpOp (goOperator k.op) l r = some false

/-- evaluable constraints, one of them violated: the option raises `ValueError` -/
theorem checkConstraints_violated (env : Env) :
    ∀ (cs : List AConstraint), (∀ k ∈ cs, Evaluable env k) → (∃ k ∈ cs, Violated env k) →
      checkConstraints env cs = .raise "ValueError"
  | [], _, ⟨k, hk, _⟩ => by simp at hk
  | k :: rest, hev, hviol => by
    obtain ⟨v, l, r, b, hf, ho, hq, hc⟩ := hev k (by simp)
    unfold checkConstraints
    simp only [hf, ho, hq, hc]
    cases b with
    | false => rfl
    | true =>
      simp only
      apply checkConstraints_violated env rest (fun k' hk' => hev k' (by simp [hk']))
      obtain ⟨k', hk', hv'⟩ := hviol
      rcases List.mem_cons.mp hk' with rfl | hmem
      · obtain ⟨v', l', r', hf', ho', hq', hc'⟩ := hv'
        rw [hf] at hf'; cases hf'
        rw [ho] at ho'; cases ho'
        rw [hq] at hq'; cases hq'
        rw [hc] at hc'; cases hc'
      · exact ⟨k', hmem, hv'⟩

/-- evaluable constraints, all satisfied: nothing is raised -/
theorem checkConstraints_satisfied (env : Env) :
    ∀ (cs : List AConstraint), (∀ k ∈ cs, Evaluable env k ∧ ¬ Violated env k) → checkConstraints env cs = .ok ()
  | [], _ => rfl
  | k :: rest, h => by
    obtain ⟨⟨v, l, r, b, hf, ho, hq, hc⟩, hnv⟩ := h k (by simp)
    unfold checkConstraints
    simp only [hf, ho, hq, hc]
    cases b with
    | false => exact absurd ⟨v, l, r, hf, ho, hq, hc⟩ hnv
    | true => exact checkConstraints_satisfied env rest (fun k' hk' => h k' (by simp [hk']))

theorem getAttr_updAttr_same {m : String} {x : PyVal} : ∀ {fs fs' : Attrs},
    updAttr m (fun _ => .ok x) fs = .ok fs' → getAttr m fs' = some x ∧ ∀ n, n ≠ m → getAttr n fs' = getAttr n fs
  | [], fs', h => by simp [updAttr] at h
  | (k, rq, v) :: t, fs', h => by
    unfold updAttr at h
    by_cases hk : k = m
    · simp only [hk, if_true] at h
      obtain ⟨v', hv, rfl⟩ := PRes.map_eq_ok.mp h
      simp at hv; subst hv
      refine ⟨by simp [getAttr], fun n hn => ?_⟩
      have : ¬ m = n := fun e => hn e.symm
      simp [getAttr, this, hk]
    · simp only [hk, if_false] at h
      obtain ⟨t', ht, rfl⟩ := PRes.map_eq_ok.mp h
      obtain ⟨h1, h2⟩ := getAttr_updAttr_same ht
      refine ⟨by simp [getAttr, hk, h1], fun n hn => ?_⟩
      simp [getAttr, h2 n hn]

theorem updAttr_present {m : String} {x : PyVal} : ∀ {fs : Attrs} {old : PyVal}, getAttr m fs = some old →
    ∃ fs', updAttr m (fun _ => .ok x) fs = .ok fs'
  | [], _, h => by simp [getAttr] at h
  | (k, rq, v) :: t, old, h => by
    unfold updAttr
    by_cases hk : k = m
    · simp [hk, PRes.map, PRes.bind]
    · simp only [getAttr, hk, if_false] at h
      obtain ⟨t', ht⟩ := updAttr_present (x := x) h
      simp [hk, ht, PRes.map, PRes.bind]

end Cog.Sem.PB
