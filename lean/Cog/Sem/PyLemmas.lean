/-
  Helper lemmas for the C11 theorems: JSON containment is reflexive on duplicate-free documents and
  transitive; `json.dumps ∘ json.loads` is the identity; member lookup in the encodings of Python
  dicts and of instances of generated classes.
-/
import Cog.Sem.PyCodec
import Cog.Sem.CodecLemmas
namespace Cog.Sem
open Cog.IR

/-! ### `json.dumps (json.loads j) = j` -/

mutual
theorem pyToJson_ofJson : ∀ j : Json, pyToJson (PyVal.ofJson j) = j
  | .null | .bool _ | .num _ | .str _ => by simp [PyVal.ofJson, pyToJson]
  | .arr xs => by simp [PyVal.ofJson, pyToJson, pyEncList_ofJsonList xs]
  | .obj kvs => by simp [PyVal.ofJson, pyToJson, pyEncDict_ofJsonMembers kvs]
theorem pyEncList_ofJsonList : ∀ xs : List Json, pyEncList (PyVal.ofJsonList xs) = xs
  | [] => by simp [PyVal.ofJsonList, pyEncList]
  | x :: xs => by simp [PyVal.ofJsonList, pyEncList, pyToJson_ofJson x, pyEncList_ofJsonList xs]
theorem pyEncDict_ofJsonMembers : ∀ kvs : List (String × Json), pyEncDict (PyVal.ofJsonMembers kvs) = kvs
  | [] => by simp [PyVal.ofJsonMembers, pyEncDict]
  | (k, v) :: t => by simp [PyVal.ofJsonMembers, pyEncDict, pyToJson_ofJson v, pyEncDict_ofJsonMembers t]
end

theorem ofJson_isNone (j : Json) : (PyVal.ofJson j).isNone = j.isNull := by
  cases j <;> simp [PyVal.ofJson, PyVal.isNone, Json.isNull]

/-! ### containment: reflexive on duplicate-free documents, transitive -/

mutual
theorem sub_refl_wf : ∀ j : Json, wfJson j = true → Json.sub j j = true
  | .null, _ | .bool _, _ | .num _, _ | .str _, _ => by simp [Json.sub]
  | .arr xs, h => by
    simp only [wfJson] at h
    simp [Json.sub, subList_refl_wf xs h]
  | .obj ms, h => by
    simp only [wfJson, Bool.and_eq_true] at h
    simp only [Json.sub]
    rw [subMembers_iff]
    intro kv hkv
    right
    exact ⟨kv.2, lookup_of_mem_nodup h.1 hkv, members_refl_wf ms h.2 kv hkv⟩
theorem subList_refl_wf : ∀ xs : List Json, wfJsonList xs = true → Json.subList xs xs = true
  | [], _ => rfl
  | x :: xs, h => by
    simp only [wfJsonList, Bool.and_eq_true] at h
    simp [Json.subList, sub_refl_wf x h.1, subList_refl_wf xs h.2]
theorem members_refl_wf : ∀ ms : List (String × Json), wfJsonMembers ms = true →
    ∀ kv ∈ ms, Json.sub kv.2 kv.2 = true
  | [], _ => by simp
  | (k, v) :: t, h => by
    simp only [wfJsonMembers, Bool.and_eq_true] at h
    intro kv hkv
    cases List.mem_cons.1 hkv with
    | inl e => subst e; exact sub_refl_wf v h.1
    | inr e => exact members_refl_wf t h.2 kv e
end

mutual
theorem sub_trans : ∀ (a b c : Json), Json.sub a b = true → Json.sub b c = true → Json.sub a c = true
  | .null, b, c, h1, h2 => by cases b <;> cases c <;> simp_all [Json.sub]
  | .bool _, b, c, h1, h2 => by cases b <;> cases c <;> simp_all [Json.sub]
  | .num _, b, c, h1, h2 => by cases b <;> cases c <;> simp_all [Json.sub]
  | .str _, b, c, h1, h2 => by cases b <;> cases c <;> simp_all [Json.sub]
  | .arr xs, b, c, h1, h2 => by
    cases b with
    | arr ys =>
      cases c with
      | arr zs =>
        simp only [Json.sub] at h1 h2 ⊢
        exact subList_trans xs ys zs h1 h2
      | _ => simp [Json.sub] at h2
    | _ => simp [Json.sub] at h1
  | .obj ms, b, c, h1, h2 => by
    cases b with
    | obj ms' =>
      cases c with
      | obj ms'' =>
        simp only [Json.sub] at h1 h2 ⊢
        exact subMembers_trans ms ms' ms'' h1 h2
      | _ => simp [Json.sub] at h2
    | _ => simp [Json.sub] at h1
theorem subList_trans : ∀ (xs ys zs : List Json), Json.subList xs ys = true → Json.subList ys zs = true →
    Json.subList xs zs = true
  | [], ys, zs, h1, h2 => by cases ys <;> cases zs <;> simp_all [Json.subList]
  | x :: xs, ys, zs, h1, h2 => by
    cases ys with
    | nil => simp [Json.subList] at h1
    | cons y ys =>
      cases zs with
      | nil => simp [Json.subList] at h2
      | cons z zs =>
        simp only [Json.subList, Bool.and_eq_true] at h1 h2 ⊢
        exact ⟨sub_trans x y z h1.1 h2.1, subList_trans xs ys zs h1.2 h2.2⟩
theorem subMembers_trans : ∀ (ms ms' ms'' : List (String × Json)), Json.subMembers ms ms' = true →
    Json.subMembers ms' ms'' = true → Json.subMembers ms ms'' = true
  | [], _, _, _, _ => by simp [Json.subMembers]
  | (k, v) :: t, ms', ms'', h1, h2 => by
    simp only [Json.subMembers, Bool.and_eq_true, Bool.or_eq_true] at h1 ⊢
    refine ⟨?_, subMembers_trans t ms' ms'' h1.2 h2⟩
    rcases h1.1 with hn | hl
    · exact Or.inl hn
    · cases hlk : Json.lookup k ms' with
      | none => simp [hlk] at hl
      | some v' =>
        simp only [hlk] at hl
        cases hvn : v.isNull with
        | true => exact Or.inl rfl
        | false =>
          right
          have hv'n : v'.isNull = false := sub_nonnull hl hvn
          rcases (subMembers_iff ms' ms'').1 h2 (k, v') (mem_of_lookup hlk) with hh | ⟨v'', hl2, hs2⟩
          · simp [hv'n] at hh
          · simp only [hl2]
            exact sub_trans v v' v'' hl hs2
end

theorem eqv_trans_mid {a j b : Json} (h1 : Json.eqv a j = true) (h2 : Json.eqv b j = true) :
    Json.eqv a b = true := by
  simp only [Json.eqv, Bool.and_eq_true] at h1 h2 ⊢
  exact ⟨sub_trans a j b h1.1 h2.2, sub_trans b j a h2.1 h1.2⟩

/-! ### lookup in encoded dicts -/

theorem lookup_append (k : String) (a b : List (String × Json)) :
    Json.lookup k (a ++ b) = match Json.lookup k a with | some v => some v | none => Json.lookup k b := by
  induction a with
  | nil => simp [Json.lookup]
  | cons e t ih =>
    obtain ⟨k', v'⟩ := e
    by_cases c : k' = k <;> simp [Json.lookup, c, ih]

theorem pyEncList_eq (vs : List PyVal) : pyEncList vs = vs.map pyToJson := by
  induction vs with
  | nil => rfl
  | cons v vs ih => simp [pyEncList, ih]

theorem mem_pyEncDict {k : String} {x : Json} {l : List (String × PyVal)} (h : (k, x) ∈ pyEncDict l) :
    ∃ pv, (k, pv) ∈ l ∧ x = pyToJson pv := by
  induction l with
  | nil => simp [pyEncDict] at h
  | cons e t ih =>
    obtain ⟨a, b⟩ := e
    simp only [pyEncDict] at h
    cases List.mem_cons.1 h with
    | inl c => cases c; exact ⟨b, by simp, rfl⟩
    | inr c => obtain ⟨pv, h1, h2⟩ := ih c; exact ⟨pv, by simp [h1], h2⟩

theorem lookup_pyEncDict {k : String} {pv : PyVal} {l : List (String × PyVal)}
    (nd : (l.map (·.1)).Nodup) (h : (k, pv) ∈ l) : Json.lookup k (pyEncDict l) = some (pyToJson pv) := by
  induction l with
  | nil => simp at h
  | cons e t ih =>
    obtain ⟨a, b⟩ := e
    simp only [List.map_cons, List.nodup_cons] at nd
    cases List.mem_cons.1 h with
    | inl c => cases c; simp [pyEncDict, Json.lookup]
    | inr c =>
      have : ¬ a = k := by
        intro e; subst e
        exact nd.1 (List.mem_map.2 ⟨(a, pv), c, rfl⟩)
      simp [pyEncDict, Json.lookup, this, ih nd.2 c]

/-! ### members of an encoded class instance -/

theorem mem_pyEncReq {k : String} {x : Json} {fl : List (String × Bool × PyVal)} (h : (k, x) ∈ pyEncReq fl) :
    ∃ pv, (k, true, pv) ∈ fl ∧ x = pyToJson pv := by
  induction fl with
  | nil => simp [pyEncReq] at h
  | cons e t ih =>
    obtain ⟨a, req, v⟩ := e
    simp only [pyEncReq] at h
    split at h
    · rename_i hr
      cases List.mem_cons.1 h with
      | inl c => cases c; exact ⟨v, by simp [hr], rfl⟩
      | inr c => obtain ⟨pv, h1, h2⟩ := ih c; exact ⟨pv, by simp [h1], h2⟩
    · obtain ⟨pv, h1, h2⟩ := ih h; exact ⟨pv, by simp [h1], h2⟩

theorem mem_pyEncOpt {k : String} {x : Json} {fl : List (String × Bool × PyVal)} (h : (k, x) ∈ pyEncOpt fl) :
    ∃ pv, (k, false, pv) ∈ fl ∧ x = pyToJson pv := by
  induction fl with
  | nil => simp [pyEncOpt] at h
  | cons e t ih =>
    obtain ⟨a, req, v⟩ := e
    simp only [pyEncOpt] at h
    split at h
    · rename_i hr
      simp only [Bool.and_eq_true, Bool.not_eq_true'] at hr
      cases List.mem_cons.1 h with
      | inl c => cases c; exact ⟨v, by simp [hr.1], rfl⟩
      | inr c => obtain ⟨pv, h1, h2⟩ := ih c; exact ⟨pv, by simp [h1], h2⟩
    · obtain ⟨pv, h1, h2⟩ := ih h; exact ⟨pv, by simp [h1], h2⟩

/-- every emitted member comes from a field -/
theorem mem_pyEncObj {k : String} {x : Json} {fl : List (String × Bool × PyVal)}
    (h : (k, x) ∈ pyEncReq fl ++ pyEncOpt fl) : ∃ req pv, (k, req, pv) ∈ fl ∧ x = pyToJson pv := by
  cases List.mem_append.1 h with
  | inl c => obtain ⟨pv, h1, h2⟩ := mem_pyEncReq c; exact ⟨true, pv, h1, h2⟩
  | inr c => obtain ⟨pv, h1, h2⟩ := mem_pyEncOpt c; exact ⟨false, pv, h1, h2⟩

theorem lookup_pyEncReq_none {k : String} {fl : List (String × Bool × PyVal)}
    (h : ∀ pv, (k, true, pv) ∉ fl) : Json.lookup k (pyEncReq fl) = none := by
  induction fl with
  | nil => simp [pyEncReq, Json.lookup]
  | cons e t ih =>
    obtain ⟨a, req, v⟩ := e
    have iht := ih (fun pv c => h pv (List.mem_cons_of_mem _ c))
    simp only [pyEncReq]
    split
    · rename_i hr
      have : ¬ a = k := by
        intro e; subst e
        exact h v (by simp [hr])
      simp [Json.lookup, this, iht]
    · exact iht

theorem lookup_pyEncReq {k : String} {pv : PyVal} {fl : List (String × Bool × PyVal)}
    (nd : (fl.map (·.1)).Nodup) (h : (k, true, pv) ∈ fl) :
    Json.lookup k (pyEncReq fl) = some (pyToJson pv) := by
  induction fl with
  | nil => simp at h
  | cons e t ih =>
    obtain ⟨a, req, v⟩ := e
    simp only [List.map_cons, List.nodup_cons] at nd
    cases List.mem_cons.1 h with
    | inl c => cases c; simp [pyEncReq, Json.lookup]
    | inr c =>
      have hne : ¬ a = k := by
        intro e; subst e
        exact nd.1 (List.mem_map.2 ⟨(a, true, pv), c, rfl⟩)
      simp only [pyEncReq]
      split
      · simp [Json.lookup, hne, ih nd.2 c]
      · exact ih nd.2 c

theorem lookup_pyEncOpt {k : String} {pv : PyVal} {fl : List (String × Bool × PyVal)}
    (nd : (fl.map (·.1)).Nodup) (h : (k, false, pv) ∈ fl) (hn : pv.isNone = false) :
    Json.lookup k (pyEncOpt fl) = some (pyToJson pv) := by
  induction fl with
  | nil => simp at h
  | cons e t ih =>
    obtain ⟨a, req, v⟩ := e
    simp only [List.map_cons, List.nodup_cons] at nd
    cases List.mem_cons.1 h with
    | inl c => cases c; simp [pyEncOpt, hn, Json.lookup]
    | inr c =>
      have hne : ¬ a = k := by
        intro e; subst e
        exact nd.1 (List.mem_map.2 ⟨(a, false, pv), c, rfl⟩)
      simp only [pyEncOpt]
      split
      · simp [Json.lookup, hne, ih nd.2 c]
      · exact ih nd.2 c

/-- a field that is required, or whose attribute is not `None`, is emitted under its key -/
theorem lookup_pyEncObj {k : String} {req : Bool} {pv : PyVal} {fl : List (String × Bool × PyVal)}
    (nd : (fl.map (·.1)).Nodup) (h : (k, req, pv) ∈ fl) (hne : req = true ∨ pv.isNone = false) :
    Json.lookup k (pyEncReq fl ++ pyEncOpt fl) = some (pyToJson pv) := by
  rw [lookup_append]
  cases req with
  | true => rw [lookup_pyEncReq nd h]
  | false =>
    have hn : pv.isNone = false := by
      cases hne with
      | inl c => cases c
      | inr c => exact c
    have hnone : Json.lookup k (pyEncReq fl) = none := by
      apply lookup_pyEncReq_none
      intro pv' c
      -- two entries with the same key in a duplicate-free list
      have h1 := nodup_unique nd h c
      simp at h1
    rw [hnone]
    exact lookup_pyEncOpt nd h hn
where
  nodup_unique {fl : List (String × Bool × PyVal)} {k : String} {a b : Bool × PyVal}
      (nd : (fl.map (·.1)).Nodup) (h1 : (k, a) ∈ fl) (h2 : (k, b) ∈ fl) : a = b := by
    induction fl with
    | nil => simp at h1
    | cons e t ih =>
      simp only [List.map_cons, List.nodup_cons] at nd
      cases List.mem_cons.1 h1 with
      | inl c1 =>
        cases List.mem_cons.1 h2 with
        | inl c2 => rw [← c1] at c2; injection c2 with _ c3; exact c3.symm
        | inr c2 =>
          exfalso; apply nd.1; rw [← c1]
          exact List.mem_map.2 ⟨(k, b), c2, rfl⟩
      | inr c1 =>
        cases List.mem_cons.1 h2 with
        | inl c2 =>
          exfalso; apply nd.1; rw [← c2]
          exact List.mem_map.2 ⟨(k, a), c1, rfl⟩
        | inr c2 => exact ih nd.2 c1 c2

end Cog.Sem
