/-
  C12 — the JSON Schema / OpenAPI documents cog emits.

  * `JS`      the JSON-Schema subset the emitter produces, as data.  A `Definition` of the Go code
              (`*orderedmap.Map[string, any]`) is an association list in first-insertion order
              (`Def`), `Set` is `rset` (justified by the C19 refinement theorem).  `JS.raw v` is a Go
              `any` taken from the IR and written as is (`default`, `const`, enum values, constraint
              arguments).  `JS.ref n` is the string `ReferenceFormatter(ref)` = `<prefix><n>`
              (`#/definitions/` for JSON Schema, `#/components/schemas/` for OpenAPI); the driver
              prints the prefix.
  * `emitTy`  LITERAL transcription of internal/jennies/jsonschema/schema.go `formatType` and the
              functions it calls, including what it does for `any` (`{type: object,
              additionalProperties: {}}`), constant references and intersections (`{}`), nullability
              (not represented), `bytes` (`string`), defaults (written raw, after the description).
  * `emitDefs` `GenerateSchema`: one definition per object of the schema under `object.Name`, then
              the foreign-object closure loop (each queue key is written once since fix 56f489a; the
              fuel of the model is provably sufficient, see `C12_emission_terminates`).
  * `emitJS` / `emitOA`  the two documents (internal/jennies/openapi wraps the same definitions).
  * `jsValid` validation semantics (draft-07) for that subset; `$ref` consumes fuel, everything else
              is structural recursion on the schema node.

  Config.Debug is false (no pass-trail comments).  Core Lean only.
-/
import Cog.IR.Basic
import Cog.Sem.GoCodec
namespace Cog.Sem.JSOut
open Cog.IR Cog.Sem
open Cog.OMap (rget rset)

inductive JS where
  | obj (kvs : List (String × JS))
  | arr (xs : List JS)
  | str (s : String)
  | bool (b : Bool)
  | ref (name : String)
  | raw (v : Val)
  deriving Inhabited

abbrev Def := List (String × JS)

/-! ### emission -/

def stringOps : List (String × String) := [("minLength", "minLength"), ("maxLength", "maxLength")]

def numberOps : List (String × String) :=
  [("<", "exclusiveMaximum"), ("<=", "maximum"), (">", "exclusiveMinimum"), (">=", "minimum"),
   ("multipleOf", "multipleOf")]

/-- `addStringConstraints` / `addNumberConstraints`: `definition.Set(keyword, constraint.Args[0])` -/
def addConstraints (table : List (String × String)) : List Constraint → Def → Def
  | [], d => d
  | c :: cs, d =>
    match rget c.op table with
    | some kw => addConstraints table cs (rset kw (.raw (c.args.headD .nil)) d)
    | none => addConstraints table cs d

def isIntKind (k : String) : Bool :=
  k == "uint8" || k == "uint16" || k == "uint32" || k == "uint64" ||
  k == "int8" || k == "int16" || k == "int32" || k == "int64"

def dtHint : String := "string_format_datetime"

/-- `formatScalar` before the constant test -/
def scalarBase (kind : String) (cs : List Constraint) (dt : Bool) : Def :=
  if kind = "null" then [("type", .str "null")]
  else if kind = "any" then [("type", .str "object"), ("additionalProperties", .obj [])]
  else if kind = "bytes" then addConstraints stringOps cs [("type", .str "string")]
  else if kind = "string" then
    (if dt then rset "format" (.str "date-time") (addConstraints stringOps cs [("type", .str "string")])
     else addConstraints stringOps cs [("type", .str "string")])
  else if kind = "bool" then [("type", .str "boolean")]
  else if kind = "float32" ∨ kind = "float64" then addConstraints numberOps cs [("type", .str "number")]
  else if isIntKind kind then addConstraints numberOps cs [("type", .str "integer")]
  else []

def isNilVal : Val → Bool | .nil => true | _ => false

/-- `formatScalar` -/
def emitScalar (kind : String) (value : Val) (cs : List Constraint) (dt : Bool) : Def :=
  if isNilVal value then scalarBase kind cs dt else rset "const" (.raw value) (scalarBase kind cs dt)

/-- `strings.Join(comments, "\n")`, set when non-empty -/
def withDesc (comments : List String) (d : Def) : Def :=
  if "\n".intercalate comments = "" then d else rset "description" (.str ("\n".intercalate comments)) d

def withDefault (dflt : Val) (d : Def) : Def :=
  if isNilVal dflt then d else rset "default" (.raw dflt) d

def requiredNames : List Field → List String
  | [] => []
  | f :: fs => if f.required then f.name :: requiredNames fs else requiredNames fs

def enumValues : List EnumVal → List JS
  | [] => []
  | v :: vs => .raw v.value :: enumValues vs

def anyDef : Def := [("type", .str "object"), ("additionalProperties", .obj [])]

mutual
/-- `formatType` -/
def emitTy : Ty → Def
  | .struct fs _ _ _ =>
    if (requiredNames fs).isEmpty then
      [("type", .str "object"), ("additionalProperties", .bool false),
       ("properties", .obj (emitFields fs []))]
    else
      [("type", .str "object"), ("additionalProperties", .bool false),
       ("required", .arr ((requiredNames fs).map .str)),
       ("properties", .obj (emitFields fs []))]
  | .scalar k v cs m => emitScalar k v cs (hasHint m dtHint)
  | .ref _ n _ => [("$ref", .ref n)]
  | .enum vs _ => [("enum", .arr (enumValues vs))]
  | .array e _ => [("type", .str "array"), ("items", .obj (emitTy e))]
  | .map _ v _ => [("type", .str "object"), ("additionalProperties", .obj (emitTy v))]
  | .disj bs _ _ => [("anyOf", .arr (emitList bs))]
  | .slot _ _ => anyDef
  | .cref .. => []
  | .inter .. => []
  | .bad .. => []
def emitList : List Ty → List JS
  | [] => []
  | t :: ts => .obj (emitTy t) :: emitList ts
/-- the loop of `formatStruct`: `properties.Set(field.Name, fieldDef)`; the field definition
    receives its description before and its default after being stored (it is a pointer) -/
def emitFields : List Field → Def → Def
  | [], acc => acc
  | f :: fs, acc =>
    emitFields fs (rset f.name (.obj (withDefault f.ty.getMeta.dflt (withDesc f.comments (emitTy f.ty)))) acc)
end

def fieldDef (f : Field) : Def := withDefault f.ty.getMeta.dflt (withDesc f.comments (emitTy f.ty))

/-- `objectToDefinition` -/
def emitObj (o : Obj) : Def := withDesc o.comments (emitTy o.ty)

/-- Go panics of `formatType`: a `Type` whose Kind names a payload that is nil (`As*()` dereferences
    it), and `constraint.Args[0]` on an empty argument list of a recognised constraint -/
def badKindPanics (k : String) : Bool :=
  k == "struct" || k == "scalar" || k == "ref" || k == "enum" || k == "array" || k == "map" || k == "disjunction"

def csPanic (table : List (String × String)) (cs : List Constraint) : Bool :=
  cs.any fun c => (rget c.op table).isSome && c.args.isEmpty

mutual
def emitPanics : Ty → Bool
  | .struct fs _ _ _ => emitPanicsFields fs
  | .scalar k _ cs _ =>
    if k = "bytes" ∨ k = "string" then csPanic stringOps cs
    else if k = "float32" ∨ k = "float64" ∨ isIntKind k = true then csPanic numberOps cs
    else false
  | .array e _ => emitPanics e
  | .map _ v _ => emitPanics v
  | .disj bs _ _ => emitPanicsList bs
  | .bad k _ => badKindPanics k
  | _ => false
def emitPanicsList : List Ty → Bool
  | [] => false
  | t :: ts => emitPanics t || emitPanicsList ts
def emitPanicsFields : List Field → Bool
  | [] => false
  | f :: fs => emitPanics f.ty || emitPanicsFields fs
end

/- the references `formatType` meets (those it writes a `$ref` for), in visiting order:
   struct fields, array element, map VALUE, union branches; not intersections, not constant
   references, not the payload of a generated struct -/
mutual
def emittedRefs : Ty → List (String × String)
  | .struct fs _ _ _ => emittedRefsFields fs
  | .ref p n _ => [(p, n)]
  | .array e _ => emittedRefs e
  | .map _ v _ => emittedRefs v
  | .disj bs _ _ => emittedRefsList bs
  | _ => []
def emittedRefsList : List Ty → List (String × String)
  | [] => []
  | t :: ts => emittedRefs t ++ emittedRefsList ts
def emittedRefsFields : List Field → List (String × String)
  | [] => []
  | f :: fs => emittedRefs f.ty ++ emittedRefsFields fs
end

abbrev Pending := List (String × Obj)

def selfKey (o : Obj) : String := o.selfPkg ++ "." ++ o.selfName

/-- `formatRef`'s side effect: a resolvable reference into another package queues the object
    under `SelfRef.String()` -/
def pushForeign (S : Schemas) (pkg : String) (pend : Pending) (r : String × String) : Pending :=
  if r.1 = pkg then pend
  else match Schemas.locateObject S r.1 r.2 with
    | some o => rset (selfKey o) o pend
    | none => pend

/-- one `definitions.Set(object.Name, jenny.objectToDefinition(object))` -/
def stepObj (S : Schemas) (pkg : String) (st : Def × Pending) (o : Obj) : Def × Pending :=
  (rset o.name (.obj (emitObj o)) st.1, (emittedRefs o.ty).foldl (pushForeign S pkg) st.2)

def runObjs (S : Schemas) (pkg : String) (objs : List Obj) (st : Def × Pending) : Def × Pending :=
  objs.foldl (stepObj S pkg) st

/-- one step of `foreignObjects.Iterate` inside the loop (after fix 56f489a): a foreign object whose
    queue key was already emitted is skipped, otherwise it is recorded and written.  The state is
    (definitions, objects queued for the next round, keys emitted so far). -/
def stepForeign (S : Schemas) (pkg : String) (st : Def × Pending × List String) (e : String × Obj) :
    Def × Pending × List String :=
  if st.2.2.contains e.1 then st
  else ((stepObj S pkg (st.1, st.2.1) e.2).1, (stepObj S pkg (st.1, st.2.1) e.2).2, e.1 :: st.2.2)

def runForeign (S : Schemas) (pkg : String) (pend : Pending) (st : Def × Pending × List String) :
    Def × Pending × List String :=
  pend.foldl (stepForeign S pkg) st

/-- the `for { … }` loop of `GenerateSchema`.  The fuel is provably sufficient
    (`closure_terminates`: `emitFuel S` rounds are enough for every schema set). -/
def closure (S : Schemas) (pkg : String) : Nat → Def → Pending → List String → Option Def
  | 0, _, _, _ => none
  | fuel + 1, defs, pend, em =>
    if pend.isEmpty then some defs
    else closure S pkg fuel (runForeign S pkg pend (defs, [], em)).1
                              (runForeign S pkg pend (defs, [], em)).2.1
                              (runForeign S pkg pend (defs, [], em)).2.2

def firstRound (S : Schemas) (s : Schema) : Def × Pending :=
  runObjs S s.pkg (s.objects.map (·.2)) ([], [])

/-- rounds that always suffice: one per object of the loaded schemas, plus two -/
def emitFuel (S : Schemas) : Nat := Schemas.objectCount S + 2

/-- the `definitions` of `GenerateSchema(context, schema)` (`none` only when `fuel < emitFuel S`) -/
def emitDefs (fuel : Nat) (S : Schemas) (s : Schema) : Option Def :=
  closure S s.pkg fuel (firstRound S s).1 (firstRound S s).2 []

/-- the loop as it was BEFORE fix 56f489a (every queued object is written again each time it is
    met): kept so that the witness of the former defect stays a checked statement -/
def closurePreFix (S : Schemas) (pkg : String) : Nat → Def → Pending → Option Def
  | 0, _, _ => none
  | fuel + 1, defs, pend =>
    if pend.isEmpty then some defs
    else closurePreFix S pkg fuel (runObjs S pkg (pend.map (·.2)) (defs, [])).1
                                    (runObjs S pkg (pend.map (·.2)) (defs, [])).2

def emitDefsPreFix (fuel : Nat) (S : Schemas) (s : Schema) : Option Def :=
  closurePreFix S s.pkg fuel (firstRound S s).1 (firstRound S s).2

def schemaURI : String := "http://json-schema.org/draft-07/schema#"

def jsDoc (s : Schema) (defs : Def) : JS :=
  if s.entryPoint = "" then .obj [("$schema", .str schemaURI), ("definitions", .obj defs)]
  else .obj [("$schema", .str schemaURI), ("$ref", .ref s.entryPoint), ("definitions", .obj defs)]

def emitJS (fuel : Nat) (S : Schemas) (s : Schema) : Option JS := (emitDefs fuel S s).map (jsDoc s)

def oaInfo (s : Schema) : Def :=
  if s.smeta.variant = "" then
    [("title", .str s.pkg), ("version", .str "0.0.0"), ("x-schema-identifier", .str s.smeta.identifier),
     ("x-schema-kind", .str s.smeta.kind)]
  else
    [("title", .str s.pkg), ("version", .str "0.0.0"), ("x-schema-identifier", .str s.smeta.identifier),
     ("x-schema-kind", .str s.smeta.kind), ("x-schema-variant", .str s.smeta.variant)]

def oaDoc (s : Schema) (defs : Def) : JS :=
  .obj [("openapi", .str "3.0.0"), ("info", .obj (oaInfo s)), ("paths", .obj []),
        ("components", .obj [("schemas", .obj defs)])]

def emitOA (fuel : Nat) (S : Schemas) (s : Schema) : Option JS := (emitDefs fuel S s).map (oaDoc s)

/-! ### the references of a document -/

mutual
def JS.refs : JS → List String
  | .obj kvs => JS.refsKvs kvs
  | .arr xs => JS.refsList xs
  | .ref n => [n]
  | _ => []
def JS.refsList : List JS → List String
  | [] => []
  | x :: xs => JS.refs x ++ JS.refsList xs
def JS.refsKvs : List (String × JS) → List String
  | [] => []
  | (_, v) :: t => JS.refs v ++ JS.refsKvs t
end

def keys (d : Def) : List String := d.map (·.1)

/-! ### numbers: exact comparison of a document number (quarters) with a Go value -/

def pow10 (n : Nat) : Nat := 10 ^ n

/-- decimal text (`-12.5`, `1e+21`, `2.5E-3`) as numerator / denominator -/
def parseDec (s : String) : Option (Int × Nat) :=
  let s := s.map fun c => if c = 'E' then 'e' else c
  let (mant, ex) : String × Option Int :=
    match s.splitOn "e" with
    | [m] => (m, some 0)
    | [m, e] => (m, (if e.startsWith "+" then (e.drop 1).toString else e).toInt?)
    | _ => ("", none)
  let (neg, body) := if mant.startsWith "-" then (true, (mant.drop 1).toString) else (false, mant)
  let parts : Option (String × String) :=
    match body.splitOn "." with
    | [w] => some (w, "")
    | [w, f] => some (w, f)
    | _ => none
  match parts, ex with
  | some (w, f), some e =>
    match (w ++ f).toNat? with
    | some digits =>
      let num : Int := if neg then -(Int.ofNat digits) else Int.ofNat digits
      let scale : Int := e - Int.ofNat f.length
      if scale ≥ 0 then some (num * Int.ofNat (pow10 scale.toNat), 1)
      else some (num, pow10 (-scale).toNat)
    | none => none
  | _, _ => none

/-- a Go numeric value as an exact rational -/
def valRat : Val → Option (Int × Nat)
  | .int _ n => some (n, 1)
  | .float _ r => parseDec r
  | .jnum s => parseDec s
  | _ => none

/-- document number `q/4` compared with `a/b` -/
def ratLe (q : Int) (r : Int × Nat) : Bool := decide (q * Int.ofNat r.2 ≤ 4 * r.1)
def ratLt (q : Int) (r : Int × Nat) : Bool := decide (q * Int.ofNat r.2 < 4 * r.1)
def ratGe (q : Int) (r : Int × Nat) : Bool := decide (4 * r.1 ≤ q * Int.ofNat r.2)
def ratGt (q : Int) (r : Int × Nat) : Bool := decide (4 * r.1 < q * Int.ofNat r.2)
def ratEq (q : Int) (r : Int × Nat) : Bool := decide (q * Int.ofNat r.2 = 4 * r.1)
def ratMul (q : Int) (r : Int × Nat) : Bool :=
  if r.1 = 0 then false else decide ((q * Int.ofNat r.2) % (4 * r.1) = 0)

/-- the comparison a numeric keyword makes; `none`: not a numeric keyword -/
def numKw (kw : String) : Option (Int → Int × Nat → Bool) :=
  if kw = "minimum" then some ratGe
  else if kw = "maximum" then some ratLe
  else if kw = "exclusiveMinimum" then some ratGt
  else if kw = "exclusiveMaximum" then some ratLt
  else if kw = "multipleOf" then some ratMul
  else none

/-- JSON equality of a Go value written by `encoding/json` with a document (scalars and lists;
    a map never matches: the emitter writes maps only inside defaults, which are annotations) -/
def valMatches : Val → Json → Bool
  | .nil, .null => true
  | .bool a, .bool b => a == b
  | .str a, .str b => a == b
  | .int _ n, .num q => q == 4 * n
  | .float _ r, .num q => (match parseDec r with | some x => ratEq q x | none => false)
  | .jnum s, .num q => (match parseDec s with | some x => ratEq q x | none => false)
  | _, _ => false

/-! ### validation -/

def typeOK (t : String) (j : Json) : Bool :=
  if t = "null" then (match j with | .null => true | _ => false)
  else if t = "boolean" then (match j with | .bool _ => true | _ => false)
  else if t = "string" then (match j with | .str _ => true | _ => false)
  else if t = "number" then (match j with | .num _ => true | _ => false)
  else if t = "integer" then (match j with | .num q => decide (q % 4 = 0) | _ => false)
  else if t = "array" then (match j with | .arr _ => true | _ => false)
  else if t = "object" then (match j with | .obj _ => true | _ => false)
  else false

def strsOf : List JS → List String
  | [] => []
  | .str s :: t => s :: strsOf t
  | _ :: t => strsOf t

def enumOK : List JS → Json → Bool
  | [], _ => false
  | .raw v :: t, j => valMatches v j || enumOK t j
  | _ :: t, j => enumOK t j

/-- keywords whose value is not a schema -/
def kwLeaf (k : String) (s : JS) (j : Json) : Bool :=
  match s with
  | .str t => if k = "type" then typeOK t j else true
  | .arr xs =>
    if k = "required" then
      (match j with | .obj ms => (strsOf xs).all (fun n => (Json.lookup n ms).isSome) | _ => true)
    else if k = "enum" then enumOK xs j
    else true
  | .raw v =>
    if k = "const" then valMatches v j
    else if k = "minLength" then
      (match j, valRat v with | .str x, some r => ratGe (4 * Int.ofNat x.length) r | _, _ => true)
    else if k = "maxLength" then
      (match j, valRat v with | .str x, some r => ratLe (4 * Int.ofNat x.length) r | _, _ => true)
    else match numKw k with
      | some cmp => (match j, valRat v with | .num q, some r => cmp q r | _, _ => true)
      | none => true
  | _ => true

def propNames (kvs : Def) : List String :=
  match rget "properties" kvs with
  | some (.obj ps) => ps.map (·.1)
  | _ => []

mutual
/-- validation of `j` against a schema node; `rec n` validates against definition `n` -/
def vNode (rec : String → Json → Bool) : JS → Json → Bool
  | .obj kvs, j =>
    match rget "$ref" kvs with
    | some (.ref n) => rec n j          -- draft-07: siblings of `$ref` are ignored
    | some _ => false
    | none => vKws rec (propNames kvs) kvs j
  | _, _ => false
def vKws (rec : String → Json → Bool) (props : List String) : List (String × JS) → Json → Bool
  | [], _ => true
  | (k, s) :: rest, j =>
    (if k = "properties" then
       (match s, j with
        | .obj ps, .obj ms => vProps rec ps ms
        | _, _ => true)
     else if k = "items" then
       (match j with
        | .arr xs => xs.all (fun x => vNode rec s x)
        | _ => true)
     else if k = "additionalProperties" then
       (match s, j with
        | .bool b, .obj ms => b || ms.all (fun kv => props.contains kv.1)
        | .obj _, .obj ms => ms.all (fun kv => props.contains kv.1 || vNode rec s kv.2)
        | _, _ => true)
     else if k = "anyOf" then
       (match s with
        | .arr ns => vAny rec ns j
        | _ => true)
     else kwLeaf k s j) && vKws rec props rest j
def vProps (rec : String → Json → Bool) : List (String × JS) → List (String × Json) → Bool
  | [], _ => true
  | (name, s) :: rest, ms =>
    (match Json.lookup name ms with
     | some x => vNode rec s x
     | none => true) && vProps rec rest ms
def vAny (rec : String → Json → Bool) : List JS → Json → Bool
  | [], _ => false
  | n :: ns, j => vNode rec n j || vAny rec ns j
end

/-- validation against node `n` in the context of the definitions `D` -/
def jsValid (D : Def) : Nat → JS → Json → Bool
  | 0, _, _ => false
  | fuel + 1, n, j =>
    vNode (fun name x => match rget name D with
                         | some nd => jsValid D fuel nd x
                         | none => false) n j

/-- `j` validates against `#/definitions/<name>` -/
def jsValidObj (D : Def) (fuel : Nat) (name : String) (j : Json) : Bool :=
  jsValid D fuel (.obj [("$ref", .ref name)]) j

end Cog.Sem.JSOut
