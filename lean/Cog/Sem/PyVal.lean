/-
  Values of the Python types cog generates and what `json.dumps(v, cls=JSONEncoder)` prints for
  them (internal/jennies/python/templates/runtime/encoder.tmpl: an object that has a `to_json`
  method is replaced by the dict that method returns, then encoded recursively; everything else is
  the standard encoder).  `to_json` is the method emitted by rawtypes.go `generateToJSONMethod`:
  a dict holding first every *required* field in declaration order, then every non-required field
  whose attribute `is not None`, in declaration order.

  A value of a generated class carries, per field, the JSON key, the `Required` flag and the
  attribute value, so `pyToJson` is structural.  `json.loads` output is `ofJson` (ints and floats
  are one constructor: the documents only hold integers and multiples of 0.25, which Python's
  int/float read and print exactly; key order of dicts is insertion order).
-/
import Cog.Sem.Json
namespace Cog.Sem

inductive PyVal where
  | none
  | bool (b : Bool)
  | num (q : Int)                                   -- int or float, value q/4
  | str (s : String)                                -- str (also what a StrEnum member prints as)
  | list (vs : List PyVal)
  | dict (kvs : List (String × PyVal))              -- insertion order
  | obj (fields : List (String × Bool × PyVal))     -- instance of a generated class: (json key, required, attribute)
  deriving Inhabited

namespace PyVal

def isNone : PyVal → Bool | none => true | _ => false

/- `json.loads` (documents without duplicate keys) -/
mutual
def ofJson : Json → PyVal
  | .null => .none
  | .bool b => .bool b
  | .num q => .num q
  | .str s => .str s
  | .arr xs => .list (ofJsonList xs)
  | .obj kvs => .dict (ofJsonMembers kvs)
def ofJsonList : List Json → List PyVal
  | [] => []
  | x :: xs => ofJson x :: ofJsonList xs
def ofJsonMembers : List (String × Json) → List (String × PyVal)
  | [] => []
  | (k, v) :: t => (k, ofJson v) :: ofJsonMembers t
end

end PyVal

open PyVal in
/- `json.dumps(v, cls=JSONEncoder)` -/
mutual
def pyToJson : PyVal → Json
  | .none => .null
  | .bool b => .bool b
  | .num q => .num q
  | .str s => .str s
  | .list vs => .arr (pyEncList vs)
  | .dict kvs => .obj (pyEncDict kvs)
  | .obj fs => .obj (pyEncReq fs ++ pyEncOpt fs)
def pyEncList : List PyVal → List Json
  | [] => []
  | v :: vs => pyToJson v :: pyEncList vs
def pyEncDict : List (String × PyVal) → List (String × Json)
  | [] => []
  | (k, v) :: t => (k, pyToJson v) :: pyEncDict t
/-- `payload = { "k": self.k, … }` for the required fields -/
def pyEncReq : List (String × Bool × PyVal) → List (String × Json)
  | [] => []
  | (k, req, v) :: t => if req then (k, pyToJson v) :: pyEncReq t else pyEncReq t
/-- `if self.k is not None: payload["k"] = self.k` for the others -/
def pyEncOpt : List (String × Bool × PyVal) → List (String × Json)
  | [] => []
  | (k, req, v) :: t => if !req && !v.isNone then (k, pyToJson v) :: pyEncOpt t else pyEncOpt t
end

end Cog.Sem
