/-
  Semantics of the generated Go `Validate()` methods (C08).

  Literal transcription of
    internal/jennies/golang/validation.go                       (`resolvesToConstraints`)
    internal/jennies/golang/templates/types/struct_validation_method.tmpl
        (`type_validate_check`, `type_constraints`)
    internal/jennies/golang/templates/runtime/tools.tmpl        (`MakeBuildErrors`: path prefixing)
  as an interpreter over the post-chain IR and the values of the generated Go types
  (`GoVal`, see Cog/Sem/GoVal.lean).  The template is a printer of Go statements; the
  interpreter executes the statements it prints.  What is syntax only in the template
  (`SelfName`, `Dereference`, `Depth`, the loop variable names) has no counterpart here;
  `ConstraintPath` is returned instead of being threaded (paths are built by prefixing).

  Core Lean only.
-/
import Cog.Sem.GoCodec
namespace Cog.Sem
open Cog.IR

/-! ### paths and violations -/

inductive Seg where
  | fld (name : String)     -- struct field: `a` at the root, `.a` below
  | idx (i : Nat)           -- array element: `[3]`
  | key (k : String)        -- map entry: `[k]`
  deriving DecidableEq, Repr, Inhabited

abbrev Path := List Seg

/-- text of a path as the generated code prints it (`"items["+strconv.Itoa(i1)+"]"`, nested
    errors are prefixed by `MakeBuildErrors` with `rootPath + "." + path`) -/
def Path.render : Path → String
  | [] => ""
  | .fld n :: rest => n ++ renderTail rest
  | .idx i :: rest => "[" ++ toString i ++ "]" ++ renderTail rest
  | .key k :: rest => "[" ++ k ++ "]" ++ renderTail rest
where
  renderTail : Path → String
    | [] => ""
    | .fld n :: rest => "." ++ n ++ renderTail rest
    | .idx i :: rest => "[" ++ toString i ++ "]" ++ renderTail rest
    | .key k :: rest => "[" ++ k ++ "]" ++ renderTail rest

/-- one reported violation: where, the Go operator of the failed check (`>=`, `<=`, `<`, `>`,
    `==`, `!=`; length checks are printed with `>=` / `<=`), which constraint (`minLength`,
    `maxLength` or the operator again) and the bound in quarters (value × 4) -/
structure Viol where
  path : Path
  op : String        -- operator as printed in the message "must be <op> <bound>"
  cons : String      -- the IR constraint op
  bound : Int        -- bound × 4
  deriving DecidableEq, Repr, Inhabited

def Viol.pre (s : Seg) (v : Viol) : Viol := { v with path := s :: v.path }

def preAll (s : Seg) (l : List Viol) : List Viol := l.map (Viol.pre s)

/-! ### numeric value of a constraint argument -/

/-- `10^n` -/
def pow10 : Nat → Int
  | 0 => 1
  | n + 1 => 10 * pow10 n

/-- decimal text as printed by `strconv.FormatFloat(x, 'g', -1, 64)` (`-1.5`, `1e+06`,
    `-9.99999916e+08`) → value × 4, when that is an integer -/
def parseGFloat (s : String) : Option Int :=
  let (neg, body) := if s.startsWith "-" then (true, (s.drop 1).toString) else (false, s)
  let (mant, exp) : String × Option Int :=
    match body.splitOn "e" with
    | [m] => (m, some 0)
    | [m, e] =>
      (m, if e.startsWith "+" then ((e.drop 1).toString.toNat?).map Int.ofNat
          else if e.startsWith "-" then ((e.drop 1).toString.toNat?).map fun n => -(Int.ofNat n)
          else (e.toNat?).map Int.ofNat)
    | _ => ("", none)
  let digits : Option (Nat × Nat) :=      -- (all digits as a number, number of fraction digits)
    match mant.splitOn "." with
    | [w] => w.toNat?.map fun n => (n, 0)
    | [w, f] => (w ++ f).toNat?.bind fun n => if w.isEmpty then none else some (n, f.length)
    | _ => none
  match digits, exp with
  | some (n, fd), some e =>
    let sh : Int := e - Int.ofNat fd
    let q : Option Int :=
      if sh ≥ 0 then some (Int.ofNat n * 4 * pow10 sh.toNat)
      else
        let d := pow10 (-sh).toNat
        if (Int.ofNat n * 4) % d = 0 then some (Int.ofNat n * 4 / d) else none
    q.map fun v => if neg then -v else v
  | _, _ => none

/-- bound × 4 of a constraint argument (Go dynamic type kept by VIR): integers of any width,
    floats / json.Numbers whose value is a multiple of 0.25 -/
def valQuarters : Val → Option Int
  | .int _ n => some (n * 4)
  | .float _ r => parseGFloat r
  | .jnum s => parseGFloat s
  | _ => none

/-- `left op right` on quarters -/
def cmpOp (op : String) (l r : Int) : Option Bool :=
  if op = ">=" then some (decide (l ≥ r))
  else if op = ">" then some (decide (l > r))
  else if op = "<=" then some (decide (l ≤ r))
  else if op = "<" then some (decide (l < r))
  else if op = "==" then some (decide (l = r))
  else if op = "!=" then some (decide (l ≠ r))
  else none

/-- the value a comparison sees, in quarters (`len([]rune(s))` for the two length ops: Lean's
    `String.length` counts Unicode scalar values, as `[]rune` does on the valid UTF-8 that
    `encoding/json` produces) -/
def operandQuarters (cons : String) (v : GoVal) : Option Int :=
  if cons = "minLength" ∨ cons = "maxLength" then
    match v with
    | .str s => some ((s.length : Int) * 4)
    | _ => none
  else
    match v with
    | .int n => some (n * 4)
    | .float q => some q
    | _ => none

/-- operator printed for a constraint -/
def goOperator (cons : String) : String :=
  if cons = "minLength" then ">=" else if cons = "maxLength" then "<=" else cons

/-- `type_constraints`: one `if !(left op right) { errs = append(errs, …) }` per constraint, in
    order.  `none` = the rendered Go would not compile / is outside the model (`multipleOf`,
    a length constraint on a number, a non-numeric bound). -/
def checkConstraints (v : GoVal) : List Constraint → Option (List Viol)
  | [] => some []
  | c :: cs =>
    match c.args.head?.bind valQuarters, operandQuarters c.op v with
    | some r, some l =>
      match cmpOp (goOperator c.op) l r, checkConstraints v cs with
      | some true, some rest => some rest
      | some false, some rest => some ({ path := [], op := goOperator c.op, cons := c.op, bound := r } :: rest)
      | _, _ => none
    | _, _ => none

/-! ### `resolvesToConstraints` (validation.go) -/

/-- fuel for `context.ResolveRefs` (alias chains are shorter than the number of objects; one step of slack) -/
def resolveFuel (ss : Schemas) : Nat := ss.objectCount + 2

def resolveRefs (ss : Schemas) (t : Ty) : Option Ty := Schemas.resolveToType ss (resolveFuel ss) t

def isAnyTy : Ty → Bool
  | .scalar k _ _ _ => k == "any"
  | _ => false

mutual
def rtc (ss : Schemas) : Ty → Bool
  | .scalar k _ cs _ => k != "any" && !cs.isEmpty
  | .slot .. => true
  | .ref p n m =>
    match resolveRefs ss (.ref p n m) with
    | some (.struct ..) => true
    | _ => false
  | .disj bs _ _ => rtcList ss bs
  | .inter bs _ => rtcList ss bs
  | .struct fs _ _ _ => rtcFields ss fs
  | .map _ v _ => rtc ss v
  | .array e _ => rtc ss e
  | .cref p n _ _ =>
    match Schemas.locateObject ss p n with
    | some o => o.ty.isEnum
    | none => false
  | .enum .. => false
  | .bad .. => false
def rtcList (ss : Schemas) : List Ty → Bool
  | [] => false
  | t :: ts => rtc ss t || rtcList ss ts
def rtcFields (ss : Schemas) : List Field → Bool
  | [] => false
  | f :: fs => rtc ss f.ty || rtcFields ss fs
end

/-! ### list helpers (loops of the generated code) -/

/-- `for i := range xs { … }` with the element check `f`, errors prefixed with `[i]` -/
def loopIdx (f : GoVal → DRes (List Viol)) : Nat → List GoVal → DRes (List Viol)
  | _, [] => .ok []
  | i, v :: vs => (f v).bind fun l => (loopIdx f (i + 1) vs).bind fun r => .ok (preAll (.idx i) l ++ r)

/-- `for key := range m { … }` (Go's iteration order is unspecified; the model uses the order of
    the association list and every statement about the result is order-insensitive) -/
def loopKey (f : GoVal → DRes (List Viol)) : List (String × GoVal) → DRes (List Viol)
  | [] => .ok []
  | (k, v) :: kvs => (f v).bind fun l => (loopKey f kvs).bind fun r => .ok (preAll (.key k) l ++ r)

/-! ### projections of values (keep the case analysis of the interpreters flat) -/

def GoVal.unptr : GoVal → Option GoVal
  | .ptr v => some v
  | _ => none
def GoVal.elems? : GoVal → Option (List GoVal)
  | .slice vs => some vs
  | _ => none
def GoVal.entries? : GoVal → Option (List (String × GoVal))
  | .gomap kvs => some kvs
  | _ => none

/-- the named fields of a struct value (plain struct or union struct) -/
def fieldVals : GoVal → Option (List (String × GoVal))
  | .struct fs => some (fs.map fun x => (x.1, x.2.2))
  | .union bs => some bs
  | _ => none

/-- the `range $field := .Type.Struct.Fields` block: only fields for which
    `resolvesToConstraints` holds get a check (`guard`); the value's fields are in declaration
    order -/
def loopFields (guard : Ty → Bool) (f : Ty → Bool → GoVal → DRes (List Viol)) :
    List Field → List (String × GoVal) → DRes (List Viol)
  | [], [] => .ok []
  | fd :: fds, (n, v) :: vs =>
    if fd.name ≠ n then .unsup "value does not have the struct's fields" else
    (if guard fd.ty then f fd.ty fd.ty.getMeta.nullable v else .ok []).bind fun l =>
      (loopFields guard f fds vs).bind fun r => .ok (preAll (.fld fd.name) l ++ r)
  | _, _ => .unsup "value does not have the struct's fields"

/-! ### `type_validate_check` -/

/-- `tvc fuel ss t nullable v`: the statements rendered by `type_validate_check` for type `t`
    (`.Type`) and flag `nullable` (`.Nullable`), executed on the value `v` of the expression
    `.SelfName`; returns the errors appended to `errs`, with paths relative to `.ConstraintPath`.
    A call `x.Validate()` on a struct is inlined (the callee's body is the same template at the
    resolved struct type, its errors are re-rooted by `MakeBuildErrors`). -/
def tvc : Nat → Schemas → Ty → Bool → GoVal → DRes (List Viol)
  | 0, _, _, _, _ => .fuel
  | fuel + 1, ss, t, nullable, v =>
    if isAnyTy t then .ok []
    else match resolveRefs ss t with
    | none => .fuel
    | some rt =>
      match rt with
      | .array e _ =>
        -- `if x != nil { for i := range *x {…} }` / `for i := range x {…}`
        if v.isNil then .ok []
        else match v.elems? with
          | some vs => loopIdx (tvc fuel ss e e.getMeta.nullable) 0 vs
          | none => .unsup "ill-typed value (array)"
      | .map _ e _ =>
        if v.isNil then .ok []
        else match v.entries? with
          | some kvs => loopKey (tvc fuel ss e e.getMeta.nullable) kvs
          | none => .unsup "ill-typed value (map)"
      | _ =>
        if nullable then
          -- `if x != nil { <same type, Nullable=false, Dereference=true> }`
          if v.isNil then .ok []
          else match v.unptr with
            | some v' => tvc fuel ss t false v'
            | none => .unsup "ill-typed value (nullable)"
        else if t.isRef then
          match rt with
          | .struct fs _ _ _ =>
            -- `if err := x.Validate(); err != nil { errs = append(errs, MakeBuildErrors(path, err)...) }`
            -- callee: `{{ if resolvesToConstraints .def.Type }} … {{ else }} return nil`
            if rtcFields ss fs then
              match fieldVals v with
              | some fvs => loopFields (rtc ss) (tvc fuel ss) fs fvs
              | none => .unsup "ill-typed value (struct)"
            else .ok []
          | _ => .unsup "found an unimplemented validate case (reference to a non-struct)"
        else
          match t with
          | .struct fs _ _ _ =>
            match fieldVals v with
            | some fvs => loopFields (rtc ss) (tvc fuel ss) fs fvs
            | none => .unsup "ill-typed value (struct)"
          | .scalar _ _ cs m =>
            if hasHint m "string_format_datetime" && !cs.isEmpty then .unsup "constraints on time.Time"
            else match checkConstraints v cs with
              | some l => .ok l
              | none => .unsup "constraint outside the model"
          | _ => .unsup "found an unimplemented validate case"

/-- `func (resource T) Validate() error` of the object `pkg.name` (a struct; other objects get no
    method): `{{ if resolvesToConstraints .def.Type }} <checks> {{ else }} return nil {{ end }}` -/
def goValidate (fuel : Nat) (ss : Schemas) (pkg name : String) (v : GoVal) : DRes (List Viol) :=
  match Schemas.locateObject ss pkg name with
  | none => .unsup "no such object"
  | some o =>
    match o.ty with
    | .struct .. =>
      if rtc ss o.ty then tvc fuel ss o.ty o.ty.getMeta.nullable v else .ok []
    | _ => .unsup "object is not a struct (no Validate method)"

end Cog.Sem
