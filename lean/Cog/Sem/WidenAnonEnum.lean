/-
  C01 (c) pass widening — second extension: anonymous enums (`PlainE`, `peTy`; Cog/Sem/SrcDen.lean).

  * every `OnDisjunction`-only pass (DisjunctionOfConstantsToEnum in the Go chain) is the identity on
    `PlainE` (no disjunction left);
  * AnonymousEnumToExplicitType: exact result `aeS` (every enum below an object becomes a reference
    `eImg` to a new enum object `eNew`, appended with `Objects.Set`); when the generated names are
    fresh (`enumFresh`) the old objects keep their keys and every new object is found under its
    name, the output is `Plain`, and `xden false` is preserved at the same fuel (the enum node and
    the reference to the enum object consume the same unit).
-/
import Cog.Sem.WidenNull
namespace Cog.Sem.Src
open Cog.IR Cog.Passes
open Cog.OMap (rget rset)

/-! ### `OnDisjunction`-only passes on `PlainE` -/

theorem dvTy_pe (hook : DisjHook) : ∀ t : Ty, peTy t = true → dvTy hook t = .ok t
  | .scalar .., _ => by simp [dvTy]
  | .ref .., _ => by simp [dvTy]
  | .array e m, h => by simp only [peTy] at h; simp [dvTy, dvTy_pe hook e h]
  | .map i v m, h => by simp only [peTy, Bool.and_eq_true] at h; simp [dvTy, dvTy_pe hook v h.2]
  | .enum .., _ => by simp [dvTy]
  | .cref .., h => by simp [peTy] at h
  | .struct .., h => by simp [peTy] at h
  | .disj .., h => by simp [peTy] at h
  | .inter .., h => by simp [peTy] at h
  | .slot .., h => by simp [peTy] at h
  | .bad .., h => by simp [peTy] at h

theorem dvFields_pe (hook : DisjHook) : ∀ fs : List Field, (fs.all fun f => peTy f.ty) = true →
    dvFields hook fs = .ok fs
  | [], _ => by simp [dvFields]
  | f :: fs, h => by
    simp only [List.all_cons, Bool.and_eq_true] at h
    simp [dvFields, dvTy_pe hook f.ty h.1, dvFields_pe hook fs h.2]

theorem dvTy_peObj (hook : DisjHook) (t : Ty) (h : peObjTy t = true) : dvTy hook t = .ok t := by
  cases t with
  | struct fs g gi m =>
    cases gi with
    | none => simp only [peObjTy] at h; simp [dvTy, dvFields_pe hook fs h]
    | some x => simp [peObjTy] at h
  | enum vs m => simp [dvTy]
  | scalar k v c m => simp [dvTy]
  | ref p n m => simp [dvTy]
  | array e m => exact dvTy_pe hook _ (by simpa [peObjTy] using h)
  | map i v m => exact dvTy_pe hook _ (by simpa [peObjTy] using h)
  | cref _ _ _ _ => simp [peObjTy, peTy] at h
  | disj _ _ _ => simp [peObjTy, peTy] at h
  | inter _ _ => simp [peObjTy, peTy] at h
  | slot _ _ => simp [peObjTy, peTy] at h
  | bad _ _ => simp [peObjTy, peTy] at h

theorem PlainE_schema {S : Schemas} (h : PlainE S = true) {s : Schema} (hs : s ∈ S) : peSchema s = true := by
  simp only [PlainE, List.all_eq_true] at h
  exact h s hs

theorem peSchema_wf {s : Schema} (h : peSchema s = true) : wfObjects s.objects = true := by
  simp only [peSchema, Bool.and_eq_true] at h; exact h.1.1
theorem peSchema_ept {s : Schema} (h : peSchema s = true) : plainEpt s.entryPointType = true := by
  simp only [peSchema, Bool.and_eq_true] at h; exact h.1.2
theorem peSchema_obj {s : Schema} (h : peSchema s = true) {ko : String × Obj} (hk : ko ∈ s.objects) :
    peObjTy ko.2.ty = true := by
  simp only [peSchema, Bool.and_eq_true, List.all_eq_true] at h; exact h.2 ko hk

theorem runDisjPass_plainE (hook : Schemas → Schema → DisjHook) (S : Schemas) (h : PlainE S = true) :
    runDisjPass hook S = .ok S := by
  have := visitSchemas_map (fun cur s => visitSchemaPure (dvTy (hook cur s)) s) (fun s => s) S (by
    intro cur s hs
    have hp := PlainE_schema h hs
    have := visitSchemaPure_map (dvTy (hook cur s)) (fun t => t) s (peSchema_wf hp)
      (dvTy_plainEpt _ _ (peSchema_ept hp)) (fun ko hk => dvTy_peObj _ _ (peSchema_obj hp hk))
    rw [this, mapSchema_id])
  simpa [runDisjPass] using this

theorem DisjunctionOfConstantsToEnum_plainE (S : Schemas) (h : PlainE S = true) :
    DisjunctionOfConstantsToEnum.run S = .ok S := runDisjPass_plainE _ S h

/-! ### AnonymousEnumToExplicitType: exact result -/

/-- the pass on a type below an object (`cur` = the schema's package, `sug` = the name suggestion) -/
def eImg (cur sug : String) : Ty → Ty
  | .array e m => .array (eImg cur sug e) m
  | .map i v m => .map i (eImg cur sug v) m
  | .enum _ m => .ref cur (ucc sug) { nullable := m.nullable, dflt := .nil, hints := [] }
  | t => t

def eImgObj (cur : String) (o : Obj) : Obj :=
  match o.ty with
  | .enum .. => o
  | .struct fs g gi m =>
    { o with ty := .struct (fs.map fun f => { f with ty := eImg cur (ucc o.name ++ ucc f.name) f.ty }) g gi m }
  | t => { o with ty := eImg cur (ucc o.name ++ "Enum") t }

def aeSchema (s : Schema) : Schema :=
  { s with objects := addObjects (eNewAll s.objects) (mapObjects' (eImgObj s.pkg) s.objects) }

def aeS (S : Schemas) : Schemas := S.map aeSchema

theorem AETE_processType_pe (cur pkg objName sug : String) : ∀ (t : Ty) (acc : List Obj), peTy t = true →
    AnonymousEnumToExplicitType.processType cur pkg objName sug t acc = (eImg cur sug t, acc ++ eNew pkg sug t)
  | .scalar .., _, _ => by simp [AnonymousEnumToExplicitType.processType, eImg, eNew]
  | .ref .., _, _ => by simp [AnonymousEnumToExplicitType.processType, eImg, eNew]
  | .array e m, acc, h => by
    simp only [peTy] at h
    simp [AnonymousEnumToExplicitType.processType, eImg, eNew, AETE_processType_pe cur pkg objName sug e acc h]
  | .map i v m, acc, h => by
    simp only [peTy, Bool.and_eq_true] at h
    have hi : AnonymousEnumToExplicitType.processType cur pkg objName sug i acc = (i, acc) := by
      cases i <;> simp [Ty.isScalar] at h <;> simp [AnonymousEnumToExplicitType.processType]
    simp [AnonymousEnumToExplicitType.processType, eImg, eNew, hi, AETE_processType_pe cur pkg objName sug v acc h.2]
  | .enum vs m, acc, _ => by simp [AnonymousEnumToExplicitType.processType, eImg, eNew]
  | .cref .., _, h => by simp [peTy] at h
  | .struct .., _, h => by simp [peTy] at h
  | .disj .., _, h => by simp [peTy] at h
  | .inter .., _, h => by simp [peTy] at h
  | .slot .., _, h => by simp [peTy] at h
  | .bad .., _, h => by simp [peTy] at h

theorem AETE_processFields_pe (cur pkg objName : String) : ∀ (fs : List Field) (acc : List Obj),
    (fs.all fun f => peTy f.ty) = true →
    AnonymousEnumToExplicitType.processFields cur pkg objName fs acc =
      (fs.map fun f => { f with ty := eImg cur (ucc objName ++ ucc f.name) f.ty },
       acc ++ fs.flatMap fun f => eNew pkg (ucc objName ++ ucc f.name) f.ty)
  | [], _, _ => by simp [AnonymousEnumToExplicitType.processFields]
  | f :: fs, acc, h => by
    simp only [List.all_cons, Bool.and_eq_true] at h
    simp [AnonymousEnumToExplicitType.processFields, AETE_processType_pe cur pkg objName _ f.ty acc h.1,
      AETE_processFields_pe cur pkg objName fs _ h.2, List.append_assoc]

theorem AETE_processObject_pe (cur : String) (o : Obj) (acc : List Obj) (h : peObjTy o.ty = true) :
    AnonymousEnumToExplicitType.processObject cur o acc = (eImgObj cur o, acc ++ eNewObj o) := by
  obtain ⟨name, comments, ty, selfPkg, selfName⟩ := o
  simp only at h
  cases ty with
  | struct fs g gi m =>
    cases gi with
    | none =>
      simp only [peObjTy] at h
      simp [AnonymousEnumToExplicitType.processObject, Ty.isEnum, AnonymousEnumToExplicitType.processType,
        AETE_processFields_pe _ _ _ fs acc h, eImgObj, eNewObj]
    | some x => simp [peObjTy] at h
  | enum vs m => simp [AnonymousEnumToExplicitType.processObject, Ty.isEnum, eImgObj, eNewObj]
  | scalar k v c m =>
    simp [AnonymousEnumToExplicitType.processObject, Ty.isEnum, AnonymousEnumToExplicitType.processType, eImgObj, eNewObj, eImg, eNew]
  | ref p nm m =>
    simp [AnonymousEnumToExplicitType.processObject, Ty.isEnum, AnonymousEnumToExplicitType.processType, eImgObj, eNewObj, eImg, eNew]
  | array e m =>
    have := AETE_processType_pe cur selfPkg name (ucc name ++ "Enum") (.array e m) acc (by simpa [peObjTy] using h)
    simp [AnonymousEnumToExplicitType.processObject, Ty.isEnum, this, eImgObj, eNewObj]
  | map i v m =>
    have := AETE_processType_pe cur selfPkg name (ucc name ++ "Enum") (.map i v m) acc (by simpa [peObjTy] using h)
    simp [AnonymousEnumToExplicitType.processObject, Ty.isEnum, this, eImgObj, eNewObj]
  | cref _ _ _ _ => simp [peObjTy, peTy] at h
  | disj _ _ _ => simp [peObjTy, peTy] at h
  | inter _ _ => simp [peObjTy, peTy] at h
  | slot _ _ => simp [peObjTy, peTy] at h
  | bad _ _ => simp [peObjTy, peTy] at h

theorem AETE_processObjects_pe (cur : String) : ∀ (m : Objects) (acc : List Obj),
    (∀ ko ∈ m, peObjTy ko.2.ty = true) →
    AnonymousEnumToExplicitType.processObjects cur m acc = (mapObjects' (eImgObj cur) m, acc ++ eNewAll m)
  | [], _, _ => by simp [AnonymousEnumToExplicitType.processObjects, mapObjects', eNewAll]
  | (k, o) :: rest, acc, h => by
    simp [AnonymousEnumToExplicitType.processObjects,
      AETE_processObject_pe cur o acc (h (k, o) (List.mem_cons_self ..)),
      AETE_processObjects_pe cur rest _ (fun x hx => h x (List.mem_cons_of_mem _ hx)),
      mapObjects', eNewAll, List.append_assoc]

theorem AnonymousEnumToExplicitType_run (S : Schemas) (h : PlainE S = true) :
    AnonymousEnumToExplicitType.run S = .ok (aeS S) := by
  simp only [AnonymousEnumToExplicitType.run, aeS]
  congr 1
  apply List.map_congr_left
  intro s hs
  have hp := PlainE_schema h hs
  simp [AnonymousEnumToExplicitType.processSchema, aeSchema,
    AETE_processObjects_pe s.pkg s.objects [] (fun ko hk => peSchema_obj hp hk)]

/-! ### fresh names: what `Objects.Set` does with the new objects -/

theorem any_key_eq_contains (k : String) : ∀ m : Objects,
    (m.any fun ko => ko.1 == k) = (m.map (·.1)).contains k
  | [] => rfl
  | (k', o) :: rest => by
    have hc : (k' == k) = (k == k') := by
      cases h1 : k' == k <;> cases h2 : k == k' <;> simp_all
    rw [List.any_cons, List.map_cons, List.contains_cons, any_key_eq_contains k rest, hc]

theorem keyFresh_eq (k : String) (m : Objects) : keyFresh k m = !(m.map (·.1)).contains k := by
  simp only [keyFresh, any_key_eq_contains]

theorem namesFresh_snoc : ∀ (ns taken : List String) (x : String), namesFresh ns taken = true →
    ns.contains x = false → namesFresh ns (taken ++ [x]) = true
  | [], _, _, _, _ => rfl
  | n :: rest, taken, x, h, hx => by
    simp only [namesFresh, Bool.and_eq_true, Bool.not_eq_true'] at h ⊢
    simp only [List.contains_cons, Bool.or_eq_false_iff] at hx
    refine ⟨⟨?_, h.1.2⟩, namesFresh_snoc rest taken x h.2 hx.2⟩
    simp only [List.contains_append, List.contains_cons, List.contains_nil, Bool.or_false, Bool.or_eq_false_iff]
    refine ⟨h.1.1, ?_⟩
    have := hx.1
    by_cases e : n = x
    · subst e; simp at this
    · simp [e]

theorem addObjects_fresh : ∀ (news : List Obj) (m : Objects),
    namesFresh (news.map (·.name)) (m.map (·.1)) = true →
    addObjects news m = m ++ news.map fun o => (o.name, o)
  | [], m, _ => by simp [addObjects]
  | o :: rest, m, h => by
    simp only [List.map_cons, namesFresh, Bool.and_eq_true, Bool.not_eq_true'] at h
    have hk : keyFresh o.name m = true := by rw [keyFresh_eq, h.1.1]; rfl
    have ih := addObjects_fresh rest (m ++ [(o.name, o)]) (by
      simpa using namesFresh_snoc _ _ o.name h.2 h.1.2)
    simp only [addObjects, List.foldl_cons] at ih ⊢
    rw [rset_fresh o.name o m hk, ih]
    simp

theorem namesFresh_not_taken : ∀ (ns taken : List String), namesFresh ns taken = true →
    ∀ n ∈ ns, taken.contains n = false
  | [], _, _, _, hn => by cases hn
  | x :: rest, taken, h, n, hn => by
    simp only [namesFresh, Bool.and_eq_true, Bool.not_eq_true'] at h
    rcases List.mem_cons.1 hn with rfl | hn
    · exact h.1.1
    · exact namesFresh_not_taken rest taken h.2 n hn

theorem rget_append (k : String) : ∀ (a b : Objects),
    rget k (a ++ b) = match rget k a with | some o => some o | none => rget k b
  | [], _ => rfl
  | (k', o) :: rest, b => by
    simp only [List.cons_append, rget]
    split
    · rfl
    · exact rget_append k rest b

theorem rget_none_of_not_key (k : String) : ∀ m : Objects, (m.map (·.1)).contains k = false → rget k m = none
  | [], _ => rfl
  | (k', o) :: rest, h => by
    simp only [List.map_cons, List.contains_cons, Bool.or_eq_false_iff, beq_eq_false_iff_ne, ne_eq] at h
    simp only [rget]
    rw [if_neg (fun e => h.1 e.symm)]
    exact rget_none_of_not_key k rest h.2

theorem rget_news : ∀ (news : List Obj) (taken : List String), namesFresh (news.map (·.name)) taken = true →
    ∀ o ∈ news, rget o.name (news.map fun o => (o.name, o)) = some o
  | [], _, _, _, ho => by cases ho
  | a :: rest, taken, h, o, ho => by
    simp only [List.map_cons, namesFresh, Bool.and_eq_true, Bool.not_eq_true'] at h
    simp only [List.map_cons, rget]
    rcases List.mem_cons.1 ho with rfl | ho
    · simp
    · have hne : ¬ a.name = o.name := by
        intro e
        have : (rest.map (·.name)).contains a.name = true := by
          rw [e]; simp only [List.contains_iff_mem, List.mem_map]; exact ⟨o, ho, rfl⟩
        rw [h.1.2] at this; cases this
      rw [if_neg hne]
      exact rget_news rest taken h.2 o ho

theorem keys_mapObjects' (g : Obj → Obj) (m : Objects) : (mapObjects' g m).map (·.1) = m.map (·.1) := by
  simp [mapObjects', List.map_map, Function.comp_def]

/-- lookups in the output schema, for fresh generated names -/
theorem ae_lookup (s : Schema) (hf : namesFresh ((eNewAll s.objects).map (·.name)) (s.objects.map (·.1)) = true) :
    (∀ k o, rget k s.objects = some o → rget k (aeSchema s).objects = some (eImgObj s.pkg o)) ∧
    (∀ o ∈ eNewAll s.objects, rget o.name (aeSchema s).objects = some o) := by
  have hadd := addObjects_fresh (eNewAll s.objects) (mapObjects' (eImgObj s.pkg) s.objects)
    (by rw [keys_mapObjects']; exact hf)
  simp only [aeSchema, hadd]
  constructor
  · intro k o hk
    rw [rget_append, rget_mapObjects', hk]; rfl
  · intro o ho
    have hnt := namesFresh_not_taken _ _ hf o.name (List.mem_map.2 ⟨o, ho, rfl⟩)
    rw [rget_append, rget_mapObjects', rget_none_of_not_key _ _ hnt]
    exact rget_news _ _ hf o ho

theorem locate_map_pkg (f : Schema → Schema) (hf : ∀ s, (f s).pkg = s.pkg) (pkg : String) : ∀ S : Schemas,
    Schemas.locate (S.map f) pkg = (Schemas.locate S pkg).map f
  | [] => rfl
  | s :: rest => by
    simp only [List.map, Schemas.locate, hf]
    split
    · rfl
    · exact locate_map_pkg f hf pkg rest

theorem locate_pkg : ∀ {S : Schemas} {pkg : String} {s : Schema}, Schemas.locate S pkg = some s → s.pkg = pkg
  | [], _, _, h => by simp [Schemas.locate] at h
  | s0 :: rest, pkg, s, h => by
    simp only [Schemas.locate] at h
    split at h
    · rename_i hp; cases h; exact hp
    · exact locate_pkg h

/-! ### semantics -/

theorem enumHas_rename (vs : List EnumVal) (j : Json) :
    enumHas (AnonymousEnumToExplicitType.renameMembers vs) j = enumHas vs j := by
  induction vs with
  | nil => rfl
  | cons v rest ih =>
    simp only [AnonymousEnumToExplicitType.renameMembers, enumHas, List.any_cons] at ih ⊢
    rw [ih]

theorem isCollLike_eImg (cur sug : String) (t : Ty) : isCollLike (eImg cur sug t) = isCollLike t := by
  cases t <;> rfl

theorem shape_eImg (cur sug : String) (t : Ty) (h : peTy t = true) :
    ((eImg cur sug t).getMeta.nullable || isCollOrAny (eImg cur sug t)) = (t.getMeta.nullable || isCollOrAny t) := by
  cases t with
  | enum vs m => rfl
  | scalar _ _ _ _ | ref _ _ _ | array _ _ | map _ _ _ => rfl
  | cref _ _ _ _ | struct _ _ _ _ | disj _ _ _ | inter _ _ | slot _ _ | bad _ _ => simp [peTy] at h

theorem ae_fields (d d' : Ty → Json → Bool) (cur objName : String) (fs : List Field)
    (hp : (fs.all fun f => peTy f.ty) = true)
    (himp : ∀ f ∈ fs, ∀ j, d f.ty j = true → d' (eImg cur (ucc objName ++ ucc f.name) f.ty) j = true)
    (members : List (String × Json)) (h : xFieldsWith false d fs members = true) :
    xFieldsWith false d' (fs.map fun f => { f with ty := eImg cur (ucc objName ++ ucc f.name) f.ty }) members = true := by
  simp only [xFieldsWith, List.all_map, List.all_eq_true] at h ⊢
  simp only [List.all_eq_true] at hp
  intro f hf
  have hpf := hp f hf
  have h := h f hf
  simp only [Function.comp, Bool.false_or, Bool.and_eq_true, Bool.false_eq_true, if_false] at h ⊢
  refine ⟨?_, ?_⟩
  · have h1 := h.1
    simp only [fieldShapeOK] at h1 ⊢
    rw [Bool.or_assoc] at h1 ⊢
    rw [shape_eImg _ _ _ hpf]
    exact h1
  · cases hl : Json.lookup f.name members with
    | some v =>
      rw [hl] at h
      simp only [Bool.and_eq_true] at h ⊢
      refine ⟨himp f hf _ h.2.1, ?_⟩
      simpa [xFieldValueOK, isCollLike_eImg] using h.2.2
    | none =>
      rw [hl] at h
      simp only [Bool.and_eq_true] at h ⊢
      exact ⟨h.2.1, himp f hf _ h.2.2⟩

theorem mem_eNewAll {m : Objects} {ko : String × Obj} (hk : ko ∈ m) {o' : Obj} (ho : o' ∈ eNewObj ko.2) :
    o' ∈ eNewAll m := by
  simp only [eNewAll, List.mem_flatMap]
  exact ⟨ko, hk, ho⟩

theorem ae_widen (S : Schemas) (hP : PlainE S = true) (hF : enumFresh S = true) :
    ∀ n t j p pkg' sug, peTy t = true →
    (∀ o ∈ eNew pkg' sug t, Schemas.locateObject (aeS S) p o.name = some o) →
    xden false n S t j = true → xden false n (aeS S) (eImg p sug t) j = true := by
  intro n
  induction n with
  | zero => intro t j _ _ _ _ _ h; simp [xden] at h
  | succ n ih =>
    intro t j p pkg' sug hp hocc h
    cases t with
    | scalar kind v cs m => simpa [xden, eImg] using h
    | array e m =>
      simp only [peTy] at hp
      simp only [eNew] at hocc
      simp only [eImg]
      have hb : isByteElem (eImg p sug e) = isByteElem e := by cases e <;> rfl
      simp only [xden, Bool.and_eq_true, hb] at h ⊢
      refine ⟨h.1, ?_⟩
      cases j with
      | arr xs => exact all_mono _ _ (fun x => ih e x p pkg' sug hp hocc) xs h.2
      | null => exact h.2
      | bool _ | num _ | str _ | obj _ => exact h.2
    | map i v m =>
      simp only [peTy, Bool.and_eq_true] at hp
      simp only [eNew] at hocc
      simp only [eImg]
      simp only [xden] at h ⊢
      split at h
      · cases j with
        | obj kvs =>
          simp only [Bool.and_eq_true] at h ⊢
          exact ⟨h.1, all_mono _ _ (fun kv => ih v kv.2 p pkg' sug hp.2 hocc) kvs h.2⟩
        | null => exact h
        | bool _ | num _ | str _ | arr _ => exact h
      · simp at h
    | enum vals em =>
      cases vals with
      | nil => simp [peTy] at hp
      | cons v0 rest =>
        have ho := hocc (newObject pkg' (ucc sug) (.enum (AnonymousEnumToExplicitType.renameMembers (v0 :: rest)) {})) (by simp [eNew])
        simp only [newObject] at ho
        simp only [eImg, xden, ho, AnonymousEnumToExplicitType.renameMembers] at h ⊢
        have := enumHas_rename (v0 :: rest) j
        simp only [AnonymousEnumToExplicitType.renameMembers] at this
        rw [this]
        exact h
    | ref q nm m =>
      simp only [eImg]
      simp only [xden] at h ⊢
      cases ho : Schemas.locateObject S q nm with
      | none => simp [ho] at h
      | some o =>
        -- the schema the reference resolves in, before and after the pass
        simp only [Schemas.locateObject] at ho
        cases hs : Schemas.locate S q with
        | none => simp [hs] at ho
        | some s =>
          simp only [hs, Schema.locateObject] at ho
          have hsmem := locate_mem' hs
          have hpk : s.pkg = q := locate_pkg hs
          have hps := PlainE_schema hP hsmem
          have hfs : namesFresh ((eNewAll s.objects).map (·.name)) (s.objects.map (·.1)) = true := by
            simp only [enumFresh, List.all_eq_true] at hF
            exact hF s hsmem
          obtain ⟨hold, hnew⟩ := ae_lookup s hfs
          have hloc' : ∀ k, Schemas.locateObject (aeS S) q k = rget k (aeSchema s).objects := by
            intro k
            simp only [Schemas.locateObject, aeS, locate_map_pkg aeSchema (fun _ => rfl), hs, Option.map,
              Schema.locateObject]
          have hpo := peSchema_obj hps (mem_of_rget' ho)
          have hlo : Schemas.locateObject S q nm = some o := by
            simp only [Schemas.locateObject, hs, Schema.locateObject, ho]
          simp only [hlo] at h
          rw [hloc', hold nm o ho, hpk]
          dsimp only
          -- the new objects of `o` are found under their names
          have hG : ∀ o' ∈ eNewObj o, Schemas.locateObject (aeS S) q o'.name = some o' := by
            intro o' ho'
            rw [hloc']
            exact hnew o' (mem_eNewAll (mem_of_rget' ho) ho')
          simp only at hpo
          cases hty : o.ty with
          | struct fields gen gi sm =>
            cases gi with
            | none =>
              rw [hty] at hpo
              simp only [peObjTy] at hpo
              have himg : (eImgObj q o).ty = .struct (fields.map fun f => { f with ty := eImg q (ucc o.name ++ ucc f.name) f.ty }) gen none sm := by
                simp only [eImgObj, hty]
              simp only [hty, himg, Bool.or_eq_true] at h ⊢
              rcases h with h | h
              · exact Or.inl h
              · right
                cases j with
                | obj members =>
                  have hnames : (fields.map fun f => ({ f with ty := eImg q (ucc o.name ++ ucc f.name) f.ty } : Field)).map (·.name) = fields.map (·.name) := by
                    simp [List.map_map, Function.comp_def]
                  simp only [xStructBody, hnames, Bool.and_eq_true] at h ⊢
                  refine ⟨h.1, ae_fields _ _ q o.name fields hpo ?_ members h.2⟩
                  intro f hf j' hd
                  have hpf : peTy f.ty = true := by
                    simp only [List.all_eq_true] at hpo; exact hpo f hf
                  refine ih f.ty j' q o.selfPkg _ hpf ?_ hd
                  intro o' ho'
                  apply hG
                  simp only [eNewObj, hty, List.mem_flatMap]
                  exact ⟨f, hf, ho'⟩
                | null | bool _ | num _ | str _ | arr _ => simp [xStructBody] at h
            | some x => simp [hty] at h
          | enum vals em =>
            have himg : eImgObj q o = o := by simp only [eImgObj, hty]
            rw [himg]
            cases vals with
            | nil => simp [hty] at h
            | cons v0 rest => simpa [hty] using h
          | scalar kind sv scs om =>
            have himg : (eImgObj q o).ty = o.ty := by simp only [eImgObj, hty, eImg]
            rw [himg]
            simpa [hty] using h
          | array ae am =>
            rw [hty] at hpo
            have hpa : peTy (.array ae am) = true := by simpa [peObjTy] using hpo
            have himg : (eImgObj q o).ty = eImg q (ucc o.name ++ "Enum") (.array ae am) := by
              simp only [eImgObj, hty]
            simp only [hty, Bool.and_eq_true] at h
            have := ih _ _ q o.selfPkg (ucc o.name ++ "Enum") hpa (by
              intro o' ho'; apply hG; simpa [eNewObj, hty] using ho') h.2
            rw [himg]
            simp only [eImg] at this ⊢
            simp only [Bool.and_eq_true]
            exact ⟨h.1, this⟩
          | map mi mv mm =>
            rw [hty] at hpo
            have hpa : peTy (.map mi mv mm) = true := by simpa [peObjTy] using hpo
            have himg : (eImgObj q o).ty = eImg q (ucc o.name ++ "Enum") (.map mi mv mm) := by
              simp only [eImgObj, hty]
            simp only [hty, Bool.and_eq_true] at h
            have := ih _ _ q o.selfPkg (ucc o.name ++ "Enum") hpa (by
              intro o' ho'; apply hG; simpa [eNewObj, hty] using ho') h.2
            rw [himg]
            simp only [eImg] at this ⊢
            simp only [Bool.and_eq_true]
            exact ⟨h.1, this⟩
          | ref rp rn rm =>
            have himg : (eImgObj q o).ty = .ref rp rn rm := by simp only [eImgObj, hty, eImg]
            simp only [hty, himg] at h ⊢
            have := ih (.ref rp rn { rm with nullable := m.nullable }) j q o.selfPkg "" rfl (by simp [eNew]) h
            simpa [eImg] using this
          | cref _ _ _ _ => simp [hty] at h
          | disj _ _ _ => simp [hty] at h
          | inter _ _ => simp [hty] at h
          | slot _ _ => simp [hty] at h
          | bad _ _ => simp [hty] at h
    | cref _ _ _ _ => simp [peTy] at hp
    | struct _ _ _ _ => simp [peTy] at hp
    | disj _ _ _ => simp [peTy] at hp
    | inter _ _ => simp [peTy] at hp
    | slot _ _ => simp [peTy] at hp
    | bad _ _ => simp [peTy] at hp

/-- for a type without enums (a reference to an object, a plain type) the image is the type itself -/
theorem eImg_plain (cur sug : String) : ∀ t : Ty, plainTy t = true → eImg cur sug t = t
  | .scalar .., _ => rfl
  | .ref .., _ => rfl
  | .array e m, h => by simp only [plainTy] at h; simp [eImg, eImg_plain cur sug e h]
  | .map i v m, h => by simp only [plainTy, Bool.and_eq_true] at h; simp [eImg, eImg_plain cur sug v h.2]
  | .cref .., h => by simp [plainTy] at h
  | .struct .., h => by simp [plainTy] at h
  | .enum .., h => by simp [plainTy] at h
  | .disj .., h => by simp [plainTy] at h
  | .inter .., h => by simp [plainTy] at h
  | .slot .., h => by simp [plainTy] at h
  | .bad .., h => by simp [plainTy] at h

theorem eNew_plain (pkg sug : String) : ∀ t : Ty, plainTy t = true → eNew pkg sug t = []
  | .scalar .., _ => rfl
  | .ref .., _ => rfl
  | .array e m, h => by simp only [plainTy] at h; simp [eNew, eNew_plain pkg sug e h]
  | .map i v m, h => by simp only [plainTy, Bool.and_eq_true] at h; simp [eNew, eNew_plain pkg sug v h.2]
  | .cref .., h => by simp [plainTy] at h
  | .struct .., h => by simp [plainTy] at h
  | .enum .., h => by simp [plainTy] at h
  | .disj .., h => by simp [plainTy] at h
  | .inter .., h => by simp [plainTy] at h
  | .slot .., h => by simp [plainTy] at h
  | .bad .., h => by simp [plainTy] at h

/-! ### the output is plain -/

theorem eImg_pe_plain (cur sug : String) : ∀ t : Ty, peTy t = true → plainTy (eImg cur sug t) = true
  | .scalar .., _ => rfl
  | .ref .., _ => rfl
  | .array e m, h => by simp only [peTy] at h; simpa [eImg, plainTy] using eImg_pe_plain cur sug e h
  | .map i v m, h => by
    simp only [peTy, Bool.and_eq_true] at h
    simp only [eImg, plainTy, Bool.and_eq_true]
    exact ⟨h.1, eImg_pe_plain cur sug v h.2⟩
  | .enum .., _ => rfl
  | .cref .., h => by simp [peTy] at h
  | .struct .., h => by simp [peTy] at h
  | .disj .., h => by simp [peTy] at h
  | .inter .., h => by simp [peTy] at h
  | .slot .., h => by simp [peTy] at h
  | .bad .., h => by simp [peTy] at h

theorem plain_plainObj (u : Ty) (hu : plainTy u = true) : plainObjTy u = true := by
  cases u <;> simp [plainTy] at hu <;> simp [plainObjTy, plainTy, hu]

theorem eImgObj_plain (cur : String) (o : Obj) (h : peObjTy o.ty = true) : plainObjTy (eImgObj cur o).ty = true := by
  obtain ⟨name, comments, ty, selfPkg, selfName⟩ := o
  simp only at h
  cases ty with
  | struct fs g gi m =>
    cases gi with
    | none =>
      simp only [peObjTy, List.all_eq_true] at h
      simp only [eImgObj, plainObjTy, List.all_map, List.all_eq_true]
      exact fun f hf => eImg_pe_plain _ _ _ (h f hf)
    | some x => simp [peObjTy] at h
  | enum vs m => rfl
  | scalar k v c m => rfl
  | ref p n m => rfl
  | array e m => exact plain_plainObj _ (eImg_pe_plain _ _ (.array e m) (by simpa [peObjTy] using h))
  | map i v m => exact plain_plainObj _ (eImg_pe_plain _ _ (.map i v m) (by simpa [peObjTy] using h))
  | cref _ _ _ _ => simp [peObjTy, peTy] at h
  | disj _ _ _ => simp [peObjTy, peTy] at h
  | inter _ _ => simp [peObjTy, peTy] at h
  | slot _ _ => simp [peObjTy, peTy] at h
  | bad _ _ => simp [peObjTy, peTy] at h

theorem eImgObj_name (cur : String) (o : Obj) : (eImgObj cur o).name = o.name := by
  simp only [eImgObj]; split <;> rfl

theorem eNew_enum (pkg sug : String) : ∀ (t : Ty) (o : Obj), o ∈ eNew pkg sug t → plainObjTy o.ty = true
  | .array e _, o, h => eNew_enum pkg sug e o (by simpa [eNew] using h)
  | .map _ v _, o, h => eNew_enum pkg sug v o (by simpa [eNew] using h)
  | .enum vs m, o, h => by simp [eNew] at h; subst h; rfl
  | .scalar .., _, h => by simp [eNew] at h
  | .ref .., _, h => by simp [eNew] at h
  | .cref .., _, h => by simp [eNew] at h
  | .struct .., _, h => by simp [eNew] at h
  | .disj .., _, h => by simp [eNew] at h
  | .inter .., _, h => by simp [eNew] at h
  | .slot .., _, h => by simp [eNew] at h
  | .bad .., _, h => by simp [eNew] at h

theorem eNewAll_enum (m : Objects) (o : Obj) (h : o ∈ eNewAll m) : plainObjTy o.ty = true := by
  simp only [eNewAll, List.mem_flatMap] at h
  obtain ⟨ko, _, ho⟩ := h
  simp only [eNewObj] at ho
  split at ho
  · cases ho
  · simp only [List.mem_flatMap] at ho
    obtain ⟨f, _, hf⟩ := ho
    exact eNew_enum _ _ _ _ hf
  · exact eNew_enum _ _ _ _ ho

theorem wfObjects_append_news : ∀ (news : List Obj) (m : Objects), wfObjects m = true →
    namesFresh (news.map (·.name)) (m.map (·.1)) = true →
    wfObjects (m ++ news.map fun o => (o.name, o)) = true := by
  intro news m hw hf
  induction m with
  | nil =>
    simp only [List.nil_append]
    clear hw
    induction news with
    | nil => rfl
    | cons a rest ih =>
      simp only [List.map_cons, namesFresh, Bool.and_eq_true, Bool.not_eq_true'] at hf
      simp only [List.map_cons, wfObjects, Bool.and_eq_true, beq_self_eq_true, true_and]
      refine ⟨?_, ih hf.2⟩
      have := hf.1.2
      simp only [Bool.not_eq_true', List.any_map, List.any_eq_false, Function.comp]
      intro x hx
      simp only [beq_iff_eq]
      intro e
      have hc : (rest.map (·.name)).contains a.name = true := by
        simp only [List.contains_iff_mem, List.mem_map]; exact ⟨x, hx, e⟩
      rw [this] at hc; cases hc
  | cons ko rest ih =>
    obtain ⟨k, o⟩ := ko
    simp only [wfObjects, Bool.and_eq_true] at hw
    have hf' : namesFresh (news.map (·.name)) (rest.map (·.1)) = true := by
      clear ih hw
      induction news with
      | nil => rfl
      | cons a r ih2 =>
        simp only [List.map_cons, namesFresh, Bool.and_eq_true, Bool.not_eq_true', List.contains_cons,
          Bool.or_eq_false_iff] at hf ⊢
        exact ⟨⟨hf.1.1.2, hf.1.2⟩, ih2 hf.2⟩
    simp only [List.cons_append, wfObjects, Bool.and_eq_true]
    refine ⟨⟨hw.1.1, ?_⟩, ih hw.2 hf'⟩
    simp only [List.any_append, Bool.not_or, Bool.and_eq_true]
    refine ⟨hw.1.2, ?_⟩
    simp only [Bool.not_eq_true', List.any_map, List.any_eq_false, Function.comp, beq_eq_false_iff_ne, ne_eq]
    intro x hx e
    have := namesFresh_not_taken _ _ hf x.name (List.mem_map.2 ⟨x, hx, rfl⟩)
    simp [e] at this

theorem aeS_Plain (S : Schemas) (hP : PlainE S = true) (hF : enumFresh S = true) : Plain (aeS S) = true := by
  simp only [Plain, aeS, List.all_map, List.all_eq_true]
  intro s hs
  have hp := PlainE_schema hP hs
  have hfs : namesFresh ((eNewAll s.objects).map (·.name)) (s.objects.map (·.1)) = true := by
    simp only [enumFresh, List.all_eq_true] at hF
    exact hF s hs
  have hadd := addObjects_fresh (eNewAll s.objects) (mapObjects' (eImgObj s.pkg) s.objects)
    (by rw [keys_mapObjects']; exact hfs)
  simp only [Function.comp, plainSchema, aeSchema, hadd, Bool.and_eq_true]
  refine ⟨⟨?_, peSchema_ept hp⟩, ?_⟩
  · apply wfObjects_append_news
    · exact wfObjects_mapObjects' _ (eImgObj_name s.pkg) _ (peSchema_wf hp)
    · rw [keys_mapObjects']; exact hfs
  · simp only [List.all_append, Bool.and_eq_true, mapObjects', List.all_map, List.all_eq_true, Function.comp]
    exact ⟨fun ko hk => eImgObj_plain _ _ (peSchema_obj hp hk), fun o ho => eNewAll_enum _ o ho⟩

end Cog.Sem.Src
