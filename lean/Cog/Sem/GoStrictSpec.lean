/-
  C08, specification side for the strict decoder: which of the faults named by the property a
  document has with respect to an IR type —
    * an undeclared field,
    * a missing required field that has no default,
    * `null` for a required non-nullable field,
    * a value of the wrong JSON type
  — by recursion on the IR and the document, looking through every alias, independent of the
  templates (no `IsArrayOfKinds` distinction, no plain-vs-strict leaves, faults are collected,
  never short-circuited).

  `null` at an array-element / map-value position of a type that does not admit null is the
  fault `nullElem` (a special case of "wrong JSON type", kept apart because the generated
  decoder accepts it: see C08_strict_counterexample_null_element).  `null` at an element
  position that admits null (nullable element type, `any`) is outside the modelled fragment.

  Core Lean only.
-/
import Cog.Sem.GoStrict
namespace Cog.Sem
open Cog.IR

inductive FaultKind where
  | undeclared (key : String)
  | missing
  | nullRequired
  | wrongType
  | nullElem
  deriving DecidableEq, Repr, Inhabited

structure Fault where
  path : Path
  kind : FaultKind
  deriving DecidableEq, Repr, Inhabited

def Fault.pre (s : Seg) (f : Fault) : Fault := { f with path := s :: f.path }
def preFaults (s : Seg) (l : List Fault) : List Fault := l.map (Fault.pre s)

def Fault.isNullElem (f : Fault) : Bool := f.kind == .nullElem
/-- no `nullElem` fault in the list -/
def nullElemFree (l : List Fault) : Bool := l.all fun f => !f.isNullElem

/-- does the JSON value have the JSON type of the scalar kind?  (integers: integral and within
    the range of the Go type; `none` = scalar kind outside the model) -/
def jsonTypeOK (kind : String) (j : Json) : Option Bool :=
  if kind = "string" then some (match j with | .str _ => true | _ => false)
  else if kind = "bool" then some (match j with | .bool _ => true | _ => false)
  else if kind = "any" then some true
  else if kind = "float32" ∨ kind = "float64" then some (match j with | .num _ => true | _ => false)
  else match intRange kind with
    | some (lo, hi) =>
      some (match j with
        | .num q => decide (q % 4 = 0 ∧ lo ≤ q / 4 ∧ q / 4 ≤ hi)
        | _ => false)
    | none => none

def scalarFaults (kind : String) (j : Json) : DRes (List Fault) :=
  if kind = "bytes" then .unsup "bytes"
  else match jsonTypeOK kind j with
    | some true => if kind = "any" ∧ !anyExact j then .unsup "any: integer beyond 2^53" else .ok []
    | some false => .ok [{ path := [], kind := .wrongType }]
    | none => .unsup ("scalar kind " ++ kind)

/-- is `null` a legitimate value at a position of type `e`? -/
def admitsNull (ss : Schemas) (e : Ty) : Bool :=
  e.getMeta.nullable || (match resolveRefs ss e with
    | some (.scalar k ..) => k == "any"
    | _ => false)

def elemFaults (ss : Schemas) (rec : Ty → Json → DRes (List Fault)) (e : Ty) (x : Json) : DRes (List Fault) :=
  if x.isNull then
    (if admitsNull ss e then .unsup "null at an element position that admits null"
     else .ok [{ path := [], kind := .nullElem }])
  else rec e x

def faultsIdx (f : Json → DRes (List Fault)) : Nat → List Json → DRes (List Fault)
  | _, [] => .ok []
  | i, x :: xs => (f x).bind fun l => (faultsIdx f (i + 1) xs).bind fun r => .ok (preFaults (.idx i) l ++ r)

def faultsKey (f : Json → DRes (List Fault)) : List (String × Json) → DRes (List Fault)
  | [] => .ok []
  | (k, x) :: kvs => (f x).bind fun l => (faultsKey f kvs).bind fun r => .ok (preFaults (.key k) l ++ r)

/-- per declared field: what the document holds for it -/
def fieldFaults (rec : Ty → Json → DRes (List Fault)) (ms : List (String × Json)) :
    List Field → DRes (List Fault)
  | [] => .ok []
  | f :: fs =>
    (match lookupLast f.name ms with
      | some mv => (
        if mv.isNull then
          DRes.ok (if f.required && !f.ty.getMeta.nullable
                   then [{ path := [.fld f.name], kind := .nullRequired }] else [])
        else (rec f.ty mv).map (preFaults (.fld f.name)) : DRes (List Fault))
      | none =>
        DRes.ok (if f.required && Val.isNil f.ty.getMeta.dflt
                 then [{ path := [.fld f.name], kind := .missing }] else [])).bind fun a =>
    (fieldFaults rec ms fs).bind fun b => .ok (a ++ b)

def undeclaredFaults (fields : List Field) (ms : List (String × Json)) : List Fault :=
  (ms.filter fun kv => !(fields.map (·.name)).contains kv.1).map fun kv =>
    { path := [], kind := .undeclared kv.1 }

/-- alternatives of a union of scalars: `none` when some alternative is fault-free, otherwise the
    faults of all of them -/
def altFaults (rec : Ty → DRes (List Fault)) : List Field → DRes (Option (List Fault))
  | [] => .ok (some [])
  | f :: fs =>
    (rec (f.ty.setMeta { f.ty.getMeta with nullable := false })).bind fun l =>
      if l.isEmpty then .ok none
      else (altFaults rec fs).bind fun r => .ok (r.map (l ++ ·))

/-- the faults of a non-null document `j` at the (alias-free) type `rt`; `rec` is the recursive
    call for components, `pkg` the package of the reference that led here -/
def faultsAt (rec : Ty → Json → DRes (List Fault)) (ss : Schemas) (pkg : String) (rt : Ty) (j : Json) :
    DRes (List Fault) :=
  match rt with
  | .scalar kind _ _ _ => scalarFaults kind j
  | .enum (v0 :: _) _ => scalarFaults v0.kind j
  | .array e _ =>
    match j with
    | .arr xs => faultsIdx (elemFaults ss rec e) 0 xs
    | _ => .ok [{ path := [], kind := .wrongType }]
  | .map (.scalar "string" _ _ _) e _ =>
    match j with
    | .obj kvs => faultsKey (elemFaults ss rec e) kvs
    | _ => .ok [{ path := [], kind := .wrongType }]
  | .struct fields _ none _ =>
    match j with
    | .obj ms => (fieldFaults rec ms fields).bind fun l => .ok (l ++ undeclaredFaults fields ms)
    | _ => .ok [{ path := [], kind := .wrongType }]
  | .struct fields _ (some (hint, info)) _ =>
    if hint = "disjunction_of_scalars" then
      (altFaults (fun b => rec b j) fields).bind fun r =>
        match r with
        | none => .ok []
        | some ls => .ok ({ path := [], kind := .wrongType } :: ls)
    else
      match j with
      | .obj ms =>
        match lookupLast info.discriminator ms with
        | none => .ok [{ path := [.fld info.discriminator], kind := .missing }]
        | some d =>
          match unionTarget info d with
          | none => .ok [{ path := [.fld info.discriminator], kind := .wrongType }]
          | some tn =>
            match fieldByRefName fields tn with
            | none => .unsup "mapping target is not a branch"
            | some _ => rec (.ref pkg tn {}) j
      | _ => .ok [{ path := [], kind := .wrongType }]
  | _ => .unsup "type outside the model"

/-- `strictFaults fuel ss t j`: the faults of the non-null document `j` at type `t` -/
def strictFaults : Nat → Schemas → Ty → Json → DRes (List Fault)
  | 0, _, _, _ => .fuel
  | fuel + 1, ss, t, j =>
    match resolveRefs ss t with
    | none => .fuel
    | some rt => faultsAt (strictFaults fuel ss) ss (refPkg t) rt j

/-- faults of a document offered to the object `pkg.name` -/
def strictFaultsObj (fuel : Nat) (ss : Schemas) (pkg name : String) (j : Json) : DRes (List Fault) :=
  strictFaults fuel ss (.ref pkg name {}) j

/-! ### decidable hypotheses of the partial theorems -/

/-- looking through aliases, `t` is built from scalars, enums, arrays and string-keyed maps only
    (the types whose plain `json.Unmarshal` is as strict as the strict decoder) -/
def leafTy : Nat → Schemas → Ty → Bool
  | 0, _, _ => false
  | n + 1, ss, t =>
    match resolveRefs ss t with
    | some (.scalar ..) => true
    | some (.enum ..) => true
    | some (.array e _) => leafTy n ss e
    | some (.map _ e _) => leafTy n ss e
    | _ => false

def allBranchesLeaf (ss : Schemas) : List Field → Bool
  | [] => true
  | f :: fs => leafTy kindFuel ss (f.ty.setMeta { f.ty.getMeta with nullable := false }) && allBranchesLeaf ss fs

/-- every alternative of every union of scalars is a leaf type (the scalars-union template decodes
    its alternatives with plain `json.Unmarshal`, which is not strict below a struct) -/
def scalarUnionsAreLeaf (ss : Schemas) : Bool :=
  ss.all fun s => s.objects.all fun kv =>
    match kv.2.ty with
    | .struct fields _ (some (hint, _)) _ => hint != "disjunction_of_scalars" || allBranchesLeaf ss fields
    | _ => true

end Cog.Sem
