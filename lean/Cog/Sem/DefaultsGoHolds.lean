/-
  C10, Go side: a field whose default fits (`goFits`) holds its declared value in the JSON of the
  constructor — one lemma per value type (scalar / constant, list of strings, enum member, struct
  with partial overrides), assembled in `go_field_holds`.
-/
import Cog.Sem.DefaultsGoLemmas
namespace Cog.Sem.Defaults
open Cog.Sem Cog.IR GoVal

/-- the shape of a successful constructor run on a plain struct object -/
theorem goCtor_struct_inv {fuel : Nat} {ss : Schemas} {pkg name : String} {o : Obj} {fs : List Field}
    {g : List Ty} {m : Meta} {v : GoVal}
    (hctor : goCtor fuel ss pkg name = .ok v) (hloc : Schemas.locateObject ss pkg name = some o)
    (hty : o.ty = .struct fs g none m) (hsp : o.selfPkg = pkg) (hsn : o.selfName = name) :
    ∃ k lits, fuel = k + 2 ∧ goFieldsLit (goStructLit k ss) ss k [] fs = .ok lits ∧
      evalExpr (goCtor (k + 1) ss) (goZero (k + 1) ss) (k + 1) ss (.named pkg name) (.structLit pkg name lits) = .ok v ∧
      declOf (k + 1) ss pkg name = .structD fs false := by
  cases fuel with
  | zero => simp [goCtor] at hctor
  | succ k1 =>
    simp only [goCtor, hloc, hty, hsp, hsn] at hctor
    obtain ⟨lit, hlit, hev⟩ := CRes.bind_eq_ok.mp hctor
    obtain ⟨k, lits, rfl, hl, rfl⟩ := goStructLit_inv hlit
    refine ⟨k, lits, rfl, by simpa [extraOf] using hl, hev, ?_⟩
    simp [declOf, hloc, hty]

/-- where a printed member of the top-level literal ends up -/
theorem goCtor_member {k : Nat} {ss : Schemas} {pkg name : String} {fs : List Field} {lits : List (String × GoExpr)}
    {v : GoVal} {f : Field} {r : Ty} {e : GoExpr}
    (hl : goFieldsLit (goStructLit k ss) ss k [] fs = .ok lits)
    (hev : evalExpr (goCtor (k + 1) ss) (goZero (k + 1) ss) (k + 1) ss (.named pkg name) (.structLit pkg name lits) = .ok v)
    (hd : declOf (k + 1) ss pkg name = .structD fs false) (hn : namesNodup fs = true) (hf : f ∈ fs)
    (hr : Schemas.resolveToType ss k f.ty = some r) (he : goFieldLit (goStructLit k ss) [] f r = .lit e) :
    ∃ l gv, goEncode (.ptr v) = .obj (encFields l) ∧
      evalExpr (goCtor (k + 1) ss) (goZero (k + 1) ss) (k + 1) ss (fieldGoTy (k + 1) ss f) e = .ok gv ∧
      Json.lookup f.name (encFields l) = if (!f.required && isEmpty gv) = true then none else some (goEncode gv) := by
  have hlk := goFieldsLit_lookup hl hn f hf r e hr he
  obtain ⟨l, gv, rfl, h1, h2⟩ := structLit_member hev hd hn hf hlk
  exact ⟨l, gv, by simp [goEncode], h1, h2⟩

theorem holds_of_lookup {l : List (String × Bool × GoVal)} {name : String} {gv : GoVal} {j : Json}
    (hlk : Json.lookup name (encFields l) = if false = true then none else some (goEncode gv))
    (hsub : Json.sub j (goEncode gv) = true) : holds (.obj (encFields l)) name j = true := by
  simp at hlk
  simp [holds, hlk, hsub]

/-! ### scalars and constants -/

section top
variable {k : Nat} {ss : Schemas} {pkg name : String} {fs : List Field} {lits : List (String × GoExpr)} {v : GoVal}

theorem go_scalar_holds {f : Field} {j : Json}
    (hl : goFieldsLit (goStructLit k ss) ss k [] fs = .ok lits)
    (hev : evalExpr (goCtor (k + 1) ss) (goZero (k + 1) ss) (k + 1) ss (.named pkg name) (.structLit pkg name lits) = .ok v)
    (hd : declOf (k + 1) ss pkg name = .structD fs false) (hn : namesNodup fs = true) (hf : f ∈ fs)
    (hs : f.ty.isScalar = true) (hfit : goFits ss f = true) (hj : declaredOf f = some j) :
    holds (goEncode (.ptr v)) f.name j = true := by
  obtain ⟨r, hr, _⟩ := goFieldsLit_resolves hl f hf
  have hnr : f.ty.isRef = false := by cases hty : f.ty <;> simp [hty, Ty.isScalar, Ty.isRef] at hs ⊢
  have hrt := resolve_nonref hr hnr
  subst hrt
  have hlv : lookupVal f.name ([] : List (String × Val)) = none := rfl
  obtain ⟨hc1, hc2⟩ := goFieldLit_scalar (nested := goStructLit k ss) hlv hs
  -- the value the literal is printed from
  have key : ∃ val, goScalarFieldFits f val = true ∧ valJson val = some j ∧
      goFieldLit (goStructLit k ss) [] f f.ty = .lit (maybePtr (formatScalar val) f.ty.getMeta.nullable f.ty) := by
    unfold goFits at hfit
    cases hty : f.ty with
    | scalar kind value cs m =>
      simp only [hty] at hfit
      by_cases hc : f.ty.isConcrete = true
      · have hc' : (Ty.scalar kind value cs m).isConcrete = true := by rw [← hty]; exact hc
        simp only [hc', if_true] at hfit
        refine ⟨value, hfit, ?_, ?_⟩
        · simpa [declaredOf, hty, hc', scalarValue] using hj
        · simpa [hty, scalarValue] using hc1 hc
      · have hc0 : f.ty.isConcrete = false := by simpa using hc
        have hc' : (Ty.scalar kind value cs m).isConcrete = false := by rw [← hty]; exact hc0
        simp only [hc', Bool.false_eq_true, if_false, Bool.and_eq_true, Ty.getMeta] at hfit
        have hd' : f.ty.getMeta.dflt.isNilV = false := by simpa [hty, Ty.getMeta] using hfit.1
        refine ⟨m.dflt, hfit.2, ?_, ?_⟩
        · have hd'' : m.dflt.isNilV = false := by simpa using hfit.1
          simpa [declaredOf, hty, hc', Ty.getMeta, hd''] using hj
        · simpa [hty, Ty.getMeta] using hc2 hc0 hd'
    | _ => simp [hty, Ty.isScalar] at hs
  obtain ⟨val, hvfit, hvj, hlit⟩ := key
  obtain ⟨l, gv, henc, hgv, hlk⟩ := goCtor_member hl hev hd hn hf hr hlit
  obtain ⟨hom, j', hj', hencj, hflat⟩ := scalar_field hvfit hgv
  rw [hvj] at hj'
  cases hj'
  rw [henc]
  rw [hom] at hlk
  exact holds_of_lookup hlk (by rw [hencj]; exact sub_refl_flat _ hflat)

/-! ### lists of strings -/

theorem evalItems_strs {ctor : String → String → CRes GoVal} {zero : Ty → CRes GoVal} {fuel : Nat} :
    ∀ {xs : List Val} {vs : List GoVal}, allStr xs = true →
    evalItems ctor zero fuel ss (formatScalarList xs) = .ok vs →
    valJsonList xs = some (encList vs) ∧ flatList (encList vs) = true ∧ vs.isEmpty = xs.isEmpty
  | [], vs, _, h => by
    simp [formatScalarList, evalItems] at h; subst h
    simp [valJsonList, encList, flatList]
  | x :: t, vs, ha, h => by
    cases x <;> simp [allStr] at ha
    rename_i s
    simp only [formatScalarList, formatScalar, evalItems] at h
    obtain ⟨v0, hv0, h2⟩ := CRes.bind_eq_ok.mp h
    obtain ⟨vt, hvt, h3⟩ := CRes.bind_eq_ok.mp h2
    cases h3
    simp [evalExpr, constTarget, strConst] at hv0
    subst hv0
    obtain ⟨i1, i2, _⟩ := evalItems_strs ha hvt
    simp [valJsonList, valJson, encList, goEncode, i1, flatList, flat, i2]

theorem go_list_holds {f : Field} {j : Json}
    (hl : goFieldsLit (goStructLit k ss) ss k [] fs = .ok lits)
    (hev : evalExpr (goCtor (k + 1) ss) (goZero (k + 1) ss) (k + 1) ss (.named pkg name) (.structLit pkg name lits) = .ok v)
    (hd : declOf (k + 1) ss pkg name = .structD fs false) (hn : namesNodup fs = true) (hf : f ∈ fs)
    (hs : f.ty.isArray = true) (hfit : goFits ss f = true) (hj : declaredOf f = some j) :
    holds (goEncode (.ptr v)) f.name j = true := by
  obtain ⟨r, hr, _⟩ := goFieldsLit_resolves hl f hf
  have hnr : f.ty.isRef = false := by cases hty : f.ty <;> simp [hty, Ty.isArray, Ty.isRef] at hs ⊢
  have hrt := resolve_nonref hr hnr
  subst hrt
  unfold goFits at hfit
  cases hty : f.ty with
  | array e m =>
    simp only [hty, Ty.getMeta, Bool.and_eq_true] at hfit
    obtain ⟨hel, hdf⟩ := hfit
    cases hdv : m.dflt with
    | list xs =>
      simp only [hdv, Bool.and_eq_true] at hdf
      obtain ⟨hall, hne⟩ := hdf
      -- the printed literal
      have hlit : goFieldLit (goStructLit k ss) [] f f.ty = .lit (.strSlice (formatScalarList xs)) := by
        have hnx : needsExplicit f f.ty [] = true := by simp [needsExplicit, hty, Ty.getMeta, hdv, Val.isNilV]
        simp only [goFieldLit, hnx, Bool.not_true, Bool.false_eq_true, if_false, lookupVal]
        simp [hty, Ty.isConcrete, Ty.isScalar, Ty.isMap, Ty.isArray, Ty.getMeta, hdv, Val.isNilV,
          maybePtr, formatScalar]
      -- the declared Go type of the field
      have hgt : fieldGoTy (k + 1) ss f = .slice .str := by
        cases he : e with
        | scalar kind' value' cs' em' =>
          by_cases hk : kind' = "any" ∨ kind' = "bytes" ∨ hasHint em' "string_format_datetime" = true
          · simp [he, plainScalarTy, hk] at hel
          · simp [he, plainScalarTy, hk] at hel
            obtain ⟨rfl, hnn⟩ := hel
            have hh : hasHint em' "string_format_datetime" = false := by
              cases hx : hasHint em' "string_format_datetime" with
              | false => rfl
              | true => exact absurd (Or.inr (Or.inr hx)) hk
            simp [fieldGoTy, hty, Ty.isRef, goTyOf, he, hh, scalarBase, hnn]
        | _ => simp [he, plainScalarTy] at hel
      obtain ⟨l, gv, henc, hgv, hlk⟩ := goCtor_member hl hev hd hn hf hr hlit
      rw [hgt] at hgv
      simp only [evalExpr] at hgv
      obtain ⟨vs, hvs, h2⟩ := CRes.bind_eq_ok.mp hgv
      simp at h2
      subst h2
      obtain ⟨i1, i2, i3⟩ := evalItems_strs hall hvs
      have hjj : j = .arr (encList vs) := by
        simp [declaredOf, hty, Ty.isConcrete, Ty.getMeta, hdv, Val.isNilV, valJson, i1] at hj
        exact hj.symm
      have hom : (!f.required && isEmpty (GoVal.slice vs)) = false := by
        simp [isEmpty, i3]
        intro hreq
        rcases Bool.or_eq_true_iff.mp hne with h | h
        · simp [h] at hreq
        · simpa using h
      rw [henc]
      rw [hom] at hlk
      refine holds_of_lookup hlk ?_
      subst hjj
      simp [goEncode, Json.sub]
      exact subList_refl_flat _ i2
    | _ => simp [hdv] at hdf
  | _ => simp [hty, Ty.isArray] at hs

/-! ### enum members -/

theorem evalExpr_ptrTo {ctor : String → String → CRes GoVal} {zero : Ty → CRes GoVal} {fuel : Nat} {ss : Schemas}
    (hint : GoTy) (e : GoExpr) (h : hint ≠ .unknown) :
    evalExpr ctor zero fuel ss (.ptr hint) (.ptrTo hint e) = (evalExpr ctor zero fuel ss hint e).map .ptr := by
  simp [evalExpr, h]

theorem goEq_true_eq {a b : Val} (h : Val.goEq a b = some true) : a = b := by
  cases a <;> cases b <;> simp_all [Val.goEq]

theorem intRange_ne_string {kind : String} {r : Int × Int} (h : intRange kind = some r) : kind ≠ "string" := by
  intro e; subst e; simp [intRange] at h

theorem resolve_ref_obj {ss : Schemas} {fuel : Nat} {p n : String} {m : Meta} {o : Obj} {r : Ty}
    (hr : Schemas.resolveToType ss fuel (.ref p n m) = some r) (hloc : Schemas.locateObject ss p n = some o)
    (hnr : o.ty.isRef = false) : r = o.ty ∧ ∀ fuel', Schemas.resolveToType ss (fuel' + 2) (.ref p n m) = some o.ty := by
  cases fuel with
  | zero => simp [Schemas.resolveToType] at hr
  | succ k0 =>
    simp only [Schemas.resolveToType, hloc] at hr
    refine ⟨resolve_nonref hr hnr, fun fuel' => ?_⟩
    simp only [Schemas.resolveToType, hloc]
    cases hty : o.ty <;> simp [hty, Ty.isRef] at hnr <;> simp [Schemas.resolveToType]

theorem memberVal_ok {m' : EnumVal} (hok : goMemberOk m' = true) :
    ∃ gv j, memberVal m' = .ok gv ∧ valJson m'.value = some j ∧ goEncode gv = j ∧ flat j = true ∧
      (valNonZero m'.value = true → isEmpty gv = false) := by
  unfold goMemberOk at hok
  cases hv : m'.value <;> simp [hv] at hok
  · rename_i t n
    cases hr : intRange m'.kind with
    | none => simp [hr] at hok
    | some r =>
      have hne := intRange_ne_string hr
      refine ⟨.int n, .num (n * 4), by simp [memberVal, hv, hne], by simp [valJson], by simp [goEncode], by simp [flat], ?_⟩
      simp [valNonZero, isEmpty]
  · rename_i s
    refine ⟨.str s, .str s, by simp [memberVal, hv, hok], by simp [valJson], by simp [goEncode], by simp [flat], ?_⟩
    simp [valNonZero, isEmpty]

theorem go_enum_holds {f : Field} {j : Json} {p n : String} {m : Meta} {o : Obj} {vs : List EnumVal} {em : Meta}
    (hl : goFieldsLit (goStructLit k ss) ss k [] fs = .ok lits)
    (hev : evalExpr (goCtor (k + 1) ss) (goZero (k + 1) ss) (k + 1) ss (.named pkg name) (.structLit pkg name lits) = .ok v)
    (hd : declOf (k + 1) ss pkg name = .structD fs false) (hn : namesNodup fs = true) (hf : f ∈ fs)
    (hty : f.ty = .ref p n m) (hloc : Schemas.locateObject ss p n = some o) (hoty : o.ty = .enum vs em)
    (hfit : goFits ss f = true) (hj : declaredOf f = some j) :
    holds (goEncode (.ptr v)) f.name j = true := by
  obtain ⟨r, hr, _⟩ := goFieldsLit_resolves hl f hf
  have honr : o.ty.isRef = false := by simp [hoty, Ty.isRef]
  rw [hty] at hr
  obtain ⟨hrt, hres⟩ := resolve_ref_obj hr hloc honr
  subst hrt
  unfold goFits at hfit
  simp only [hty, Ty.getMeta, hloc, hoty, Bool.and_eq_true] at hfit
  obtain ⟨hdn, hfit⟩ := hfit
  cases hpm : pickMember m.dflt vs vs.head? with
  | none => simp [hpm] at hfit
  | some mem =>
    simp only [hpm] at hfit
    cases hfm : findMember mem.name vs with
    | none => simp [hfm] at hfit
    | some m' =>
      simp only [hfm, Bool.and_eq_true] at hfit
      obtain ⟨⟨⟨heq, hok⟩, hclean⟩, hom⟩ := hfit
      have hdm : m'.value = m.dflt := goEq_true_eq (by simpa using heq)
      have hdn' : m.dflt.isNilV = false := by simpa using hdn
      -- the printed literal
      have hlit : goFieldLit (goStructLit k ss) [] f o.ty =
          .lit (maybePtr (.ident p n mem.name) m.nullable (.ref p n m)) := by
        have hnx : needsExplicit f o.ty [] = true := by simp [needsExplicit, hty, Ty.getMeta, hdn']
        simp only [goFieldLit, hnx, Bool.not_true, Bool.false_eq_true, if_false, lookupVal]
        simp [hty, hoty, Ty.isConcrete, Ty.isScalar, Ty.isMap, Ty.isArray, Ty.isRef, Ty.isStruct, Ty.isEnum,
          Ty.getMeta, hdn', enumValues, hpm, refPkg, refName]
      have hr' : Schemas.resolveToType ss k f.ty = some o.ty := by rw [hty]; exact hr
      obtain ⟨l, gv, henc, hgv, hlk⟩ := goCtor_member hl hev hd hn hf hr' hlit
      -- the declared Go type
      have hgt : fieldGoTy (k + 1) ss f = if m.nullable then .ptr (.named p n) else .named p n := by
        have := hres (k - 1 + 0)
        cases k with
        | zero => simp [Schemas.resolveToType] at hr
        | succ k0 =>
          have h2 := hres k0
          simp [fieldGoTy, hty, Ty.isRef, h2, hoty, Ty.isConcrete, goTyOf]
      obtain ⟨gv0, j0, hmv, hvj, hencj, hflat, hnz⟩ := memberVal_ok hok
      have hclean' : Cog.Passes.cleanupNames (Cog.Passes.ucc mem.name) = mem.name := by simpa using hclean
      have hid : evalExpr (goCtor (k + 1) ss) (goZero (k + 1) ss) (k + 1) ss (.named p n) (.ident p n mem.name) = .ok gv0 := by
        simp [evalExpr, hloc, hoty, enumValues, hfm, hclean', hmv]
      have hjj : j = j0 := by
        have h1 : valJson m.dflt = some j := by simpa [declaredOf, hty, Ty.isConcrete, Ty.getMeta, hdn'] using hj
        rw [← hdm, hvj] at h1
        exact (Option.some.inj h1).symm
      subst hjj
      rw [hgt] at hgv
      rw [henc]
      cases hnull : m.nullable with
      | false =>
        simp [hnull, maybePtr] at hgv
        rw [hid] at hgv
        cases hgv
        have hom' : (!f.required && isEmpty gv) = false := by
          simp [hnull] at hom
          rcases hom with h | h
          · simp [h]
          · simp [hnz h]
        rw [hom'] at hlk
        exact holds_of_lookup hlk (by rw [hencj]; exact sub_refl_flat _ hflat)
      | true =>
        simp [hnull, maybePtr, Ty.isArray, Ty.isMap, nonNullable, Ty.setMeta, Ty.getMeta, goTyOf] at hgv
        rw [evalExpr_ptrTo _ _ (by simp)] at hgv
        obtain ⟨gv', hgv', rfl⟩ := CRes.map_eq_ok.mp hgv
        rw [hid] at hgv'
        cases hgv'
        have hom' : (!f.required && isEmpty (GoVal.ptr gv0)) = false := by simp [isEmpty]
        rw [hom'] at hlk
        exact holds_of_lookup hlk (by simp only [goEncode]; rw [hencj]; exact sub_refl_flat _ hflat)

/-! ### struct defaults with partial overrides -/

theorem evalExpr_addr {ctor : String → String → CRes GoVal} {zero : Ty → CRes GoVal} {fuel : Nat} {ss : Schemas}
    (u : GoTy) (e : GoExpr) :
    evalExpr ctor zero fuel ss (.ptr u) (.addr e) = (evalExpr ctor zero fuel ss u e).map .ptr := by
  simp [evalExpr]

theorem struct_overrides_sub {ctor : String → String → CRes GoVal} {zero : Ty → CRes GoVal} {fuel k' : Nat}
    {kvs : List (String × Val)} {sfs : List Field} {lits' : List (String × GoExpr)} {p n : String} {gvS : GoVal}
    {js : List (String × Json)}
    (hl' : goFieldsLit (goStructLit k' ss) ss k' kvs sfs = .ok lits')
    (hevS : evalExpr ctor zero fuel ss (.named p n) (.structLit p n lits') = .ok gvS)
    (hd : declOf fuel ss p n = .structD sfs false) (hn : namesNodup sfs = true) (hk : keysNodup kvs = true)
    (hof : overridesFit sfs kvs = true) (hjs : valJsonMembers kvs = some js) :
    ∃ l', gvS = .struct l' ∧ Json.subMembers js (encFields l') = true := by
  obtain ⟨vals, l', hvals, hasm, rfl⟩ := evalStructLit_inv hevS hd
  refine ⟨l', rfl, subMembers_of_forall fun kj hkj => ?_⟩
  obtain ⟨ov, hmem, hvj⟩ := valJsonMembers_mem hjs kj hkj
  obtain ⟨g, hg, hgfit, _⟩ := overridesFit_mem hof (kj.1, ov) hmem
  obtain ⟨hgname, hgmem⟩ := fieldByName_name hg
  have hlv : lookupVal g.name kvs = some ov := by
    rw [hgname]; exact lookupVal_of_mem hk (kj.1, ov) hmem
  obtain ⟨_, hgnr, _⟩ := goScalarFieldFits_scalar hgfit
  obtain ⟨rg, hrg, _⟩ := goFieldsLit_resolves hl' g hgmem
  have hrt := resolve_nonref hrg hgnr
  subst hrt
  have hlit := goFieldLit_override (nested := goStructLit k' ss) hlv hgfit
  have hlk := goFieldsLit_lookup hl' hn g hgmem g.ty _ hrg hlit
  obtain ⟨g', gvg, hg', hgvg, hevg⟩ := evalLits_lookup hvals g.name _ hlk
  rw [fieldByName_of_mem hn g hgmem] at hg'
  cases hg'
  obtain ⟨hom, j', hj', hencj, hflat⟩ := scalar_field hgfit hevg
  rw [hvj] at hj'
  cases hj'
  have hl2 := assemble_lookup hasm hn g hgmem gvg hgvg
  rw [hom] at hl2
  simp at hl2
  rw [hgname] at hl2
  exact ⟨goEncode gvg, hl2, by rw [hencj]; exact sub_refl_flat _ hflat⟩

theorem go_struct_holds {f : Field} {j : Json} {p n : String} {m : Meta} {o : Obj} {sfs : List Field}
    {sg : List Ty} {sm : Meta}
    (hl : goFieldsLit (goStructLit k ss) ss k [] fs = .ok lits)
    (hev : evalExpr (goCtor (k + 1) ss) (goZero (k + 1) ss) (k + 1) ss (.named pkg name) (.structLit pkg name lits) = .ok v)
    (hd : declOf (k + 1) ss pkg name = .structD fs false) (hn : namesNodup fs = true) (hf : f ∈ fs)
    (hty : f.ty = .ref p n m) (hloc : Schemas.locateObject ss p n = some o) (hoty : o.ty = .struct sfs sg none sm)
    (hfit : goFits ss f = true) (hj : declaredOf f = some j) :
    holds (goEncode (.ptr v)) f.name j = true := by
  obtain ⟨r, hr, hnofail⟩ := goFieldsLit_resolves hl f hf
  have honr : o.ty.isRef = false := by simp [hoty, Ty.isRef]
  rw [hty] at hr
  obtain ⟨hrt, hres⟩ := resolve_ref_obj hr hloc honr
  subst hrt
  unfold goFits at hfit
  simp only [hty, Ty.getMeta, hloc, hoty, Bool.and_eq_true] at hfit
  obtain ⟨hdn, hfit⟩ := hfit
  have hdn' : m.dflt.isNilV = false := by simpa using hdn
  cases hdv : m.dflt with
  | map kvs =>
    simp only [hdv, Bool.and_eq_true] at hfit
    obtain ⟨⟨hkn, hsn⟩, hof⟩ := hfit
    -- the printed literal: the nested `defaultsForStruct` call must have succeeded
    have hshape : ∀ x, goFieldLit (goStructLit k ss) [] f o.ty = x →
        x = (match goStructLit k ss p n sfs (.map kvs) with
          | .ok lit => .lit (if m.nullable then .addr lit else lit)
          | .cerr w => .fail (.cerr w)
          | .unsup w => .fail (.unsup w)
          | .fuel => .fail .fuel) := by
      intro x hx
      rw [← hx]
      have hnx : needsExplicit f o.ty [] = true := by simp [needsExplicit, hty, Ty.getMeta, hdn']
      simp only [goFieldLit, hnx, Bool.not_true, Bool.false_eq_true, if_false, lookupVal]
      simp [hty, hoty, Ty.isConcrete, Ty.isScalar, Ty.isMap, Ty.isArray, Ty.isRef, Ty.isStruct,
        Ty.getMeta, hdv, Val.isNilV, structFields, refPkg, refName]
      cases goStructLit k ss p n sfs (.map kvs) <;> rfl
    have hsh := hshape _ rfl
    cases hnest : goStructLit k ss p n sfs (.map kvs) with
    | cerr w => rw [hnest] at hsh; exact absurd hsh (hnofail _)
    | unsup w => rw [hnest] at hsh; exact absurd hsh (hnofail _)
    | fuel => rw [hnest] at hsh; exact absurd hsh (hnofail _)
    | ok lit' =>
      rw [hnest] at hsh
      obtain ⟨k', lits', hk', hl', rfl⟩ := goStructLit_inv hnest
      simp only [extraOf] at hl'
      have hr' : Schemas.resolveToType ss k f.ty = some o.ty := by rw [hty]; exact hr
      obtain ⟨l, gv, henc, hgv, hlk⟩ := goCtor_member hl hev hd hn hf hr' hsh
      have hgt : fieldGoTy (k + 1) ss f = if m.nullable then .ptr (.named p n) else .named p n := by
        subst hk'
        have h2 := hres k'
        simp [fieldGoTy, hty, Ty.isRef, h2, hoty, Ty.isConcrete, goTyOf]
      have hdS : declOf (k + 1) ss p n = .structD sfs false := by simp [declOf, hloc, hoty]
      obtain ⟨js, hjs, hjj⟩ : ∃ js, valJsonMembers kvs = some js ∧ j = .obj js := by
        have h1 : valJson (.map kvs) = some j := by
          simpa [declaredOf, hty, Ty.isConcrete, Ty.getMeta, hdv, Val.isNilV] using hj
        simp only [valJson] at h1
        cases hm : valJsonMembers kvs with
        | none => simp [hm] at h1
        | some js => simp [hm] at h1; exact ⟨js, rfl, h1.symm⟩
      subst hjj
      rw [hgt] at hgv
      rw [henc]
      cases hnull : m.nullable with
      | false =>
        simp only [hnull, Bool.false_eq_true, if_false] at hgv
        obtain ⟨l', rfl, hsub⟩ := struct_overrides_sub hl' hgv hdS hsn hkn hof hjs
        have hom' : (!f.required && isEmpty (GoVal.struct l')) = false := by simp [isEmpty]
        rw [hom'] at hlk
        exact holds_of_lookup hlk (by simp [goEncode, Json.sub, hsub])
      | true =>
        simp only [hnull, if_true] at hgv
        rw [evalExpr_addr] at hgv
        obtain ⟨gvS, hgvS, rfl⟩ := CRes.map_eq_ok.mp hgv
        obtain ⟨l', rfl, hsub⟩ := struct_overrides_sub hl' hgvS hdS hsn hkn hof hjs
        have hom' : (!f.required && isEmpty (GoVal.ptr (GoVal.struct l'))) = false := by simp [isEmpty]
        rw [hom'] at hlk
        exact holds_of_lookup hlk (by simp [goEncode, Json.sub, hsub])
  | _ => simp [hdv] at hfit

end top

/-! ### all value types together -/

/-- a field of a plain struct object whose default fits holds its declared value in the JSON of
    the object's constructor -/
theorem go_field_holds {fuel : Nat} {ss : Schemas} {pkg name : String} {o : Obj} {fs : List Field}
    {g : List Ty} {m : Meta} {v : GoVal} {f : Field} {j : Json}
    (hctor : goCtor fuel ss pkg name = .ok v) (hloc : Schemas.locateObject ss pkg name = some o)
    (hty : o.ty = .struct fs g none m) (hsp : o.selfPkg = pkg) (hsn : o.selfName = name)
    (hn : namesNodup fs = true) (hf : f ∈ fs) (hfit : goFits ss f = true) (hj : declaredOf f = some j) :
    holds (goEncode (.ptr v)) f.name j = true := by
  obtain ⟨k, lits, _, hl, hev, hd⟩ := goCtor_struct_inv hctor hloc hty hsp hsn
  cases hfty : f.ty with
  | scalar kind value cs fm => exact go_scalar_holds hl hev hd hn hf (by simp [hfty, Ty.isScalar]) hfit hj
  | array e fm => exact go_list_holds hl hev hd hn hf (by simp [hfty, Ty.isArray]) hfit hj
  | ref p n fm =>
    have hfit' := hfit
    unfold goFits at hfit'
    simp only [hfty, Bool.and_eq_true] at hfit'
    cases hlo : Schemas.locateObject ss p n with
    | none => simp [hlo] at hfit'
    | some o' =>
      cases hoty : o'.ty with
      | enum vs em => exact go_enum_holds hl hev hd hn hf hfty hlo hoty hfit hj
      | struct sfs sg gi sm =>
        cases gi with
        | none => exact go_struct_holds hl hev hd hn hf hfty hlo hoty hfit hj
        | some x => simp [hlo, hoty] at hfit'
      | _ => simp [hlo, hoty] at hfit'
  | _ => simp [goFits, hfty] at hfit

end Cog.Sem.Defaults
