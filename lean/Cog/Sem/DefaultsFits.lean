/-
  C10: what a post-chain IR field DECLARES (`declaredOf`), when a constructor's JSON HOLDS it
  (`holds`), and the decidable hypotheses of the `_partial` theorems: `goFits` / `pyFits` are
  syntactic conditions on the field's type and on the DYNAMIC type of its default value — per
  value type (bool, integer, float, string, enum member, list, struct with partial overrides) —
  under which the printed literal is well-typed and denotes the declared value.  They are exported
  to the driver (`godefaults … fits`) so that the check can tell which hypothesis excludes a
  failing member.
-/
import Cog.Sem.PyDefaults
namespace Cog.Sem.Defaults
open Cog.Sem Cog.IR

/-! ### the JSON a default value stands for -/

mutual
def valJson : Val → Option Json
  | .nil => some .null
  | .bool b => some (.bool b)
  | .int _ n => some (.num (n * 4))
  | .float _ r => (numQuarters r).map .num
  | .jnum s => (numQuarters s).map .num
  | .str s => some (.str s)
  | .list xs => (valJsonList xs).map .arr
  | .map kvs => (valJsonMembers kvs).map .obj
  | .other .. => none
def valJsonList : List Val → Option (List Json)
  | [] => some []
  | x :: xs =>
    match valJson x, valJsonList xs with
    | some j, some js => some (j :: js)
    | _, _ => none
def valJsonMembers : List (String × Val) → Option (List (String × Json))
  | [] => some []
  | (k, v) :: t =>
    match valJson v, valJsonMembers t with
    | some j, some js => some ((k, j) :: js)
    | _, _ => none
end

/-- the default or constant a field of the IR declares, as JSON -/
def declaredOf (f : Field) : Option Json :=
  if f.ty.isConcrete then valJson (scalarValue f.ty)
  else if !f.ty.getMeta.dflt.isNilV then valJson f.ty.getMeta.dflt
  else none

/-- the encoded constructor value holds `j` in member `name`: scalars and lists exactly, objects
    (struct defaults are partial overrides) by containment of the declared members -/
def holds (enc : Json) (name : String) (j : Json) : Bool :=
  match enc with
  | .obj ms =>
    match Json.lookup name ms with
    | some v => Json.sub j v
    | none => false
  | _ => false

def namesNodup : List Field → Bool
  | [] => true
  | f :: fs => (fieldByName f.name fs).isNone && namesNodup fs

def keysNodup : List (String × Val) → Bool
  | [] => true
  | (k, _) :: t => (lookupVal k t).isNone && keysNodup t

/-! ### Go: scalars -/

def quartersOf : Val → Option Int
  | .int _ n => some (n * 4)
  | .float _ r => numQuarters r
  | _ => none

/-- the dynamic type of `v` suits a Go field of scalar kind `kind` (not `any`, `bytes`, date-time) -/
def scalarFits (kind : String) (v : Val) : Bool :=
  if kind = "string" then (match v with | .str _ => true | _ => false)
  else if kind = "bool" then (match v with | .bool _ => true | _ => false)
  else match intRange kind with
    | some (lo, hi) =>
      (match quartersOf v with
       | some q => q % 4 = 0 && decide (lo ≤ q / 4) && decide (q / 4 ≤ hi)
       | none => false)
    | none =>
      if kind = "float32" ∨ kind = "float64" then (quartersOf v).isSome else false

/-- the encoded value is not dropped by `omitempty` -/
def valNonZero : Val → Bool
  | .bool b => b
  | .str s => s != ""
  | .int _ n => n != 0
  | .float _ r => (match numQuarters r with | some q => q != 0 | none => false)
  | .list xs => !xs.isEmpty
  | _ => false

def plainScalarTy : Ty → Option (String × Meta)
  | .scalar kind _ _ m =>
    if kind = "any" ∨ kind = "bytes" ∨ hasHint m "string_format_datetime" then none else some (kind, m)
  | _ => none

/-- a scalar-typed field holding `v` (its constant, its default, or an override) -/
def goScalarFieldFits (f : Field) (v : Val) : Bool :=
  match plainScalarTy f.ty with
  | some (kind, m) => scalarFits kind v && (f.required || m.nullable || valNonZero v)
  | none => false

def allStr : List Val → Bool
  | [] => true
  | .str _ :: t => allStr t
  | _ :: _ => false

def goMemberOk (m : EnumVal) : Bool :=
  match m.value with
  | .str _ => m.kind = "string"
  | .int _ n =>
    (match intRange m.kind with
     | some (lo, hi) => decide (lo ≤ n) && decide (n ≤ hi)
     | none => false)
  | _ => false

def overridesFit (sfs : List Field) : List (String × Val) → Bool
  | [] => true
  | (k, v) :: t =>
    (match fieldByName k sfs with
     | some g => goScalarFieldFits g v && !g.ty.isConcrete
     | none => false) && overridesFit sfs t

/-- hypothesis of `C10_go_partial` for one field of the post-Go-chain IR -/
def goFits (ss : Schemas) (f : Field) : Bool :=
  let m := f.ty.getMeta
  match f.ty with
  | .scalar _ value _ _ =>
    if f.ty.isConcrete then goScalarFieldFits f value
    else !m.dflt.isNilV && goScalarFieldFits f m.dflt
  | .array e _ =>
    (match plainScalarTy e with
     | some (kind, em) => kind = "string" && !em.nullable
     | none => false) &&
    (match m.dflt with
     | .list xs => allStr xs && (f.required || !xs.isEmpty)
     | _ => false)
  | .ref p n _ =>
    !m.dflt.isNilV &&
    (match Schemas.locateObject ss p n with
     | some o =>
       (match o.ty with
        | .enum vs _ =>
          (match pickMember m.dflt vs vs.head? with
           | some mem =>
             (match findMember mem.name vs with
              | some m' =>
                (Val.goEq m'.value m.dflt == some true) && goMemberOk m'
                && (Cog.Passes.cleanupNames (Cog.Passes.ucc mem.name) == mem.name)
                && (f.required || m.nullable || valNonZero m'.value)
              | none => false)
           | none => false)
        | .struct sfs _ none _ =>
          (match m.dflt with
           | .map kvs => keysNodup kvs && namesNodup sfs && overridesFit sfs kvs
           | _ => false)
        | _ => false)
     | none => false)
  | _ => false

/-! ### Python -/

def pyScalarVal? : Val → Bool
  | .str _ | .bool _ | .int .. => true
  | .float _ r => (numQuarters r).isSome
  | _ => false

def allPyScalar : List Val → Bool
  | [] => true
  | v :: t => pyScalarVal? v && allPyScalar t

/-- a value Python prints and evaluates to the JSON it stands for: a scalar or a list of scalars -/
def pyPlainVal : Val → Bool
  | .list xs => allPyScalar xs
  | v => pyScalarVal? v

def pyOverridesFit (sfs : List Field) : List (String × Val) → Bool
  | [] => true
  | (k, v) :: t =>
    (match fieldByName k sfs with
     | some g => !g.ty.isRef && !isCRef g.ty && !g.ty.isConcrete && pyPlainVal v
     | none => false) && pyOverridesFit sfs t

def pyMemberOk (m : EnumVal) : Bool :=
  match m.value with
  | .str _ | .int .. => true
  | .float _ r => (numQuarters r).isSome
  | _ => false

/-- hypothesis of `C10_py_partial` for one field of the post-Python-chain IR -/
def pyFits (ss : Schemas) (f : Field) : Bool :=
  let m := f.ty.getMeta
  match f.ty with
  | .scalar _ value _ _ =>
    -- (a LIST default on a scalar-typed member would be printed into the signature: one list
    -- shared by every instance)
    if f.ty.isConcrete then pyScalarVal? value else pyScalarVal? m.dflt
  | .array .. | .enum .. | .disj .. => pyPlainVal m.dflt
  | .ref p n _ =>
    !m.dflt.isNilV &&
    (match Schemas.locateObject ss p n with
     | some o =>
       (match o.ty with
        | .enum vs _ =>
          (match pickMember m.dflt vs vs.head? with
           | some mem =>
             (match findMember mem.name vs with
              | some m' => (Val.goEq m'.value m.dflt == some true) && pyMemberOk m'
              | none => false)
           | none => false)
        | .struct sfs _ _ _ =>
          (match m.dflt with
           | .map kvs => keysNodup kvs && namesNodup sfs && pyOverridesFit sfs kvs
           | _ => false)
        | _ => false)
     | none => false)
  | _ => false

/-! ### instance independence (Python): which defaults are evaluated once, at class definition -/

/-- expressions whose value is a mutable object -/
def pyMutableExpr : PyExpr → Bool
  | .list _ | .emptyList | .emptyDict | .call .. | .goMap => true
  | _ => false

/-- the printed default sits in the `__init__` signature (evaluated once when the class is defined)
    AND is mutable: every instance constructed without that argument shares it -/
def pySharedDefault : PyField → Bool
  | .plain e => pyMutableExpr e
  | _ => false

/-! ### reports for the driver -/

def fieldReport (fits : Field → Bool) (f : Field) : String :=
  f.name ++ ":" ++ (if (declaredOf f).isSome then "declared" else
                    if f.ty.isConcrete || !f.ty.getMeta.dflt.isNilV then "declared-not-json" else "none")
    ++ ":" ++ (if fits f then "fits" else "excluded")

def fitsReport (fits : Schemas → Field → Bool) (ss : Schemas) (pkg obj : String) : String :=
  match Schemas.locateObject ss pkg obj with
  | some o =>
    "ok nodup=" ++ toString (namesNodup (structFields o.ty)) ++ " " ++
      " ".intercalate ((structFields o.ty).map (fieldReport (fits ss)))
  | none => "no-object"

def goFitsReport (ss : Schemas) (pkg obj : String) : String := fitsReport goFits ss pkg obj
def pyFitsReport (ss : Schemas) (pkg obj : String) : String := fitsReport pyFits ss pkg obj

end Cog.Sem.Defaults
