/-
  C11 pass widening — model side (core Lean only; the driver evaluates `PlainPy`, `PlainPyS`).

  The fragment of the PRE-chain IR on which every document of the source-side language `srcDen`
  (Cog/Sem/SrcDen.lean) is proved to belong to `pyDen` (Cog/Sem/PyDen.lean) of the output of the
  REGENERATED Python chain.  `PlainPy S = PlainN S ∧ pyOK S`:

  * `PlainN`: plain types, two-branch `T | null` pairs, anonymous enums (they stay inline in the Python
    chain: no freshness condition); `PlainPyS` adds anonymous structs with fresh generated names;
  * `pyOK` mirrors the exclusions of `pyDen` at the SOURCE (each is a recorded C11 finding):
      - explicit `null` is only admitted where `from_json` passes the value through: `nullable` /
        `T | null` only on scalars and on arrays / maps of scalars (a nullable reference, array or map
        of non-scalars raises in `from_json`; a named array / map alias must not be nullable);
      - no member with a default (`__init__` emits the default for an absent member);
      - a constant member is required, not nullable, a string / bool / integer (an absent constant is
        emitted; float constants go through two different parsers in the two models).

  `pyS` is the exact output of the Python chain on `PlainN` (Cog/Sem/WidenPy.lean).
-/
import Cog.Sem.WidenNull
import Cog.Sem.SrcStruct
import Cog.Sem.PyDen
import Cog.Passes.RenameNumericEnumValues
namespace Cog.Sem.Src
open Cog.IR Cog.Passes

/-- types for which `pyDen` admits `null` (pass-through positions) -/
def nullSafe : Ty → Bool
  | .scalar .. => true
  | .array e _ => e.isScalar
  | .map _ v _ => v.isScalar
  | _ => false

def pyTy : Ty → Bool
  | .scalar .. => true
  | .ref _ _ m => !m.nullable
  | .array e m => pyTy e && ((nullOpt e).isScalar || !m.nullable)
  | .map _ v m => pyTy v && ((nullOpt v).isScalar || !m.nullable)
  | .enum .. => true
  | .disj bs _ _ =>
    match nullPairOf bs with
    | some t => nullSafe t
    | none => false
  | _ => false

def pyConst : Val → Bool
  | .str _ => true
  | .bool _ => true
  | .int _ _ => true
  | _ => false

def pyFieldTy (f : Field) : Bool :=
  pyTy f.ty && isNilVal (nullOpt f.ty).getMeta.dflt &&
  (match f.ty with
   | .scalar k v _ m =>
     isNilVal v || (f.required && !m.nullable && pyConst v && k != "bytes" && k != "any" &&
       !hasHint m "string_format_datetime")
   | t => (constOf (nullOpt t)).isNone)

def pyObjTy : Ty → Bool
  | .struct fs _ _ _ => fs.all pyFieldTy
  | .enum .. => true
  | .array e m => pyTy (.array e m) && !m.nullable
  | .map i v m => pyTy (.map i v m) && !m.nullable
  | t => pyTy t

def pyOK (S : Schemas) : Bool := S.all fun s => s.objects.all fun ko => pyObjTy ko.2.ty

/-- the fragment of `C11_pass_widening_partial` -/
def PlainPy (S : Schemas) : Bool := PlainN S && pyOK S

/-- … with anonymous structs -/
def PlainPyS (S : Schemas) : Bool := structFresh S && PlainPy (asnS S)

def rnS (S : Schemas) : Schemas := S.map RenameNumericEnumValues.processSchema

/-- the output of the Python chain on `PlainN` -/
def pyS (S : Schemas) : Schemas := rnS (nullOptS (nrS S))

end Cog.Sem.Src
