/-
  C10, Go side: inversion lemmas for the constructor model (`goFieldsLit`, `evalLits`, `assemble`,
  `encFields`) and the per-value-type lemmas (scalar literal, list of strings, enum member, struct
  with partial overrides) behind `C10_go_partial`.
-/
import Cog.Sem.DefaultsFits
namespace Cog.Sem.Defaults
open Cog.Sem Cog.IR GoVal

/-! ### results -/

theorem CRes.bind_eq_ok {α β} {x : CRes α} {f : α → CRes β} {b : β} :
    x.bind f = .ok b ↔ ∃ a, x = .ok a ∧ f a = .ok b := by
  cases x <;> simp [CRes.bind]

theorem CRes.map_eq_ok {α β} {x : CRes α} {f : α → β} {b : β} :
    x.map f = .ok b ↔ ∃ a, x = .ok a ∧ f a = b := by
  cases x <;> simp [CRes.map, CRes.bind]

/-! ### field lists -/

theorem fieldByName_none {name : String} : ∀ {fs : List Field}, fieldByName name fs = none →
    ∀ f ∈ fs, f.name ≠ name
  | [], _, f, hf => by cases hf
  | g :: rest, h, f, hf => by
    unfold fieldByName at h
    by_cases hg : g.name = name
    · simp [hg] at h
    · simp [hg] at h
      rcases List.mem_cons.mp hf with rfl | hm
      · exact hg
      · exact fieldByName_none h f hm

theorem fieldByName_of_mem : ∀ {fs : List Field}, namesNodup fs = true → ∀ f ∈ fs, fieldByName f.name fs = some f
  | [], _, f, hf => by cases hf
  | g :: rest, h, f, hf => by
    simp [namesNodup] at h
    rcases List.mem_cons.mp hf with rfl | hm
    · simp [fieldByName]
    · have hne : g.name ≠ f.name := fun e => by
        have := fieldByName_none h.1 f hm
        exact this e.symm
      simp [fieldByName, hne, fieldByName_of_mem h.2 f hm]

theorem fieldByName_name {name : String} : ∀ {fs : List Field} {f : Field}, fieldByName name fs = some f → f.name = name ∧ f ∈ fs
  | [], _, h => by simp [fieldByName] at h
  | g :: rest, f, h => by
    unfold fieldByName at h
    by_cases hg : g.name = name
    · simp [hg] at h; subst h; exact ⟨hg, List.mem_cons_self⟩
    · simp [hg] at h
      have := fieldByName_name h
      exact ⟨this.1, List.mem_cons_of_mem _ this.2⟩

/-! ### the loop of `defaultsForStruct` -/

def alookup {α} (k : String) : List (String × α) → Option α
  | [] => none
  | (k', v) :: t => if k' = k then some v else alookup k t

theorem alookup_none_of_keys {α} {k : String} : ∀ {l : List (String × α)}, (∀ kv ∈ l, kv.1 ≠ k) → alookup k l = none
  | [], _ => rfl
  | (k', v) :: t, h => by
    have h1 : k' ≠ k := h (k', v) List.mem_cons_self
    simp [alookup, h1]
    exact alookup_none_of_keys fun kv hkv => h kv (List.mem_cons_of_mem _ hkv)

section loop
variable {nested : String → String → List Field → Val → CRes GoExpr} {ss : Schemas} {fuel : Nat}
  {extra : List (String × Val)}

theorem goFieldsLit_keys : ∀ {fs : List Field} {lits : List (String × GoExpr)},
    goFieldsLit nested ss fuel extra fs = .ok lits → ∀ kv ∈ lits, ∃ f ∈ fs, f.name = kv.1
  | [], lits, h, kv, hkv => by simp [goFieldsLit] at h; subst h; cases hkv
  | f :: rest, lits, h, kv, hkv => by
    unfold goFieldsLit at h
    cases hr : Schemas.resolveToType ss fuel f.ty with
    | none => simp [hr] at h
    | some r =>
      simp only [hr] at h
      cases hl : goFieldLit nested extra f r with
      | skip =>
        simp only [hl] at h
        obtain ⟨g, hg, e⟩ := goFieldsLit_keys h kv hkv
        exact ⟨g, List.mem_cons_of_mem _ hg, e⟩
      | fail c => cases c <;> simp [hl] at h
      | lit e =>
        simp only [hl] at h
        obtain ⟨l, hl', rfl⟩ := CRes.map_eq_ok.mp h
        rcases List.mem_cons.mp hkv with rfl | hm
        · exact ⟨f, List.mem_cons_self, rfl⟩
        · obtain ⟨g, hg, e⟩ := goFieldsLit_keys hl' kv hm
          exact ⟨g, List.mem_cons_of_mem _ hg, e⟩

theorem goFieldsLit_lookup : ∀ {fs : List Field} {lits : List (String × GoExpr)},
    goFieldsLit nested ss fuel extra fs = .ok lits → namesNodup fs = true →
    ∀ f ∈ fs, ∀ r e, Schemas.resolveToType ss fuel f.ty = some r → goFieldLit nested extra f r = .lit e →
      alookup f.name lits = some e
  | [], _, _, _, f, hf => by cases hf
  | g :: rest, lits, h, hn, f, hf => by
    intro r e hr he
    simp [namesNodup] at hn
    unfold goFieldsLit at h
    rcases List.mem_cons.mp hf with rfl | hm
    · simp only [hr, he] at h
      obtain ⟨l, _, rfl⟩ := CRes.map_eq_ok.mp h
      simp [alookup]
    · have hne : g.name ≠ f.name := fun e => (fieldByName_none hn.1 f hm) e.symm
      cases hrg : Schemas.resolveToType ss fuel g.ty with
      | none => simp [hrg] at h
      | some rg =>
        simp only [hrg] at h
        cases hl : goFieldLit nested extra g rg with
        | skip => simp only [hl] at h; exact goFieldsLit_lookup h hn.2 f hm r e hr he
        | fail c => cases c <;> simp [hl] at h
        | lit eg =>
          simp only [hl] at h
          obtain ⟨l, hl', rfl⟩ := CRes.map_eq_ok.mp h
          simp [alookup, hne]
          exact goFieldsLit_lookup hl' hn.2 f hm r e hr he

end loop

/-! ### the struct literal: keyed elements, assembly, encoding -/

section lits
variable {ctor : String → String → CRes GoVal} {zero : Ty → CRes GoVal} {fuel : Nat} {ss : Schemas} {fs : List Field}

theorem evalLits_lookup : ∀ {lits : List (String × GoExpr)} {vals : List (String × GoVal)},
    evalLits ctor zero fuel ss fs lits = .ok vals → ∀ k e, alookup k lits = some e →
    ∃ f gv, fieldByName k fs = some f ∧ lookupGV k vals = some gv ∧
      evalExpr ctor zero fuel ss (fieldGoTy fuel ss f) e = .ok gv
  | [], _, _, k, e, hk => by simp [alookup] at hk
  | (k', e') :: rest, vals, h, k, e, hk => by
    unfold evalLits at h
    cases hf : fieldByName k' fs with
    | none => simp [hf] at h
    | some f' =>
      simp only [hf] at h
      obtain ⟨v', hv', h2⟩ := CRes.bind_eq_ok.mp h
      obtain ⟨vs, hvs, h3⟩ := CRes.bind_eq_ok.mp h2
      cases h3
      by_cases hkk : k' = k
      · subst hkk
        simp [alookup] at hk; subst hk
        exact ⟨f', v', hf, by simp [lookupGV], hv'⟩
      · simp [alookup, hkk] at hk
        obtain ⟨f, gv, h1, h2', h3'⟩ := evalLits_lookup hvs k e hk
        exact ⟨f, gv, h1, by simp [lookupGV, hkk, h2'], h3'⟩

theorem assemble_lookup_none {vals : List (String × GoVal)} {name : String} :
    ∀ {fs : List Field} {l : List (String × Bool × GoVal)}, assemble zero vals fs = .ok l →
    fieldByName name fs = none → Json.lookup name (encFields l) = none
  | [], l, h, _ => by simp [assemble] at h; subst h; simp [encFields, Json.lookup]
  | g :: rest, l, h, hn => by
    unfold assemble at h
    obtain ⟨v, _, h2⟩ := CRes.bind_eq_ok.mp h
    obtain ⟨l', hl', h3⟩ := CRes.bind_eq_ok.mp h2
    cases h3
    unfold fieldByName at hn
    by_cases hg : g.name = name
    · simp [hg] at hn
    · simp [hg] at hn
      have ih := assemble_lookup_none hl' hn
      unfold encFields
      by_cases ho : (!g.required && isEmpty v) = true
      · simp [ho, ih]
      · simp [ho, Json.lookup, hg, ih]

theorem assemble_lookup {vals : List (String × GoVal)} :
    ∀ {fs : List Field} {l : List (String × Bool × GoVal)}, assemble zero vals fs = .ok l →
    namesNodup fs = true → ∀ f ∈ fs, ∀ gv, lookupGV f.name vals = some gv →
    Json.lookup f.name (encFields l) = if (!f.required && isEmpty gv) = true then none else some (goEncode gv)
  | [], _, _, _, f, hf => by cases hf
  | g :: rest, l, h, hn, f, hf => by
    intro gv hgv
    simp [namesNodup] at hn
    unfold assemble at h
    obtain ⟨v, hv, h2⟩ := CRes.bind_eq_ok.mp h
    obtain ⟨l', hl', h3⟩ := CRes.bind_eq_ok.mp h2
    cases h3
    rcases List.mem_cons.mp hf with rfl | hm
    · simp [hgv] at hv; subst hv
      unfold encFields
      by_cases ho : (!f.required && isEmpty gv) = true
      · rw [if_pos ho, if_pos ho]; exact assemble_lookup_none hl' hn.1
      · rw [if_neg ho, if_neg ho]; simp [Json.lookup]
    · have hne : g.name ≠ f.name := fun e => (fieldByName_none hn.1 f hm) e.symm
      have ih := assemble_lookup hl' hn.2 f hm gv hgv
      unfold encFields
      by_cases ho : (!g.required && isEmpty v) = true
      · simp [ho, ih]
      · simp [ho, Json.lookup, hne, ih]

end lits

/-! ### flat JSON (no objects): containment is equality -/

mutual
def flat : Json → Bool
  | .obj _ => false
  | .arr xs => flatList xs
  | _ => true
def flatList : List Json → Bool
  | [] => true
  | x :: xs => flat x && flatList xs
end

mutual
theorem sub_refl_flat : ∀ j : Json, flat j = true → Json.sub j j = true
  | .null, _ => by simp [Json.sub]
  | .bool _, _ => by simp [Json.sub]
  | .num _, _ => by simp [Json.sub]
  | .str _, _ => by simp [Json.sub]
  | .arr xs, h => by simp [flat] at h; simp [Json.sub, subList_refl_flat xs h]
  | .obj _, h => by simp [flat] at h
theorem subList_refl_flat : ∀ xs : List Json, flatList xs = true → Json.subList xs xs = true
  | [], _ => by simp [Json.subList]
  | x :: xs, h => by
    simp [flatList] at h
    simp [Json.subList, sub_refl_flat x h.1, subList_refl_flat xs h.2]
end

/-! ### scalars -/

section scalars
variable {ctor : String → String → CRes GoVal} {zero : Ty → CRes GoVal} {fuel : Nat} {ss : Schemas}

theorem quarters_div_mul {q : Int} (h : q % 4 = 0) : q / 4 * 4 = q := by omega

/-- an untyped constant of a fitting dynamic type, printed by `formatScalar` and typed against the
    basic Go type of a scalar kind, denotes the JSON value of the default -/
theorem scalar_const {kind : String} {v : Val} {gv : GoVal} (hfit : scalarFits kind v = true)
    (hev : evalExpr ctor zero fuel ss (scalarBase kind false) (formatScalar v) = .ok gv) :
    scalarBase kind false ≠ .unknown ∧ ∃ j, valJson v = some j ∧ goEncode gv = j ∧ flat j = true ∧
      (valNonZero v = true → isEmpty gv = false) := by
  unfold scalarFits at hfit
  by_cases hs : kind = "string"
  · subst hs
    cases v <;> simp at hfit
    rename_i s
    simp [scalarBase, formatScalar, evalExpr, constTarget, strConst] at hev ⊢
    subst hev
    simp [valJson, goEncode, flat, valNonZero, isEmpty]
  · simp only [hs, if_false] at hfit
    by_cases hb : kind = "bool"
    · subst hb
      cases v <;> simp at hfit
      rename_i b
      simp [scalarBase, formatScalar, evalExpr, constTarget, boolConst] at hev ⊢
      subst hev
      simp [valJson, goEncode, flat, valNonZero, isEmpty]
    · simp only [hb, if_false] at hfit
      cases hr : intRange kind with
      | some range =>
        obtain ⟨lo, hi⟩ := range
        have hbase : scalarBase kind false = .int kind := by simp [scalarBase, hs, hb, hr]
        simp only [hr] at hfit
        rw [hbase] at hev ⊢
        refine ⟨by simp, ?_⟩
        cases v <;> simp [quartersOf] at hfit
        · -- int64 default
          rename_i t n
          obtain ⟨h1, h2⟩ := hfit
          simp [formatScalar, evalExpr, constTarget, intConst, hr, h1, h2] at hev
          subst hev
          refine ⟨_, rfl, by simp [goEncode], by simp [flat], ?_⟩
          simp [valNonZero, isEmpty]
        · -- float64 default (OpenAPI)
          rename_i t r
          cases hq : numQuarters r with
          | none => simp [hq] at hfit
          | some q =>
            simp [hq] at hfit
            obtain ⟨⟨h0, h1⟩, h2⟩ := hfit
            simp [formatScalar, evalExpr, constTarget, hq, floatConst, hr, h0, h1, h2] at hev
            subst hev
            refine ⟨.num q, by simp [valJson, hq], by simp [goEncode, quarters_div_mul h0], by simp [flat], ?_⟩
            simp [valNonZero, hq, isEmpty]
            intro hne h
            apply hne
            omega
      | none =>
        simp only [hr] at hfit
        by_cases hf : kind = "float32" ∨ kind = "float64"
        · have hbase : scalarBase kind false = .float kind := by simp [scalarBase, hs, hb, hr, hf]
          rw [hbase] at hev ⊢
          refine ⟨by simp, ?_⟩
          simp only [hf, if_true] at hfit
          cases v <;> simp [quartersOf] at hfit
          · rename_i t n
            simp [formatScalar, evalExpr, constTarget, intConst] at hev
            subst hev
            refine ⟨_, rfl, by simp [goEncode], by simp [flat], ?_⟩
            simp [valNonZero, isEmpty]
          · rename_i t r
            cases hq : numQuarters r with
            | none => simp [hq] at hfit
            | some q =>
              simp [formatScalar, evalExpr, constTarget, hq, floatConst] at hev
              subst hev
              refine ⟨.num q, by simp [valJson, hq], by simp [goEncode], by simp [flat], ?_⟩
              simp [valNonZero, hq, isEmpty]
        · simp [hf] at hfit

/-- a scalar-typed field (constant, default or override): the literal wrapped by
    `maybeValueAsPointer`, typed against the field's declared Go type, is kept by `omitempty` and
    encodes to the JSON of the value -/
theorem scalar_field {f : Field} {v : Val} {gv : GoVal} (hfit : goScalarFieldFits f v = true)
    (hev : evalExpr ctor zero fuel ss (fieldGoTy fuel ss f)
      (maybePtr (formatScalar v) f.ty.getMeta.nullable f.ty) = .ok gv) :
    (!f.required && isEmpty gv) = false ∧ ∃ j, valJson v = some j ∧ goEncode gv = j ∧ flat j = true := by
  unfold goScalarFieldFits at hfit
  cases hty : f.ty with
  | scalar kind value cs m =>
    simp only [hty, plainScalarTy] at hfit
    by_cases hk : kind = "any" ∨ kind = "bytes" ∨ hasHint m "string_format_datetime" = true
    · simp [hk] at hfit
    · simp only [hk, if_false, Bool.and_eq_true] at hfit
      obtain ⟨hsf, hom⟩ := hfit
      have hk' : kind ≠ "any" ∧ kind ≠ "bytes" ∧ hasHint m "string_format_datetime" = false := by
        refine ⟨fun e => hk (Or.inl e), fun e => hk (Or.inr (Or.inl e)), ?_⟩
        cases hh : hasHint m "string_format_datetime" with
        | false => rfl
        | true => exact absurd (Or.inr (Or.inr hh)) hk
      have hgt : fieldGoTy fuel ss f = if m.nullable then .ptr (scalarBase kind false) else scalarBase kind false := by
        simp [fieldGoTy, hty, Ty.isRef, goTyOf, hk'.1, hk'.2.1, hk'.2.2]
      have hnn : goTyOf (nonNullable (.scalar kind value cs m)) = scalarBase kind false := by
        have hh : hasHint { m with nullable := false } "string_format_datetime" = false := by
          have := hk'.2.2
          simpa [hasHint] using this
        simp [nonNullable, Ty.setMeta, Ty.getMeta, goTyOf, hk'.1, hk'.2.1, hh]
      rw [hgt, hty] at hev
      simp only [Ty.getMeta] at hev
      cases hnull : m.nullable with
      | false =>
        simp [hnull, maybePtr] at hev
        obtain ⟨_, j, h1, h2, h3, h4⟩ := scalar_const hsf hev
        refine ⟨?_, j, h1, h2, h3⟩
        simp [hnull] at hom
        rcases hom with hr | hz
        · simp [hr]
        · simp [h4 hz]
      | true =>
        simp only [hnull, maybePtr, Ty.isArray, Ty.isMap, hnn] at hev
        simp at hev
        have hbase : scalarBase kind false ≠ .unknown := by
          intro e
          rw [e] at hev
          simp [evalExpr] at hev
        simp [evalExpr, hbase] at hev
        obtain ⟨gv', hgv', rfl⟩ := CRes.map_eq_ok.mp hev
        obtain ⟨_, j, h1, h2, h3, _⟩ := scalar_const hsf hgv'
        exact ⟨by simp [isEmpty], j, h1, by simpa [goEncode] using h2, h3⟩
  | _ => simp [hty, plainScalarTy] at hfit

end scalars

/-! ### what the loop body prints, per value type -/

theorem resolve_nonref {ss : Schemas} {fuel : Nat} {t r : Ty} (h : Schemas.resolveToType ss fuel t = some r)
    (hn : t.isRef = false) : r = t := by
  cases fuel with
  | zero => simp [Schemas.resolveToType] at h
  | succ k =>
    cases t <;> simp [Ty.isRef] at hn <;> simp [Schemas.resolveToType] at h <;> exact h.symm

theorem scalarFits_nonnil {kind : String} {v : Val} (h : scalarFits kind v = true) : v.isNilV = false := by
  cases v <;> simp [Val.isNilV]
  unfold scalarFits at h
  by_cases hs : kind = "string"
  · simp [hs] at h
  · by_cases hb : kind = "bool"
    · simp [hb] at h
    · cases hr : intRange kind with
      | some r => simp [hs, hb, hr, quartersOf] at h
      | none => simp [hs, hb, hr, quartersOf] at h

theorem goScalarFieldFits_scalar {f : Field} {v : Val} (h : goScalarFieldFits f v = true) :
    f.ty.isScalar = true ∧ f.ty.isRef = false ∧ v.isNilV = false := by
  unfold goScalarFieldFits at h
  cases hty : f.ty <;> simp [hty, plainScalarTy] at h
  rename_i kind value cs m
  by_cases hk : kind = "any" ∨ kind = "bytes" ∨ hasHint m "string_format_datetime" = true
  · simp [hk] at h
  · simp [hk] at h
    exact ⟨by simp [Ty.isScalar], by simp [Ty.isRef], scalarFits_nonnil h.1⟩

section body
variable {nested : String → String → List Field → Val → CRes GoExpr}

/-- a scalar member named by the struct default of its parent (`extraDefaults[field.Name]`) -/
theorem goFieldLit_override {extra : List (String × Val)} {f : Field} {ev : Val}
    (hl : lookupVal f.name extra = some ev) (hfit : goScalarFieldFits f ev = true) :
    goFieldLit nested extra f f.ty = .lit (maybePtr (formatScalar ev) f.ty.getMeta.nullable f.ty) := by
  obtain ⟨_, hnr, hnn⟩ := goScalarFieldFits_scalar hfit
  unfold goFieldLit
  have hne : needsExplicit f f.ty extra = true := by simp [needsExplicit, hl, hnn]
  simp [hne, hl, hnr]

/-- a scalar member declaring a constant or a default of its own -/
theorem goFieldLit_scalar {extra : List (String × Val)} {f : Field} (hl : lookupVal f.name extra = none)
    (hs : f.ty.isScalar = true) :
    (f.ty.isConcrete = true →
      goFieldLit nested extra f f.ty = .lit (maybePtr (formatScalar (scalarValue f.ty)) f.ty.getMeta.nullable f.ty)) ∧
    (f.ty.isConcrete = false → f.ty.getMeta.dflt.isNilV = false →
      goFieldLit nested extra f f.ty = .lit (maybePtr (formatScalar f.ty.getMeta.dflt) f.ty.getMeta.nullable f.ty)) := by
  constructor
  · intro hc
    unfold goFieldLit
    have hne : needsExplicit f f.ty extra = true := by simp [needsExplicit, hc]
    simp [hne, hl, hc]
  · intro hc hd
    unfold goFieldLit
    have hne : needsExplicit f f.ty extra = true := by simp [needsExplicit, hd]
    simp [hne, hl, hc, hs, hd]

end body

/-! ### inversion of the constructor -/

section inv
variable {ctor : String → String → CRes GoVal} {zero : Ty → CRes GoVal} {fuel : Nat} {ss : Schemas}

theorem evalStructLit_inv {p n : String} {lits : List (String × GoExpr)} {v : GoVal} {fs : List Field}
    (hev : evalExpr ctor zero fuel ss (.named p n) (.structLit p n lits) = .ok v)
    (hd : declOf fuel ss p n = .structD fs false) :
    ∃ vals l, evalLits ctor zero fuel ss fs lits = .ok vals ∧ assemble zero vals fs = .ok l ∧ v = .struct l := by
  simp [evalExpr, hd] at hev
  obtain ⟨vals, hvals, h2⟩ := CRes.bind_eq_ok.mp hev
  obtain ⟨l, hl, h3⟩ := CRes.map_eq_ok.mp h2
  exact ⟨vals, l, hvals, hl, h3.symm⟩

/-- one keyed element of an evaluated struct literal: its value and where it ends up in the JSON -/
theorem structLit_member {p n : String} {lits : List (String × GoExpr)} {v : GoVal} {fs : List Field}
    {f : Field} {e : GoExpr}
    (hev : evalExpr ctor zero fuel ss (.named p n) (.structLit p n lits) = .ok v)
    (hd : declOf fuel ss p n = .structD fs false) (hn : namesNodup fs = true) (hf : f ∈ fs)
    (hl : alookup f.name lits = some e) :
    ∃ l gv, v = .struct l ∧ evalExpr ctor zero fuel ss (fieldGoTy fuel ss f) e = .ok gv ∧
      Json.lookup f.name (encFields l) =
        if (!f.required && isEmpty gv) = true then none else some (goEncode gv) := by
  obtain ⟨vals, l, hvals, hasm, rfl⟩ := evalStructLit_inv hev hd
  obtain ⟨f', gv, hf', hgv, hevf⟩ := evalLits_lookup hvals f.name e hl
  rw [fieldByName_of_mem hn f hf] at hf'
  cases hf'
  exact ⟨l, gv, rfl, hevf, assemble_lookup hasm hn f hf gv hgv⟩

theorem goStructLit_inv {k : Nat} {p n : String} {fs : List Field} {extra : Val} {lit : GoExpr}
    (h : goStructLit k ss p n fs extra = .ok lit) :
    ∃ k' lits, k = k' + 1 ∧ goFieldsLit (goStructLit k' ss) ss k' (extraOf extra) fs = .ok lits ∧
      lit = .structLit p n lits := by
  cases k with
  | zero => simp [goStructLit] at h
  | succ k' =>
    simp only [goStructLit] at h
    obtain ⟨lits, hl, rfl⟩ := CRes.map_eq_ok.mp h
    exact ⟨k', lits, rfl, hl, rfl⟩

theorem goFieldsLit_resolves {nested : String → String → List Field → Val → CRes GoExpr}
    {extra : List (String × Val)} : ∀ {fs : List Field} {lits : List (String × GoExpr)},
    goFieldsLit nested ss fuel extra fs = .ok lits → ∀ f ∈ fs, ∃ r, Schemas.resolveToType ss fuel f.ty = some r ∧
      ∀ c, goFieldLit nested extra f r ≠ .fail c
  | [], _, _, f, hf => by cases hf
  | g :: rest, lits, h, f, hf => by
    unfold goFieldsLit at h
    cases hrg : Schemas.resolveToType ss fuel g.ty with
    | none => simp [hrg] at h
    | some rg =>
      simp only [hrg] at h
      have hrest : ∃ l, goFieldsLit nested ss fuel extra rest = .ok l ∧ ∀ c, goFieldLit nested extra g rg ≠ .fail c := by
        cases hl : goFieldLit nested extra g rg with
        | skip => simp only [hl] at h; exact ⟨_, h, by simp⟩
        | fail c => cases c <;> simp [hl] at h
        | lit e =>
          simp only [hl] at h
          obtain ⟨l, hl', _⟩ := CRes.map_eq_ok.mp h
          exact ⟨l, hl', by simp⟩
      obtain ⟨l, hl, hnf⟩ := hrest
      rcases List.mem_cons.mp hf with rfl | hm
      · exact ⟨rg, hrg, hnf⟩
      · exact goFieldsLit_resolves hl f hm

end inv

/-! ### containment of a struct default in the encoded struct -/

theorem subMembers_of_forall : ∀ {js ms' : List (String × Json)},
    (∀ kj ∈ js, ∃ v', Json.lookup kj.1 ms' = some v' ∧ Json.sub kj.2 v' = true) → Json.subMembers js ms' = true
  | [], _, _ => by simp [Json.subMembers]
  | (k, jv) :: t, ms', h => by
    obtain ⟨v', h1, h2⟩ := h (k, jv) List.mem_cons_self
    have ih := subMembers_of_forall (js := t) (ms' := ms') fun kj hkj => h kj (List.mem_cons_of_mem _ hkj)
    simp [Json.subMembers, h1, h2, ih]

theorem valJsonMembers_mem : ∀ {kvs : List (String × Val)} {js : List (String × Json)},
    valJsonMembers kvs = some js → ∀ kj ∈ js, ∃ v, (kj.1, v) ∈ kvs ∧ valJson v = some kj.2
  | [], js, h, kj, hkj => by simp [valJsonMembers] at h; subst h; cases hkj
  | (k, v) :: t, js, h, kj, hkj => by
    unfold valJsonMembers at h
    cases hv : valJson v with
    | none => simp [hv] at h
    | some j =>
      cases ht : valJsonMembers t with
      | none => simp [hv, ht] at h
      | some js' =>
        simp [hv, ht] at h
        subst h
        rcases List.mem_cons.mp hkj with rfl | hm
        · exact ⟨v, List.mem_cons_self, hv⟩
        · obtain ⟨v', h1, h2⟩ := valJsonMembers_mem ht kj hm
          exact ⟨v', List.mem_cons_of_mem _ h1, h2⟩

theorem lookupVal_none {k : String} : ∀ {kvs : List (String × Val)}, lookupVal k kvs = none → ∀ kv ∈ kvs, kv.1 ≠ k
  | [], _, kv, h => by cases h
  | (k', v') :: t, h, kv, hkv => by
    unfold lookupVal at h
    by_cases hk : k' = k
    · simp [hk] at h
    · simp [hk] at h
      rcases List.mem_cons.mp hkv with rfl | hm
      · exact hk
      · exact lookupVal_none h kv hm

theorem lookupVal_of_mem : ∀ {kvs : List (String × Val)}, keysNodup kvs = true → ∀ kv ∈ kvs, lookupVal kv.1 kvs = some kv.2
  | [], _, kv, h => by cases h
  | (k', v') :: t, hn, kv, hkv => by
    simp [keysNodup] at hn
    rcases List.mem_cons.mp hkv with rfl | hm
    · simp [lookupVal]
    · have hne : k' ≠ kv.1 := fun e => (lookupVal_none hn.1 kv hm) e.symm
      simp [lookupVal, hne, lookupVal_of_mem hn.2 kv hm]

theorem overridesFit_mem {sfs : List Field} : ∀ {kvs : List (String × Val)}, overridesFit sfs kvs = true →
    ∀ kv ∈ kvs, ∃ g, fieldByName kv.1 sfs = some g ∧ goScalarFieldFits g kv.2 = true ∧ g.ty.isConcrete = false
  | [], _, kv, h => by cases h
  | (k, v) :: t, h, kv, hkv => by
    unfold overridesFit at h
    simp only [Bool.and_eq_true] at h
    rcases List.mem_cons.mp hkv with rfl | hm
    · cases hg : fieldByName k sfs with
      | none => simp [hg] at h
      | some g => simp [hg] at h; exact ⟨g, rfl, h.1.1, h.1.2⟩
    · exact overridesFit_mem h.2 kv hm

end Cog.Sem.Defaults
