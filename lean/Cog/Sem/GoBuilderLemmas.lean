/-
  Helper lemmas about the model of generated Go builders (`Cog.Sem.GB`): the lens laws of
  `get` / `upd`, the frame of an assignment (which top-level members it can change) and what it
  stores at its target.  Used by Props/C09.lean and Props/C14.lean.
-/
import Cog.Sem.GoBuilder
namespace Cog.Sem.GB
open Cog.IR Cog.Builder

/-! ### BRes -/

theorem BRes.bind_eq_ok {α β} {x : BRes α} {f : α → BRes β} {b : β} :
    x.bind f = .ok b ↔ ∃ a, x = .ok a ∧ f a = .ok b := by
  cases x <;> simp [BRes.bind]

theorem BRes.map_eq_ok {α β} {x : BRes α} {f : α → β} {b : β} :
    x.map f = .ok b ↔ ∃ a, x = .ok a ∧ f a = b := by
  cases x <;> simp [BRes.map, BRes.bind]

/-! ### top-level members of a struct value -/

/-- the member `n` of a struct / union value (what `builder.internal.<n>` reads) -/
def topGet (n : String) : GoVal → Option GoVal
  | .struct fs => getFld n fs
  | .union bs => getBr n bs
  | _ => none

/-- same Go type shape at the top: both plain structs or both unions (or neither) -/
def sameTop : GoVal → GoVal → Prop
  | .struct _, .struct _ => True
  | .union _, .union _ => True
  | .struct _, _ => False
  | .union _, _ => False
  | _, .struct _ => False
  | _, .union _ => False
  | _, _ => True

theorem sameTop_refl (v : GoVal) : sameTop v v := by cases v <;> simp [sameTop]

theorem sameTop_trans {a b c : GoVal} (h1 : sameTop a b) (h2 : sameTop b c) : sameTop a c := by
  cases a <;> cases b <;> cases c <;> simp_all [sameTop]

theorem getFld_updFld_ne {n m : String} (hne : n ≠ m) {g : GoVal → BRes GoVal} :
    ∀ {fs fs' : Fields}, updFld m g fs = .ok fs' → getFld n fs' = getFld n fs
  | [], fs', h => by simp [updFld] at h
  | (k, om, v) :: t, fs', h => by
    unfold updFld at h
    by_cases hk : k = m
    · simp only [hk, if_true] at h
      obtain ⟨v', _, rfl⟩ := BRes.map_eq_ok.mp h
      have : ¬ m = n := fun e => hne e.symm
      simp [getFld, hk, this]
    · simp only [hk, if_false] at h
      obtain ⟨t', ht, rfl⟩ := BRes.map_eq_ok.mp h
      simp [getFld, getFld_updFld_ne hne ht]

theorem getBr_updBr_ne {n m : String} (hne : n ≠ m) {g : GoVal → BRes GoVal} :
    ∀ {bs bs' : List (String × GoVal)}, updBr m g bs = .ok bs' → getBr n bs' = getBr n bs
  | [], bs', h => by simp [updBr] at h
  | (k, v) :: t, bs', h => by
    unfold updBr at h
    by_cases hk : k = m
    · simp only [hk, if_true] at h
      obtain ⟨v', _, rfl⟩ := BRes.map_eq_ok.mp h
      have : ¬ m = n := fun e => hne e.symm
      simp [getBr, hk, this]
    · simp only [hk, if_false] at h
      obtain ⟨t', ht, rfl⟩ := BRes.map_eq_ok.mp h
      simp [getBr, getBr_updBr_ne hne ht]

theorem getFld_updFld_same {m : String} {g : GoVal → BRes GoVal} :
    ∀ {fs fs' : Fields}, updFld m g fs = .ok fs' →
      ∃ old x, getFld m fs = some old ∧ g old = .ok x ∧ getFld m fs' = some x
  | [], fs', h => by simp [updFld] at h
  | (k, om, v) :: t, fs', h => by
    unfold updFld at h
    by_cases hk : k = m
    · simp only [hk, if_true] at h
      obtain ⟨v', hv, rfl⟩ := BRes.map_eq_ok.mp h
      exact ⟨v, v', by simp [getFld, hk], hv, by simp [getFld]⟩
    · simp only [hk, if_false] at h
      obtain ⟨t', ht, rfl⟩ := BRes.map_eq_ok.mp h
      obtain ⟨old, x, h1, h2, h3⟩ := getFld_updFld_same ht
      exact ⟨old, x, by simp [getFld, hk, h1], h2, by simp [getFld, hk, h3]⟩

theorem getBr_updBr_same {m : String} {g : GoVal → BRes GoVal} :
    ∀ {bs bs' : List (String × GoVal)}, updBr m g bs = .ok bs' →
      ∃ old x, getBr m bs = some old ∧ g old = .ok x ∧ getBr m bs' = some x
  | [], bs', h => by simp [updBr] at h
  | (k, v) :: t, bs', h => by
    unfold updBr at h
    by_cases hk : k = m
    · simp only [hk, if_true] at h
      obtain ⟨v', hv, rfl⟩ := BRes.map_eq_ok.mp h
      exact ⟨v, v', by simp [getBr, hk], hv, by simp [getBr]⟩
    · simp only [hk, if_false] at h
      obtain ⟨t', ht, rfl⟩ := BRes.map_eq_ok.mp h
      obtain ⟨old, x, h1, h2, h3⟩ := getBr_updBr_same ht
      exact ⟨old, x, by simp [getBr, hk, h1], h2, by simp [getBr, hk, h3]⟩

/-! ### frame of `upd`: an update below member `m` leaves every other member alone -/

theorem upd_fld_frame {n m : String} (hne : n ≠ m) {rest : List Step} {g : GoVal → BRes GoVal}
    {v v' : GoVal} (h : upd (.fld m :: rest) g v = .ok v') :
    topGet n v' = topGet n v ∧ sameTop v v' := by
  unfold upd at h
  cases v with
  | struct fs =>
    obtain ⟨fs', hfs, rfl⟩ := BRes.map_eq_ok.mp h
    exact ⟨by simp [topGet, getFld_updFld_ne hne hfs], by simp [sameTop]⟩
  | union bs =>
    obtain ⟨bs', hbs, rfl⟩ := BRes.map_eq_ok.mp h
    exact ⟨by simp [topGet, getBr_updBr_ne hne hbs], by simp [sameTop]⟩
  | ptr p =>
    cases p with
    | struct fs =>
      obtain ⟨fs', _, rfl⟩ := BRes.map_eq_ok.mp h
      exact ⟨by simp [topGet], by simp [sameTop]⟩
    | union bs =>
      obtain ⟨bs', _, rfl⟩ := BRes.map_eq_ok.mp h
      exact ⟨by simp [topGet], by simp [sameTop]⟩
    | _ => simp at h
  | _ => simp at h

/-- an update through a key selector never succeeds on a struct / union value -/
theorem upd_key_top {k : Key} {rest : List Step} {g : GoVal → BRes GoVal} {v v' : GoVal}
    (h : upd (.key k :: rest) g v = .ok v') (n : String) : topGet n v' = topGet n v ∧ sameTop v v' := by
  cases k with
  | s k =>
    unfold upd at h
    cases v with
    | gomap kvs =>
      obtain ⟨x, _, rfl⟩ := BRes.map_eq_ok.mp h
      exact ⟨by simp [topGet], by simp [sameTop]⟩
    | _ => simp at h
  | i k =>
    unfold upd at h
    cases v with
    | slice vs =>
      simp only at h
      split at h
      · simp at h
      · split at h
        · obtain ⟨x, _, rfl⟩ := BRes.map_eq_ok.mp h
          exact ⟨by simp [topGet], by simp [sameTop]⟩
        · simp at h
    | _ => simp at h

/-- first selector of a list of steps, as a member name -/
def headName : List Step → Option String
  | .fld m :: _ => some m
  | _ => none

theorem upd_frame {n : String} {steps : List Step} (hne : steps ≠ []) (hn : headName steps ≠ some n)
    {g : GoVal → BRes GoVal} {v v' : GoVal} (h : upd steps g v = .ok v') :
    topGet n v' = topGet n v ∧ sameTop v v' := by
  cases steps with
  | nil => exact absurd rfl hne
  | cons s rest =>
    cases s with
    | fld m =>
      have : n ≠ m := fun e => hn (by simp [headName, e])
      exact upd_fld_frame this h
    | key k => exact upd_key_top h n

/-! ### what `upd` stores: reading the updated component yields the new value -/

theorem rget_rset_same {V : Type} (k : String) (x : V) : ∀ kvs : List (String × V),
    Cog.OMap.rget k (Cog.OMap.rset k x kvs) = some x
  | [] => by simp [Cog.OMap.rset, Cog.OMap.rget]
  | (k', v) :: t => by
    by_cases h : k' = k
    · simp [Cog.OMap.rset, Cog.OMap.rget, h]
    · simp [Cog.OMap.rset, Cog.OMap.rget, h, rget_rset_same k x t]

theorem listSet_get (x : GoVal) : ∀ (vs : List GoVal) (i : Nat) (y : GoVal), vs[i]? = some y →
    (listSet vs i x)[i]? = some x
  | [], _, _, h => by simp at h
  | _ :: _, 0, _, _ => by simp [listSet]
  | _ :: t, i + 1, y, h => by
    simp only [List.getElem?_cons_succ] at h
    simp [listSet, listSet_get x t i y h]

/-- `get` after `upd` at the same selectors: the component holds `g old` -/
theorem get_upd_same : ∀ {steps : List Step} {g : GoVal → BRes GoVal} {v v' : GoVal},
    upd steps g v = .ok v' → ∃ old x, get steps v = .ok old ∧ g old = .ok x ∧ get steps v' = .ok x
  | [], g, v, v', h => ⟨v, v', by simp [get], by simpa [upd] using h, by simp [get]⟩
  | .fld m :: rest, g, v, v', h => by
    unfold upd at h
    cases v with
    | struct fs =>
      obtain ⟨fs', hfs, rfl⟩ := BRes.map_eq_ok.mp h
      obtain ⟨o1, x1, h1, h2, h3⟩ := getFld_updFld_same hfs
      obtain ⟨old, x, h4, h5, h6⟩ := get_upd_same h2
      exact ⟨old, x, by simp [get, getStep, h1, BRes.bind, h4], h5, by simp [get, getStep, h3, BRes.bind, h6]⟩
    | union bs =>
      obtain ⟨bs', hbs, rfl⟩ := BRes.map_eq_ok.mp h
      obtain ⟨o1, x1, h1, h2, h3⟩ := getBr_updBr_same hbs
      obtain ⟨old, x, h4, h5, h6⟩ := get_upd_same h2
      exact ⟨old, x, by simp [get, getStep, h1, BRes.bind, h4], h5, by simp [get, getStep, h3, BRes.bind, h6]⟩
    | ptr p =>
      cases p with
      | struct fs =>
        obtain ⟨fs', hfs, rfl⟩ := BRes.map_eq_ok.mp h
        obtain ⟨o1, x1, h1, h2, h3⟩ := getFld_updFld_same hfs
        obtain ⟨old, x, h4, h5, h6⟩ := get_upd_same h2
        exact ⟨old, x, by simp [get, getStep, h1, BRes.bind, h4], h5, by simp [get, getStep, h3, BRes.bind, h6]⟩
      | union bs =>
        obtain ⟨bs', hbs, rfl⟩ := BRes.map_eq_ok.mp h
        obtain ⟨o1, x1, h1, h2, h3⟩ := getBr_updBr_same hbs
        obtain ⟨old, x, h4, h5, h6⟩ := get_upd_same h2
        exact ⟨old, x, by simp [get, getStep, h1, BRes.bind, h4], h5, by simp [get, getStep, h3, BRes.bind, h6]⟩
      | _ => simp at h
    | _ => simp at h
  | .key (.s k) :: rest, g, v, v', h => by
    unfold upd at h
    cases v with
    | gomap kvs =>
      obtain ⟨y, hy, rfl⟩ := BRes.map_eq_ok.mp h
      obtain ⟨old, x, h4, h5, h6⟩ := get_upd_same hy
      exact ⟨old, x, by simp [get, getStep, BRes.bind, h4], h5,
        by simp [get, getStep, BRes.bind, rget_rset_same, h6]⟩
    | _ => simp at h
  | .key (.i n) :: rest, g, v, v', h => by
    unfold upd at h
    cases v with
    | slice vs =>
      simp only at h
      split at h
      · simp at h
      · rename_i hn
        split at h
        · rename_i y hy
          obtain ⟨z, hz, rfl⟩ := BRes.map_eq_ok.mp h
          obtain ⟨old, x, h4, h5, h6⟩ := get_upd_same hz
          exact ⟨old, x, by simp [get, getStep, hn, hy, BRes.bind, h4], h5,
            by simp [get, getStep, hn, listSet_get z vs n.toNat y hy, BRes.bind, h6]⟩
        · simp at h
    | _ => simp at h

/-! ### reading below a member only depends on that member -/

theorem get_fld_congr {m : String} {rest : List Step} {v v' : GoVal}
    (hs : sameTop v v') (ht : topGet m v' = topGet m v)
    (hv : (∃ fs, v = .struct fs) ∨ (∃ bs, v = .union bs)) :
    get (.fld m :: rest) v' = get (.fld m :: rest) v := by
  rcases hv with ⟨fs, rfl⟩ | ⟨bs, rfl⟩
  · cases v' <;> simp [sameTop] at hs
    simp only [topGet] at ht
    simp [get, getStep, ht]
  · cases v' <;> simp [sameTop] at hs
    simp only [topGet] at ht
    simp [get, getStep, ht]


/-! ### the member a path starts at -/

/-- the member of `builder.internal` a path starts at (none: the path starts with an index) -/
def pathHead : Builder.Path → Option String
  | [] => none
  | it :: _ => if it.identifier = "" then none else some it.identifier

theorem headName_append_fld (m : String) (r : List Step) : headName ([.fld m] ++ r) = some m := rfl

theorem stepsOf_head {env : Env} {first : Bool} {p : Builder.Path} {steps : List Step} {m : String}
    (h : stepsOf env first p = .ok steps) (hm : headName steps = some m) : pathHead p = some m := by
  cases p with
  | nil => simp [stepsOf] at h; subst h; simp [headName] at hm
  | cons it rest =>
    unfold stepsOf at h
    split at h
    · simp at h
    · split at h
      · simp at h
      · simp only at h
        cases hix : it.index with
        | none =>
          rw [hix] at h
          simp only at h
          split at h
          · simp at h
          · rename_i hid
            obtain ⟨r, _, rfl⟩ := BRes.map_eq_ok.mp h
            simp [headName] at hm
            subst hm
            simp [pathHead, hid]
        | some ix =>
          rw [hix] at h
          simp only at h
          split at h
          · simp at h
          · obtain ⟨k, _, h2⟩ := BRes.bind_eq_ok.mp h
            obtain ⟨r, _, rfl⟩ := BRes.map_eq_ok.mp h2
            by_cases hid : it.identifier = ""
            · simp [hid, headName] at hm
            · simp [hid, headName] at hm
              subst hm
              simp [pathHead, hid]

theorem lvalue_ok {env : Env} {p : Builder.Path} {steps : List Step} (h : lvalue env p = .ok steps) :
    steps ≠ [] ∧ ∀ m, headName steps = some m → pathHead p = some m := by
  unfold lvalue at h
  obtain ⟨s, hs, h2⟩ := BRes.bind_eq_ok.mp h
  split at h2
  · simp at h2
  · rename_i hne
    simp at h2
    subst h2
    exact ⟨by intro e; simp [e] at hne, fun m hm => stepsOf_head hs hm⟩

/-- does the assignment (its target or one of its nil checks) start at member `n`? -/
def touches (n : String) (a : Assignment) : Bool :=
  pathHead a.path == some n || a.nilChecks.any fun nc => pathHead nc.path == some n

def touchesAny (n : String) (as : List Assignment) : Bool := as.any (touches n)

/-! ### frame of nil checks, assignments, options, call sequences -/

theorem nilCheck_frame {c : Ctx} {env : Env} {nc : NilCheck} {n : String} {v v' : GoVal}
    (hn : pathHead nc.path ≠ some n) (h : nilCheck c env nc v = .ok v') :
    topGet n v' = topGet n v ∧ sameTop v v' := by
  unfold nilCheck at h
  obtain ⟨steps, hs, h2⟩ := BRes.bind_eq_ok.mp h
  obtain ⟨cur, _, h3⟩ := BRes.bind_eq_ok.mp h2
  obtain ⟨hne, hh⟩ := lvalue_ok hs
  split at h3
  · obtain ⟨e, _, h4⟩ := BRes.bind_eq_ok.mp h3
    exact upd_frame hne (fun e => hn (hh n e)) h4
  · simp at h3; subst h3; exact ⟨rfl, sameTop_refl _⟩

theorem nilChecks_frame {c : Ctx} {env : Env} {n : String} :
    ∀ {ncs : List NilCheck} {v v' : GoVal}, (∀ nc ∈ ncs, pathHead nc.path ≠ some n) →
      nilChecks c env ncs v = .ok v' → topGet n v' = topGet n v ∧ sameTop v v'
  | [], v, v', _, h => by simp [nilChecks] at h; subst h; exact ⟨rfl, sameTop_refl _⟩
  | nc :: rest, v, v', hn, h => by
    unfold nilChecks at h
    obtain ⟨v1, h1, h2⟩ := BRes.bind_eq_ok.mp h
    have f1 := nilCheck_frame (hn nc (by simp)) h1
    have f2 := nilChecks_frame (fun x hx => hn x (by simp [hx])) h2
    exact ⟨f2.1.trans f1.1, sameTop_trans f1.2 f2.2⟩

theorem touches_false {n : String} {a : Assignment} (h : touches n a = false) :
    pathHead a.path ≠ some n ∧ ∀ nc ∈ a.nilChecks, pathHead nc.path ≠ some n := by
  unfold touches at h
  simp only [Bool.or_eq_false_iff, beq_eq_false_iff_ne, ne_eq, List.any_eq_false] at h
  refine ⟨h.1, fun nc hnc => ?_⟩
  have := h.2 nc hnc
  simpa using this

/-- the state an assignment leaves (whether the option goes on or returns) -/
def AStep.state? : AStep → Option BState
  | .cont st => some st
  | .stop st => some st
  | _ => none

theorem applyAssignment_frame {c : Ctx} {env : Env} {st st' : BState} {a : Assignment} {n : String}
    (hn : touches n a = false) (h : (applyAssignment c env st a).state? = some st') :
    topGet n st'.internal = topGet n st.internal ∧ sameTop st.internal st'.internal := by
  obtain ⟨hp, hnc⟩ := touches_false hn
  unfold applyAssignment at h
  split at h
  · simp [AStep.state?] at h
  · simp [AStep.state?] at h
  · simp [AStep.state?] at h
  · rename_i v1 h1
    have f1 := nilChecks_frame hnc h1
    split at h
    · simp [AStep.state?] at h
    · simp [AStep.state?] at h
    · simp [AStep.state?] at h; subst h; exact f1
    · split at h
      · rename_i x _ v2 h2
        simp [AStep.state?] at h; subst h
        obtain ⟨steps, hs, h3⟩ := BRes.bind_eq_ok.mp h2
        obtain ⟨hne, hh⟩ := lvalue_ok hs
        have f2 := upd_frame hne (fun e => hp (hh n e)) h3
        exact ⟨f2.1.trans f1.1, sameTop_trans f1.2 f2.2⟩
      · simp [AStep.state?] at h
      · simp [AStep.state?] at h
      · simp [AStep.state?] at h

theorem applyAssignments_frame {c : Ctx} {env : Env} {n : String} :
    ∀ {as : List Assignment} {st st' : BState}, touchesAny n as = false →
      applyAssignments c env as st = .ok st' →
      topGet n st'.internal = topGet n st.internal ∧ sameTop st.internal st'.internal
  | [], st, st', _, h => by simp [applyAssignments] at h; subst h; exact ⟨rfl, sameTop_refl _⟩
  | a :: rest, st, st', hn, h => by
    simp only [touchesAny, List.any_cons, Bool.or_eq_false_iff] at hn
    unfold applyAssignments at h
    split at h
    · rename_i st1 h1
      have f1 := applyAssignment_frame (c := c) (env := env) (st := st) (st' := st1) hn.1 (by simp [h1, AStep.state?])
      have f2 := applyAssignments_frame (by simpa [touchesAny] using hn.2) h
      exact ⟨f2.1.trans f1.1, sameTop_trans f1.2 f2.2⟩
    · rename_i st1 h1
      simp at h; subst h
      exact applyAssignment_frame (c := c) (env := env) (st := st) (st' := st1) hn.1 (by simp [h1, AStep.state?])
    · simp at h
    · simp at h

theorem applyOption_frame {c : Ctx} {o : Opt} {args : List RArg} {st st' : BState} {n : String}
    (hn : touchesAny n o.assignments = false) (h : applyOption c o args st = .ok st') :
    topGet n st'.internal = topGet n st.internal ∧ sameTop st.internal st'.internal := by
  unfold applyOption at h
  split at h
  · simp at h
  · exact applyAssignments_frame hn h

theorem applyCalls_frame {c : Ctx} {n : String} :
    ∀ {calls : List (Opt × List RArg)} {st st' : BState},
      (∀ cl ∈ calls, touchesAny n cl.1.assignments = false) →
      applyCalls c calls st = .ok st' →
      topGet n st'.internal = topGet n st.internal ∧ sameTop st.internal st'.internal
  | [], st, st', _, h => by simp [applyCalls] at h; subst h; exact ⟨rfl, sameTop_refl _⟩
  | (o, args) :: rest, st, st', hn, h => by
    unfold applyCalls at h
    obtain ⟨st1, h1, h2⟩ := BRes.bind_eq_ok.mp h
    have f1 := applyOption_frame (hn (o, args) (by simp)) h1
    have f2 := applyCalls_frame (fun cl hcl => hn cl (by simp [hcl])) h2
    exact ⟨f2.1.trans f1.1, sameTop_trans f1.2 f2.2⟩

/-! ### what an assignment stores -/

theorem applyAssignment_sets {c : Ctx} {env : Env} {st st' : BState} {a : Assignment}
    (h : applyAssignment c env st a = .cont st') :
    ∃ v1 x steps old r, nilChecks c env a.nilChecks st.internal = .ok v1 ∧
      evalValue c env (lastTy a.path) a.value = .val x ∧ lvalue env a.path = .ok steps ∧
      get steps v1 = .ok old ∧ assignOp a.method x old = .ok r ∧ get steps st'.internal = .ok r ∧
      st'.errors = st.errors := by
  unfold applyAssignment at h
  split at h
  · simp at h
  · simp at h
  · simp at h
  · rename_i v1 h1
    split at h
    · simp at h
    · simp at h
    · simp at h
    · rename_i x hx
      split at h
      · rename_i v2 h2
        simp at h; subst h
        obtain ⟨steps, hs, h3⟩ := BRes.bind_eq_ok.mp h2
        obtain ⟨old, r, g1, g2, g3⟩ := get_upd_same h3
        exact ⟨v1, x, steps, old, r, h1, hx, hs, g1, g2, g3, rfl⟩
      · simp at h
      · simp at h
      · simp at h


/-! ### no early return without a failing nested builder -/

/-- every bound argument is a value (no nested builder failed) -/
def AllVal (env : Env) : Prop := ∀ n r, env.find n = some r → ∃ v, r = .val v

theorem leafValue_ne_stop {env : Env} (hv : AllVal env) (t : Ty) (a : AValue) : leafValue env t a ≠ .stop := by
  cases a with
  | arg cell =>
    simp only [leafValue]
    cases hf : env.find cell.arg.name with
    | none => simp
    | some r =>
      obtain ⟨v, rfl⟩ := hv _ _ hf
      simp
  | const k =>
    simp only [leafValue]
    cases constVal k with
    | none => simp
    | some v => simp only; split <;> simp
  | none => simp [leafValue]
  | env _ _ => simp [leafValue]

theorem envelopeMember_ne_stop {env : Env} (hv : AllVal env) (t : Ty) (it : PathItem) (a : AValue) :
    envelopeMember env t it a ≠ .stop := by
  cases a with
  | arg cell =>
    simp only [envelopeMember]
    have := leafValue_ne_stop hv t (.arg cell)
    split
    · simp
    · split
      · simp
      · assumption
  | const k =>
    simp only [envelopeMember]
    have := leafValue_ne_stop hv t (.const k)
    split
    · simp
    · assumption
  | none => simp [envelopeMember]
  | env _ _ => simp [envelopeMember]

theorem envelopeFields_ne_stop {env : Env} (hv : AllVal env) (t : Ty) :
    ∀ (vals : List EnvField) (acc : GoVal), envelopeFields env t vals acc ≠ .stop
  | [], acc => by simp [envelopeFields]
  | ev :: rest, acc => by
    unfold envelopeFields
    split
    · rename_i it _
      have hm := envelopeMember_ne_stop hv t it ev.value
      split
      · split
        · exact envelopeFields_ne_stop hv t rest _
        · simp
        · simp
        · simp
      · assumption
    · simp

theorem evalValue_ne_stop {c : Ctx} {env : Env} (hv : AllVal env) (t : Ty) (a : AValue) :
    evalValue c env t a ≠ .stop := by
  unfold evalValue
  split
  · split
    · exact envelopeFields_ne_stop hv t _ _
    · simp
    · simp
    · simp
  · exact leafValue_ne_stop hv t _

theorem applyAssignment_ne_stop {c : Ctx} {env : Env} (hv : AllVal env) (st st' : BState) (a : Assignment) :
    applyAssignment c env st a ≠ .stop st' := by
  unfold applyAssignment
  split
  · simp
  · simp
  · simp
  · split
    · simp
    · simp
    · rename_i h; exact absurd h (evalValue_ne_stop hv _ _)
    · split <;> simp

theorem applyAssignments_cons (c : Ctx) (env : Env) (a : Assignment) (rest : List Assignment) (st : BState) :
    applyAssignments c env (a :: rest) st =
      match applyAssignment c env st a with
      | .cont st' => applyAssignments c env rest st'
      | .stop st' => .ok st'
      | .panic w => .panic w
      | .unsup w => .unsup w := by
  rw [applyAssignments]
  cases applyAssignment c env st a <;> rfl

/-- without a failing nested builder the assignments of a list all run, in order -/
theorem applyAssignments_append {c : Ctx} {env : Env} (hv : AllVal env) :
    ∀ {xs ys : List Assignment} {st st' : BState},
      applyAssignments c env (xs ++ ys) st = .ok st' ↔
      ∃ st1, applyAssignments c env xs st = .ok st1 ∧ applyAssignments c env ys st1 = .ok st'
  | [], ys, st, st' => by simp [applyAssignments]
  | a :: xs, ys, st, st' => by
    simp only [List.cons_append]
    rw [applyAssignments_cons, applyAssignments_cons]
    cases h : applyAssignment c env st a with
    | cont st2 => simp only; exact applyAssignments_append hv
    | stop st2 => exact absurd h (applyAssignment_ne_stop hv _ _ _)
    | panic w => simp
    | unsup w => simp

theorem applyAssignments_cons_val {c : Ctx} {env : Env} (hv : AllVal env) {a : Assignment}
    {ys : List Assignment} {st st' : BState} :
    applyAssignments c env (a :: ys) st = .ok st' ↔
    ∃ st1, applyAssignment c env st a = .cont st1 ∧ applyAssignments c env ys st1 = .ok st' := by
  rw [applyAssignments_cons]
  cases h : applyAssignment c env st a with
  | cont st2 => simp
  | stop st2 => exact absurd h (applyAssignment_ne_stop hv _ _ _)
  | panic w => simp
  | unsup w => simp


/-! ### `*builder.internal` stays an object -/

/-- a struct value (plain or union): what `*builder.internal` is -/
def IsObject (v : GoVal) : Prop := (∃ fs, v = .struct fs) ∨ (∃ bs, v = .union bs)

theorem upd_isObject {steps : List Step} (hne : steps ≠ []) {g : GoVal → BRes GoVal} {v v' : GoVal}
    (h : upd steps g v = .ok v') (ho : IsObject v) : IsObject v' := by
  cases steps with
  | nil => exact absurd rfl hne
  | cons s rest =>
    rcases ho with ⟨fs, rfl⟩ | ⟨bs, rfl⟩
    · cases s with
      | fld m =>
        unfold upd at h
        obtain ⟨fs', _, rfl⟩ := BRes.map_eq_ok.mp h
        exact .inl ⟨_, rfl⟩
      | key k => cases k <;> (unfold upd at h; simp at h)
    · cases s with
      | fld m =>
        unfold upd at h
        obtain ⟨bs', _, rfl⟩ := BRes.map_eq_ok.mp h
        exact .inr ⟨_, rfl⟩
      | key k => cases k <;> (unfold upd at h; simp at h)

theorem nilChecks_isObject {c : Ctx} {env : Env} :
    ∀ {ncs : List NilCheck} {v v' : GoVal}, nilChecks c env ncs v = .ok v' → IsObject v → IsObject v'
  | [], v, v', h, ho => by simp [nilChecks] at h; subst h; exact ho
  | nc :: rest, v, v', h, ho => by
    unfold nilChecks at h
    obtain ⟨v1, h1, h2⟩ := BRes.bind_eq_ok.mp h
    refine nilChecks_isObject h2 ?_
    unfold nilCheck at h1
    obtain ⟨steps, hs, h3⟩ := BRes.bind_eq_ok.mp h1
    obtain ⟨cur, _, h4⟩ := BRes.bind_eq_ok.mp h3
    split at h4
    · obtain ⟨e, _, h5⟩ := BRes.bind_eq_ok.mp h4
      exact upd_isObject (lvalue_ok hs).1 h5 ho
    · simp at h4; subst h4; exact ho

theorem applyAssignment_isObject {c : Ctx} {env : Env} {st st' : BState} {a : Assignment}
    (h : (applyAssignment c env st a).state? = some st') (ho : IsObject st.internal) : IsObject st'.internal := by
  unfold applyAssignment at h
  split at h
  · simp [AStep.state?] at h
  · simp [AStep.state?] at h
  · simp [AStep.state?] at h
  · rename_i v1 h1
    have o1 := nilChecks_isObject h1 ho
    split at h
    · simp [AStep.state?] at h
    · simp [AStep.state?] at h
    · simp [AStep.state?] at h; subst h; exact o1
    · split at h
      · rename_i x _ v2 h2
        simp [AStep.state?] at h; subst h
        obtain ⟨steps, hs, h3⟩ := BRes.bind_eq_ok.mp h2
        exact upd_isObject (lvalue_ok hs).1 h3 o1
      · simp [AStep.state?] at h
      · simp [AStep.state?] at h
      · simp [AStep.state?] at h

theorem applyAssignments_isObject {c : Ctx} {env : Env} :
    ∀ {as : List Assignment} {st st' : BState}, applyAssignments c env as st = .ok st' →
      IsObject st.internal → IsObject st'.internal
  | [], st, st', h, ho => by simp [applyAssignments] at h; subst h; exact ho
  | a :: rest, st, st', h, ho => by
    rw [applyAssignments_cons] at h
    split at h
    · rename_i st1 h1
      exact applyAssignments_isObject h
        (applyAssignment_isObject (c := c) (env := env) (st := st) (a := a) (by simp [h1, AStep.state?]) ho)
    · rename_i st1 h1
      simp at h; subst h
      exact applyAssignment_isObject (c := c) (env := env) (st := st) (a := a) (by simp [h1, AStep.state?]) ho
    · simp at h
    · simp at h

theorem applyOption_isObject {c : Ctx} {o : Opt} {args : List RArg} {st st' : BState}
    (h : applyOption c o args st = .ok st') (ho : IsObject st.internal) : IsObject st'.internal := by
  unfold applyOption at h
  split at h
  · simp at h
  · exact applyAssignments_isObject h ho

theorem applyCalls_isObject {c : Ctx} :
    ∀ {calls : List (Opt × List RArg)} {st st' : BState}, applyCalls c calls st = .ok st' →
      IsObject st.internal → IsObject st'.internal
  | [], st, st', h, ho => by simp [applyCalls] at h; subst h; exact ho
  | (o, args) :: rest, st, st', h, ho => by
    unfold applyCalls at h
    obtain ⟨st1, h1, h2⟩ := BRes.bind_eq_ok.mp h
    exact applyCalls_isObject h2 (applyOption_isObject h1 ho)

/-! ### a path that starts at member `m` is printed starting with `.m` -/

theorem stepsOf_starts {env : Env} {first : Bool} {p : Builder.Path} {steps : List Step} {m : String}
    (h : stepsOf env first p = .ok steps) (hm : pathHead p = some m) : ∃ rest, steps = .fld m :: rest := by
  cases p with
  | nil => simp [pathHead] at hm
  | cons it rest =>
    have hid : it.identifier = m ∧ it.identifier ≠ "" := by
      simp only [pathHead] at hm
      split at hm
      · simp at hm
      · rename_i hne; simp at hm; exact ⟨hm, hne⟩
    unfold stepsOf at h
    split at h
    · simp at h
    · split at h
      · simp at h
      · simp only at h
        cases hix : it.index with
        | none =>
          rw [hix] at h
          simp only [hid.2, if_false] at h
          obtain ⟨r, _, rfl⟩ := BRes.map_eq_ok.mp h
          exact ⟨r, by simp [hid.1]⟩
        | some ix =>
          rw [hix] at h
          simp only at h
          split at h
          · simp at h
          · obtain ⟨k, _, h2⟩ := BRes.bind_eq_ok.mp h
            obtain ⟨r, _, rfl⟩ := BRes.map_eq_ok.mp h2
            obtain ⟨h1, h2'⟩ := hid
            subst h1
            exact ⟨[.key k] ++ r, by simp [h2']⟩

theorem lvalue_starts {env : Env} {p : Builder.Path} {steps : List Step} {m : String}
    (h : lvalue env p = .ok steps) (hm : pathHead p = some m) : ∃ rest, steps = .fld m :: rest := by
  unfold lvalue at h
  obtain ⟨s, hs, h2⟩ := BRes.bind_eq_ok.mp h
  split at h2
  · simp at h2
  · simp at h2; subst h2; exact stepsOf_starts hs hm

/-- reading the target of an assignment is not disturbed by later assignments that start elsewhere -/
theorem get_after_frame {m : String} {rest : List Step} {v v' : GoVal} (ho : IsObject v)
    (hf : topGet m v' = topGet m v ∧ sameTop v v') : get (.fld m :: rest) v' = get (.fld m :: rest) v :=
  get_fld_congr hf.2 hf.1 ho

/-! ### environments built from values only -/

theorem allVal_of_mem : ∀ (env : Env), (∀ p ∈ env, ∃ v, p.2 = RArg.val v) → AllVal env
  | [], _ => by intro n r h; simp [Env.find] at h
  | (k, a) :: t, hp => by
    intro n r h
    unfold Env.find at h
    split at h
    · simp at h; subst h; exact hp (k, a) (by simp)
    · exact allVal_of_mem t (fun p hp' => hp p (by simp [hp'])) n r h

theorem allVal_bindArgs (params : List Argument) (args : List RArg) (h : ∀ r ∈ args, ∃ v, r = RArg.val v) :
    AllVal (bindArgs params args) := by
  apply allVal_of_mem
  intro p hp
  exact h p.2 (List.of_mem_zip hp).2

end Cog.Sem.GB
