/-
  `den n S t j`: the document `j` belongs to the document language `J⟦S, t⟧` of the IR type `t`
  (post Go-chain IR), restricted to the fragment for which C01's round-trip theorem is proved.
  Decidable and executable (the driver evaluates it next to the reference validators).
  Same recursion scheme (fuel) as `goDecode`, so that the theorem is a direct induction.

  Deliberately excluded (each is a recorded finding or outside the model, see Props/C01.lean):
  empty `[]`/`{}` in a non-required array/map field (dropped by omitempty), integers ≥ 2^53 in
  `any`, `bytes`, references to constants, unknown/absent discriminators, null inside scalar unions.
-/
import Cog.Sem.GoCodec
namespace Cog.Sem
open Cog.IR

mutual
def noNulls : Json → Bool
  | .null => false
  | .arr xs => noNullsList xs
  | .obj kvs => noNullsMembers kvs
  | _ => true
def noNullsList : List Json → Bool
  | [] => true
  | x :: xs => noNulls x && noNullsList xs
def noNullsMembers : List (String × Json) → Bool
  | [] => true
  | (_, v) :: t => noNulls v && noNullsMembers t
end

mutual
def noObjs : Json → Bool
  | .obj _ => false
  | .arr xs => noObjsList xs
  | _ => true
def noObjsList : List Json → Bool
  | [] => true
  | x :: xs => noObjs x && noObjsList xs
end

def keysNodup0 : List (String × Json) → Bool
  | [] => true
  | (k, _) :: t => !(t.any fun kv => kv.1 == k) && keysNodup0 t

/- no duplicate member keys at any depth (what makes `any` re-encoding, which sorts keys, harmless) -/
mutual
def wfDeep : Json → Bool
  | .obj kvs => keysNodup0 kvs && wfDeepMembers kvs
  | .arr xs => wfDeepList xs
  | _ => true
def wfDeepList : List Json → Bool
  | [] => true
  | x :: xs => wfDeep x && wfDeepList xs
def wfDeepMembers : List (String × Json) → Bool
  | [] => true
  | (_, v) :: t => wfDeep v && wfDeepMembers t
end

def keysNodup : List (String × Json) → Bool
  | [] => true
  | (k, _) :: t => !(t.any fun kv => kv.1 == k) && keysNodup t

def namesNodup : List String → Bool
  | [] => true
  | k :: t => !(t.contains k) && namesNodup t

/-- document language of a non-pointer scalar -/
def denScalar (kind : String) (j : Json) : Bool :=
  if kind = "string" then (match j with | .str _ => true | _ => false)
  else if kind = "bool" then (match j with | .bool _ => true | _ => false)
  else if kind = "float32" ∨ kind = "float64" then (match j with | .num _ => true | _ => false)
  else match intRange kind with
    | some (lo, hi) => (match j with
        | .num q => decide (q % 4 = 0 ∧ lo ≤ q / 4 ∧ q / 4 ≤ hi)
        | _ => false)
    | none => false

def knownScalar (k : String) : Bool :=
  k == "string" || k == "bool" || k == "float32" || k == "float64" || (intRange k).isSome

/-- branch types of a scalars-union covered by the theorem: plain scalars and arrays of them -/
def simpleBranch (f : Field) : Bool :=
  match f.ty with
  | .scalar k _ _ fm => knownScalar k && !hasHint fm "string_format_datetime"
  | .array (.scalar k _ _ em) _ => knownScalar k && !hasHint em "string_format_datetime" && k != "uint8"
  | _ => false

def isEmptyColl : Json → Bool
  | .arr [] => true
  | .obj [] => true
  | _ => false

def isCollOrAny : Ty → Bool
  | .array .. => true
  | .map .. => true
  | .scalar "any" _ _ _ => true
  | _ => false

/-- per-field side condition: a non-required field is a pointer (nullable) or a collection/any,
    and a non-required collection is not given as an empty `[]`/`{}` -/
def fieldShapeOK (f : Field) : Bool := f.required || f.ty.getMeta.nullable || isCollOrAny f.ty

def fieldValueOK (f : Field) (v : Json) : Bool :=
  f.required || !((f.ty.isArray || f.ty.isMap) && isEmptyColl v)

def denFieldsWith (d : Ty → Json → Bool) (fields : List Field) (members : List (String × Json)) : Bool :=
  fields.all fun f =>
    fieldShapeOK f &&
    match Json.lookup f.name members with
    | some v => d f.ty v && fieldValueOK f v
    | none => !f.required && d f.ty .null

def den : Nat → Schemas → Ty → Json → Bool
  | 0, _, _, _ => false
  | fuel + 1, ss, t, j =>
    match t with
    | .scalar kind _ _ m =>
      if kind = "bytes" then false
      else if kind = "any" then anyExact j && wfDeep j
      else if hasHint m "string_format_datetime" then
        (m.nullable && j.isNull) || (match j with | .str _ => kind = "string" | _ => false)
      else (m.nullable && j.isNull) || denScalar kind j
    | .array e m =>
      !isByteElem e &&
      match j with
      | .null => m.nullable
      | .arr xs => xs.all (den fuel ss e)
      | _ => false
    | .map idx v m =>
      match idx with
      | .scalar "string" _ _ _ =>
        match j with
        | .null => m.nullable
        | .obj kvs => keysNodup kvs && kvs.all (fun kv => den fuel ss v kv.2)
        | _ => false
      | _ => false
    | .ref pkg name m =>
      match Schemas.locateObject ss pkg name with
      | none => false
      | some o =>
        match o.ty with
        | .struct fields _ none _ =>
          (m.nullable && j.isNull) ||
          (match j with
           | .obj members =>
             keysNodup members && namesNodup (fields.map (·.name)) &&
             members.all (fun kv => (fields.map (·.name)).contains kv.1) &&
             denFieldsWith (den fuel ss) fields members
           | _ => false)
        | .struct fields _ (some (hint, info)) _ =>
          (m.nullable && j.isNull) ||
          (if hint = "disjunction_of_scalars" then
             decide (2 ≤ fuel) && noNulls j && noObjs j && fields.any (fun f => den fuel ss (f.ty.setMeta { f.ty.getMeta with nullable := false }) j)
               && fields.all simpleBranch
           else
             match j with
             | .obj members =>
               (match Json.lookup info.discriminator members with
                | some (.str tag) =>
                  tag != "cog_discriminator_catch_all" &&
                  (match info.mapping.find? (fun kv => kv.1 == tag) with
                   | some kv =>
                     (fieldByRefName fields kv.2).isSome && namesNodup (fields.map (·.name)) &&
                     den fuel ss (.ref pkg kv.2 {}) j
                   | none => false)
                | _ => false)
             | _ => false)
        | .enum (v0 :: _) _ =>
          (m.nullable && j.isNull) || denScalar v0.kind j
        | .scalar kind v _ om =>
          (match v with | .nil => true | _ => false) && kind != "bytes" && kind != "any" &&
          !hasHint om "string_format_datetime" &&
          ((m.nullable && j.isNull) || denScalar kind j)
        | .array .. | .map .. => !isEmptyColl j && den fuel ss o.ty j
        | .ref p n om => den fuel ss (.ref p n { om with nullable := m.nullable }) j
        | _ => false
    | _ => false

end Cog.Sem
