/-
  C12 — the decidable fragment `jsFrag` of `C12_values_validate_same_ir_partial` (core Lean only: the
  driver evaluates it, verb `jsself`).
-/
import Cog.Sem.JsonSchemaOutWf
import Cog.Sem.Den
namespace Cog.Sem.JSOut
open Cog.IR Cog.Sem

/-! ### the fragment -/

mutual
/-- types in field / element position -/
def okTy (s : Schema) : Ty → Bool
  | .scalar .. => true
  | .array e _ => okTy s e
  | .map _ v _ => okTy s v
  | .ref p n _ => p == s.pkg && localHas s n
  | _ => false
end

def okFields (s : Schema) : List Field → Bool
  | [] => true
  | f :: fs => okTy s f.ty && okFields s fs

/-- types of objects -/
def okObjTy (s : Schema) : Ty → Bool
  | .struct fs _ none _ => namesNodup (fs.map (·.name)) && okFields s fs
  | .enum .. => true
  | t => okTy s t

/-- the fragment on which the emitted document provably describes the IR it was emitted from -/
def jsFrag (S : Schemas) (s : Schema) : Bool :=
  noClash S s && s.objects.all (fun kv => kv.2.name == kv.1) && (schemaObjs s).all (fun o => okObjTy s o.ty)

end Cog.Sem.JSOut
