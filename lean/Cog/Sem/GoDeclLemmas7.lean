/-
  C02 helper lemmas, part 7: the declarations of one object are accepted, every package's identifiers
  are valid and unique, hence `wellTyped (emitEnv cfg S)`.
-/
import Cog.Sem.GoDeclLemmas6
namespace Cog.Sem.GoDecl
open Cog.IR Cog.OMap
open Cog.Passes (ucc cleanupNames)

theorem plain_head {k : String} (h : plainKinds.contains k = true) : (k.toList.head? == some '?') = false := by
  simp only [plainKinds, List.contains_eq_mem, List.mem_cons, List.not_mem_nil, or_false, decide_eq_true_eq] at h
  rcases h with rfl | rfl | rfl | rfl | rfl | rfl | rfl | rfl | rfl | rfl | rfl | rfl <;> decide

theorem membersOk_of_fit (env : Env) (fuel : Nat) (en : String) {k : String} (hk : plainKinds.contains k = true) :
    ∀ vs : List EnumVal, membersFit k vs = true → membersOk env (fuel + 1) (.prim k) (enumMembers en vs) = true
  | [], _ => by simp [enumMembers, membersOk]
  | v :: vs, h => by
    simp only [membersFit, Bool.and_eq_true] at h
    have ih := membersOk_of_fit env fuel en hk vs h.2
    have hv := h.1
    unfold valFits at hv
    cases hl : valLit v.value with
    | none => simp [hl] at hv
    | some et =>
      simp only [hl] at hv
      simp only [enumMembers, membersOk, litETy_sharpV hl, Option.isSome_some, exprTy_sharpV env (fuel + 1) hl,
        assignable_untyped_plain env fuel hk et (valLit_untyped hl), hv, ih, Bool.and_self]

theorem headAlias_nonalias (env : Env) (fuel : Nat) {p n : String} {d : GoDecl} (hl : lookupType env p n = some d)
    (hna : ∀ a t, d ≠ .alias a t) : headAlias env (fuel + 1) p n = .named p n := by
  rw [headAlias, hl]
  cases d with
  | alias a t => exact absurd rfl (hna a t)
  | _ => rfl

section
variable {cfg : Cfg} {ss : Schemas}

theorem emitTypeDecl_nonalias (c : Ctx) (o : Obj) (h : o.ty.isRef = false) : ∀ a t, emitTypeDecl c o ≠ .alias a t := by
  intro a t
  unfold emitTypeDecl
  cases hty : o.ty <;> simp [Ty.isRef, hty] at h <;> (try simp)
  all_goals (repeat' split) <;> simp

/-- every declaration cog prints for an object of a printable schema set is accepted by the checker -/
theorem obj_declsOk (h : EnvFacts cfg ss) (K : Nat) {s : Schema} (hs : s ∈ ss) {k : String} {o : Obj} (hm : (k, o) ∈ s.objects) :
    declsOk (emitEnv cfg ss) (K + 3) (fmtPkg s.pkg) (emitObj (ctxOf cfg ss) o) = true := by
  have hso := schemasOk_mem h.sok hs
  have ho := objectsOk_mem hso.2.1 hm
  have hl : ss.locateObject s.pkg k = some o := by
    simp [Schemas.locateObject, locate_of_mem hs h.pkgsNodup, Schema.locateObject, rget_of_mem hm hso.2.2.2]
  obtain ⟨hname, hsn, hsp, hobj⟩ := ho
  unfold objOk at hobj
  unfold emitObj emitTypeDecl emitCtor
  cases hty : o.ty with
  | scalar sk v cs m =>
    simp only [hty, Bool.and_eq_true, Bool.or_eq_true] at hobj
    by_cases hv : Cog.Passes.Val.isNil v = true
    · by_cases hb : (sk == "bytes") = true
      · simp [hv, hb, declsOk, declOk, typeOk, knownPrims]
      · have := typeOk_fmtScalarTy (emitEnv cfg ss) cfg sk m hobj.1
        simp [hv, hb, declsOk, declOk, fmtTy, ctxOf, this]
    · have hlit : (valLit v).isSome = true := by
        rcases hobj.2 with h1 | h2
        · exact absurd h1 hv
        · exact h2
      cases hvl : valLit v with
      | none => simp [hvl] at hlit
      | some et =>
        simp [hv, declsOk, declOk, formatScalar_of_valLit hvl, litETy_sharpV hvl]
  | enum vs m =>
    simp only [hty] at hobj
    cases vs with
    | nil => simp at hobj
    | cons v0 vs' =>
      simp only [Bool.and_eq_true, enumKinds] at hobj
      have hu : fmtEnumUnder (ctxOf cfg ss) v0.kind = .prim v0.kind := by
        have hp : isPlainScalar v0.kind {} = true := by
          unfold isPlainScalar; rw [hobj.1]; simp [hasHint]
        simp [fmtEnumUnder, plain_head hobj.1, fmtScalarTy_plain _ hp]
      have hmo := membersOk_of_fit (emitEnv cfg ss) (K + 2) (ucc o.name) hobj.1 (v0 :: vs') hobj.2
      simp only [declsOk, declOk, hu, typeOk, plain_known hobj.1, hmo, Bool.and_true, Bool.true_and]
      simp [enumMembers]
  | ref p n m =>
    simp only [hty, Bool.and_eq_true, Bool.not_eq_true'] at hobj
    have hto := typeOk_fmtTy h (.ref p n m) hobj.2
    cases hl' : ss.locateObject p n with
    | none => simp [ctxOf, hl', declsOk, declOk] ; simpa [ctxOf] using hto
    | some ro =>
      cases hst : ro.ty.isStruct with
      | false =>
        simp [ctxOf, hl', hst, declsOk, declOk]; simpa [ctxOf] using hto
      | true =>
        obtain ⟨_, _, _, _, hrn, _, hrp, _, _, _⟩ := h.located hl'
        have hcall : exprTy (emitEnv cfg ss) (K + 3) (GoExpr.call (fmtPkg p) ("New" ++ ucc n))
            = .typed (.ptr (.named (fmtPkg p) (ucc n))) := by
          simp [exprTy, h.findCtor_eq hl' (by cases hrt : ro.ty <;> simp [hrt, Ty.isStruct] at hst <;> simp [hasCtor, hrt])]
        -- the alias `type O = R` and the struct `R` have the same normal form
        have hdo : lookupType (emitEnv cfg ss) (fmtPkg s.pkg) (ucc k)
            = some (.alias (ucc k) (.named (fmtPkg p) (ucc n))) := by
          rw [h.lookupType_eq hl (by simp [declaresTy, hty])]
          simp [emitTypeDecl, hty, fmtTy, hobj.1, hname, Ctx.mapPkg]
        have hdr := h.lookupType_eq hl' (by cases hrt : ro.ty <;> simp [hrt, Ty.isStruct] at hst <;> simp [declaresTy, hrt])
        have hnr : headAlias (emitEnv cfg ss) (K + 2) (fmtPkg p) (ucc n) = .named (fmtPkg p) (ucc n) :=
          headAlias_nonalias _ (K + 1) hdr (emitTypeDecl_nonalias _ ro (by cases hrt : ro.ty <;> simp [hrt, Ty.isStruct] at hst <;> rfl))
        have hnr' : headAlias (emitEnv cfg ss) (K + 3) (fmtPkg p) (ucc n) = .named (fmtPkg p) (ucc n) :=
          headAlias_nonalias _ (K + 2) hdr (emitTypeDecl_nonalias _ ro (by cases hrt : ro.ty <;> simp [hrt, Ty.isStruct] at hst <;> rfl))
        have hno : headAlias (emitEnv cfg ss) (K + 3) (fmtPkg s.pkg) (ucc k) = .named (fmtPkg p) (ucc n) := by
          rw [headAlias, hdo]; exact hnr
        have hasg : assignable (emitEnv cfg ss) (K + 3) (.typed (.ptr (.named (fmtPkg p) (ucc n))))
            (.ptr (.named (fmtPkg s.pkg) (ucc k))) = true := by
          apply assignable_of_norm_eq
          simp [norm, hno, hnr']
        have hto' : typeOk (emitEnv cfg ss) (fmtTy { cfg := cfg, ss := ss } (Ty.ref p n m)) = true := by
          simpa [ctxOf] using hto
        simp only [ctxOf, hl', hst, if_true, declsOk, declOk, Ctx.mapPkg, hrp, hrn, hname, Bool.and_true, hto',
          hcall, hasg, Bool.and_self]
  | map i v m =>
    simp only [hty] at hobj
    have := typeOk_fmtTy h (.map i v m) hobj
    simp [declsOk, declOk, this]
  | array e m =>
    simp only [hty] at hobj
    have := typeOk_fmtTy h (.array e m) hobj
    simp [declsOk, declOk, this]
  | struct fs g gi m =>
    simp only [hty, Bool.and_eq_true, Bool.not_eq_true'] at hobj
    have hto := typeOk_fmtTy h (.struct fs g gi m) hobj.1.2
    have htys : fieldNamesOk fs = true ∧ fieldsTyOk ss fs = true := by
      have := hobj.1.2; simpa [tyOk] using this
    have hlit := structLit_typed h (K + 1) (ss.objectCount + 1) (fieldsFitAt h (K + 1) (ss.objectCount + 1)) .nil
      hl hty hobj.1.1 htys.1 htys.2 hobj.2
    have hlit' : exprTy (emitEnv cfg ss) (K + 3)
        (defaultsForStruct { cfg := cfg, ss := ss } (ss.objectCount + 2) s.pkg k fs Val.nil)
        = ETy.typed (GoTy.named (fmtPkg s.pkg) (ucc k)) := hlit
    have hto' : typeOk (emitEnv cfg ss) (fmtTy { cfg := cfg, ss := ss } (Ty.struct fs g gi m)) = true := by
      simpa [ctxOf] using hto
    simp only [declsOk, declOk, Bool.and_true, Ctx.fuel, ctxOf, hsp, hsn, hname, exprTy, hlit', hto', Bool.true_and]
    exact assignable_refl _ _ _
  | cref p n v m => simp [hty] at hobj
  | disj bs i m => simp [hty] at hobj
  | inter bs m => simp [hty] at hobj
  | slot v m => simp [hty] at hobj
  | bad bk m => simp [hty] at hobj

theorem declsOk_append (env : Env) (fuel : Nat) (pkg : String) (a b : List GoDecl) :
    declsOk env fuel pkg (a ++ b) = (declsOk env fuel pkg a && declsOk env fuel pkg b) := by
  induction a with
  | nil => simp [declsOk]
  | cons d ds ih => simp [declsOk, ih, Bool.and_assoc]

theorem objs_declsOk (h : EnvFacts cfg ss) (K : Nat) {s : Schema} (hs : s ∈ ss) :
    ∀ objs : List (String × Obj), (∀ x ∈ objs, x ∈ s.objects) →
      declsOk (emitEnv cfg ss) (K + 3) (fmtPkg s.pkg) (emitObjs (ctxOf cfg ss) objs) = true
  | [], _ => by simp [emitObjs, declsOk]
  | (k, o) :: rest, hsub => by
    simp only [emitObjs, declsOk_append, Bool.and_eq_true]
    exact ⟨obj_declsOk h K hs (hsub (k, o) List.mem_cons_self),
      objs_declsOk h K hs rest (fun x hx => hsub x (List.mem_cons_of_mem _ hx))⟩

theorem pkg_namesOk (h : EnvFacts cfg ss) {s : Schema} (hs : s ∈ ss) :
    namesOk (emitObjs (ctxOf cfg ss) s.objects) = true := by
  have hso := schemasOk_mem h.sok hs
  have hn := schemasNamesOk_mem h.names hs
  have := declsIdents_emitObjs (ctxOf cfg ss) s.pkg s.objects (by simpa [ctxOf] using hso.2.1)
  simp only [ctxOf] at this
  simp only [namesOk, ctxOf, this, Bool.and_eq_true, List.all_eq_true, nodupB_iff]
  exact ⟨hn.1, hn.2⟩

theorem pkgsOk_emit (h : EnvFacts cfg ss) (K : Nat) : ∀ rest : List Schema, (∀ s ∈ rest, s ∈ ss) →
    pkgsOk (emitEnv cfg ss) (K + 3) (emitSchemasAux cfg ss rest) = true
  | [], _ => by simp [emitSchemasAux, pkgsOk]
  | s :: rest, hsub => by
    have hs := hsub s List.mem_cons_self
    have h1 := pkg_namesOk h hs
    have h2 := objs_declsOk h K hs s.objects (fun _ hx => hx)
    simp only [ctxOf] at h1 h2
    simp only [emitSchemasAux, emitSchema, pkgsOk, h1, h2, Bool.true_and]
    exact pkgsOk_emit h K rest (fun x hx => hsub x (List.mem_cons_of_mem _ hx))

/-- the assembly -/
theorem wellTyped_emitEnv (cfg : Cfg) (ss : Schemas) (hp : GoPrintable ss = true) (hn : wfNames ss = true) :
    wellTyped (emitEnv cfg ss) = true := by
  have h : EnvFacts cfg ss := ⟨hp, hn⟩
  unfold wellTyped checkFuel
  exact pkgsOk_emit h (envDeclCount (emitEnv cfg ss)) ss (fun _ hx => hx)

end

end Cog.Sem.GoDecl
