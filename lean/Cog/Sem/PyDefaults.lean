/-
  C10, Python side: what `json.dumps(X(), cls=JSONEncoder)` yields for a generated class `X`.

  Literal transcription of internal/jennies/python/rawtypes.go (`generateInitMethod`,
  `generateToJSONMethod`) and tools.go (`formatValue`, `defaultValueForType`,
  `defaultValueForScalar`) on the post-Python-chain IR (disjunctions and anonymous enums are still
  in field position there), in two stages like the Go side:

    1. `pyDefaultExpr` : the expression cog PRINTS for a field (`PyExpr`); `formatValue` prints
                         everything but nil / bool / lists with Go's `%#v`, so a `map[string]any`
                         comes out in Go syntax (`map[string]interface {}{…}`: the module does not
                         import) and a `json.Number` as a quoted string;
    2. `pyEval` / `pyNew` : Python's evaluation of `X()`: parameters default to `None` for
                         struct / ref / enum / map / array / disjunction fields and the printed
                         expression is used `if x is not None else …`; scalars take the expression
                         as the parameter default; constants are assigned in the body.

  `pyEncode` is `to_json` + `JSONEncoder` (required members always, optional ones unless `None`).
  Outside the model (`unsup`): constant references, numbers that are not multiples of 0.25.
-/
import Cog.Sem.GoDefaults
namespace Cog.Sem.Defaults
open Cog.Sem
open Cog.IR

inductive PRes (α : Type) where
  | ok (a : α)
  | synerr (why : String)    -- the printed module is not Python: import fails
  | raise (why : String)     -- an exception when the constructor is called
  | unsup (why : String)
  | fuel
  deriving Inhabited

namespace PRes
def bind {α β} (x : PRes α) (f : α → PRes β) : PRes β :=
  match x with
  | ok a => f a
  | synerr w => synerr w
  | raise w => raise w
  | unsup w => unsup w
  | fuel => fuel
def map {α β} (f : α → β) (x : PRes α) : PRes β := bind x (fun a => ok (f a))
end PRes

inductive PyVal where
  | none
  | bool (b : Bool)
  | num (q : Int)                                     -- int or float, value q/4
  | str (s : String)
  | list (xs : List PyVal)
  | dict (kvs : List (String × PyVal))
  | inst (fields : List (String × Bool × PyVal))      -- (JSON key, required, value) in field order
  deriving Inhabited

namespace PyVal
def isNone : PyVal → Bool | none => true | _ => false

mutual
/-- `to_json` of generated classes + `JSONEncoder` -/
def pyEncode : PyVal → Json
  | none => .null
  | bool b => .bool b
  | num q => .num q
  | str s => .str s
  | list xs => .arr (encList xs)
  | dict kvs => .obj (encDict kvs)
  | inst fs => .obj (encRequired fs ++ encOptional fs)
def encList : List PyVal → List Json
  | [] => []
  | x :: xs => pyEncode x :: encList xs
def encDict : List (String × PyVal) → List (String × Json)
  | [] => []
  | (k, v) :: t => (k, pyEncode v) :: encDict t
def encRequired : List (String × Bool × PyVal) → List (String × Json)
  | [] => []
  | (k, req, v) :: t => if req then (k, pyEncode v) :: encRequired t else encRequired t
def encOptional : List (String × Bool × PyVal) → List (String × Json)
  | [] => []
  | (k, req, v) :: t => if req || isNone v then encOptional t else (k, pyEncode v) :: encOptional t
end
end PyVal

/-! ### the printed expression -/

inductive PyExpr where
  | none
  | bool (b : Bool)
  | int (n : Int)
  | float (repr : String)
  | str (s : String)
  | list (items : List PyExpr)
  | goMap                                            -- `map[string]interface {}{…}`: not Python
  | emptyList
  | emptyDict
  | enumMember (pkg obj member : String)             -- `Obj.MEMBER`
  | call (pkg name : String) (kwargs : List (String × PyExpr))   -- `Ref(k=v, …)`
  | rawName (pkg name : String)                      -- reference to a constant
  | opaque (why : String)
  deriving Inhabited

mutual
/-- `formatValue` on a value of the IR (`none` = Go nil, printed `None`) -/
def pyOfVal : Val → PyExpr
  | .nil => .none
  | .bool b => .bool b
  | .list xs => .list (pyOfValList xs)
  | .int _ n => .int n
  | .float _ r => .float r
  | .jnum s => .str s
  | .str s => .str s
  | .map _ => .goMap
  | .other t r => .opaque (t ++ " " ++ r)
def pyOfValList : List Val → List PyExpr
  | [] => []
  | x :: xs => pyOfVal x :: pyOfValList xs
end

/-- `defaultValueForScalar` (`none` = Go nil) -/
def pyScalarDefault (kind : String) (value : Val) : Option PyExpr :=
  if !value.isNilV then some (pyOfVal value)
  else if kind = "null" ∨ kind = "any" then none
  else if kind = "bytes" ∨ kind = "string" then some (.str "")
  else if kind = "float32" ∨ kind = "float64" then some (.int 0)     -- `%#v` of 0.0 is `0`
  else if (intRange kind).isSome then some (.int 0)
  else if kind = "bool" then some (.bool false)
  else some (.str "unknown")

def hasNullBranch : List Ty → Bool
  | [] => false
  | .scalar "null" _ _ _ :: _ => true
  | _ :: ts => hasNullBranch ts

def optExpr : Option PyExpr → PyExpr
  | some e => e
  | none => .none

/-- the keyword arguments printed for a struct default (`defaultsOverrides.Iterate`) -/
def pyKwargs (dvt : Ty → List (String × Val) → PRes (Option PyExpr)) (fields : List Field) :
    List (String × Val) → PRes (List (String × PyExpr))
  | [] => .ok []
  | (k, v) :: rest =>
    match fieldByName k fields with
    | none => pyKwargs dvt fields rest
    | some f =>
      (if f.ty.isRef then (dvt f.ty (extraOf v)).map optExpr else PRes.ok (pyOfVal v)).bind fun e =>
        (pyKwargs dvt fields rest).map fun l => (k, e) :: l

/-- `defaultValueForType(schemas, typeDef, importModule, defaultsOverrides)`; `none` = Go nil -/
def pyDefaultExpr : Nat → Schemas → Ty → List (String × Val) → PRes (Option PyExpr)
  | 0, _, _, _ => .fuel
  | fuel + 1, ss, t, overrides =>
    if !t.isRef && !t.getMeta.dflt.isNilV then .ok (some (pyOfVal t.getMeta.dflt)) else
    match t with
    | .disj bs _ _ =>
      if hasNullBranch bs then .ok none else
      match bs with
      | b :: _ => pyDefaultExpr fuel ss b []
      | [] => .unsup "disjunction without branches"
    | .ref p n m =>
      match Schemas.locateObject ss p n with
      | some o =>
        match o.ty with
        | .enum vs _ =>
          match pickMember m.dflt vs vs.head? with
          | some mem => .ok (some (.enumMember p n mem.name))
          | none => .unsup "enum without members or uncomparable default"
        | .disj .. => pyDefaultExpr fuel ss o.ty []
        | .struct fs _ _ _ =>
          (pyKwargs (pyDefaultExpr fuel ss) fs overrides).map fun kw => some (.call p n kw)
        | _ => if o.ty.isConcrete then .ok (some (.rawName p n)) else .ok (some (.call p n []))
      | none => .ok (some (.call p n []))
    | .enum vs _ =>
      match vs with
      | v0 :: _ => .ok (some (pyOfVal v0.value))
      | [] => .unsup "enum without members"
    | .map .. => .ok (some .emptyDict)
    | .array .. => .ok (some .emptyList)
    | .scalar kind v _ _ => .ok (pyScalarDefault kind v)
    | _ => .ok (some (.str "unknown"))

/-- how `generateInitMethod` treats one field -/
inductive PyField where
  | const (e : PyExpr)                 -- `self.x = <constant>` (not a parameter)
  | optional (dflt : Option PyExpr)    -- `x = None`; `self.x = x if x is not None else <dflt>`
  | plain (dflt : PyExpr)              -- `x: T = <dflt>`; `self.x = x`
  deriving Inhabited

def isOptionalKind : Ty → Bool
  | .struct .. | .ref .. | .enum .. | .map .. | .array .. | .disj .. => true
  | _ => false

def pyField (fuel : Nat) (ss : Schemas) (f : Field) : PRes PyField :=
  if isCRef f.ty then .unsup "constant reference" else
  let m := f.ty.getMeta
  (if !m.nullable || !m.dflt.isNilV then pyDefaultExpr fuel ss f.ty (extraOf m.dflt) else PRes.ok none).bind fun dv =>
    if f.ty.isConcrete then .ok (.const (pyOfVal (scalarValue f.ty)))
    else if isOptionalKind f.ty then .ok (.optional dv)
    else .ok (.plain (optExpr dv))

def lookupPV (k : String) : List (String × PyVal) → Option PyVal
  | [] => none
  | (k', v) :: t => if k' = k then some v else lookupPV k t

def memberPyVal (m : EnumVal) : PRes PyVal :=
  match m.value with
  | .str s => .ok (.str s)
  | .int _ n => .ok (.num (n * 4))
  | .float _ r => match numQuarters r with | some q => .ok (.num q) | none => .unsup "enum value not a multiple of 0.25"
  | .jnum s => .ok (.str s)
  | _ => .unsup "enum member value"

/-- value of a printed scalar constant -/
def pyScalarVal : Val → PRes PyVal
  | .str s => .ok (.str s)
  | .jnum s => .ok (.str s)
  | .bool b => .ok (.bool b)
  | .int _ n => .ok (.num (n * 4))
  | .float _ r => match numQuarters r with | some q => .ok (.num q) | none => .unsup "float that is not a multiple of 0.25"
  | .nil => .ok .none
  | _ => .unsup "constant value"

mutual
/-- Python's evaluation of a printed expression; `new p n kwargs` instantiates class `n` -/
def pyEval (new : String → String → List (String × PyVal) → PRes PyVal) (ss : Schemas) : PyExpr → PRes PyVal
  | .none => .ok .none
  | .bool b => .ok (.bool b)
  | .int n => .ok (.num (n * 4))
  | .float r => match numQuarters r with | some q => .ok (.num q) | none => .unsup "float default that is not a multiple of 0.25"
  | .str s => .ok (.str s)
  | .list items => (pyEvalList new ss items).map .list
  | .goMap => .synerr "Go map literal in Python source"
  | .emptyList => .ok (.list [])
  | .emptyDict => .ok (.dict [])
  | .enumMember p o mname =>
    match Schemas.locateObject ss p o with
    | some ob =>
      match findMember mname (enumValues ob.ty) with
      | some m => memberPyVal m
      | none => .raise "AttributeError: enum member"
    | none => .raise "NameError: enum class"
  | .call p n kwargs => (pyEvalKw new ss kwargs).bind fun kw => new p n kw
  | .rawName p n =>
    match Schemas.locateObject ss p n with
    | some ob => if ob.ty.isConcrete then pyScalarVal (scalarValue ob.ty) else .unsup "raw name"
    | none => .raise "NameError"
  | .opaque w => .unsup ("%#v of " ++ w)
def pyEvalList (new : String → String → List (String × PyVal) → PRes PyVal) (ss : Schemas) : List PyExpr → PRes (List PyVal)
  | [] => .ok []
  | e :: es => (pyEval new ss e).bind fun v => (pyEvalList new ss es).map fun vs => v :: vs
def pyEvalKw (new : String → String → List (String × PyVal) → PRes PyVal) (ss : Schemas) :
    List (String × PyExpr) → PRes (List (String × PyVal))
  | [] => .ok []
  | (k, e) :: rest => (pyEval new ss e).bind fun v => (pyEvalKw new ss rest).map fun vs => (k, v) :: vs
end

/-- the body of `__init__` for one field, given the keyword arguments of the call -/
def pyInitField (new : String → String → List (String × PyVal) → PRes PyVal) (fuel : Nat) (ss : Schemas)
    (kwargs : List (String × PyVal)) (f : Field) : PRes (String × Bool × PyVal) :=
  (pyField fuel ss f).bind fun pf =>
    match pf with
    | .const e =>
      if (lookupPV f.name kwargs).isSome then .raise "TypeError: unexpected keyword argument"
      else (pyEval new ss e).map fun v => (f.name, f.required, v)
    | .optional dv =>
      match lookupPV f.name kwargs, dv with
      | some v, none => .ok (f.name, f.required, v)
      | some v, some e => if v.isNone then (pyEval new ss e).map fun v' => (f.name, f.required, v') else .ok (f.name, f.required, v)
      | none, none => .ok (f.name, f.required, .none)
      | none, some e => (pyEval new ss e).map fun v' => (f.name, f.required, v')
    | .plain e =>
      -- the parameter default is evaluated when the class is defined, whatever the call passes
      (pyEval new ss e).bind fun d =>
        match lookupPV f.name kwargs with
        | some v => .ok (f.name, f.required, v)
        | none => .ok (f.name, f.required, d)

def mapPRes {α β} (f : α → PRes β) : List α → PRes (List β)
  | [] => .ok []
  | x :: xs => (f x).bind fun y => (mapPRes f xs).bind fun ys => .ok (y :: ys)

def kwargsKnown (fs : List Field) : List (String × PyVal) → Bool
  | [] => true
  | (k, _) :: t => (fieldByName k fs).isSome && kwargsKnown fs t

/-- `Name(**kwargs)` -/
def pyNew : Nat → Schemas → String → String → List (String × PyVal) → PRes PyVal
  | 0, _, _, _, _ => .fuel
  | fuel + 1, ss, pkg, name, kwargs =>
    match Schemas.locateObject ss pkg name with
    | none => .raise "NameError: class"
    | some o =>
      match o.ty with
      | .struct fs _ _ _ =>
        if !kwargsKnown fs kwargs then .raise "TypeError: unexpected keyword argument" else
        (mapPRes (pyInitField (pyNew fuel ss) fuel ss kwargs) fs).map .inst
      | .scalar kind v _ _ =>
        -- a named scalar is a type alias (`Port: typing.TypeAlias = int`): calling it yields the
        -- zero value of the builtin
        if !v.isNilV || !kwargs.isEmpty then .unsup "call of a constant / alias with arguments"
        else if kind = "string" then .ok (.str "")
        else if kind = "bool" then .ok (.bool false)
        else if (intRange kind).isSome || kind = "float32" || kind = "float64" then .ok (.num 0)
        else .unsup "call of an alias of this scalar kind"
      | .array .. => if kwargs.isEmpty then .ok (.list []) else .unsup "alias with arguments"
      | .map .. => if kwargs.isEmpty then .ok (.dict []) else .unsup "alias with arguments"
      | _ => .unsup "not a class generated from a struct"

/-- `json.dumps(Name(), cls=JSONEncoder)` -/
def pyDefaults (fuel : Nat) (ss : Schemas) (pkg name : String) : PRes Json :=
  (pyNew fuel ss pkg name []).map PyVal.pyEncode

/-! ### does the module import?  (a syntactic scan of every printed default) -/

mutual
def pyExprSyntaxOk : PyExpr → Bool
  | .goMap => false
  | .list items => pyExprListOk items
  | .call _ _ kw => pyKwOk kw
  | _ => true
def pyExprListOk : List PyExpr → Bool
  | [] => true
  | e :: es => pyExprSyntaxOk e && pyExprListOk es
def pyKwOk : List (String × PyExpr) → Bool
  | [] => true
  | (_, e) :: t => pyExprSyntaxOk e && pyKwOk t
end

def pyFieldSyntaxOk (fuel : Nat) (ss : Schemas) (f : Field) : Bool :=
  match pyField fuel ss f with
  | .ok (.const e) => pyExprSyntaxOk e
  | .ok (.optional (some e)) => pyExprSyntaxOk e
  | .ok (.plain e) => pyExprSyntaxOk e
  | _ => true

/-- first (object, field) whose printed default is not Python -/
def pyModuleImports (fuel : Nat) (ss : Schemas) (pkg : String) : Option (String × String) :=
  match Schemas.locate ss pkg with
  | none => none
  | some s =>
    s.objects.findSome? fun (kv : String × Obj) =>
      (structFields kv.2.ty).findSome? fun f =>
        if pyFieldSyntaxOk fuel ss f then none else some (kv.1, f.name)

end Cog.Sem.Defaults
