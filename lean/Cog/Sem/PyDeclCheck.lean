/-
  C02, Python declaration fragment: a decidable well-formedness checker for the modules `PyDecl` prints.

  It follows what CPython does with such a module when it is compiled AND imported:
  * syntax: identifiers in binding position are identifiers and none of the 35 hard keywords; parameter
    names of one `__init__` are pairwise distinct and differ from `self`; subscripts are not empty;
    `%#v` texts are Python literals; a `def` has a body; comments / docstrings do not leave their line /
    string.  cog prints `= <default>` after EVERY parameter, so "non-default argument follows default
    argument" cannot arise: `PyParam.dflt` is not optional.
  * evaluation at import time (class bodies, annotations of members and parameters, parameter defaults,
    right-hand sides of module-level aliases and constants are evaluated when the module is executed; there is
    no `from __future__ import annotations`): every bare name is a builtin; every `q.n` names an alias `q`
    bound by one of the module's import statements to `typing` / `enum` (known attribute) or to a sibling
    module `..models.<q>` that exists and declares `n`; a reference to a class of the SAME module must be a
    quoted forward reference (cog quotes all of them); an `IntEnum` / `StrEnum` accepts its member values
    and member names are distinct.
  * NOT evaluated at import time: the right-hand sides in the body of `__init__` (syntax only).
  Stricter than CPython (lint, reported separately by `lintOk`): distinct class / alias names in a module.
  Outside: import cycles between sibling modules (driver-side check, as CPython's verdict then depends on
  which module is imported first).
-/
import Cog.Sem.PyDeclRender
namespace Cog.Sem.PyDecl
open Cog Cog.IR Cog.OMap

def isIdStart (c : Char) : Bool := (c.isAlpha || c == '_')
def isIdChar (c : Char) : Bool := (c.isAlphanum || c == '_')

/-- an ASCII Python identifier that is not a hard keyword -/
def pyIdent (s : String) : Bool :=
  match s.toList with
  | [] => false
  | c :: cs => isIdStart c && cs.all isIdChar && !pyKeywords.contains s

def builtinNames : List String := ["int", "str", "bool", "float", "bytes", "object", "None", "True", "False", "list", "dict"]
def typingNames : List String := ["Optional", "Union", "Literal", "TypeAlias"]
def enumBases : List String := ["StrEnum", "IntEnum"]

/-- names bound at module level by `models/<p>.py` -/
def declaredIn (ss : Schemas) (p n : String) : Bool :=
  match Schemas.locate ss p with
  | some s => s.objects.any (fun kv => fmtObjName kv.2.name == n)
  | none => false

/-- does `q.n` evaluate, `q` being bound as `importFor q` says? -/
def attrOk (ss : Schemas) (q n : String) : Bool :=
  if q == "typing" then typingNames.contains n
  else if q == "enum" then enumBases.contains n
  else if q == "cogvariants" then false          -- the stock runtime has no `cog/variants.py`
  else pyIdent q && declaredIn ss q n

mutual
/-- expressions evaluated when the module is imported -/
def evalOk (ss : Schemas) : PyE → Bool
  | .name n => builtinNames.contains n
  | .attr q n => attrOk ss q n
  | .attr2 _ _ _ => false
  | .quoted n => pyIdent n
  | .sub h as => evalOk ss h && !as.isEmpty && evalsOk ss as
  | .lit _ ok => ok
  | .listLit xs => evalsOk ss xs
  | .call _ => false
  | .raw t => t == "{}" || t == "[]"
  | .crefTy t _ => t == "str" || t == "int"
  | .crash _ => false
def evalsOk (ss : Schemas) : List PyE → Bool
  | [] => true
  | e :: es => evalOk ss e && evalsOk ss es
end

mutual
/-- expressions that are only compiled (body of `__init__`) -/
def synOk : PyE → Bool
  | .name n => pyIdent n || n == "None" || n == "True" || n == "False"
  | .attr q n => pyIdent q && pyIdent n
  | .attr2 q o n => (q == "" || pyIdent q) && pyIdent o && pyIdent n
  | .quoted _ => true
  | .sub h as => synOk h && !as.isEmpty && synsOk as
  | .lit _ ok => ok
  | .listLit xs => synsOk xs
  | .call f => synOk f
  | .raw t => t == "{}" || t == "[]"
  | .crefTy t _ => pyIdent t
  | .crash _ => false
def synsOk : List PyE → Bool
  | [] => true
  | e :: es => synOk e && synsOk es
end

def lineOk (c : String) : Bool := c.toList.all (fun ch => ch != '\n' && ch != '\r' && ch.toNat != 0 && ch.toNat != 12)

def hasTripleQuote : List Char → Bool
  | '"' :: '"' :: '"' :: _ => true
  | _ :: cs => hasTripleQuote cs
  | [] => false

/-- the lines of a docstring stay inside the string -/
def docOk (cs : List String) : Bool :=
  cs.all (fun c => c.toList.all (fun ch => ch != '\\' && ch.toNat != 0))
    && !hasTripleQuote (String.join (cs.map fun c => c ++ "\n")).toList
    && !(String.join (cs.map fun c => c ++ "\n")).toList.contains '\r'

def isStrLit (e : PyE) : Bool := match e with | .lit t true => t.startsWith "\"" | _ => false
def digitsOnly (cs : List Char) : Bool := !cs.isEmpty && cs.all Char.isDigit
/-- `int(x)` succeeds on the literal: a number, or a quoted string of decimal digits -/
def isIntLike (e : PyE) : Bool :=
  match e with
  | .lit t true => if t.startsWith "\"" then digitsOnly ((t.toList.drop 1).dropLast) else true
  | _ => false

def nodupS (l : List String) : Bool := decide l.Nodup

def fieldOk (ss : Schemas) (f : PyField) : Bool := f.comments.all lineOk && pyIdent f.name && evalOk ss f.ann
def paramOk (ss : Schemas) (p : PyParam) : Bool := pyIdent p.name && p.name != "self" && evalOk ss p.ann && evalOk ss p.dflt
def stmtOk : PyStmt → Bool
  | .assign n e => pyIdent n && synOk e
  | .assignParam n => pyIdent n
  | .assignOr n e => pyIdent n && synOk e

def declOk (ss : Schemas) : PyDecl → Bool
  | .const cs n a v => cs.all lineOk && pyIdent n && evalOk ss a && evalOk ss v
  | .alias cs n q t => cs.all lineOk && pyIdent n && q == "typing" && evalOk ss t
  | .enumCls n q b cs ms =>
    pyIdent n && q == "enum" && enumBases.contains b && docOk cs && !ms.isEmpty
      && ms.all (fun kv => pyIdent kv.1) && nodupS (ms.map (·.1))
      && ms.all (fun kv => if b == "StrEnum" then isStrLit kv.2 else isIntLike kv.2)
  | .cls n cs fs ps b =>
    pyIdent n && docOk cs && fs.all (fieldOk ss) && ps.all (paramOk ss) && nodupS (ps.map (·.name))
      && !b.isEmpty && b.all stmtOk
  | .crash _ => false

def declsOk (ss : Schemas) : List PyDecl → Bool
  | [] => true
  | d :: ds => declOk ss d && declsOk ss ds

/-- every alias the declarations use is bound by the import block to the module the printers meant -/
def importsCover (m : PyModule) : Bool :=
  (declsAliases m.decls).all fun a => a != "" && (match rget a m.imports with
    | some i => i.pkg == (importFor a).pkg && i.module == (importFor a).module
    | none => false)

/-- every `from ..models import q` finds `models/q.py`; aliases are identifiers; the stock runtime has no
    `cog/variants.py` -/
def importOk (ss : Schemas) : String × PyImport → Bool
  | (a, i) => pyIdent a && (if i.pkg == "..models" then i.module == a && (Schemas.locate ss a).isSome
                            else if i.pkg == "..cog" then false else i.module == "" && i.pkg == a)

/-- the alias is bound as the printers mean it and the import statement succeeds -/
def aliasOk (ss : Schemas) (a : String) : Bool := importOk ss (a, importFor a)

/-- the fragment checker -/
def pyDeclCheck (ss : Schemas) (m : PyModule) : Bool :=
  m.imports.all (importOk ss) && importsCover m && declsOk ss m.decls

def declName : PyDecl → String
  | .const _ n _ _ | .alias _ n _ _ | .enumCls n _ _ _ _ | .cls n _ _ _ _ => n
  | .crash _ => ""

/-- stricter than CPython: one binding per module-level name -/
def lintOk (m : PyModule) : Bool := nodupS (m.decls.map declName)

def placeholderTexts : List String := ["unknown"]

mutual
def exprPlaceholder : PyE → Bool
  | .name n => n == "unknown"
  | .crefTy t _ => t == "unknown"
  | .lit t _ => t == "\"unknown\""
  | .sub h as => exprPlaceholder h || exprsPlaceholder as
  | .listLit xs => exprsPlaceholder xs
  | .call f => exprPlaceholder f
  | _ => false
def exprsPlaceholder : List PyE → Bool
  | [] => false
  | e :: es => exprPlaceholder e || exprsPlaceholder es
end

end Cog.Sem.PyDecl
