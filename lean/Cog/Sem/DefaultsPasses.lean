/-
  C10: the configured schema transformation that DECLARES defaults,
  internal/ast/compiler/disjunction_with_constant_to_default.go (`processDisjunction`): a two-branch
  disjunction of scalars of the same kind, exactly one of which is a constant ("auto" | string),
  becomes the open branch with the constant as its default — whichever branch comes first.
  Tied to the code by the `c10-passes` stream (the real pass on generated disjunctions).
-/
import Cog.Sem.DefaultsFits
namespace Cog.Sem.Defaults
open Cog.Sem Cog.IR

/-- `DisjunctionWithConstantToDefault.processDisjunction` -/
def cddHook : Ty → Ty
  | .disj [.scalar ka va ca ma, .scalar kb vb cb mb] info m =>
    if ka ≠ kb then .disj [.scalar ka va ca ma, .scalar kb vb cb mb] info m
    else if (!va.isNilV) == (!vb.isNilV) then .disj [.scalar ka va ca ma, .scalar kb vb cb mb] info m
    else if !va.isNilV then .scalar kb vb cb { mb with dflt := va }
    else .scalar ka va ca { ma with dflt := vb }
  | t => t

/-- the field the pass leaves behind declares the constant, in either order -/
theorem cdd_declares_constant (name : String) (req : Bool) (kind : String) (c : Val) (cs cs' : List Constraint)
    (mo mc : Meta) (info : DisjInfo) (m : Meta) (hc : c.isNilV = false) :
    declaredOf { name := name, ty := cddHook (.disj [.scalar kind c cs' mc, .scalar kind .nil cs mo] info m), required := req }
      = valJson c ∧
    declaredOf { name := name, ty := cddHook (.disj [.scalar kind .nil cs mo, .scalar kind c cs' mc] info m), required := req }
      = valJson c := by
  have hn : Val.nil.isNilV = true := rfl
  constructor <;> simp [cddHook, hc, hn, declaredOf, Ty.isConcrete, Ty.getMeta]

/-- … and the two spellings yield the very same type -/
theorem cdd_order_irrelevant (kind : String) (c : Val) (cs cs' : List Constraint) (mo mc : Meta)
    (info info' : DisjInfo) (m m' : Meta) (hc : c.isNilV = false) :
    cddHook (.disj [.scalar kind c cs' mc, .scalar kind .nil cs mo] info m) =
    cddHook (.disj [.scalar kind .nil cs mo, .scalar kind c cs' mc] info' m') := by
  have hn : Val.nil.isNilV = true := rfl
  simp [cddHook, hc, hn]

end Cog.Sem.Defaults
