/-
  C10, Python side: inversion lemmas for `pyNew` / `pyInitField` / `pyEncode` and the
  per-value-type lemmas behind `C10_py_partial`.
-/
import Cog.Sem.DefaultsGoLemmas
namespace Cog.Sem.Defaults
open Cog.Sem Cog.IR
open PyVal (pyEncode encRequired encOptional isNone encList encDict)

theorem PRes.bind_eq_ok {α β} {x : PRes α} {f : α → PRes β} {b : β} :
    x.bind f = .ok b ↔ ∃ a, x = .ok a ∧ f a = .ok b := by
  cases x <;> simp [PRes.bind]

theorem PRes.map_eq_ok {α β} {x : PRes α} {f : α → β} {b : β} :
    x.map f = .ok b ↔ ∃ a, x = .ok a ∧ f a = b := by
  cases x <;> simp [PRes.map, PRes.bind]

/-! ### JSON lookup in the encoded instance -/

theorem lookup_append {k : String} : ∀ {a b : List (String × Json)},
    Json.lookup k (a ++ b) = (match Json.lookup k a with | some v => some v | none => Json.lookup k b)
  | [], b => by simp [Json.lookup]
  | (k', v) :: t, b => by
    by_cases h : k' = k
    · simp [Json.lookup, h]
    · simp [Json.lookup, h, lookup_append (a := t) (b := b)]

section init
variable {F : Field → PRes (String × Bool × PyVal)}

/-- every entry produced by the field loop carries its field's name and requiredness -/
def Shaped (F : Field → PRes (String × Bool × PyVal)) : Prop :=
  ∀ f x, F f = .ok x → x.1 = f.name ∧ x.2.1 = f.required

theorem mapPRes_lookup_none (hs : Shaped F) {name : String} : ∀ {fs : List Field} {l : List (String × Bool × PyVal)},
    mapPRes F fs = .ok l → fieldByName name fs = none →
    Json.lookup name (encRequired l) = none ∧ Json.lookup name (encOptional l) = none
  | [], l, h, _ => by simp [mapPRes] at h; subst h; simp [encRequired, encOptional, Json.lookup]
  | g :: rest, l, h, hn => by
    unfold mapPRes at h
    obtain ⟨x, hx, h2⟩ := PRes.bind_eq_ok.mp h
    obtain ⟨l', hl', h3⟩ := PRes.bind_eq_ok.mp h2
    cases h3
    unfold fieldByName at hn
    by_cases hg : g.name = name
    · simp [hg] at hn
    · simp [hg] at hn
      obtain ⟨i1, i2⟩ := mapPRes_lookup_none hs hl' hn
      obtain ⟨s1, s2⟩ := hs g x hx
      obtain ⟨xk, xr, xv⟩ := x
      simp at s1 s2
      subst s1
      subst s2
      constructor
      · unfold encRequired
        by_cases hr : g.required = true
        · simp [hr, Json.lookup, hg, i1]
        · simp [hr, i1]
      · unfold encOptional
        by_cases hr : (g.required || isNone xv) = true
        · simp [hr, i2]
        · simp [hr, Json.lookup, hg, i2]

theorem mapPRes_lookup (hs : Shaped F) : ∀ {fs : List Field} {l : List (String × Bool × PyVal)},
    mapPRes F fs = .ok l → namesNodup fs = true → ∀ f ∈ fs, ∀ pv, F f = .ok (f.name, f.required, pv) →
    Json.lookup f.name (encRequired l ++ encOptional l) =
      if (!f.required && isNone pv) = true then none else some (pyEncode pv)
  | [], _, _, _, f, hf => by cases hf
  | g :: rest, l, h, hn, f, hf => by
    intro pv hpv
    simp [namesNodup] at hn
    unfold mapPRes at h
    obtain ⟨x, hx, h2⟩ := PRes.bind_eq_ok.mp h
    obtain ⟨l', hl', h3⟩ := PRes.bind_eq_ok.mp h2
    cases h3
    rcases List.mem_cons.mp hf with rfl | hm
    · rw [hpv] at hx
      cases hx
      obtain ⟨i1, i2⟩ := mapPRes_lookup_none hs hl' hn.1
      rw [lookup_append]
      unfold encRequired encOptional
      cases hr : f.required with
      | true => simp [Json.lookup]
      | false =>
        cases hnone : isNone pv with
        | true => simp [i1, i2]
        | false => simp [i1, Json.lookup]
    · have hne : g.name ≠ f.name := fun e => (fieldByName_none hn.1 f hm) e.symm
      have ih := mapPRes_lookup hs hl' hn.2 f hm pv hpv
      rw [lookup_append] at ih ⊢
      obtain ⟨s1, s2⟩ := hs g x hx
      obtain ⟨xk, xr, xv⟩ := x
      simp at s1 s2
      subst s1
      subst s2
      unfold encRequired encOptional
      cases hr : g.required with
      | true => simpa [Json.lookup, hne] using ih
      | false =>
        cases hnone : isNone xv with
        | true => simpa using ih
        | false =>
          simp [Json.lookup, hne]
          cases h1 : Json.lookup f.name (encRequired l') with
          | some w => simp [h1] at ih ⊢; exact ih
          | none => simp [h1] at ih ⊢; exact ih

end init

/-! ### values Python prints and evaluates faithfully -/

section eval
variable {new : String → String → List (String × PyVal) → PRes PyVal} {ss : Schemas}

theorem pyEval_scalar {v : Val} {pv : PyVal} (hs : pyScalarVal? v = true)
    (he : pyEval new ss (pyOfVal v) = .ok pv) :
    valJson v = some (pyEncode pv) ∧ flat (pyEncode pv) = true ∧ isNone pv = false := by
  cases v <;> simp [pyScalarVal?] at hs
  · rename_i b
    simp [pyOfVal, pyEval] at he; subst he
    simp [valJson, pyEncode, flat, isNone]
  · rename_i t n
    simp [pyOfVal, pyEval] at he; subst he
    simp [valJson, pyEncode, flat, isNone]
  · rename_i t r
    cases hq : numQuarters r with
    | none => simp [hq] at hs
    | some q =>
      simp [pyOfVal, pyEval, hq] at he; subst he
      simp [valJson, hq, pyEncode, flat, isNone]
  · rename_i s
    simp [pyOfVal, pyEval] at he; subst he
    simp [valJson, pyEncode, flat, isNone]

theorem pyEvalList_scalars : ∀ {xs : List Val} {pvs : List PyVal}, allPyScalar xs = true →
    pyEvalList new ss (pyOfValList xs) = .ok pvs →
    valJsonList xs = some (encList pvs) ∧ flatList (encList pvs) = true
  | [], pvs, _, h => by
    simp [pyOfValList, pyEvalList] at h; subst h
    simp [valJsonList, encList, flatList]
  | x :: t, pvs, ha, h => by
    simp only [allPyScalar, Bool.and_eq_true] at ha
    simp only [pyOfValList, pyEvalList] at h
    obtain ⟨p0, hp0, h2⟩ := PRes.bind_eq_ok.mp h
    obtain ⟨pt, hpt, h3⟩ := PRes.map_eq_ok.mp h2
    subst h3
    obtain ⟨a1, a2, _⟩ := pyEval_scalar ha.1 hp0
    obtain ⟨b1, b2⟩ := pyEvalList_scalars ha.2 hpt
    simp [valJsonList, a1, b1, encList, flatList, a2, b2]

/-- a scalar or a list of scalars: what Python evaluates the printed default to encodes to the
    JSON the default stands for -/
theorem pyEval_plain {v : Val} {pv : PyVal} (hp : pyPlainVal v = true)
    (he : pyEval new ss (pyOfVal v) = .ok pv) :
    valJson v = some (pyEncode pv) ∧ flat (pyEncode pv) = true ∧ isNone pv = false := by
  cases hv : v with
  | list xs =>
    subst hv
    simp only [pyPlainVal] at hp
    simp only [pyOfVal, pyEval] at he
    obtain ⟨pvs, hpvs, rfl⟩ := PRes.map_eq_ok.mp he
    obtain ⟨a1, a2⟩ := pyEvalList_scalars hp hpvs
    simp [valJson, a1, pyEncode, flat, a2, isNone]
  | _ =>
    subst hv
    first
      | exact pyEval_scalar (by simpa [pyPlainVal] using hp) he
      | simp [pyPlainVal, pyScalarVal?] at hp

end eval

/-! ### `__init__` -/

section initfield
variable {new : String → String → List (String × PyVal) → PRes PyVal} {ss : Schemas} {k : Nat}

theorem pyInitField_shaped {kw : List (String × PyVal)} : Shaped (pyInitField new k ss kw) := by
  intro f x h
  unfold pyInitField at h
  obtain ⟨pf, _, h2⟩ := PRes.bind_eq_ok.mp h
  cases pf with
  | const e =>
    simp only at h2
    split at h2
    · simp at h2
    · obtain ⟨v, _, rfl⟩ := PRes.map_eq_ok.mp h2; exact ⟨rfl, rfl⟩
  | optional dv =>
    simp only at h2
    split at h2
    · cases h2; exact ⟨rfl, rfl⟩
    · split at h2
      · obtain ⟨v, _, rfl⟩ := PRes.map_eq_ok.mp h2; exact ⟨rfl, rfl⟩
      · cases h2; exact ⟨rfl, rfl⟩
    · cases h2; exact ⟨rfl, rfl⟩
    · obtain ⟨v, _, rfl⟩ := PRes.map_eq_ok.mp h2; exact ⟨rfl, rfl⟩
  | plain e =>
    simp only at h2
    obtain ⟨d, _, h3⟩ := PRes.bind_eq_ok.mp h2
    split at h3 <;> (cases h3; exact ⟨rfl, rfl⟩)

theorem pyDefaultExpr_own {t : Ty} {ov : List (String × Val)} {r : Option PyExpr}
    (h : pyDefaultExpr k ss t ov = .ok r) (hnr : t.isRef = false) (hd : t.getMeta.dflt.isNilV = false) :
    r = some (pyOfVal t.getMeta.dflt) := by
  cases k with
  | zero => simp [pyDefaultExpr] at h
  | succ k0 =>
    simp [pyDefaultExpr, hnr, hd] at h
    exact h.symm

/-- a field that is not a reference and declares a constant or a default of its own: the value the
    instance holds is what Python evaluates the printed value to -/
theorem pyInitField_own {f : Field} {x : String × Bool × PyVal} {v : Val}
    (h : pyInitField new k ss [] f = .ok x) (hnr : f.ty.isRef = false) (hnc : isCRef f.ty = false)
    (hv : v = if f.ty.isConcrete then scalarValue f.ty else f.ty.getMeta.dflt) (hvn : v.isNilV = false) :
    ∃ pv, x = (f.name, f.required, pv) ∧ pyEval new ss (pyOfVal v) = .ok pv := by
  unfold pyInitField at h
  obtain ⟨pf, hpf, h2⟩ := PRes.bind_eq_ok.mp h
  unfold pyField at hpf
  simp only [hnc, Bool.false_eq_true, if_false] at hpf
  obtain ⟨dv, hdv, h3⟩ := PRes.bind_eq_ok.mp hpf
  by_cases hc : f.ty.isConcrete = true
  · simp only [hc, if_true] at h3 hv
    cases h3
    simp only [lookupPV, Option.isSome_none, Bool.false_eq_true, if_false] at h2
    obtain ⟨pv, hpv, rfl⟩ := PRes.map_eq_ok.mp h2
    exact ⟨pv, rfl, by rw [hv]; exact hpv⟩
  · have hc0 : f.ty.isConcrete = false := by simpa using hc
    simp only [hc0, Bool.false_eq_true, if_false] at h3 hv
    subst hv
    have hdv' : dv = some (pyOfVal f.ty.getMeta.dflt) := by
      simp only [hvn, Bool.not_false, Bool.or_true, if_true] at hdv
      exact pyDefaultExpr_own hdv hnr hvn
    subst hdv'
    by_cases ho : isOptionalKind f.ty = true
    · simp only [ho, if_true] at h3
      cases h3
      simp only [lookupPV] at h2
      obtain ⟨pv, hpv, rfl⟩ := PRes.map_eq_ok.mp h2
      exact ⟨pv, rfl, hpv⟩
    · simp only [ho, if_false] at h3
      cases h3
      simp only [optExpr, lookupPV] at h2
      obtain ⟨pv, hpv, h4⟩ := PRes.bind_eq_ok.mp h2
      cases h4
      exact ⟨pv, rfl, hpv⟩

end initfield

end Cog.Sem.Defaults
