/-
  C02 helper lemmas, part 6: struct literals of any nesting depth, the declarations of one object,
  and the assembly `GoPrintable S → wfNames S → wellTyped (emitEnv cfg S)`.
-/
import Cog.Sem.GoDeclLemmas5
namespace Cog.Sem.GoDecl
open Cog.IR Cog.OMap
open Cog.Passes (ucc cleanupNames)

theorem rget_of_mem {k : String} {o : Obj} : ∀ {l : List (String × Obj)}, (k, o) ∈ l → (l.map (·.1)).Nodup → rget k l = some o
  | [], h, _ => by cases h
  | (k0, o0) :: rest, h, hnd => by
    simp only [List.map_cons, List.nodup_cons] at hnd
    simp only [rget]
    rcases List.mem_cons.mp h with heq | hr
    · cases heq; simp
    · have hne : k0 ≠ k := by
        intro e; subst e
        exact hnd.1 (List.mem_map.mpr ⟨(k0, o), hr, rfl⟩)
      simp [hne, rget_of_mem hr hnd.2]

theorem locate_of_mem : ∀ {ss : List Schema} {s : Schema}, s ∈ ss → (ss.map (·.pkg)).Nodup → Schemas.locate ss s.pkg = some s
  | [], _, h, _ => by cases h
  | s0 :: rest, s, h, hnd => by
    simp only [List.map_cons, List.nodup_cons] at hnd
    simp only [Schemas.locate]
    rcases List.mem_cons.mp h with rfl | hr
    · simp
    · have hne : s0.pkg ≠ s.pkg := by
        intro e
        exact hnd.1 (e ▸ List.mem_map.mpr ⟨s, hr, rfl⟩)
      simp [hne, locate_of_mem hr hnd.2]

theorem fieldsTyOk_mem {ss : Schemas} : ∀ {fs : List Field} {f : Field}, fieldsTyOk ss fs = true → f ∈ fs → tyOk ss f.ty = true
  | [], _, _, h => by cases h
  | f0 :: rest, f, hok, h => by
    simp only [fieldsTyOk, Bool.and_eq_true] at hok
    rcases List.mem_cons.mp h with rfl | hr
    · exact hok.1.1
    · exact fieldsTyOk_mem hok.2 hr

theorem defaultsOk_mem {ss : Schemas} {fuel : Nat} {extras : List (String × Val)} : ∀ {fs : List Field} {f : Field},
    defaultsOk ss fuel fs extras = true → f ∈ fs → fieldDefaultOk ss fuel f extras = true
  | [], _, _, h => by cases h
  | f0 :: rest, f, hok, h => by
    rw [defaultsOk_cons, Bool.and_eq_true] at hok
    rcases List.mem_cons.mp h with rfl | hr
    · exact hok.1
    · exact defaultsOk_mem hok.2 hr

theorem tyOk_notBad {ss : Schemas} {t : Ty} (h : tyOk ss t = true) : isBad t = false := by
  cases t <;> simp [tyOk] at h <;> rfl

section
variable {cfg : Cfg} {ss : Schemas}

/-- what the induction on the nesting depth carries: every field literal fits -/
def FieldsFitAt (cfg : Cfg) (ss : Schemas) (K fuel : Nat) : Prop :=
  ∀ (f : Field) (extras : List (String × Val)), tyOk ss f.ty = true → fieldDefaultOk ss fuel f extras = true →
    FieldFits (emitEnv cfg ss) (K + 2) (ctxOf cfg ss) f (defaultsField (ctxOf cfg ss) fuel f extras)

/-- the literal of a struct object is of that object's type -/
theorem structLit_typed (h : EnvFacts cfg ss) (K : Nat) (fuel : Nat) (ih : FieldsFitAt cfg ss K fuel)
    {p n : String} {o : Obj} {rfs : List Field} {g : List Ty} {gi : Option (String × DisjInfo)} {om : Meta} (d : Val)
    (hl : ss.locateObject p n = some o) (hoty : o.ty = .struct rfs g gi om) (hnn : om.nullable = false)
    (hnames : fieldNamesOk rfs = true) (htys : fieldsTyOk ss rfs = true)
    (hok : structDefaultOk ss (fuel + 1) rfs d = true) :
    exprTy (emitEnv cfg ss) (K + 2) (defaultsForStruct (ctxOf cfg ss) (fuel + 1) p n rfs d) = .typed (.named (fmtPkg p) (ucc n)) := by
  rw [structDefaultOk_succ] at hok
  rw [defaultsForStruct_succ]
  have hnd : (fieldNames rfs).Nodup := by
    simp only [fieldNamesOk, Bool.and_eq_true, nodupB_iff] at hnames; exact hnames.2
  simp only [Ctx.mapPkg]
  refine h.composite_typed hl hoty hnn K ?_ ?_
  · exact (defaultsFields_keys (ctxOf cfg ss) fuel (extrasOf d) rfs).nodup hnd
  · exact defaultsFields_fit _ _ _ fuel (extrasOf d) rfs hnd rfs (fun _ hx => hx)
      (fun f hf => ih f (extrasOf d) (fieldsTyOk_mem htys hf) (defaultsOk_mem hok hf))

theorem fieldsFitAt (h : EnvFacts cfg ss) (K : Nat) : ∀ fuel : Nat, FieldsFitAt cfg ss K fuel := by
  intro fuel
  induction fuel with
  | zero =>
    intro f extras hty hok
    rw [fieldDefaultOk_eq] at hok
    rw [defaultsField_eq]
    simp only [tyOk_notBad hty, Bool.false_eq_true, if_false, Ctx.resolve, Ctx.fuel, ctxOf]
    cases hres : ss.resolveToType (ss.objectCount + 2) f.ty with
    | none => simp [hres] at hok
    | some resolved =>
      simp only [hres] at hok ⊢
      refine fieldLit_fits h K f resolved extras _ _ hres hty ?_ hok
      intro p n o rfs g gi om d _ _ _ _ _ hn
      simp [structDefaultOk_zero] at hn
  | succ k ih =>
    intro f extras hty hok
    rw [fieldDefaultOk_eq] at hok
    rw [defaultsField_eq]
    simp only [tyOk_notBad hty, Bool.false_eq_true, if_false, Ctx.resolve, Ctx.fuel, ctxOf]
    cases hres : ss.resolveToType (ss.objectCount + 2) f.ty with
    | none => simp [hres] at hok
    | some resolved =>
      simp only [hres] at hok ⊢
      refine fieldLit_fits h K f resolved extras _ _ hres hty ?_ hok
      intro p n o rfs g gi om d hl hoty hnn hnames htys hn
      exact structLit_typed h K k ih d hl hoty hnn hnames htys hn

end

end Cog.Sem.GoDecl
