/-
  C02 — text rendering of the `GoDecl` syntax (driver side; no theorem depends on it).

  The rendering follows the `fmt.Sprintf` formats of types.go / rawtypes.go.  It is compared with the
  declarations cog REALLY wrote into `types_gen.go` (type/const declarations and `New…` functions,
  comments and methods removed, printed by go/printer) after deleting all white space on both sides:
  this is the tie between `emitEnv` and the printing code of /repo.
-/
import Cog.Sem.GoDecl
namespace Cog.Sem.GoDecl

def hexDigitC (n : Nat) : Char := if n < 10 then Char.ofNat (48 + n) else Char.ofNat (87 + n)

def natHex (n : Nat) : String :=
  if n == 0 then "0" else
  let rec go (fuel n : Nat) (acc : List Char) : List Char :=
    match fuel with
    | 0 => acc
    | fuel + 1 => if n == 0 then acc else go fuel (n / 16) (hexDigitC (n % 16) :: acc)
  String.ofList (go 64 n [])

/-- `strconv.Quote` on ASCII (printable non-ASCII runes are kept, as Go does) -/
def goQuote (s : String) : String :=
  let body := s.foldl (fun acc c =>
    if c == '"' then acc ++ "\\\""
    else if c == '\\' then acc ++ "\\\\"
    else if c == '\n' then acc ++ "\\n"
    else if c == '\t' then acc ++ "\\t"
    else if c == '\r' then acc ++ "\\r"
    else if c.toNat == 7 then acc ++ "\\a"
    else if c.toNat == 8 then acc ++ "\\b"
    else if c.toNat == 12 then acc ++ "\\f"
    else if c.toNat == 11 then acc ++ "\\v"
    else if c.toNat < 32 || c.toNat == 127 then
      acc ++ "\\x" ++ String.singleton (hexDigitC (c.toNat / 16)) ++ String.singleton (hexDigitC (c.toNat % 16))
    else acc.push c) ""
  "\"" ++ body ++ "\""

def qual (cur pkg name : String) : String := if pkg == cur then name else pkg ++ "." ++ name

mutual
def renderTy (cur : String) : GoTy → String
  | .prim n => n
  | .named p n => qual cur p n
  | .ptr t => "*" ++ renderTy cur t
  | .slice t => "[]" ++ renderTy cur t
  | .map k v => "map[" ++ renderTy cur k ++ "]" ++ renderTy cur v
  | .struct fs => "struct {\n" ++ renderFields cur fs ++ "}"
  | .placeholder t => t
  | .crash s => "<crash " ++ s ++ ">"
def renderFields (cur : String) : List GoField → String
  | [] => ""
  | f :: fs =>
    (if f.embedded then renderTy cur f.ty
     else f.name ++ " " ++ renderTy cur f.ty ++ " `json:\"" ++ f.jsonName ++ (if f.omitEmpty then ",omitempty" else "") ++ "\"`")
    ++ "\n" ++ renderFields cur fs
end

mutual
def renderExpr (cur : String) : GoExpr → String
  | .nil => "nil"
  | .bool b => if b then "true" else "false"
  | .int n hex => if hex then "0x" ++ natHex n.toNat else toString n
  | .float r => r
  | .str s => goQuote s
  | .sliceLit t xs => "[]" ++ renderTy cur t ++ "{" ++ renderExprs cur xs ++ "}"
  | .mapLit k v kvs => "map[" ++ renderTy cur k ++ "]" ++ renderTy cur v ++ "{" ++ renderKVs cur true kvs ++ "}"
  | .ident p n => qual cur p n
  | .call p f => qual cur p f ++ "()"
  | .deref e => "*" ++ renderExpr cur e
  | .addr e => "&" ++ renderExpr cur e
  | .toPtr t e => "(func (input " ++ renderTy cur t ++ ") *" ++ renderTy cur t ++ " { return &input })(" ++ renderExpr cur e ++ ")"
  | .composite t fs => renderTy cur t ++ "{\n" ++ renderKVs cur false fs ++ "}"
  | .raw t => t
  | .placeholder t => goQuote t
  | .crash s => "<crash " ++ s ++ ">"
def renderExprs (cur : String) : List GoExpr → String
  | [] => ""
  | [e] => renderExpr cur e
  | e :: es => renderExpr cur e ++ ", " ++ renderExprs cur es
/-- `quoted`: keys of a `%#v` map (quoted strings, `, ` separated); otherwise struct literal fields (one per line, trailing comma) -/
def renderKVs (cur : String) (quoted : Bool) : List (String × GoExpr) → String
  | [] => ""
  | (k, e) :: es =>
    if quoted then goQuote k ++ ":" ++ renderExpr cur e ++ (if es.isEmpty then "" else ", ") ++ renderKVs cur quoted es
    else k ++ ": " ++ renderExpr cur e ++ ",\n" ++ renderKVs cur quoted es
end

def renderMembers (cur enumName : String) : List (String × GoExpr) → String
  | [] => ""
  | (n, v) :: ms => "\t" ++ n ++ " " ++ enumName ++ " = " ++ renderExpr cur v ++ "\n" ++ renderMembers cur enumName ms

def renderDecl (cur : String) : GoDecl → String
  | .typeDef n t => "type " ++ n ++ " " ++ renderTy cur t
  | .alias n t => "type " ++ n ++ " = " ++ renderTy cur t
  | .const n v => "const " ++ n ++ " = " ++ renderExpr cur v
  | .enumDef n u ms => "type " ++ n ++ " " ++ renderTy cur u ++ "\nconst (\n" ++ renderMembers cur n ms ++ ")"
  | .ctor n r b => "func " ++ n ++ "() *" ++ r ++ " {\n\treturn " ++ renderExpr cur b ++ "\n}"
  | .placeholder t => t
  | .crash s => "<crash " ++ s ++ ">"

def renderDecls (cur : String) (ds : List GoDecl) : String := "\n".intercalate (ds.map (renderDecl cur))

def isSpaceC (c : Char) : Bool := c == ' ' || c == '\n' || c == '\t' || c == '\r'
def stripWs (s : String) : String := String.ofList (s.toList.filter (fun c => !isSpaceC c))

end Cog.Sem.GoDecl
