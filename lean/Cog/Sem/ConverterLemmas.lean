/-
  Helper lemmas about the model of the generated converters (`Cog.Sem.Conv`): unfolding equations
  of the fuelled interpreter, the shape of the mappings `convertOptions` produces for builders
  whose assignments are all direct, and the names of the calls a list of such mappings emits.
-/
import Cog.Sem.Converter
import Cog.Sem.GoBuilderLemmas
namespace Cog.Sem.Conv
open Cog.IR Cog.Builder Cog.Sem.GB

/-! ### unfolding equations -/

theorem runOptMap_succ (c : Ctx) (f : Nat) (env : VEnv) (om : OptMap) :
    runOptMap c (f + 1) env om = (evalGuards env om.argGuards).bind fun ok =>
      if !ok then .ok [] else (runArgs c f env om.args).map fun as => [Call.mk om.opt.name as] := rfl

theorem runOptMaps_nil (c : Ctx) (f : Nat) (env : VEnv) : runOptMaps c (f + 1) env [] = .ok [] := rfl

theorem runOptMaps_cons (c : Ctx) (f : Nat) (env : VEnv) (om : OptMap) (rest : List OptMap) :
    runOptMaps c (f + 1) env (om :: rest) =
      (runOptMap c f env om).bind fun cs => (runOptMaps c f env rest).map (cs ++ ·) := rfl

theorem runConvMaps_nil (c : Ctx) (f : Nat) (env : VEnv) : runConvMaps c (f + 1) env [] = .ok [] := rfl

theorem runConvMaps_cons (c : Ctx) (f : Nat) (env : VEnv) (m : ConvMap) (rest : List ConvMap) :
    runConvMaps c (f + 1) env (m :: rest) =
      (runConvMap c f env m).bind fun cs => (runConvMaps c f env rest).map (cs ++ ·) := rfl

theorem runConvMap_norepeat (c : Ctx) (f : Nat) (env : VEnv) (m : ConvMap) (h : m.repeatFor = none) :
    runConvMap c (f + 1) env m =
      (evalGuards env (match m.options with | om :: _ => om.guards | [] => [])).bind fun ok =>
        if !ok then .ok [] else runOptMaps c f env m.options := by
  show (let guards := match m.options with | om :: _ => om.guards | [] => []
        (evalGuards env guards).bind fun ok =>
          if !ok then .ok [] else
          match m.repeatFor with
          | none => runOptMaps c f env m.options
          | some p => _) = _
  simp only [h]

theorem runConverter_succ (c : Ctx) (f : Nat) (b : Builder) (v : GoVal) :
    runConverter c (f + 1) b v =
      (runCtorArgs c f [("input", v)] (mkConverter c b).ctorArgs).bind fun ctor =>
        (runConvMaps c f [("input", v)] (mkConverter c b).mappings).map fun calls => (ctor, calls) := rfl

theorem runCtorArgs_nil (c : Ctx) (f : Nat) (env : VEnv) : runCtorArgs c (f + 1) env [] = .ok [] := rfl

theorem runCtorArgs_cons (c : Ctx) (f : Nat) (env : VEnv) (p : Builder.Path) (t : Ty) (rest : List (Builder.Path × Ty)) :
    runCtorArgs c (f + 1) env ((p, t) :: rest) =
      (runArg c f env (.direct p t)).bind fun a => (runCtorArgs c f env rest).map (a :: ·) := rfl

/-! ### a non-repeating mapping with at most one option emits at most one call, named after it -/

theorem runOptMap_names {c : Ctx} {f : Nat} {env : VEnv} {om : OptMap} {calls : List Call}
    (h : runOptMap c f env om = .ok calls) :
    calls = [] ∨ ∃ as, calls = [Call.mk om.opt.name as] ∧ as.length = om.args.length := by
  cases f with
  | zero => simp [runOptMap] at h
  | succ f =>
    rw [runOptMap_succ] at h
    obtain ⟨ok, _, h2⟩ := BRes.bind_eq_ok.mp h
    split at h2
    · simp at h2; exact .inl h2
    · obtain ⟨as, has, rfl⟩ := BRes.map_eq_ok.mp h2
      refine .inr ⟨as, rfl, ?_⟩
      -- one argument per argument mapping
      have : ∀ (f : Nat) (ams : List ArgMap) (as : List Arg), runArgs c f env ams = .ok as → as.length = ams.length := by
        intro f
        induction f with
        | zero => intro ams as h; simp [runArgs] at h
        | succ f ih =>
          intro ams as h
          cases ams with
          | nil =>
            have : runArgs c (f + 1) env [] = .ok [] := rfl
            rw [this] at h; simp at h; subst h; rfl
          | cons am rest =>
            have e : runArgs c (f + 1) env (am :: rest) =
                (runArg c f env am).bind fun a => (runArgs c f env rest).map (a :: ·) := rfl
            rw [e] at h
            obtain ⟨a, _, h3⟩ := BRes.bind_eq_ok.mp h
            obtain ⟨as', h4, rfl⟩ := BRes.map_eq_ok.mp h3
            simp [ih rest as' h4]
      exact this f om.args as has

/-- the relation between the mappings `convertOptions` yields and the options, when every
    assignment is direct: one mapping per option, in order, not repeating, holding the option or
    nothing -/
def Rel : List ConvMap → List Opt → Prop
  | [], [] => True
  | m :: ms, o :: os => m.repeatFor = none ∧ (m.options = [] ∨ ∃ om, m.options = [om] ∧ om.opt = o) ∧ Rel ms os
  | _, _ => False

def AllDirect (os : List Opt) : Prop := ∀ o ∈ os, ∀ a ∈ o.assignments, a.method = "direct"

theorem mappingForOption_opt {c : Ctx} {b : Builder} {rep : Option (String × String)} {st st' : GenState}
    {o : Opt} {om : OptMap} (h : mappingForOption c b rep st o = (some om, st')) :
    om.opt = o ∧ st'.disjLists = st.disjLists := by
  unfold mappingForOption at h
  simp only at h
  split at h
  · simp at h
  · simp at h
    obtain ⟨h1, h2⟩ := h
    subst h1 h2
    exact ⟨rfl, rfl⟩

theorem mappingForOption_none {c : Ctx} {b : Builder} {rep : Option (String × String)} {st st' : GenState}
    {o : Opt} (h : mappingForOption c b rep st o = (none, st')) : st'.disjLists = st.disjLists := by
  unfold mappingForOption at h
  simp only at h
  split at h
  · simp at h; rw [← h]
  · simp at h

theorem convertOption_direct {c : Ctx} {b : Builder} {st : GenState} {o : Opt}
    (hd : ∀ a ∈ o.assignments, a.method = "direct") :
    (convertOption c b st o).1.repeatFor = none ∧
    ((convertOption c b st o).1.options = [] ∨ ∃ om, (convertOption c b st o).1.options = [om] ∧ om.opt = o) ∧
    (convertOption c b st o).2.disjLists = st.disjLists := by
  unfold convertOption
  simp only
  split
  · exact ⟨rfl, .inl rfl, rfl⟩
  · rename_i a0 more hf
    have hmem : a0 ∈ o.assignments := by
      have : a0 ∈ o.assignments.filter fun a => !st.generated.contains (assignmentKey a) := by rw [hf]; simp
      exact (List.mem_filter.mp this).1
    have hm := hd a0 hmem
    have h1 : ¬ (a0.method = "append") := by rw [hm]; decide
    have h2 : ¬ (a0.method = "index") := by rw [hm]; decide
    simp [h1, h2]
    cases hmo : mappingForOption c b none st o with
    | mk r st' =>
      cases r with
      | none => simpa [hmo] using mappingForOption_none hmo
      | some om =>
        obtain ⟨e1, e2⟩ := mappingForOption_opt hmo
        simpa [hmo, e1] using e2

theorem convertOptions_direct {c : Ctx} {b : Builder} :
    ∀ {os : List Opt} {st : GenState}, AllDirect os →
      Rel (convertOptions c b os st).1 os ∧ (convertOptions c b os st).2.disjLists = st.disjLists
  | [], st, _ => by simp [convertOptions, Rel]
  | o :: os, st, hd => by
    have ho := convertOption_direct (c := c) (b := b) (st := st) (o := o) (hd o (by simp))
    have hrest := convertOptions_direct (c := c) (b := b) (os := os) (st := (convertOption c b st o).2)
      (fun o' ho' => hd o' (by simp [ho']))
    unfold convertOptions
    simp only
    exact ⟨⟨ho.1, ho.2.1, hrest.1⟩, hrest.2.trans ho.2.2⟩

/-- the calls a list of such mappings emits are named by a subsequence of the options -/
theorem runConvMaps_sublist {c : Ctx} {env : VEnv} :
    ∀ {ms : List ConvMap} {os : List Opt} {f : Nat} {calls : List Call}, Rel ms os →
      runConvMaps c f env (ms.filter fun m => !m.options.isEmpty) = .ok calls →
      (calls.map Call.opt).Sublist (os.map (·.name))
  | [], [], f, calls, _, h => by
    cases f with
    | zero => simp [runConvMaps] at h
    | succ f => simp [runConvMaps_nil] at h; subst h; simp
  | [], _ :: _, _, _, hr, _ => by simp [Rel] at hr
  | _ :: _, [], _, _, hr, _ => by simp [Rel] at hr
  | m :: ms, o :: os, f, calls, hr, h => by
    obtain ⟨hrep, hopt, hrest⟩ := hr
    rcases hopt with hempty | ⟨om, hom, hopt⟩
    · -- filtered out
      simp only [List.filter_cons, hempty, List.isEmpty_nil, Bool.not_true, Bool.false_eq_true, if_false] at h
      exact (runConvMaps_sublist hrest h).cons _
    · simp only [List.filter_cons, hom, List.isEmpty_cons, Bool.not_false, if_true] at h
      cases f with
      | zero => simp [runConvMaps] at h
      | succ f =>
        rw [runConvMaps_cons] at h
        obtain ⟨cs, h1, h2⟩ := BRes.bind_eq_ok.mp h
        obtain ⟨rest, h3, rfl⟩ := BRes.map_eq_ok.mp h2
        have ih := runConvMaps_sublist hrest h3
        -- the calls of this mapping: none, or one call named after the option
        have hcs : cs = [] ∨ ∃ as, cs = [Call.mk o.name as] := by
          cases f with
          | zero => simp [runConvMap] at h1
          | succ f =>
            rw [runConvMap_norepeat c f env m hrep, hom] at h1
            obtain ⟨ok, _, h4⟩ := BRes.bind_eq_ok.mp h1
            split at h4
            · simp at h4; exact .inl h4
            · cases f with
              | zero => simp [runOptMaps] at h4
              | succ f =>
                rw [runOptMaps_cons] at h4
                obtain ⟨c1, h5, h6⟩ := BRes.bind_eq_ok.mp h4
                obtain ⟨c2, h7, rfl⟩ := BRes.map_eq_ok.mp h6
                have hc2 : c2 = [] := by
                  cases f with
                  | zero => simp [runOptMaps] at h7
                  | succ f => rw [runOptMaps_nil] at h7; simp at h7; exact h7
                subst hc2
                rcases runOptMap_names h5 with rfl | ⟨as, rfl, _⟩
                · exact .inl rfl
                · exact .inr ⟨as, by simp [hopt]⟩
        rcases hcs with rfl | ⟨as, rfl⟩
        · simpa using ih.cons _
        · simpa [Call.opt] using ih.cons_cons o.name

end Cog.Sem.Conv
