/-
  C02 — the decidable hypotheses of `C02_go_decls_partial`, all stated on the IR (core Lean only; the
  driver evaluates them, the check reports which fail on a generated case).

  `GoPrintable S` = the IR is in the part of Go's normal form the declaration printers are total on:
  known scalar kinds, references that resolve to type-declaring objects, no union / inline enum /
  constant reference / intersection / composable slot below an object, no alias cycle behind a field,
  defaults whose dynamic Go value is representable in the field's type, struct defaults that nest
  finitely.  `wfNames S` = identifiers are valid and unique AFTER formatObjectName / formatFieldName /
  CleanupNames.  Each excluded shape is either rejected by the checker on a concrete witness
  (Props/C02.lean, `C02_counterexample_*`) or listed there as outside the theorem.
-/
import Cog.Sem.GoDeclCheck
namespace Cog.Sem.GoDecl
open Cog.IR
open Cog.Passes (ucc cleanupNames)

def plainKinds : List String :=
  ["bool", "string", "int8", "int16", "int32", "int64", "uint8", "uint16", "uint32", "uint64", "float32", "float64"]

def goKinds : List String := plainKinds ++ ["any", "bytes"]

/-- the untyped Go constant a dynamic value is printed as (`%#v`), if it is printed as one -/
def valLit : Val → Option ETy
  | .bool _ => some .ubool
  | .int _ n => some (.uint n)
  | .float _ r => some (.ufloat r)
  | .jnum _ => some .ustr
  | .str _ => some .ustr
  | _ => none

/-- the value, as the constant it is printed as, is representable in Go's type for scalar kind `k` -/
def valFits (k : String) (v : Val) : Bool :=
  match valLit v with
  | some et => untypedFits (.prim k) et
  | none => false

def isStrVal : Val → Bool
  | .str _ => true
  | .jnum _ => true
  | _ => false

def allStrVals : List Val → Bool
  | [] => true
  | v :: vs => isStrVal v && allStrVals vs

/-- an object whose declaration is a Go TYPE (a concrete scalar is a `const`) -/
def declaresTy (o : Obj) : Bool :=
  match o.ty with
  | .scalar _ v _ _ => Cog.Passes.Val.isNil v
  | .enum (_ :: _) _ => true
  | .ref .. | .map .. | .array .. | .struct .. => true
  | _ => false

def fieldNames (fs : List Field) : List String := fs.map fun f => ucc f.name

def fieldNamesOk (fs : List Field) : Bool := (fieldNames fs).all validIdent && nodupB (fieldNames fs)

/-- what `formatField` needs from `context.ResolveRefs`: it terminates, and a constant it resolves to has a known kind -/
def fieldResolveOk (ss : Schemas) (f : Field) : Bool :=
  match f.ty with
  | .ref .. =>
    (match ss.resolveToType (ss.objectCount + 2) f.ty with
      | some (.scalar k v _ _) => Cog.Passes.Val.isNil v || goKinds.contains k
      | some _ => true
      | none => false)
  | _ => true

mutual
/-- a type position the printers are total on -/
def tyOk (ss : Schemas) : Ty → Bool
  | .scalar k _ _ _ => goKinds.contains k
  | .ref p n _ => (match ss.locateObject p n with | some o => declaresTy o | none => false)
  | .array e _ => tyOk ss e
  | .map i v _ => tyOk ss i && tyOk ss v
  | .struct fs _ _ _ => fieldNamesOk fs && fieldsTyOk ss fs
  | _ => false
def fieldsTyOk (ss : Schemas) : List Field → Bool
  | [] => true
  | f :: fs => tyOk ss f.ty && fieldResolveOk ss f && fieldsTyOk ss fs
end

/-- `generateConstructor` emits `New<Name>` for this object -/
def hasCtor (ss : Schemas) (o : Obj) : Bool :=
  match o.ty with
  | .struct .. => true
  | .ref p n _ => (match ss.locateObject p n with | some ro => ro.ty.isStruct | none => false)
  | _ => false

def enumKinds : List String := plainKinds

def membersFit (k : String) : List EnumVal → Bool
  | [] => true
  | v :: vs => valFits k v.value && membersFit k vs

/-- member names are fixed points of the cleaning the declaration applies (the default of a field
    refers to a member by its IR name) -/
def membersClean : List EnumVal → Bool
  | [] => true
  | v :: vs => cleanupNames (ucc v.name) == v.name && membersClean vs

def isPlainScalar (k : String) (m : Meta) : Bool := plainKinds.contains k && !hasHint m "string_format_datetime"

/-- the explicit default printed for one field is well-typed: mirrors `fieldLit`; `nestedOk` judges
    the literal of a referenced struct that carries its own default -/
def fieldShapeOk (ss : Schemas) (f : Field) (resolved : Ty) (extras : List (String × Val))
    (nestedOk : List Field → Val → Bool) : Bool :=
  let m := f.ty.getMeta
  if !needsDefault f resolved extras then true else
  match lookupKV f.name extras with
  | some ev =>
    (match f.ty with
      | .scalar k _ _ _ => isPlainScalar k m && valFits k ev
      | _ => false)
  | none =>
    match f.ty with
    | .scalar k v _ _ =>
      isPlainScalar k m && (if !Cog.Passes.Val.isNil v then valFits k v else valFits k m.dflt)
    | .array e _ =>
      if Cog.Passes.Val.isNil m.dflt then true
      else (match e, m.dflt with
        | .scalar "string" _ _ em, .list xs => !em.nullable && !hasHint em "string_format_datetime" && allStrVals xs
        | _, _ => false)
    | .map .. => Cog.Passes.Val.isNil m.dflt
    | .ref p n _ =>
      (match ss.locateObject p n with
        | none => false
        | some o =>
          (match o.ty with
            | .struct rfs _ _ om =>
              if Cog.Passes.Val.isNil m.dflt then true
              else !om.nullable && fieldNamesOk rfs && fieldsTyOk ss rfs && nestedOk rfs m.dflt
            | .enum vs _ => !vs.isEmpty && membersClean vs
            | .ref .. => Cog.Passes.Val.isNil m.dflt && hasCtor ss o && resolved.isStruct
            | _ => false))
    | _ => false

def allFields (g : Field → Bool) : List Field → Bool
  | [] => true
  | f :: fs => g f && allFields g fs

def fieldDefaultOkAt (ss : Schemas) (f : Field) (extras : List (String × Val)) (nestedOk : List Field → Val → Bool) : Bool :=
  match ss.resolveToType (ss.objectCount + 2) f.ty with
  | none => false
  | some resolved => fieldShapeOk ss f resolved extras nestedOk

/-- the literal `defaultsForStruct` prints for a struct is well-typed; fuel bounds the nesting of
    struct defaults exactly as in the printer -/
def structDefaultOk (ss : Schemas) : Nat → List Field → Val → Bool
  | 0, _, _ => false
  | fuel + 1, fields, extra =>
    allFields (fun f => fieldDefaultOkAt ss f (extrasOf extra) (fun rfs d => structDefaultOk ss fuel rfs d)) fields

def fieldDefaultOk (ss : Schemas) (fuel : Nat) (f : Field) (extras : List (String × Val)) : Bool :=
  fieldDefaultOkAt ss f extras (fun rfs d => structDefaultOk ss fuel rfs d)

def defaultsOk (ss : Schemas) (fuel : Nat) (fs : List Field) (extras : List (String × Val)) : Bool :=
  allFields (fun f => fieldDefaultOk ss fuel f extras) fs

theorem structDefaultOk_zero (ss : Schemas) (fs : List Field) (d : Val) : structDefaultOk ss 0 fs d = false := rfl
theorem structDefaultOk_succ (ss : Schemas) (fuel : Nat) (fs : List Field) (d : Val) :
    structDefaultOk ss (fuel + 1) fs d = defaultsOk ss fuel fs (extrasOf d) := rfl
theorem defaultsOk_cons (ss : Schemas) (fuel : Nat) (f : Field) (fs : List Field) (extras : List (String × Val)) :
    defaultsOk ss fuel (f :: fs) extras = (fieldDefaultOk ss fuel f extras && defaultsOk ss fuel fs extras) := rfl
theorem fieldDefaultOk_eq (ss : Schemas) (fuel : Nat) (f : Field) (extras : List (String × Val)) :
    fieldDefaultOk ss fuel f extras =
      (match ss.resolveToType (ss.objectCount + 2) f.ty with
        | none => false
        | some resolved => fieldShapeOk ss f resolved extras (fun rfs d => structDefaultOk ss fuel rfs d)) := rfl

/-! ## objects, schemas -/

/-- the package-level identifiers the declarations of an object introduce -/
def objIdents (ss : Schemas) (o : Obj) : List String :=
  (match o.ty with
    | .enum vs _ => ucc o.name :: vs.map (fun v => cleanupNames (ucc v.name))
    | _ => [ucc o.name]) ++ (if hasCtor ss o then ["New" ++ ucc o.name] else [])

def objsIdents (ss : Schemas) : List (String × Obj) → List String
  | [] => []
  | (_, o) :: rest => objIdents ss o ++ objsIdents ss rest

def objOk (ss : Schemas) (o : Obj) : Bool :=
  match o.ty with
  | .scalar k v _ _ => goKinds.contains k && (Cog.Passes.Val.isNil v || (valLit v).isSome)
  | .enum vs _ => (match vs with | [] => false | v0 :: _ => enumKinds.contains v0.kind && membersFit v0.kind vs)
  | .ref _ _ m => !m.nullable && tyOk ss o.ty
  | .map .. | .array .. => tyOk ss o.ty
  | .struct fs _ _ m => !m.nullable && tyOk ss o.ty && structDefaultOk ss (ss.objectCount + 2) fs .nil
  | _ => false

/-- every object is stored under its own name, knows its own package, and is printable -/
def objectsOk (ss : Schemas) (pkg : String) : List (String × Obj) → Bool
  | [] => true
  | (k, o) :: rest => o.name == k && o.selfName == k && o.selfPkg == pkg && objOk ss o && objectsOk ss pkg rest

/-- the package name is its own formatted form and is not one of the runtime's packages; objects are
    stored under distinct keys (the ordered-map invariant, C19) -/
def schemaOk (ss : Schemas) (s : Schema) : Bool :=
  fmtPkg s.pkg == s.pkg && !externalPkgs.contains s.pkg && nodupB (s.objects.map (·.1)) && objectsOk ss s.pkg s.objects

def schemasOk (ss : Schemas) : List Schema → Bool
  | [] => true
  | s :: rest => schemaOk ss s && schemasOk ss rest

/-- hypothesis 1 of `C02_go_decls_partial` -/
def GoPrintable (ss : Schemas) : Bool := nodupB (ss.map (·.pkg)) && schemasOk ss ss

def schemaNamesOk (ss : Schemas) (s : Schema) : Bool :=
  (objsIdents ss s.objects).all validIdent && nodupB (objsIdents ss s.objects)

def schemasNamesOk (ss : Schemas) : List Schema → Bool
  | [] => true
  | s :: rest => schemaNamesOk ss s && schemasNamesOk ss rest

/-- hypothesis 2: package-level identifiers are valid and unique after formatObjectName /
    CleanupNames (struct field names after formatFieldName are part of `tyOk`) -/
def wfNames (ss : Schemas) : Bool := schemasNamesOk ss ss

end Cog.Sem.GoDecl
