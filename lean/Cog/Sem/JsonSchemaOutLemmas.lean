/-
  C12 — lemmas about the emitter: the references of an emitted definition, the invariant of the
  foreign-object closure loop, presence of objects and fields.
-/
import Cog.Sem.JsonSchemaOutWf
import Cog.OMap.Lemmas
namespace Cog.Sem.JSOut
open Cog.IR Cog.Sem
open Cog.OMap (rget rset rget_rset)

/-! ### association lists -/

theorem keys_rset_mono {k x : String} {v : JS} {d : Def} (h : x ∈ keys d) : x ∈ keys (rset k v d) := by
  induction d with
  | nil => simp [keys] at h
  | cons e t ih =>
    obtain ⟨a, b⟩ := e
    simp only [rset]
    split
    · rename_i hk
      simp only [keys, List.map_cons, List.mem_cons] at h ⊢
      rcases h with h | h
      · left; rw [h, hk]
      · right; exact h
    · simp only [keys, List.map_cons, List.mem_cons] at h ⊢
      rcases h with h | h
      · left; exact h
      · right; exact ih h

theorem keys_rset_self (k : String) (v : JS) (d : Def) : k ∈ keys (rset k v d) := by
  induction d with
  | nil => simp [keys, rset]
  | cons e t ih =>
    obtain ⟨a, b⟩ := e
    simp only [rset]
    split
    · simp [keys]
    · simp only [keys, List.map_cons, List.mem_cons]; right; exact ih

theorem refsKvs_rset {k x : String} {v : JS} {d : Def} (h : x ∈ JS.refsKvs (rset k v d)) :
    x ∈ JS.refs v ∨ x ∈ JS.refsKvs d := by
  induction d with
  | nil => simp [rset, JS.refsKvs] at h; exact Or.inl h
  | cons e t ih =>
    obtain ⟨a, b⟩ := e
    simp only [rset] at h
    split at h
    · simp only [JS.refsKvs, List.mem_append] at h ⊢
      rcases h with h | h
      · exact Or.inl h
      · exact Or.inr (Or.inr h)
    · simp only [JS.refsKvs, List.mem_append] at h ⊢
      rcases h with h | h
      · exact Or.inr (Or.inl h)
      · rcases ih h with h | h
        · exact Or.inl h
        · exact Or.inr (Or.inr h)

theorem refsKvs_append (a b : Def) : JS.refsKvs (a ++ b) = JS.refsKvs a ++ JS.refsKvs b := by
  induction a with
  | nil => rfl
  | cons e t ih => obtain ⟨k, v⟩ := e; simp [JS.refsKvs, ih]

/-! ### references of one emitted definition -/

theorem refsList_map_str (l : List String) : JS.refsList (l.map .str) = [] := by
  induction l with
  | nil => rfl
  | cons a t ih => simp [JS.refsList, JS.refs, ih]

theorem refsList_enumValues (vs : List EnumVal) : JS.refsList (enumValues vs) = [] := by
  induction vs with
  | nil => rfl
  | cons a t ih => simp [enumValues, JS.refsList, JS.refs, ih]

theorem refs_addConstraints (table : List (String × String)) (cs : List Constraint) (d : Def)
    (h : JS.refsKvs d = []) : JS.refsKvs (addConstraints table cs d) = [] := by
  induction cs generalizing d with
  | nil => simpa [addConstraints] using h
  | cons c cs ih =>
    simp only [addConstraints]
    split
    · apply ih
      apply List.eq_nil_iff_forall_not_mem.2
      intro x hx
      rcases refsKvs_rset hx with h1 | h1
      · simp [JS.refs] at h1
      · rw [h] at h1; simp at h1
    · exact ih d h

theorem refs_rset_leaf {k : String} {v : JS} {d : Def} (hv : JS.refs v = []) (h : JS.refsKvs d = []) :
    JS.refsKvs (rset k v d) = [] := by
  apply List.eq_nil_iff_forall_not_mem.2
  intro x hx
  rcases refsKvs_rset hx with h1 | h1
  · rw [hv] at h1; simp at h1
  · rw [h] at h1; simp at h1

theorem refs_scalarBase (kind : String) (cs : List Constraint) (dt : Bool) :
    JS.refsKvs (scalarBase kind cs dt) = [] := by
  unfold scalarBase
  split
  · rfl
  · split
    · rfl
    · split
      · exact refs_addConstraints _ _ _ rfl
      · split
        · split
          · exact refs_rset_leaf rfl (refs_addConstraints _ _ _ rfl)
          · exact refs_addConstraints _ _ _ rfl
        · split
          · rfl
          · split
            · exact refs_addConstraints _ _ _ rfl
            · split
              · exact refs_addConstraints _ _ _ rfl
              · rfl

theorem refs_emitScalar (kind : String) (v : Val) (cs : List Constraint) (dt : Bool) :
    JS.refsKvs (emitScalar kind v cs dt) = [] := by
  unfold emitScalar
  split
  · exact refs_scalarBase _ _ _
  · exact refs_rset_leaf rfl (refs_scalarBase _ _ _)

theorem refs_withDesc {x : String} {c : List String} {d : Def} (h : x ∈ JS.refsKvs (withDesc c d)) :
    x ∈ JS.refsKvs d := by
  unfold withDesc at h
  split at h
  · exact h
  · rcases refsKvs_rset h with h1 | h1
    · simp [JS.refs] at h1
    · exact h1

theorem refs_withDefault {x : String} {v : Val} {d : Def} (h : x ∈ JS.refsKvs (withDefault v d)) :
    x ∈ JS.refsKvs d := by
  unfold withDefault at h
  split at h
  · exact h
  · rcases refsKvs_rset h with h1 | h1
    · simp [JS.refs] at h1
    · exact h1

mutual
theorem refs_emitTy : ∀ (t : Ty) (x : String), x ∈ JS.refsKvs (emitTy t) → x ∈ (emittedRefs t).map (·.2)
  | .struct fs _ _ _, x, h => by
    have key : x ∈ JS.refsKvs (emitFields fs []) := by
      simp only [emitTy] at h
      split at h
      · simpa [JS.refsKvs, JS.refs] using h
      · simpa [JS.refsKvs, JS.refs, refsList_map_str] using h
    rcases refs_emitFields fs [] x key with h1 | h1
    · simpa [emittedRefs] using h1
    · simp [JS.refsKvs] at h1
  | .scalar k v cs m, x, h => by
    simp only [emitTy, refs_emitScalar] at h; simp at h
  | .ref p n _, x, h => by
    simpa [emitTy, JS.refsKvs, JS.refs, emittedRefs] using h
  | .enum vs _, x, h => by
    simp [emitTy, JS.refsKvs, JS.refs, refsList_enumValues] at h
  | .array e _, x, h => by
    have : x ∈ JS.refsKvs (emitTy e) := by simpa [emitTy, JS.refsKvs, JS.refs] using h
    simpa [emittedRefs] using refs_emitTy e x this
  | .map _ v _, x, h => by
    have : x ∈ JS.refsKvs (emitTy v) := by simpa [emitTy, JS.refsKvs, JS.refs] using h
    simpa [emittedRefs] using refs_emitTy v x this
  | .disj bs _ _, x, h => by
    have : x ∈ JS.refsList (emitList bs) := by simpa [emitTy, JS.refsKvs, JS.refs] using h
    simpa [emittedRefs] using refs_emitList bs x this
  | .slot _ _, x, h => by simp [emitTy, anyDef, JS.refsKvs, JS.refs] at h
  | .cref .., x, h => by simp [emitTy, JS.refsKvs] at h
  | .inter .., x, h => by simp [emitTy, JS.refsKvs] at h
  | .bad .., x, h => by simp [emitTy, JS.refsKvs] at h
theorem refs_emitList : ∀ (ts : List Ty) (x : String), x ∈ JS.refsList (emitList ts) → x ∈ (emittedRefsList ts).map (·.2)
  | [], x, h => by simp [emitList, JS.refsList] at h
  | t :: ts, x, h => by
    simp only [emitList, JS.refsList, JS.refs, List.mem_append] at h
    simp only [emittedRefsList, List.map_append, List.mem_append]
    rcases h with h | h
    · exact Or.inl (refs_emitTy t x h)
    · exact Or.inr (refs_emitList ts x h)
theorem refs_emitFields : ∀ (fs : List Field) (acc : Def) (x : String), x ∈ JS.refsKvs (emitFields fs acc) →
    x ∈ (emittedRefsFields fs).map (·.2) ∨ x ∈ JS.refsKvs acc
  | [], acc, x, h => by simp only [emitFields] at h; exact Or.inr h
  | f :: fs, acc, x, h => by
    simp only [emitFields] at h
    simp only [emittedRefsFields, List.map_append, List.mem_append]
    rcases refs_emitFields fs _ x h with h1 | h1
    · exact Or.inl (Or.inr h1)
    · rcases refsKvs_rset h1 with h2 | h2
      · simp only [JS.refs] at h2
        exact Or.inl (Or.inl (refs_emitTy f.ty x (refs_withDesc (refs_withDefault h2))))
      · exact Or.inr h2
end

theorem refs_emitObj {o : Obj} {x : String} (h : x ∈ JS.refsKvs (emitObj o)) :
    x ∈ (emittedRefs o.ty).map (·.2) := refs_emitTy _ _ (refs_withDesc h)

/-! ### locating objects -/

theorem locate_some {S : Schemas} {p : String} {s : Schema} (h : Schemas.locate S p = some s) :
    s ∈ S ∧ s.pkg = p := by
  induction S with
  | nil => simp [Schemas.locate] at h
  | cons a t ih =>
    simp only [Schemas.locate] at h
    split at h
    · rename_i hp
      cases h
      exact ⟨by simp, hp⟩
    · obtain ⟨h1, h2⟩ := ih h
      exact ⟨List.mem_cons_of_mem _ h1, h2⟩

theorem rget_mem {k : String} {o : Obj} {l : List (String × Obj)} (h : rget k l = some o) : (k, o) ∈ l := by
  induction l with
  | nil => simp [rget] at h
  | cons e t ih =>
    obtain ⟨a, b⟩ := e
    simp only [rget] at h
    split at h
    · rename_i hk
      cases h; subst hk; simp
    · exact List.mem_cons_of_mem _ (ih h)

theorem schemaObjs_sub {S : Schemas} {s : Schema} (hs : s ∈ S) {o : Obj} (ho : o ∈ schemaObjs s) : o ∈ allObjs S := by
  induction S with
  | nil => simp at hs
  | cons a t ih =>
    simp only [allObjs, List.mem_append]
    rcases List.mem_cons.1 hs with h | h
    · subst h; exact Or.inl ho
    · exact Or.inr (ih h)

theorem keyed_mem {S : Schemas} (hk : keyed S = true) {s : Schema} (hs : s ∈ S) {k : String} {o : Obj}
    (h : (k, o) ∈ s.objects) : o.name = k := by
  induction S with
  | nil => simp at hs
  | cons a t ih =>
    simp only [keyed, Bool.and_eq_true, List.all_eq_true] at hk
    rcases List.mem_cons.1 hs with h1 | h1
    · subst h1
      simpa using hk.1 (k, o) h
    · exact ih hk.2 h1

/-- what `Schemas.LocateObject` returns -/
theorem locateObject_some {S : Schemas} {p n : String} {o : Obj}
    (h : Schemas.locateObject S p n = some o) :
    ∃ s, s ∈ S ∧ s.pkg = p ∧ (n, o) ∈ s.objects := by
  unfold Schemas.locateObject at h
  split at h
  · rename_i s hs
    obtain ⟨h1, h2⟩ := locate_some hs
    exact ⟨s, h1, h2, rget_mem h⟩
  · simp at h

/-! ### the pending foreign objects -/

def pnames (p : Pending) : List String := p.map (·.2.name)

structure PendOK (S : Schemas) (p : Pending) : Prop where
  fromS : ∀ e ∈ p, e.2 ∈ allObjs S
  key : ∀ e ∈ p, e.1 = selfKey e.2

theorem pendOK_nil (S : Schemas) : PendOK S [] := ⟨by simp, by simp⟩

def SelfKeyInj (S : Schemas) : Prop :=
  ∀ a ∈ allObjs S, ∀ b ∈ allObjs S, selfKey a = selfKey b → a.name = b.name

theorem selfKeyInj_of {S : Schemas} (h : selfKeyInj S = true) : SelfKeyInj S := by
  intro a ha b hb hk
  simp only [selfKeyInj, List.all_eq_true, Bool.or_eq_true, bne_iff_ne, ne_eq, beq_iff_eq] at h
  rcases h a ha b hb with h1 | h1
  · exact absurd hk h1
  · exact h1

theorem pendOK_rset {S : Schemas} {p : Pending} (hp : PendOK S p) {o : Obj} (ho : o ∈ allObjs S) :
    PendOK S (rset (selfKey o) o p) := by
  induction p with
  | nil =>
    refine ⟨?_, ?_⟩ <;> intro e he <;> simp [rset] at he <;> subst he <;> simp [ho]
  | cons a t ih =>
    obtain ⟨k, v⟩ := a
    have ht : PendOK S t := ⟨fun e he => hp.fromS e (List.mem_cons_of_mem _ he), fun e he => hp.key e (List.mem_cons_of_mem _ he)⟩
    simp only [rset]
    split
    · refine ⟨?_, ?_⟩
      · intro e he
        rcases List.mem_cons.1 he with h | h
        · subst h; exact ho
        · exact hp.fromS e (List.mem_cons_of_mem _ h)
      · intro e he
        rcases List.mem_cons.1 he with h | h
        · subst h; rfl
        · exact hp.key e (List.mem_cons_of_mem _ h)
    · have := ih ht
      refine ⟨?_, ?_⟩
      · intro e he
        rcases List.mem_cons.1 he with h | h
        · subst h; exact hp.fromS _ (by simp)
        · exact this.fromS e h
      · intro e he
        rcases List.mem_cons.1 he with h | h
        · subst h; exact hp.key _ (by simp)
        · exact this.key e h

theorem pnames_rset_self (o : Obj) (p : Pending) : o.name ∈ pnames (rset (selfKey o) o p) := by
  induction p with
  | nil => simp [pnames, rset]
  | cons a t ih =>
    obtain ⟨k, v⟩ := a
    simp only [rset]
    split
    · simp [pnames]
    · simp only [pnames, List.map_cons, List.mem_cons]; right; exact ih

theorem pnames_rset_mono {S : Schemas} (hi : SelfKeyInj S) {p : Pending} (hp : PendOK S p) {o : Obj}
    (ho : o ∈ allObjs S) {x : String} (hx : x ∈ pnames p) : x ∈ pnames (rset (selfKey o) o p) := by
  induction p with
  | nil => simp [pnames] at hx
  | cons a t ih =>
    obtain ⟨k, v⟩ := a
    have ht : PendOK S t := ⟨fun e he => hp.fromS e (List.mem_cons_of_mem _ he), fun e he => hp.key e (List.mem_cons_of_mem _ he)⟩
    simp only [rset]
    split
    · rename_i hk
      simp only [pnames, List.map_cons, List.mem_cons] at hx ⊢
      rcases hx with h | h
      · left
        have hkey : k = selfKey v := hp.key (k, v) (by simp)
        have hv : v ∈ allObjs S := hp.fromS (k, v) (by simp)
        rw [h]
        exact hi v hv o ho (by rw [← hkey, hk])
      · right; exact h
    · simp only [pnames, List.map_cons, List.mem_cons] at hx ⊢
      rcases hx with h | h
      · left; exact h
      · right; exact ih ht h

/-- hypotheses about the loaded schemas used by the closure invariant -/
structure Ctx (S : Schemas) (s : Schema) : Prop where
  keyedS : keyed S = true
  inj : SelfKeyInj S

theorem pushForeign_ok {S : Schemas} {s : Schema} (c : Ctx S s) {p : Pending} (hp : PendOK S p)
    (r : String × String) :
    PendOK S (pushForeign S s.pkg p r) ∧ (∀ x ∈ pnames p, x ∈ pnames (pushForeign S s.pkg p r)) ∧
    (refOK S s r = true → localHas s r.2 = true ∨ r.2 ∈ pnames (pushForeign S s.pkg p r)) := by
  unfold pushForeign refOK
  by_cases hpk : r.1 = s.pkg
  · simp only [hpk, if_true]
    exact ⟨hp, fun x hx => hx, fun h => Or.inl h⟩
  · simp only [hpk, if_false]
    cases hl : Schemas.locateObject S r.1 r.2 with
    | none => exact ⟨hp, fun x hx => hx, fun h => by simp at h⟩
    | some o =>
      obtain ⟨s', hs', _, hmem⟩ := locateObject_some hl
      have ho : o ∈ allObjs S := schemaObjs_sub hs' (by
        simp only [schemaObjs, List.mem_map]; exact ⟨(r.2, o), hmem, rfl⟩)
      have hn : o.name = r.2 := keyed_mem c.keyedS hs' hmem
      refine ⟨pendOK_rset hp ho, fun x hx => pnames_rset_mono c.inj hp ho hx, fun _ => Or.inr ?_⟩
      rw [← hn]; exact pnames_rset_self o p

theorem foldPush_ok {S : Schemas} {s : Schema} (c : Ctx S s) (rs : List (String × String)) {p : Pending}
    (hp : PendOK S p) :
    PendOK S (rs.foldl (pushForeign S s.pkg) p) ∧
    (∀ x ∈ pnames p, x ∈ pnames (rs.foldl (pushForeign S s.pkg) p)) ∧
    (∀ r ∈ rs, refOK S s r = true → localHas s r.2 = true ∨ r.2 ∈ pnames (rs.foldl (pushForeign S s.pkg) p)) := by
  induction rs generalizing p with
  | nil => exact ⟨hp, fun x hx => hx, by simp⟩
  | cons r rs ih =>
    obtain ⟨h1, h2, h3⟩ := pushForeign_ok c hp r
    obtain ⟨g1, g2, g3⟩ := ih h1
    simp only [List.foldl_cons]
    refine ⟨g1, fun x hx => g2 x (h2 x hx), ?_⟩
    intro r' hr' hok
    rcases List.mem_cons.1 hr' with h | h
    · subst h
      rcases h3 hok with h4 | h4
      · exact Or.inl h4
      · exact Or.inr (g2 _ h4)
    · exact g3 r' h hok

/-! ### the closure invariant -/

def onames (l : List Obj) : List String := l.map (·.name)

/-- every reference of the definitions written so far names a definition, a queued foreign object,
    an object still to be written in this round, or an object of the schema -/
def Inv (s : Schema) (d : Def) (q : Pending) (rem : List Obj) : Prop :=
  ∀ x ∈ JS.refsKvs d, x ∈ keys d ∨ x ∈ pnames q ∨ x ∈ onames rem ∨ localHas s x = true

theorem stepObj_inv {S : Schemas} {s : Schema} (c : Ctx S s) {d : Def} {q : Pending} {o : Obj} {rem : List Obj}
    (hq : PendOK S q) (ho : objRefsOK S s o = true) (hinv : Inv s d q (o :: rem)) :
    PendOK S (stepObj S s.pkg (d, q) o).2 ∧ Inv s (stepObj S s.pkg (d, q) o).1 (stepObj S s.pkg (d, q) o).2 rem ∧
    (∀ x ∈ keys d, x ∈ keys (stepObj S s.pkg (d, q) o).1) ∧ o.name ∈ keys (stepObj S s.pkg (d, q) o).1 := by
  obtain ⟨g1, g2, g3⟩ := foldPush_ok c (emittedRefs o.ty) hq
  simp only [stepObj]
  refine ⟨g1, ?_, fun x hx => keys_rset_mono hx, keys_rset_self _ _ _⟩
  intro x hx
  rcases refsKvs_rset hx with h | h
  · simp only [JS.refs] at h
    obtain ⟨r, hr, hrx⟩ := List.mem_map.1 (refs_emitObj h)
    have hok : refOK S s r = true := by
      simp only [objRefsOK, List.all_eq_true] at ho
      exact ho r hr
    subst hrx
    rcases g3 r hr hok with h1 | h1
    · exact Or.inr (Or.inr (Or.inr h1))
    · exact Or.inr (Or.inl h1)
  · rcases hinv x h with h1 | h1 | h1 | h1
    · exact Or.inl (keys_rset_mono h1)
    · exact Or.inr (Or.inl (g2 x h1))
    · simp only [onames, List.map_cons, List.mem_cons] at h1
      rcases h1 with h1 | h1
      · left; rw [h1]; exact keys_rset_self _ _ _
      · exact Or.inr (Or.inr (Or.inl h1))
    · exact Or.inr (Or.inr (Or.inr h1))

theorem runObjs_inv {S : Schemas} {s : Schema} (c : Ctx S s) (objs : List Obj) {d : Def} {q : Pending}
    (hq : PendOK S q) (ho : ∀ o ∈ objs, objRefsOK S s o = true) (hinv : Inv s d q objs) :
    PendOK S (runObjs S s.pkg objs (d, q)).2 ∧
    Inv s (runObjs S s.pkg objs (d, q)).1 (runObjs S s.pkg objs (d, q)).2 [] ∧
    (∀ x ∈ keys d, x ∈ keys (runObjs S s.pkg objs (d, q)).1) ∧
    (∀ o ∈ objs, o.name ∈ keys (runObjs S s.pkg objs (d, q)).1) := by
  induction objs generalizing d q with
  | nil => exact ⟨hq, hinv, fun x hx => hx, by simp⟩
  | cons o rest ih =>
    obtain ⟨h1, h2, h3, h4⟩ := stepObj_inv c hq (ho o (by simp)) hinv
    obtain ⟨g1, g2, g3, g4⟩ := ih (d := (stepObj S s.pkg (d, q) o).1) (q := (stepObj S s.pkg (d, q) o).2)
      h1 (fun o' ho' => ho o' (by simp [ho'])) h2
    simp only [runObjs, List.foldl_cons] at g1 g2 g3 g4 ⊢
    refine ⟨g1, g2, fun x hx => g3 x (h3 x hx), ?_⟩
    intro o' ho'
    rcases List.mem_cons.1 ho' with h | h
    · subst h; exact g3 _ h4
    · exact g4 o' h

/-- every object queued under an already emitted key has its name among the definitions -/
def EmOK (S : Schemas) (d : Def) (em : List String) : Prop :=
  ∀ o ∈ allObjs S, selfKey o ∈ em → o.name ∈ keys d

theorem stepForeign_inv {S : Schemas} {s : Schema} (c : Ctx S s) {d : Def} {q : Pending} {em : List String}
    {e : String × Obj} {rem : List Obj}
    (hq : PendOK S q) (he1 : e.1 = selfKey e.2) (he2 : e.2 ∈ allObjs S) (ho : objRefsOK S s e.2 = true)
    (hem : EmOK S d em) (hinv : Inv s d q (e.2 :: rem)) :
    PendOK S (stepForeign S s.pkg (d, q, em) e).2.1 ∧
    Inv s (stepForeign S s.pkg (d, q, em) e).1 (stepForeign S s.pkg (d, q, em) e).2.1 rem ∧
    (∀ x ∈ keys d, x ∈ keys (stepForeign S s.pkg (d, q, em) e).1) ∧
    EmOK S (stepForeign S s.pkg (d, q, em) e).1 (stepForeign S s.pkg (d, q, em) e).2.2 := by
  unfold stepForeign
  by_cases hc : em.contains e.1 = true
  · simp only [hc, if_true]
    refine ⟨hq, ?_, fun x hx => hx, hem⟩
    intro x hx
    rcases hinv x hx with h1 | h1 | h1 | h1
    · exact Or.inl h1
    · exact Or.inr (Or.inl h1)
    · simp only [onames, List.map_cons, List.mem_cons] at h1
      rcases h1 with h1 | h1
      · left; rw [h1]
        exact hem e.2 he2 (by rw [← he1]; simpa using hc)
      · exact Or.inr (Or.inr (Or.inl h1))
    · exact Or.inr (Or.inr (Or.inr h1))
  · simp only [hc, Bool.false_eq_true, if_false]
    obtain ⟨h1, h2, h3, h4⟩ := stepObj_inv c hq ho hinv
    refine ⟨h1, h2, h3, ?_⟩
    intro o ho' hk
    rcases List.mem_cons.1 hk with hk | hk
    · have : o.name = e.2.name := c.inj o ho' e.2 he2 (by rw [hk, he1])
      rw [this]; exact h4
    · exact h3 _ (hem o ho' hk)

theorem runForeign_inv {S : Schemas} {s : Schema} (c : Ctx S s)
    (hall : ∀ o ∈ allObjs S, objRefsOK S s o = true) (l : Pending)
    (hl : ∀ e ∈ l, e.1 = selfKey e.2 ∧ e.2 ∈ allObjs S) {d : Def} {q : Pending} {em : List String}
    (hq : PendOK S q) (hem : EmOK S d em) (hinv : Inv s d q (l.map (·.2))) :
    PendOK S (runForeign S s.pkg l (d, q, em)).2.1 ∧
    Inv s (runForeign S s.pkg l (d, q, em)).1 (runForeign S s.pkg l (d, q, em)).2.1 [] ∧
    (∀ x ∈ keys d, x ∈ keys (runForeign S s.pkg l (d, q, em)).1) ∧
    EmOK S (runForeign S s.pkg l (d, q, em)).1 (runForeign S s.pkg l (d, q, em)).2.2 := by
  induction l generalizing d q em with
  | nil => exact ⟨hq, hinv, fun x hx => hx, hem⟩
  | cons e rest ih =>
    obtain ⟨he1, he2⟩ := hl e (by simp)
    have hinv' : Inv s d q (e.2 :: rest.map (·.2)) := by simpa using hinv
    obtain ⟨h1, h2, h3, h4⟩ := stepForeign_inv (rem := rest.map (·.2)) c hq he1 he2 (hall _ he2) hem hinv'
    obtain ⟨g1, g2, g3, g4⟩ := ih (fun e' he' => hl e' (by simp [he'])) h1 h4 h2
    simp only [runForeign, List.foldl_cons] at g1 g2 g3 g4 ⊢
    exact ⟨g1, g2, fun x hx => g3 x (h3 x hx), g4⟩

/-- state between two rounds of the loop -/
structure Between (S : Schemas) (s : Schema) (d : Def) (q : Pending) (em : List String) : Prop where
  pend : PendOK S q
  refs : ∀ x ∈ JS.refsKvs d, x ∈ keys d ∨ x ∈ pnames q
  locals : ∀ x, localHas s x = true → x ∈ keys d
  emitted : EmOK S d em

theorem closure_inv {S : Schemas} {s : Schema} (c : Ctx S s)
    (hall : ∀ o ∈ allObjs S, objRefsOK S s o = true) :
    ∀ (fuel : Nat) (d : Def) (q : Pending) (em : List String) (D : Def), Between S s d q em →
      closure S s.pkg fuel d q em = some D →
      (∀ x ∈ JS.refsKvs D, x ∈ keys D) ∧ (∀ x, localHas s x = true → x ∈ keys D) ∧ (∀ x ∈ keys d, x ∈ keys D) := by
  intro fuel
  induction fuel with
  | zero => intro d q em D _ h; simp [closure] at h
  | succ n ih =>
    intro d q em D hb h
    simp only [closure] at h
    split at h
    · rename_i he
      cases h
      have : q = [] := by simpa using he
      subst this
      refine ⟨?_, hb.locals, fun x hx => hx⟩
      intro x hx
      rcases hb.refs x hx with h1 | h1
      · exact h1
      · simp [pnames] at h1
    · have hl : ∀ e ∈ q, e.1 = selfKey e.2 ∧ e.2 ∈ allObjs S := fun e he => ⟨hb.pend.key e he, hb.pend.fromS e he⟩
      have hinv : Inv s d [] (q.map (·.2)) := by
        intro x hx
        rcases hb.refs x hx with h1 | h1
        · exact Or.inl h1
        · right; right; left
          simpa [pnames, onames] using h1
      obtain ⟨g1, g2, g3, g4⟩ := runForeign_inv c hall q hl (pendOK_nil S) hb.emitted hinv
      have hb' : Between S s (runForeign S s.pkg q (d, [], em)).1 (runForeign S s.pkg q (d, [], em)).2.1
          (runForeign S s.pkg q (d, [], em)).2.2 := by
        refine ⟨g1, ?_, fun x hx => g3 x (hb.locals x hx), g4⟩
        intro x hx
        rcases g2 x hx with h1 | h1 | h1 | h1
        · exact Or.inl h1
        · exact Or.inr h1
        · simp [onames] at h1
        · exact Or.inl (g3 x (hb.locals x h1))
      obtain ⟨r1, r2, r3⟩ := ih _ _ _ D hb' h
      exact ⟨r1, r2, fun x hx => r3 x (g3 x hx)⟩

theorem localHas_iff {s : Schema} {x : String} : localHas s x = true ↔ x ∈ onames (schemaObjs s) := by
  simp [localHas, onames, List.any_eq_true]

theorem firstRound_between {S : Schemas} {s : Schema} (c : Ctx S s)
    (hloc : ∀ o ∈ schemaObjs s, objRefsOK S s o = true) :
    Between S s (firstRound S s).1 (firstRound S s).2 [] := by
  have hinv : Inv s [] [] (schemaObjs s) := by intro x hx; simp [JS.refsKvs] at hx
  obtain ⟨g1, g2, _, g4⟩ := runObjs_inv c (schemaObjs s) (pendOK_nil S) hloc hinv
  have hloc' : ∀ x, localHas s x = true → x ∈ keys (firstRound S s).1 := by
    intro x hx
    obtain ⟨o, ho, rfl⟩ := List.mem_map.1 (localHas_iff.1 hx)
    exact g4 o ho
  refine ⟨g1, ?_, hloc', fun o _ h => by simp at h⟩
  intro x hx
  rcases g2 x hx with h1 | h1 | h1 | h1
  · exact Or.inl h1
  · exact Or.inr h1
  · simp [onames] at h1
  · exact Or.inl (hloc' x h1)

theorem emitClosed_parts {S : Schemas} {s : Schema} (h : emitClosed S s = true) :
    Ctx S s ∧ (∀ o ∈ schemaObjs s, objRefsOK S s o = true) ∧ (∀ o ∈ allObjs S, objRefsOK S s o = true) ∧
    (s.entryPoint = "" ∨ localHas s s.entryPoint = true) := by
  simp only [emitClosed, Bool.and_eq_true, List.all_eq_true, Bool.or_eq_true, beq_iff_eq] at h
  obtain ⟨⟨⟨⟨h1, h2⟩, h3⟩, h4⟩, h5⟩ := h
  exact ⟨⟨h1, selfKeyInj_of h2⟩, h3, h4, h5⟩

/-- every `$ref` of the emitted definitions names one of them; every object of the schema has a
    definition -/
theorem emitDefs_closed {S : Schemas} {s : Schema} (h : emitClosed S s = true) {fuel : Nat} {D : Def}
    (he : emitDefs fuel S s = some D) :
    (∀ x ∈ JS.refsKvs D, x ∈ keys D) ∧ (∀ x, localHas s x = true → x ∈ keys D) := by
  obtain ⟨c, h3, h4, _⟩ := emitClosed_parts h
  obtain ⟨r1, r2, _⟩ := closure_inv c h4 fuel _ _ _ D (firstRound_between c h3) he
  exact ⟨r1, r2⟩

/-! ### presence of objects without any hypothesis: keys only grow -/

theorem stepObj_keys (S : Schemas) (pkg : String) (st : Def × Pending) (o : Obj) :
    (∀ x ∈ keys st.1, x ∈ keys (stepObj S pkg st o).1) ∧ o.name ∈ keys (stepObj S pkg st o).1 :=
  ⟨fun _ hx => keys_rset_mono hx, keys_rset_self _ _ _⟩

theorem runObjs_keys (S : Schemas) (pkg : String) (objs : List Obj) (st : Def × Pending) :
    (∀ x ∈ keys st.1, x ∈ keys (runObjs S pkg objs st).1) ∧ (∀ o ∈ objs, o.name ∈ keys (runObjs S pkg objs st).1) := by
  induction objs generalizing st with
  | nil => exact ⟨fun _ hx => hx, by simp⟩
  | cons o rest ih =>
    obtain ⟨h1, h2⟩ := stepObj_keys S pkg st o
    obtain ⟨g1, g2⟩ := ih (stepObj S pkg st o)
    simp only [runObjs, List.foldl_cons] at g1 g2 ⊢
    refine ⟨fun x hx => g1 x (h1 x hx), ?_⟩
    intro o' ho'
    rcases List.mem_cons.1 ho' with h | h
    · subst h; exact g1 _ h2
    · exact g2 o' h

theorem runForeign_keys (S : Schemas) (pkg : String) (l : Pending) (st : Def × Pending × List String) :
    ∀ x ∈ keys st.1, x ∈ keys (runForeign S pkg l st).1 := by
  induction l generalizing st with
  | nil => exact fun _ hx => hx
  | cons e rest ih =>
    intro x hx
    simp only [runForeign, List.foldl_cons]
    apply ih
    unfold stepForeign
    split
    · exact hx
    · exact keys_rset_mono hx

theorem closure_keys (S : Schemas) (pkg : String) :
    ∀ (fuel : Nat) (d : Def) (q : Pending) (em : List String) (D : Def),
      closure S pkg fuel d q em = some D → ∀ x ∈ keys d, x ∈ keys D := by
  intro fuel
  induction fuel with
  | zero => intro d q em D h; simp [closure] at h
  | succ n ih =>
    intro d q em D h x hx
    simp only [closure] at h
    split at h
    · cases h; exact hx
    · exact ih _ _ _ D h x (runForeign_keys S pkg q (d, [], em) x hx)

theorem emitDefs_has_objects {S : Schemas} {s : Schema} {fuel : Nat} {D : Def} (he : emitDefs fuel S s = some D) :
    ∀ o ∈ schemaObjs s, o.name ∈ keys D := by
  intro o ho
  exact closure_keys S s.pkg fuel _ _ _ D he _ ((runObjs_keys S s.pkg (schemaObjs s) ([], [])).2 o ho)

/-! ### fields -/

theorem emitFields_keys : ∀ (fs : List Field) (acc : Def),
    (∀ x ∈ keys acc, x ∈ keys (emitFields fs acc)) ∧ (∀ f ∈ fs, f.name ∈ keys (emitFields fs acc))
  | [], acc => ⟨fun _ hx => hx, by simp⟩
  | f :: fs, acc => by
    obtain ⟨g1, g2⟩ := emitFields_keys fs (rset f.name (.obj (withDefault f.ty.getMeta.dflt (withDesc f.comments (emitTy f.ty)))) acc)
    simp only [emitFields]
    refine ⟨fun x hx => g1 x (keys_rset_mono hx), ?_⟩
    intro f' hf'
    rcases List.mem_cons.1 hf' with h | h
    · subst h; exact g1 _ (keys_rset_self _ _ _)
    · exact g2 f' h

theorem rget_properties (fs : List Field) (g : List Ty) (gi : Option (String × DisjInfo)) (m : Meta) :
    rget "properties" (emitTy (.struct fs g gi m)) = some (.obj (emitFields fs [])) := by
  simp only [emitTy]
  split <;> simp [rget]

theorem rget_required (fs : List Field) (g : List Ty) (gi : Option (String × DisjInfo)) (m : Meta) :
    rget "required" (emitTy (.struct fs g gi m)) =
      if (requiredNames fs).isEmpty then none else some (.arr ((requiredNames fs).map .str)) := by
  simp only [emitTy]
  split <;> simp [rget]

theorem requiredNames_eq (fs : List Field) : requiredNames fs = (fs.filter (·.required)).map (·.name) := by
  induction fs with
  | nil => rfl
  | cons f t ih =>
    simp only [requiredNames, List.filter_cons]
    split <;> simp [ih]

end Cog.Sem.JSOut
