/-
  C08, specification side for `Validate()`: which constraints of the IR a value violates.

  Written independently of the templates: driven by the *value*, looks through every alias
  (a reference is first resolved, whatever it resolves to), knows nothing about
  `resolvesToConstraints`, the `Nullable` flag or the order of the template's case split.
  A nil pointer / nil slice / nil map / nil interface holds no value, hence violates nothing
  (presence is the strict decoder's concern, see GoStrictSpec.lean).

  Core Lean only.
-/
import Cog.Sem.GoValidate
namespace Cog.Sem
open Cog.IR

/-- does `v` satisfy the constraint?  (`none`: not a constraint the model understands) -/
def satisfies (c : Constraint) (v : GoVal) : Option Bool :=
  match c.args.head?.bind valQuarters with
  | none => none
  | some bound =>
    if c.op = "minLength" then
      match v with | .str s => some (decide ((s.length : Int) * 4 ≥ bound)) | _ => none
    else if c.op = "maxLength" then
      match v with | .str s => some (decide ((s.length : Int) * 4 ≤ bound)) | _ => none
    else
      match v with
      | .int n => cmpOp c.op (n * 4) bound
      | .float q => cmpOp c.op q bound
      | _ => none

/-- the violated constraints of a scalar, in declaration order -/
def violatedConstraints (v : GoVal) : List Constraint → Option (List Viol)
  | [] => some []
  | c :: cs =>
    match c.args.head?.bind valQuarters with
    | none => none
    | some b =>
      match satisfies c v, violatedConstraints v cs with
      | some true, some rest => some rest
      | some false, some rest => some ({ path := [], op := goOperator c.op, cons := c.op, bound := b } :: rest)
      | _, _ => none

/-- struct fields against the value's fields (same names, same order) -/
def specFields (f : Ty → GoVal → DRes (List Viol)) : List Field → List (String × GoVal) → DRes (List Viol)
  | [], [] => .ok []
  | fd :: fds, (n, v) :: vs =>
    if fd.name ≠ n then .unsup "value does not have the struct's fields" else
    (f fd.ty v).bind fun l => (specFields f fds vs).bind fun r => .ok (preAll (.fld fd.name) l ++ r)
  | _, _ => .unsup "value does not have the struct's fields"

/-- the violations of a non-nil, non-pointer value `v` at a type `rt` that is not a reference;
    `rec` is the recursive call for components -/
def specAt (rec : Ty → GoVal → DRes (List Viol)) (rt : Ty) (v : GoVal) : DRes (List Viol) :=
  match rt with
  | .scalar k _ cs m =>
    if k == "any" then .ok []
    else if hasHint m "string_format_datetime" && !cs.isEmpty then .unsup "constraints on time.Time"
    else match violatedConstraints v cs with
      | some l => .ok l
      | none => .unsup "constraint outside the model"
  | .enum .. => .ok []
  | .array e _ =>
    match v.elems? with
    | some vs => loopIdx (rec e) 0 vs
    | none => .unsup "non-slice value at an array type"
  | .map _ e _ =>
    match v.entries? with
    | some kvs => loopKey (rec e) kvs
    | none => .unsup "non-map value at a map type"
  | .struct fs _ _ _ =>
    match fieldVals v with
    | some fvs => specFields rec fs fvs
    | none => .unsup "non-struct value at a struct type"
  | _ => .unsup "type outside the model"

/-- `violations fuel ss t v`: every (path, constraint) of the IR type `t` that `v` violates. -/
def violations : Nat → Schemas → Ty → GoVal → DRes (List Viol)
  | 0, _, _, _ => .fuel
  | fuel + 1, ss, t, v =>
    if v.isNil then .ok []
    else match v.unptr with
    | some v' => violations fuel ss t v'
    | none =>
      match resolveRefs ss t with
      | none => .fuel
      | some rt => specAt (violations fuel ss) rt v

/-! ### the decidable hypothesis of the partial theorem -/

/-- `plainTy n ss t`: looking through aliases, `t` is built from unconstrained scalars, enums,
    arrays and maps only — no constraint and no struct is reachable without crossing a
    reference that `resolvesToConstraints` follows -/
def plainTy : Nat → Schemas → Ty → Bool
  | 0, _, _ => false
  | n + 1, ss, t =>
    match resolveRefs ss t with
    | some (.scalar k _ cs _) => k == "any" || cs.isEmpty
    | some (.enum ..) => true
    | some (.array e _) => plainTy n ss e
    | some (.map _ e _) => plainTy n ss e
    | _ => false

def plainFuel : Nat := 16

/-- every named object that is not (an alias of) a struct — alias of a scalar, array, map, enum — is plain:
    the generated `Validate()` never looks behind a reference to such an object
    (`resolvesToConstraints` answers `ResolveRefs(t).IsStruct()` for references). -/
def resolvesToStructTy (ss : Schemas) (t : Ty) : Bool :=
  match resolveRefs ss t with
  | some (.struct ..) => true
  | _ => false

def noConstrainedAlias (ss : Schemas) : Bool :=
  ss.all fun s => s.objects.all fun kv =>
    kv.2.ty.isStruct || resolvesToStructTy ss (.ref s.pkg kv.1 {}) || plainTy plainFuel ss (.ref s.pkg kv.1 {})

end Cog.Sem
