/-
  C02 helper lemmas, part 3: assignability facts (identity, untyped constants, named struct / enum /
  alias targets in the emitted environment).
-/
import Cog.Sem.GoDeclLemmas2
namespace Cog.Sem.GoDecl
open Cog.IR Cog.OMap
open Cog.Passes (ucc cleanupNames)

mutual
theorem GoTy.beq_refl : ∀ t : GoTy, GoTy.beq t t = true
  | .prim _ => by simp [GoTy.beq]
  | .named _ _ => by simp [GoTy.beq]
  | .ptr t => by simp [GoTy.beq, GoTy.beq_refl t]
  | .slice t => by simp [GoTy.beq, GoTy.beq_refl t]
  | .map k v => by simp [GoTy.beq, GoTy.beq_refl k, GoTy.beq_refl v]
  | .struct fs => by simp [GoTy.beq, GoTy.beqFields_refl fs]
  | .placeholder _ => by simp [GoTy.beq]
  | .crash _ => by simp [GoTy.beq]
theorem GoTy.beqFields_refl : ∀ fs : List GoField, GoTy.beqFields fs fs = true
  | [] => by simp [GoTy.beqFields]
  | f :: fs => by simp [GoTy.beqFields, GoTy.beq_refl f.ty, GoTy.beqFields_refl fs]
end

/-- identical types are assignable -/
theorem assignable_refl (env : Env) (fuel : Nat) (t : GoTy) : assignable env fuel (.typed t) t = true := by
  simp [assignable, GoTy.beq_refl]

/-- equal normal forms are assignable -/
theorem assignable_of_norm_eq (env : Env) (fuel : Nat) {t u : GoTy} (h : norm env fuel t = norm env fuel u) :
    assignable env fuel (.typed t) u = true := by
  simp [assignable, h, GoTy.beq_refl]

theorem plain_not_any {k : String} (h : plainKinds.contains k = true) : (k == "any") = false ∧ (k == "bytes") = false := by
  simp only [plainKinds, List.contains_eq_mem, List.mem_cons, List.not_mem_nil, or_false, decide_eq_true_eq] at h
  rcases h with rfl | rfl | rfl | rfl | rfl | rfl | rfl | rfl | rfl | rfl | rfl | rfl <;> decide

theorem under_prim (env : Env) (fuel : Nat) (k : String) : under env (fuel + 1) (.prim k) = some (.prim k) := by
  simp [under]

theorem under_struct (env : Env) (fuel : Nat) (fs : List GoField) : under env (fuel + 1) (.struct fs) = some (.struct fs) := by
  simp [under]

theorem under_ptr (env : Env) (fuel : Nat) (t : GoTy) : under env (fuel + 1) (.ptr t) = some (.ptr t) := by
  simp [under]

theorem under_slice (env : Env) (fuel : Nat) (t : GoTy) : under env (fuel + 1) (.slice t) = some (.slice t) := by
  simp [under]

theorem under_map (env : Env) (fuel : Nat) (k v : GoTy) : under env (fuel + 1) (.map k v) = some (.map k v) := by
  simp [under]

/-- a value printed as an untyped constant fits a plain scalar kind: assignability is representability -/
def isUntyped : ETy → Bool
  | .typed _ => false
  | .bad _ => false
  | _ => true

theorem assignable_untyped_plain (env : Env) (fuel : Nat) {k : String} (hk : plainKinds.contains k = true) (et : ETy)
    (hu : isUntyped et = true) :
    assignable env (fuel + 1) et (.prim k) = untypedFits (.prim k) et := by
  have hna := (plain_not_any hk).1
  cases et <;> simp_all [assignable, norm, under_prim, isUntyped]

/-! ### literals -/

theorem valLit_untyped {v : Val} {et : ETy} (h : valLit v = some et) : isUntyped et = true := by
  cases v <;> simp [valLit] at h <;> subst h <;> rfl

theorem formatScalar_of_valLit {v : Val} {et : ETy} (h : valLit v = some et) : formatScalar v = sharpV v := by
  cases v <;> simp [valLit] at h <;> simp [formatScalar]

theorem exprTy_sharpV (env : Env) (fuel : Nat) {v : Val} {et : ETy} (h : valLit v = some et) :
    exprTy env fuel (sharpV v) = et := by
  cases v <;> simp [valLit] at h <;> subst h <;> simp [sharpV, exprTy]

theorem litETy_sharpV {v : Val} {et : ETy} (h : valLit v = some et) : litETy (sharpV v) = some et := by
  cases v <;> simp [valLit] at h <;> subst h <;> simp [sharpV, litETy]

theorem plain_known {k : String} (h : plainKinds.contains k = true) : knownPrims.contains k = true := by
  simp only [plainKinds, List.contains_eq_mem, List.mem_cons, List.not_mem_nil, or_false, decide_eq_true_eq] at h
  rcases h with rfl | rfl | rfl | rfl | rfl | rfl | rfl | rfl | rfl | rfl | rfl | rfl <;> decide

theorem fmtScalarTy_plain (cfg : Cfg) {k : String} {m : Meta} (h : isPlainScalar k m = true) :
    fmtScalarTy cfg k m = if m.nullable then .ptr (.prim k) else .prim k := by
  simp only [isPlainScalar, Bool.and_eq_true, Bool.not_eq_true'] at h
  have := plain_not_any h.1
  simp [fmtScalarTy, this.1, this.2, h.2]

/-- a plain scalar field initialised with a value that fits its kind -/
theorem scalar_lit_fits (env : Env) (c : Ctx) (fuel : Nat) {k : String} {v : Val} {cs : List Constraint} {m : Meta} (lit : Val)
    (hp : isPlainScalar k m = true) (hf : valFits k lit = true) :
    assignable env (fuel + 1) (exprTy env (fuel + 1) (maybePtr c (formatScalar lit) m.nullable (.scalar k v cs m)))
      (fmtTy c (.scalar k v cs m)) = true := by
  unfold valFits at hf
  cases hl : valLit lit with
  | none => simp [hl] at hf
  | some et =>
    simp only [hl] at hf
    have hk : plainKinds.contains k = true := by
      simp only [isPlainScalar, Bool.and_eq_true] at hp; exact hp.1
    have hfit : assignable env (fuel + 1) (exprTy env (fuel + 1) (sharpV lit)) (.prim k) = true := by
      rw [exprTy_sharpV env (fuel + 1) hl, assignable_untyped_plain env fuel hk et (valLit_untyped hl)]; exact hf
    rw [formatScalar_of_valLit hl]
    simp only [fmtTy, fmtScalarTy_plain c.cfg hp]
    by_cases hn : m.nullable = true
    · have hp' : isPlainScalar k { m with nullable := false } = true := by
        simpa [isPlainScalar, hasHint] using hp
      simp only [maybePtr, hn, Bool.not_true, Bool.false_eq_true, if_false, Ty.isArray, Ty.isMap, Bool.or_self,
        setNullable, Ty.getMeta, Ty.setMeta, fmtTy, fmtScalarTy_plain c.cfg hp', if_true]
      simp only [exprTy, typeOk, plain_known hk, hfit, Bool.and_self, if_true]
      exact assignable_refl env (fuel + 1) _
    · simp only [Bool.not_eq_true] at hn
      simpa [maybePtr, hn] using hfit

theorem exprsFit_strs (env : Env) (fuel : Nat) : ∀ xs : List Val, allStrVals xs = true →
    exprsFit env (fuel + 1) (.prim "string") (formatScalarList xs) = true
  | [], _ => by simp [formatScalarList, exprsFit]
  | x :: xs, h => by
    simp only [allStrVals, Bool.and_eq_true] at h
    have ih := exprsFit_strs env fuel xs h.2
    have hx : assignable env (fuel + 1) (exprTy env (fuel + 1) (formatScalar x)) (.prim "string") = true := by
      cases x <;> simp [isStrVal] at h <;>
        simp [formatScalar, sharpV, exprTy, assignable, norm, under_prim, untypedFits]
    simp [formatScalarList, exprsFit, hx, ih]

/-! ### resolution -/

theorem resolve_nonref (ss : Schemas) (fuel : Nat) (t : Ty) (h : t.isRef = false) :
    ss.resolveToType (fuel + 1) t = some t := by
  cases t <;> simp [Ty.isRef] at h <;> simp [Schemas.resolveToType]

theorem resolve_onehop (ss : Schemas) (fuel : Nat) {p n : String} {m : Meta} {o : Obj}
    (hl : ss.locateObject p n = some o) (h : o.ty.isRef = false) :
    ss.resolveToType (fuel + 2) (.ref p n m) = some o.ty := by
  rw [Schemas.resolveToType]
  simp only [hl]
  exact resolve_nonref ss fuel o.ty h

end Cog.Sem.GoDecl
