/-
  `den` is monotone in the fuel: more fuel never removes a document from the document language.
  Together with the round-trip theorem this gives the fuel-free reading of C01: a document accepted
  at some fuel round-trips at every larger fuel.
-/
import Cog.Sem.Den
namespace Cog.Sem
open Cog.IR

theorem all_mono {α} (p q : α → Bool) (h : ∀ x, p x = true → q x = true) (l : List α)
    (hl : l.all p = true) : l.all q = true := by
  rw [List.all_eq_true] at hl ⊢
  intro x hx; exact h x (hl x hx)

theorem any_mono {α} (p q : α → Bool) (h : ∀ x, p x = true → q x = true) (l : List α)
    (hl : l.any p = true) : l.any q = true := by
  rw [List.any_eq_true] at hl ⊢
  obtain ⟨x, hx, hp⟩ := hl
  exact ⟨x, hx, h x hp⟩

theorem denFieldsWith_mono (d e : Ty → Json → Bool) (h : ∀ t j, d t j = true → e t j = true)
    (fields : List Field) (members : List (String × Json))
    (hd : denFieldsWith d fields members = true) : denFieldsWith e fields members = true := by
  unfold denFieldsWith at hd ⊢
  apply all_mono _ _ _ fields hd
  intro f hf
  simp only [Bool.and_eq_true] at hf ⊢
  refine ⟨hf.1, ?_⟩
  cases hl : Json.lookup f.name members with
  | none =>
    rw [hl] at hf
    simp only [Bool.and_eq_true] at hf ⊢
    exact ⟨hf.2.1, h _ _ hf.2.2⟩
  | some v =>
    rw [hl] at hf
    simp only [Bool.and_eq_true] at hf ⊢
    exact ⟨h _ _ hf.2.1, hf.2.2⟩

theorem den_mono (ss : Schemas) : ∀ n t j, den n ss t j = true → den (n + 1) ss t j = true := by
  intro n
  induction n with
  | zero => intro t j h; simp [den] at h
  | succ n ih =>
    intro t j h
    generalize hk : n + 1 = k
    have ih' : ∀ t j, den n ss t j = true → den k ss t j = true := by subst hk; exact ih
    clear ih
    cases t with
    | scalar kind val cs m => simpa [den] using h
    | array e m =>
      simp only [den] at h ⊢
      simp only [Bool.and_eq_true] at h ⊢
      refine ⟨h.1, ?_⟩
      cases j with
      | arr xs => exact all_mono _ _ (fun x => ih' e x) xs h.2
      | null => exact h.2
      | bool _ | num _ | str _ | obj _ => exact h.2
    | map idx vt m =>
      simp only [den] at h ⊢
      split at h
      · cases j with
        | obj kvs =>
          simp only [Bool.and_eq_true] at h ⊢
          exact ⟨h.1, all_mono _ _ (fun kv => ih' vt kv.2) kvs h.2⟩
        | null => exact h
        | bool _ | num _ | str _ | arr _ => exact h
      · simp at h
    | ref pkg name m =>
      simp only [den] at h ⊢
      cases ho : Schemas.locateObject ss pkg name with
      | none => simp [ho] at h
      | some o =>
        simp only [ho] at h ⊢
        cases hty : o.ty with
        | struct fields gen gi sm =>
          cases gi with
          | none =>
            simp only [hty, Bool.or_eq_true] at h ⊢
            rcases h with h | h
            · exact Or.inl h
            · right
              cases j with
              | obj members =>
                simp only [Bool.and_eq_true] at h ⊢
                exact ⟨h.1, denFieldsWith_mono _ _ (fun t j => ih' t j) _ _ h.2⟩
              | null | bool _ | num _ | str _ | arr _ => exact h
          | some hi =>
            obtain ⟨hint, info⟩ := hi
            simp only [hty, Bool.or_eq_true] at h ⊢
            rcases h with h | h
            · exact Or.inl h
            · right
              by_cases hs : hint = "disjunction_of_scalars"
              · simp only [hs, if_true, Bool.and_eq_true, decide_eq_true_eq] at h ⊢
                obtain ⟨⟨⟨⟨h1, h2⟩, h3⟩, h4⟩, h5⟩ := h
                exact ⟨⟨⟨⟨by omega, h2⟩, h3⟩, any_mono _ _ (fun f => ih' _ j) fields h4⟩, h5⟩
              · simp only [hs, if_false] at h ⊢
                cases j with
                | obj members =>
                  simp only at h ⊢
                  cases hd : Json.lookup info.discriminator members with
                  | none => simp [hd] at h
                  | some d =>
                    cases d with
                    | str tag =>
                      simp only [hd, Bool.and_eq_true] at h ⊢
                      refine ⟨h.1, ?_⟩
                      cases hm : info.mapping.find? (fun kv => kv.1 == tag) with
                      | none => simp [hm] at h
                      | some kv =>
                        simp only [hm, Bool.and_eq_true] at h ⊢
                        exact ⟨h.2.1, ih' _ _ h.2.2⟩
                    | null | bool _ | num _ | arr _ | obj _ => simp [hd] at h
                | null | bool _ | num _ | str _ | arr _ => exact h
        | enum vals em =>
          cases vals with
          | nil => simp [hty] at h
          | cons v0 rest => simpa [hty] using h
        | scalar kind sv scs om => simpa [hty] using h
        | array ae am =>
          simp only [hty, Bool.and_eq_true] at h ⊢
          exact ⟨h.1, ih' _ _ h.2⟩
        | map mi mv mm =>
          simp only [hty, Bool.and_eq_true] at h ⊢
          exact ⟨h.1, ih' _ _ h.2⟩
        | ref rp rn rm =>
          simp only [hty] at h ⊢
          exact ih' _ _ h
        | cref _ _ _ _ => simp [hty] at h
        | disj _ _ _ => simp [hty] at h
        | inter _ _ => simp [hty] at h
        | slot _ _ => simp [hty] at h
        | bad _ _ => simp [hty] at h
    | cref _ _ _ _ => simp [den] at h
    | struct _ _ _ _ => simp [den] at h
    | enum _ _ => simp [den] at h
    | disj _ _ _ => simp [den] at h
    | inter _ _ => simp [den] at h
    | slot _ _ => simp [den] at h
    | bad _ _ => simp [den] at h

theorem den_mono_le (ss : Schemas) (n m : Nat) (h : n ≤ m) (t : Ty) (j : Json)
    (hd : den n ss t j = true) : den m ss t j = true := by
  induction h with
  | refl => exact hd
  | step _ ih => exact den_mono ss _ t j ih

end Cog.Sem
