/-
  C02, Python declaration fragment — lemmas, part 2: the import map (fold of `rset`) and `__init__`.
-/
import Cog.Sem.PyDeclLemmas1
import Cog.OMap.Lemmas
namespace Cog.Sem.PyDecl
open Cog Cog.IR Cog.OMap

/-! ### the import map -/

theorem mem_rset {k : String} {v : PyImport} : ∀ (l : List (String × PyImport)) (x : String × PyImport),
    x ∈ rset k v l → x = (k, v) ∨ x ∈ l
  | [], x, h => by simp [rset] at h; exact Or.inl h
  | (k', v') :: t, x, h => by
    simp only [rset] at h
    by_cases hk : k' = k
    · simp only [hk, if_true, List.mem_cons] at h
      rcases h with h | h
      · exact Or.inl h
      · exact Or.inr (List.mem_cons_of_mem _ h)
    · simp only [hk, if_false, List.mem_cons] at h
      rcases h with h | h
      · exact Or.inr (by rw [h]; exact List.mem_cons_self ..)
      · rcases mem_rset t x h with h' | h'
        · exact Or.inl h'
        · exact Or.inr (List.mem_cons_of_mem _ h')

theorem importsOf_all (ss : Schemas) : ∀ (as : List String) (acc : List (String × PyImport)),
    (∀ a ∈ as, a = "" ∨ aliasOk ss a = true) → (∀ x ∈ acc, importOk ss x = true) →
    ∀ x ∈ importsOf as acc, importOk ss x = true
  | [], acc, _, hacc => by simpa [importsOf] using hacc
  | a :: as, acc, has, hacc => by
    simp only [importsOf]
    apply importsOf_all ss as _ (fun b hb => has b (List.mem_cons_of_mem _ hb))
    by_cases ha : a = ""
    · simp only [ha, beq_self_eq_true, if_true]; exact hacc
    · have : (a == "") = false := by simp [ha]
      simp only [this, Bool.false_eq_true, if_false]
      intro x hx
      rcases mem_rset acc x hx with h | h
      · rcases has a (List.mem_cons_self ..) with h0 | h0
        · exact absurd h0 ha
        · rw [h]; exact h0
      · exact hacc x h

theorem importsOf_get : ∀ (as : List String) (acc : List (String × PyImport)) (a : String), a ≠ "" →
    (a ∈ as ∨ rget a acc = some (importFor a)) → rget a (importsOf as acc) = some (importFor a)
  | [], acc, a, _, h => by
    rcases h with h | h
    · simp at h
    · simpa [importsOf] using h
  | b :: as, acc, a, hne, h => by
    simp only [importsOf]
    apply importsOf_get as _ a hne
    by_cases hb : b = ""
    · simp only [hb, beq_self_eq_true, if_true]
      rcases h with h | h
      · simp only [List.mem_cons] at h
        rcases h with h | h
        · exact absurd (h.trans hb) hne
        · exact Or.inl h
      · exact Or.inr h
    · have hbf : (b == "") = false := by simp [hb]
      simp only [hbf, Bool.false_eq_true, if_false]
      by_cases hab : b = a
      · right; subst hab; rw [rget_rset]; simp
      · rcases h with h | h
        · simp only [List.mem_cons] at h
          rcases h with h | h
          · exact absurd h.symm hab
          · exact Or.inl h
        · right; rw [rget_rset]; simp [hab, h]

theorem pyIdent_ne_empty {s : String} (h : pyIdent s = true) : s ≠ "" := by
  intro he; subst he; revert h; decide +kernel

theorem aliasOk_ne_empty {ss : Schemas} {a : String} (h : aliasOk ss a = true) : a ≠ "" := by
  simp only [aliasOk, importOk, Bool.and_eq_true] at h
  exact pyIdent_ne_empty h.1

/-- the import block the model computes binds every alias used, to an importable module -/
theorem imports_ok (ss : Schemas) (pkg : String) (ds : List PyDecl)
    (h : ∀ a ∈ declsAliases ds, aliasOk ss a = true) :
    let m : PyModule := { pkg := pkg, imports := importsOf (declsAliases ds) [], decls := ds }
    m.imports.all (importOk ss) = true ∧ importsCover m = true := by
  refine ⟨?_, ?_⟩
  · simp only [List.all_eq_true]
    exact importsOf_all ss _ [] (fun a ha => Or.inr (h a ha)) (by simp)
  · simp only [importsCover, List.all_eq_true]
    intro a ha
    have hne := aliasOk_ne_empty (h a ha)
    rw [importsOf_get _ [] a hne (Or.inl ha)]
    simp [hne]

/-! ### `__init__` -/

def stmtName : PyStmt → String
  | .assign n _ | .assignParam n | .assignOr n _ => n

def stmtExprOk (ss : Schemas) : PyStmt → Bool
  | .assign _ e | .assignOr _ e => synOk e && (exprAliases e).all (aliasOk ss)
  | .assignParam _ => true

theorem stmtOk_of (ss : Schemas) (st : PyStmt) (h1 : pyIdent (stmtName st) = true) (h2 : stmtExprOk ss st = true) :
    stmtOk st = true := by
  cases st <;> simp_all [stmtOk, stmtName, stmtExprOk]

theorem stmt_aliases (ss : Schemas) (st : PyStmt) (h2 : stmtExprOk ss st = true) :
    ∀ a ∈ stmtAliases st, aliasOk ss a = true := by
  cases st <;> simp_all [stmtAliases, stmtExprOk]

theorem stmt_noCrash (ss : Schemas) (st : PyStmt) (h2 : stmtExprOk ss st = true) :
    exprsCrash (stmtExpr st) = none := by
  cases st with
  | assign n e => simp only [stmtExprOk, Bool.and_eq_true] at h2; simp [stmtExpr, exprsCrash, synOk_noCrash e h2.1]
  | assignOr n e => simp only [stmtExprOk, Bool.and_eq_true] at h2; simp [stmtExpr, exprsCrash, synOk_noCrash e h2.1]
  | assignParam n => simp [stmtExpr, exprsCrash]

theorem stmtName_orStmt (n : String) (d : Option PyE) : stmtName (orStmt n d) = n := by
  cases d <;> rfl

theorem initField_stmtName (cfg : Cfg) (ss : Schemas) (cur : String) (f : Field) :
    stmtName (initField cfg ss cur f).2 = fmtIdent cfg f.name := by
  obtain ⟨name, ty, req, cs⟩ := f
  cases ty <;> simp only [initField, isArgOptionalKind] <;> (try split) <;> (try split) <;>
    first | exact stmtName_orStmt _ _ | rfl | simp [stmtName]

theorem evalOk_optional (ss : Schemas) (cur : String) (hc : cur ≠ "typing") (e : PyE) (h : evalOk ss e = true) :
    evalOk ss (.sub (.attr (pkgAlias cur "typing") "Optional") [e]) = true := by
  have : pkgAlias cur "typing" = "typing" := by simp [pkgAlias, Ne.symm hc]
  simp [evalOk, evalsOk, this, attrOk, typingNames, h]

theorem initField_param (cfg : Cfg) (ss : Schemas) (cur : String) (hc : cur ≠ "typing") (f : Field)
    (ht : evalOk ss (fmtTy ss cur f.ty) = true) :
    ∀ p, (initField cfg ss cur f).1 = some p → p.name = fmtIdent cfg f.name ∧ evalOk ss p.ann = true := by
  obtain ⟨name, ty, req, cs⟩ := f
  intro p hp
  cases ty <;> simp only [initField, isArgOptionalKind] at hp <;> (try split at hp) <;> (try split at hp) <;>
    simp only [Option.some.injEq, reduceCtorEq] at hp <;> subst hp <;>
    first
      | exact ⟨rfl, ht⟩
      | exact ⟨rfl, evalOk_optional ss cur hc _ ht⟩

theorem initField_none (cfg : Cfg) (ss : Schemas) (cur : String) (f : Field) :
    ((initField cfg ss cur f).1.isNone) = isConcrete f.ty := by
  obtain ⟨name, ty, req, cs⟩ := f
  cases ty <;> simp only [initField, isArgOptionalKind, isConcrete] <;> (try split) <;> simp_all

end Cog.Sem.PyDecl
