/-
  Semantics of the Go builders cog generates (C09; replayed by C14).

  Literal transcription, as an interpreter over the builder IR (`Cog.Builder.Types`, after veneers
  and `GenerateBuilderNilChecks`) and over values of the generated Go types (`GoVal`), of
    internal/jennies/golang/templates/builders/builder.tmpl     (`New<B>Builder`, `Build`)
    internal/jennies/golang/templates/builders/options.tmpl     (one method per option)
    internal/jennies/golang/templates/builders/assignment.tmpl  (nil checks, setup, value, method)
    internal/jennies/golang/templates/builders/nilcheck.tmpl
    internal/jennies/golang/builder.go                          (`emptyValueForGuard`)
    internal/jennies/golang/types.go                            (`makePathFormatter`)
    internal/jennies/golang/tmpl.go                             (`maybeAsPointer`, `isNullableNonArray`)
  The templates print Go statements; the interpreter executes the statements they print.

  Two layers:
    * `applyOption` / `applyAssignment` – one option call on *resolved* arguments (`RArg`: a Go
      value, or a nested builder whose `Build()` returned an error).  Structural recursion on the
      assignment list; every C09 theorem is about this layer, for all argument values.
    * `resolveArg` / `runBuilder` – evaluation of nested builder arguments given as call lists
      (fuel; driver side and C14's `replay`).

  What the generated code reads from its environment is a parameter of the model, not modelled:
  `Ctx.dflt` is the object `New<Object>()` returns for every struct object (C10's subject).

  Recorded behaviour of the code as it is (see Props/C09.lean for the checked statements):
    * `Build()` returns `builder.internal.Validate()` and NEVER reads `builder.errors`;
    * a nested builder's error is stored with `err.(cog.BuildErrors)`: an error of another dynamic
      type panics inside the option;
    * the option returns at the first failing nested builder: the remaining assignments of the
      option are skipped, the nil checks already executed stay.

  Core Lean only.
-/
import Cog.Sem.GoValidate
import Cog.Builder.Types
namespace Cog.Sem
open Cog.IR Cog.Builder

namespace GB

/-! ### outcomes -/

inductive BRes (α : Type) where
  | ok (a : α)
  | panic (why : String)       -- the generated Go panics
  | unsup (why : String)       -- outside the modelled fragment / generated Go does not compile
  | fuel
  deriving Inhabited

namespace BRes
def bind {α β} (x : BRes α) (f : α → BRes β) : BRes β :=
  match x with
  | ok a => f a
  | panic w => panic w
  | unsup w => unsup w
  | fuel => fuel
def map {α β} (f : α → β) (x : BRes α) : BRes β := x.bind fun a => ok (f a)
def ofD {α} : DRes α → BRes α
  | .ok a => ok a
  | .err => unsup "decode error"
  | .unsup w => unsup w
  | .fuel => fuel
end BRes

/-! ### addressing inside a Go value -/

inductive Key where
  | s (k : String)
  | i (n : Int)
  deriving DecidableEq, Repr, Inhabited

/-- one selector of a Go l-value: `.Field` (through at most one pointer, Go's automatic
    dereference) or `[key]` -/
inductive Step where
  | fld (n : String)
  | key (k : Key)
  deriving DecidableEq, Repr, Inhabited

abbrev Fields := List (String × Bool × GoVal)

def getFld (n : String) : Fields → Option GoVal
  | [] => none
  | (k, _, v) :: t => if k = n then some v else getFld n t

/-- apply `g` to the field `n` (first field with that name); `unsup` when there is no such field -/
def updFld (n : String) (g : GoVal → BRes GoVal) : Fields → BRes Fields
  | [] => .unsup ("no field " ++ n)
  | (k, om, v) :: t =>
    if k = n then (g v).map fun v' => (k, om, v') :: t
    else (updFld n g t).map fun t' => (k, om, v) :: t'

def getBr (n : String) : List (String × GoVal) → Option GoVal
  | [] => none
  | (k, v) :: t => if k = n then some v else getBr n t

def updBr (n : String) (g : GoVal → BRes GoVal) : List (String × GoVal) → BRes (List (String × GoVal))
  | [] => .unsup ("no branch " ++ n)
  | (k, v) :: t =>
    if k = n then (g v).map fun v' => (k, v') :: t
    else (updBr n g t).map fun t' => (k, v) :: t'

def listSet : List GoVal → Nat → GoVal → List GoVal
  | [], _, _ => []
  | _ :: t, 0, x => x :: t
  | h :: t, n + 1, x => h :: listSet t n x

/-- read one selector -/
def getStep : Step → GoVal → BRes GoVal
  | .fld n, .struct fs => match getFld n fs with | some v => .ok v | none => .unsup ("no field " ++ n)
  | .fld n, .union bs => match getBr n bs with | some v => .ok v | none => .unsup ("no branch " ++ n)
  | .fld n, .ptr (.struct fs) => match getFld n fs with | some v => .ok v | none => .unsup ("no field " ++ n)
  | .fld n, .ptr (.union bs) => match getBr n bs with | some v => .ok v | none => .unsup ("no branch " ++ n)
  | .fld _, .nil => .panic "nil pointer dereference"
  | .key (.s k), .gomap kvs => .ok ((Cog.OMap.rget k kvs).getD .nil)
  | .key (.s _), .nil => .ok .nil                       -- reading a nil map yields the zero value
  | .key (.i n), .slice vs =>
    if n < 0 then .panic "index out of range" else
    match vs[n.toNat]? with | some v => .ok v | none => .panic "index out of range"
  | .key (.i _), .nil => .panic "index out of range"
  | _, _ => .unsup "ill-typed selector"

def get : List Step → GoVal → BRes GoVal
  | [], v => .ok v
  | s :: rest, v => (getStep s v).bind (get rest)

/-- `lvalue = g(lvalue)`: rewrite the component addressed by the selectors -/
def upd : List Step → (GoVal → BRes GoVal) → GoVal → BRes GoVal
  | [], g, v => g v
  | .fld n :: rest, g, v =>
    match v with
    | .struct fs => (updFld n (upd rest g) fs).map .struct
    | .union bs => (updBr n (upd rest g) bs).map .union
    | .ptr (.struct fs) => (updFld n (upd rest g) fs).map fun fs' => .ptr (.struct fs')
    | .ptr (.union bs) => (updBr n (upd rest g) bs).map fun bs' => .ptr (.union bs')
    | .nil => .panic "nil pointer dereference"
    | _ => .unsup "ill-typed selector"
  | .key (.s k) :: rest, g, v =>
    match v with
    | .gomap kvs =>
      (upd rest g ((Cog.OMap.rget k kvs).getD .nil)).map fun x => .gomap (Cog.OMap.rset k x kvs)
    | .nil => .panic "assignment to entry in nil map"
    | _ => .unsup "ill-typed selector"
  | .key (.i n) :: rest, g, v =>
    match v with
    | .slice vs =>
      if n < 0 then .panic "index out of range" else
      match vs[n.toNat]? with
      | some x => (upd rest g x).map fun x' => .slice (listSet vs n.toNat x')
      | none => .panic "index out of range"
    | .nil => .panic "index out of range"
    | _ => .unsup "ill-typed selector"

/-! ### arguments -/

/-- a resolved argument of an option call -/
inductive RArg where
  | val (v : GoVal)            -- a plain value, or the object a nested builder built
  | failed (be : Bool)         -- a nested builder whose `Build()` returned an error;
                               -- `be`: the error's dynamic type is `cog.BuildErrors`
  deriving Inhabited

abbrev Env := List (String × RArg)

def Env.find (env : Env) (n : String) : Option RArg :=
  match env with
  | [] => none
  | (k, a) :: t => if k = n then some a else Env.find t n

/-! ### paths (`makePathFormatter`) -/

def keyOfVal : Val → Option Key
  | .str s => some (.s s)
  | .int _ n => some (.i n)
  | _ => none

def keyOfGoVal : GoVal → Option Key
  | .str s => some (.s s)
  | .int n => some (.i n)
  | _ => none

def indexKey (env : Env) (ix : PathIndex) : BRes Key :=
  if !isNil ix.constant then
    match keyOfVal ix.constant with
    | some k => .ok k
    | none => .unsup "index constant"
  else match ix.argument with
    | none => .unsup "index without argument"
    | some a =>
      match env.find a.name with
      | some (.val v) => match keyOfGoVal v with | some k => .ok k | none => .unsup "index argument value"
      | _ => .unsup "index argument"

def isAnyTy' : Ty → Bool
  | .scalar k _ _ _ => k == "any"
  | _ => false

/-- the selectors `formatPath` prints for a path (relative to `builder.internal`).
    `first`: the item is the first of the path.  Outside the model: root items (variables), type
    assertions on `any` items, an item with both a name and an index after the first (the
    formatter prints no dot before it). -/
def stepsOf (env : Env) : Bool → Builder.Path → BRes (List Step)
  | _, [] => .ok []
  | first, it :: rest =>
    if it.root then .unsup "root path item"
    else if isAnyTy' it.ty && it.typeHint.isSome && !rest.isEmpty then .unsup "type assertion in path"
    else
      let name : List Step := if it.identifier = "" then [] else [.fld it.identifier]
      match it.index with
      | none =>
        if it.identifier = "" then .unsup "empty path item" else
        (stepsOf env false rest).map fun r => name ++ r
      | some ix =>
        if !first && it.identifier ≠ "" then .unsup "named indexed item after the first"
        else (indexKey env ix).bind fun k => (stepsOf env false rest).map fun r => name ++ [.key k] ++ r

/-- the l-value `builder.internal.<path>`; an empty path prints `builder.internal. = …`, which
    does not compile -/
def lvalue (env : Env) (p : Builder.Path) : BRes (List Step) :=
  (stepsOf env true p).bind fun steps => if steps.isEmpty then .unsup "empty path" else .ok steps

/-- `ast.Path.String()` -/
def pathString (p : Builder.Path) : String := ".".intercalate (p.map (·.identifier))

/-! ### context -/

structure Ctx where
  ss : Schemas
  bs : Builders
  /-- `New<Object>()` of every struct object: (package, object name) ↦ value -/
  dflt : List ((String × String) × GoVal)
  deriving Inhabited

def Ctx.newObject (c : Ctx) (pkg name : String) : Option GoVal :=
  (c.dflt.find? fun e => e.1.1 == pkg && e.1.2 == name).map (·.2)

structure BState where
  internal : GoVal                 -- `*builder.internal`
  errors : List String := []       -- keys of `builder.errors`
  deriving Inhabited

/-! ### values -/

/-- `Nullable && !IsAnyOf(array, map, composable_slot)` (`maybeAsPointer`) -/
def asPointer (t : Ty) : Bool :=
  t.getMeta.nullable && !(t.isArray || t.isMap || (match t with | .slot .. => true | _ => false))

def maybePtr (t : Ty) (v : GoVal) : GoVal := if asPointer t then .ptr v else v

/-- a constant printed by `formatScalar` / `formatValue` (bool, integers, floats that are
    multiples of 0.25, strings; enum members are printed by name and denote the same value) -/
def constVal : Val → Option GoVal
  | .bool b => some (.bool b)
  | .int _ n => some (.int n)
  | .float _ r => (parseGFloat r).map .float
  | .jnum s => (parseGFloat s).map .float
  | .str s => some (.str s)
  | _ => none

/-- numeric constants take the type of the destination: an integer literal assigned to a float
    field is that float -/
def coerceConst (t : Ty) (v : GoVal) : GoVal :=
  match t, v with
  | .scalar k _ _ _, .int n => if k == "float32" || k == "float64" then .float (n * 4) else v
  | _, _ => v

/-- `New<Object>()` and `T{}` leave a union-struct member without any branch; such a member marshals as
    `null`, which the decoder of a scalars union reads as its first branch.  Undo that: members
    whose JSON is null/absent and whose type is a (non-nullable) reference to a union struct hold
    the empty union. -/
def fixDefault : Nat → Schemas → Ty → Json → GoVal → GoVal
  | 0, _, _, _, v => v
  | fuel + 1, ss, t, j, v =>
    match t with
    | .ref p n m =>
      match Schemas.locateObject ss p n with
      | some { ty := .struct fields _ gi _, .. } =>
        match gi, j with
        | some _, .null => if m.nullable then v else .union (fields.map fun f => (f.name, .nil))
        | some _, _ => v
        | none, .obj members =>
          let fixFields (fs : List (String × Bool × GoVal)) : List (String × Bool × GoVal) :=
            fs.map fun (k, om, x) =>
              match fields.find? (fun f => f.name == k) with
              | some f => (k, om, fixDefault fuel ss f.ty ((Json.lookup k members).getD .null) x)
              | none => (k, om, x)
          match v with
          | .struct fs => .struct (fixFields fs)
          | .ptr (.struct fs) => .ptr (.struct (fixFields fs))
          | _ => v
        | _, _ => v
      | _ => v
    | _ => v

/-- the zero value of a named struct (`T{}`): every member decoded from `null` -/
def zeroStruct (c : Ctx) (t : Ty) : BRes GoVal :=
  match t with
  | .ref p n _ =>
    match Schemas.locateObject c.ss p n with
    | some { ty := .struct fields _ (some _) _, .. } => .ok (.union (fields.map fun f => (f.name, .nil)))
    | _ => (BRes.ofD (goDecode 8 c.ss (.ref p n {}) .null)).map (fixDefault 8 c.ss (.ref p n {}) (.obj []))
  | _ => .unsup "envelope type is not a reference"

/-- `emptyValueForGuard` -/
def emptyValue (c : Ctx) (t : Ty) : BRes GoVal :=
  match t with
  | .ref p n _ =>
    match resolveRefs c.ss (.ref p n {}) with
    | some (.struct ..) =>
      -- `NewT()` of the *named* reference (returns *T)
      match c.newObject p n with
      | some v => .ok (.ptr v)
      | none => .unsup "no default object for nil check"
    | some (.array ..) => .ok (.slice [])
    | some (.map ..) => .ok (.gomap [])
    | some (.enum (v0 :: _) _) =>
      match constVal v0.value with | some v => .ok (.ptr v) | none => .unsup "enum value"
    | some (.scalar ..) => .unsup "nil check on a scalar prints no value"
    | _ => .unsup "nil check: unknown"
  | .array .. => .ok (.slice [])
  | .map .. => .ok (.gomap [])
  | .enum (v0 :: _) _ => match constVal v0.value with | some v => .ok (.ptr v) | none => .unsup "enum value"
  | .scalar .. => .unsup "nil check on a scalar prints no value"
  | _ => .unsup "nil check: unknown"

/-- `nil_check`: `if <path> == nil { <path> = <empty value> }` -/
def nilCheck (c : Ctx) (env : Env) (nc : NilCheck) (v : GoVal) : BRes GoVal :=
  (lvalue env nc.path).bind fun steps =>
  (get steps v).bind fun cur =>
    if cur.isNil then (emptyValue c nc.emptyValueType).bind fun e => upd steps (fun _ => .ok e) v
    else .ok v

def nilChecks (c : Ctx) (env : Env) : List NilCheck → GoVal → BRes GoVal
  | [], v => .ok v
  | nc :: rest, v => (nilCheck c env nc v).bind (nilChecks c env rest)

/-- what evaluating a value can do besides yielding it -/
inductive VRes where
  | val (v : GoVal)
  | stop                      -- a nested builder failed with cog.BuildErrors: store, return
  | panic (why : String)
  | unsup (why : String)
  deriving Inhabited

/-- `assignment_value` of an argument or a constant (`lastTy` = `.Assignment.Path.Last.Type`) -/
def leafValue (env : Env) (lastTy : Ty) : AValue → VRes
  | .arg cell =>
    match env.find cell.arg.name with
    | some (.val v) => .val (maybePtr lastTy v)
    | some (.failed true) => .stop
    | some (.failed false) => .panic "interface conversion: error is not cog.BuildErrors"
    | none => .unsup ("unbound argument " ++ cell.arg.name)
  | .const k =>
    match constVal k with
    | some v =>
      -- `isNullableNonArray`: `&valX`
      if lastTy.getMeta.nullable && !lastTy.isArray then .val (.ptr (coerceConst lastTy v))
      else .val (coerceConst lastTy v)
    | none => .unsup "constant"
  | .none => .unsup "empty assignment value"
  | .env .. => .unsup "nested envelope"

/-- `value_envelope`: `T{ Field: <value>, … }`; each member value is printed by `assignment_value`
    (pointer decision of the OUTER assignment) and then `maybeAsPointer` of the member's own type:
    both at once is `&&x`, which does not compile -/
def envelopeMember (env : Env) (lastTy : Ty) (it : PathItem) : AValue → VRes
  | .arg cell =>
    if asPointer lastTy && asPointer it.ty then .unsup "double address-of in envelope" else
    match leafValue env lastTy (.arg cell) with
    | .val v => .val (if asPointer lastTy then v else maybePtr it.ty v)
    | r => r
  | .const k =>
    match leafValue env lastTy (.const k) with
    | .val v => .val (maybePtr it.ty v)
    | r => r
  | _ => .unsup "envelope member value"

def envelopeFields (env : Env) (lastTy : Ty) : List EnvField → GoVal → VRes
  | [], acc => .val acc
  | ev :: rest, acc =>
    match ev.path with
    | [it] =>
      match envelopeMember env lastTy it ev.value with
      | .val v =>
        match upd [.fld it.identifier] (fun _ => .ok v) acc with
        | .ok acc' => envelopeFields env lastTy rest acc'
        | .panic w => .panic w
        | .unsup w => .unsup w
        | .fuel => .unsup "fuel"
      | r => r
    | _ => .unsup "envelope member path"

def evalValue (c : Ctx) (env : Env) (lastTy : Ty) : AValue → VRes
  | .env t vals =>
    match zeroStruct c t with
    | .ok z => envelopeFields env lastTy vals z
    | .panic w => .panic w
    | .unsup w => .unsup w
    | .fuel => .unsup "fuel"
  | v => leafValue env lastTy v

/-- `assignment_method` on the addressed component -/
def assignOp (method : String) (x : GoVal) (old : GoVal) : BRes GoVal :=
  if method = "append" then
    match old with
    | .nil => .ok (.slice [x])
    | .slice vs => .ok (.slice (vs ++ [x]))
    | _ => .unsup "append to a non-slice"
  else .ok x

/-- what one assignment does to the builder -/
inductive AStep where
  | cont (st : BState)
  | stop (st : BState)        -- `return builder` before the end of the option
  | panic (why : String)
  | unsup (why : String)
  deriving Inhabited

def lastTy (p : Builder.Path) : Ty :=
  match p.getLast? with
  | some it => it.ty
  | none => .bad "" {}

/-- `builder.errors[k] = …`: a Go map, keys are unique -/
def addKey (k : String) (ks : List String) : List String := if ks.contains k then ks else ks ++ [k]

/-- the `assignment` template: nil checks, set-up (nested `Build()` calls), value, method -/
def applyAssignment (c : Ctx) (env : Env) (st : BState) (a : Assignment) : AStep :=
  match nilChecks c env a.nilChecks st.internal with
  | .panic w => .panic w
  | .unsup w => .unsup w
  | .fuel => .unsup "fuel"
  | .ok v1 =>
    match evalValue c env (lastTy a.path) a.value with
    | .panic w => .panic w
    | .unsup w => .unsup w
    | .stop => .stop { internal := v1, errors := addKey (pathString a.path) st.errors }
    | .val x =>
      match (lvalue env a.path).bind fun steps => upd steps (assignOp a.method x) v1 with
      | .ok v2 => .cont { st with internal := v2 }
      | .panic w => .panic w
      | .unsup w => .unsup w
      | .fuel => .unsup "fuel"

/-- the body of an option method / of the constructor: assignments in order -/
def applyAssignments (c : Ctx) (env : Env) : List Assignment → BState → BRes BState
  | [], st => .ok st
  | a :: rest, st =>
    match applyAssignment c env st a with
    | .cont st' => applyAssignments c env rest st'
    | .stop st' => .ok st'
    | .panic w => .panic w
    | .unsup w => .unsup w

def bindArgs (params : List Argument) (args : List RArg) : Env :=
  (params.map (·.name)).zip args

/-- one option call -/
def applyOption (c : Ctx) (o : Opt) (args : List RArg) (st : BState) : BRes BState :=
  if o.args.length ≠ args.length then .unsup "arity" else
  applyAssignments c (bindArgs o.args args) o.assignments st

/-- `New<B>Builder(args)`: `New<Object>()`, then the constructor's assignments -/
def newBuilder (c : Ctx) (b : Builder) (args : List RArg) : BRes BState :=
  match c.newObject b.for_.selfPkg b.for_.selfName with
  | none => .unsup "no default object"
  | some d =>
    if b.constructor.args.length ≠ args.length then .unsup "arity" else
    applyAssignments c (bindArgs b.constructor.args args) b.constructor.assignments { internal := d }

/-- `Build()`: exactly `if err := builder.internal.Validate(); err != nil { return T{}, err };
    return *builder.internal, nil`.  `builder.errors` is not read. -/
def build (c : Ctx) (b : Builder) (st : BState) : BRes (Except (List Viol) GoVal) :=
  match goValidate 64 c.ss b.for_.selfPkg b.for_.selfName st.internal with
  | .ok [] => .ok (.ok st.internal)
  | .ok vs => .ok (.error vs)
  | .err => .unsup "validate"
  | .unsup w => .unsup w
  | .fuel => .fuel

/-- a sequence of option calls on resolved arguments -/
def applyCalls (c : Ctx) : List (Opt × List RArg) → BState → BRes BState
  | [], st => .ok st
  | (o, args) :: rest, st => (applyOption c o args st).bind (applyCalls c rest)

/-! ### call lists (nested builders as data) -/

mutual
inductive Arg where
  | json (j : Json)                                         -- a plain value, as JSON (decoded at the parameter's type)
  | val (v : GoVal)                                         -- a plain value, as the Go value itself (C14)
  | builder (name : String) (ctor : List Arg) (calls : List Call)   -- a generated builder and what was called on it
  | fail (be : Bool)                                        -- a foreign `cog.Builder[T]` whose Build() fails
  | list (xs : List Arg)                                    -- []cog.Builder[T]
  | dict (kvs : List (String × Arg))                        -- map[string]cog.Builder[T]
inductive Call where
  | mk (opt : String) (args : List Arg)
end

instance : Inhabited Arg := ⟨.fail true⟩
instance : Inhabited Call := ⟨.mk "" []⟩

def Call.opt : Call → String | .mk o _ => o
def Call.args : Call → List Arg | .mk _ a => a

def findBuilder (bs : Builders) (name : String) : Option Builder := bs.find? fun b => b.name == name
def findOption (b : Builder) (name : String) : Option Opt := b.options.find? fun o => o.name == name

def elemTy : Ty → Ty
  | .array e _ => e
  | .map _ v _ => v
  | t => t

/-- evaluation of call lists; `fuel` bounds the nesting of builders -/
def resolveArg : Nat → Ctx → Ty → Arg → BRes RArg
  | 0, _, _, _ => .fuel
  | fuel + 1, c, t, a =>
    match a with
    | .json j => (BRes.ofD (goDecode 64 c.ss (t.setMeta { t.getMeta with nullable := false }) j)).map .val
    | .fail be => .ok (.failed be)
    | .val v => .ok (.val v)
    | .builder name ctor calls =>
      match findBuilder c.bs name with
      | none => .unsup ("no builder " ++ name)
      | some b =>
        let rec resolveAll (params : List Argument) (as : List Arg) : BRes (List RArg) :=
          match params, as with
          | [], [] => .ok []
          | p :: ps, x :: xs => (resolveArg fuel c p.ty x).bind fun r => (resolveAll ps xs).map (r :: ·)
          | _, _ => .unsup "arity"
        let rec run (calls : List Call) (st : BState) : BRes BState :=
          match calls with
          | [] => .ok st
          | cl :: rest =>
            match findOption b cl.opt with
            | none => .unsup ("no option " ++ cl.opt)
            | some o => (resolveAll o.args cl.args).bind fun ras => (applyOption c o ras st).bind (run rest)
        (resolveAll b.constructor.args ctor).bind fun cas =>
        (newBuilder c b cas).bind fun st0 =>
        (run calls st0).bind fun st =>
        (build c b st).map fun r => match r with
          | .ok v => .val v
          | .error _ => .failed true
    | .list xs =>
      let rec go (xs : List Arg) (acc : List GoVal) : BRes RArg :=
        match xs with
        | [] => .ok (.val (.slice acc))
        | x :: rest =>
          (resolveArg fuel c (elemTy t) x).bind fun r => match r with
            | .val v => go rest (acc ++ [v])
            | .failed be => .ok (.failed be)
      go xs []
    | .dict kvs =>
      let rec goMap (kvs : List (String × Arg)) (acc : List (String × GoVal)) : BRes RArg :=
        match kvs with
        | [] => .ok (.val (.gomap acc))
        | (k, x) :: rest =>
          (resolveArg fuel c (elemTy t) x).bind fun r => match r with
            | .val v => goMap rest (Cog.OMap.rset k v acc)
            | .failed be => .ok (.failed be)
      goMap kvs []

def resolveArgs (fuel : Nat) (c : Ctx) : List Argument → List Arg → BRes (List RArg)
  | [], [] => .ok []
  | p :: ps, x :: xs => (resolveArg fuel c p.ty x).bind fun r => (resolveArgs fuel c ps xs).map (r :: ·)
  | _, _ => .unsup "arity"

def runCalls (fuel : Nat) (c : Ctx) (b : Builder) : List Call → BState → BRes BState
  | [], st => .ok st
  | cl :: rest, st =>
    match findOption b cl.opt with
    | none => .unsup ("no option " ++ cl.opt)
    | some o => (resolveArgs fuel c o.args cl.args).bind fun ras => (applyOption c o ras st).bind (runCalls fuel c b rest)

/-- `New<B>Builder(ctor…).Opt1(…)….OptN(…)`: the builder's final state -/
def runBuilder (fuel : Nat) (c : Ctx) (b : Builder) (ctor : List Arg) (calls : List Call) : BRes BState :=
  (resolveArgs fuel c b.constructor.args ctor).bind fun cas =>
  (newBuilder c b cas).bind fun st0 => runCalls fuel c b calls st0

end GB
end Cog.Sem
