/-
  C01 (c) pass widening — third extension: anonymous structs (AnonymousStructsToNamed, the first pass
  of the Go chain; model definitions in Cog/Sem/SrcStruct.lean).

  * `processType` is `(sImg, sNew)` for EVERY type (mutual structural induction);
  * with fresh generated names (`structFresh`) the old objects keep their keys and every new object
    is found under its name (`as_lookup`);
  * `as_widen`: the SOURCE-side language is preserved at the same fuel — an anonymous struct and the
    reference to the object made of it admit the same documents — for every type, no fragment needed.
-/
import Cog.Sem.SrcStruct
import Cog.Sem.WidenChainN
namespace Cog.Sem.Src
open Cog.IR Cog.Passes
open Cog.OMap (rget rset)
open AnonymousStructsToNamed (processType processList processFields processObject processObjects processSchema)

/-! ### the pass is `(sImg, sNew)` -/

mutual
theorem ASN_processType_eq (pkg : String) : ∀ (t : Ty) (parent : String) (acc : List Obj),
    processType pkg parent t acc = (sImg pkg parent t, acc ++ sNew pkg parent t)
  | .array e m, parent, acc => by simp [processType, sImg, sNew, ASN_processType_eq pkg e parent acc]
  | .map i v m, parent, acc => by
    simp [processType, sImg, sNew, ASN_processType_eq pkg i parent acc, ASN_processType_eq pkg v parent _,
      List.append_assoc]
  | .disj bs info m, parent, acc => by simp [processType, sImg, sNew, ASN_processList_eq pkg bs parent acc]
  | .struct fs g gi m, parent, acc => by
    simp [processType, sImg, sNew, ASN_processFields_eq pkg fs parent acc, List.append_assoc]
  | .scalar .., _, _ => by simp [processType, sImg, sNew]
  | .ref .., _, _ => by simp [processType, sImg, sNew]
  | .cref .., _, _ => by simp [processType, sImg, sNew]
  | .enum .., _, _ => by simp [processType, sImg, sNew]
  | .inter .., _, _ => by simp [processType, sImg, sNew]
  | .slot .., _, _ => by simp [processType, sImg, sNew]
  | .bad .., _, _ => by simp [processType, sImg, sNew]
theorem ASN_processList_eq (pkg : String) : ∀ (ts : List Ty) (parent : String) (acc : List Obj),
    processList pkg parent ts acc = (sImgList pkg parent ts, acc ++ sNewList pkg parent ts)
  | [], _, _ => by simp [processList, sImgList, sNewList]
  | t :: ts, parent, acc => by
    simp [processList, sImgList, sNewList, ASN_processType_eq pkg t parent acc,
      ASN_processList_eq pkg ts parent _, List.append_assoc]
theorem ASN_processFields_eq (pkg : String) : ∀ (fs : List Field) (parent : String) (acc : List Obj),
    processFields pkg parent fs acc = (sImgFields pkg parent fs, acc ++ sNewFields pkg parent fs)
  | [], _, _ => by simp [processFields, sImgFields, sNewFields]
  | f :: fs, parent, acc => by
    simp [processFields, sImgFields, sNewFields, ASN_processType_eq pkg f.ty _ acc,
      ASN_processFields_eq pkg fs parent _, List.append_assoc]
end

theorem ASN_processObject_eq (o : Obj) (acc : List Obj) : processObject o acc = (oImg o, acc ++ oNew o) := by
  obtain ⟨name, comments, ty, selfPkg, selfName⟩ := o
  cases ty <;> simp [processObject, oImg, oNew, ASN_processType_eq, ASN_processFields_eq]

theorem ASN_processObjects_eq : ∀ (m : Objects) (acc : List Obj),
    processObjects m acc = (mapObjects' oImg m, acc ++ sNewAll m)
  | [], _ => by simp [processObjects, mapObjects', sNewAll]
  | (k, o) :: rest, acc => by
    simp [processObjects, ASN_processObject_eq o acc, ASN_processObjects_eq rest _, mapObjects', sNewAll,
      List.append_assoc]

theorem ASN_processSchema_eq (s : Schema) :
    processSchema s = { s with objects := addObjects (sNewAll s.objects) (mapObjects' oImg s.objects) } := by
  simp [processSchema, ASN_processObjects_eq]

/-! ### lookups with fresh generated names -/

theorem as_lookup (s : Schema) (hf : namesFresh ((sNewAll s.objects).map (·.name)) (s.objects.map (·.1)) = true) :
    (∀ k o, rget k s.objects = some o → rget k (processSchema s).objects = some (oImg o)) ∧
    (∀ o ∈ sNewAll s.objects, rget o.name (processSchema s).objects = some o) := by
  have hadd := addObjects_fresh (sNewAll s.objects) (mapObjects' oImg s.objects)
    (by rw [keys_mapObjects']; exact hf)
  simp only [ASN_processSchema_eq, hadd]
  constructor
  · intro k o hk
    rw [rget_append, rget_mapObjects', hk]; rfl
  · intro o ho
    have hnt := namesFresh_not_taken _ _ hf o.name (List.mem_map.2 ⟨o, ho, rfl⟩)
    rw [rget_append, rget_mapObjects', rget_none_of_not_key _ _ hnt]
    exact rget_news _ _ hf o ho

/-! ### what the image keeps -/

theorem isNull_sImg (pkg parent : String) (t : Ty) : isNull (sImg pkg parent t) = isNull t := by
  cases t <;> simp [sImg, isNull]

theorem sImgList_length (pkg parent : String) : ∀ bs : List Ty, (sImgList pkg parent bs).length = bs.length
  | [] => rfl
  | _ :: bs => by simp [sImgList, sImgList_length pkg parent bs]

theorem hasNullType_sImgList (pkg parent : String) : ∀ bs : List Ty,
    hasNullType (sImgList pkg parent bs) = hasNullType bs
  | [] => rfl
  | b :: bs => by simp [sImgList, hasNullType, isNull_sImg, hasNullType_sImgList pkg parent bs]

theorem nonNullTypes_sImgList (pkg parent : String) : ∀ bs : List Ty,
    nonNullTypes (sImgList pkg parent bs) = sImgList pkg parent (nonNullTypes bs)
  | [] => rfl
  | b :: bs => by
    simp only [sImgList, nonNullTypes, isNull_sImg]
    split
    · exact nonNullTypes_sImgList pkg parent bs
    · simp [sImgList, nonNullTypes_sImgList pkg parent bs]

theorem constBranchHas_sImg (pkg parent : String) (j : Json) (t : Ty) :
    constBranchHas j (sImg pkg parent t) = constBranchHas j t := by
  cases t <;> simp [sImg, constBranchHas]

theorem any_constBranch_sImgList (pkg parent : String) (j : Json) : ∀ bs : List Ty,
    (sImgList pkg parent bs).any (constBranchHas j) = bs.any (constBranchHas j)
  | [] => rfl
  | b :: bs => by simp [sImgList, constBranchHas_sImg, any_constBranch_sImgList pkg parent j bs]

theorem sImg_setNullable (pkg parent : String) (b : Bool) (t : Ty) :
    sImg pkg parent (setNullable b t) = setNullable b (sImg pkg parent t) := by
  cases t <;> simp [sImg, setNullable, Ty.setMeta, Ty.getMeta]

theorem sNew_setNullable (pkg parent : String) (b : Bool) (t : Ty) :
    sNew pkg parent (setNullable b t) = sNew pkg parent t := by
  cases t <;> simp [sNew, setNullable, Ty.setMeta, Ty.getMeta]

theorem isArrayMap_sImg (pkg parent : String) (t : Ty) :
    ((sImg pkg parent t).isArray || (sImg pkg parent t).isMap) = (t.isArray || t.isMap) := by
  cases t <;> simp [sImg, Ty.isArray, Ty.isMap]

theorem isCollLike_sImg (pkg parent : String) (t : Ty) : isCollLike (sImg pkg parent t) = isCollLike t := by
  cases t with
  | disj bs info m =>
    simp only [sImg, isCollLike, sImgList_length, hasNullType_sImgList, nonNullTypes_sImgList]
    cases nonNullTypes bs with
    | nil => rfl
    | cons u r => simp only [sImgList]; rw [isArrayMap_sImg]
  | array _ _ | map _ _ _ | scalar _ _ _ _ | ref _ _ _ | cref _ _ _ _ | struct _ _ _ _ | enum _ _
  | inter _ _ | slot _ _ | bad _ _ => simp [sImg, isCollLike]

theorem isByteElem_sImg (pkg parent : String) (t : Ty) : isByteElem (sImg pkg parent t) = isByteElem t := by
  cases t <;> simp [sImg, isByteElem]

theorem sImgFields_names (pkg parent : String) : ∀ fs : List Field,
    (sImgFields pkg parent fs).map (·.name) = fs.map (·.name)
  | [] => rfl
  | f :: fs => by simp [sImgFields, sImgFields_names pkg parent fs]

/-- membership in the objects created below a list of branches / fields -/
theorem sNew_sub_list (pkg parent : String) : ∀ {bs : List Ty} {t : Ty}, t ∈ bs →
    ∀ o ∈ sNew pkg parent t, o ∈ sNewList pkg parent bs
  | b :: bs, t, ht, o, ho => by
    simp only [sNewList, List.mem_append]
    rcases List.mem_cons.1 ht with rfl | ht
    · exact Or.inl ho
    · exact Or.inr (sNew_sub_list pkg parent ht o ho)

theorem nonNull_mem : ∀ {bs : List Ty} {t : Ty}, t ∈ nonNullTypes bs → t ∈ bs
  | b :: bs, t, h => by
    simp only [nonNullTypes] at h
    split at h
    · exact List.mem_cons_of_mem _ (nonNull_mem h)
    · rcases List.mem_cons.1 h with rfl | h
      · exact List.mem_cons_self ..
      · exact List.mem_cons_of_mem _ (nonNull_mem h)

theorem sNew_sub_fields (pkg parent : String) : ∀ {fs : List Field} {f : Field}, f ∈ fs →
    ∀ o ∈ sNew pkg (parent ++ ucc f.name) f.ty, o ∈ sNewFields pkg parent fs
  | g :: fs, f, hf, o, ho => by
    simp only [sNewFields, List.mem_append]
    rcases List.mem_cons.1 hf with rfl | hf
    · exact Or.inl ho
    · exact Or.inr (sNew_sub_fields pkg parent hf o ho)

/-! ### fields -/

theorem as_fields (d d' : Ty → Json → Bool) (pkg parent : String) : ∀ (fs : List Field)
    (_himp : ∀ f ∈ fs, ∀ (b : Bool) (j : Json), d (if b then setNullable true f.ty else f.ty) j = true →
      d' (if b then setNullable true (sImg pkg (parent ++ ucc f.name) f.ty) else sImg pkg (parent ++ ucc f.name) f.ty) j = true)
    (members : List (String × Json)) (_h : xFieldsWith true d fs members = true),
    xFieldsWith true d' (sImgFields pkg parent fs) members = true
  | [], _, _, _ => by simp [xFieldsWith, sImgFields]
  | f :: fs, himp, members, h => by
    simp only [xFieldsWith, List.all_cons, Bool.and_eq_true] at h
    have ih := as_fields d d' pkg parent fs (fun g hg => himp g (List.mem_cons_of_mem _ hg)) members
      (by simpa [xFieldsWith] using h.2)
    simp only [xFieldsWith, sImgFields, List.all_cons, Bool.and_eq_true] at ih ⊢
    refine ⟨⟨by simp, ?_⟩, ih⟩
    have h1 := h.1.2
    have hf := himp f (List.mem_cons_self ..)
    simp only [Bool.true_or, if_true] at h1 ⊢
    cases hl : Json.lookup f.name members with
    | some v =>
      rw [hl] at h1
      simp only [Bool.and_eq_true] at h1 ⊢
      refine ⟨by simpa using hf false v (by simpa using h1.1), ?_⟩
      simpa [xFieldValueOK, isCollLike_sImg] using h1.2
    | none =>
      rw [hl] at h1
      simp only [Bool.and_eq_true] at h1 ⊢
      exact ⟨h1.1, by simpa using hf true .null (by simpa using h1.2)⟩

theorem as_structBody (d d' : Ty → Json → Bool) (pkg parent : String) (fs : List Field)
    (himp : ∀ f ∈ fs, ∀ (b : Bool) (j : Json), d (if b then setNullable true f.ty else f.ty) j = true →
      d' (if b then setNullable true (sImg pkg (parent ++ ucc f.name) f.ty) else sImg pkg (parent ++ ucc f.name) f.ty) j = true)
    (j : Json) (h : xStructBody true d fs j = true) :
    xStructBody true d' (sImgFields pkg parent fs) j = true := by
  cases j with
  | obj members =>
    simp only [xStructBody, sImgFields_names, Bool.and_eq_true] at h ⊢
    exact ⟨h.1, as_fields d d' pkg parent fs himp members h.2⟩
  | null | bool _ | num _ | str _ | arr _ => simp [xStructBody] at h

/-! ### the source-side language through the pass -/

theorem mem_sNewAll {m : Objects} {ko : String × Obj} (hk : ko ∈ m) {o' : Obj} (ho : o' ∈ oNew ko.2) :
    o' ∈ sNewAll m := by
  simp only [sNewAll, List.mem_flatMap]
  exact ⟨ko, hk, ho⟩

theorem structFresh_schema {S : Schemas} (h : structFresh S = true) {s : Schema} (hs : s ∈ S) :
    structFreshSchema s = true := by
  simp only [structFresh, List.all_eq_true] at h
  exact h s hs

theorem as_widen (S : Schemas) (hF : structFresh S = true) :
    ∀ n t j pkg parent,
    (∀ o ∈ sNew pkg parent t, Schemas.locateObject (asnS S) pkg o.name = some o) →
    xden true n S t j = true → xden true n (asnS S) (sImg pkg parent t) j = true := by
  intro n
  induction n with
  | zero => intro t j _ _ _ h; simp [xden] at h
  | succ n ih =>
    intro t j pkg parent hocc h
    -- the field-wise step shared by anonymous structs and struct objects
    have hfields : ∀ (fs : List Field) (par : String),
        (∀ o ∈ sNewFields pkg par fs, Schemas.locateObject (asnS S) pkg o.name = some o) →
        ∀ f ∈ fs, ∀ (b : Bool) (j' : Json), xden true n S (if b then setNullable true f.ty else f.ty) j' = true →
          xden true n (asnS S) (if b then setNullable true (sImg pkg (par ++ ucc f.name) f.ty) else sImg pkg (par ++ ucc f.name) f.ty) j' = true := by
      intro fs par hoccf f hf b j' hd
      have hsub : ∀ o ∈ sNew pkg (par ++ ucc f.name) f.ty, Schemas.locateObject (asnS S) pkg o.name = some o :=
        fun o ho => hoccf o (sNew_sub_fields pkg par hf o ho)
      cases b with
      | false => exact ih _ _ pkg _ hsub hd
      | true =>
        simp only [if_true] at hd ⊢
        rw [← sImg_setNullable]
        exact ih _ _ pkg _ (by rw [sNew_setNullable]; exact hsub) hd
    cases t with
    | scalar kind v cs m => simpa [xden, sImg] using h
    | array e m =>
      simp only [sNew] at hocc
      simp only [sImg]
      simp only [xden, Bool.and_eq_true, isByteElem_sImg] at h ⊢
      refine ⟨h.1, ?_⟩
      cases j with
      | arr xs => exact all_mono _ _ (fun x => ih e x pkg parent hocc) xs h.2
      | null => exact h.2
      | bool _ | num _ | str _ | obj _ => exact h.2
    | map i v m =>
      simp only [sNew] at hocc
      simp only [sImg]
      simp only [xden] at h
      split at h
      · rename_i val cs im
        simp only [sImg, xden]
        cases j with
        | obj kvs =>
          simp only [Bool.and_eq_true] at h ⊢
          exact ⟨h.1, all_mono _ _ (fun kv => ih v kv.2 pkg parent
            (fun o ho => hocc o (List.mem_append.2 (Or.inr ho)))) kvs h.2⟩
        | null => exact h
        | bool _ | num _ | str _ | arr _ => exact h
      · simp at h
    | struct fs g gi m =>
      cases gi with
      | some x => simp [xden] at h
      | none =>
        have ho := hocc (newObject pkg parent (.struct (sImgFields pkg parent fs) g none { m with nullable := false }))
          (by simp [sNew])
        simp only [newObject] at ho
        simp only [sImg, xden, ho, Bool.or_eq_true] at h ⊢
        rcases h with h | h
        · exact Or.inl h
        · exact Or.inr (as_structBody _ _ pkg parent fs
            (hfields fs parent (fun o ho' => hocc o (by simp only [sNew, List.mem_append]; exact Or.inl ho'))) j h)
    | enum vals em =>
      cases vals with
      | nil => simp [xden] at h
      | cons v0 rest => simpa [xden, sImg] using h
    | disj bs info m =>
      simp only [sNew] at hocc
      simp only [sImg]
      simp only [xden, sImgList_length, hasNullType_sImgList, nonNullTypes_sImgList, any_constBranch_sImgList] at h ⊢
      split
      · rename_i hc
        simp only [hc, if_true] at h
        cases hnn : nonNullTypes bs with
        | nil => simp [hnn] at h
        | cons u r =>
          simp only [hnn, sImgList] at h ⊢
          rw [← sImg_setNullable]
          refine ih _ _ pkg parent ?_ h
          rw [sNew_setNullable]
          have hu : u ∈ bs := nonNull_mem (by rw [hnn]; exact List.mem_cons_self ..)
          exact fun o ho => hocc o (sNew_sub_list pkg parent hu o ho)
      · rename_i hc
        simp only [hc] at h
        exact h
    | ref q nm m =>
      simp only [sImg]
      simp only [xden] at h ⊢
      cases ho : Schemas.locateObject S q nm with
      | none => simp [ho] at h
      | some o =>
        simp only [Schemas.locateObject] at ho
        cases hs : Schemas.locate S q with
        | none => simp [hs] at ho
        | some s =>
          simp only [hs, Schema.locateObject] at ho
          have hsmem := locate_mem' hs
          have hpk : s.pkg = q := locate_pkg hs
          have hfs := structFresh_schema hF hsmem
          simp only [structFreshSchema, Bool.and_eq_true, List.all_eq_true, beq_iff_eq] at hfs
          obtain ⟨hold, hnew⟩ := as_lookup s hfs.2
          have hloc' : ∀ k, Schemas.locateObject (asnS S) q k = rget k (processSchema s).objects := by
            intro k
            simp only [Schemas.locateObject, asnS,
              locate_map_pkg processSchema (fun s => by rw [ASN_processSchema_eq]), hs, Option.map,
              Schema.locateObject]
          have hlo : Schemas.locateObject S q nm = some o := by
            simp only [Schemas.locateObject, hs, Schema.locateObject, ho]
          simp only [hlo] at h
          rw [hloc', hold nm o ho]
          dsimp only
          have hsp : o.selfPkg = q := by rw [← hpk]; exact hfs.1.2 (nm, o) (mem_of_rget' ho)
          -- the new objects of `o` are found under their names, in the package of the references to them
          have hG : ∀ o' ∈ oNew o, Schemas.locateObject (asnS S) o.selfPkg o'.name = some o' := by
            intro o' ho'
            rw [hsp, hloc']
            exact hnew o' (mem_sNewAll (mem_of_rget' ho) ho')
          cases hty : o.ty with
          | struct fields gen gi sm =>
            cases gi with
            | none =>
              have himg : (oImg o).ty = .struct (sImgFields o.selfPkg (ucc o.selfPkg ++ ucc o.name) fields) gen none sm := by
                simp only [oImg, hty]
              simp only [hty, himg, Bool.or_eq_true] at h ⊢
              rcases h with h | h
              · exact Or.inl h
              · right
                refine as_structBody _ _ o.selfPkg _ fields ?_ j h
                intro f hf b j' hd
                have hsub : ∀ o' ∈ sNew o.selfPkg ((ucc o.selfPkg ++ ucc o.name) ++ ucc f.name) f.ty,
                    Schemas.locateObject (asnS S) o.selfPkg o'.name = some o' := by
                  intro o' ho'
                  apply hG
                  simp only [oNew, hty]
                  exact sNew_sub_fields _ _ hf o' ho'
                cases b with
                | false => exact ih _ _ _ _ hsub hd
                | true =>
                  simp only [if_true] at hd ⊢
                  rw [← sImg_setNullable]
                  exact ih _ _ _ _ (by rw [sNew_setNullable]; exact hsub) hd
            | some x => simp [hty] at h
          | enum vals em =>
            have himg : oImg o = o := by simp only [oImg, hty]
            rw [himg]
            cases vals with
            | nil => simp [hty] at h
            | cons v0 rest => simpa [hty] using h
          | scalar kind sv scs om =>
            have himg : oImg o = o := by simp only [oImg, hty]
            rw [himg]
            simpa [hty] using h
          | array ae am =>
            have himg : (oImg o).ty = sImg o.selfPkg (ucc o.selfPkg ++ ucc o.name) (.array ae am) := by
              simp only [oImg, hty]
            simp only [hty, Bool.and_eq_true] at h
            have := ih _ _ o.selfPkg (ucc o.selfPkg ++ ucc o.name) (by
              intro o' ho'; apply hG; simpa [oNew, hty] using ho') h.2
            rw [himg]
            simp only [sImg] at this ⊢
            simp only [Bool.and_eq_true]
            exact ⟨h.1, this⟩
          | map mi mv mm =>
            have himg : (oImg o).ty = sImg o.selfPkg (ucc o.selfPkg ++ ucc o.name) (.map mi mv mm) := by
              simp only [oImg, hty]
            simp only [hty, Bool.and_eq_true] at h
            have := ih _ _ o.selfPkg (ucc o.selfPkg ++ ucc o.name) (by
              intro o' ho'; apply hG; simpa [oNew, hty] using ho') h.2
            rw [himg]
            simp only [sImg] at this ⊢
            simp only [Bool.and_eq_true]
            exact ⟨h.1, this⟩
          | ref rp rn rm =>
            have himg : oImg o = o := by simp only [oImg, hty]
            rw [himg]
            simp only [hty] at h ⊢
            have := ih (.ref rp rn { rm with nullable := m.nullable }) j "" "" (by simp [sNew]) h
            simpa [sImg] using this
          | cref _ _ _ _ => simp [hty] at h
          | disj _ _ _ => simp [hty] at h
          | inter _ _ => simp [hty] at h
          | slot _ _ => simp [hty] at h
          | bad _ _ => simp [hty] at h
    | cref _ _ _ _ => simp [xden] at h
    | inter _ _ => simp [xden] at h
    | slot _ _ => simp [xden] at h
    | bad _ _ => simp [xden] at h

/-! ### composition with the rest of the chain -/

/-- the whole fragment: fresh struct names, and the output of AnonymousStructsToNamed in `PlainX` -/
def PlainS (S : Schemas) : Bool := structFresh S && PlainX (asnS S)

def structChainOK : List PassId → Bool
  | .anonymousStructsToNamed :: rest => extChainOK rest
  | _ => false

/-- pass widening for the named objects of a pre-chain IR in `PlainS`, along every chain that starts
    with AnonymousStructsToNamed and continues with a chain of the shape `extChainOK` -/
theorem widen_chainS (ps : List PassId) (hok : structChainOK ps = true) (S S' : Schemas)
    (hS : PlainS S = true) (hrun : runChain ps S = .ok S') :
    Plain S' = true ∧
    ∀ n pkg name j, srcDen n S (.ref pkg name {}) j = true → den (n + 1) S' (.ref pkg name {}) j = true := by
  simp only [PlainS, Bool.and_eq_true] at hS
  cases ps with
  | nil => simp [structChainOK] at hok
  | cons p rest =>
    cases p <;> simp [structChainOK] at hok
    have hrun' : runChain rest (asnS S) = .ok S' := by
      simpa [runChain, PassId.run, AnonymousStructsToNamed.run, asnS] using hrun
    obtain ⟨hP', hw⟩ := widen_chainX rest hok (asnS S) S' hS.2 hrun'
    refine ⟨hP', fun n pkg name j h => ?_⟩
    have h1 := as_widen S hS.1 n (.ref pkg name {}) j "" "" (by simp [sNew]) h
    simp only [sImg] at h1
    exact hw n _ j rfl rfl h1

end Cog.Sem.Src
