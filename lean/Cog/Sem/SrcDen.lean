/-
  `srcDen n S t j`: the document `j` belongs to the SOURCE-side document language of the IR type `t`
  of the PRE-chain IR `S` (what the front-ends produce, before `CompilerPasses()` of the Go target).

  Same recursion scheme (fuel) as `den`, and the same exclusions (bytes, `any` holding integers
  ≥ 2^53 or duplicate keys, empty `[]`/`{}` in non-required collection fields, empty collections
  behind a collection alias, references to constants, non-string map keys), so that the widening
  theorem (Cog/Sem/Widen*.lean, Props/C01.lean) isolates what the PASSES do.  What differs:

  * source reading of optionality: a non-required struct field may be ABSENT whatever its type
    (no `nullable` needed, no `fieldShapeOK`); a present member must belong to the field type, so
    an explicit `null` is accepted only by a nullable type; a required field must be present;
  * source reading of enums and constants: the value must be one of the members / the constant
    (`den` only looks at the scalar kind: the Go type of an enum is its scalar type);
  * pre-chain constructs that the Go chain removes: an anonymous struct in type position, a
    two-branch `T | null` disjunction, a disjunction of constants, an anonymous enum.

  `xden src` is the common definition: `src = true` is the source reading (`srcDen`), `src = false`
  the Go reading of optionality on the same constructs — the language of the IR between
  NotRequiredFieldAsNullableType and the end of the chain.  On the plain fragment `xden false`
  implies `den` (Cog/Sem/WidenDen.lean).

  Core Lean only (the driver evaluates `Plain`, `srcDen`).  Everything of the pass-widening development
  lives in the namespace `Cog.Sem.Src` (the driver links every property's modules: no name clashes).
-/
import Cog.Sem.Den
import Cog.Passes.Common
import Cog.Passes.AnonymousEnumToExplicitType
namespace Cog.Sem.Src
open Cog.IR Cog.Passes

/-! ### constants and enum members against JSON values -/

/-- does the IR value (constant / enum member value) denote this JSON value? -/
def valMatches : Val → Json → Bool
  | .str s, .str s' => s == s'
  | .bool b, .bool b' => b == b'
  | .int _ n, .num q => q == 4 * n
  | .float _ r, .num q => Json.parseNum r == some q
  | .jnum r, .num q => Json.parseNum r == some q
  | _, _ => false

/-- a concrete scalar (constant) admits only its value; `nil` = not a constant -/
def constOK : Val → Json → Bool
  | .nil, _ => true
  | v, j => valMatches v j

def enumHas (vs : List EnumVal) (j : Json) : Bool := vs.any fun v => valMatches v.value j

/-- branch of a disjunction of constants -/
def constBranchHas (j : Json) : Ty → Bool
  | .scalar k v _ _ => !Val.isNil v && denScalar k j && valMatches v j
  | _ => false

/-- the collection test of `fieldValueOK`, looking through a two-branch `T | null` disjunction -/
def isCollLike : Ty → Bool
  | .array .. => true
  | .map .. => true
  | .disj bs _ _ =>
    bs.length == 2 && hasNullType bs &&
    (match nonNullTypes bs with
     | t :: _ => t.isArray || t.isMap
     | [] => false)
  | _ => false

def xFieldValueOK (f : Field) (v : Json) : Bool := f.required || !(isCollLike f.ty && isEmptyColl v)

/-- struct fields against object members.  `src = true`: a non-required field may be absent whatever
    its type; `src = false`: `denFieldsWith` (the field must be a pointer or a collection). -/
def xFieldsWith (src : Bool) (d : Ty → Json → Bool) (fields : List Field) (members : List (String × Json)) : Bool :=
  fields.all fun f =>
    (src || fieldShapeOK f) &&
    match Json.lookup f.name members with
    | some v => d f.ty v && xFieldValueOK f v
    | none => !f.required && d (if src then setNullable true f.ty else f.ty) .null

def xStructBody (src : Bool) (d : Ty → Json → Bool) (fields : List Field) (j : Json) : Bool :=
  match j with
  | .obj members =>
    keysNodup members && namesNodup (fields.map (·.name)) &&
    members.all (fun kv => (fields.map (·.name)).contains kv.1) &&
    xFieldsWith src d fields members
  | _ => false

def xden (src : Bool) : Nat → Schemas → Ty → Json → Bool
  | 0, _, _, _ => false
  | fuel + 1, ss, t, j =>
    match t with
    | .scalar kind v _ m =>
      if kind = "bytes" then false
      else if kind = "any" then anyExact j && wfDeep j
      else if hasHint m "string_format_datetime" then
        (m.nullable && j.isNull) || (match j with | .str _ => kind = "string" | _ => false)
      else (m.nullable && j.isNull) || (denScalar kind j && constOK v j)
    | .array e m =>
      !isByteElem e &&
      match j with
      | .null => m.nullable
      | .arr xs => xs.all (xden src fuel ss e)
      | _ => false
    | .map idx v m =>
      match idx with
      | .scalar "string" _ _ _ =>
        match j with
        | .null => m.nullable
        | .obj kvs => keysNodup kvs && kvs.all (fun kv => xden src fuel ss v kv.2)
        | _ => false
      | _ => false
    | .ref pkg name m =>
      match Schemas.locateObject ss pkg name with
      | none => false
      | some o =>
        match o.ty with
        | .struct fields _ none _ =>
          (m.nullable && j.isNull) || xStructBody src (xden src fuel ss) fields j
        | .enum (v0 :: vs) _ =>
          (m.nullable && j.isNull) || (denScalar v0.kind j && enumHas (v0 :: vs) j)
        | .scalar kind v _ om =>
          (match v with | .nil => true | _ => false) && kind != "bytes" && kind != "any" &&
          !hasHint om "string_format_datetime" &&
          ((m.nullable && j.isNull) || denScalar kind j)
        | .array .. | .map .. => !isEmptyColl j && xden src fuel ss o.ty j
        | .ref p n om => xden src fuel ss (.ref p n { om with nullable := m.nullable }) j
        | _ => false
    -- pre-chain constructs ------------------------------------------------------------------
    | .struct fields _ none m =>
      (m.nullable && j.isNull) || xStructBody src (xden src fuel ss) fields j
    | .enum (v0 :: vs) m =>
      (m.nullable && j.isNull) || (denScalar v0.kind j && enumHas (v0 :: vs) j)
    | .disj bs _ m =>
      if bs.length == 2 && hasNullType bs then
        match nonNullTypes bs with
        | t :: _ => xden src fuel ss (setNullable true t) j
        | [] => false
      else
        (m.nullable && j.isNull) || bs.any (constBranchHas j)
    | _ => false

/-- the source-side document language of the pre-chain IR -/
def srcDen (n : Nat) (S : Schemas) (t : Ty) (j : Json) : Bool := xden true n S t j

/-! ### the plain fragment

No disjunction, no intersection, no anonymous struct below an object's type, no anonymous enum, no
constant reference, no composable slot; map index types are scalars. -/

/-- types in field / element position -/
def plainTy : Ty → Bool
  | .scalar .. => true
  | .ref .. => true
  | .array e _ => plainTy e
  | .map i v _ => i.isScalar && plainTy v
  | _ => false

/-- an object's type: additionally a struct of plain fields, or an enum -/
def plainObjTy : Ty → Bool
  | .struct fs _ none _ => fs.all fun f => plainTy f.ty
  | .struct _ _ (some _) _ => false
  | .enum .. => true
  | t => plainTy t

/-- entry point types: a plain type or the nil type (what the front-ends leave there) -/
def plainEpt : Ty → Bool
  | .bad .. => true
  | t => plainTy t

/-- the ordered map of objects is one: unique keys, each object stored under its own name -/
def wfObjects : Objects → Bool
  | [] => true
  | (k, o) :: rest => (k == o.name) && !(rest.any fun ko => ko.1 == k) && wfObjects rest

def plainSchema (s : Schema) : Bool :=
  wfObjects s.objects && plainEpt s.entryPointType && s.objects.all fun ko => plainObjTy ko.2.ty

def Plain (S : Schemas) : Bool := S.all plainSchema

/-! ### first extension: two-branch `T | null` disjunctions (removed by DisjunctionWithNullToOptional)

`nrTy` is the fragment handled at the NotRequiredFieldAsNullableType step: plain types, plus — in
field, element and map-value position — `T | null` / `null | T` with a plain `T` (the hook of
DisjunctionWithNullToOptional replaces the traversal, so a pair nested below the `T` would survive). -/

/-- the non-null branch of a two-branch disjunction with exactly one `null` branch -/
def nullPairOf : List Ty → Option Ty
  | [a, b] =>
    if isNull a && !isNull b then some b
    else if isNull b && !isNull a then some a
    else none
  | _ => none

def nullPair (bs : List Ty) : Bool :=
  match nullPairOf bs with
  | some t => plainTy t
  | none => false

def nrTy : Ty → Bool
  | .scalar .. => true
  | .ref .. => true
  | .array e _ => nrTy e
  | .map i v _ => i.isScalar && nrTy v
  | .disj bs _ _ => nullPair bs
  | .enum (_ :: _) _ => true        -- second extension: anonymous enums, see below
  | _ => false

def nrObjTy : Ty → Bool
  | .struct fs _ none _ => fs.all fun f => nrTy f.ty
  | .struct _ _ (some _) _ => false
  | .enum .. => true
  | t => nrTy t

def nrSchema (s : Schema) : Bool :=
  wfObjects s.objects && plainEpt s.entryPointType && s.objects.all fun ko => nrObjTy ko.2.ty

/-- plain, or with `T | null` pairs and anonymous enums -/
def PlainN (S : Schemas) : Bool := S.all nrSchema

/-! ### second extension: anonymous enums (made objects by AnonymousEnumToExplicitType)

`peTy`: plain types and non-empty enums in field / element / map-value position — what is left of
`nrTy` once DisjunctionWithNullToOptional has run.  AnonymousEnumToExplicitType names the object it
creates for an enum after the enclosing object and field (`<Object><Field>`, `<Object>Enum` below an
object that is not a struct) and adds it with `Objects.Set`: the theorem needs the generated names
to be pairwise different and different from the existing object names (`enumFresh`, decidable). -/

def peTy : Ty → Bool
  | .scalar .. => true
  | .ref .. => true
  | .array e _ => peTy e
  | .map i v _ => i.isScalar && peTy v
  | .enum (_ :: _) _ => true
  | _ => false

def peObjTy : Ty → Bool
  | .struct fs _ none _ => fs.all fun f => peTy f.ty
  | .struct _ _ (some _) _ => false
  | .enum .. => true
  | t => peTy t

def peSchema (s : Schema) : Bool :=
  wfObjects s.objects && plainEpt s.entryPointType && s.objects.all fun ko => peObjTy ko.2.ty

def PlainE (S : Schemas) : Bool := S.all peSchema

/-- the objects AnonymousEnumToExplicitType creates below a type, with the name suggestion `sug` -/
def eNew (pkg sug : String) : Ty → List Obj
  | .array e _ => eNew pkg sug e
  | .map _ v _ => eNew pkg sug v
  | .enum vs _ => [newObject pkg (ucc sug) (.enum (AnonymousEnumToExplicitType.renameMembers vs) {})]
  | _ => []

def eNewObj (o : Obj) : List Obj :=
  match o.ty with
  | .enum .. => []
  | .struct fs _ _ _ => fs.flatMap fun f => eNew o.selfPkg (ucc o.name ++ ucc f.name) f.ty
  | t => eNew o.selfPkg (ucc o.name ++ "Enum") t

def eNewAll (m : Objects) : List Obj := m.flatMap fun ko => eNewObj ko.2

def namesFresh : List String → List String → Bool
  | [], _ => true
  | n :: rest, taken => !taken.contains n && !rest.contains n && namesFresh rest taken

/-- per schema: the generated enum object names are pairwise different and none is an existing key -/
def enumFresh (S : Schemas) : Bool :=
  S.all fun s => namesFresh ((eNewAll s.objects).map (·.name)) (s.objects.map (·.1))

end Cog.Sem.Src
