/-
  C02 helper lemmas, part 1: association lists, unique finders, and the correspondence between the
  IR's lookups (`Schemas.locateObject`) and the checker's lookups in the emitted declarations.
-/
import Cog.Sem.GoDeclHyp
namespace Cog.Sem.GoDecl
open Cog.IR Cog.OMap
open Cog.Passes (ucc cleanupNames)

/-! ### association lists -/

theorem rget_mem {k : String} {o : Obj} : ∀ {l : List (String × Obj)}, rget k l = some o → (k, o) ∈ l
  | [], h => by simp [rget] at h
  | (k', v) :: tl, h => by
    simp only [rget] at h
    split at h
    · rename_i hk
      cases h
      subst hk
      exact List.mem_cons_self
    · exact List.mem_cons_of_mem _ (rget_mem h)

theorem nodupB_iff (l : List String) : nodupB l = true ↔ l.Nodup := by simp [nodupB]

/-! ### identifiers of declaration lists -/

theorem mem_declsIdents {x : String} : ∀ {ds : List GoDecl} {d : GoDecl}, d ∈ ds → x ∈ declIdents d → x ∈ declsIdents ds
  | [], _, h, _ => by cases h
  | d0 :: rest, d, h, hx => by
    simp only [declsIdents, List.mem_append]
    rcases List.mem_cons.mp h with rfl | h'
    · exact Or.inl hx
    · exact Or.inr (mem_declsIdents h' hx)

theorem declsIdents_append (a b : List GoDecl) : declsIdents (a ++ b) = declsIdents a ++ declsIdents b := by
  induction a with
  | nil => rfl
  | cons d ds ih => simp [declsIdents, ih, List.append_assoc]

/-- a finder whose predicate implies "declares the identifier `n`" returns THE declaration of `n` when
    identifiers are unique -/
theorem findDecl_unique {P : GoDecl → Bool} {n : String} (hP : ∀ d, P d = true → n ∈ declIdents d) :
    ∀ {ds : List GoDecl} {d : GoDecl}, (declsIdents ds).Nodup → d ∈ ds → P d = true → findDecl P ds = some d
  | [], _, _, h, _ => by cases h
  | d0 :: rest, d, hnd, hmem, hpd => by
    simp only [declsIdents] at hnd
    have hnd' := List.nodup_append.mp hnd
    simp only [findDecl]
    by_cases hp0 : P d0 = true
    · simp only [hp0, if_true]
      rcases List.mem_cons.mp hmem with rfl | hrest
      · rfl
      · exfalso
        exact hnd'.2.2 n (hP d0 hp0) n (mem_declsIdents hrest (hP d hpd)) rfl
    · simp only [hp0]
      have hne : d ≠ d0 := by
        intro h; subst h; exact hp0 hpd
      rcases List.mem_cons.mp hmem with h | hrest
      · exact absurd h hne
      · simpa using findDecl_unique hP hnd'.2.1 hrest hpd

theorem declaresType_idents {n : String} : ∀ d, declaresType n d = true → n ∈ declIdents d := by
  intro d h
  cases d <;> simp [declaresType, declTypeName] at h <;> simp [declIdents, h]

theorem isCtorNamed_idents {n : String} : ∀ d, isCtorNamed n d = true → n ∈ declIdents d := by
  intro d h
  cases d <;> simp [isCtorNamed] at h <;> simp [declIdents, h]

theorem declaresValue_idents {n : String} : ∀ d, declaresValue n d = true → n ∈ declIdents d := by
  intro d h
  cases d with
  | const m v => simp [declaresValue] at h; simp [declIdents, h]
  | enumDef e u ms =>
    simp only [declaresValue, List.any_eq_true] at h
    obtain ⟨x, hx, hxn⟩ := h
    simp only [declIdents, List.mem_cons, List.mem_map]
    exact Or.inr ⟨x, hx, by simpa using hxn⟩
  | _ => simp [declaresValue] at h

/-! ### packages -/

/-- the printing context -/
def ctxOf (cfg : Cfg) (ss : Schemas) : Ctx := { cfg := cfg, ss := ss }

theorem locate_mem : ∀ {ss : List Schema} {p : String} {s : Schema}, Schemas.locate ss p = some s → s ∈ ss ∧ s.pkg = p
  | [], _, _, h => by simp [Schemas.locate] at h
  | s0 :: rest, p, s, h => by
    simp only [Schemas.locate] at h
    split at h
    · rename_i hp
      cases h
      exact ⟨List.mem_cons_self, hp⟩
    · have := locate_mem h
      exact ⟨List.mem_cons_of_mem _ this.1, this.2⟩

theorem pkgDecls_emit (cfg : Cfg) (ss0 : Schemas) :
    ∀ (ss : List Schema) (p : String) (s : Schema), (∀ s ∈ ss, fmtPkg s.pkg = s.pkg) → Schemas.locate ss p = some s →
      pkgDecls (fmtPkg p) (emitSchemasAux cfg ss0 ss) = emitObjs (ctxOf cfg ss0) s.objects
  | [], _, _, _, h => by simp [Schemas.locate] at h
  | s0 :: rest, p, s, hc, h => by
    have hs0 : fmtPkg s0.pkg = s0.pkg := hc s0 List.mem_cons_self
    simp only [Schemas.locate] at h
    simp only [emitSchemasAux, emitSchema, pkgDecls]
    split at h
    · rename_i hp
      cases h
      simp [hp, ctxOf]
    · rename_i hp
      have hm := locate_mem h
      have hsp : fmtPkg p = p := by
        have := hc s (List.mem_cons_of_mem _ hm.1)
        rw [hm.2] at this; exact this
      have hne : (fmtPkg s0.pkg == fmtPkg p) = false := by
        rw [hs0, hsp]; simpa using hp
      simp only [hne]
      exact pkgDecls_emit cfg ss0 rest p s (fun x hx => hc x (List.mem_cons_of_mem _ hx)) h

/-! ### what an object declares -/

theorem enumMembers_names (en : String) : ∀ vs : List EnumVal,
    (enumMembers en vs).map (·.1) = vs.map (fun v => cleanupNames (ucc v.name))
  | [] => rfl
  | v :: vs => by simp [enumMembers, enumMembers_names en vs]

theorem mem_emitObjs {c : Ctx} {d : GoDecl} : ∀ {objs : List (String × Obj)} {k : String} {o : Obj},
    (k, o) ∈ objs → d ∈ emitObj c o → d ∈ emitObjs c objs
  | [], _, _, h, _ => by cases h
  | (k0, o0) :: rest, k, o, h, hd => by
    simp only [emitObjs, List.mem_append]
    rcases List.mem_cons.mp h with heq | hrest
    · cases heq; exact Or.inl hd
    · exact Or.inr (mem_emitObjs hrest hd)

/-- under `objOk`, the identifiers of the emitted declarations are the IR-level `objIdents` -/
theorem declsIdents_emitObj (c : Ctx) (o : Obj) (h : objOk c.ss o = true) :
    declsIdents (emitObj c o) = objIdents c.ss o := by
  unfold emitObj emitTypeDecl emitCtor objIdents hasCtor
  unfold objOk at h
  cases hty : o.ty with
  | scalar k v cs m =>
    simp only [hty] at h ⊢
    by_cases hv : Cog.Passes.Val.isNil v = true
    · by_cases hb : (k == "bytes") = true <;> simp [hv, hb, declsIdents, declIdents]
    · simp [hv, declsIdents, declIdents]
  | enum vs m =>
    simp only [hty] at h ⊢
    cases vs with
    | nil => simp at h
    | cons v0 vs' =>
      simp [declsIdents, declIdents, enumMembers, enumMembers_names]
  | ref p n m =>
    simp only [hty]
    clear h
    split
    next ro hro =>
      by_cases hs : ro.ty.isStruct = true <;> simp [hs, hro, declsIdents, declIdents]
    next hro => simp [hro, declsIdents, declIdents]
  | map i v m => simp [declsIdents, declIdents]
  | array e m => simp [declsIdents, declIdents]
  | struct fs g gi m => simp [declsIdents, declIdents]
  | cref p n v m => simp [hty] at h
  | disj bs i m => simp [hty] at h
  | inter bs m => simp [hty] at h
  | slot v m => simp [hty] at h
  | bad k m => simp [hty] at h

theorem objectsOk_mem {ss : Schemas} {pkg : String} : ∀ {objs : List (String × Obj)} {k : String} {o : Obj},
    objectsOk ss pkg objs = true → (k, o) ∈ objs →
      o.name = k ∧ o.selfName = k ∧ o.selfPkg = pkg ∧ objOk ss o = true
  | [], _, _, _, h => by cases h
  | (k0, o0) :: rest, k, o, hok, h => by
    simp only [objectsOk, Bool.and_eq_true, beq_iff_eq] at hok
    rcases List.mem_cons.mp h with heq | hrest
    · cases heq; exact ⟨hok.1.1.1.1, hok.1.1.1.2, hok.1.1.2, hok.1.2⟩
    · exact objectsOk_mem hok.2 hrest

theorem declsIdents_emitObjs (c : Ctx) (pkg : String) : ∀ (objs : List (String × Obj)),
    objectsOk c.ss pkg objs = true → declsIdents (emitObjs c objs) = objsIdents c.ss objs
  | [], _ => rfl
  | (k0, o0) :: rest, hok => by
    have h0 := (objectsOk_mem (k := k0) (o := o0) hok List.mem_cons_self).2.2.2
    simp only [objectsOk, Bool.and_eq_true] at hok
    simp only [emitObjs, objsIdents, declsIdents_append, declsIdents_emitObj c o0 h0,
      declsIdents_emitObjs c pkg rest hok.2]

theorem schemasOk_mem {ss0 : Schemas} : ∀ {ss : List Schema} {s : Schema}, schemasOk ss0 ss = true → s ∈ ss →
    fmtPkg s.pkg = s.pkg ∧ objectsOk ss0 s.pkg s.objects = true ∧ externalPkgs.contains s.pkg = false ∧
      (s.objects.map (·.1)).Nodup
  | [], _, _, h => by cases h
  | s0 :: rest, s, hok, h => by
    simp only [schemasOk, schemaOk, Bool.and_eq_true, beq_iff_eq, nodupB_iff, Bool.not_eq_true'] at hok
    rcases List.mem_cons.mp h with rfl | hrest
    · exact ⟨hok.1.1.1.1, hok.1.2, hok.1.1.1.2, hok.1.1.2⟩
    · exact schemasOk_mem hok.2 hrest

theorem schemasNamesOk_mem {ss0 : Schemas} : ∀ {ss : List Schema} {s : Schema}, schemasNamesOk ss0 ss = true → s ∈ ss →
    (∀ x ∈ objsIdents ss0 s.objects, validIdent x = true) ∧ (objsIdents ss0 s.objects).Nodup
  | [], _, _, h => by cases h
  | s0 :: rest, s, hok, h => by
    simp only [schemasNamesOk, schemaNamesOk, Bool.and_eq_true, List.all_eq_true, nodupB_iff] at hok
    rcases List.mem_cons.mp h with rfl | hrest
    · exact ⟨hok.1.1, hok.1.2⟩
    · exact schemasNamesOk_mem hok.2 hrest

/-! ### the environment of a printable schema set -/

/-- the facts about the emitted environment every later lemma uses -/
structure EnvFacts (cfg : Cfg) (ss : Schemas) : Prop where
  printable : GoPrintable ss = true
  names : wfNames ss = true

namespace EnvFacts
variable {cfg : Cfg} {ss : Schemas}

theorem sok (h : EnvFacts cfg ss) : schemasOk ss ss = true := by
  have := h.printable
  simp only [GoPrintable, Bool.and_eq_true] at this
  exact this.2

theorem pkgsNodup (h : EnvFacts cfg ss) : (ss.map (·.pkg)).Nodup := by
  have := h.printable
  simp only [GoPrintable, Bool.and_eq_true, nodupB_iff] at this
  exact this.1

theorem canon (h : EnvFacts cfg ss) : ∀ s ∈ ss, fmtPkg s.pkg = s.pkg :=
  fun _ hs => (schemasOk_mem h.sok hs).1

/-- a located object: its schema, and everything `objectsOk` says about it -/
theorem located (h : EnvFacts cfg ss) {p n : String} {o : Obj} (hl : ss.locateObject p n = some o) :
    ∃ s, s ∈ ss ∧ s.pkg = p ∧ (n, o) ∈ s.objects ∧ o.name = n ∧ o.selfName = n ∧ o.selfPkg = p ∧ objOk ss o = true ∧
      pkgDecls (fmtPkg p) (emitEnv cfg ss) = emitObjs (ctxOf cfg ss) s.objects ∧
      (declsIdents (emitObjs (ctxOf cfg ss) s.objects)).Nodup := by
  unfold Schemas.locateObject at hl
  cases hloc : Schemas.locate ss p with
  | none => simp [hloc] at hl
  | some s =>
    simp only [hloc, Schema.locateObject] at hl
    have hm := locate_mem hloc
    have hmem := rget_mem hl
    have hso := schemasOk_mem h.sok hm.1
    have ho := objectsOk_mem hso.2.1 hmem
    have hn := schemasNamesOk_mem h.names hm.1
    refine ⟨s, hm.1, hm.2, hmem, ho.1, ho.2.1, ?_, ho.2.2.2, ?_, ?_⟩
    · rw [← hm.2]; exact ho.2.2.1
    · exact pkgDecls_emit cfg ss ss p s h.canon hloc
    · have := declsIdents_emitObjs (ctxOf cfg ss) s.pkg s.objects (by simpa [ctxOf] using hso.2.1)
      rw [this]; exact hn.2

end EnvFacts

end Cog.Sem.GoDecl
