/-
  C13 helper lemmas, part 1: JSON equality test, association lists, counting lemmas for
  duplicate-free key lists.  (Own copies: nothing here depends on other properties' lemma files.)
-/
import Cog.Sem.GoEquals
namespace Cog.Sem.GoEq
open Cog.IR

/-! ### `Json.beq` decides equality -/

mutual
theorem jbeq_eq : ∀ a b : Json, Json.beq a b = true → a = b
  | .null, b => by cases b <;> simp [Json.beq]
  | .bool x, b => by cases b <;> simp [Json.beq]
  | .num x, b => by cases b <;> simp [Json.beq]
  | .str x, b => by cases b <;> simp [Json.beq]
  | .arr xs, b => by
    cases b <;> simp [Json.beq]
    exact jbeqList_eq xs _
  | .obj ms, b => by
    cases b <;> simp [Json.beq]
    exact jbeqMembers_eq ms _
theorem jbeqList_eq : ∀ a b : List Json, Json.beqList a b = true → a = b
  | [], b => by cases b <;> simp [Json.beqList]
  | x :: xs, b => by
    cases b with
    | nil => simp [Json.beqList]
    | cons y ys =>
      simp only [Json.beqList, Bool.and_eq_true]
      intro h
      rw [jbeq_eq x y h.1, jbeqList_eq xs ys h.2]
theorem jbeqMembers_eq : ∀ a b : List (String × Json), Json.beqMembers a b = true → a = b
  | [], b => by cases b <;> simp [Json.beqMembers]
  | (k, x) :: xs, b => by
    cases b with
    | nil => simp [Json.beqMembers]
    | cons y ys =>
      obtain ⟨k', y⟩ := y
      simp only [Json.beqMembers, Bool.and_eq_true, beq_iff_eq]
      intro h
      rw [h.1.1, jbeq_eq x y h.1.2, jbeqMembers_eq xs ys h.2]
end

mutual
theorem jbeq_refl : ∀ a : Json, Json.beq a a = true
  | .null => by simp [Json.beq]
  | .bool _ => by simp [Json.beq]
  | .num _ => by simp [Json.beq]
  | .str _ => by simp [Json.beq]
  | .arr xs => by simp [Json.beq, jbeqList_refl xs]
  | .obj ms => by simp [Json.beq, jbeqMembers_refl ms]
theorem jbeqList_refl : ∀ a : List Json, Json.beqList a a = true
  | [] => by simp [Json.beqList]
  | x :: xs => by simp [Json.beqList, jbeq_refl x, jbeqList_refl xs]
theorem jbeqMembers_refl : ∀ a : List (String × Json), Json.beqMembers a a = true
  | [] => by simp [Json.beqMembers]
  | (k, x) :: xs => by simp [Json.beqMembers, jbeq_refl x, jbeqMembers_refl xs]
end

theorem jbeq_iff (a b : Json) : Json.beq a b = true ↔ a = b :=
  ⟨jbeq_eq a b, fun h => h ▸ jbeq_refl a⟩

theorem jbeq_false_of_ne {a b : Json} (h : a ≠ b) : Json.beq a b = false := by
  cases hb : Json.beq a b with
  | false => rfl
  | true => exact absurd (jbeq_eq a b hb) h

/-! ### duplicate-free key lists -/

theorem nodupKeys_iff : ∀ l : List String, nodupKeys l = true ↔ l.Nodup
  | [] => by simp [nodupKeys]
  | k :: t => by
    simp [nodupKeys, List.nodup_cons, nodupKeys_iff t]

/-- pigeonhole: a duplicate-free list inside a list that is not longer contains all of it -/
theorem subset_of_nodup_subset_length_le {α} [DecidableEq α] :
    ∀ {l₁ l₂ : List α}, l₁.Nodup → l₁ ⊆ l₂ → l₂.length ≤ l₁.length → l₂ ⊆ l₁
  | [], l₂, _, _, hl => by
    have : l₂ = [] := List.eq_nil_of_length_eq_zero (Nat.le_zero.1 hl)
    simp [this]
  | a :: t, l₂, h₁, hsub, hl => by
    rw [List.nodup_cons] at h₁
    have ha : a ∈ l₂ := hsub (List.mem_cons_self ..)
    have htsub : t ⊆ l₂.erase a := by
      intro x hx
      have hxa : x ≠ a := fun h => h₁.1 (h ▸ hx)
      exact (List.mem_erase_of_ne hxa).2 (hsub (List.mem_cons_of_mem _ hx))
    have hlen : (l₂.erase a).length = l₂.length - 1 := by rw [List.length_erase]; simp [ha]
    have hle : (l₂.erase a).length ≤ t.length := by
      rw [hlen]; simp only [List.length_cons] at hl; omega
    have ih := subset_of_nodup_subset_length_le h₁.2 htsub hle
    intro x hx
    by_cases hxa : x = a
    · simp [hxa]
    · exact List.mem_cons_of_mem _ (ih ((List.mem_erase_of_ne hxa).2 hx))

/-! ### association lists of values -/

theorem keysOf_length {α} : ∀ l : List (String × α), (keysOf l).length = l.length
  | [] => rfl
  | (_, _) :: t => by simp [keysOf, keysOf_length t]

theorem mem_keysOf {α} {k : String} {v : α} : ∀ {l : List (String × α)}, (k, v) ∈ l → k ∈ keysOf l
  | [], h => by simp at h
  | (k', v') :: t, h => by
    simp only [keysOf, List.mem_cons]
    cases List.mem_cons.1 h with
    | inl e => left; exact (Prod.mk.inj e).1
    | inr e => right; exact mem_keysOf e

theorem lookupV_none_iff {k : String} : ∀ {l : List (String × GoVal)}, lookupV k l = none ↔ k ∉ keysOf l
  | [] => by simp [lookupV, keysOf]
  | (k', v') :: t => by
    by_cases h : k' = k
    · simp [lookupV, keysOf, h]
    · have h' : ¬ k = k' := fun e => h e.symm
      simp [lookupV, keysOf, h, h', lookupV_none_iff (l := t)]

theorem mem_of_lookupV {k : String} {v : GoVal} :
    ∀ {l : List (String × GoVal)}, lookupV k l = some v → (k, v) ∈ l
  | [], h => by simp [lookupV] at h
  | (k', v') :: t, h => by
    by_cases e : k' = k
    · simp only [lookupV, e, if_true, Option.some.injEq] at h
      simp [e, h]
    · simp only [lookupV, e, if_false] at h
      exact List.mem_cons_of_mem _ (mem_of_lookupV h)

theorem lookupV_of_mem {k : String} {v : GoVal} :
    ∀ {l : List (String × GoVal)}, (keysOf l).Nodup → (k, v) ∈ l → lookupV k l = some v
  | [], _, h => by simp at h
  | (k', v') :: t, nd, h => by
    simp only [keysOf, List.nodup_cons] at nd
    cases List.mem_cons.1 h with
    | inl e =>
      obtain ⟨e1, e2⟩ := Prod.mk.inj e
      simp [lookupV, e1, e2]
    | inr e =>
      have : k' ≠ k := fun c => nd.1 (c ▸ mem_keysOf e)
      simp only [lookupV, this, if_false]
      exact lookupV_of_mem nd.2 e

theorem lookupV_some_of_key {k : String} :
    ∀ {l : List (String × GoVal)}, k ∈ keysOf l → ∃ v, lookupV k l = some v := by
  intro l h
  cases hl : lookupV k l with
  | none => exact absurd h (lookupV_none_iff.1 hl)
  | some v => exact ⟨v, rfl⟩

theorem allVals_mem {p : GoVal → Bool} {k : String} {v : GoVal} :
    ∀ {l : List (String × GoVal)}, allVals p l = true → (k, v) ∈ l → p v = true
  | [], _, h => by simp at h
  | (k', v') :: t, ha, h => by
    simp only [allVals, Bool.and_eq_true] at ha
    cases List.mem_cons.1 h with
    | inl e => obtain ⟨_, e2⟩ := Prod.mk.inj e; rw [e2]; exact ha.1
    | inr e => exact allVals_mem ha.2 e

theorem allVals_of_forall {p : GoVal → Bool} :
    ∀ {l : List (String × GoVal)}, (∀ k v, (k, v) ∈ l → p v = true) → allVals p l = true
  | [], _ => rfl
  | (k', v') :: t, h => by
    simp only [allVals, Bool.and_eq_true]
    exact ⟨h k' v' (by simp), allVals_of_forall fun k v m => h k v (List.mem_cons_of_mem _ m)⟩

/-- `for key := range a { f a[key] (b[key] or zero) }` holds iff it holds for every entry -/
theorem eqEntries_iff {f : GoVal → GoVal → Bool} {z : GoVal} {other : List (String × GoVal)} :
    ∀ {l : List (String × GoVal)}, eqEntries f z other l = true ↔
      ∀ k v, (k, v) ∈ l → f v ((lookupV k other).getD z) = true
  | [] => by simp [eqEntries]
  | (k', v') :: t => by
    simp only [eqEntries, Bool.and_eq_true, eqEntries_iff (l := t), List.mem_cons]
    constructor
    · rintro ⟨h1, h2⟩ k v (e | e)
      · obtain ⟨e1, e2⟩ := Prod.mk.inj e; rw [e1, e2]; exact h1
      · exact h2 k v e
    · intro h
      exact ⟨h k' v' (Or.inl rfl), fun k v e => h k v (Or.inr e)⟩

end Cog.Sem.GoEq
