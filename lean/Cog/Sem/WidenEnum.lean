/-
  C01 (c) pass widening — PrefixEnumValues is NOT the identity on plain schemas (it renames the
  members of every enum object) but it preserves `den`: the Go type of an enum is the scalar type of
  its first member and `den` reads nothing else.  It also keeps the plain fragment.

  The result of the pass is characterised by a relation (`schsRel`): same packages, same entry point
  types, same keys, each object unchanged or an enum whose members kept their kinds (and count).
-/
import Cog.Sem.WidenId
import Cog.Sem.DenMono
namespace Cog.Sem.Src
open Cog.IR Cog.Passes
open Cog.OMap (rget)

/-- an object after PrefixEnumValues: unchanged, or an enum object with renamed members -/
def objRel (o o' : Obj) : Prop :=
  o'.name = o.name ∧
  (o' = o ∨ ∃ vs vs' m, o.ty = .enum vs m ∧ o'.ty = .enum vs' m ∧ vs'.map (·.kind) = vs.map (·.kind))

def objsRel : Objects → Objects → Prop
  | [], [] => True
  | (k, o) :: r, (k', o') :: r' => k' = k ∧ objRel o o' ∧ objsRel r r'
  | _, _ => False

def schRel (s s' : Schema) : Prop :=
  s'.pkg = s.pkg ∧ s'.entryPointType = s.entryPointType ∧ objsRel s.objects s'.objects

def schsRel : Schemas → Schemas → Prop
  | [], [] => True
  | s :: r, s' :: r' => schRel s s' ∧ schsRel r r'
  | _, _ => False

/-! ### the pass establishes the relation -/

theorem PEV_processValues_kinds (parent : String) : ∀ (vs vs' : List EnumVal),
    PrefixEnumValues.processValues parent vs = .ok vs' → vs'.map (·.kind) = vs.map (·.kind)
  | [], vs', h => by simp [PrefixEnumValues.processValues] at h; subst h; rfl
  | v :: vs, vs', h => by
    simp only [PrefixEnumValues.processValues] at h
    cases hm : PrefixEnumValues.memberName v with
    | ok n =>
      simp only [hm] at h
      cases hr : PrefixEnumValues.processValues parent vs with
      | ok r =>
        simp only [hr] at h
        cases h
        simp [PEV_processValues_kinds parent vs r hr]
      | err e => simp [hr] at h
      | panic e => simp [hr] at h
    | err e => simp [hm] at h
    | panic e => simp [hm] at h

theorem PEV_processObject_rel (o o' : Obj) (h : PrefixEnumValues.processObject o = .ok o') : objRel o o' := by
  simp only [PrefixEnumValues.processObject] at h
  split at h
  · rename_i vs m hty
    cases hv : PrefixEnumValues.processValues o.name vs with
    | ok vs' =>
      simp only [hv] at h
      cases h
      exact ⟨rfl, Or.inr ⟨vs, vs', m, hty, rfl, PEV_processValues_kinds _ _ _ hv⟩⟩
    | err e => simp [hv] at h
    | panic e => simp [hv] at h
  · cases h; exact ⟨rfl, Or.inl rfl⟩

theorem PEV_processObjects_rel : ∀ (m m' : Objects), PrefixEnumValues.processObjects m = .ok m' → objsRel m m'
  | [], m', h => by simp [PrefixEnumValues.processObjects] at h; subst h; trivial
  | (k, o) :: rest, m', h => by
    simp only [PrefixEnumValues.processObjects] at h
    cases ho : PrefixEnumValues.processObject o with
    | ok o' =>
      simp only [ho] at h
      cases hr : PrefixEnumValues.processObjects rest with
      | ok rest' =>
        simp only [hr] at h
        cases h
        exact ⟨rfl, PEV_processObject_rel o o' ho, PEV_processObjects_rel rest rest' hr⟩
      | err e => simp [hr] at h
      | panic e => simp [hr] at h
    | err e => simp [ho] at h
    | panic e => simp [ho] at h

theorem PEV_processSchema_rel (s s' : Schema) (h : PrefixEnumValues.processSchema s = .ok s') : schRel s s' := by
  simp only [PrefixEnumValues.processSchema] at h
  cases ho : PrefixEnumValues.processObjects s.objects with
  | ok os =>
    simp only [ho] at h
    cases h
    exact ⟨rfl, rfl, PEV_processObjects_rel _ _ ho⟩
  | err e => simp [ho] at h
  | panic e => simp [ho] at h

theorem PEV_run_rel : ∀ (S S' : Schemas), PrefixEnumValues.run S = .ok S' → schsRel S S'
  | [], S', h => by simp [PrefixEnumValues.run, Outcome.mapM] at h; subst h; trivial
  | s :: rest, S', h => by
    simp only [PrefixEnumValues.run, Outcome.mapM] at h
    cases hs : PrefixEnumValues.processSchema s with
    | ok s' =>
      simp only [hs, Outcome.bind_ok] at h
      cases hr : Outcome.mapM PrefixEnumValues.processSchema rest with
      | ok rest' =>
        simp only [hr, Outcome.bind_ok, Outcome.pure_eq] at h
        cases h
        exact ⟨PEV_processSchema_rel s s' hs, PEV_run_rel rest rest' hr⟩
      | err e => simp [hr] at h
      | panic e => simp [hr] at h
    | err e => simp [hs] at h
    | panic e => simp [hs] at h

/-! ### lookups through the relation -/

/-- how a lookup in the output relates to the lookup in the input -/
def lookupRel (a b : Option Obj) : Prop :=
  match a, b with
  | none, none => True
  | some o, some o' => objRel o o'
  | _, _ => False

theorem rget_objsRel (k : String) : ∀ (m m' : Objects), objsRel m m' → lookupRel (rget k m) (rget k m')
  | [], [], _ => trivial
  | [], _ :: _, h => h.elim
  | _ :: _, [], h => h.elim
  | (k1, o) :: r, (k2, o') :: r', h => by
    obtain ⟨hk, ho, hr⟩ := h
    subst hk
    simp only [rget]
    split
    · exact ho
    · exact rget_objsRel k r r' hr

theorem locateObject_schsRel (pkg name : String) : ∀ (S S' : Schemas), schsRel S S' →
    lookupRel (Schemas.locateObject S pkg name) (Schemas.locateObject S' pkg name)
  | [], [], _ => trivial
  | [], _ :: _, h => h.elim
  | _ :: _, [], h => h.elim
  | s :: r, s' :: r', h => by
    obtain ⟨⟨hp, _, ho⟩, hr⟩ := h
    have ih := locateObject_schsRel pkg name r r' hr
    simp only [Schemas.locateObject, Schemas.locate, hp] at ih ⊢
    by_cases hpk : s.pkg = pkg
    · simp only [hpk, if_true, Schema.locateObject]
      exact rget_objsRel name _ _ ho
    · simp only [hpk, if_false]
      exact ih

/-! ### `den` only reads what the relation keeps -/

theorem den_rel (S S' : Schemas)
    (hl : ∀ pkg name, lookupRel (Schemas.locateObject S pkg name) (Schemas.locateObject S' pkg name)) :
    ∀ n t j, den n S t j = true → den n S' t j = true := by
  intro n
  induction n with
  | zero => intro t j h; simp [den] at h
  | succ n ih =>
    intro t j h
    cases t with
    | scalar kind val cs m => simpa [den] using h
    | array e m =>
      simp only [den, Bool.and_eq_true] at h ⊢
      refine ⟨h.1, ?_⟩
      cases j with
      | arr xs => exact all_mono _ _ (fun x => ih e x) xs h.2
      | null => exact h.2
      | bool _ | num _ | str _ | obj _ => exact h.2
    | map idx vt m =>
      simp only [den] at h ⊢
      split at h
      · cases j with
        | obj kvs =>
          simp only [Bool.and_eq_true] at h ⊢
          exact ⟨h.1, all_mono _ _ (fun kv => ih vt kv.2) kvs h.2⟩
        | null => exact h
        | bool _ | num _ | str _ | arr _ => exact h
      · simp at h
    | ref pkg name m =>
      have hl' := hl pkg name
      simp only [den] at h ⊢
      cases ho : Schemas.locateObject S pkg name with
      | none => simp [ho] at h
      | some o =>
        cases ho' : Schemas.locateObject S' pkg name with
        | none => simp [lookupRel, ho, ho'] at hl'
        | some o' =>
          simp only [lookupRel, ho, ho'] at hl'
          simp only [ho] at h
          simp only []
          obtain ⟨_, hrel⟩ := hl'
          rcases hrel with heq | ⟨vs, vs', em, hty, hty', hk⟩
          · -- unchanged object: same case analysis as `den_mono`, with `ih` for the recursive calls
            subst heq
            cases hty : o'.ty with
            | struct fields gen gi sm =>
              cases gi with
              | none =>
                simp only [hty, Bool.or_eq_true] at h ⊢
                rcases h with h | h
                · exact Or.inl h
                · right
                  cases j with
                  | obj members =>
                    simp only [Bool.and_eq_true] at h ⊢
                    exact ⟨h.1, denFieldsWith_mono _ _ (fun t j => ih t j) _ _ h.2⟩
                  | null | bool _ | num _ | str _ | arr _ => exact h
              | some hi =>
                obtain ⟨hint, info⟩ := hi
                simp only [hty, Bool.or_eq_true] at h ⊢
                rcases h with h | h
                · exact Or.inl h
                · right
                  by_cases hs : hint = "disjunction_of_scalars"
                  · simp only [hs, if_true, Bool.and_eq_true, decide_eq_true_eq] at h ⊢
                    obtain ⟨⟨⟨⟨h1, h2⟩, h3⟩, h4⟩, h5⟩ := h
                    exact ⟨⟨⟨⟨h1, h2⟩, h3⟩, any_mono _ _ (fun f => ih _ j) fields h4⟩, h5⟩
                  · simp only [hs, if_false] at h ⊢
                    cases j with
                    | obj members =>
                      simp only at h ⊢
                      cases hd : Json.lookup info.discriminator members with
                      | none => simp [hd] at h
                      | some d =>
                        cases d with
                        | str tag =>
                          simp only [hd, Bool.and_eq_true] at h ⊢
                          refine ⟨h.1, ?_⟩
                          cases hm : info.mapping.find? (fun kv => kv.1 == tag) with
                          | none => simp [hm] at h
                          | some kv =>
                            simp only [hm, Bool.and_eq_true] at h ⊢
                            exact ⟨h.2.1, ih _ _ h.2.2⟩
                        | null | bool _ | num _ | arr _ | obj _ => simp [hd] at h
                    | null | bool _ | num _ | str _ | arr _ => exact h
            | enum vals em =>
              cases vals with
              | nil => simp [hty] at h
              | cons v0 rest => simpa [hty] using h
            | scalar kind sv scs om => simpa [hty] using h
            | array ae am =>
              simp only [hty, Bool.and_eq_true] at h ⊢
              exact ⟨h.1, ih _ _ h.2⟩
            | map mi mv mm =>
              simp only [hty, Bool.and_eq_true] at h ⊢
              exact ⟨h.1, ih _ _ h.2⟩
            | ref rp rn rm =>
              simp only [hty] at h ⊢
              exact ih _ _ h
            | cref _ _ _ _ => simp [hty] at h
            | disj _ _ _ => simp [hty] at h
            | inter _ _ => simp [hty] at h
            | slot _ _ => simp [hty] at h
            | bad _ _ => simp [hty] at h
          · -- renamed enum: the kind of the first member is kept
            rw [hty] at h
            rw [hty']
            cases vs with
            | nil => simp at h
            | cons v0 rest =>
              cases vs' with
              | nil => simp at hk
              | cons v0' rest' =>
                simp only [List.map_cons, List.cons.injEq] at hk
                simp only [hk.1]
                exact h
    | cref _ _ _ _ => simp [den] at h
    | struct _ _ _ _ => simp [den] at h
    | enum _ _ => simp [den] at h
    | disj _ _ _ => simp [den] at h
    | inter _ _ => simp [den] at h
    | slot _ _ => simp [den] at h
    | bad _ _ => simp [den] at h

/-! ### the plain fragment is kept -/

theorem objsRel_any_key (k : String) : ∀ (m m' : Objects), objsRel m m' →
    (m'.any fun ko => ko.1 == k) = (m.any fun ko => ko.1 == k)
  | [], [], _ => rfl
  | [], _ :: _, h => h.elim
  | _ :: _, [], h => h.elim
  | (k1, o) :: r, (k2, o') :: r', h => by
    obtain ⟨hk, _, hr⟩ := h
    subst hk
    simp [List.any_cons, objsRel_any_key k r r' hr]

theorem objsRel_wf : ∀ (m m' : Objects), objsRel m m' → wfObjects m = true → wfObjects m' = true
  | [], [], _, _ => rfl
  | [], _ :: _, h, _ => h.elim
  | _ :: _, [], h, _ => h.elim
  | (k1, o) :: r, (k2, o') :: r', h, hw => by
    obtain ⟨hk, ho, hr⟩ := h
    subst hk
    simp only [wfObjects, Bool.and_eq_true] at hw ⊢
    refine ⟨⟨?_, ?_⟩, objsRel_wf r r' hr hw.2⟩
    · rw [ho.1]; exact hw.1.1
    · rw [objsRel_any_key _ r r' hr]; exact hw.1.2

theorem objRel_plain (o o' : Obj) (h : objRel o o') (hp : plainObjTy o.ty = true) : plainObjTy o'.ty = true := by
  obtain ⟨_, h⟩ := h
  rcases h with h | ⟨vs, vs', m, _, hty', _⟩
  · rw [h]; exact hp
  · rw [hty']; rfl

theorem objsRel_plain : ∀ (m m' : Objects), objsRel m m' → (m.all fun ko => plainObjTy ko.2.ty) = true →
    (m'.all fun ko => plainObjTy ko.2.ty) = true
  | [], [], _, _ => rfl
  | [], _ :: _, h, _ => h.elim
  | _ :: _, [], h, _ => h.elim
  | (k1, o) :: r, (k2, o') :: r', h, hp => by
    obtain ⟨_, ho, hr⟩ := h
    simp only [List.all_cons, Bool.and_eq_true] at hp ⊢
    exact ⟨objRel_plain o o' ho hp.1, objsRel_plain r r' hr hp.2⟩

theorem schsRel_Plain : ∀ (S S' : Schemas), schsRel S S' → Plain S = true → Plain S' = true
  | [], [], _, _ => rfl
  | [], _ :: _, h, _ => h.elim
  | _ :: _, [], h, _ => h.elim
  | s :: r, s' :: r', h, hp => by
    obtain ⟨⟨_, he, ho⟩, hr⟩ := h
    simp only [Plain, List.all_cons, Bool.and_eq_true] at hp ⊢
    refine ⟨?_, schsRel_Plain r r' hr hp.2⟩
    have h1 := hp.1
    simp only [plainSchema, Bool.and_eq_true] at h1 ⊢
    exact ⟨⟨objsRel_wf _ _ ho h1.1.1, by rw [he]; exact h1.1.2⟩, objsRel_plain _ _ ho h1.2⟩

/-- PrefixEnumValues: `den` is preserved and the output is plain again -/
theorem PrefixEnumValues_den (S S' : Schemas) (h : PrefixEnumValues.run S = .ok S') :
    (∀ n t j, den n S t j = true → den n S' t j = true) ∧ (Plain S = true → Plain S' = true) := by
  have hr := PEV_run_rel S S' h
  exact ⟨den_rel S S' (fun pkg name => locateObject_schsRel pkg name S S' hr), schsRel_Plain S S' hr⟩

end Cog.Sem.Src
