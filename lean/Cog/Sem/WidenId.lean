/-
  C01 (c) pass widening — the passes of the Go chain that are the IDENTITY on the plain fragment
  (`Plain`, Cog/Sem/SrcDen.lean): proved by structural induction over the type tree, for every
  schema set, through the real frames (`visitSchemas`, `addObjects`, the registry of new objects).

    AnonymousStructsToNamed, DisjunctionWithNullToOptional, DisjunctionOfConstantsToEnum,
    AnonymousEnumToExplicitType, FlattenDisjunctions, DisjunctionOfAnonymousStructsToExplicit,
    DisjunctionInferMapping, UndiscriminatedDisjunctionToAny, DisjunctionToType

  (NotRequiredFieldAsNullableType and PrefixEnumValues are not: Cog/Sem/WidenOpt.lean, WidenEnum.lean.)
-/
import Cog.Sem.WidenFrame
import Cog.Passes.Chain
namespace Cog.Sem.Src
open Cog.IR Cog.Passes

/-! ### membership facts from `Plain` -/

theorem Plain_schema {S : Schemas} (h : Plain S = true) {s : Schema} (hs : s ∈ S) : plainSchema s = true := by
  simp only [Plain, List.all_eq_true] at h
  exact h s hs

theorem plainSchema_wf {s : Schema} (h : plainSchema s = true) : wfObjects s.objects = true := by
  simp only [plainSchema, Bool.and_eq_true] at h; exact h.1.1

theorem plainSchema_ept {s : Schema} (h : plainSchema s = true) : plainEpt s.entryPointType = true := by
  simp only [plainSchema, Bool.and_eq_true] at h; exact h.1.2

theorem plainSchema_obj {s : Schema} (h : plainSchema s = true) {ko : String × Obj} (hk : ko ∈ s.objects) :
    plainObjTy ko.2.ty = true := by
  simp only [plainSchema, Bool.and_eq_true, List.all_eq_true] at h; exact h.2 ko hk

theorem Plain_located {S : Schemas} (h : Plain S = true) {pkg name : String} {o : Obj}
    (ho : Schemas.locateObject S pkg name = some o) : plainObjTy o.ty = true := by
  obtain ⟨s, hs, hm⟩ := locateObject_mem ho
  exact plainSchema_obj (Plain_schema h hs) hm

/-! ### generic: every `OnDisjunction`-only visitor is the identity on disjunction-free types -/

theorem dvTy_plain (hook : DisjHook) : ∀ t : Ty, plainTy t = true → dvTy hook t = .ok t
  | .scalar .., _ => by simp [dvTy]
  | .ref .., _ => by simp [dvTy]
  | .array e m, h => by
    simp only [plainTy] at h
    simp [dvTy, dvTy_plain hook e h]
  | .map i v m, h => by
    simp only [plainTy, Bool.and_eq_true] at h
    simp [dvTy, dvTy_plain hook v h.2]
  | .cref .., h => by simp [plainTy] at h
  | .struct .., h => by simp [plainTy] at h
  | .enum .., h => by simp [plainTy] at h
  | .disj .., h => by simp [plainTy] at h
  | .inter .., h => by simp [plainTy] at h
  | .slot .., h => by simp [plainTy] at h
  | .bad .., h => by simp [plainTy] at h

theorem dvFields_plain (hook : DisjHook) : ∀ fs : List Field, (fs.all fun f => plainTy f.ty) = true →
    dvFields hook fs = .ok fs
  | [], _ => by simp [dvFields]
  | f :: fs, h => by
    simp only [List.all_cons, Bool.and_eq_true] at h
    simp [dvFields, dvTy_plain hook f.ty h.1, dvFields_plain hook fs h.2]

theorem dvTy_plainObj (hook : DisjHook) (t : Ty) (h : plainObjTy t = true) : dvTy hook t = .ok t := by
  cases t with
  | struct fs g gi m =>
    cases gi with
    | none => simp only [plainObjTy] at h; simp [dvTy, dvFields_plain hook fs h]
    | some x => simp [plainObjTy] at h
  | enum vs m => simp [dvTy]
  | scalar k v c m => exact dvTy_plain hook _ (by simpa [plainObjTy] using h)
  | ref p n m => exact dvTy_plain hook _ (by simpa [plainObjTy] using h)
  | array e m => exact dvTy_plain hook _ (by simpa [plainObjTy] using h)
  | map i v m => exact dvTy_plain hook _ (by simpa [plainObjTy] using h)
  | cref _ _ _ _ => simp [plainObjTy, plainTy] at h
  | disj _ _ _ => simp [plainObjTy, plainTy] at h
  | inter _ _ => simp [plainObjTy, plainTy] at h
  | slot _ _ => simp [plainObjTy, plainTy] at h
  | bad _ _ => simp [plainObjTy, plainTy] at h

theorem dvTy_plainEpt (hook : DisjHook) (t : Ty) (h : plainEpt t = true) : dvTy hook t = .ok t := by
  cases t with
  | bad k m => simp [dvTy]
  | scalar k v c m => exact dvTy_plain hook _ (by simpa [plainEpt] using h)
  | ref p n m => exact dvTy_plain hook _ (by simpa [plainEpt] using h)
  | array e m => exact dvTy_plain hook _ (by simpa [plainEpt] using h)
  | map i v m => exact dvTy_plain hook _ (by simpa [plainEpt] using h)
  | cref _ _ _ _ => simp [plainEpt, plainTy] at h
  | struct _ _ _ _ => simp [plainEpt, plainTy] at h
  | enum _ _ => simp [plainEpt, plainTy] at h
  | disj _ _ _ => simp [plainEpt, plainTy] at h
  | inter _ _ => simp [plainEpt, plainTy] at h
  | slot _ _ => simp [plainEpt, plainTy] at h

theorem mapSchema_id (s : Schema) : mapSchema (fun t => t) (setTy fun t => t) s = s := by
  have : (setTy fun t => t) = fun o => o := rfl
  rw [this]
  simp [mapSchema, mapObjects'_id]

/-- a pass made of one `OnDisjunction` hook is the identity on plain schemas, whatever the hook -/
theorem runDisjPass_plain (hook : Schemas → Schema → DisjHook) (S : Schemas) (h : Plain S = true) :
    runDisjPass hook S = .ok S := by
  have := visitSchemas_map (fun cur s => visitSchemaPure (dvTy (hook cur s)) s) (fun s => s) S (by
    intro cur s hs
    have hp := Plain_schema h hs
    have := visitSchemaPure_map (dvTy (hook cur s)) (fun t => t) s (plainSchema_wf hp)
      (dvTy_plainEpt _ _ (plainSchema_ept hp)) (fun ko hk => dvTy_plainObj _ _ (plainSchema_obj hp hk))
    rw [this, mapSchema_id])
  simpa [runDisjPass] using this

theorem DisjunctionWithNullToOptional_plain (S : Schemas) (h : Plain S = true) :
    DisjunctionWithNullToOptional.run S = .ok S := runDisjPass_plain _ S h
theorem DisjunctionOfConstantsToEnum_plain (S : Schemas) (h : Plain S = true) :
    DisjunctionOfConstantsToEnum.run S = .ok S := runDisjPass_plain _ S h
theorem FlattenDisjunctions_plain (S : Schemas) (h : Plain S = true) :
    FlattenDisjunctions.run S = .ok S := runDisjPass_plain _ S h
theorem DisjunctionInferMapping_plain (S : Schemas) (h : Plain S = true) :
    DisjunctionInferMapping.run S = .ok S := runDisjPass_plain _ S h
theorem UndiscriminatedDisjunctionToAny_plain (S : Schemas) (h : Plain S = true) :
    UndiscriminatedDisjunctionToAny.run S = .ok S := runDisjPass_plain _ S h

/-! ### DisjunctionToType (hook threading the registry) -/

theorem dvStTy_plain (hook : DisjHookSt) (n : NewObjs) : ∀ t : Ty, plainTy t = true → dvStTy hook t n = .ok (t, n)
  | .scalar .., _ => by simp [dvStTy]
  | .ref .., _ => by simp [dvStTy]
  | .array e m, h => by
    simp only [plainTy] at h
    simp [dvStTy, dvStTy_plain hook n e h]
  | .map i v m, h => by
    simp only [plainTy, Bool.and_eq_true] at h
    simp [dvStTy, dvStTy_plain hook n v h.2]
  | .cref .., h => by simp [plainTy] at h
  | .struct .., h => by simp [plainTy] at h
  | .enum .., h => by simp [plainTy] at h
  | .disj .., h => by simp [plainTy] at h
  | .inter .., h => by simp [plainTy] at h
  | .slot .., h => by simp [plainTy] at h
  | .bad .., h => by simp [plainTy] at h

theorem dvStFields_plain (hook : DisjHookSt) (n : NewObjs) : ∀ fs : List Field,
    (fs.all fun f => plainTy f.ty) = true → dvStFields hook fs n = .ok (fs, n)
  | [], _ => by simp [dvStFields]
  | f :: fs, h => by
    simp only [List.all_cons, Bool.and_eq_true] at h
    simp [dvStFields, dvStTy_plain hook n f.ty h.1, dvStFields_plain hook n fs h.2]

theorem dvStTy_plainObj (hook : DisjHookSt) (n : NewObjs) (t : Ty) (h : plainObjTy t = true) :
    dvStTy hook t n = .ok (t, n) := by
  cases t with
  | struct fs g gi m =>
    cases gi with
    | none => simp only [plainObjTy] at h; simp [dvStTy, dvStFields_plain hook n fs h]
    | some x => simp [plainObjTy] at h
  | enum vs m => simp [dvStTy]
  | scalar k v c m => exact dvStTy_plain hook n _ (by simpa [plainObjTy] using h)
  | ref p nm m => exact dvStTy_plain hook n _ (by simpa [plainObjTy] using h)
  | array e m => exact dvStTy_plain hook n _ (by simpa [plainObjTy] using h)
  | map i v m => exact dvStTy_plain hook n _ (by simpa [plainObjTy] using h)
  | cref _ _ _ _ => simp [plainObjTy, plainTy] at h
  | disj _ _ _ => simp [plainObjTy, plainTy] at h
  | inter _ _ => simp [plainObjTy, plainTy] at h
  | slot _ _ => simp [plainObjTy, plainTy] at h
  | bad _ _ => simp [plainObjTy, plainTy] at h

theorem dvStTy_plainEpt (hook : DisjHookSt) (n : NewObjs) (t : Ty) (h : plainEpt t = true) :
    dvStTy hook t n = .ok (t, n) := by
  cases t with
  | bad k m => simp [dvStTy]
  | scalar k v c m => exact dvStTy_plain hook n _ (by simpa [plainEpt] using h)
  | ref p nm m => exact dvStTy_plain hook n _ (by simpa [plainEpt] using h)
  | array e m => exact dvStTy_plain hook n _ (by simpa [plainEpt] using h)
  | map i v m => exact dvStTy_plain hook n _ (by simpa [plainEpt] using h)
  | cref _ _ _ _ => simp [plainEpt, plainTy] at h
  | struct _ _ _ _ => simp [plainEpt, plainTy] at h
  | enum _ _ => simp [plainEpt, plainTy] at h
  | disj _ _ _ => simp [plainEpt, plainTy] at h
  | inter _ _ => simp [plainEpt, plainTy] at h
  | slot _ _ => simp [plainEpt, plainTy] at h

theorem DisjunctionToType_plain (S : Schemas) (h : Plain S = true) : DisjunctionToType.run S = .ok S := by
  have := visitSchemas_map (fun cur s => visitSchemaSt (dvStTy (DisjunctionToType.hook cur s)) s) (fun s => s) S (by
    intro cur s hs
    have hp := Plain_schema h hs
    exact visitSchemaSt_id _ s (plainSchema_wf hp) (dvStTy_plainEpt _ _ _ (plainSchema_ept hp))
      (fun ko hk => dvStTy_plainObj _ _ _ (plainSchema_obj hp hk)))
  simpa [DisjunctionToType.run] using this

/-! ### DisjunctionOfAnonymousStructsToExplicit (own traversal, registry) -/

theorem DOAS_vTy_plain (pkg : String) (n : NewObjs) : ∀ t : Ty, plainTy t = true →
    DisjunctionOfAnonymousStructsToExplicit.vTy pkg t n = (t, n)
  | .scalar .., _ => by simp [DisjunctionOfAnonymousStructsToExplicit.vTy]
  | .ref .., _ => by simp [DisjunctionOfAnonymousStructsToExplicit.vTy]
  | .array e m, h => by
    simp only [plainTy] at h
    simp [DisjunctionOfAnonymousStructsToExplicit.vTy, DOAS_vTy_plain pkg n e h]
  | .map i v m, h => by
    simp only [plainTy, Bool.and_eq_true] at h
    simp [DisjunctionOfAnonymousStructsToExplicit.vTy, DOAS_vTy_plain pkg n v h.2]
  | .cref .., h => by simp [plainTy] at h
  | .struct .., h => by simp [plainTy] at h
  | .enum .., h => by simp [plainTy] at h
  | .disj .., h => by simp [plainTy] at h
  | .inter .., h => by simp [plainTy] at h
  | .slot .., h => by simp [plainTy] at h
  | .bad .., h => by simp [plainTy] at h

theorem DOAS_vFields_plain (pkg : String) (n : NewObjs) : ∀ fs : List Field,
    (fs.all fun f => plainTy f.ty) = true → DisjunctionOfAnonymousStructsToExplicit.vFields pkg fs n = (fs, n)
  | [], _ => by simp [DisjunctionOfAnonymousStructsToExplicit.vFields]
  | f :: fs, h => by
    simp only [List.all_cons, Bool.and_eq_true] at h
    simp [DisjunctionOfAnonymousStructsToExplicit.vFields, DOAS_vTy_plain pkg n f.ty h.1, DOAS_vFields_plain pkg n fs h.2]

theorem DOAS_vTy_plainObj (pkg : String) (n : NewObjs) (t : Ty) (h : plainObjTy t = true) :
    DisjunctionOfAnonymousStructsToExplicit.vTy pkg t n = (t, n) := by
  cases t with
  | struct fs g gi m =>
    cases gi with
    | none => simp only [plainObjTy] at h; simp [DisjunctionOfAnonymousStructsToExplicit.vTy, DOAS_vFields_plain pkg n fs h]
    | some x => simp [plainObjTy] at h
  | enum vs m => simp [DisjunctionOfAnonymousStructsToExplicit.vTy]
  | scalar k v c m => exact DOAS_vTy_plain pkg n _ (by simpa [plainObjTy] using h)
  | ref p nm m => exact DOAS_vTy_plain pkg n _ (by simpa [plainObjTy] using h)
  | array e m => exact DOAS_vTy_plain pkg n _ (by simpa [plainObjTy] using h)
  | map i v m => exact DOAS_vTy_plain pkg n _ (by simpa [plainObjTy] using h)
  | cref _ _ _ _ => simp [plainObjTy, plainTy] at h
  | disj _ _ _ => simp [plainObjTy, plainTy] at h
  | inter _ _ => simp [plainObjTy, plainTy] at h
  | slot _ _ => simp [plainObjTy, plainTy] at h
  | bad _ _ => simp [plainObjTy, plainTy] at h

theorem DOAS_vTy_plainEpt (pkg : String) (n : NewObjs) (t : Ty) (h : plainEpt t = true) :
    DisjunctionOfAnonymousStructsToExplicit.vTy pkg t n = (t, n) := by
  cases t with
  | bad k m => simp [DisjunctionOfAnonymousStructsToExplicit.vTy]
  | scalar k v c m => exact DOAS_vTy_plain pkg n _ (by simpa [plainEpt] using h)
  | ref p nm m => exact DOAS_vTy_plain pkg n _ (by simpa [plainEpt] using h)
  | array e m => exact DOAS_vTy_plain pkg n _ (by simpa [plainEpt] using h)
  | map i v m => exact DOAS_vTy_plain pkg n _ (by simpa [plainEpt] using h)
  | cref _ _ _ _ => simp [plainEpt, plainTy] at h
  | struct _ _ _ _ => simp [plainEpt, plainTy] at h
  | enum _ _ => simp [plainEpt, plainTy] at h
  | disj _ _ _ => simp [plainEpt, plainTy] at h
  | inter _ _ => simp [plainEpt, plainTy] at h
  | slot _ _ => simp [plainEpt, plainTy] at h

theorem DisjunctionOfAnonymousStructsToExplicit_plain (S : Schemas) (h : Plain S = true) :
    DisjunctionOfAnonymousStructsToExplicit.run S = .ok S := by
  have := visitSchemas_map
    (fun _ s => visitSchemaSt (fun t n => .ok (DisjunctionOfAnonymousStructsToExplicit.vTy s.pkg t n)) s)
    (fun s => s) S (by
    intro cur s hs
    have hp := Plain_schema h hs
    exact visitSchemaSt_id _ s (plainSchema_wf hp)
      (by simp [DOAS_vTy_plainEpt _ _ _ (plainSchema_ept hp)])
      (fun ko hk => by simp [DOAS_vTy_plainObj _ _ _ (plainSchema_obj hp hk)]))
  simpa [DisjunctionOfAnonymousStructsToExplicit.run] using this

/-! ### AnonymousStructsToNamed (own traversal, `addObjects`) -/

theorem ASN_processType_plain (pkg parent : String) (acc : List Obj) : ∀ t : Ty, plainTy t = true →
    AnonymousStructsToNamed.processType pkg parent t acc = (t, acc)
  | .scalar .., _ => by simp [AnonymousStructsToNamed.processType]
  | .ref .., _ => by simp [AnonymousStructsToNamed.processType]
  | .array e m, h => by
    simp only [plainTy] at h
    simp [AnonymousStructsToNamed.processType, ASN_processType_plain pkg parent acc e h]
  | .map i v m, h => by
    simp only [plainTy, Bool.and_eq_true] at h
    have hi : AnonymousStructsToNamed.processType pkg parent i acc = (i, acc) := by
      cases i <;> simp [Ty.isScalar] at h <;> simp [AnonymousStructsToNamed.processType]
    simp [AnonymousStructsToNamed.processType, hi, ASN_processType_plain pkg parent acc v h.2]
  | .cref .., h => by simp [plainTy] at h
  | .struct .., h => by simp [plainTy] at h
  | .enum .., h => by simp [plainTy] at h
  | .disj .., h => by simp [plainTy] at h
  | .inter .., h => by simp [plainTy] at h
  | .slot .., h => by simp [plainTy] at h
  | .bad .., h => by simp [plainTy] at h

theorem ASN_processFields_plain (pkg parent : String) (acc : List Obj) : ∀ fs : List Field,
    (fs.all fun f => plainTy f.ty) = true → AnonymousStructsToNamed.processFields pkg parent fs acc = (fs, acc)
  | [], _ => by simp [AnonymousStructsToNamed.processFields]
  | f :: fs, h => by
    simp only [List.all_cons, Bool.and_eq_true] at h
    simp [AnonymousStructsToNamed.processFields, ASN_processType_plain pkg _ acc f.ty h.1,
      ASN_processFields_plain pkg parent acc fs h.2]

theorem ASN_processObject_plain (o : Obj) (acc : List Obj) (h : plainObjTy o.ty = true) :
    AnonymousStructsToNamed.processObject o acc = (o, acc) := by
  obtain ⟨name, comments, ty, selfPkg, selfName⟩ := o
  simp only at h
  cases ty with
  | struct fs g gi m =>
    cases gi with
    | none =>
      simp only [plainObjTy] at h
      simp [AnonymousStructsToNamed.processObject, ASN_processFields_plain _ _ acc fs h]
    | some x => simp [plainObjTy] at h
  | enum vs m => simp [AnonymousStructsToNamed.processObject]
  | scalar k v c m => simp [AnonymousStructsToNamed.processObject]
  | ref p nm m => simp [AnonymousStructsToNamed.processObject]
  | array e m =>
    have := ASN_processType_plain selfPkg (ucc selfPkg ++ ucc name) acc (.array e m) (by simpa [plainObjTy] using h)
    simp [AnonymousStructsToNamed.processObject, this]
  | map i v m =>
    have := ASN_processType_plain selfPkg (ucc selfPkg ++ ucc name) acc (.map i v m) (by simpa [plainObjTy] using h)
    simp [AnonymousStructsToNamed.processObject, this]
  | cref _ _ _ _ => simp [plainObjTy, plainTy] at h
  | disj _ _ _ => simp [plainObjTy, plainTy] at h
  | inter _ _ => simp [plainObjTy, plainTy] at h
  | slot _ _ => simp [plainObjTy, plainTy] at h
  | bad _ _ => simp [plainObjTy, plainTy] at h

theorem ASN_processObjects_plain : ∀ (m : Objects) (acc : List Obj), (∀ ko ∈ m, plainObjTy ko.2.ty = true) →
    AnonymousStructsToNamed.processObjects m acc = (m, acc)
  | [], _, _ => by simp [AnonymousStructsToNamed.processObjects]
  | (k, o) :: rest, acc, h => by
    simp [AnonymousStructsToNamed.processObjects, ASN_processObject_plain o acc (h (k, o) (List.mem_cons_self ..)),
      ASN_processObjects_plain rest acc (fun x hx => h x (List.mem_cons_of_mem _ hx))]

theorem map_id_of_forall {α} (f : α → α) : ∀ (l : List α), (∀ x ∈ l, f x = x) → l.map f = l
  | [], _ => rfl
  | x :: xs, h => by
    simp only [List.map]
    rw [h x (List.mem_cons_self ..), map_id_of_forall f xs (fun y hy => h y (List.mem_cons_of_mem _ hy))]

theorem AnonymousStructsToNamed_plain (S : Schemas) (h : Plain S = true) :
    AnonymousStructsToNamed.run S = .ok S := by
  simp only [AnonymousStructsToNamed.run]
  congr 1
  apply map_id_of_forall
  intro s hs
  have hp := Plain_schema h hs
  simp [AnonymousStructsToNamed.processSchema,
    ASN_processObjects_plain s.objects [] (fun ko hk => plainSchema_obj hp hk), addObjects]

/-! ### AnonymousEnumToExplicitType (own traversal, `addObjects`) -/

theorem AETE_processType_plain (cur pkg objName sug : String) (acc : List Obj) : ∀ t : Ty, plainTy t = true →
    AnonymousEnumToExplicitType.processType cur pkg objName sug t acc = (t, acc)
  | .scalar .., _ => by simp [AnonymousEnumToExplicitType.processType]
  | .ref .., _ => by simp [AnonymousEnumToExplicitType.processType]
  | .array e m, h => by
    simp only [plainTy] at h
    simp [AnonymousEnumToExplicitType.processType, AETE_processType_plain cur pkg objName sug acc e h]
  | .map i v m, h => by
    simp only [plainTy, Bool.and_eq_true] at h
    have hi : AnonymousEnumToExplicitType.processType cur pkg objName sug i acc = (i, acc) := by
      cases i <;> simp [Ty.isScalar] at h <;> simp [AnonymousEnumToExplicitType.processType]
    simp [AnonymousEnumToExplicitType.processType, hi, AETE_processType_plain cur pkg objName sug acc v h.2]
  | .cref .., h => by simp [plainTy] at h
  | .struct .., h => by simp [plainTy] at h
  | .enum .., h => by simp [plainTy] at h
  | .disj .., h => by simp [plainTy] at h
  | .inter .., h => by simp [plainTy] at h
  | .slot .., h => by simp [plainTy] at h
  | .bad .., h => by simp [plainTy] at h

theorem AETE_processFields_plain (cur pkg objName : String) (acc : List Obj) : ∀ fs : List Field,
    (fs.all fun f => plainTy f.ty) = true →
    AnonymousEnumToExplicitType.processFields cur pkg objName fs acc = (fs, acc)
  | [], _ => by simp [AnonymousEnumToExplicitType.processFields]
  | f :: fs, h => by
    simp only [List.all_cons, Bool.and_eq_true] at h
    simp [AnonymousEnumToExplicitType.processFields, AETE_processType_plain cur pkg objName _ acc f.ty h.1,
      AETE_processFields_plain cur pkg objName acc fs h.2]

theorem AETE_processObject_plain (cur : String) (o : Obj) (acc : List Obj) (h : plainObjTy o.ty = true) :
    AnonymousEnumToExplicitType.processObject cur o acc = (o, acc) := by
  obtain ⟨name, comments, ty, selfPkg, selfName⟩ := o
  simp only at h
  cases ty with
  | struct fs g gi m =>
    cases gi with
    | none =>
      simp only [plainObjTy] at h
      simp [AnonymousEnumToExplicitType.processObject, Ty.isEnum, AnonymousEnumToExplicitType.processType,
        AETE_processFields_plain _ _ _ acc fs h]
    | some x => simp [plainObjTy] at h
  | enum vs m => simp [AnonymousEnumToExplicitType.processObject, Ty.isEnum]
  | scalar k v c m => simp [AnonymousEnumToExplicitType.processObject, Ty.isEnum, AnonymousEnumToExplicitType.processType]
  | ref p nm m => simp [AnonymousEnumToExplicitType.processObject, Ty.isEnum, AnonymousEnumToExplicitType.processType]
  | array e m =>
    have := AETE_processType_plain cur selfPkg name (ucc name ++ "Enum") acc (.array e m) (by simpa [plainObjTy] using h)
    simp [AnonymousEnumToExplicitType.processObject, Ty.isEnum, this]
  | map i v m =>
    have := AETE_processType_plain cur selfPkg name (ucc name ++ "Enum") acc (.map i v m) (by simpa [plainObjTy] using h)
    simp [AnonymousEnumToExplicitType.processObject, Ty.isEnum, this]
  | cref _ _ _ _ => simp [plainObjTy, plainTy] at h
  | disj _ _ _ => simp [plainObjTy, plainTy] at h
  | inter _ _ => simp [plainObjTy, plainTy] at h
  | slot _ _ => simp [plainObjTy, plainTy] at h
  | bad _ _ => simp [plainObjTy, plainTy] at h

theorem AETE_processObjects_plain (cur : String) : ∀ (m : Objects) (acc : List Obj),
    (∀ ko ∈ m, plainObjTy ko.2.ty = true) → AnonymousEnumToExplicitType.processObjects cur m acc = (m, acc)
  | [], _, _ => by simp [AnonymousEnumToExplicitType.processObjects]
  | (k, o) :: rest, acc, h => by
    simp [AnonymousEnumToExplicitType.processObjects,
      AETE_processObject_plain cur o acc (h (k, o) (List.mem_cons_self ..)),
      AETE_processObjects_plain cur rest acc (fun x hx => h x (List.mem_cons_of_mem _ hx))]

theorem AnonymousEnumToExplicitType_plain (S : Schemas) (h : Plain S = true) :
    AnonymousEnumToExplicitType.run S = .ok S := by
  simp only [AnonymousEnumToExplicitType.run]
  congr 1
  apply map_id_of_forall
  intro s hs
  have hp := Plain_schema h hs
  simp [AnonymousEnumToExplicitType.processSchema,
    AETE_processObjects_plain s.pkg s.objects [] (fun ko hk => plainSchema_obj hp hk), addObjects]

end Cog.Sem.Src
