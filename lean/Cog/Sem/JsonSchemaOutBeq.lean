/-
  C12 — the structural equality tests of `describes` decide equality.
-/
import Cog.Sem.JsonSchemaOutDescribes
namespace Cog.Sem.JSOut
open Cog.IR Cog.Sem

mutual
theorem valBeq_eq : ∀ (a b : Val), valBeq a b = true → a = b
  | .nil, b, h => by cases b <;> simp [valBeq] at h ⊢
  | .bool x, b, h => by cases b <;> simp [valBeq] at h ⊢; exact h
  | .int t x, b, h => by cases b <;> simp [valBeq] at h ⊢; exact h
  | .float t x, b, h => by cases b <;> simp [valBeq] at h ⊢; exact h
  | .jnum x, b, h => by cases b <;> simp [valBeq] at h ⊢; exact h
  | .str x, b, h => by cases b <;> simp [valBeq] at h ⊢; exact h
  | .other t x, b, h => by cases b <;> simp [valBeq] at h ⊢; exact h
  | .list xs, b, h => by
    cases b with
    | list ys => simp only [valBeq] at h; rw [valBeqList_eq xs ys h]
    | _ => simp [valBeq] at h
  | .map xs, b, h => by
    cases b with
    | map ys => simp only [valBeq] at h; rw [valBeqKvs_eq xs ys h]
    | _ => simp [valBeq] at h
theorem valBeqList_eq : ∀ (a b : List Val), valBeqList a b = true → a = b
  | [], b, h => by cases b <;> simp [valBeqList] at h ⊢
  | x :: xs, b, h => by
    cases b with
    | nil => simp [valBeqList] at h
    | cons y ys =>
      simp only [valBeqList, Bool.and_eq_true] at h
      rw [valBeq_eq x y h.1, valBeqList_eq xs ys h.2]
theorem valBeqKvs_eq : ∀ (a b : List (String × Val)), valBeqKvs a b = true → a = b
  | [], b, h => by cases b <;> simp [valBeqKvs] at h ⊢
  | (k, x) :: xs, b, h => by
    cases b with
    | nil => simp [valBeqKvs] at h
    | cons e ys =>
      obtain ⟨k', y⟩ := e
      simp only [valBeqKvs, Bool.and_eq_true, beq_iff_eq] at h
      rw [h.1.1, valBeq_eq x y h.1.2, valBeqKvs_eq xs ys h.2]
end

mutual
theorem jsBeq_eq : ∀ (a b : JS), jsBeq a b = true → a = b
  | .str x, b, h => by cases b <;> simp [jsBeq] at h ⊢; exact h
  | .bool x, b, h => by cases b <;> simp [jsBeq] at h ⊢; exact h
  | .ref x, b, h => by cases b <;> simp [jsBeq] at h ⊢; exact h
  | .raw x, b, h => by
    cases b with
    | raw y => simp only [jsBeq] at h; rw [valBeq_eq x y h]
    | _ => simp [jsBeq] at h
  | .arr xs, b, h => by
    cases b with
    | arr ys => simp only [jsBeq] at h; rw [jsBeqList_eq xs ys h]
    | _ => simp [jsBeq] at h
  | .obj xs, b, h => by
    cases b with
    | obj ys => simp only [jsBeq] at h; rw [jsBeqKvs_eq xs ys h]
    | _ => simp [jsBeq] at h
theorem jsBeqList_eq : ∀ (a b : List JS), jsBeqList a b = true → a = b
  | [], b, h => by cases b <;> simp [jsBeqList] at h ⊢
  | x :: xs, b, h => by
    cases b with
    | nil => simp [jsBeqList] at h
    | cons y ys =>
      simp only [jsBeqList, Bool.and_eq_true] at h
      rw [jsBeq_eq x y h.1, jsBeqList_eq xs ys h.2]
theorem jsBeqKvs_eq : ∀ (a b : List (String × JS)), jsBeqKvs a b = true → a = b
  | [], b, h => by cases b <;> simp [jsBeqKvs] at h ⊢
  | (k, x) :: xs, b, h => by
    cases b with
    | nil => simp [jsBeqKvs] at h
    | cons e ys =>
      obtain ⟨k', y⟩ := e
      simp only [jsBeqKvs, Bool.and_eq_true, beq_iff_eq] at h
      rw [h.1.1, jsBeq_eq x y h.1.2, jsBeqKvs_eq xs ys h.2]
end

end Cog.Sem.JSOut
