/-
  C02 helper lemmas, part 4: named targets in the emitted environment (struct, enum, alias objects),
  struct literals, and the literal printed for one field.
-/
import Cog.Sem.GoDeclLemmas3
namespace Cog.Sem.GoDecl
open Cog.IR Cog.OMap
open Cog.Passes (ucc cleanupNames)

namespace EnvFacts
variable {cfg : Cfg} {ss : Schemas}

theorem notExternal (h : EnvFacts cfg ss) {p n : String} {o : Obj} (hl : ss.locateObject p n = some o) :
    externalPkgs.contains (fmtPkg p) = false := by
  obtain ⟨s, hs, hp, _⟩ := h.located hl
  have := schemasOk_mem h.sok hs
  rw [← hp, this.1]; exact this.2.2.1

theorem struct_decl (h : EnvFacts cfg ss) {p n : String} {o : Obj} (hl : ss.locateObject p n = some o)
    {rfs : List Field} {g : List Ty} {gi : Option (String × DisjInfo)} {om : Meta} (hty : o.ty = .struct rfs g gi om)
    (hn : om.nullable = false) :
    lookupType (emitEnv cfg ss) (fmtPkg p) (ucc n) = some (.typeDef (ucc n) (.struct (fmtFields (ctxOf cfg ss) rfs))) := by
  obtain ⟨s, _, _, _, hname, _⟩ := h.located hl
  rw [h.lookupType_eq hl (by simp [declaresTy, hty])]
  simp [emitTypeDecl, hty, fmtTy, hn, hname]

theorem enum_decl (h : EnvFacts cfg ss) {p n : String} {o : Obj} (hl : ss.locateObject p n = some o)
    {v0 : EnumVal} {vs : List EnumVal} {om : Meta} (hty : o.ty = .enum (v0 :: vs) om) :
    lookupType (emitEnv cfg ss) (fmtPkg p) (ucc n)
      = some (.enumDef (ucc n) (fmtEnumUnder (ctxOf cfg ss) v0.kind) (enumMembers (ucc n) (v0 :: vs))) := by
  obtain ⟨s, _, _, _, hname, _⟩ := h.located hl
  rw [h.lookupType_eq hl (by simp [declaresTy, hty])]
  simp [emitTypeDecl, hty, hname]

theorem norm_struct (h : EnvFacts cfg ss) {p n : String} {o : Obj} (hl : ss.locateObject p n = some o)
    {rfs : List Field} {g : List Ty} {gi : Option (String × DisjInfo)} {om : Meta} (hty : o.ty = .struct rfs g gi om)
    (hn : om.nullable = false) (fuel : Nat) :
    norm (emitEnv cfg ss) fuel (.named (fmtPkg p) (ucc n)) = .named (fmtPkg p) (ucc n) := by
  cases fuel with
  | zero => simp [norm, headAlias]
  | succ k => simp [norm, headAlias, h.struct_decl hl hty hn]

theorem norm_enum (h : EnvFacts cfg ss) {p n : String} {o : Obj} (hl : ss.locateObject p n = some o)
    {v0 : EnumVal} {vs : List EnumVal} {om : Meta} (hty : o.ty = .enum (v0 :: vs) om) (fuel : Nat) :
    norm (emitEnv cfg ss) fuel (.named (fmtPkg p) (ucc n)) = .named (fmtPkg p) (ucc n) := by
  cases fuel with
  | zero => simp [norm, headAlias]
  | succ k => simp [norm, headAlias, h.enum_decl hl hty]

theorem under_structObj (h : EnvFacts cfg ss) {p n : String} {o : Obj} (hl : ss.locateObject p n = some o)
    {rfs : List Field} {g : List Ty} {gi : Option (String × DisjInfo)} {om : Meta} (hty : o.ty = .struct rfs g gi om)
    (hn : om.nullable = false) (fuel : Nat) :
    under (emitEnv cfg ss) (fuel + 2) (.named (fmtPkg p) (ucc n)) = some (.struct (fmtFields (ctxOf cfg ss) rfs)) := by
  have hne : ¬ fmtPkg p ∈ externalPkgs := by
    have := h.notExternal hl
    simpa using this
  simp [under, hne, h.struct_decl hl hty hn]

/-- a struct literal of a struct object whose keyed values fit the declared fields -/
theorem composite_typed (h : EnvFacts cfg ss) {p n : String} {o : Obj} (hl : ss.locateObject p n = some o)
    {rfs : List Field} {g : List Ty} {gi : Option (String × DisjInfo)} {om : Meta} (hty : o.ty = .struct rfs g gi om)
    (hn : om.nullable = false) (fuel : Nat) {fs : List (String × GoExpr)} (hnd : (fs.map (·.1)).Nodup)
    (hfit : fieldsFit (emitEnv cfg ss) (fuel + 2) (fmtFields (ctxOf cfg ss) rfs) fs = true) :
    exprTy (emitEnv cfg ss) (fuel + 2) (.composite (.named (fmtPkg p) (ucc n)) fs) = .typed (.named (fmtPkg p) (ucc n)) := by
  have hnd' : nodupB (fs.map (·.1)) = true := (nodupB_iff _).mpr hnd
  simp only [exprTy, h.norm_struct hl hty hn, h.under_structObj hl hty hn, isNamed, hnd', hfit, Bool.and_self, if_true]

end EnvFacts

/-! ### struct literals: keys and fields -/

theorem findGoField_fmtFields (c : Ctx) : ∀ (fs : List Field) (f : Field), f ∈ fs → (fieldNames fs).Nodup →
    findGoField (ucc f.name) (fmtFields c fs) = some (goFieldOf c f)
  | [], _, hm, _ => by cases hm
  | f0 :: rest, f, hm, hnd => by
    simp only [fieldNames, List.map_cons, List.nodup_cons] at hnd
    rw [fmtFields_cons]
    rcases List.mem_cons.mp hm with rfl | hrest
    · simp [findGoField, goFieldOf]
    · have hne : (ucc f0.name == ucc f.name) = false := by
        have : ucc f.name ∈ rest.map (fun f => ucc f.name) := List.mem_map.mpr ⟨f, hrest, rfl⟩
        have hh : ucc f0.name ≠ ucc f.name := fun e => hnd.1 (e ▸ this)
        simpa using hh
      have := findGoField_fmtFields c rest f hrest (by simpa [fieldNames] using hnd.2)
      simp [findGoField, goFieldOf, hne] at this ⊢
      exact this

/-- what `FieldLit` must satisfy for the field's literal to be accepted -/
def FieldFits (env : Env) (F : Nat) (c : Ctx) (f : Field) (lit : FieldLit) : Prop :=
  match lit with
  | .skip => True
  | .stop => False
  | .emit e => assignable env F (exprTy env F e) (goFieldOf c f).ty = true

theorem defaultsFields_keys (c : Ctx) (fuel : Nat) (extras : List (String × Val)) : ∀ fs : List Field,
    List.Sublist ((defaultsFields c fuel fs extras).map (·.1)) (fieldNames fs)
  | [] => by simp [defaultsFields_nil, fieldNames]
  | f :: fs => by
    have ih := defaultsFields_keys c fuel extras fs
    simp only [fieldNames, List.map_cons] at ih ⊢
    rw [defaultsFields_cons]
    split
    · exact List.Sublist.cons _ ih
    · simpa using List.Sublist.cons_cons (ucc f.name) ih
    · simp

theorem defaultsFields_fit (env : Env) (F : Nat) (c : Ctx) (fuel : Nat) (extras : List (String × Val)) (all : List Field)
    (hnd : (fieldNames all).Nodup) : ∀ fs : List Field, (∀ f ∈ fs, f ∈ all) →
      (∀ f ∈ fs, FieldFits env F c f (defaultsField c fuel f extras)) →
      fieldsFit env F (fmtFields c all) (defaultsFields c fuel fs extras) = true
  | [], _, _ => by simp [defaultsFields_nil, fieldsFit]
  | f :: fs, hsub, hfit => by
    have ih := defaultsFields_fit env F c fuel extras all hnd fs
      (fun x hx => hsub x (List.mem_cons_of_mem _ hx)) (fun x hx => hfit x (List.mem_cons_of_mem _ hx))
    have hf := hfit f List.mem_cons_self
    rw [defaultsFields_cons]
    cases hd : defaultsField c fuel f extras with
    | skip => simpa using ih
    | stop => simp [FieldFits, hd] at hf
    | emit e =>
      simp only [FieldFits, hd] at hf
      simp only [fieldsFit, findGoField_fmtFields c all f (hsub f List.mem_cons_self) hnd, hf, ih, Bool.and_self]

end Cog.Sem.GoDecl
