/-
  C02 helper lemmas, part 5: the literal printed for ONE field is assignable to the field's printed
  type (case analysis mirroring `fieldLit` / `fieldShapeOk`).
-/
import Cog.Sem.GoDeclLemmas4
namespace Cog.Sem.GoDecl
open Cog.IR Cog.OMap
open Cog.Passes (ucc cleanupNames)

theorem valFits_nonNil {k : String} {v : Val} (h : valFits k v = true) : Cog.Passes.Val.isNil v = false := by
  cases v <;> simp [valFits, valLit] at h <;> rfl

theorem enumMemberFor_mem {d : Val} : ∀ {vs : List EnumVal} {x : String}, enumMemberFor d vs = some x → ∃ v ∈ vs, v.name = x
  | [], _, h => by simp [enumMemberFor] at h
  | v :: vs, x, h => by
    simp only [enumMemberFor] at h
    split at h
    · cases h; exact ⟨v, List.mem_cons_self, rfl⟩
    · obtain ⟨w, hw, hx⟩ := enumMemberFor_mem h
      exact ⟨w, List.mem_cons_of_mem _ hw, hx⟩

theorem membersClean_mem {v : EnumVal} : ∀ (vs : List EnumVal), membersClean vs = true → v ∈ vs → cleanupNames (ucc v.name) = v.name := by
  intro vs
  induction vs with
  | nil => intro _ h; cases h
  | cons v0 vs ih =>
    intro hc h
    rw [membersClean, Bool.and_eq_true] at hc
    rcases List.mem_cons.mp h with heq | hr
    · rw [heq]; exact eq_of_beq hc.1
    · exact ih hc.2 hr

section
variable {cfg : Cfg} {ss : Schemas}

/-- the non-pointer / pointer forms of a reference to a struct or enum object, against the field type -/
theorem ref_value_fits (h : EnvFacts cfg ss) (K : Nat) {p n : String} (m : Meta) (e : GoExpr)
    (he : exprTy (emitEnv cfg ss) (K + 2) e = .typed (.named (fmtPkg p) (ucc n))) :
    assignable (emitEnv cfg ss) (K + 2) (exprTy (emitEnv cfg ss) (K + 2) (if m.nullable then .addr e else e))
      (fmtTy (ctxOf cfg ss) (.ref p n m)) = true := by
  by_cases hn : m.nullable = true
  · simp only [hn, if_true, exprTy, he, fmtTy, Ctx.mapPkg]
    exact assignable_refl _ _ _
  · simp only [Bool.not_eq_true] at hn
    simp only [hn, Bool.false_eq_true, if_false, he, fmtTy, Ctx.mapPkg]
    exact assignable_refl _ _ _

theorem ctor_call_fits (h : EnvFacts cfg ss) (K : Nat) {p n : String} {o : Obj} (m : Meta)
    (hl : ss.locateObject p n = some o) (hc : hasCtor ss o = true) :
    assignable (emitEnv cfg ss) (K + 2)
      (exprTy (emitEnv cfg ss) (K + 2)
        (if m.nullable then GoExpr.call (fmtPkg p) ("New" ++ ucc n) else .deref (GoExpr.call (fmtPkg p) ("New" ++ ucc n))))
      (fmtTy (ctxOf cfg ss) (.ref p n m)) = true := by
  have hcall : exprTy (emitEnv cfg ss) (K + 2) (GoExpr.call (fmtPkg p) ("New" ++ ucc n))
      = .typed (.ptr (.named (fmtPkg p) (ucc n))) := by
    simp [exprTy, h.findCtor_eq hl hc]
  by_cases hn : m.nullable = true
  · simp only [hn, if_true, hcall, fmtTy, Ctx.mapPkg]
    exact assignable_refl _ _ _
  · simp only [Bool.not_eq_true] at hn
    simp only [hn, Bool.false_eq_true, if_false, fmtTy, Ctx.mapPkg]
    rw [exprTy, hcall]
    exact assignable_refl _ _ _

theorem fieldGoTy_plain_of_nonscalar (c : Ctx) (t : Ty) (plain : GoTy) {resolved : Ty}
    (hres : c.ss.resolveToType (c.ss.objectCount + 2) t = some resolved) (hns : resolved.isScalar = false) :
    fieldGoTy c t plain = plain := by
  unfold fieldGoTy
  cases t <;> simp only []
  simp only [Ctx.resolve, Ctx.fuel, hres]
  cases resolved <;> simp [Ty.isScalar] at hns <;> rfl

theorem fieldGoTy_nonref (c : Ctx) (t : Ty) (plain : GoTy) (h : t.isRef = false) : fieldGoTy c t plain = plain := by
  unfold fieldGoTy
  cases t <;> simp [Ty.isRef] at h <;> rfl

/-- an expression of a named type, possibly through the pointer helper, against a field that refers to that type -/
theorem maybePtr_named_fits (env : Env) (c : Ctx) (F : Nat) (e : GoExpr) (p n : String) (m : Meta)
    (he : exprTy env F e = .typed (.named (fmtPkg p) (ucc n))) (hnamed : typeOk env (.named (fmtPkg p) (ucc n)) = true) :
    assignable env F (exprTy env F (maybePtr c e m.nullable (.ref p n m))) (fmtTy c (.ref p n m)) = true := by
  by_cases hn : m.nullable = true
  · have : maybePtr c e m.nullable (.ref p n m) = .toPtr (.named (fmtPkg p) (ucc n)) e := by
      simp [maybePtr, hn, Ty.isArray, Ty.isMap, setNullable, Ty.getMeta, Ty.setMeta, fmtTy, Ctx.mapPkg]
    rw [this, exprTy, he]
    simp only [hnamed, assignable_refl, Bool.and_self, if_true, fmtTy, hn, Ctx.mapPkg]
  · simp only [Bool.not_eq_true] at hn
    have : maybePtr c e m.nullable (.ref p n m) = e := by simp [maybePtr, hn]
    rw [this, he]
    simp only [fmtTy, hn, Bool.false_eq_true, if_false, Ctx.mapPkg]
    exact assignable_refl _ _ _

/-- a list default of strings on an array of plain strings -/
theorem strlist_fits (env : Env) (c : Ctx) (K : Nat) (xs : List Val) (ev : Val) (ecs : List Constraint) (em m : Meta)
    (hp : isPlainScalar "string" em = true) (hnn : em.nullable = false) (hs : allStrVals xs = true) :
    assignable env (K + 1)
      (exprTy env (K + 1) (maybePtr c (formatScalar (.list xs)) m.nullable (.array (.scalar "string" ev ecs em) m)))
      (fmtTy c (.array (.scalar "string" ev ecs em) m)) = true := by
  have hmp : maybePtr c (formatScalar (.list xs)) m.nullable (.array (.scalar "string" ev ecs em) m)
      = .sliceLit (.prim "string") (formatScalarList xs) := by
    by_cases hn : m.nullable = true <;> simp [maybePtr, hn, Ty.isArray, formatScalar]
  have hk : typeOk env (.prim "string") = true := by simp [typeOk, knownPrims]
  rw [hmp, exprTy]
  simp only [hk, exprsFit_strs env K xs hs, Bool.and_self, if_true, fmtTy, fmtScalarTy_plain c.cfg hp, hnn,
    Bool.false_eq_true, if_false]
  exact assignable_refl _ _ _

/-- the literal printed for one field fits the field's printed type -/
theorem fieldLit_fits (h : EnvFacts cfg ss) (K : Nat) (f : Field) (resolved : Ty) (extras : List (String × Val))
    (nested : String → String → List Field → Val → GoExpr) (nestedOk : List Field → Val → Bool)
    (hres : ss.resolveToType (ss.objectCount + 2) f.ty = some resolved)
    (hty : tyOk ss f.ty = true)
    (hnest : ∀ (p n : String) (o : Obj) (rfs : List Field) (g : List Ty) (gi : Option (String × DisjInfo)) (om : Meta) (d : Val),
      ss.locateObject p n = some o → o.ty = .struct rfs g gi om → om.nullable = false →
      fieldNamesOk rfs = true → fieldsTyOk ss rfs = true → nestedOk rfs d = true →
      exprTy (emitEnv cfg ss) (K + 2) (nested p n rfs d) = .typed (.named (fmtPkg p) (ucc n)))
    (hok : fieldShapeOk ss f resolved extras nestedOk = true) :
    FieldFits (emitEnv cfg ss) (K + 2) (ctxOf cfg ss) f (fieldLit (ctxOf cfg ss) f resolved extras nested) := by
  unfold fieldShapeOk at hok
  unfold fieldLit
  cases hneed : needsDefault f resolved extras with
  | false => simp [FieldFits]
  | true =>
  simp only [hneed, Bool.not_true, Bool.false_eq_true, if_false] at hok ⊢
  have hres1 : ss.resolveToType (ss.objectCount + 1 + 1) f.ty = some resolved := hres
  cases hex : lookupKV f.name extras with
  | some ev =>
    simp only [hex] at hok ⊢
    cases hfty : f.ty with
    | scalar k v cs m =>
      simp only [hfty, Bool.and_eq_true, Ty.getMeta] at hok
      have hr : resolved = .scalar k v cs m := by
        rw [hfty, resolve_nonref ss (ss.objectCount + 1) _ (by rfl)] at hres1
        exact (Option.some.inj hres1).symm
      simp only [FieldFits, extraLit, hfty, Ty.isRef, Bool.false_and, Bool.false_eq_true, if_false, Ty.getMeta, hr,
        goFieldOf, fieldGoTy]
      exact scalar_lit_fits _ _ (K + 1) ev hok.1 hok.2
    | _ => simp [hfty] at hok
  | none =>
    simp only [hex] at hok ⊢
    cases hfty : f.ty with
    | scalar k v cs m =>
      simp only [hfty, Bool.and_eq_true, Ty.getMeta] at hok
      have hr : resolved = .scalar k v cs m := by
        rw [hfty, resolve_nonref ss (ss.objectCount + 1) _ (by rfl)] at hres1
        exact (Option.some.inj hres1).symm
      by_cases hv : Cog.Passes.Val.isNil v = true
      · simp only [hv, Bool.not_true, Bool.false_eq_true, if_false] at hok
        have hd := valFits_nonNil hok.2
        simp only [ownLit, hfty, hv, Bool.not_true, Bool.false_eq_true, if_false, Ty.getMeta, hd, Bool.not_false, if_true,
          FieldFits, hr, goFieldOf, fieldGoTy]
        exact scalar_lit_fits _ _ (K + 1) m.dflt hok.1 hok.2
      · simp only [Bool.not_eq_true] at hv
        simp only [hv, Bool.not_false, if_true] at hok
        simp only [ownLit, hfty, hv, Bool.not_false, if_true, Ty.getMeta, FieldFits, hr, goFieldOf, fieldGoTy]
        exact scalar_lit_fits _ _ (K + 1) v hok.1 hok.2
    | array e m =>
      simp only [hfty, Ty.getMeta] at hok
      have hte : tyOk ss e = true := by simpa [hfty, tyOk] using hty
      have hr : resolved = .array e m := by
        rw [hfty, resolve_nonref ss (ss.objectCount + 1) _ (by rfl)] at hres1
        exact (Option.some.inj hres1).symm
      by_cases hd : Cog.Passes.Val.isNil m.dflt = true
      · simp only [ownLit, hfty, Ty.getMeta, hd, Bool.not_true, Bool.false_eq_true, if_false, FieldFits, goFieldOf, fieldGoTy,
          fmtTy, exprTy, exprsFit, typeOk_fmtTy h e hte, Bool.and_self, if_true]
        exact assignable_refl _ _ _
      · simp only [Bool.not_eq_true] at hd
        simp only [hd, Bool.false_eq_true, if_false] at hok
        cases e with
        | scalar ek ev ecs em =>
          cases hdv : m.dflt with
          | list xs =>
            simp only [hdv] at hok
            split at hok
            · rename_i heq1 heq2
              cases heq1; cases heq2
              simp only [Bool.and_eq_true, Bool.not_eq_true'] at hok
              have hp : isPlainScalar "string" em = true := by simp [isPlainScalar, plainKinds, hok.1.2]
              simp only [ownLit, hfty, Ty.getMeta, hd, Bool.not_false, if_true, hdv, hr, FieldFits, goFieldOf, fieldGoTy]
              exact strlist_fits _ _ (K + 1) xs ev ecs em m hp hok.1.1 hok.2
            · simp at hok
          | _ => simp [hdv] at hok
        | _ => simp at hok
    | map i v m =>
      simp only [hfty, Ty.getMeta] at hok
      have hti : tyOk ss i = true ∧ tyOk ss v = true := by simpa [hfty, tyOk] using hty
      simp only [ownLit, hfty, Ty.getMeta, hok, Bool.not_true, Bool.false_eq_true, if_false, FieldFits, goFieldOf, fieldGoTy,
        fmtTy, exprTy, kvsFit, typeOk_fmtTy h i hti.1, typeOk_fmtTy h v hti.2, Bool.and_self, if_true]
      exact assignable_refl _ _ _
    | ref p n m =>
      simp only [hfty, Ty.getMeta] at hok
      cases hl : ss.locateObject p n with
      | none => simp [hl] at hok
      | some o =>
        simp only [hl] at hok
        cases hoty : o.ty with
        | struct rfs g gi om =>
          simp only [hoty] at hok
          have hr : resolved = .struct rfs g gi om := by
            have := resolve_onehop ss ss.objectCount (m := m) hl (by simp [hoty, Ty.isRef])
            rw [hfty, this, hoty] at hres
            exact (Option.some.inj hres).symm
          have hgt : (goFieldOf (ctxOf cfg ss) f).ty = fmtTy (ctxOf cfg ss) (.ref p n m) := by
            simp only [goFieldOf, hfty]
            exact fieldGoTy_plain_of_nonscalar (ctxOf cfg ss) _ _ (by simpa [ctxOf, hfty] using hres) (by simp [hr, Ty.isScalar])
          by_cases hd : Cog.Passes.Val.isNil m.dflt = true
          · simp only [ownLit, hfty, hr, Ty.getMeta, hd, Bool.not_true, Bool.false_eq_true, if_false, FieldFits, hgt, Ctx.mapPkg]
            exact ctor_call_fits h K m hl (by simp [hasCtor, hoty])
          · simp only [Bool.not_eq_true] at hd
            simp only [hd, Bool.false_eq_true, if_false, Bool.and_eq_true, Bool.not_eq_true'] at hok
            have hn := hnest p n o rfs g gi om m.dflt hl hoty hok.1.1.1 hok.1.1.2 hok.1.2 hok.2
            simp only [ownLit, hfty, hr, Ty.getMeta, hd, Bool.not_false, if_true, FieldFits, hgt]
            exact ref_value_fits h K m _ hn
        | enum vs om =>
          simp only [hoty, Bool.and_eq_true, Bool.not_eq_true'] at hok
          have hr : resolved = .enum vs om := by
            have := resolve_onehop ss ss.objectCount (m := m) hl (by simp [hoty, Ty.isRef])
            rw [hfty, this, hoty] at hres
            exact (Option.some.inj hres).symm
          have hgt : (goFieldOf (ctxOf cfg ss) f).ty = fmtTy (ctxOf cfg ss) (.ref p n m) := by
            simp only [goFieldOf, hfty]
            exact fieldGoTy_plain_of_nonscalar (ctxOf cfg ss) _ _ (by simpa [ctxOf, hfty] using hres) (by simp [hr, Ty.isScalar])
          cases vs with
          | nil => simp at hok
          | cons v0 vs' =>
            -- the member the printer picks is a member of the enum, named as its declaration names it
            have hmem : ∃ v ∈ v0 :: vs', v.name = (match enumMemberFor m.dflt (v0 :: vs') with | some x => x | none => v0.name) := by
              cases hm : enumMemberFor m.dflt (v0 :: vs') with
              | some x => exact enumMemberFor_mem hm
              | none => exact ⟨v0, List.mem_cons_self, rfl⟩
            obtain ⟨v, hv, hvn⟩ := hmem
            have hid : exprTy (emitEnv cfg ss) (K + 2)
                (.ident (fmtPkg p) (match enumMemberFor m.dflt (v0 :: vs') with | some x => x | none => v0.name))
                = .typed (.named (fmtPkg p) (ucc n)) := by
              rw [← hvn, ← membersClean_mem _ hok.2 hv]
              simp [exprTy, h.findValue_eq hl hoty hv]
            have hnamed : typeOk (emitEnv cfg ss) (.named (fmtPkg p) (ucc n)) = true := by
              simp [typeOk, h.enum_decl hl hoty]
            simp only [ownLit, hfty, hr, Ty.getMeta, FieldFits, hgt, Ctx.mapPkg]
            exact maybePtr_named_fits _ _ _ _ p n m hid hnamed
        | ref p' n' m' =>
          simp only [hoty, Bool.and_eq_true] at hok
          have hgt : (goFieldOf (ctxOf cfg ss) f).ty = fmtTy (ctxOf cfg ss) (.ref p n m) := by
            simp only [goFieldOf, hfty]
            refine fieldGoTy_plain_of_nonscalar (ctxOf cfg ss) _ _ (by simpa [ctxOf, hfty] using hres) ?_
            cases resolved <;> simp [Ty.isStruct] at hok <;> rfl
          cases resolved with
          | struct rfs g gi om =>
            simp only [ownLit, hfty, Ty.getMeta, hok.1.1, Bool.not_true, Bool.false_eq_true, if_false, FieldFits, hgt, Ctx.mapPkg]
            exact ctor_call_fits h K m hl hok.1.2
          | _ => simp [Ty.isStruct] at hok
        | _ => simp [hoty] at hok
    | _ => simp [hfty] at hok

end

end Cog.Sem.GoDecl
