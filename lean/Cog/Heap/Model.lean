/-
  Address-labelled trees: the heap fragment needed to talk about aliasing of IR values
  (C18, reused by C07/C17).  Core Lean only.

  IR values are trees and every `DeepCopy` is a type-directed recursion, so a full heap is not
  needed: a `GoNode` is a Go value in which every slice, map and pointer carries the *address*
  of its backing store.  Two holders of the same address see each other's writes (`write`).
  Struct values are inline (no identity of their own), exactly as in Go.
-/
set_option linter.unusedVariables false
namespace Cog.Heap

/-- backing-store addresses are natural numbers (a notation, so that `omega` sees `Nat`) -/
scoped notation "Addr" => Nat

/-- the shape of a Go field type, as far as aliasing is concerned -/
inductive Ty where
  | imm
  | slice (t : Ty)
  | map (t : Ty)
  | ptr (t : Ty)
  | iface
  | named (S : String)
  deriving DecidableEq, Repr, Inhabited

/-- printable name of a type shape (keys of generated tables) -/
def Ty.show : Ty → String
  | .imm => "scalar"
  | .slice t => "[]" ++ t.show
  | .map t => "map[string]" ++ t.show
  | .ptr t => "*" ++ t.show
  | .iface => "any"
  | .named S => S

/-- A Go value with explicit backing-store identities. -/
inductive GoNode where
  /-- immutable scalar (string, bool, number, named string type …) -/
  | imm (v : String)
  /-- the zero value: nil slice / map / pointer / interface (also stands for the zero value of
      a struct or scalar type: it holds no address and every copy mode maps it to itself) -/
  | nilv
  /-- non-nil slice: backing array `a`, elements -/
  | slice (a : Addr) (elems : List GoNode)
  /-- non-nil map: hash table `a`, entries (string keys as everywhere in the IR) -/
  | gomap (a : Addr) (entries : List (String × GoNode))
  /-- non-nil pointer to a cell `a` holding `n` -/
  | ptr (a : Addr) (n : GoNode)
  /-- non-nil interface (`any`) holding the dynamic value `n` of dynamic type `t` -/
  | iface (t : Ty) (n : GoNode)
  /-- inline struct value of the named type -/
  | struct (name : String) (fields : List (String × GoNode))
  deriving Repr, Inhabited

/-! ### addresses, erasure, mutation -/

mutual
/-- every backing-store address reachable in the value -/
def addrs : GoNode → List Addr
  | .imm _ => []
  | .nilv => []
  | .slice a es => a :: addrsL es
  | .gomap a es => a :: addrsE es
  | .ptr a n => a :: addrs n
  | .iface _ n => addrs n
  | .struct _ fs => addrsE fs
def addrsL : List GoNode → List Addr
  | [] => []
  | n :: r => addrs n ++ addrsL r
def addrsE : List (String × GoNode) → List Addr
  | [] => []
  | (_, n) :: r => addrs n ++ addrsE r
end

mutual
/-- forget addresses; an empty slice/map is identified with nil (Go code and the IR's JSON
    encoding do not distinguish them; `Type.DeepCopy` turns nil `Hints` into an empty map) -/
def erase : GoNode → GoNode
  | .imm v => .imm v
  | .nilv => .nilv
  | .slice _ es => match eraseL es with
      | [] => .nilv
      | l => .slice 0 l
  | .gomap _ es => match eraseE es with
      | [] => .nilv
      | l => .gomap 0 l
  | .ptr _ n => .ptr 0 (erase n)
  | .iface t n => .iface t (erase n)
  | .struct name fs => .struct name (eraseE fs)
def eraseL : List GoNode → List GoNode
  | [] => []
  | n :: r => erase n :: eraseL r
def eraseE : List (String × GoNode) → List (String × GoNode)
  | [] => []
  | (g, n) :: r => (g, erase n) :: eraseE r
end

mutual
/-- a mutation through address `a`: `f` is applied to *every* node whose backing store is `a`
    (what a write through one holder of a shared slice/map/pointer does to all holders) -/
def write (a : Addr) (f : GoNode → GoNode) : GoNode → GoNode
  | .imm v => .imm v
  | .nilv => .nilv
  | .slice b es => if b = a then f (.slice b (writeL a f es)) else .slice b (writeL a f es)
  | .gomap b es => if b = a then f (.gomap b (writeE a f es)) else .gomap b (writeE a f es)
  | .ptr b n => if b = a then f (.ptr b (write a f n)) else .ptr b (write a f n)
  | .iface t n => .iface t (write a f n)
  | .struct name fs => .struct name (writeE a f fs)
def writeL (a : Addr) (f : GoNode → GoNode) : List GoNode → List GoNode
  | [] => []
  | n :: r => write a f n :: writeL a f r
def writeE (a : Addr) (f : GoNode → GoNode) : List (String × GoNode) → List (String × GoNode)
  | [] => []
  | (g, n) :: r => (g, write a f n) :: writeE a f r
end

mutual
/-- structural equality test (no `DecidableEq` for nested inductives) -/
def GoNode.beq : GoNode → GoNode → Bool
  | .imm v, .imm w => v == w
  | .nilv, .nilv => true
  | .slice a es, .slice b fs => a == b && beqL es fs
  | .gomap a es, .gomap b fs => a == b && beqE es fs
  | .ptr a n, .ptr b m => a == b && GoNode.beq n m
  | .iface t n, .iface u m => t == u && GoNode.beq n m
  | .struct s es, .struct t fs => s == t && beqE es fs
  | _, _ => false
def beqL : List GoNode → List GoNode → Bool
  | [], [] => true
  | n :: r, m :: s => GoNode.beq n m && beqL r s
  | _, _ => false
def beqE : List (String × GoNode) → List (String × GoNode) → Bool
  | [], [] => true
  | (g, n) :: r, (h, m) :: s => g == h && GoNode.beq n m && beqE r s
  | _, _ => false
end

def GoNode.isNil : GoNode → Bool
  | .nilv => true
  | _ => false

/-! ### copy specifications -/

/-- How a copy routine treats one field (or element). -/
inductive Mode where
  /-- assigned as-is, field type immutable -/
  | byValue
  /-- new backing array, elements copied with the element mode -/
  | freshSlice (m : Mode)
  /-- new map, values copied with the value mode -/
  | freshMap (m : Mode)
  /-- recursive `DeepCopy` of the named struct type -/
  | recur (T : String)
  /-- `if p != nil { c := p.DeepCopy(); new = &c }` -/
  | viaPtrRec (T : String)
  /-- assigned as-is although the field's type can hold mutable structure -/
  | shared
  /-- not set in the result (left at its zero value) -/
  | omitted
  /-- an `any` copied through the dynamic-value helper (`deepCopyValue`): what happens depends on
      the dynamic type, per the spec's `dyn` table; a dynamic type without a case is assigned as-is -/
  | dyn
  deriving DecidableEq, Repr, Inhabited

/-- a copy specification: struct type ↦ modes of its fields, in declaration order; and the cases
    of the dynamic-value helper: dynamic type ↦ mode applied to the value held by the `any` -/
structure Spec where
  structs : List (String × List (String × Mode))
  dyn : List (Ty × Mode) := []
  deriving Repr, Inhabited

def lookupTy {α : Type} (t : List (Ty × α)) (k : Ty) : Option α :=
  match t with
  | [] => none
  | (a, b) :: r => if a = k then some b else lookupTy r k

def lookup {α : Type} (t : List (String × α)) (k : String) : Option α :=
  match t with
  | [] => none
  | (a, b) :: r => if a = k then some b else lookup r k

mutual
/-- `copyNode spec m n k`: the copy of `n` under mode `m`, drawing new addresses from the
    counter `k`; returns the copy and the next unused address.  Ill-typed combinations and the
    zero value are plain assignment. -/
def copyNode (spec : Spec) : Mode → GoNode → Addr → GoNode × Addr
  | .omitted, _, k => (.nilv, k)
  | .freshSlice m, .slice _ es, k =>
      let r := copyL spec m es (k + 1)
      (.slice k r.1, r.2)
  | .freshMap m, .gomap _ es, k =>
      let r := copyE spec m es (k + 1)
      (.gomap k r.1, r.2)
  | .viaPtrRec T, .ptr _ n, k =>
      let r := copyNode spec (.recur T) n (k + 1)
      (.ptr k r.1, r.2)
  | .recur T, .struct name fs, k =>
      match lookup spec.structs T with
      | some ms =>
          let r := copyF spec ms fs k
          (.struct name r.1, r.2)
      | none => (.struct name fs, k)
  | .dyn, .iface t n, k =>
      match lookupTy spec.dyn t with
      | some m =>
          let r := copyNode spec m n k
          (.iface t r.1, r.2)
      | none => (.iface t n, k)
  | _, n, k => (n, k)
def copyL (spec : Spec) (m : Mode) : List GoNode → Addr → List GoNode × Addr
  | [], k => ([], k)
  | n :: r, k =>
      let c := copyNode spec m n k
      let cr := copyL spec m r c.2
      (c.1 :: cr.1, cr.2)
def copyE (spec : Spec) (m : Mode) : List (String × GoNode) → Addr → List (String × GoNode) × Addr
  | [], k => ([], k)
  | (g, n) :: r, k =>
      let c := copyNode spec m n k
      let cr := copyE spec m r c.2
      ((g, c.1) :: cr.1, cr.2)
/-- fields are copied positionally against the struct's mode list; a field beyond the table
    (unknown to the copy routine) is `omitted` -/
def copyF (spec : Spec) : List (String × Mode) → List (String × GoNode) → Addr → List (String × GoNode) × Addr
  | _, [], k => ([], k)
  | [], (g, _) :: r, k =>
      let cr := copyF spec [] r k
      ((g, .nilv) :: cr.1, cr.2)
  | (_, m) :: ms, (g, n) :: r, k =>
      let c := copyNode spec m n k
      let cr := copyF spec ms r c.2
      ((g, c.1) :: cr.1, cr.2)
end

mutual
/-- value-level side condition under which a copy by `m` is faithful and independent:
    whatever is assigned as-is holds no address, whatever is omitted is empty -/
def safe (spec : Spec) : Mode → GoNode → Bool
  | .byValue, n => (addrs n).isEmpty
  | .shared, n => (addrs n).isEmpty
  | .omitted, n => (erase n).isNil
  | _, .nilv => true
  | .freshSlice m, .slice _ es => safeL spec m es
  | .freshMap m, .gomap _ es => safeE spec m es
  | .viaPtrRec T, .ptr _ n => safe spec (.recur T) n
  | .recur T, .struct _ fs =>
      match lookup spec.structs T with
      | some ms => safeF spec ms fs
      | none => false
  | .dyn, .iface t n =>
      match lookupTy spec.dyn t with
      | some m => safe spec m n
      | none => (addrs n).isEmpty
  | _, _ => false
def safeL (spec : Spec) (m : Mode) : List GoNode → Bool
  | [] => true
  | n :: r => safe spec m n && safeL spec m r
def safeE (spec : Spec) (m : Mode) : List (String × GoNode) → Bool
  | [] => true
  | (_, n) :: r => safe spec m n && safeE spec m r
def safeF (spec : Spec) : List (String × Mode) → List (String × GoNode) → Bool
  | _, [] => true
  | [], (_, n) :: r => (erase n).isNil && safeF spec [] r
  | (_, m) :: ms, (_, n) :: r => safe spec m n && safeF spec ms r
end

mutual
/-- the part of `safe` that is a genuine restriction on *values*: only `shared` and `omitted`
    positions are constrained (hypothesis of the partial theorem) -/
def clean (spec : Spec) : Mode → GoNode → Bool
  | .byValue, _ => true
  | .shared, n => (addrs n).isEmpty
  | .omitted, n => (erase n).isNil
  | .freshSlice m, .slice _ es => cleanL spec m es
  | .freshMap m, .gomap _ es => cleanE spec m es
  | .viaPtrRec T, .ptr _ n => clean spec (.recur T) n
  | .recur T, .struct _ fs =>
      match lookup spec.structs T with
      | some ms => cleanF spec ms fs
      | none => true
  | .dyn, .iface t n =>
      match lookupTy spec.dyn t with
      | some m => clean spec m n
      | none => (addrs n).isEmpty
  | _, _ => true
def cleanL (spec : Spec) (m : Mode) : List GoNode → Bool
  | [] => true
  | n :: r => clean spec m n && cleanL spec m r
def cleanE (spec : Spec) (m : Mode) : List (String × GoNode) → Bool
  | [] => true
  | (_, n) :: r => clean spec m n && cleanE spec m r
def cleanF (spec : Spec) : List (String × Mode) → List (String × GoNode) → Bool
  | _, [] => true
  | [], (_, n) :: r => (erase n).isNil && cleanF spec [] r
  | (_, m) :: ms, (_, n) :: r => clean spec m n && cleanF spec ms r
end

/-! ### Go types (from `Gen/IRFields.lean`) and well-typed nodes -/

/-- struct type ↦ its fields with their types, in declaration order -/
abbrev Env := List (String × List (String × Ty))

mutual
/-- `n` is a value of Go type `t` (what the Go type checker guarantees of every IR value) -/
def hasTy (env : Env) : Ty → GoNode → Bool
  | _, .nilv => true
  | .imm, .imm _ => true
  | .slice t, .slice _ es => hasTyL env t es
  | .map t, .gomap _ es => hasTyE env t es
  | .ptr t, .ptr _ n => hasTy env t n
  | .iface, .iface t n => hasTy env t n
  | .named S, .struct name fs =>
      name == S && (match lookup env S with
        | some ts => hasTyF env ts fs
        | none => false)
  | _, _ => false
def hasTyL (env : Env) (t : Ty) : List GoNode → Bool
  | [] => true
  | n :: r => hasTy env t n && hasTyL env t r
def hasTyE (env : Env) (t : Ty) : List (String × GoNode) → Bool
  | [] => true
  | (_, n) :: r => hasTy env t n && hasTyE env t r
def hasTyF (env : Env) : List (String × Ty) → List (String × GoNode) → Bool
  | [], [] => true
  | (g, t) :: ts, (h, n) :: r => g == h && hasTy env t n && hasTyF env ts r
  | _, _ => false
end

/-- a type none of whose values holds an address (scalars and structs of such, to depth `fuel`) -/
def immTy (env : Env) : Nat → Ty → Bool
  | 0, _ => false
  | _ + 1, .imm => true
  | fuel + 1, .named S =>
      match lookup env S with
      | some ts => ts.all (fun e => immTy env fuel e.2)
      | none => false
  | _ + 1, _ => false

/-- the mode is applicable to a field of this type; `byValue` only on immutable types -/
def fits (env : Env) (spec : Spec) (fuel : Nat) : Mode → Ty → Bool
  | .byValue, t => immTy env fuel t
  | .freshSlice m, .slice t => fits env spec fuel m t
  | .freshMap m, .map t => fits env spec fuel m t
  | .recur T, .named S => T == S && (lookup spec.structs T).isSome
  | .viaPtrRec T, .ptr (.named S) => T == S && (lookup spec.structs T).isSome
  | .shared, _ => true
  | .omitted, _ => true
  | .dyn, .iface => true
  | _, _ => false

def fitsF (env : Env) (spec : Spec) (fuel : Nat) : List (String × Mode) → List (String × Ty) → Bool
  | [], [] => true
  | (g, m) :: ms, (h, t) :: ts => g == h && fits env spec fuel m t && fitsF env spec fuel ms ts
  | _, _ => false

/-- every struct of the copy table is a struct of the IR with the *same field list* (a field
    added in Go and unknown to the copy table breaks this), every mode fits its field's type,
    every `recur`/`viaPtrRec` target is in the table -/
def structsOK (env : Env) (spec : Spec) (fuel : Nat) : Bool :=
  spec.structs.all (fun e => match lookup env e.1 with
    | some ts => fitsF env spec fuel e.2 ts
    | none => false)

/-- every case of the dynamic-value helper applies a mode that fits the case's dynamic type -/
def dynOK (env : Env) (spec : Spec) (fuel : Nat) : Bool :=
  spec.dyn.all (fun e => fits env spec fuel e.2 e.1)

def tableOK (env : Env) (spec : Spec) (fuel : Nat) : Bool :=
  structsOK env spec fuel && dynOK env spec fuel

/-- the mode contains `shared` or `omitted` somewhere -/
def Mode.bad : Mode → Bool
  | .shared => true
  | .omitted => true
  | .freshSlice m => m.bad
  | .freshMap m => m.bad
  | _ => false

/-- all (struct, field, mode) entries of a table that are not good; a bad case of the
    dynamic-value helper is listed under the pseudo-struct `any` -/
def badEntries (spec : Spec) : List (String × String × Mode) :=
  spec.structs.flatMap (fun e => (e.2.filter (fun f => f.2.bad)).map (fun f => (e.1, f.1, f.2))) ++
  (spec.dyn.filter (fun e => e.2.bad)).map (fun e => ("any", e.1.show, e.2))

/-! ### the universe of dynamic types held by the IR's `any` fields -/

mutual
/-- every `any` inside the value holds a dynamic type of the universe `U` -/
def dynIn (U : List Ty) : GoNode → Bool
  | .imm _ => true
  | .nilv => true
  | .slice _ es => dynInL U es
  | .gomap _ es => dynInE U es
  | .ptr _ n => dynIn U n
  | .iface t n => U.contains t && dynIn U n
  | .struct _ fs => dynInE U fs
def dynInL (U : List Ty) : List GoNode → Bool
  | [] => true
  | n :: r => dynIn U n && dynInL U r
def dynInE (U : List Ty) : List (String × GoNode) → Bool
  | [] => true
  | (_, n) :: r => dynIn U n && dynInE U r
end

/-- every dynamic type of the universe is either rebuilt by the helper or cannot hold an address -/
def dynCovers (env : Env) (spec : Spec) (fuel : Nat) (U : List Ty) : Bool :=
  U.all (fun t => (lookupTy spec.dyn t).isSome || immTy env fuel t)

/-- a well-typed value of struct `T` with the given fields set and every other field zero -/
def mkStruct (env : Env) (T : String) (ovr : List (String × GoNode)) : GoNode :=
  .struct T (((lookup env T).getD []).map (fun e => (e.1, (lookup ovr e.1).getD .nilv)))

end Cog.Heap
