/-
  The copy table and field lists of cog BEFORE the fix commits b4532a0, ea8a40d, 1572d8b, 71b1811
  (tree 8b0989b), extracted once by extract/xcopy (`python3 verifkit/gen_c18.py --prefix <checkout> <commit>`).
  Pinned history: the witnesses of lean/Cog/Props/C18.lean about the former exceptions are stated on it.
-/
import Cog.Heap.Model
namespace Cog.Heap.PreFix
open Cog.Heap

/-- every struct type of internal/ast (and the instantiated ordered map): fields in declaration order -/
def preEnv : Env := [
  ("Argument", [("Name", .imm), ("Type", (.named "Type"))]),
  ("ArrayType", [("ValueType", (.named "Type"))]),
  ("Assignment", [("Path", (.slice (.named "PathItem"))), ("Value", (.named "AssignmentValue")), ("Method", .imm), ("Constraints", (.slice (.named "AssignmentConstraint"))), ("NilChecks", (.slice (.named "AssignmentNilCheck")))]),
  ("AssignmentConstraint", [("Argument", (.named "Argument")), ("Op", .imm), ("Parameter", .iface)]),
  ("AssignmentEnvelope", [("Type", (.named "Type")), ("Values", (.slice (.named "EnvelopeFieldValue")))]),
  ("AssignmentNilCheck", [("Path", (.slice (.named "PathItem"))), ("EmptyValueType", (.named "Type"))]),
  ("AssignmentValue", [("Argument", (.ptr (.named "Argument"))), ("Constant", .iface), ("Envelope", (.ptr (.named "AssignmentEnvelope")))]),
  ("Builder", [("For", (.named "Object")), ("Package", .imm), ("Name", .imm), ("Properties", (.slice (.named "StructField"))), ("Constructor", (.named "Constructor")), ("Options", (.slice (.named "Option"))), ("VeneerTrail", (.slice .imm)), ("Factories", (.slice (.named "BuilderFactory")))]),
  ("BuilderFactory", [("Name", .imm), ("Comments", (.slice .imm)), ("Args", (.slice (.named "Argument"))), ("OptionCalls", (.slice (.named "OptionCall")))]),
  ("BuilderGenerator", []),
  ("ComposableSlotType", [("Variant", .imm)]),
  ("ConstantReferenceType", [("ReferredPkg", .imm), ("ReferredType", .imm), ("ReferenceValue", .iface)]),
  ("Constructor", [("Args", (.slice (.named "Argument"))), ("Assignments", (.slice (.named "Assignment")))]),
  ("DisjunctionType", [("Branches", (.slice (.named "Type"))), ("Discriminator", .imm), ("DiscriminatorMapping", (.map .imm))]),
  ("EnumType", [("Values", (.slice (.named "EnumValue")))]),
  ("EnumValue", [("Type", (.named "Type")), ("Name", .imm), ("Value", .iface)]),
  ("EnvelopeFieldValue", [("Path", (.slice (.named "PathItem"))), ("Value", (.named "AssignmentValue"))]),
  ("FactoryCall", [("Ref", (.named "FactoryRef")), ("Parameters", (.slice (.named "OptionCallParameter")))]),
  ("FactoryRef", [("Package", .imm), ("Builder", .imm), ("Factory", .imm)]),
  ("IntersectionType", [("Branches", (.slice (.named "Type")))]),
  ("MapType", [("IndexType", (.named "Type")), ("ValueType", (.named "Type"))]),
  ("Object", [("Name", .imm), ("Comments", (.slice .imm)), ("Type", (.named "Type")), ("SelfRef", (.named "RefType")), ("PassesTrail", (.slice .imm))]),
  ("Option", [("Name", .imm), ("Comments", (.slice .imm)), ("VeneerTrail", (.slice .imm)), ("Args", (.slice (.named "Argument"))), ("Assignments", (.slice (.named "Assignment"))), ("Default", (.ptr (.named "OptionDefault")))]),
  ("OptionCall", [("Name", .imm), ("Parameters", (.slice (.named "OptionCallParameter")))]),
  ("OptionCallParameter", [("Argument", (.ptr (.named "Argument"))), ("Constant", (.ptr (.named "TypedConstant"))), ("Factory", (.ptr (.named "FactoryCall")))]),
  ("OptionDefault", [("ArgsValues", (.slice .iface))]),
  ("PathIndex", [("Argument", (.ptr (.named "Argument"))), ("Constant", .iface)]),
  ("PathItem", [("Identifier", .imm), ("Index", (.ptr (.named "PathIndex"))), ("Type", (.named "Type")), ("TypeHint", (.ptr (.named "Type"))), ("Root", .imm)]),
  ("RefType", [("ReferredPkg", .imm), ("ReferredType", .imm)]),
  ("ScalarType", [("ScalarKind", .imm), ("Value", .iface), ("Constraints", (.slice (.named "TypeConstraint")))]),
  ("Schema", [("Package", .imm), ("Metadata", (.named "SchemaMeta")), ("EntryPoint", .imm), ("EntryPointType", (.named "Type")), ("Objects", (.ptr (.named "orderedmap.Map[string,Object]")))]),
  ("SchemaMeta", [("Kind", .imm), ("Variant", .imm), ("Identifier", .imm)]),
  ("StructField", [("Name", .imm), ("Comments", (.slice .imm)), ("Type", (.named "Type")), ("Required", .imm), ("PassesTrail", (.slice .imm))]),
  ("StructType", [("Fields", (.slice (.named "StructField")))]),
  ("Type", [("Kind", .imm), ("Nullable", .imm), ("Default", .iface), ("Disjunction", (.ptr (.named "DisjunctionType"))), ("Array", (.ptr (.named "ArrayType"))), ("Enum", (.ptr (.named "EnumType"))), ("Map", (.ptr (.named "MapType"))), ("Struct", (.ptr (.named "StructType"))), ("Ref", (.ptr (.named "RefType"))), ("ConstantReference", (.ptr (.named "ConstantReferenceType"))), ("Scalar", (.ptr (.named "ScalarType"))), ("Intersection", (.ptr (.named "IntersectionType"))), ("ComposableSlot", (.ptr (.named "ComposableSlotType"))), ("Hints", (.map .iface)), ("PassesTrail", (.slice .imm))]),
  ("TypeConstraint", [("Op", .imm), ("Args", (.slice .iface))]),
  ("TypedConstant", [("Type", (.named "Type")), ("Value", .iface)]),
  ("orderedmap.Map[string,Object]", [("records", (.map (.named "Object"))), ("order", (.slice .imm))])
]

/-- per struct with a DeepCopy method (plus structs copied inline / through orderedmap.Map): how each field is
    copied; and the cases of the dynamic-value helper (none) -/
def preSpec : Spec := {
  structs := [
    ("Argument", [("Name", .byValue), ("Type", (.recur "Type"))]),
    ("ArrayType", [("ValueType", (.recur "Type"))]),
    ("Assignment", [("Path", (.freshSlice (.recur "PathItem"))), ("Value", (.recur "AssignmentValue")), ("Method", .byValue), ("Constraints", (.freshSlice (.recur "AssignmentConstraint"))), ("NilChecks", (.freshSlice (.recur "AssignmentNilCheck")))]),
    ("AssignmentConstraint", [("Argument", (.recur "Argument")), ("Op", .byValue), ("Parameter", .shared)]),
    ("AssignmentEnvelope", [("Type", (.recur "Type")), ("Values", (.freshSlice (.recur "EnvelopeFieldValue")))]),
    ("AssignmentNilCheck", [("Path", (.freshSlice (.recur "PathItem"))), ("EmptyValueType", (.recur "Type"))]),
    ("AssignmentValue", [("Argument", (.viaPtrRec "Argument")), ("Constant", .shared), ("Envelope", (.viaPtrRec "AssignmentEnvelope"))]),
    ("Builder", [("For", .shared), ("Package", .byValue), ("Name", .byValue), ("Properties", (.freshSlice (.recur "StructField"))), ("Constructor", (.recur "Constructor")), ("Options", (.freshSlice (.recur "Option"))), ("VeneerTrail", (.freshSlice .byValue)), ("Factories", .omitted)]),
    ("BuilderFactory", [("Name", .byValue), ("Comments", (.freshSlice .byValue)), ("Args", (.freshSlice (.recur "Argument"))), ("OptionCalls", (.freshSlice (.recur "OptionCall")))]),
    ("ComposableSlotType", [("Variant", .byValue)]),
    ("ConstantReferenceType", [("ReferredPkg", .byValue), ("ReferredType", .byValue), ("ReferenceValue", .shared)]),
    ("Constructor", [("Args", (.freshSlice (.recur "Argument"))), ("Assignments", (.freshSlice (.recur "Assignment")))]),
    ("DisjunctionType", [("Branches", (.freshSlice (.recur "Type"))), ("Discriminator", .byValue), ("DiscriminatorMapping", (.freshMap .byValue))]),
    ("EnumType", [("Values", (.freshSlice (.recur "EnumValue")))]),
    ("EnumValue", [("Type", (.recur "Type")), ("Name", .byValue), ("Value", .shared)]),
    ("EnvelopeFieldValue", [("Path", (.freshSlice (.recur "PathItem"))), ("Value", (.recur "AssignmentValue"))]),
    ("FactoryCall", [("Ref", (.recur "FactoryRef")), ("Parameters", (.freshSlice (.recur "OptionCallParameter")))]),
    ("FactoryRef", [("Package", .byValue), ("Builder", .byValue), ("Factory", .byValue)]),
    ("IntersectionType", [("Branches", (.freshSlice (.recur "Type")))]),
    ("MapType", [("IndexType", (.recur "Type")), ("ValueType", (.recur "Type"))]),
    ("Object", [("Name", .byValue), ("Comments", (.freshSlice .byValue)), ("Type", (.recur "Type")), ("SelfRef", (.recur "RefType")), ("PassesTrail", (.freshSlice .byValue))]),
    ("Option", [("Name", .byValue), ("Comments", (.freshSlice .byValue)), ("VeneerTrail", (.freshSlice .byValue)), ("Args", (.freshSlice (.recur "Argument"))), ("Assignments", (.freshSlice (.recur "Assignment"))), ("Default", .omitted)]),
    ("OptionCall", [("Name", .byValue), ("Parameters", (.freshSlice (.recur "OptionCallParameter")))]),
    ("OptionCallParameter", [("Argument", (.viaPtrRec "Argument")), ("Constant", (.viaPtrRec "TypedConstant")), ("Factory", (.viaPtrRec "FactoryCall"))]),
    ("PathIndex", [("Argument", (.viaPtrRec "Argument")), ("Constant", .shared)]),
    ("PathItem", [("Identifier", .byValue), ("Index", (.viaPtrRec "PathIndex")), ("Type", (.recur "Type")), ("TypeHint", (.viaPtrRec "Type")), ("Root", .byValue)]),
    ("RefType", [("ReferredPkg", .byValue), ("ReferredType", .byValue)]),
    ("ScalarType", [("ScalarKind", .byValue), ("Value", .shared), ("Constraints", (.freshSlice (.recur "TypeConstraint")))]),
    ("Schema", [("Package", .byValue), ("Metadata", .byValue), ("EntryPoint", .byValue), ("EntryPointType", .shared), ("Objects", (.viaPtrRec "orderedmap.Map[string,Object]"))]),
    ("StructField", [("Name", .byValue), ("Comments", (.freshSlice .byValue)), ("Type", (.recur "Type")), ("Required", .byValue), ("PassesTrail", (.freshSlice .byValue))]),
    ("StructType", [("Fields", (.freshSlice (.recur "StructField")))]),
    ("Type", [("Kind", .byValue), ("Nullable", .byValue), ("Default", .shared), ("Disjunction", (.viaPtrRec "DisjunctionType")), ("Array", (.viaPtrRec "ArrayType")), ("Enum", (.viaPtrRec "EnumType")), ("Map", (.viaPtrRec "MapType")), ("Struct", (.viaPtrRec "StructType")), ("Ref", (.viaPtrRec "RefType")), ("ConstantReference", (.viaPtrRec "ConstantReferenceType")), ("Scalar", (.viaPtrRec "ScalarType")), ("Intersection", (.viaPtrRec "IntersectionType")), ("ComposableSlot", (.viaPtrRec "ComposableSlotType")), ("Hints", (.freshMap .shared)), ("PassesTrail", (.freshSlice .byValue))]),
    ("TypeConstraint", [("Op", .byValue), ("Args", (.freshSlice .shared))]),
    ("TypedConstant", [("Type", (.recur "Type")), ("Value", .shared)]),
    ("orderedmap.Map[string,Object]", [("records", (.freshMap (.recur "Object"))), ("order", (.freshSlice .byValue))])
  ],
  dyn := [

  ]
}

/-- one entry per DeepCopy method: receiver name, mode applied to the receiver, receiver type -/
def preRoots : List (String × Mode × Ty) := [
  ("Argument", (.recur "Argument"), (.named "Argument")),
  ("ArrayType", (.recur "ArrayType"), (.named "ArrayType")),
  ("Assignment", (.recur "Assignment"), (.named "Assignment")),
  ("AssignmentConstraint", (.recur "AssignmentConstraint"), (.named "AssignmentConstraint")),
  ("AssignmentEnvelope", (.recur "AssignmentEnvelope"), (.named "AssignmentEnvelope")),
  ("AssignmentNilCheck", (.recur "AssignmentNilCheck"), (.named "AssignmentNilCheck")),
  ("AssignmentValue", (.recur "AssignmentValue"), (.named "AssignmentValue")),
  ("Builder", (.recur "Builder"), (.named "Builder")),
  ("BuilderFactory", (.recur "BuilderFactory"), (.named "BuilderFactory")),
  ("ComposableSlotType", (.recur "ComposableSlotType"), (.named "ComposableSlotType")),
  ("ConstantReferenceType", (.recur "ConstantReferenceType"), (.named "ConstantReferenceType")),
  ("Constructor", (.recur "Constructor"), (.named "Constructor")),
  ("DisjunctionType", (.recur "DisjunctionType"), (.named "DisjunctionType")),
  ("EnumType", (.recur "EnumType"), (.named "EnumType")),
  ("EnumValue", (.recur "EnumValue"), (.named "EnumValue")),
  ("EnvelopeFieldValue", (.recur "EnvelopeFieldValue"), (.named "EnvelopeFieldValue")),
  ("FactoryCall", (.recur "FactoryCall"), (.named "FactoryCall")),
  ("FactoryRef", (.recur "FactoryRef"), (.named "FactoryRef")),
  ("IntersectionType", (.recur "IntersectionType"), (.named "IntersectionType")),
  ("MapType", (.recur "MapType"), (.named "MapType")),
  ("Object", (.recur "Object"), (.named "Object")),
  ("Option", (.recur "Option"), (.named "Option")),
  ("OptionCall", (.recur "OptionCall"), (.named "OptionCall")),
  ("OptionCallParameter", (.recur "OptionCallParameter"), (.named "OptionCallParameter")),
  ("Path", (.freshSlice (.recur "PathItem")), (.slice (.named "PathItem"))),
  ("PathIndex", (.recur "PathIndex"), (.named "PathIndex")),
  ("PathItem", (.recur "PathItem"), (.named "PathItem")),
  ("RefType", (.recur "RefType"), (.named "RefType")),
  ("ScalarType", (.recur "ScalarType"), (.named "ScalarType")),
  ("Schema", (.recur "Schema"), (.named "Schema")),
  ("Schemas", (.freshSlice (.viaPtrRec "Schema")), (.slice (.ptr (.named "Schema")))),
  ("StructField", (.recur "StructField"), (.named "StructField")),
  ("StructType", (.recur "StructType"), (.named "StructType")),
  ("Type", (.recur "Type"), (.named "Type")),
  ("TypeConstraint", (.recur "TypeConstraint"), (.named "TypeConstraint")),
  ("TypedConstant", (.recur "TypedConstant"), (.named "TypedConstant"))
]

end Cog.Heap.PreFix
