/-
  The copy meta-theorem (C18): a copy that follows a spec is faithful and independent on every
  value on which the spec is `safe`; proved by structural induction over the node, i.e. for
  values of every shape and nesting depth.  Core Lean only.
-/
import Cog.Heap.Model
set_option linter.unusedVariables false
namespace Cog.Heap

/-! ### small facts -/

theorem isNil_eq {n : GoNode} (h : n.isNil = true) : n = .nilv := by
  cases n <;> simp [GoNode.isNil] at h ⊢

theorem isEmpty_eq {l : List Addr} (h : l.isEmpty = true) : l = [] := by
  cases l <;> simp at h ⊢

mutual
theorem beq_refl : ∀ n : GoNode, GoNode.beq n n = true
  | .imm v => by simp [GoNode.beq]
  | .nilv => by simp [GoNode.beq]
  | .slice a es => by simp [GoNode.beq, beqL_refl es]
  | .gomap a es => by simp [GoNode.beq, beqE_refl es]
  | .ptr a n => by simp [GoNode.beq, beq_refl n]
  | .iface t n => by simp [GoNode.beq, beq_refl n]
  | .struct s fs => by simp [GoNode.beq, beqE_refl fs]
theorem beqL_refl : ∀ l : List GoNode, beqL l l = true
  | [] => by simp [beqL]
  | n :: r => by simp [beqL, beq_refl n, beqL_refl r]
theorem beqE_refl : ∀ l : List (String × GoNode), beqE l l = true
  | [] => by simp [beqE]
  | (g, n) :: r => by simp [beqE, beq_refl n, beqE_refl r]
end

/-- a failed structural comparison separates the two values -/
theorem ne_of_beq_false {n m : GoNode} (h : GoNode.beq n m = false) : n ≠ m := by
  intro e; subst e; rw [beq_refl] at h; cases h

/-! ### frame: a write through an address the value does not hold leaves it unchanged -/

mutual
theorem write_frame (a : Addr) (f : GoNode → GoNode) : ∀ n : GoNode, a ∉ addrs n → write a f n = n
  | .imm v, _ => by simp [write]
  | .nilv, _ => by simp [write]
  | .slice b es, h => by
      simp only [addrs, List.mem_cons, not_or] at h
      have hb : ¬ b = a := fun e => h.1 e.symm
      simp [write, hb, writeL_frame a f es h.2]
  | .gomap b es, h => by
      simp only [addrs, List.mem_cons, not_or] at h
      have hb : ¬ b = a := fun e => h.1 e.symm
      simp [write, hb, writeE_frame a f es h.2]
  | .ptr b n, h => by
      simp only [addrs, List.mem_cons, not_or] at h
      have hb : ¬ b = a := fun e => h.1 e.symm
      simp [write, hb, write_frame a f n h.2]
  | .iface t n, h => by
      simp only [addrs] at h
      simp [write, write_frame a f n h]
  | .struct s fs, h => by
      simp only [addrs] at h
      simp [write, writeE_frame a f fs h]
theorem writeL_frame (a : Addr) (f : GoNode → GoNode) : ∀ l : List GoNode, a ∉ addrsL l → writeL a f l = l
  | [], _ => by simp [writeL]
  | n :: r, h => by
      simp only [addrsL, List.mem_append, not_or] at h
      simp [writeL, write_frame a f n h.1, writeL_frame a f r h.2]
theorem writeE_frame (a : Addr) (f : GoNode → GoNode) : ∀ l : List (String × GoNode), a ∉ addrsE l → writeE a f l = l
  | [], _ => by simp [writeE]
  | (g, n) :: r, h => by
      simp only [addrsE, List.mem_append, not_or] at h
      simp [writeE, write_frame a f n h.1, writeE_frame a f r h.2]
end

/-! ### a write that replaces the holders of `a` by a scalar removes `a`: so it is observable -/

mutual
theorem write_imm_removes (a : Addr) (v : String) : ∀ n : GoNode, a ∉ addrs (write a (fun _ => .imm v) n)
  | .imm w => by simp [write, addrs]
  | .nilv => by simp [write, addrs]
  | .slice b es => by
      by_cases hb : b = a
      · simp [write, hb, addrs]
      · have := writeL_imm_removes a v es
        simp only [write, hb, if_false, addrs, List.mem_cons, not_or]
        exact ⟨fun e => hb e.symm, this⟩
  | .gomap b es => by
      by_cases hb : b = a
      · simp [write, hb, addrs]
      · have := writeE_imm_removes a v es
        simp only [write, hb, if_false, addrs, List.mem_cons, not_or]
        exact ⟨fun e => hb e.symm, this⟩
  | .ptr b n => by
      by_cases hb : b = a
      · simp [write, hb, addrs]
      · have := write_imm_removes a v n
        simp only [write, hb, if_false, addrs, List.mem_cons, not_or]
        exact ⟨fun e => hb e.symm, this⟩
  | .iface t n => by
      have := write_imm_removes a v n
      simpa [write, addrs] using this
  | .struct s fs => by
      have := writeE_imm_removes a v fs
      simpa [write, addrs] using this
theorem writeL_imm_removes (a : Addr) (v : String) : ∀ l : List GoNode, a ∉ addrsL (writeL a (fun _ => .imm v) l)
  | [] => by simp [writeL, addrsL]
  | n :: r => by
      simp only [writeL, addrsL, List.mem_append, not_or]
      exact ⟨write_imm_removes a v n, writeL_imm_removes a v r⟩
theorem writeE_imm_removes (a : Addr) (v : String) : ∀ l : List (String × GoNode), a ∉ addrsE (writeE a (fun _ => .imm v) l)
  | [] => by simp [writeE, addrsE]
  | (g, n) :: r => by
      simp only [writeE, addrsE, List.mem_append, not_or]
      exact ⟨write_imm_removes a v n, writeE_imm_removes a v r⟩
end

/-- a write through an address the value holds is visible in the value -/
theorem write_observable {a : Addr} {n : GoNode} (h : a ∈ addrs n) (v : String) :
    write a (fun _ => .imm v) n ≠ n := by
  intro e
  have := write_imm_removes a v n
  rw [e] at this
  exact this h

/-! ### equations of `copyNode` -/

@[simp] theorem copyNode_byValue (spec : Spec) (n : GoNode) (k : Addr) : copyNode spec .byValue n k = (n, k) := by
  cases n <;> rfl
@[simp] theorem copyNode_shared (spec : Spec) (n : GoNode) (k : Addr) : copyNode spec .shared n k = (n, k) := by
  cases n <;> rfl
@[simp] theorem copyNode_omitted (spec : Spec) (n : GoNode) (k : Addr) : copyNode spec .omitted n k = (.nilv, k) := by
  cases n <;> rfl
@[simp] theorem copyNode_nilv (spec : Spec) (m : Mode) (k : Addr) : copyNode spec m .nilv k = (.nilv, k) := by
  cases m <;> rfl

/-! ### the meta-theorem -/

/-- the result `c` (next counter `k'`) of copying `n` with counter `k` is faithful and all its
    addresses are new -/
def CopyOK (n c : GoNode) (k k' : Addr) : Prop :=
  erase c = erase n ∧ k ≤ k' ∧ ∀ a ∈ addrs c, k ≤ a ∧ a < k'
def CopyOKL (n c : List GoNode) (k k' : Addr) : Prop :=
  eraseL c = eraseL n ∧ k ≤ k' ∧ ∀ a ∈ addrsL c, k ≤ a ∧ a < k'
def CopyOKE (n c : List (String × GoNode)) (k k' : Addr) : Prop :=
  eraseE c = eraseE n ∧ k ≤ k' ∧ ∀ a ∈ addrsE c, k ≤ a ∧ a < k'

theorem copyOK_asis {n : GoNode} (k : Addr) (h : (addrs n).isEmpty = true) : CopyOK n n k k := by
  refine ⟨rfl, Nat.le_refl _, ?_⟩
  rw [isEmpty_eq h]; intro a ha; cases ha

theorem copyOK_nil (k : Addr) : CopyOK .nilv .nilv k k :=
  ⟨rfl, Nat.le_refl _, by intro a ha; simp [addrs] at ha⟩

theorem copyOK_omitted {n : GoNode} (k : Addr) (h : (erase n).isNil = true) : CopyOK n .nilv k k := by
  refine ⟨?_, Nat.le_refl _, by intro a ha; simp [addrs] at ha⟩
  rw [isNil_eq h]; rfl

mutual
theorem copyNode_ok (spec : Spec) : ∀ (n : GoNode) (m : Mode) (k : Addr),
    safe spec m n = true → (∀ a ∈ addrs n, a < k) →
    CopyOK n (copyNode spec m n k).1 k (copyNode spec m n k).2
  | .imm v, m, k, hs, hb => by
      cases m <;> simp [safe] at hs <;> first
        | (simp only [copyNode_byValue, copyNode_shared]; exact copyOK_asis k (by simp [addrs]))
        | (simp only [copyNode_omitted]; exact copyOK_omitted k (by simpa using hs))
  | .nilv, m, k, hs, hb => by
      simp only [copyNode_nilv]; exact copyOK_nil k
  | .slice a es, m, k, hs, hb => by
      cases m with
      | byValue => simp [safe, addrs] at hs
      | shared => simp [safe, addrs] at hs
      | omitted => simp only [copyNode_omitted]; exact copyOK_omitted k (by simpa [safe] using hs)
      | freshSlice m' =>
          simp only [safe] at hs
          have hb' : ∀ x ∈ addrsL es, x < k + 1 := fun x hx =>
            Nat.lt_succ_of_lt (hb x (by simp [addrs, hx]))
          obtain ⟨e1, e2, e3⟩ := copyL_ok spec es m' (k + 1) hs hb'
          refine ⟨?_, ?_, ?_⟩
          · simp only [copyNode, erase, e1]
          · simp only [copyNode]; omega
          · intro x hx
            simp only [copyNode, addrs, List.mem_cons] at hx ⊢
            rcases hx with rfl | hx
            · exact ⟨Nat.le_refl _, by omega⟩
            · have := e3 x hx; omega
      | freshMap m' => simp [safe] at hs
      | recur T => simp [safe] at hs
      | viaPtrRec T => simp [safe] at hs
      | dyn => simp [safe] at hs
  | .gomap a es, m, k, hs, hb => by
      cases m with
      | byValue => simp [safe, addrs] at hs
      | shared => simp [safe, addrs] at hs
      | omitted => simp only [copyNode_omitted]; exact copyOK_omitted k (by simpa [safe] using hs)
      | freshMap m' =>
          simp only [safe] at hs
          have hb' : ∀ x ∈ addrsE es, x < k + 1 := fun x hx =>
            Nat.lt_succ_of_lt (hb x (by simp [addrs, hx]))
          obtain ⟨e1, e2, e3⟩ := copyE_ok spec es m' (k + 1) hs hb'
          refine ⟨?_, ?_, ?_⟩
          · simp only [copyNode, erase, e1]
          · simp only [copyNode]; omega
          · intro x hx
            simp only [copyNode, addrs, List.mem_cons] at hx ⊢
            rcases hx with rfl | hx
            · exact ⟨Nat.le_refl _, by omega⟩
            · have := e3 x hx; omega
      | freshSlice m' => simp [safe] at hs
      | recur T => simp [safe] at hs
      | viaPtrRec T => simp [safe] at hs
      | dyn => simp [safe] at hs
  | .ptr a n, m, k, hs, hb => by
      cases m with
      | byValue => simp [safe, addrs] at hs
      | shared => simp [safe, addrs] at hs
      | omitted => simp only [copyNode_omitted]; exact copyOK_omitted k (by simpa [safe] using hs)
      | viaPtrRec T =>
          simp only [safe] at hs
          have hb' : ∀ x ∈ addrs n, x < k + 1 := fun x hx =>
            Nat.lt_succ_of_lt (hb x (by simp [addrs, hx]))
          obtain ⟨e1, e2, e3⟩ := copyNode_ok spec n (.recur T) (k + 1) hs hb'
          refine ⟨?_, ?_, ?_⟩
          · simp only [copyNode, erase, e1]
          · simp only [copyNode]; omega
          · intro x hx
            simp only [copyNode, addrs, List.mem_cons] at hx ⊢
            rcases hx with rfl | hx
            · exact ⟨Nat.le_refl _, by omega⟩
            · have := e3 x hx; omega
      | freshSlice m' => simp [safe] at hs
      | freshMap m' => simp [safe] at hs
      | recur T => simp [safe] at hs
      | dyn => simp [safe] at hs
  | .iface t n, m, k, hs, hb => by
      cases m with
      | byValue => simp only [copyNode_byValue]; exact copyOK_asis k (by simpa [safe] using hs)
      | shared => simp only [copyNode_shared]; exact copyOK_asis k (by simpa [safe] using hs)
      | omitted => simp only [copyNode_omitted]; exact copyOK_omitted k (by simpa [safe] using hs)
      | freshSlice m' => simp [safe] at hs
      | freshMap m' => simp [safe] at hs
      | recur T => simp [safe] at hs
      | viaPtrRec T => simp [safe] at hs
      | dyn =>
          simp only [safe] at hs
          cases hl : lookupTy spec.dyn t with
          | none =>
              simp only [hl] at hs
              simp only [copyNode, hl]
              exact copyOK_asis k (by simpa [addrs] using hs)
          | some m' =>
              simp only [hl] at hs
              have hb' : ∀ x ∈ addrs n, x < k := fun x hx => hb x (by simpa [addrs] using hx)
              obtain ⟨e1, e2, e3⟩ := copyNode_ok spec n m' k hs hb'
              refine ⟨?_, ?_, ?_⟩
              · simp only [copyNode, hl, erase, e1]
              · simp only [copyNode, hl]; exact e2
              · intro x hx
                simp only [copyNode, hl, addrs] at hx ⊢
                exact e3 x hx
  | .struct s fs, m, k, hs, hb => by
      cases m with
      | byValue => simp only [copyNode_byValue]; exact copyOK_asis k (by simpa [safe] using hs)
      | shared => simp only [copyNode_shared]; exact copyOK_asis k (by simpa [safe] using hs)
      | omitted => simp only [copyNode_omitted]; exact copyOK_omitted k (by simpa [safe] using hs)
      | recur T =>
          simp only [safe] at hs
          cases hl : lookup spec.structs T with
          | none => simp [hl] at hs
          | some ms =>
              simp only [hl] at hs
              have hb' : ∀ x ∈ addrsE fs, x < k := fun x hx => hb x (by simpa [addrs] using hx)
              obtain ⟨e1, e2, e3⟩ := copyF_ok spec fs ms k hs hb'
              refine ⟨?_, ?_, ?_⟩
              · simp only [copyNode, hl, erase, e1]
              · simp only [copyNode, hl]; exact e2
              · intro x hx
                simp only [copyNode, hl, addrs] at hx ⊢
                exact e3 x hx
      | freshSlice m' => simp [safe] at hs
      | freshMap m' => simp [safe] at hs
      | viaPtrRec T => simp [safe] at hs
      | dyn => simp [safe] at hs
theorem copyL_ok (spec : Spec) : ∀ (l : List GoNode) (m : Mode) (k : Addr),
    safeL spec m l = true → (∀ a ∈ addrsL l, a < k) →
    CopyOKL l (copyL spec m l k).1 k (copyL spec m l k).2
  | [], m, k, hs, hb => ⟨rfl, Nat.le_refl _, by intro a ha; simp [copyL, addrsL] at ha⟩
  | n :: r, m, k, hs, hb => by
      simp only [safeL, Bool.and_eq_true] at hs
      have hb1 : ∀ x ∈ addrs n, x < k := fun x hx => hb x (by simp [addrsL, hx])
      obtain ⟨e1, e2, e3⟩ := copyNode_ok spec n m k hs.1 hb1
      have hb2 : ∀ x ∈ addrsL r, x < (copyNode spec m n k).2 := fun x hx =>
        Nat.lt_of_lt_of_le (hb x (by simp [addrsL, hx])) e2
      obtain ⟨f1, f2, f3⟩ := copyL_ok spec r m (copyNode spec m n k).2 hs.2 hb2
      refine ⟨?_, ?_, ?_⟩
      · simp only [copyL, eraseL, e1, f1]
      · simp only [copyL]; omega
      · intro x hx
        simp only [copyL, addrsL, List.mem_append] at hx ⊢
        rcases hx with hx | hx
        · have := e3 x hx; omega
        · have := f3 x hx; omega
theorem copyE_ok (spec : Spec) : ∀ (l : List (String × GoNode)) (m : Mode) (k : Addr),
    safeE spec m l = true → (∀ a ∈ addrsE l, a < k) →
    CopyOKE l (copyE spec m l k).1 k (copyE spec m l k).2
  | [], m, k, hs, hb => ⟨rfl, Nat.le_refl _, by intro a ha; simp [copyE, addrsE] at ha⟩
  | (g, n) :: r, m, k, hs, hb => by
      simp only [safeE, Bool.and_eq_true] at hs
      have hb1 : ∀ x ∈ addrs n, x < k := fun x hx => hb x (by simp [addrsE, hx])
      obtain ⟨e1, e2, e3⟩ := copyNode_ok spec n m k hs.1 hb1
      have hb2 : ∀ x ∈ addrsE r, x < (copyNode spec m n k).2 := fun x hx =>
        Nat.lt_of_lt_of_le (hb x (by simp [addrsE, hx])) e2
      obtain ⟨f1, f2, f3⟩ := copyE_ok spec r m (copyNode spec m n k).2 hs.2 hb2
      refine ⟨?_, ?_, ?_⟩
      · simp only [copyE, eraseE, e1, f1]
      · simp only [copyE]; omega
      · intro x hx
        simp only [copyE, addrsE, List.mem_append] at hx ⊢
        rcases hx with hx | hx
        · have := e3 x hx; omega
        · have := f3 x hx; omega
theorem copyF_ok (spec : Spec) : ∀ (l : List (String × GoNode)) (ms : List (String × Mode)) (k : Addr),
    safeF spec ms l = true → (∀ a ∈ addrsE l, a < k) →
    CopyOKE l (copyF spec ms l k).1 k (copyF spec ms l k).2
  | [], ms, k, hs, hb => by
      cases ms <;> exact ⟨rfl, Nat.le_refl _, by intro a ha; simp [copyF, addrsE] at ha⟩
  | (g, n) :: r, [], k, hs, hb => by
      simp only [safeF, Bool.and_eq_true] at hs
      have hb2 : ∀ x ∈ addrsE r, x < k := fun x hx => hb x (by simp [addrsE, hx])
      obtain ⟨f1, f2, f3⟩ := copyF_ok spec r [] k hs.2 hb2
      refine ⟨?_, ?_, ?_⟩
      · simp only [copyF, eraseE, f1, isNil_eq hs.1]; rfl
      · simp only [copyF]; exact f2
      · intro x hx
        simp only [copyF, addrsE, addrs, List.nil_append] at hx ⊢
        exact f3 x hx
  | (g, n) :: r, (h, m) :: ms, k, hs, hb => by
      simp only [safeF, Bool.and_eq_true] at hs
      have hb1 : ∀ x ∈ addrs n, x < k := fun x hx => hb x (by simp [addrsE, hx])
      obtain ⟨e1, e2, e3⟩ := copyNode_ok spec n m k hs.1 hb1
      have hb2 : ∀ x ∈ addrsE r, x < (copyNode spec m n k).2 := fun x hx =>
        Nat.lt_of_lt_of_le (hb x (by simp [addrsE, hx])) e2
      obtain ⟨f1, f2, f3⟩ := copyF_ok spec r ms (copyNode spec m n k).2 hs.2 hb2
      refine ⟨?_, ?_, ?_⟩
      · simp only [copyF, eraseE, e1, f1]
      · simp only [copyF]; omega
      · intro x hx
        simp only [copyF, addrsE, List.mem_append] at hx ⊢
        rcases hx with hx | hx
        · have := e3 x hx; omega
        · have := f3 x hx; omega
end

/-- **Meta-theorem.**  For every spec, mode and value (any shape, any depth) on which the spec
    is safe, and every counter above the value's addresses: the copy equals the original in
    every field (modulo nil/empty), shares no address with it, and therefore no write through
    an address of the copy changes the original, nor vice versa. -/
theorem copy_faithful_independent (spec : Spec) (m : Mode) (n : GoNode) (k : Addr)
    (hs : safe spec m n = true) (hb : ∀ a ∈ addrs n, a < k) :
    let c := (copyNode spec m n k).1
    erase c = erase n ∧
    (∀ a ∈ addrs c, a ∉ addrs n) ∧
    (∀ a ∈ addrs c, ∀ f, write a f n = n) ∧
    (∀ a ∈ addrs n, ∀ f, write a f c = c) := by
  obtain ⟨e1, e2, e3⟩ := copyNode_ok spec n m k hs hb
  have dis : ∀ a ∈ addrs (copyNode spec m n k).1, a ∉ addrs n := fun a ha hn => by
    have := (e3 a ha).1; have := hb a hn; omega
  refine ⟨e1, dis, fun a ha f => write_frame a f n (dis a ha), fun a ha f => write_frame a f _ ?_⟩
  intro hc; exact dis a hc ha

/-! ### converse lemmas: what a bad entry does -/

/-- a `shared` position holding an address: the copy holds the same address, and a write
    through it (from the copy's side) changes the original -/
theorem shared_breaks_independence (spec : Spec) (n : GoNode) (k : Addr) (a : Addr) (h : a ∈ addrs n) :
    a ∈ addrs (copyNode spec .shared n k).1 ∧ a ∈ addrs n ∧ ∃ f, write a f n ≠ n := by
  simp only [copyNode_shared]
  exact ⟨h, h, _, write_observable h "mutated"⟩

/-- an `omitted` position holding a non-empty value: the copy differs from the original -/
theorem omitted_breaks_faithfulness (spec : Spec) (n : GoNode) (k : Addr) (h : (erase n).isNil = false) :
    erase (copyNode spec .omitted n k).1 ≠ erase n := by
  simp only [copyNode_omitted]
  intro e
  have : erase .nilv = .nilv := rfl
  rw [this] at e; rw [← e] at h; cases h

end Cog.Heap
