/-
  From the finite copy table to all well-typed values (C18): if the table is consistent with
  the Go field types (`tableOK`: same field lists, every mode fits its field's type, `byValue`
  only on immutable types), then on every well-typed value the only obstacles to a faithful and
  independent copy are the `shared` / `omitted` positions (`clean`).  Core Lean only.
-/
import Cog.Heap.Copy
set_option linter.unusedVariables false
namespace Cog.Heap

theorem lookup_mem {α : Type} : ∀ (l : List (String × α)) (k : String) (v : α), lookup l k = some v → (k, v) ∈ l
  | [], k, v, h => by simp [lookup] at h
  | (a, b) :: r, k, v, h => by
      simp only [lookup] at h
      by_cases e : a = k
      · simp only [e, if_true, Option.some.injEq] at h
        subst h; subst e; exact List.mem_cons_self
      · simp only [e, if_false] at h
        exact List.mem_cons_of_mem _ (lookup_mem r k v h)

theorem lookupTy_mem {α : Type} : ∀ (l : List (Ty × α)) (k : Ty) (v : α), lookupTy l k = some v → (k, v) ∈ l
  | [], k, v, h => by simp [lookupTy] at h
  | (a, b) :: r, k, v, h => by
      simp only [lookupTy] at h
      by_cases e : a = k
      · simp only [e, if_true, Option.some.injEq] at h
        subst h; subst e; exact List.mem_cons_self
      · simp only [e, if_false] at h
        exact List.mem_cons_of_mem _ (lookupTy_mem r k v h)

/-! ### values of immutable types hold no address -/

mutual
theorem imm_no_addrs (env : Env) : ∀ (n : GoNode) (fuel : Nat) (t : Ty),
    immTy env fuel t = true → hasTy env t n = true → addrs n = []
  | .imm v, _, _, _, _ => rfl
  | .nilv, _, _, _, _ => rfl
  | .slice a es, fuel, t, hi, ht => by
      cases t <;> cases fuel <;> simp [immTy, hasTy] at hi ht
  | .gomap a es, fuel, t, hi, ht => by
      cases t <;> cases fuel <;> simp [immTy, hasTy] at hi ht
  | .ptr a n, fuel, t, hi, ht => by
      cases t <;> cases fuel <;> simp [immTy, hasTy] at hi ht
  | .iface td n, fuel, t, hi, ht => by
      cases t <;> cases fuel <;> simp [immTy, hasTy] at hi ht
  | .struct s fs, fuel, t, hi, ht => by
      cases t with
      | named S =>
          cases fuel with
          | zero => simp [immTy] at hi
          | succ fuel =>
              simp only [immTy] at hi
              simp only [hasTy, Bool.and_eq_true] at ht
              cases hl : lookup env S with
              | none => simp [hl] at hi
              | some ts =>
                  simp only [hl] at hi ht
                  simp only [addrs]
                  exact immF_no_addrs env fs fuel ts hi ht.2
      | imm => simp [hasTy] at ht
      | slice t => simp [hasTy] at ht
      | map t => simp [hasTy] at ht
      | ptr t => simp [hasTy] at ht
      | iface => simp [hasTy] at ht
theorem immF_no_addrs (env : Env) : ∀ (fs : List (String × GoNode)) (fuel : Nat) (ts : List (String × Ty)),
    ts.all (fun e => immTy env fuel e.2) = true → hasTyF env ts fs = true → addrsE fs = []
  | [], _, _, _, _ => rfl
  | (g, n) :: r, fuel, [], hi, ht => by simp [hasTyF] at ht
  | (g, n) :: r, fuel, (h, t) :: ts, hi, ht => by
      simp only [List.all_cons, Bool.and_eq_true] at hi
      simp only [hasTyF, Bool.and_eq_true] at ht
      simp only [addrsE, imm_no_addrs env n fuel t hi.1 ht.1.2, immF_no_addrs env r fuel ts hi.2 ht.2,
        List.append_nil]
end

/-! ### Theorem B: on well-typed values, `clean` is all that `safe` asks for -/

theorem tableOK_entry {env : Env} {spec : Spec} {fuel : Nat} (hok : tableOK env spec fuel = true)
    {T : String} {ms : List (String × Mode)} {ts : List (String × Ty)}
    (h1 : lookup spec.structs T = some ms) (h2 : lookup env T = some ts) : fitsF env spec fuel ms ts = true := by
  have hm := lookup_mem spec.structs T ms h1
  simp only [tableOK, structsOK, Bool.and_eq_true, List.all_eq_true] at hok
  have := hok.1 (T, ms) hm
  simpa [h2] using this

theorem tableOK_dyn {env : Env} {spec : Spec} {fuel : Nat} (hok : tableOK env spec fuel = true)
    {t : Ty} {m : Mode} (h : lookupTy spec.dyn t = some m) : fits env spec fuel m t = true := by
  have hm := lookupTy_mem spec.dyn t m h
  simp only [tableOK, dynOK, Bool.and_eq_true, List.all_eq_true] at hok
  exact hok.2 (t, m) hm

theorem safe_nilv (spec : Spec) (m : Mode) : safe spec m .nilv = true := by
  cases m <;> simp [safe, addrs, erase, GoNode.isNil]

mutual
theorem clean_safe (env : Env) (spec : Spec) (fuel : Nat) (hok : tableOK env spec fuel = true) :
    ∀ (n : GoNode) (m : Mode) (t : Ty), fits env spec fuel m t = true → hasTy env t n = true →
      clean spec m n = true → safe spec m n = true
  | .imm v, m, t, hf, ht, hc => by
      cases m <;> first
        | (simp [safe, addrs]; done)
        | (simpa [safe, clean] using hc)
        | (cases t <;> simp [fits, hasTy] at hf ht)
        | (cases t with
            | ptr t' => cases t' <;> simp [fits, hasTy] at hf ht
            | _ => simp [fits, hasTy] at hf ht)
  | .nilv, m, t, hf, ht, hc => safe_nilv spec m
  | .slice a es, m, t, hf, ht, hc => by
      cases m with
      | byValue =>
          have := imm_no_addrs env (.slice a es) fuel t (by simpa [fits] using hf) ht
          simp [addrs] at this
      | shared => simpa [safe, clean] using hc
      | omitted => simpa [safe, clean] using hc
      | freshSlice m' =>
          cases t with
          | slice t' =>
              simp only [fits] at hf; simp only [hasTy] at ht; simp only [clean] at hc
              simp only [safe]; exact cleanL_safe env spec fuel hok es m' t' hf ht hc
          | _ => simp [fits] at hf
      | freshMap m' => cases t <;> simp [fits, hasTy] at hf ht
      | recur T => cases t <;> simp [fits, hasTy] at hf ht
      | viaPtrRec T =>
          cases t with
          | ptr t' => simp [hasTy] at ht
          | _ => simp [fits] at hf
      | dyn => cases t <;> simp [fits, hasTy] at hf ht
  | .gomap a es, m, t, hf, ht, hc => by
      cases m with
      | byValue =>
          have := imm_no_addrs env (.gomap a es) fuel t (by simpa [fits] using hf) ht
          simp [addrs] at this
      | shared => simpa [safe, clean] using hc
      | omitted => simpa [safe, clean] using hc
      | freshMap m' =>
          cases t with
          | map t' =>
              simp only [fits] at hf; simp only [hasTy] at ht; simp only [clean] at hc
              simp only [safe]; exact cleanE_safe env spec fuel hok es m' t' hf ht hc
          | _ => simp [fits] at hf
      | freshSlice m' => cases t <;> simp [fits, hasTy] at hf ht
      | recur T => cases t <;> simp [fits, hasTy] at hf ht
      | viaPtrRec T =>
          cases t with
          | ptr t' => simp [hasTy] at ht
          | _ => simp [fits] at hf
      | dyn => cases t <;> simp [fits, hasTy] at hf ht
  | .ptr a n, m, t, hf, ht, hc => by
      cases m with
      | byValue =>
          have := imm_no_addrs env (.ptr a n) fuel t (by simpa [fits] using hf) ht
          simp [addrs] at this
      | shared => simpa [safe, clean] using hc
      | omitted => simpa [safe, clean] using hc
      | viaPtrRec T =>
          cases t with
          | ptr t' =>
              cases t' with
              | named S =>
                  simp only [hasTy] at ht; simp only [clean] at hc
                  simp only [safe]
                  exact clean_safe env spec fuel hok n (.recur T) (.named S) (by simpa [fits] using hf) ht hc
              | _ => simp [fits] at hf
          | _ => simp [fits] at hf
      | freshSlice m' => cases t <;> simp [fits, hasTy] at hf ht
      | freshMap m' => cases t <;> simp [fits, hasTy] at hf ht
      | recur T => cases t <;> simp [fits, hasTy] at hf ht
      | dyn => cases t <;> simp [fits, hasTy] at hf ht
  | .iface td n, m, t, hf, ht, hc => by
      cases m with
      | byValue =>
          cases t <;> cases fuel <;> simp [fits, immTy, hasTy] at hf ht
      | shared => simpa [safe, clean] using hc
      | omitted => simpa [safe, clean] using hc
      | freshSlice m' => cases t <;> simp [fits, hasTy] at hf ht
      | freshMap m' => cases t <;> simp [fits, hasTy] at hf ht
      | recur T => cases t <;> simp [fits, hasTy] at hf ht
      | viaPtrRec T =>
          cases t with
          | ptr t' => simp [hasTy] at ht
          | _ => simp [fits] at hf
      | dyn =>
          cases t with
          | iface =>
              simp only [hasTy] at ht; simp only [clean] at hc
              simp only [safe]
              cases hl : lookupTy spec.dyn td with
              | none => simpa [hl] using hc
              | some m' =>
                  simp only [hl] at hc ⊢
                  exact clean_safe env spec fuel hok n m' td (tableOK_dyn hok hl) ht hc
          | _ => simp [fits] at hf
  | .struct s fs, m, t, hf, ht, hc => by
      cases m with
      | byValue =>
          have := imm_no_addrs env (.struct s fs) fuel t (by simpa [fits] using hf) ht
          simp [safe, this]
      | shared => simpa [safe, clean] using hc
      | omitted => simpa [safe, clean] using hc
      | recur T =>
          cases t with
          | named S =>
              simp only [fits, Bool.and_eq_true, beq_iff_eq] at hf
              obtain ⟨hTS, hsome⟩ := hf
              subst hTS
              simp only [hasTy, Bool.and_eq_true] at ht
              cases hl : lookup spec.structs T with
              | none => simp [hl] at hsome
              | some ms =>
                  cases he : lookup env T with
                  | none => simp [he] at ht
                  | some ts =>
                      simp only [he] at ht
                      simp only [clean, hl] at hc
                      simp only [safe, hl]
                      exact cleanF_safe env spec fuel hok fs ms ts (tableOK_entry hok hl he) ht.2 hc
          | _ => simp [fits] at hf
      | freshSlice m' => cases t <;> simp [fits, hasTy] at hf ht
      | freshMap m' => cases t <;> simp [fits, hasTy] at hf ht
      | viaPtrRec T =>
          cases t with
          | ptr t' => simp [hasTy] at ht
          | _ => simp [fits] at hf
      | dyn => cases t <;> simp [fits, hasTy] at hf ht
theorem cleanL_safe (env : Env) (spec : Spec) (fuel : Nat) (hok : tableOK env spec fuel = true) :
    ∀ (l : List GoNode) (m : Mode) (t : Ty), fits env spec fuel m t = true → hasTyL env t l = true →
      cleanL spec m l = true → safeL spec m l = true
  | [], _, _, _, _, _ => rfl
  | n :: r, m, t, hf, ht, hc => by
      simp only [hasTyL, cleanL, Bool.and_eq_true] at ht hc
      simp only [safeL, Bool.and_eq_true]
      exact ⟨clean_safe env spec fuel hok n m t hf ht.1 hc.1, cleanL_safe env spec fuel hok r m t hf ht.2 hc.2⟩
theorem cleanE_safe (env : Env) (spec : Spec) (fuel : Nat) (hok : tableOK env spec fuel = true) :
    ∀ (l : List (String × GoNode)) (m : Mode) (t : Ty), fits env spec fuel m t = true → hasTyE env t l = true →
      cleanE spec m l = true → safeE spec m l = true
  | [], _, _, _, _, _ => rfl
  | (g, n) :: r, m, t, hf, ht, hc => by
      simp only [hasTyE, cleanE, Bool.and_eq_true] at ht hc
      simp only [safeE, Bool.and_eq_true]
      exact ⟨clean_safe env spec fuel hok n m t hf ht.1 hc.1, cleanE_safe env spec fuel hok r m t hf ht.2 hc.2⟩
theorem cleanF_safe (env : Env) (spec : Spec) (fuel : Nat) (hok : tableOK env spec fuel = true) :
    ∀ (l : List (String × GoNode)) (ms : List (String × Mode)) (ts : List (String × Ty)),
      fitsF env spec fuel ms ts = true → hasTyF env ts l = true →
      cleanF spec ms l = true → safeF spec ms l = true
  | [], ms, _, _, _, _ => by cases ms <;> rfl
  | (g, n) :: r, [], ts, hf, ht, hc => by
      cases ts with
      | nil => simp [hasTyF] at ht
      | cons t ts => simp [fitsF] at hf
  | (g, n) :: r, (h, m) :: ms, [], hf, ht, hc => by simp [fitsF] at hf
  | (g, n) :: r, (h, m) :: ms, (h', t) :: ts, hf, ht, hc => by
      simp only [fitsF, hasTyF, cleanF, Bool.and_eq_true] at hf ht hc
      simp only [safeF, Bool.and_eq_true]
      exact ⟨clean_safe env spec fuel hok n m t hf.1.2 ht.1.2 hc.1,
             cleanF_safe env spec fuel hok r ms ts hf.2 ht.2 hc.2⟩
end

/-! ### a table without bad entries makes every well-typed value (over the universe) clean -/

theorem bad_free_entry {spec : Spec} (hb : badEntries spec = []) {T : String} {ms : List (String × Mode)}
    (h : lookup spec.structs T = some ms) : ∀ f ∈ ms, f.2.bad = false := by
  intro f hf
  have hm := lookup_mem spec.structs T ms h
  cases hbad : f.2.bad with
  | false => rfl
  | true =>
      have : (T, f.1, f.2) ∈ badEntries spec := by
        simp only [badEntries, List.mem_append, List.mem_flatMap, List.mem_map, List.mem_filter]
        exact Or.inl ⟨(T, ms), hm, f, ⟨hf, hbad⟩, rfl⟩
      rw [hb] at this; cases this

theorem bad_free_dyn {spec : Spec} (hb : badEntries spec = []) {t : Ty} {m : Mode}
    (h : lookupTy spec.dyn t = some m) : m.bad = false := by
  have hm := lookupTy_mem spec.dyn t m h
  cases hbad : m.bad with
  | false => rfl
  | true =>
      have : ("any", t.show, m) ∈ badEntries spec := by
        simp only [badEntries, List.mem_append, List.mem_map, List.mem_filter]
        exact Or.inr ⟨(t, m), ⟨hm, hbad⟩, rfl⟩
      rw [hb] at this; cases this

mutual
theorem good_clean (env : Env) (spec : Spec) (fuel : Nat) (U : List Ty)
    (hok : tableOK env spec fuel = true) (hb : badEntries spec = [])
    (hcov : dynCovers env spec fuel U = true) :
    ∀ (n : GoNode) (m : Mode) (t : Ty), m.bad = false → fits env spec fuel m t = true →
      hasTy env t n = true → dynIn U n = true → clean spec m n = true
  | .imm v, m, t, hm, hf, ht, hd => by cases m <;> simp [clean, Mode.bad] at hm ⊢
  | .nilv, m, t, hm, hf, ht, hd => by cases m <;> simp [clean, Mode.bad] at hm ⊢
  | .iface td n, m, t, hm, hf, ht, hd => by
      cases m with
      | dyn =>
          cases t with
          | iface =>
              simp only [hasTy] at ht
              simp only [dynIn, Bool.and_eq_true] at hd
              simp only [clean]
              cases hl : lookupTy spec.dyn td with
              | some m' =>
                  simp only []
                  exact good_clean env spec fuel U hok hb hcov n m' td (bad_free_dyn hb hl) (tableOK_dyn hok hl) ht hd.2
              | none =>
                  simp only []
                  have hmem : td ∈ U := by simpa using hd.1
                  simp only [dynCovers, List.all_eq_true] at hcov
                  have hi : immTy env fuel td = true := by simpa [hl] using hcov td hmem
                  simp [imm_no_addrs env n fuel td hi ht]
          | _ => simp [fits] at hf
      | _ => simp [clean, Mode.bad] at hm ⊢
  | .slice a es, m, t, hm, hf, ht, hd => by
      cases m with
      | freshSlice m' =>
          cases t with
          | slice t' =>
              simp only [Mode.bad] at hm; simp only [fits] at hf; simp only [hasTy] at ht; simp only [dynIn] at hd
              simp only [clean]; exact good_cleanL env spec fuel U hok hb hcov es m' t' hm hf ht hd
          | _ => simp [fits] at hf
      | _ => simp [clean, Mode.bad] at hm ⊢
  | .gomap a es, m, t, hm, hf, ht, hd => by
      cases m with
      | freshMap m' =>
          cases t with
          | map t' =>
              simp only [Mode.bad] at hm; simp only [fits] at hf; simp only [hasTy] at ht; simp only [dynIn] at hd
              simp only [clean]; exact good_cleanE env spec fuel U hok hb hcov es m' t' hm hf ht hd
          | _ => simp [fits] at hf
      | _ => simp [clean, Mode.bad] at hm ⊢
  | .ptr a n, m, t, hm, hf, ht, hd => by
      cases m with
      | viaPtrRec T =>
          cases t with
          | ptr t' =>
              cases t' with
              | named S =>
                  simp only [hasTy] at ht; simp only [dynIn] at hd
                  simp only [clean]
                  exact good_clean env spec fuel U hok hb hcov n (.recur T) (.named S) rfl (by simpa [fits] using hf) ht hd
              | _ => simp [fits] at hf
          | _ => simp [fits] at hf
      | _ => simp [clean, Mode.bad] at hm ⊢
  | .struct s fs, m, t, hm, hf, ht, hd => by
      cases m with
      | recur T =>
          cases t with
          | named S =>
              simp only [fits, Bool.and_eq_true, beq_iff_eq] at hf
              obtain ⟨hTS, hsome⟩ := hf
              subst hTS
              simp only [hasTy, Bool.and_eq_true] at ht
              simp only [dynIn] at hd
              cases hl : lookup spec.structs T with
              | none => simp [clean, hl]
              | some ms =>
                  cases he : lookup env T with
                  | none => simp [he] at ht
                  | some ts =>
                      simp only [he] at ht
                      simp only [clean, hl]
                      exact good_cleanF env spec fuel U hok hb hcov fs ms ts (bad_free_entry hb hl)
                        (tableOK_entry hok hl he) ht.2 hd
          | _ => simp [fits] at hf
      | _ => simp [clean, Mode.bad] at hm ⊢
theorem good_cleanL (env : Env) (spec : Spec) (fuel : Nat) (U : List Ty)
    (hok : tableOK env spec fuel = true) (hb : badEntries spec = [])
    (hcov : dynCovers env spec fuel U = true) :
    ∀ (l : List GoNode) (m : Mode) (t : Ty), m.bad = false → fits env spec fuel m t = true →
      hasTyL env t l = true → dynInL U l = true → cleanL spec m l = true
  | [], _, _, _, _, _, _ => rfl
  | n :: r, m, t, hm, hf, ht, hd => by
      simp only [hasTyL, dynInL, Bool.and_eq_true] at ht hd
      simp only [cleanL, Bool.and_eq_true]
      exact ⟨good_clean env spec fuel U hok hb hcov n m t hm hf ht.1 hd.1,
             good_cleanL env spec fuel U hok hb hcov r m t hm hf ht.2 hd.2⟩
theorem good_cleanE (env : Env) (spec : Spec) (fuel : Nat) (U : List Ty)
    (hok : tableOK env spec fuel = true) (hb : badEntries spec = [])
    (hcov : dynCovers env spec fuel U = true) :
    ∀ (l : List (String × GoNode)) (m : Mode) (t : Ty), m.bad = false → fits env spec fuel m t = true →
      hasTyE env t l = true → dynInE U l = true → cleanE spec m l = true
  | [], _, _, _, _, _, _ => rfl
  | (g, n) :: r, m, t, hm, hf, ht, hd => by
      simp only [hasTyE, dynInE, Bool.and_eq_true] at ht hd
      simp only [cleanE, Bool.and_eq_true]
      exact ⟨good_clean env spec fuel U hok hb hcov n m t hm hf ht.1 hd.1,
             good_cleanE env spec fuel U hok hb hcov r m t hm hf ht.2 hd.2⟩
theorem good_cleanF (env : Env) (spec : Spec) (fuel : Nat) (U : List Ty)
    (hok : tableOK env spec fuel = true) (hb : badEntries spec = [])
    (hcov : dynCovers env spec fuel U = true) :
    ∀ (l : List (String × GoNode)) (ms : List (String × Mode)) (ts : List (String × Ty)),
      (∀ f ∈ ms, f.2.bad = false) → fitsF env spec fuel ms ts = true → hasTyF env ts l = true →
      dynInE U l = true → cleanF spec ms l = true
  | [], ms, _, _, _, _, _ => by cases ms <;> rfl
  | (g, n) :: r, [], ts, hm, hf, ht, hd => by
      cases ts with
      | nil => simp [hasTyF] at ht
      | cons t ts => simp [fitsF] at hf
  | (g, n) :: r, (h, m) :: ms, [], hm, hf, ht, hd => by simp [fitsF] at hf
  | (g, n) :: r, (h, m) :: ms, (h', t) :: ts, hm, hf, ht, hd => by
      simp only [fitsF, hasTyF, dynInE, Bool.and_eq_true] at hf ht hd
      simp only [cleanF, Bool.and_eq_true]
      exact ⟨good_clean env spec fuel U hok hb hcov n m t (hm (h, m) List.mem_cons_self) hf.1.2 ht.1.2 hd.1,
             good_cleanF env spec fuel U hok hb hcov r ms ts (fun f hfm => hm f (List.mem_cons_of_mem _ hfm)) hf.2 ht.2 hd.2⟩
end

/-! ### statement-level definitions shared by the property files -/

/-- what "the copy is faithful and independent" means for one copy call -/
def Correct (spec : Spec) (m : Mode) (n : GoNode) (k : Addr) : Prop :=
  erase (copyNode spec m n k).1 = erase n ∧
  (∀ a ∈ addrs (copyNode spec m n k).1, a ∉ addrs n) ∧
  (∀ a ∈ addrs (copyNode spec m n k).1, ∀ f, write a f n = n) ∧
  (∀ a ∈ addrs n, ∀ f, write a f (copyNode spec m n k).1 = (copyNode spec m n k).1)

/-- the copy entry points (one per `DeepCopy` method): name, mode applied to the receiver, its type -/
abbrev Roots := List (String × Mode × Ty)

def rootsOK (env : Env) (spec : Spec) (fuel : Nat) (roots : Roots) : Bool :=
  roots.all (fun r => fits env spec fuel r.2.1 r.2.2)

/-- on a consistent table: every well-typed value that is clean at the shared/omitted
    positions is copied faithfully and independently -/
theorem correct_of_clean (env : Env) (spec : Spec) (fuel : Nat) (hok : tableOK env spec fuel = true)
    (m : Mode) (t : Ty) (hf : fits env spec fuel m t = true) (n : GoNode) (k : Addr)
    (ht : hasTy env t n = true) (hc : clean spec m n = true) (hb : ∀ a ∈ addrs n, a < k) :
    Correct spec m n k :=
  copy_faithful_independent spec m n k (clean_safe env spec fuel hok n m t hf ht hc) hb

end Cog.Heap
