/-
  What the JSON Schema front-end KEEPS of a typed scalar property of an object definition — its `default`, its constant
  (`const`, constant `pattern`), its constraint keywords, its `format` hint — and what the Go and Python pass chains
  keep of the struct object afterwards.  Used by the compositions with C10 (defaults / constants reach the generated
  constructors) and C08 (constraints reach the generated `Validate()`), Props/C10.lean and Props/C08.lean.

  `keeps_property`: no fragment condition on the rest of the schema — only the shape of the definition (an object with
  properties, no combinator) and of the property (a typed scalar, no combinator, no `enum`): the object the front-end
  declares for the definition is a struct with a field `k` of type `scalarOf a t` (`walkBool` / `walkString` /
  `walkNumber` of the property's keywords: `Default` with the dynamic Go type of utils.go, the constant value, the
  constraint list in the order of generator.go).
  `goChain_struct` / `pyChain_struct`: on `Plain` (`PlainPy`) front-end output the struct object after the regenerated
  Go (Python) chain is exactly its `NotRequiredFieldAsNullableType` image (Python: and `T | null` folded).
-/
import Cog.Front.JsonSchemaSoundMain
import Cog.Sem.WidenChain
import Cog.Sem.WidenPy
import Cog.Sem.GoValidate
namespace Cog.Front.JsonSchema
open Cog.IR Cog.Sem Cog.Sem.Src Cog.Passes
open NotRequiredFieldAsNullableType (vTy vFields fixField)

/-! ### the front-end -/

/-- an object definition with properties, read by `walkObject` as a struct -/
def isObjectNode : JS → Bool
  | .mk a _ _ _ props _ _ _ => noCombinator a && a.types == ["object"] && !props.isEmpty

/-- a typed scalar schema (`type` boolean / string / number / integer, no `$ref`, combinator or `enum`) -/
def scalarNode : JS → Option String
  | .mk a _ _ _ _ _ _ _ =>
    if noCombinator a then (match a.types with | [t] => if scalarTypeName t then some t else none | _ => none) else none

/-- the IR type `walkBool` / `walkString` / `walkNumber` build for a typed scalar -/
def scalarOf (a : JAttrs) (t : String) : Ty :=
  if t = "boolean" then walkBool a else if t = "string" then walkString a else walkNumber a t

def propsOf : JS → List (String × JS)
  | .mk _ _ _ _ props _ _ _ => props

theorem noCombinator_facts {a : JAttrs} (h : noCombinator a = true) :
    a.ref = none ∧ a.hasOneOf = false ∧ a.hasAnyOf = false ∧ a.hasAllOf = false ∧ a.enum = none := by
  simp only [noCombinator, Bool.and_eq_true, Bool.not_eq_true', Option.isNone_iff_eq_none] at h
  exact ⟨h.1.1.1.1, h.1.1.1.2, h.1.1.2, h.1.2, h.2⟩

theorem builds_scalar {pkg defs a oneOf anyOf allOf props addl items items2020 t T}
    (hn : scalarNode (.mk a oneOf anyOf allOf props addl items items2020) = some t)
    (hb : Builds pkg defs (.mk a oneOf anyOf allOf props addl items items2020) T) : T = scalarOf a t := by
  simp only [scalarNode] at hn
  split at hn
  · rename_i hnc
    obtain ⟨h1, h2, h3, h4, h5⟩ := noCombinator_facts hnc
    cases hty : a.types with
    | nil => simp [hty] at hn
    | cons t0 ts =>
      cases ts with
      | cons _ _ => simp [hty] at hn
      | nil =>
        simp only [hty] at hn
        split at hn
        · rename_i hst
          cases hn
          obtain ⟨k, st, st', hw⟩ := hb
          cases k with
          | zero => simp [walkDefinition] at hw
          | succ k =>
            unfold walkDefinition at hw
            simp only [h1, h2, h3, h4, h5, hty, Bool.false_eq_true, if_false] at hw
            simp only [scalarTypeName, Bool.or_eq_true, decide_eq_true_eq] at hst
            rcases hst with ((e | e) | e) | e <;> subst e <;> simp at hw <;> rw [← hw.1] <;> simp [scalarOf]
        · cases hn
  · cases hn

theorem builds_object {pkg defs a oneOf anyOf allOf props addl items items2020 T}
    (hn : isObjectNode (.mk a oneOf anyOf allOf props addl items items2020) = true)
    (hb : Builds pkg defs (.mk a oneOf anyOf allOf props addl items items2020) T) :
    ∃ fs, T = .struct (sortFields fs) [] none m0 ∧ FieldsBuilt pkg defs a.required props fs := by
  simp only [isObjectNode, Bool.and_eq_true, beq_iff_eq, Bool.not_eq_true'] at hn
  obtain ⟨⟨hnc, hty⟩, hpe⟩ := hn
  obtain ⟨h1, h2, h3, h4, h5⟩ := noCombinator_facts hnc
  obtain ⟨k, st, st', hw⟩ := hb
  cases k with
  | zero => simp [walkDefinition] at hw
  | succ k =>
    unfold walkDefinition at hw
    simp only [h1, h2, h3, h4, h5, hty, Bool.false_eq_true, if_false] at hw
    simp at hw
    unfold walkObject at hw
    simp only [hpe, Bool.false_eq_true, if_false] at hw
    obtain ⟨⟨fs, st1⟩, h6, h7⟩ := obind_ok hw
    simp at h7
    exact ⟨fs, h7.1.symm, walkProps_built a.required props st fs st1 h6⟩

theorem fieldsBuilt_mem {pkg defs req} : ∀ {ps : List (String × JS)} {fs : List Field}, FieldsBuilt pkg defs req ps fs →
    ∀ {p : String × JS}, p ∈ ps → ∃ f ∈ fs, f.name = p.1 ∧ f.required = req.contains p.1 ∧ Builds pkg defs p.2 f.ty
  | _, _, .nil, _, h => by cases h
  | _, _, .cons hx rest, p, h => by
    simp only [List.mem_cons] at h
    cases h with
    | inl e => subst e; exact ⟨_, by simp, hx⟩
    | inr e => obtain ⟨f, hf, r⟩ := fieldsBuilt_mem rest e; exact ⟨f, List.mem_cons_of_mem _ hf, r⟩

/-- THE FRONT-END KEEPS a typed scalar property: the struct the front-end declares for the object definition `name` (the root or any declared definition) has
    a field named like the property, required iff listed, whose type is `scalarOf` of the property's keywords -/
theorem keeps_property (pkg : String) (defs : Defs) (fuel : Nat) (root name : String) (S : Schemas)
    (hS : frontEnd pkg defs fuel (refTo root) = .ok S) (hdecl : (Schemas.locateObject S pkg name).isSome = true)
    {s : JS} (hroot : lookupDef defs name = some s) (hobj : isObjectNode s = true)
    {p : String × JS} (hp : p ∈ propsOf s) {t : String} (hsc : scalarNode p.2 = some t) :
    ∃ o fs f, Schemas.locateObject S pkg name = some o ∧ o.ty = .struct (sortFields fs) [] none m0 ∧
      o.selfPkg = pkg ∧ o.selfName = name ∧ f ∈ fs ∧ f.name = p.1 ∧
      f.required = s.attrs.required.contains p.1 ∧ f.ty = scalarOf p.2.attrs t ∧
      FieldsBuilt pkg defs s.attrs.required (propsOf s) fs := by
  obtain ⟨W, _⟩ := frontEnd_spec pkg defs fuel root S hS
  cases ho : Schemas.locateObject S pkg name with
  | none => simp [ho] at hdecl
  | some o =>
    obtain ⟨js, h1, h2⟩ := W.obj name o ho
    rw [hroot] at h1; cases h1
    obtain ⟨_, hsp, hsn⟩ := W.self name o ho
    obtain ⟨a, oneOf, anyOf, allOf, props, addl, items, items2020⟩ := s
    obtain ⟨fs, hT, hbuilt⟩ := builds_object hobj h2
    obtain ⟨f, hf, hname, hreq, hbf⟩ := fieldsBuilt_mem hbuilt (p := p) hp
    obtain ⟨k, sk⟩ := p
    obtain ⟨pa, po, pn, pl, pp, pad, pi, pi2⟩ := sk
    exact ⟨o, fs, f, rfl, hT, hsp, hsn, hf, hname, hreq, builds_scalar hsc hbf, hbuilt⟩

/-- the root definition is declared -/
theorem root_declared (pkg : String) (defs : Defs) (fuel : Nat) (root : String) (S : Schemas)
    (hS : frontEnd pkg defs fuel (refTo root) = .ok S) : (Schemas.locateObject S pkg root).isSome = true :=
  (frontEnd_spec pkg defs fuel root S hS).2

/-- the object the front-end declares for an object definition `name` (the root, or any definition it reaches): a
    struct whose fields are built property by property -/
theorem keeps_object (pkg : String) (defs : Defs) (fuel : Nat) (root name : String) (S : Schemas)
    (hS : frontEnd pkg defs fuel (refTo root) = .ok S) (hdecl : (Schemas.locateObject S pkg name).isSome = true)
    {s : JS} (hroot : lookupDef defs name = some s) (hobj : isObjectNode s = true) :
    ∃ o fs, Schemas.locateObject S pkg name = some o ∧ o.ty = .struct (sortFields fs) [] none m0 ∧
      o.selfPkg = pkg ∧ o.selfName = name ∧ FieldsBuilt pkg defs s.attrs.required (propsOf s) fs := by
  obtain ⟨W, _⟩ := frontEnd_spec pkg defs fuel root S hS
  cases ho : Schemas.locateObject S pkg name with
  | none => simp [ho] at hdecl
  | some o =>
    obtain ⟨js, h1, h2⟩ := W.obj name o ho
    rw [hroot] at h1; cases h1
    obtain ⟨_, hsp, hsn⟩ := W.self name o ho
    obtain ⟨a, oneOf, anyOf, allOf, props, addl, items, items2020⟩ := s
    obtain ⟨fs, hT, hbuilt⟩ := builds_object hobj h2
    exact ⟨o, fs, rfl, hT, hsp, hsn, hbuilt⟩

/-- the fields of a FLAT object definition (every property a typed scalar), from the source keywords alone -/
def rawFields (req : List String) : List (String × JS) → Option (List Field)
  | [] => some []
  | p :: ps =>
    match scalarNode p.2, rawFields req ps with
    | some t, some fs => some ({ name := p.1, ty := scalarOf p.2.attrs t, required := req.contains p.1 } :: fs)
    | _, _ => none

/-! ### what `scalarOf` carries (statements the compositions read) -/

/-- the value the source declares as default, with the dynamic Go type the generator gives it -/
def srcDefault (a : JAttrs) (t : String) : Val :=
  if t = "boolean" ∨ t = "string" then a.dflt.toVal else unwrapJSONNumber a.dflt

/-- the constant the source declares (`const`; for strings a constant `pattern` wins) -/
def srcConst (a : JAttrs) (t : String) : Val :=
  if t = "boolean" then constVal a else if t = "string" then stringValue a else numberValue a

/-- the constraint list of generator.go (`>=`, `>`, `<=`, `<` / `minLength`, `maxLength`, in that order) -/
def srcConstraints (a : JAttrs) (t : String) : List Constraint :=
  if t = "boolean" then [] else if t = "string" then stringConstraints a else numberConstraints a

def srcKind (t : String) : String :=
  if t = "boolean" then "bool" else if t = "string" then "string" else numberKind t

theorem scalarOf_eq (a : JAttrs) (t : String) :
    scalarOf a t = .scalar (srcKind t) (srcConst a t) (srcConstraints a t)
      { dflt := srcDefault a t, hints := if t = "string" then stringHints a else [] } := by
  unfold scalarOf srcKind srcConst srcConstraints srcDefault
  by_cases h1 : t = "boolean"
  · subst h1; simp [walkBool]
  · by_cases h2 : t = "string"
    · subst h2; simp [walkString]
    · by_cases h3 : t = "number"
      · subst h3; simp [walkNumber]
      · by_cases h4 : t = "integer"
        · subst h4; simp [walkNumber]
        · simp [h1, h2, h3, h4, walkNumber]

/-! ### the constraint keywords on DOCUMENTS (`jsValid` restricted to them), as violations with paths -/

/-- value × 4 of a bound, when that is an integer -/
def boundQuarters (b : Bound) : Option Int :=
  if b.den ≠ 0 ∧ (4 * b.num) % (b.den : Int) = 0 then some (4 * b.num / (b.den : Int)) else none

def numViol (cons : String) (bad : Int → Int → Bool) (q : Int) : Option Bound → Option (List Viol)
  | none => some []
  | some b =>
    match boundQuarters b with
    | some bq => some (if bad q bq then [{ path := [], op := cons, cons := cons, bound := bq }] else [])
    | none => none

/-- the violated constraint keywords of a typed scalar schema on a member value, in the order of generator.go;
    `none`: a bound that is not a multiple of 0.25 (outside the number model) -/
def kwViolations (a : JAttrs) (t : String) (w : Json) : Option (List Viol) :=
  match w with
  | .str s =>
    if t = "string" then
      some ((if a.minLength ≠ -1 ∧ (s.length : Int) < a.minLength then [{ path := [], op := ">=", cons := "minLength", bound := a.minLength * 4 }] else []) ++
            (if a.maxLength ≠ -1 ∧ a.maxLength < (s.length : Int) then [{ path := [], op := "<=", cons := "maxLength", bound := a.maxLength * 4 }] else []))
    else some []
  | .num q =>
    if t = "number" ∨ t = "integer" then
      match numViol ">=" (fun q b => decide (q < b)) q a.minimum, numViol ">" (fun q b => decide (q ≤ b)) q a.exclMinimum,
            numViol "<=" (fun q b => decide (b < q)) q a.maximum, numViol "<" (fun q b => decide (b ≤ q)) q a.exclMaximum with
      | some l1, some l2, some l3, some l4 => some (l1 ++ l2 ++ l3 ++ l4)
      | _, _, _, _ => none
    else some []
  | _ => some []

/-- the violations of the constraint keywords of a flat object definition in a document: per property (in key order) the
    violated keywords of the member, at the path of the member; absent and `null` members violate nothing -/
def jsViolations (s : JS) (j : Json) : Option (List Viol) :=
  match j with
  | .obj ms =>
    (propsOf s).foldr (fun p acc =>
      match acc, scalarNode p.2, Json.lookup p.1 ms with
      | some rest, some t, some w => (kwViolations p.2.attrs t w).map fun l => preAll (.fld p.1) l ++ rest
      | some rest, _, _ => some rest
      | none, _, _ => none) (some [])
  | _ => some []

/-! ### the Go chain on `Plain` front-end output -/

/-- a chain of passes that are the identity on `Plain` or PrefixEnumValues leaves every struct object as it is -/
theorem post_keeps_struct : ∀ (ps : List PassId), ps.all denKeeping = true → ∀ (S S' : Schemas), Plain S = true →
    runChain ps S = .ok S' → ∀ (pkg name : String) (o : Obj), Schemas.locateObject S pkg name = some o →
    o.ty.isStruct = true → Schemas.locateObject S' pkg name = some o
  | [], _, S, S', _, h, _, _, _, ho, _ => by simp [runChain] at h; subst h; exact ho
  | p :: ps, hps, S, S', hP, h, pkg, name, o, ho, hst => by
    simp only [List.all_cons, Bool.and_eq_true] at hps
    simp only [runChain] at h
    cases hr : p.run S with
    | ok S1 =>
      simp only [hr] at h
      have hk := hps.1
      simp only [denKeeping, Bool.or_eq_true, beq_iff_eq] at hk
      rcases hk with hk | hk
      · rw [idOnPlain_sound p hk S hP] at hr
        cases hr
        exact post_keeps_struct ps hps.2 S S' hP h pkg name o ho hst
      · subst hk
        have hrel := PEV_run_rel S S1 hr
        have hP1 : Plain S1 = true := schsRel_Plain S S1 hrel hP
        have hl := locateObject_schsRel pkg name S S1 hrel
        rw [ho] at hl
        cases ho1 : Schemas.locateObject S1 pkg name with
        | none => simp [lookupRel, ho1] at hl
        | some o1 =>
          simp only [lookupRel, ho1] at hl
          have e : o1 = o := by
            rcases hl.2 with e | ⟨vs, vs', m, h1, _, _⟩
            · exact e
            · rw [h1] at hst; simp [Ty.isStruct] at hst
          subst e
          exact post_keeps_struct ps hps.2 S1 S' hP1 h pkg name o1 ho1 hst
    | err e => simp [hr] at h
    | panic e => simp [hr] at h

/-- the struct object after a Go-shaped chain on `Plain` input: its NotRequiredFieldAsNullableType image -/
theorem chain_struct (ps : List PassId) (hok : plainChainOK ps = true) (S S' : Schemas)
    (hP : Plain S = true) (hrun : runChain ps S = .ok S') (pkg name : String) (o : Obj)
    (ho : Schemas.locateObject S pkg name = some o) (fs : List Field) (g : List Ty) (gi : Option (String × DisjInfo)) (m : Meta)
    (hty : o.ty = .struct fs g gi m) :
    Schemas.locateObject S' pkg name = some (setTy vTy o) ∧ (setTy vTy o).ty = .struct (vFields fs) g gi m := by
  simp only [plainChainOK] at hok
  cases hs : splitAtOpt ps with
  | none => simp [hs] at hok
  | some ab =>
    obtain ⟨pre, post⟩ := ab
    simp only [hs, Bool.and_eq_true] at hok
    rw [splitAtOpt_eq hs] at hrun
    obtain ⟨S1, h1, h2⟩ := runChain_append' pre _ S S' hrun
    have e1 : S1 = S := runChain_id pre hok.1 S S1 hP h1
    subst e1
    simp only [runChain, PassId.run, NotRequired_run_plain S1 hP] at h2
    have hP2 := nrS_Plain S1 hP
    have hl : Schemas.locateObject (nrS S1) pkg name = some (setTy vTy o) := by
      simp [nrS, locateObject_mapSchemas, ho]
    have hty' : (setTy vTy o).ty = .struct (vFields fs) g gi m := by simp [setTy, hty, vTy]
    exact ⟨post_keeps_struct post hok.2 (nrS S1) S' hP2 h2 pkg name _ hl (by rw [hty']; rfl), hty'⟩

/-- the output of a Python-shaped chain on `PlainN` input IS `pyS S` (the first half of `widen_py`, which needs no
    condition on defaults and constants) -/
theorem pyChain_exact (ps : List PassId) (hok : pyChainOK ps = true) (S S' : Schemas)
    (hPN : PlainN S = true) (hrun : runChain ps S = .ok S') : S' = pyS S := by
  simp only [pyChainOK] at hok
  cases hs : splitAtPass .notRequiredFieldAsNullableType ps with
  | none => simp [hs] at hok
  | some ab =>
    obtain ⟨pre, rest⟩ := ab
    simp only [hs, Bool.and_eq_true] at hok
    cases hs2 : splitAtPass .disjunctionWithNullToOptional rest with
    | none => simp [hs2] at hok
    | some cd =>
      obtain ⟨mid, rest2⟩ := cd
      simp only [hs2, Bool.and_eq_true] at hok
      cases hs3 : splitAtPass .renameNumericEnumValues rest2 with
      | none => simp [hs3] at hok
      | some ef =>
        obtain ⟨mid2, post⟩ := ef
        simp only [hs3, Bool.and_eq_true, List.isEmpty_iff] at hok
        obtain ⟨hpre, hmid, hmid2, hpost⟩ := hok
        subst hpost
        rw [splitAtPass_eq hs, splitAtPass_eq hs2, splitAtPass_eq hs3] at hrun
        obtain ⟨S1, h1, h2⟩ := runChain_append' pre _ S S' hrun
        have e1 : S1 = S := runChain_idN pre hpre S S1 hPN h1
        subst e1
        simp only [runChain, PassId.run, NotRequired_run_plainN S1 hPN] at h2
        have hP2 := nrS_PlainN S1 hPN
        obtain ⟨S2, h3, h4⟩ := runChain_append' mid _ (nrS S1) S' h2
        have e2 : S2 = nrS S1 := runChain_idN mid hmid _ S2 hP2 h3
        subst e2
        simp only [runChain, PassId.run, DisjunctionWithNullToOptional_run _ hP2] at h4
        have hP3 := nullOptS_PlainE _ hP2
        obtain ⟨S3, h5, h6⟩ := runChain_append' mid2 _ _ S' h4
        have e3 : S3 = nullOptS (nrS S1) := runChain_idE mid2 hmid2 _ S3 hP3 h5
        subst e3
        simp only [runChain, PassId.run, RenameNumericEnumValues_run, Outcome.ok.injEq] at h6
        rw [← h6]; rfl

/-- the image of a scalar-typed field: made nullable when it is not required -/
def imgField (f : Field) : Field := fixField f f.ty

theorem vFields_mem_scalar {f : Field} : ∀ {fs : List Field}, f ∈ fs → f.ty.isScalar = true → imgField f ∈ vFields fs
  | [], h, _ => by cases h
  | g :: gs, h, hs => by
    simp only [List.mem_cons] at h
    cases h with
    | inl e =>
      subst e
      have : vTy f.ty = f.ty := by cases hf : f.ty <;> simp_all [Ty.isScalar, vTy]
      simp [vFields, this, imgField]
    | inr e => simp only [vFields]; exact List.mem_cons_of_mem _ (vFields_mem_scalar e hs)

theorem vFields_names : ∀ fs : List Field, (vFields fs).map (·.name) = fs.map (·.name)
  | [] => rfl
  | f :: fs => by
    simp only [vFields, List.map_cons, vFields_names fs]
    congr 1
    unfold fixField; split <;> rfl

end Cog.Front.JsonSchema
